/-
  The MERGE LEMMA for C01/C03, part 2 (executors):
    * `execSet_val_char`: ExecuteSelectionSet = one value per response key (`gVal`), keys in order of
      first occurrence;
    * `execSet_merge` (specification side): executing `a ++ b` = `merge_value` of executing `a` and `b`;
    * `gVal_nary`: a key with n occurrences = left fold of `merge_value` over the single occurrences;
    * `container_val_eq_mergeable` / `run_val_eq_mergeable`: the executor model (one field future per
      occurrence, deep merge afterwards) returns the specification's data, repeated keys included.
-/
import AGV.Lemmas.ExecStaticMerge

namespace AGV.Lemmas.ExecStaticMerge
open AGV.Core AGV.Model.ExecStatic AGV.Lemmas.ExecStatic AGV.Lemmas.ExecStaticData
open AGV.Spec.Exec (FieldOcc complete execSet group mapIdx serializeLeaf doesApply excluded argValue)

-- ------------------------------------------------------------------ ExecuteSelectionSet, group by group

/-- the specification's value for the occurrences `g` of the response key `k` (one execution against
    the merged sub-selections) -/
def gVal (c : Model.ExecStatic.Ctx) (fuel : Nat) (rt : String) (id : Nat) (path : List PathSeg) (k : String)
    (g : List FieldOcc) : Option GValue :=
  match g with
  | [] => none
  | o :: rest =>
    if o.name = "__typename" then some (.str rt)
    else
      match c.S.field? rt o.name with
      | none => none
      | some fd =>
        (complete c.S (execSet (sc c) fuel) fd.ty (fieldRVal c id fd o) ((o :: rest).map (·.sels)).flatten
          (path ++ [.key k]) o.pos).val

def HasFieldG (c : Model.ExecStatic.Ctx) (rt : String) (g : List FieldOcc) : Prop :=
  ∃ o rest, g = o :: rest ∧ HasField c rt o

theorem gVal_single (c : Model.ExecStatic.Ctx) (fuel : Nat) (rt : String) (id : Nat) (path : List PathSeg) (o : FieldOcc) :
    gVal c fuel rt id path o.key [o] = fieldVal c fuel rt id path o := by
  by_cases ht : o.name = "__typename"
  · simp [gVal, fieldVal, ht]
  · cases hfd : c.S.field? rt o.name <;> simp [gVal, fieldVal, ht, hfd]

theorem fieldRVal_congr (c : Model.ExecStatic.Ctx) (id : Nat) (fd : FieldDef) (o o' : FieldOcc)
    (hn : o'.name = o.name) (ha : o'.args = o.args) : fieldRVal c id fd o' = fieldRVal c id fd o := by
  unfold fieldRVal
  rw [hn]
  have : ∀ a, argValue { S := c.S, d := c.d, vars := c.vars, w := c.w } fd o' a =
      argValue { S := c.S, d := c.d, vars := c.vars, w := c.w } fd o a := by
    intro a; simp [argValue, ha]
  split <;> simp_all

theorem gVal_erase (c : Model.ExecStatic.Ctx) (fuel : Nat) (rt : String) (id : Nat) (path : List PathSeg) (k : String)
    (g : List FieldOcc) : gVal c fuel rt id path k (g.map eraseSt) = gVal c fuel rt id path k g := by
  cases g with
  | nil => rfl
  | cons o rest =>
    have h1 : (eraseSt o).name = o.name := rfl
    have h2 : (eraseSt o).pos = o.pos := rfl
    have h3 : ((eraseSt o :: rest.map eraseSt).map (·.sels)) = ((o :: rest).map (·.sels)) := by
      simp [eraseSt, List.map_map, Function.comp_def]
    simp only [gVal, List.map_cons, h1, h2]
    split
    · rfl
    · cases hfd : c.S.field? rt o.name with
      | none => rfl
      | some fd =>
        simp only []
        rw [fieldRVal_congr c id fd o (eraseSt o) rfl rfl]
        simp only [List.map_cons] at h3
        rw [h3]

theorem execStep_group (c : Model.ExecStatic.Ctx) (fuel : Nat) (rt : String) (id : Nat) (path : List PathSeg)
    (acc : Acc) (g : String × List FieldOcc) (h : HasFieldG c rt g.2) :
    (execStep (sc c) fuel rt id path acc g).1 =
      acc.1 ++ ((gVal c fuel rt id path g.1 g.2).map (fun v => (g.1, v))).toList ∧
    (execStep (sc c) fuel rt id path acc g).2.2.2 = (acc.2.2.2 || (gVal c fuel rt id path g.1 g.2).isNone) := by
  obtain ⟨k, l⟩ := g
  obtain ⟨o, rest, hg, hf⟩ := h
  simp only at hg
  subst hg
  by_cases ht : o.name = "__typename"
  · simp [execStep, gVal, ht]
  · rcases hf with hf | ⟨fd, hfd⟩
    · exact absurd hf ht
    · have hrv : specRVal (sc c) id fd o = fieldRVal c id fd o := rfl
      cases hv : (complete c.S (execSet (sc c) fuel) fd.ty (fieldRVal c id fd o) ((o :: rest).map (·.sels)).flatten
          (path ++ [.key k]) o.pos).val with
      | none =>
        simp only [List.map_cons, List.flatten_cons] at hv
        simp [execStep, gVal, ht, hfd, hrv, hv]
      | some v =>
        simp only [List.map_cons, List.flatten_cons] at hv
        simp [execStep, gVal, ht, hfd, hrv, hv]

theorem execStep_fold_groups (c : Model.ExecStatic.Ctx) (fuel : Nat) (rt : String) (id : Nat) (path : List PathSeg)
    (gs : List (String × List FieldOcc)) (h : ∀ g ∈ gs, HasFieldG c rt g.2) :
    ∀ acc : Acc,
      (gs.foldl (execStep (sc c) fuel rt id path) acc).1 =
        acc.1 ++ gs.filterMap (fun g => (gVal c fuel rt id path g.1 g.2).map (fun v => (g.1, v))) ∧
      (gs.foldl (execStep (sc c) fuel rt id path) acc).2.2.2 =
        (acc.2.2.2 || gs.any (fun g => (gVal c fuel rt id path g.1 g.2).isNone)) := by
  induction gs with
  | nil => intro acc; simp
  | cons g gs ih =>
    intro acc
    obtain ⟨s1, s2⟩ := execStep_group c fuel rt id path acc g (h g (by simp))
    obtain ⟨r1, r2⟩ := ih (fun g' hg' => h g' (by simp [hg'])) (execStep (sc c) fuel rt id path acc g)
    simp only [List.foldl_cons]
    refine ⟨?_, ?_⟩
    · rw [r1, s1]
      cases hv : gVal c fuel rt id path g.1 g.2 <;> simp [hv]
    · rw [r2, s2]
      simp [Bool.or_assoc]

theorem ite_val (b : Bool) (a1 a2 : Res) : (if b = true then a1 else a2).val = if b = true then a1.val else a2.val := by
  cases b <;> rfl

theorem any_isNone_not_all {α} (f : α → Option GValue) (l : List α) :
    l.any (fun k => (f k).isNone) = !l.all (fun k => (f k).isSome) := by
  induction l with
  | nil => simp
  | cons o os ih => cases hv : f o <;> simp [hv, ih]

/-- ExecuteSelectionSet as "one value per response key, in order of first occurrence" -/
theorem execSet_val_char (c : Model.ExecStatic.Ctx) (H : DataHyps c) (fuel : Nat) (st rt : String) (id : Nat)
    (sels : List Sel) (path : List PathSeg) (hrt : IsObj c.S rt) (hst : doesApply c.S rt st = true)
    (hin : selsInert c.vars sels = true) (hnd : (spreads c.d (fuel + 1) sels).Nodup)
    (hHF : ∀ k ∈ (Model.ExecStatic.collect c rt (fuel + 1) st sels).map (·.key),
      HasFieldG c rt ((Model.ExecStatic.collect c rt (fuel + 1) st sels).filter (fun o => decide (o.key = k)))) :
    (execSet (sc c) (fuel + 1) rt id sels path).val =
      seqObj (dedup ((Model.ExecStatic.collect c rt (fuel + 1) st sels).map (·.key)))
        (fun k => gVal c fuel rt id path k ((Model.ExecStatic.collect c rt (fuel + 1) st sels).filter (fun o => decide (o.key = k)))) := by
  have hcol := (collect_agree c H.noDefect H.schema rt hrt H.frags (fuel + 1) st sels [] hst hin hnd
    (by intro n _; simp)).1
  generalize Model.ExecStatic.collect c rt (fuel + 1) st sels = O at *
  rw [execSet_succ, hcol, group_char]
  have hkeys : (O.map eraseSt).map (·.key) = O.map (·.key) := by
    rw [List.map_map]; rfl
  have hfilt : ∀ k, (O.map eraseSt).filter (fun o => decide (o.key = k)) = (O.filter (fun o => decide (o.key = k))).map eraseSt := by
    intro k
    rw [List.filter_map]
    rfl
  rw [hkeys]
  have hG : ∀ g ∈ (dedup (O.map (·.key))).map (fun k => (k, (O.map eraseSt).filter (fun o => decide (o.key = k)))),
      HasFieldG c rt g.2 := by
    intro g hg
    simp only [List.mem_map, mem_dedup] at hg
    obtain ⟨k, hk, rfl⟩ := hg
    obtain ⟨o, rest, e, hf⟩ := hHF k (by simpa using hk)
    simp only [hfilt, e, List.map_cons]
    exact ⟨eraseSt o, rest.map eraseSt, rfl, hf⟩
  obtain ⟨f1, f2⟩ := execStep_fold_groups c fuel rt id path _ hG ([], [], [], false)
  simp only [ite_val]
  rw [f1, f2]
  simp only [List.nil_append, Bool.false_or, List.any_map, List.filterMap_map, Function.comp_def, hfilt, gVal_erase]
  unfold seqObj
  rw [any_isNone_not_all]
  cases (dedup (O.map (·.key))).all (fun k => (gVal c fuel rt id path k (O.filter (fun o => decide (o.key = k)))).isSome) <;> simp

theorem execSet_val_shape (c : AGV.Spec.Exec.Ctx) (f : Nat) (rt : String) (id : Nat) (s : List Sel) (p : List PathSeg)
    (v : GValue) (h : (execSet c f rt id s p).val = some v) : (∃ o, v = GValue.obj o) ∧ 1 ≤ f := by
  cases f with
  | zero => simp [execSet] at h
  | succ f =>
    rw [execSet_succ] at h
    simp only [ite_val] at h
    split at h
    · simp at h
    · simp only [Option.some.injEq] at h
      exact ⟨⟨_, h.symm⟩, by omega⟩

/-- the induction hypothesis on fuel of `execSet_merge` -/
def ExecMerge (c : Model.ExecStatic.Ctx) (f : Nat) : Prop :=
  ∀ (st rt : String) (id : Nat) (a b : List Sel) (path : List PathSeg) (N : Nat),
    IsObj c.S rt → doesApply c.S rt st = true → selsInert c.vars a = true → selsInert c.vars b = true →
    MKP c f st rt (a ++ b) → 4 * f ≤ N →
    (execSet (sc c) f rt id (a ++ b) path).val =
      mergeO N (execSet (sc c) f rt id a path).val (execSet (sc c) f rt id b path).val

theorem mkp_hasFieldG (c : Model.ExecStatic.Ctx) (f : Nat) (st rt : String) (s : List Sel) (h : MKP c (f + 1) st rt s) :
    ∀ k ∈ (Model.ExecStatic.collect c rt (f + 1) st s).map (·.key),
      HasFieldG c rt ((Model.ExecStatic.collect c rt (f + 1) st s).filter (fun o => decide (o.key = k))) := by
  intro k hk
  have hne := filter_key_ne_nil _ k hk
  cases hfl : (Model.ExecStatic.collect c rt (f + 1) st s).filter (fun o => decide (o.key = k)) with
  | nil => exact absurd hfl hne
  | cons o rest =>
    have := h.2 (k, _) ((mem_group _ _).2 ⟨hk, rfl⟩) o rest hfl
    refine ⟨o, rest, rfl, ?_⟩
    rcases this.2 with ht | ⟨fd, hfd, _⟩
    · exact Or.inl ht
    · exact Or.inr ⟨fd, hfd⟩

theorem gVal_merge (c : Model.ExecStatic.Ctx) (H : DataHyps c) (f : Nat) (IH : ExecMerge c f) (rt : String) (id : Nat)
    (path : List PathSeg) (k : String) (oa : FieldOcc) (ra : List FieldOcc) (ob : FieldOcc) (rb : List FieldOcc)
    (hsame : ∀ o' ∈ ra ++ ob :: rb, o'.name = oa.name ∧ o'.args = oa.args)
    (hfield : oa.name = "__typename" ∨ ∃ fd, c.S.field? rt oa.name = some fd ∧ ((ra ++ ob :: rb) = [] ∨ listDepth fd.ty ≤ 3) ∧
        ∀ ty ∈ c.S.possibleTypes fd.ty.base, MKP c f fd.ty.base ty ((oa :: (ra ++ ob :: rb)).map (·.sels)).flatten)
    (hinA : ∀ o ∈ oa :: ra, selsInert c.vars o.sels = true) (hinB : ∀ o ∈ ob :: rb, selsInert c.vars o.sels = true)
    (N : Nat) (hN : 4 * f + 3 ≤ N) :
    gVal c f rt id path k ((oa :: ra) ++ (ob :: rb)) =
      mergeO N (gVal c f rt id path k (oa :: ra)) (gVal c f rt id path k (ob :: rb)) := by
  have hob := hsame ob (by simp)
  by_cases ht : oa.name = "__typename"
  · have ht' : ob.name = "__typename" := hob.1.trans ht
    simp only [List.cons_append, gVal, ht, ht', if_true, mergeO]
    rw [merge_scalar _ _ _ _ rfl]
  · rcases hfield with h | ⟨fd, hfd, hld, hrec⟩
    · exact absurd h ht
    · have ht' : ¬ ob.name = "__typename" := by rw [hob.1]; exact ht
      have hfd' : c.S.field? rt ob.name = some fd := by rw [hob.1]; exact hfd
      have hld' : listDepth fd.ty ≤ 3 := by
        rcases hld with h | h
        · simp at h
        · exact h
      have hrv : fieldRVal c id fd ob = fieldRVal c id fd oa := fieldRVal_congr c id fd oa ob hob.1 hob.2
      have hflat : (((oa :: ra) ++ (ob :: rb)).map (·.sels)).flatten =
          ((oa :: ra).map (·.sels)).flatten ++ ((ob :: rb).map (·.sels)).flatten := by
        rw [List.map_append, List.flatten_append]
      have hinA' : selsInert c.vars ((oa :: ra).map (·.sels)).flatten = true := by
        apply selsInert_flatten
        intro l hl
        simp only [List.mem_map] at hl
        obtain ⟨o, ho, rfl⟩ := hl
        exact hinA o ho
      have hinB' : selsInert c.vars ((ob :: rb).map (·.sels)).flatten = true := by
        apply selsInert_flatten
        intro l hl
        simp only [List.mem_map] at hl
        obtain ⟨o, ho, rfl⟩ := hl
        exact hinB o ho
      have key := complete_merge c.S (execSet (sc c) f) ((oa :: ra).map (·.sels)).flatten ((ob :: rb).map (·.sels)).flatten
        (4 * f) fd.ty.base
        (fun ty id' p v hv => by
          obtain ⟨h1, h2⟩ := execSet_val_shape _ _ _ _ _ _ _ hv
          exact ⟨h1, by omega⟩)
        (fun ty id' p hc => by
          obtain ⟨⟨o, ho⟩, _⟩ := execSet_val_shape _ _ _ _ _ _ _ hc
          simp at ho)
        (fun ty hty id' p N' hN' => by
          obtain ⟨hobj, happ⟩ := H.schema.possible _ _ hty
          apply IH fd.ty.base ty id' _ _ p N' hobj happ hinA' hinB' ?_ hN'
          have := hrec ty hty
          rw [← List.cons_append, hflat] at this
          exact this)
        fd.ty rfl (fieldRVal c id fd oa) (path ++ [.key k]) oa.pos ob.pos oa.pos N (by omega)
      have hl : gVal c f rt id path k ((oa :: ra) ++ (ob :: rb)) =
          (complete c.S (execSet (sc c) f) fd.ty (fieldRVal c id fd oa)
            (((oa :: ra).map (·.sels)).flatten ++ ((ob :: rb).map (·.sels)).flatten) (path ++ [.key k]) oa.pos).val := by
        rw [← hflat]
        simp only [List.cons_append, gVal, ht, hfd, if_false]
      have hx : gVal c f rt id path k (oa :: ra) =
          (complete c.S (execSet (sc c) f) fd.ty (fieldRVal c id fd oa)
            ((oa :: ra).map (·.sels)).flatten (path ++ [.key k]) oa.pos).val := by
        simp only [gVal, ht, hfd, if_false]
      have hy : gVal c f rt id path k (ob :: rb) =
          (complete c.S (execSet (sc c) f) fd.ty (fieldRVal c id fd oa)
            ((ob :: rb).map (·.sels)).flatten (path ++ [.key k]) ob.pos).val := by
        simp only [gVal, ht', hfd', if_false, hrv]
      rw [hl, hx, hy]
      exact key.1

/-- MERGE LEMMA (specification side): executing the union `a ++ b` of two selection sets on an object
    gives the `merge_value` of the two separate executions (or propagates when either does) -/
theorem execSet_merge (c : Model.ExecStatic.Ctx) (H : DataHyps c) : ∀ f, ExecMerge c f := by
  intro f
  induction f with
  | zero =>
    intro st rt id a b path N _ _ _ _ _ _
    simp [execSet, mergeO]
  | succ f ih =>
    intro st rt id a b path N hrt hst hina hinb hmk hN
    obtain ⟨mka, mkb⟩ := mkp_split c (f + 1) st rt a b hmk
    have hinab : selsInert c.vars (a ++ b) = true := by rw [selsInert_append, hina, hinb]; rfl
    rw [execSet_val_char c H f st rt id (a ++ b) path hrt hst hinab hmk.1 (mkp_hasFieldG c f st rt _ hmk),
      execSet_val_char c H f st rt id a path hrt hst hina mka.1 (mkp_hasFieldG c f st rt _ mka),
      execSet_val_char c H f st rt id b path hrt hst hinb mkb.1 (mkp_hasFieldG c f st rt _ mkb)]
    have hgrp := hmk.2
    have hinOa := collect_inert c rt H.frags (f + 1) st a hina
    have hinOb := collect_inert c rt H.frags (f + 1) st b hinb
    rw [collect_append] at hgrp ⊢
    generalize Model.ExecStatic.collect c rt (f + 1) st a = Oa at *
    generalize Model.ExecStatic.collect c rt (f + 1) st b = Ob at *
    obtain ⟨N', rfl⟩ : ∃ N', N = N' + 1 := ⟨N - 1, by omega⟩
    rw [List.map_append, dedup_append]
    have hfc : (dedup (Ob.map (·.key))).filter (fun k => decide (k ∉ Oa.map (·.key))) =
        (dedup (Ob.map (·.key))).filter (fun k => decide (k ∉ dedup (Oa.map (·.key)))) := by
      apply List.filter_congr
      intro k _
      simp [mem_dedup]
    rw [hfc]
    simp only [List.filter_append]
    apply seqObj_merge N' _ _ (dedup_nodup _)
    · -- the key occurs in both parts
      intro k hka hkb
      rw [mem_dedup] at hka hkb
      have hnea := filter_key_ne_nil _ k hka
      have hneb := filter_key_ne_nil _ k hkb
      cases hfa : Oa.filter (fun o => decide (o.key = k)) with
      | nil => exact absurd hfa hnea
      | cons oa ra =>
        cases hfb : Ob.filter (fun o => decide (o.key = k)) with
        | nil => exact absurd hfb hneb
        | cons ob rb =>
          have hg := hgrp (k, (Oa ++ Ob).filter (fun o => decide (o.key = k)))
            ((mem_group _ _).2 ⟨by simp only [List.map_append, List.mem_append]; exact Or.inl hka, rfl⟩)
            oa (ra ++ ob :: rb) (by simp only [List.filter_append, hfa, hfb]; rfl)
          apply gVal_merge c H f ih rt id path k oa ra ob rb hg.1 hg.2 ?_ ?_ N' (by omega)
          · intro o ho
            exact hinOa o (List.mem_filter.1 (by rw [hfa]; exact ho)).1
          · intro o ho
            exact hinOb o (List.mem_filter.1 (by rw [hfb]; exact ho)).1
    · intro k _ hkb
      rw [mem_dedup] at hkb
      have : Ob.filter (fun o => decide (o.key = k)) = [] := by
        rw [List.filter_eq_nil_iff]
        intro o ho hc
        exact hkb (by simp only [List.mem_map]; exact ⟨o, ho, by simpa using hc⟩)
      simp only [this, List.append_nil]
    · intro k _ hka
      rw [mem_dedup] at hka
      have : Oa.filter (fun o => decide (o.key = k)) = [] := by
        rw [List.filter_eq_nil_iff]
        intro o ho hc
        exact hka (by simp only [List.mem_map]; exact ⟨o, ho, by simpa using hc⟩)
      simp only [this, List.nil_append]

-- ------------------------------------------------------------------ all occurrences of one key

def mergeAllO (N : Nat) : List (Option GValue) → Option GValue
  | [] => none
  | x :: xs => xs.foldl (mergeO N) x

theorem mergeAllO_snoc (N : Nat) (x : Option GValue) (xs : List (Option GValue)) (y : Option GValue) :
    mergeAllO N ((x :: xs) ++ [y]) = mergeO N (mergeAllO N (x :: xs)) y := by
  simp [mergeAllO, List.foldl_append]

theorem foldl_mergeO_none (N : Nat) (xs : List (Option GValue)) : xs.foldl (mergeO N) none = none := by
  induction xs with
  | nil => rfl
  | cons y ys ih => simp [List.foldl_cons, mergeO_none_left, ih]

theorem foldl_mergeO_of_none (N : Nat) (xs : List (Option GValue)) (h : none ∈ xs) : ∀ x, xs.foldl (mergeO N) x = none := by
  induction xs with
  | nil => simp at h
  | cons y ys ih =>
    intro x
    simp only [List.mem_cons] at h
    rcases h with h | h
    · subst h; simp [List.foldl_cons, mergeO_none_right, foldl_mergeO_none]
    · simp only [List.foldl_cons]; exact ih h _

theorem mergeAllO_of_none (N : Nat) (l : List (Option GValue)) (h : none ∈ l) : mergeAllO N l = none := by
  cases l with
  | nil => rfl
  | cons x xs =>
    simp only [List.mem_cons] at h
    rcases h with h | h
    · subst h; simp [mergeAllO, foldl_mergeO_none]
    · exact foldl_mergeO_of_none N xs h x

theorem foldl_mergeO_some (N : Nat) (vs : List GValue) : ∀ v : GValue,
    (vs.map some).foldl (mergeO N) (some v) = some (vs.foldl (merge false N) v) := by
  induction vs with
  | nil => intro v; rfl
  | cons w ws ih => intro v; simp only [List.map_cons, List.foldl_cons, mergeO]; exact ih _

theorem mergeAllO_some (N : Nat) (vs : List GValue) (h : vs ≠ []) :
    mergeAllO N (vs.map some) = some (mergeAll (merge false N) vs) := by
  cases vs with
  | nil => exact absurd rfl h
  | cons v ws => exact foldl_mergeO_some N ws v

/-- the specification's value for a key with several occurrences is the left fold of `merge_value` over the
    values of the single occurrences (each executed on its own sub-selections) -/
theorem gVal_nary (c : Model.ExecStatic.Ctx) (H : DataHyps c) (f : Nat) (rt : String) (id : Nat)
    (path : List PathSeg) (k : String) (o0 : FieldOcc) (N : Nat) (hN : 4 * f + 3 ≤ N) :
    ∀ (rest : List FieldOcc),
      (∀ o ∈ o0 :: rest, o.key = k) →
      (∀ o' ∈ rest, o'.name = o0.name ∧ o'.args = o0.args) →
      (o0.name = "__typename" ∨ ∃ fd, c.S.field? rt o0.name = some fd ∧ (rest = [] ∨ listDepth fd.ty ≤ 3) ∧
        ∀ ty ∈ c.S.possibleTypes fd.ty.base, MKP c f fd.ty.base ty ((o0 :: rest).map (·.sels)).flatten) →
      (∀ o ∈ o0 :: rest, selsInert c.vars o.sels = true) →
      gVal c f rt id path k (o0 :: rest) = mergeAllO N ((o0 :: rest).map (fieldVal c f rt id path)) := by
  intro rest
  induction rest using snoc_ind with
  | h0 =>
    intro hk _ _ _
    have := hk o0 (by simp)
    subst this
    simp [mergeAllO, gVal_single]
  | h1 r o ih =>
    intro hk hsame hfield hin
    have hko : o.key = k := hk o (by simp)
    have hstep := gVal_merge c H f (execSet_merge c H f) rt id path k o0 r o [] hsame hfield
      (fun x hx => hin x (by simp only [List.mem_cons, List.mem_append] at hx ⊢; rcases hx with h | h; exact Or.inl h; exact Or.inr (Or.inl h)))
      (fun x hx => hin x (by simp only [List.mem_cons, List.mem_append, List.not_mem_nil, or_false] at hx ⊢; exact Or.inr (Or.inr hx)))
      N hN
    have hfield' : o0.name = "__typename" ∨ ∃ fd, c.S.field? rt o0.name = some fd ∧ (r = [] ∨ listDepth fd.ty ≤ 3) ∧
        ∀ ty ∈ c.S.possibleTypes fd.ty.base, MKP c f fd.ty.base ty ((o0 :: r).map (·.sels)).flatten := by
      rcases hfield with h | ⟨fd, hfd, hld, hrec⟩
      · exact Or.inl h
      · refine Or.inr ⟨fd, hfd, ?_, ?_⟩
        · rcases hld with h | h
          · simp at h
          · exact Or.inr h
        · intro ty hty
          have := hrec ty hty
          rw [← List.cons_append, List.map_append, List.flatten_append] at this
          exact (mkp_split c f _ _ _ _ this).1
    have ih' := ih (fun x hx => hk x (by simp only [List.mem_cons, List.mem_append] at hx ⊢; rcases hx with h | h; exact Or.inl h; exact Or.inr (Or.inl h)))
      (fun x hx => hsame x (by simp [hx])) hfield'
      (fun x hx => hin x (by simp only [List.mem_cons, List.mem_append] at hx ⊢; rcases hx with h | h; exact Or.inl h; exact Or.inr (Or.inl h)))
    rw [← List.cons_append, hstep, ih', List.map_append, List.map_cons, List.map_cons, List.map_nil, mergeAllO_snoc,
      ← hko, gVal_single]

/-- what `MKP` says about the group of a collected occurrence -/
theorem mkp_group_of_mem (c : Model.ExecStatic.Ctx) (f : Nat) (st rt : String) (s : List Sel) (h : MKP c (f + 1) st rt s)
    (k : String) (hk : k ∈ (Model.ExecStatic.collect c rt (f + 1) st s).map (·.key)) :
    ∃ o0 rest, (Model.ExecStatic.collect c rt (f + 1) st s).filter (fun o => decide (o.key = k)) = o0 :: rest ∧
      (∀ o' ∈ rest, o'.name = o0.name ∧ o'.args = o0.args) ∧
      (o0.name = "__typename" ∨ ∃ fd, c.S.field? rt o0.name = some fd ∧ (rest = [] ∨ listDepth fd.ty ≤ 3) ∧
        ∀ ty ∈ c.S.possibleTypes fd.ty.base, MKP c f fd.ty.base ty ((o0 :: rest).map (·.sels)).flatten) := by
  have hne := filter_key_ne_nil _ k hk
  cases hfl : (Model.ExecStatic.collect c rt (f + 1) st s).filter (fun o => decide (o.key = k)) with
  | nil => exact absurd hfl hne
  | cons o rest =>
    have := h.2 (k, _) ((mem_group _ _).2 ⟨hk, rfl⟩) o rest hfl
    exact ⟨o, rest, rfl, this.1, this.2⟩

theorem filterMap_fieldVal (fv : FieldOcc → Option GValue) (v : FieldOcc → GValue) (O : List FieldOcc)
    (h : ∀ o ∈ O, fv o = some (v o)) :
    O.filterMap (fun o => (fv o).map (fun w => (o.key, w))) = O.map (fun o => (o.key, v o)) := by
  induction O with
  | nil => rfl
  | cons o os ih =>
    simp only [List.filterMap_cons, h o (by simp), Option.map_some, List.map_cons]
    rw [ih (fun x hx => h x (by simp [hx]))]

/-- DATA EQUALITY with repeated response keys: executing every occurrence separately and deep-merging
    the results (`resolve_container` + `insert_value`) gives the data of the specification's single
    execution of the merged selection sets -/
theorem container_val_eq_mergeable (c : Model.ExecStatic.Ctx) (H : DataHyps c) :
    ∀ (fuel : Nat) (st rt : String) (id : Nat) (sels : List Sel) (path : List PathSeg),
      IsObj c.S rt → doesApply c.S rt st = true → selsInert c.vars sels = true →
      MKP c fuel st rt sels →
      (resolveContainer c fuel st rt id sels path).val = (execSet (sc c) fuel rt id sels path).val := by
  intro fuel
  induction fuel with
  | zero => intro st rt id sels path _ _ _ _; simp [resolveContainer, execSet]
  | succ fuel ih =>
    intro st rt id sels path hrt hst hin hmk
    have hinO := collect_inert c rt H.frags (fuel + 1) st sels hin
    have hgrpO := mkp_group_of_mem c fuel st rt sels hmk
    rw [execSet_val_char c H fuel st rt id sels path hrt hst hin hmk.1 (mkp_hasFieldG c fuel st rt _ hmk)]
    simp only [resolveContainer]
    generalize hO : Model.ExecStatic.collect c rt (fuel + 1) st sels = O at *
    -- every occurrence: the group it belongs to
    have hocc : ∀ occ ∈ O, HasField c rt occ ∧ (∀ fd, occ.name ≠ "__typename" → c.S.field? rt occ.name = some fd →
        ∀ ty ∈ c.S.possibleTypes fd.ty.base, MKP c fuel fd.ty.base ty occ.sels) := by
      intro occ hoccm
      obtain ⟨o0, rest, hfl, hsame, hfield⟩ := hgrpO occ.key (List.mem_map_of_mem hoccm)
      have hmem : occ ∈ o0 :: rest := by rw [← hfl]; exact List.mem_filter.2 ⟨hoccm, by simp⟩
      have hname : occ.name = o0.name := by
        simp only [List.mem_cons] at hmem
        rcases hmem with rfl | hm
        · rfl
        · exact (hsame occ hm).1
      refine ⟨?_, ?_⟩
      · rcases hfield with h | ⟨fd, hfd, _⟩
        · exact Or.inl (hname.trans h)
        · exact Or.inr ⟨fd, by rw [hname]; exact hfd⟩
      · intro fd hnt hfd ty hty
        rcases hfield with h | ⟨fd', hfd', _, hrec⟩
        · exact absurd (hname.trans h) hnt
        · rw [hname, hfd'] at hfd
          cases hfd
          exact mkp_flatten_mem c fuel _ _ _ (hrec ty hty) occ.sels (List.mem_map_of_mem hmem)
    have hRF : ∀ occ ∈ O,
        (runField c (resolveContainer c fuel) rt id path occ).val =
          (fieldVal c fuel rt id path occ).map (fun v => GValue.obj [(occ.key, v)]) := by
      intro occ hoccm
      apply runField_val c H.noDefect H.builtins fuel rt id path occ ?_ (fun fd hfd => H.floats rt id fd occ hfd) (hocc occ hoccm).1
      intro fd hnt hfd ty id' p hty
      have hty' : ty ∈ c.S.possibleTypes fd.ty.base := by simpa using hty
      obtain ⟨hobj, happ⟩ := H.schema.possible _ _ hty'
      exact ih fd.ty.base ty id' occ.sels p hobj happ (hinO occ hoccm) ((hocc occ hoccm).2 fd hnt hfd ty hty')
    -- the specification's value of a key = fold of merge over the occurrences' values
    have hN : 4 * fuel + 3 ≤ 4 * (fuel + 1) := by omega
    have hgv : ∀ k ∈ O.map (·.key), gVal c fuel rt id path k (O.filter (fun o => decide (o.key = k))) =
        mergeAllO (4 * (fuel + 1)) ((O.filter (fun o => decide (o.key = k))).map (fieldVal c fuel rt id path)) := by
      intro k hk
      obtain ⟨o0, rest, hfl, hsame, hfield⟩ := hgrpO k hk
      rw [hfl]
      apply gVal_nary c H fuel rt id path k o0 _ hN rest ?_ hsame hfield ?_
      · intro o ho
        have := (List.mem_filter.1 (by rw [hfl]; exact ho : o ∈ O.filter (fun o => decide (o.key = k)))).2
        simpa using this
      · intro o ho
        exact hinO o (List.mem_filter.1 (by rw [hfl]; exact ho : o ∈ O.filter (fun o => decide (o.key = k)))).1
    have hall : (joinAll (O.map (fun occ => fun (_ : Unit) => runField c (resolveContainer c fuel) rt id path occ))).all (·.val.isSome) =
        O.all (fun o => (fieldVal c fuel rt id path o).isSome) := by
      rw [joinAll_all, List.all_map]
      apply all_congr_mem
      intro o ho
      simp [hRF o ho]
    rw [hall]
    cases hA : O.all (fun o => (fieldVal c fuel rt id path o).isSome) with
    | false =>
      -- some occurrence propagates an error: so does its key
      obtain ⟨o, ho, hn⟩ := List.all_eq_false.1 hA
      have hnone : fieldVal c fuel rt id path o = none := by
        cases h : fieldVal c fuel rt id path o <;> simp_all
      have hk : o.key ∈ O.map (·.key) := List.mem_map_of_mem ho
      have hgn : gVal c fuel rt id path o.key (O.filter (fun o' => decide (o'.key = o.key))) = none := by
        rw [hgv _ hk]
        apply mergeAllO_of_none
        simp only [List.mem_map]
        exact ⟨o, List.mem_filter.2 ⟨ho, by simp⟩, hnone⟩
      have : (dedup (O.map (·.key))).all (fun k => (gVal c fuel rt id path k (O.filter (fun o => decide (o.key = k)))).isSome) = false := by
        rw [List.all_eq_false]
        exact ⟨o.key, (mem_dedup _ _).2 hk, by rw [hgn]; simp⟩
      simp [seqObj, this]
    | true =>
      rw [List.all_eq_true] at hA
      let v : FieldOcc → GValue := fun o => (fieldVal c fuel rt id path o).getD .null
      have hv : ∀ o ∈ O, fieldVal c fuel rt id path o = some (v o) := by
        intro o ho
        have := hA o ho
        cases h : fieldVal c fuel rt id path o <;> simp_all [v]
      have hj := joinAll_eq_of_all (O.map (fun occ => fun (_ : Unit) => runField c (resolveContainer c fuel) rt id path occ)) (by
        rw [List.all_map, List.all_eq_true]
        intro o ho
        simp [hRF o ho, hv o ho])
      rw [hj, List.map_map]
      have hk := kvs_fold (fun occ => runField c (resolveContainer c fuel) rt id path occ) (fieldVal c fuel rt id path) O hRF
      have hcomp : ((fun f : Unit → Res => f ()) ∘ fun occ => fun (_ : Unit) => runField c (resolveContainer c fuel) rt id path occ) =
          (fun occ => runField c (resolveContainer c fuel) rt id path occ) := rfl
      have hkvs := filterMap_fieldVal (fieldVal c fuel rt id path) v O hv
      rw [hcomp, hk, hkvs, createValueObject_group, groupKV_char]
      have hD : c.D.mergeKeepsPartialOnNull = false := by rw [H.noDefect]; rfl
      rw [hD]
      have hgs : ∀ k ∈ dedup (O.map (·.key)), gVal c fuel rt id path k (O.filter (fun o => decide (o.key = k))) =
          some (mergeAll (merge false (4 * (fuel + 1))) ((O.filter (fun o => decide (o.key = k))).map v)) := by
        intro k hk'
        have hk'' := (mem_dedup _ _).1 hk'
        rw [hgv k hk'']
        have : (O.filter (fun o => decide (o.key = k))).map (fieldVal c fuel rt id path) =
            ((O.filter (fun o => decide (o.key = k))).map v).map some := by
          rw [List.map_map]
          apply List.map_congr_left
          intro o ho
          exact hv o (List.mem_filter.1 ho).1
        rw [this]
        apply mergeAllO_some
        intro hc
        exact filter_key_ne_nil O k hk'' (by simpa using hc)
      unfold seqObj
      have hall2 : (dedup (O.map (·.key))).all (fun k => (gVal c fuel rt id path k (O.filter (fun o => decide (o.key = k)))).isSome) = true := by
        rw [List.all_eq_true]
        intro k hk'
        rw [hgs k hk']; rfl
      rw [if_pos hall2, if_pos (by rfl)]
      rw [filterMap_of_some _ _ (fun k => mergeAll (merge false (4 * (fuel + 1))) ((O.filter (fun o => decide (o.key = k))).map v)) hgs]
      simp only [List.map_map, Function.comp_def, Option.some.injEq, GValue.obj.injEq]
      apply List.map_congr_left
      intro k _
      simp only [Prod.mk.injEq, true_and]
      congr 1
      rw [List.filter_map, List.map_map]
      rfl

/-- DATA EQUALITY, request level, repeated response keys included -/
theorem run_val_eq_mergeable (S : Schema) (d : Doc) (opName : Option String) (raw : List (String × GValue)) (w : World)
    (fuel : Nat)
    (H : ∀ op, AGV.Spec.Exec.selectOp d opName = some op →
      IsObj S (rootOf S op) ∧ DataHyps (runCtx S d op raw w) ∧
      selsInert (AGV.Spec.Exec.coerceVars op.vars raw) op.sels = true ∧
      mergeableKeys (runCtx S d op raw w) fuel (rootOf S op) (rootOf S op) op.sels = true) :
    (Model.ExecStatic.run Defects.none S d opName raw w fuel).val = (AGV.Spec.Exec.run S d opName raw w fuel).val := by
  unfold Model.ExecStatic.run AGV.Spec.Exec.run
  cases hop : AGV.Spec.Exec.selectOp d opName with
  | none => rfl
  | some op =>
    obtain ⟨hroot, hdata, hin, hmk⟩ := H op hop
    have hsv : skipVars Defects.none op.vars raw = AGV.Spec.Exec.coerceVars op.vars raw := rfl
    have hfr := hdata.frags
    have hd : ({ ops := d.ops, frags := d.frags.map (fun f =>
        { f with sels := prune (AGV.Spec.Exec.coerceVars op.vars raw) fuel f.sels }) } : Doc) = d := by
      have : d.frags.map (fun f => ({ f with sels := prune (AGV.Spec.Exec.coerceVars op.vars raw) fuel f.sels } : FragDef)) = d.frags := by
        conv => rhs; rw [← List.map_id d.frags]
        apply List.map_congr_left
        intro f hf
        have := prune_inert (AGV.Spec.Exec.coerceVars op.vars raw) fuel f.sels (hfr f hf)
        simp [this]
      rw [this]
    simp only [hsv, hd, prune_inert _ fuel op.sels hin]
    exact container_val_eq_mergeable (runCtx S d op raw w) hdata fuel (rootOf S op) (rootOf S op) 0 op.sels [] hroot
      (doesApply_self S _ hroot) hin (mkp_of_mergeableKeys _ _ _ _ _ hmk)

end AGV.Lemmas.ExecStaticMerge
