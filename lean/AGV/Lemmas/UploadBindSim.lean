import AGV.Lemmas.UploadBindFrame

/- C24: one `set_upload` / one `bindPath` simulated by one binding of the reference semantics
   (`stepS`), and how earlier bindings affect what a later path addresses. -/
namespace AGV.Lemmas.UploadBind
open AGV.Spec.UploadBind
open AGV.Model.UploadBind

-- ------------------------------------------------------------------ the syntax of a map path

theorem splitDot_eq (s : Str) :
    splitDot s = match splitFirstDot s with
      | (w, none) => [w]
      | (w, some rest) => w :: splitDot rest := by
  induction s with
  | nil => simp [splitDot, splitFirstDot]
  | cons c cs ih =>
    by_cases hc : c = '.'
    · simp [splitDot, splitFirstDot, hc]
    · simp only [splitDot, splitFirstDot, hc, if_false]
      rw [ih]
      rcases h : splitFirstDot cs with ⟨w, _ | rest⟩ <;> simp

theorem stripPrefix_dot (w : Str) (hw : '.' ∉ w) (s : Str) :
    stripPrefix (w ++ ['.']) s = if (splitFirstDot s).1 = w then (splitFirstDot s).2 else none := by
  induction w generalizing s with
  | nil =>
    cases s with
    | nil => simp [stripPrefix, splitFirstDot]
    | cons c cs =>
      by_cases hc : c = '.'
      · simp [stripPrefix, splitFirstDot, hc]
      · have : ¬ '.' = c := fun h => hc h.symm
        simp [stripPrefix, splitFirstDot, hc, this]
  | cons d w ih =>
    have hd : d ≠ '.' := by intro h; apply hw; simp [h]
    have hw' : '.' ∉ w := by intro h; apply hw; simp [h]
    cases s with
    | nil => simp [stripPrefix, splitFirstDot]
    | cons c cs =>
      by_cases hc : c = '.'
      · subst hc
        have : ¬ d = '.' := hd
        simp [stripPrefix, splitFirstDot, this]
      · by_cases hdc : d = c
        · subst hdc
          simp [stripPrefix, splitFirstDot, hc, ih hw']
        · have : ¬ c = d := fun h => hdc h.symm
          simp [stripPrefix, splitFirstDot, hc, hdc, this]

/-- request index and path steps a map path spells, without looking at any variables -/
def addrOf (single : Bool) (path : Str) : Option (Nat × List Str) :=
  if single then (pathParts path).map (fun parts => (0, parts))
  else match splitFirstDot path with
    | (first, some rest) => (parseUsize first).bind (fun n => (pathParts rest).map (fun parts => (n, parts)))
    | (_, none) => none

/-- the address below request `n` that `parts` leads to -/
def rs {α : Type} (vs : List (T α)) (n : Nat) (parts : List Str) : Option Addr :=
  (vs[n]?).bind (fun v => resolve v parts)

def tgtV {α : Type} (single : Bool) (vs : List (T α)) (path : Str) : Option (Nat × Addr) :=
  (addrOf single path).bind (fun np => (rs vs np.1 np.2).map (fun a => (np.1, a)))

theorem pathParts_eq (path : Str) :
    pathParts path = if (splitFirstDot path).1 = prefixVariables then (splitFirstDot path).2.map splitDot else none := by
  have : variablesDot = prefixVariables ++ ['.'] := by decide
  simp only [pathParts, this, stripPrefix_dot prefixVariables (by decide)]
  split <;> simp

theorem pathParts_ne_nil {path : Str} {parts : List Str} (h : pathParts path = some parts) : parts ≠ [] := by
  simp only [pathParts] at h
  cases hs : stripPrefix variablesDot path with
  | none => simp [hs] at h
  | some rest => simp [hs] at h; rw [← h]; exact splitDot_ne_nil rest

theorem target_eq (single : Bool) (reqs : List (Members Nat)) (path : Str) :
    target single reqs path = tgtV single (reqs.map (fun m => T.obj m)) path := by
  cases single with
  | true =>
    simp only [target, tgtV, addrOf, if_true, segments_eq_splitDot, pathParts_eq, rs]
    rw [splitDot_eq path]
    rcases h1 : splitFirstDot path with ⟨w, _ | rest⟩
    · simp
    · simp only []
      rcases h2 : splitDot rest with _ | ⟨k, ps⟩
      · exact absurd h2 (splitDot_ne_nil rest)
      · by_cases hw : w = prefixVariables
        · simp [hw, h2]
          cases reqs[0]? <;> simp
        · simp [hw]
  | false =>
    simp only [target, tgtV, addrOf, segments_eq_splitDot, pathParts_eq, rs, parseUsize_eq]
    rw [splitDot_eq path]
    rcases h1 : splitFirstDot path with ⟨w, _ | rest⟩
    · simp
    · simp only []
      rw [splitDot_eq rest]
      rcases h3 : splitFirstDot rest with ⟨w2, _ | rest2⟩
      · simp
      · simp only []
        rcases h2 : splitDot rest2 with _ | ⟨k, ps⟩
        · exact absurd h2 (splitDot_ne_nil rest2)
        · by_cases hw : w2 = prefixVariables
          · simp [hw, h2]
            cases index? 64 w <;> simp
            rename_i n
            cases reqs[n]? <;> simp
          · simp [hw]


theorem rs_mapExt {α β : Type} (g : α → β) (vs : List (T α)) (n : Nat) (parts : List Str) :
    rs (vs.map (mapExt g)) n parts = rs vs n parts := by
  simp only [rs, List.getElem?_map]
  cases vs[n]? <;> simp [resolve_mapExt]

theorem tgtV_mapExt {α β : Type} (g : α → β) (single : Bool) (vs : List (T α)) (path : Str) :
    tgtV single (vs.map (mapExt g)) path = tgtV single vs path := by
  simp only [tgtV, rs_mapExt]

-- ------------------------------------------------------------------ one request

abbrev VT := T (Option File)

/-- what the request's variables decode to once `more` uploads have been pushed after the present ones -/
def viewW (r : Req) (more : List File) : VT := mapExt (fun k => (r.uploads ++ more)[k]?) (.obj r.vars)

/-- the request decodes to `v`, now and after any further pushes, and its objects have distinct keys -/
def ReqInv (r : Req) (v : VT) : Prop := wfT true (T.obj r.vars) = true ∧ ∀ more, viewW r more = v

theorem ReqInv_resolve {r : Req} {v : VT} (h : ReqInv r v) (parts : List Str) :
    resolve (T.obj r.vars) parts = resolve v parts := by
  rw [← h.2 [], viewW, resolve_mapExt]

theorem setUpload_some {r : Req} {v : VT} (h : ReqInv r v) (path : Str) (f : File) (parts : List Str) (a : Addr)
    (hp : pathParts path = some parts) (ha : resolve v parts = some a) :
    ∃ r', setUpload r path f = some r' ∧ ReqInv r' (put (.ext (some f)) v a) := by
  have hr : resolve (T.obj r.vars) parts = some a := by rw [ReqInv_resolve h]; exact ha
  have hs := setAt_eq_put (T.ext r.uploads.length) (T.obj r.vars) parts h.1
  rw [hr] at hs
  simp only [Option.map_some] at hs
  -- the result is an object
  have hne := pathParts_ne_nil hp
  cases parts with
  | nil => exact absurd rfl hne
  | cons p ps =>
    rw [resolve_obj] at hr
    cases hg : getKey p r.vars with
    | none => simp [hg] at hr
    | some w =>
      cases hw : resolve w ps with
      | none => simp [hg, hw] at hr
      | some a' =>
        simp [hg, hw] at hr
        subst hr
        refine ⟨{ vars := membersOf (put (T.ext r.uploads.length) (T.obj r.vars) (Step.key p :: a')), uploads := r.uploads ++ [f] }, by simp only [setUpload, hp, hs], ?_⟩
        have hobj : T.obj (membersOf (put (T.ext r.uploads.length) (T.obj r.vars) (Step.key p :: a'))) =
            put (T.ext r.uploads.length) (T.obj r.vars) (Step.key p :: a') := by
          simp [put, membersOf]
        constructor
        · dsimp only
          rw [hobj]
          exact wfT_put _ _ _ (by simp [wfT]) h.1
        · intro more
          simp only [viewW]
          rw [hobj, mapExt_put]
          have h2 := h.2 ([f] ++ more)
          simp only [viewW] at h2
          simp only [List.append_assoc, mapExt]
          congr 2
          simp

theorem setUpload_none {r : Req} {v : VT} (h : ReqInv r v) (path : Str) (f : File)
    (hn : (pathParts path).bind (resolve v) = none) : setUpload r path f = none := by
  simp only [setUpload]
  cases hp : pathParts path with
  | none => simp
  | some parts =>
    simp only [hp, Option.bind_some] at hn
    rw [← ReqInv_resolve h] at hn
    simp [setAt_eq_put _ _ _ h.1, hn]


-- ------------------------------------------------------------------ the batch

abbrev Tgt := File × Nat × Addr

/-- one binding of the reference semantics (the body of the fold in `Spec.require`) -/
def stepS (acc : List VT) (t : Tgt) : List VT :=
  match acc[t.2.1]? with
  | some v => acc.set t.2.1 (put (.ext (some t.1)) v t.2.2)
  | none => acc

theorem stepS_length (acc : List VT) (t : Tgt) : (stepS acc t).length = acc.length := by
  simp only [stepS]; split <;> simp

/-- the batch has the shape `single` says and request `i` decodes to `vs[i]` -/
def BInv (single : Bool) (b : Batch) (vs : List VT) : Prop :=
  b.isSingle = single ∧ b.reqs.length = vs.length ∧
    ∀ (i : Nat) (r : Req) (v : VT), b.reqs[i]? = some r → vs[i]? = some v → ReqInv r v

theorem bindPath_some {single : Bool} {b : Batch} {vs : List VT} (h : BInv single b vs) (path : Str) (f : File)
    (n : Nat) (a : Addr) (ht : tgtV single vs path = some (n, a)) :
    ∃ b', bindPath b path f = some b' ∧ BInv single b' (stepS vs (f, n, a)) := by
  obtain ⟨hs, hl, hi⟩ := h
  simp only [tgtV] at ht
  cases hao : addrOf single path with
  | none => simp [hao] at ht
  | some np =>
    obtain ⟨n', parts⟩ := np
    simp only [hao, Option.bind_some, rs] at ht
    cases hv : vs[n']? with
    | none => simp [hv] at ht
    | some v =>
      simp only [hv, Option.bind_some] at ht
      cases hr : resolve v parts with
      | none => simp [hr] at ht
      | some a' =>
        simp [hr] at ht
        obtain ⟨rfl, rfl⟩ := ht
        have hlt : n' < vs.length := (List.getElem?_eq_some_iff.mp hv).1
        cases b with
        | single r =>
          simp only [Batch.isSingle] at hs
          subst hs
          simp only [addrOf, if_true] at hao
          cases hp : pathParts path with
          | none => simp [hp] at hao
          | some parts' =>
            simp [hp] at hao
            obtain ⟨rfl, rfl⟩ := hao
            have hri := hi 0 r v (by simp [Batch.reqs]) hv
            obtain ⟨r', hr', hinv⟩ := setUpload_some hri path f parts' a' hp hr
            refine ⟨.single r', by simp [bindPath, hr'], rfl, ?_, ?_⟩
            · simp [Batch.reqs, stepS_length] at hl ⊢; exact hl
            · intro i r2 v2 h1 h2
              simp only [Batch.reqs] at h1 hl
              have hi0 : i = 0 := by
                have := (List.getElem?_eq_some_iff.mp h1).1
                simpa using this
              subst hi0
              simp at h1; subst h1
              simp [stepS, hv] at h2
              have hlt' : 0 < vs.length := hlt
              simp [hlt'] at h2
              subst h2
              exact hinv
        | batch rs' =>
          simp only [Batch.isSingle] at hs
          subst hs
          simp only [addrOf] at hao
          rcases hsp : splitFirstDot path with ⟨first, _ | rest⟩
          · simp [hsp] at hao
          · simp only [hsp, Bool.false_eq_true, if_false] at hao
            cases hpu : parseUsize first with
            | none => simp [hpu] at hao
            | some idx =>
              simp only [hpu, Option.bind_some] at hao
              cases hp : pathParts rest with
              | none => simp [hp] at hao
              | some parts' =>
                simp [hp] at hao
                obtain ⟨rfl, rfl⟩ := hao
                simp only [Batch.reqs] at hl hi
                have hlt2 : idx < rs'.length := by omega
                have hri := hi idx rs'[idx] v (by simp [hlt2]) hv
                obtain ⟨r', hr', hinv⟩ := setUpload_some hri rest f parts' a' hp hr
                refine ⟨.batch (rs'.set idx r'), by simp [bindPath, hsp, hpu, hlt2, hr'], rfl, ?_, ?_⟩
                · simp [Batch.reqs, stepS_length]; exact hl
                · intro i r2 v2 h1 h2
                  simp only [Batch.reqs] at h1
                  simp only [stepS, hv] at h2
                  by_cases hii : idx = i
                  · subst hii
                    simp [hlt2] at h1
                    simp [hlt] at h2
                    subst h1; subst h2; exact hinv
                  · simp [hii] at h1 h2
                    exact hi i r2 v2 (by simpa using h1) h2

theorem bindPath_none {single : Bool} {b : Batch} {vs : List VT} (h : BInv single b vs) (path : Str) (f : File)
    (ht : tgtV single vs path = none) : bindPath b path f = none := by
  obtain ⟨hs, hl, hi⟩ := h
  cases b with
  | single r =>
    simp only [Batch.isSingle] at hs
    subst hs
    simp only [Batch.reqs, List.length_singleton] at hl hi
    cases vs with
    | nil => simp at hl
    | cons v vs' =>
      have hri := hi 0 r v (by simp) (by simp)
      simp only [tgtV, addrOf, if_true, rs] at ht
      simp only [bindPath, Option.map_eq_none_iff]
      apply setUpload_none hri
      cases hp : pathParts path with
      | none => simp
      | some parts => simpa [hp] using ht
  | batch rs' =>
    simp only [Batch.isSingle] at hs
    subst hs
    simp only [Batch.reqs] at hl hi
    simp only [tgtV, addrOf, rs, Bool.false_eq_true, if_false] at ht
    simp only [bindPath]
    rcases hsp : splitFirstDot path with ⟨first, _ | rest⟩
    · simp
    · simp only [hsp] at ht ⊢
      cases hpu : parseUsize first with
      | none => simp
      | some idx =>
        simp only [hpu, Option.bind_some] at ht ⊢
        cases hg : rs'[idx]? with
        | none => simp
        | some r =>
          simp only [Option.map_eq_none_iff]
          have hlt2 : idx < rs'.length := (List.getElem?_eq_some_iff.mp hg).1
          have hlt : idx < vs.length := by omega
          have hri := hi idx r vs[idx] hg (by simp [hlt])
          apply setUpload_none hri
          cases hp : pathParts rest with
          | none => simp
          | some parts => simpa [hp, hlt] using ht


-- ------------------------------------------------------------------ bindings seen from the original variables

theorem rs_stepS_back (vs : List VT) (t : Tgt) (n : Nat) (parts : List Str) (a : Addr)
    (h : rs (stepS vs t) n parts = some a) : rs vs n parts = some a := by
  obtain ⟨f, m, b⟩ := t
  simp only [stepS, rs] at h ⊢
  cases hv : vs[m]? with
  | none => simpa [hv] using h
  | some v =>
    simp only [hv, List.getElem?_set] at h
    by_cases hmn : m = n
    · subst hmn
      have hlt : m < vs.length := (List.getElem?_eq_some_iff.mp hv).1
      simp only [if_true, hlt, Option.bind_some] at h
      simp only [hv, Option.bind_some]
      exact resolve_put_back _ (leaf_ext _) v b parts a h
    · simpa [hmn] using h

theorem rs_stepS_fwd (vs : List VT) (t : Tgt) (n : Nat) (parts : List Str) (a : Addr)
    (h : rs vs n parts = some a) (hd : t.2.1 ≠ n ∨ t.2.2.isPrefixOf a = false) :
    rs (stepS vs t) n parts = some a := by
  obtain ⟨f, m, b⟩ := t
  simp only [stepS, rs] at h ⊢
  cases hv : vs[m]? with
  | none => simpa [hv] using h
  | some v =>
    simp only [List.getElem?_set]
    by_cases hmn : m = n
    · subst hmn
      have hlt : m < vs.length := (List.getElem?_eq_some_iff.mp hv).1
      simp only [if_true, hlt, Option.bind_some]
      simp only [hv, Option.bind_some] at h
      rcases hd with hd | hd
      · exact absurd rfl hd
      · exact resolve_put_fwd _ v b parts a h hd
    · simpa [hmn] using h

theorem tgtV_stepS_back (single : Bool) (vs : List VT) (t : Tgt) (path : Str) (na : Nat × Addr)
    (h : tgtV single (stepS vs t) path = some na) : tgtV single vs path = some na := by
  simp only [tgtV] at h ⊢
  cases hao : addrOf single path with
  | none => simp [hao] at h
  | some np =>
    simp only [hao, Option.bind_some] at h ⊢
    cases hr : rs (stepS vs t) np.1 np.2 with
    | none => simp [hr] at h
    | some a => simp [hr] at h; simp [rs_stepS_back vs t np.1 np.2 a hr, h]

theorem tgtV_stepS_fwd (single : Bool) (vs : List VT) (t : Tgt) (path : Str) (n : Nat) (a : Addr)
    (h : tgtV single vs path = some (n, a)) (hd : t.2.1 ≠ n ∨ t.2.2.isPrefixOf a = false) :
    tgtV single (stepS vs t) path = some (n, a) := by
  simp only [tgtV] at h ⊢
  cases hao : addrOf single path with
  | none => simp [hao] at h
  | some np =>
    simp only [hao, Option.bind_some] at h ⊢
    cases hr : rs vs np.1 np.2 with
    | none => simp [hr] at h
    | some a' =>
      simp [hr] at h
      obtain ⟨h1, h2⟩ := h
      subst h2
      rw [rs_stepS_fwd vs t np.1 np.2 a' hr (h1 ▸ hd)]
      simp [h1]

theorem tgtV_foldl_back (single : Bool) (ts : List Tgt) (vs : List VT) (path : Str) (na : Nat × Addr)
    (h : tgtV single (ts.foldl stepS vs) path = some na) : tgtV single vs path = some na := by
  induction ts generalizing vs with
  | nil => simpa using h
  | cons t ts ih => exact tgtV_stepS_back single vs t path na (ih _ (by simpa using h))

theorem tgtV_foldl_fwd (single : Bool) (ts : List Tgt) (vs : List VT) (path : Str) (n : Nat) (a : Addr)
    (h : tgtV single vs path = some (n, a)) (hd : ∀ t ∈ ts, t.2.1 ≠ n ∨ t.2.2.isPrefixOf a = false) :
    tgtV single (ts.foldl stepS vs) path = some (n, a) := by
  induction ts generalizing vs with
  | nil => simpa using h
  | cons t ts ih =>
    simp only [List.foldl_cons]
    exact ih _ (tgtV_stepS_fwd single vs t path n a h (hd t (by simp))) (fun t' ht' => hd t' (by simp [ht']))

end AGV.Lemmas.UploadBind
