/-
  C17 — directive definitions and the schema block at token level (`pDef_dirDef`, `Lx_dirDef`,
  `pDefs_dirDefs_then`, `pDef_schema`, `Lx_schema`): the remaining parts of a plain export.
-/
import AGV.Lemmas.SdlSkeletonDoc
namespace AGV.Lemmas.SdlSkeleton
open AGV.Core AGV.Core.PAst AGV.Core.Sdl AGV.Model.Sdl AGV.Spec.Literal AGV.Spec.Lex AGV.Spec.Parse AGV.Spec.SdlParse AGV.Lemmas.SdlLex AGV.Lemmas.SdlValue AGV.Lemmas.SdlBlock

-- ------------------------------------------------------------------ directive definitions

/-- an argument of a directive definition as written: no description, no directive applications -/
def bare (x : InputVal) : InputVal := { x with a := {} }

theorem fedAttrs_bare (o : Opts) : fedAttrs Defects.none o {} = [] := by
  simp [fedAttrs, writeTags]

theorem argumentSdl_bare (x : InputVal) : argumentSdl x = writeInputValue Defects.none (bare x) := by
  simp [argumentSdl, writeInputValue, bare, writeDeprecated]

theorem dIv_bare (o : Opts) (x : InputVal) : dIv o (bare x) = ⟨x.name, none, x.ty, x.default.map SValue.toP, []⟩ := by
  simp [dIv, bare, dDirs, dDeprecated, dFed]

/-- a well-formed directive definition: Names, printable default values, at least one location,
    all locations directive locations of the specification -/
structure SkelDirDef (d : DirDef) : Prop where
  name : isName d.name = true
  args : ∀ a ∈ d.args, SkelIv (bare a)
  locsNe : d.locs ≠ []
  locs : d.locs.all directiveLocations.contains = true

def dirDefToks (o : Opts) (d : DirDef) : List Tok :=
  descToks d.desc ++ (.name (kw "directive") :: .punct '@' :: .name d.name ::
    ((if d.args.isEmpty then [] else .punct '(' :: ivsToks o (d.args.map bare) ++ [.punct ')']) ++
     ((if d.repeatable then [.name (kw "repeatable")] else []) ++ (.name (kw "on") :: sepToks '|' d.locs))))

theorem pDef_dirDef (o : Opts) (d : DirDef) (hd : SkelDirDef d) (rest : List Tok) (hr : DefEnd rest) :
    pDef (dirDefToks o d ++ rest) = some (dDirective d, rest) := by
  have hn := pNamesAfter_toks '|' d.locs hd.locsNe rest (by intro r e; cases hr <;> cases e)
  have e1 : kw "directive" ≠ kw "extend" := by decide
  have e2 : kw "directive" ≠ kw "schema" := by decide
  have e3 : kw "on" ≠ kw "repeatable" := by decide
  have hmap : d.args.map (fun x => (⟨x.name, none, x.ty, x.default.map SValue.toP, []⟩ : SIv)) = (d.args.map bare).map (dIv o) := by
    simp [List.map_map, Function.comp_def, dIv_bare]
  by_cases he : d.args = []
  · cases hrep : d.repeatable <;>
    simp [dirDefToks, he, hrep, pDef, pDesc_descToks, e1, e2, e3, pArgsDef, hn, hd.locs, dDirective]
  · have hne : d.args.isEmpty = false := by simpa using he
    have hargs := fun R g hg => pInputValues_toks o ')' (Or.inl rfl) (d.args.map bare) (by simpa using he)
      (by intro x hx; obtain ⟨y, hy, rfl⟩ := List.mem_map.mp hx; exact hd.args y hy) R g hg
    have hlen := ivsToks_length o (d.args.map bare)
    cases hrep : d.repeatable
    · simp only [dirDefToks, hne, hrep, Bool.false_eq_true, if_false, List.cons_append, List.append_assoc, List.nil_append,
        pDef, pDesc_descToks, e1, e2, if_true, pArgsDef]
      rw [hargs _ _ (by simp at hlen ⊢; omega)]
      simp [e3, hn, hd.locs, dDirective, hmap, hrep]
    · simp only [dirDefToks, hne, hrep, Bool.false_eq_true, if_false, List.cons_append, List.append_assoc, List.nil_append,
        pDef, pDesc_descToks, e1, e2, if_true, pArgsDef]
      rw [hargs _ _ (by simp at hlen ⊢; omega)]
      simp [hn, hd.locs, dDirective, hmap, hrep]


theorem Lx_dirDefArgs (o : Opts) : ∀ (xs : List InputVal), xs ≠ [] → (∀ x ∈ xs, SkelIv (bare x)) →
    ∀ (rest : Text) (ts : List Tok), Lx rest ts →
    Lx (joinSep (s ", ") (xs.map argumentSdl) ++ ')' :: rest) (ivsToks o (xs.map bare) ++ .punct ')' :: ts)
  | [], hne, _, _, _, _ => absurd rfl hne
  | [x], _, hx, rest, ts, h => by
    have := Lx_inputValue o (bare x) (hx x List.mem_cons_self) (')' :: rest) (.punct ')' :: ts)
      (valEnd_punct _ _ (by decide)) (Lx.punct (by decide) h)
    have e : (bare x).a = {} := rfl
    simpa [joinSep, ivsToks, ivToks, descToks, argumentSdl_bare, fedAttrs_bare o, e, dirApps, List.append_assoc] using this
  | x :: y :: r, _, hx, rest, ts, h => by
    have h0 := Lx_dirDefArgs o (y :: r) (by simp) (fun z hz => hx z (List.mem_cons_of_mem _ hz)) rest ts h
    have h1 := Lx.ign (c := ',') (by decide) (Lx.ign (c := ' ') (by decide) h0)
    have := Lx_inputValue o (bare x) (hx x List.mem_cons_self) _ _ (valEnd_ign ',' _ (by decide)) h1
    have e : (bare x).a = {} := rfl
    simpa [joinSep, ivsToks, ivToks, descToks, argumentSdl_bare, fedAttrs_bare o, e, dirApps, s, List.append_assoc] using this

theorem directiveLocations_names : ∀ l ∈ directiveLocations, isName l = true := by decide

theorem Lx_dirDef (o : Opts) (d : DirDef) (hd : SkelDirDef d) (rest : Text) (ts : List Tok)
    (h : Lx rest ts) : Lx (directiveSdl Defects.none o d ++ '\n' :: rest) (dirDefToks o d ++ ts) := by
  have hnl := Lx.ign (c := '\n') (by decide) h
  have hlocN : ∀ l ∈ d.locs, isName l = true := by
    intro l hl
    have := List.all_eq_true.mp hd.locs l hl
    exact directiveLocations_names l (by simpa using this)
  have hlocs := Lx_joinSep '|' (by decide) d.locs hlocN _ _ (nameEnd_of_ignored '\n' rest (by decide)) hnl
  have hon := Lx.ign (c := ' ') (by decide) (Lx.nameI (n := kw "on") (c := ' ') (by decide) (by decide) hlocs)
  have hrep : Lx ((if d.repeatable then s " repeatable" else []) ++ ' ' :: (kw "on" ++ ' ' :: (joinSep [' ', '|', ' '] d.locs ++ '\n' :: rest)))
      ((if d.repeatable then [.name (kw "repeatable")] else []) ++ (.name (kw "on") :: (sepToks '|' d.locs ++ ts))) := by
    cases d.repeatable
    · simpa using hon
    · have := Lx.ign (c := ' ') (by decide) (Lx.name (n := kw "repeatable") (by decide) (nameEnd_of_ignored ' ' _ (by decide)) hon)
      simpa [s, kw] using this
  have hrepN : NameEnd ((if d.repeatable then s " repeatable" else []) ++ ' ' :: (kw "on" ++ ' ' :: (joinSep [' ', '|', ' '] d.locs ++ '\n' :: rest))) := by
    cases d.repeatable
    · simp only [Bool.false_eq_true, ↓reduceIte, List.nil_append]; exact nameEnd_of_ignored ' ' _ (by decide)
    · simp only [s, ↓reduceIte]; exact nameEnd_of_ignored ' ' _ (by decide)
  have hargs : Lx (d.name ++ ((if d.args.isEmpty then [] else '(' :: joinSep (s ", ") (d.args.map argumentSdl) ++ [')']) ++
        ((if d.repeatable then s " repeatable" else []) ++ ' ' :: (kw "on" ++ ' ' :: (joinSep [' ', '|', ' '] d.locs ++ '\n' :: rest)))))
      (.name d.name :: ((if d.args.isEmpty then [] else .punct '(' :: ivsToks o (d.args.map bare) ++ [.punct ')']) ++
        ((if d.repeatable then [.name (kw "repeatable")] else []) ++ (.name (kw "on") :: (sepToks '|' d.locs ++ ts))))) := by
    by_cases he : d.args = []
    · simpa [he] using Lx.name hd.name hrepN hrep
    · have hne : d.args.isEmpty = false := by simpa using he
      have h1 := Lx.punct (c := '(') (by decide) (Lx_dirDefArgs o d.args he hd.args _ _ hrep)
      have := Lx.name hd.name (nameEnd_of_punct '(' _ (by decide)) h1
      simpa [hne, List.append_assoc] using this
  have h2 := Lx.nameI (n := kw "directive") (c := ' ') (by decide) (by decide) (Lx.punct (c := '@') (by decide) hargs)
  have h3 := Lx_optDesc o 0 d.desc _ _ h2
  have e : directiveSdl Defects.none o d ++ '\n' :: rest = optDescription Defects.none o 0 d.desc ++ (kw "directive" ++ ' ' :: '@' :: (d.name ++
      ((if d.args.isEmpty then [] else '(' :: joinSep (s ", ") (d.args.map argumentSdl) ++ [')']) ++
        ((if d.repeatable then s " repeatable" else []) ++ ' ' :: (kw "on" ++ ' ' :: (joinSep [' ', '|', ' '] d.locs ++ '\n' :: rest)))))) := by
    simp [directiveSdl, s, kw, List.append_assoc]
  rw [e]
  simpa [dirDefToks, List.append_assoc] using h3

theorem Lx_dirDefs (o : Opts) (ds : List DirDef) (hds : ∀ d ∈ ds, SkelDirDef d) (rest : Text)
    (ts : List Tok) (h : Lx rest ts) :
    Lx ((ds.map (fun d => directiveSdl Defects.none o d ++ ['\n'])).flatten ++ rest) (ds.flatMap (dirDefToks o) ++ ts) := by
  induction ds with
  | nil => simpa using h
  | cons d ds ih =>
    have := Lx_dirDef o d (hds d List.mem_cons_self) _ _ (ih (fun x hx => hds x (List.mem_cons_of_mem _ hx)))
    simpa [List.append_assoc] using this

theorem dirDefToks_end (o : Opts) (d : DirDef) (r : List Tok) : DefEnd (dirDefToks o d ++ r) := by
  unfold dirDefToks
  cases d.desc with
  | some x => exact DefEnd.str _ _
  | none => exact DefEnd.name _ _

theorem dirDefsToks_end (o : Opts) (ds : List DirDef) (r : List Tok) (hr : DefEnd r) : DefEnd (ds.flatMap (dirDefToks o) ++ r) := by
  cases ds with
  | nil => simpa using hr
  | cons d ds => simp only [List.flatMap_cons, List.append_assoc]; exact dirDefToks_end o d _

/-- a list of directive definitions followed by further definitions -/
theorem pDefs_dirDefs_then (o : Opts) (ds : List DirDef) (hds : ∀ d ∈ ds, SkelDirDef d)
    (R : List Tok) (hR : DefEnd R) (hne : R ≠ []) :
    ∀ g, pDefs (g + ds.length) (ds.flatMap (dirDefToks o) ++ R) = (pDefs g R).map (ds.map dDirective ++ ·) := by
  induction ds with
  | nil => intro g; simp
  | cons d ds ih =>
    intro g
    have ihL := ih (fun t ht => hds t (List.mem_cons_of_mem _ ht)) g
    have hend : DefEnd (ds.flatMap (dirDefToks o) ++ R) := dirDefsToks_end o ds R hR
    have h2 := pDef_dirDef o d (hds d List.mem_cons_self) _ hend
    simp only [List.flatMap_cons, List.length_cons, List.append_assoc, List.map_cons]
    rw [← Nat.add_assoc, pDefs, h2]
    cases hr : ds.flatMap (dirDefToks o) ++ R with
    | nil =>
      have : R = [] := (List.append_eq_nil_iff.mp hr).2
      exact absurd this hne
    | cons x xs =>
      rw [hr] at ihL
      simp only [ihL, Option.map_map]
      cases pDefs g R <;> simp

-- ------------------------------------------------------------------ the schema block

def schemaToks (S : Schema) : List Tok :=
  .name (kw "schema") :: .punct '{' :: .name (kw "query") :: .punct ':' :: .name S.query ::
    ((match S.mutation with
      | some m => [.name (kw "mutation"), .punct ':', .name m]
      | none => []) ++ [.punct '}'])

theorem pDef_schema (S : Schema) : pDef (schemaToks S) = some (.schema false [] (some S.query) S.mutation none, []) := by
  have e1 : kw "schema" ≠ kw "extend" := by decide
  have e2 : kw "mutation" ≠ kw "query" := by decide
  have hd : constDirs (.punct '{' :: .name (kw "query") :: .punct ':' :: .name S.query ::
      ((match S.mutation with
        | some m => [.name (kw "mutation"), .punct ':', .name m]
        | none => []) ++ [.punct '}'])) = some ([], _) := constDirs_noAt _ (by intro r e; cases e)
  cases hm : S.mutation with
  | none => simp [schemaToks, hm, pDef, pDesc, e1, constDirs_noAt, pRootOps]
  | some m => simp [schemaToks, hm, pDef, pDesc, e1, e2, constDirs_noAt, pRootOps]

theorem Lx_schema (o : Opts) (S : Schema) (hq : isName S.query = true) (hm : ∀ m, S.mutation = some m → isName m = true) :
    Lx (s "schema {\n" ++ tab o ++ s "query: " ++ S.query ++ ['\n'] ++
      (match S.mutation with
       | some m => tab o ++ s "mutation: " ++ m ++ ['\n']
       | none => []) ++
      s "}\n") (schemaToks S) := by
  have hend : Lx ('}' :: ['\n']) [.punct '}'] := Lx.punct (by decide) (Lx.ign (by decide) Lx.nil)
  cases hmu : S.mutation with
  | none =>
    have h1 := Lx.nameI (n := S.query) (c := '\n') hq (by decide) hend
    have h2 := Lx.ws (tab_ignored o) (Lx.nameP (n := kw "query") (c := ':') (by decide) (by decide) (Lx.ign (c := ' ') (by decide) h1))
    have h3 := Lx.nameI (n := kw "schema") (c := ' ') (by decide) (by decide) (Lx.punct (c := '{') (by decide) (Lx.ign (c := '\n') (by decide) h2))
    simpa [schemaToks, hmu, s, kw, List.append_assoc] using h3
  | some m =>
    have h0 := Lx.nameI (n := m) (c := '\n') (hm m hmu) (by decide) hend
    have h0' := Lx.ws (tab_ignored o) (Lx.nameP (n := kw "mutation") (c := ':') (by decide) (by decide) (Lx.ign (c := ' ') (by decide) h0))
    have h1 := Lx.nameI (n := S.query) (c := '\n') hq (by decide) h0'
    have h2 := Lx.ws (tab_ignored o) (Lx.nameP (n := kw "query") (c := ':') (by decide) (by decide) (Lx.ign (c := ' ') (by decide) h1))
    have h3 := Lx.nameI (n := kw "schema") (c := ' ') (by decide) (by decide) (Lx.punct (c := '{') (by decide) (Lx.ign (c := '\n') (by decide) h2))
    simpa [schemaToks, hmu, s, kw, List.append_assoc] using h3

end AGV.Lemmas.SdlSkeleton
