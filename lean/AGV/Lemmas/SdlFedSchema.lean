/-
  C17 — the `extend schema @link(url: …, import: […])` block of a federation export at token
  level: `Lx_fedSchema`, `pDef_fedSchema`.
-/
import AGV.Lemmas.SdlDirDefs
namespace AGV.Lemmas.SdlSkeleton
open AGV.Core AGV.Core.PAst AGV.Core.Sdl AGV.Model.Sdl AGV.Spec.Literal AGV.Spec.Lex AGV.Spec.Parse AGV.Spec.SdlParse AGV.Lemmas.SdlLex AGV.Lemmas.SdlValue AGV.Lemmas.SdlBlock

-- ------------------------------------------------------------------ the federation schema extension

def fedUrl : Text := kwT "https://specs.apollo.dev/federation/v2.5"

/-- `@link(url: "…", import: ["@key", …])` as a directive application -/
def linkApp : DirApp :=
  ⟨kwT "link", [(kwT "url", .str fedUrl), (kwT "import", .list (federationImportNames.map .str))]⟩

def fedSchemaToks : List Tok := .name (kw "extend") :: .name (kw "schema") :: dirsToks [linkApp]

theorem toPs_strs : ∀ ns : List Text, SValue.toPs (ns.map .str) = ns.map .str
  | [] => rfl
  | n :: r => by simp [SValue.toPs, SValue.toP, toPs_strs r]

theorem linkApp_dDir : dDir linkApp = linkDir fedUrl federationImportNames := by
  simp [dDir, linkApp, linkDir, SValue.toP, toPs_strs]

theorem linkApp_wf : ∀ d ∈ [linkApp], dirWf d = true := by decide

/-- `extend schema` followed by directive applications -/
def extToks (apps : List DirApp) : List Tok := .name (kw "extend") :: .name (kw "schema") :: dirsToks apps

/-- a schema extension made of directive applications only, followed by another definition or
    the end of the document -/
theorem pDef_ext (apps : List DirApp) (hw : ∀ d ∈ apps, dirWf d = true) (hne : apps ≠ []) (rest : List Tok) (hr : DefEnd rest) :
    pDef (extToks apps ++ rest) = some (.schema true (apps.map dDir) none none none, rest) := by
  have hd := constDirs_toks apps hw rest hr.dirEnd
  have hne' : (apps.map dDir).isEmpty = false := by cases apps <;> simp_all
  cases hr with
  | nil => simp only [List.append_nil] at hd; simp [extToks, pDef, pDesc, hd, hne']
  | name n r => simp [extToks, pDef, pDesc, hd, hne']
  | str v r => simp [extToks, pDef, pDesc, hd, hne']

theorem fedSchemaToks_ext : fedSchemaToks = extToks [linkApp] := rfl

theorem pDef_fedSchema : pDef fedSchemaToks = some (.schema true [linkDir fedUrl federationImportNames] none none none, []) := by
  have := pDef_ext [linkApp] linkApp_wf (by simp) [] DefEnd.nil
  simpa [fedSchemaToks_ext, linkApp_dDir] using this

def quote (n : Text) : Text := '"' :: n ++ ['"']

theorem svsToks_strs : ∀ ns : List Text, svsToks (ns.map .str) = ns.map Tok.str
  | [] => rfl
  | n :: r => by simp [svsToks, svToks, svsToks_strs r]

/-- a list of quoted plain strings (nothing to escape) separated by `, ` -/
theorem Lx_strList : ∀ (ns : List Text), (∀ n ∈ ns, escapeString false n = n) → ∀ (rest : Text) (ts : List Tok), Lx rest ts →
    Lx (joinSep (s ", ") (ns.map quote) ++ ']' :: rest) (ns.map Tok.str ++ .punct ']' :: ts)
  | [], _, rest, ts, h => by simpa [joinSep] using Lx.punct (c := ']') (by decide) h
  | [n], hp, rest, ts, h => by
    have := Lx.estr (t := n) (rest := ']' :: rest) (by simp) (Lx.punct (c := ']') (by decide) h)
    rw [hp n List.mem_cons_self] at this
    simpa [joinSep, quote] using this
  | n :: m :: r, hp, rest, ts, h => by
    have h0 := Lx_strList (m :: r) (fun x hx => hp x (List.mem_cons_of_mem _ hx)) rest ts h
    have := Lx.estr (t := n) (by simp) (Lx.ign (c := ',') (by decide) (Lx.ign (c := ' ') (by decide) h0))
    rw [hp n List.mem_cons_self] at this
    simpa [joinSep, quote, s, List.append_assoc] using this

theorem importNames_plain : ∀ n ∈ federationImportNames, escapeString false n = n := by decide

set_option maxRecDepth 8192 in
theorem federationImports_eq :
    federationImports = kwT "import" ++ ':' :: ' ' :: '[' :: (joinSep (s ", ") (federationImportNames.map quote) ++ [']']) := by
  decide

theorem fedUrl_plain : escapeString false fedUrl = fedUrl := by decide

theorem fedUrl_text : s "url: \"https://specs.apollo.dev/federation/v2.5\",\n" = kwT "url" ++ ':' :: ' ' :: '"' :: (fedUrl ++ '"' :: ',' :: ['\n']) := by
  decide

/-- the `extend schema @link(…)` block of a federation export, whatever follows -/
theorem Lx_fedSchema (o : Opts) (rest : Text) (ts : List Tok) (hend : Lx rest ts) :
    Lx (s "extend schema @link(\n" ++ tab o ++ s "url: \"https://specs.apollo.dev/federation/v2.5\",\n" ++
      tab o ++ federationImports ++ s "\n)\n" ++ rest) (fedSchemaToks ++ ts) := by
  have h1 : Lx ('\n' :: ')' :: '\n' :: rest) (.punct ')' :: ts) :=
    Lx.ign (by decide) (Lx.punct (by decide) (Lx.ign (by decide) hend))
  have h2 := Lx_strList federationImportNames importNames_plain _ _ h1
  have h3 := Lx.ws (tab_ignored o) (Lx.name (n := kwT "import") (by decide) (valEnd_punct ':' _ (by decide)).nameEnd
    (Lx.punct (c := ':') (by decide) (Lx.ign (c := ' ') (by decide) (Lx.punct (c := '[') (by decide) h2))))
  have h4 := Lx.estr (t := fedUrl) (by simp) (Lx.ign (c := ',') (by decide) (Lx.ign (c := '\n') (by decide) h3))
  rw [fedUrl_plain] at h4
  have h5 := Lx.ws (tab_ignored o) (Lx.name (n := kwT "url") (by decide) (valEnd_punct ':' _ (by decide)).nameEnd
    (Lx.punct (c := ':') (by decide) (Lx.ign (c := ' ') (by decide) h4)))
  have h6 := Lx.nameI (n := kw "extend") (c := ' ') (by decide) (by decide)
    (Lx.nameI (n := kw "schema") (c := ' ') (by decide) (by decide)
      (Lx.punct (c := '@') (by decide) (Lx.name (n := kwT "link") (by decide) (valEnd_punct '(' _ (by decide)).nameEnd
        (Lx.punct (c := '(') (by decide) (Lx.ign (c := '\n') (by decide) h5)))))
  have e : s "extend schema @link(\n" = kw "extend" ++ ' ' :: (kw "schema" ++ ' ' :: '@' :: (kwT "link" ++ ['(', '\n'])) := by decide
  rw [e, fedUrl_text, federationImports_eq]
  have e3 : s "\n)\n" = ['\n', ')', '\n'] := by decide
  rw [e3]
  simpa [fedSchemaToks, dirsToks, dirToks, linkApp, sfToks, svToks, svsToks_strs, List.append_assoc] using h6

end AGV.Lemmas.SdlSkeleton
