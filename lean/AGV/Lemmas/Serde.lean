/-
  Helper lemmas for C16 (round trip through `to_value` / `from_value`).
-/
import AGV.Model.Serde

namespace AGV.Lemmas.Serde
open AGV.Model.Serde

-- ---------------------------------------------------------------- lists

theorem nodup_iff (l : List Str) : nodup l = true ↔ l.Nodup := by
  induction l with
  | nil => simp [nodup]
  | cons a as ih => simp [nodup, ih]

/-- generic round trip of `allM`: if `g` undoes `f` on every element, it undoes it on the list -/
theorem allM_roundtrip {α β : Type} (f : α → Option β) (g : β → Option α) (l : List α)
    (h : ∀ a ∈ l, ∃ b, f a = some b ∧ g b = some a) :
    ∃ bs, allM f l = some bs ∧ allM g bs = some l := by
  induction l with
  | nil => exact ⟨[], rfl, rfl⟩
  | cons a as ih =>
    obtain ⟨b, hb, hg⟩ := h a (by simp)
    obtain ⟨bs, hbs, hgs⟩ := ih (fun x hx => h x (by simp [hx]))
    exact ⟨b :: bs, by simp [allM, hb, hbs], by simp [allM, hg, hgs]⟩

theorem allM_length {α β : Type} (f : α → Option β) (l : List α) (bs : List β)
    (h : allM f l = some bs) : bs.length = l.length := by
  induction l generalizing bs with
  | nil => simp [allM] at h; simp [h]
  | cons a as ih =>
    simp only [allM] at h
    split at h
    · simp at h
    · split at h
      · simp at h
      · rename_i b hb bs' hbs
        simp at h; subst h; simp [ih bs' hbs]

/-- `allM` of a function that keeps the key keeps the list of keys -/
theorem allM_keys {α β : Type} (f : α → Option β) (l : List (Str × α)) (out : List (Str × β))
    (h : allM (fun kv => (f kv.2).map (fun g => (kv.1, g))) l = some out) :
    out.map (·.1) = l.map (·.1) := by
  induction l generalizing out with
  | nil => simp [allM] at h; simp [h]
  | cons a as ih =>
    rw [allM] at h
    cases hfa : f a.2 with
    | none => simp [hfa] at h
    | some g =>
      simp only [hfa, Option.map_some] at h
      cases hrest : allM (fun kv => (f kv.2).map (fun g => (kv.1, g))) as with
      | none => simp [hrest] at h
      | some out' => simp [hrest] at h; subst h; simp [ih out' hrest]

-- ---------------------------------------------------------------- IndexMap

theorem imInsert_notin (acc : List (Str × GV)) (k : Str) (v : GV) (h : k ∉ acc.map (·.1)) :
    imInsert acc k v = acc ++ [(k, v)] := by
  induction acc with
  | nil => rfl
  | cons a as ih =>
    obtain ⟨k', v'⟩ := a
    simp at h
    have hne : ¬ k' = k := fun e => h.1 e.symm
    simp [imInsert, hne]
    exact ih (by simpa using h.2)

theorem foldl_imInsert (l acc : List (Str × GV)) (h : ((acc ++ l).map (·.1)).Nodup) :
    l.foldl (fun acc kv => imInsert acc kv.1 kv.2) acc = acc ++ l := by
  induction l generalizing acc with
  | nil => simp
  | cons kv l ih =>
    have hk : kv.1 ∉ acc.map (·.1) := by
      simp only [List.map_append, List.map_cons] at h
      have := (List.nodup_append.mp h).2.2
      intro hmem
      exact this _ hmem _ (by simp) rfl
    simp only [List.foldl_cons]
    rw [imInsert_notin acc kv.1 kv.2 hk, ih]
    · simp
    · simpa using h

/-- inserting pairwise distinct keys into an empty `IndexMap` keeps them as they are -/
theorem imFromList_nodup (l : List (Str × GV)) (h : nodup (l.map (·.1)) = true) : imFromList l = l := by
  have := foldl_imInsert l [] (by simpa using (nodup_iff _).mp h)
  simpa [imFromList] using this

-- ---------------------------------------------------------------- struct fields by name

/-- every name of `ns` is bound in `kvs` to the value at the same position of `gs` -/
def AllLook : List Str → List GV → List (Str × GV) → Prop
  | [], [], _ => True
  | n :: ns, g :: gs, kvs => lookup n kvs = some g ∧ AllLook ns gs kvs
  | _, _, _ => False

theorem deFields_eq_deL (ns : List Str) (ts : List STy) (gs : List GV) (kvs : List (Str × GV))
    (h : AllLook ns gs kvs) (hl : ns.length = ts.length) : deFields ns ts kvs = deL ts gs := by
  induction ns generalizing ts gs with
  | nil =>
    cases gs with
    | nil => cases ts with
      | nil => simp [deFields, deL]
      | cons _ _ => simp at hl
    | cons _ _ => simp [AllLook] at h
  | cons n ns ih =>
    cases gs with
    | nil => simp [AllLook] at h
    | cons g gs =>
      cases ts with
      | nil => simp at hl
      | cons t ts =>
        simp only [AllLook] at h
        simp only [deFields, deL, h.1]
        rw [ih ts gs h.2 (by simpa using hl)]

theorem allLook_weaken (ns : List Str) (gs : List GV) (kvs : List (Str × GV)) (n : Str) (g : GV)
    (h : AllLook ns gs kvs) (hn : n ∉ ns) : AllLook ns gs ((n, g) :: kvs) := by
  induction ns generalizing gs with
  | nil => cases gs <;> simp_all [AllLook]
  | cons m ns ih =>
    cases gs with
    | nil => simp [AllLook] at h
    | cons g' gs =>
      simp only [AllLook] at h ⊢
      simp at hn
      refine ⟨?_, ih gs h.2 hn.2⟩
      have : ¬ n = m := hn.1
      simp [lookup, this, h.1]

theorem allLook_zip (ns : List Str) (gs : List GV) (hn : ns.Nodup) (hl : ns.length = gs.length) :
    AllLook ns gs (ns.zip gs) := by
  induction ns generalizing gs with
  | nil => cases gs with
    | nil => simp [AllLook]
    | cons _ _ => simp at hl
  | cons n ns ih =>
    cases gs with
    | nil => simp at hl
    | cons g gs =>
      rw [List.nodup_cons] at hn
      simp only [List.zip_cons_cons, AllLook]
      refine ⟨by simp [lookup], ?_⟩
      exact allLook_weaken ns gs _ n g (ih gs hn.2 (by simpa using hl)) hn.1

theorem serL_length (D : Defects) (ts : List STy) (vs : List SVal) (gs : List GV)
    (h : serL D ts vs = some gs) : gs.length = ts.length ∧ gs.length = vs.length := by
  induction ts generalizing vs gs with
  | nil => cases vs <;> simp_all [serL]
  | cons t ts ih =>
    cases vs with
    | nil => simp [serL] at h
    | cons v vs =>
      simp only [serL] at h
      split at h
      · simp at h
      · split at h
        · simp at h
        · rename_i g hg gs' hgs
          simp at h; subst h
          have := ih vs _ (by assumption)
          simp; omega

/-- the struct clause: an object built from the fields in order is read back field by field -/
theorem struct_core (D : Defects) (ns : List Str) (ts : List STy) (vs : List SVal) (gs : List GV)
    (hs : serL D ts vs = some gs) (hd : deL ts gs = some vs)
    (hl : ns.length = ts.length) (hn : nodup ns = true) :
    deFields ns ts (imFromList (ns.zip gs)) = some vs := by
  have hlen := (serL_length D ts vs gs hs).1
  have hkeys : (ns.zip gs).map (·.1) = ns := by
    apply List.map_fst_zip; omega
  rw [imFromList_nodup _ (by rw [hkeys]; exact hn)]
  rw [deFields_eq_deL ns ts gs _ (allLook_zip ns gs ((nodup_iff _).mp hn) (by omega)) hl, hd]

-- ---------------------------------------------------------------- scalars

theorem prim_roundtrip (D : Defects) (p : PTy) (v : SVal) (h : rtPrim D p v = true) :
    ∃ g, serPrim D p v = some g ∧ dePrim p g = some v := by
  cases p <;> cases v <;> simp_all [rtPrim, serPrim, dePrim, PTy.ser64]

-- ---------------------------------------------------------------- the induction of the round trip

mutual
theorem rt (D : Defects) : ∀ (τ : STy) (v : SVal), rtb D τ v = true →
    ∃ g, ser D τ v = some g ∧ de τ g = some v
  | .prim p, v, h => by
    simp only [rtb] at h
    simpa [ser, de] using prim_roundtrip D p v h
  | .opt t, v, h => by
    cases v <;> simp only [rtb, Bool.false_eq_true] at h
    case none => exact ⟨.null, by simp [ser], by simp [de]⟩
    case some v =>
      simp only [Bool.and_eq_true, Bool.not_eq_true'] at h
      obtain ⟨g, hg, hd⟩ := rt D t v h.1
      refine ⟨g, by simp [ser, hg], ?_⟩
      have hnn := h.2
      simp only [hg, serIsNull] at hnn
      cases g <;> simp_all [de, GV.isNull]
  | .newtype t, v, h => by
    cases v <;> simp only [rtb, Bool.false_eq_true] at h
    case newtype v =>
      obtain ⟨g, hg, hd⟩ := rt D t v h
      exact ⟨g, by simp [ser, hg], by simp [de, hd]⟩
  | .seq t, v, h => by
    cases v <;> simp only [rtb, Bool.false_eq_true] at h
    case seq vs =>
      rw [List.all_eq_true] at h
      obtain ⟨gs, hg, hd⟩ := allM_roundtrip (ser D t) (de t) vs (fun a ha => rt D t a (h a ha))
      exact ⟨.list gs, by simp [ser, hg], by simp [de, hd]⟩
  | .map t, v, h => by
    cases v <;> simp only [rtb, Bool.false_eq_true] at h
    case map kvs =>
      simp only [Bool.and_eq_true, List.all_eq_true] at h
      obtain ⟨l, hg, hd⟩ := allM_roundtrip
        (fun kv : Str × SVal => (ser D t kv.2).map (fun g => (kv.1, g)))
        (fun kv : Str × GV => (de t kv.2).map (fun v => (kv.1, v))) kvs
        (fun a ha => by
          obtain ⟨g, hg, hd⟩ := rt D t a.2 (h.1 a ha)
          exact ⟨(a.1, g), by simp [hg], by simp [hd]⟩)
      have hk := allM_keys (ser D t) kvs l hg
      refine ⟨.obj (imFromList l), by simp [ser, hg], ?_⟩
      rw [imFromList_nodup l (by rw [hk]; exact h.2)]
      simp [de, hd]
  | .tup ts, v, h => by
    cases v <;> simp only [rtb, Bool.false_eq_true] at h
    case tup vs =>
      obtain ⟨gs, hg, hd⟩ := rtL D ts vs h
      exact ⟨.list gs, by simp [ser, hg], by simp [de, hd]⟩
  | .tstruct ts, v, h => by
    cases v <;> simp only [rtb, Bool.false_eq_true] at h
    case tup vs =>
      obtain ⟨gs, hg, hd⟩ := rtL D ts vs h
      exact ⟨.list gs, by simp [ser, hg], by simp [de, hd]⟩
  | .struct ns ts, v, h => by
    cases v <;> simp only [rtb, Bool.false_eq_true] at h
    case tup vs =>
      simp only [Bool.and_eq_true, decide_eq_true_eq] at h
      obtain ⟨gs, hg, hd⟩ := rtL D ts vs h.1.1
      refine ⟨.obj (imFromList (ns.zip gs)), by simp [ser, hg, h.1.2], ?_⟩
      simp [de, struct_core D ns ts vs gs hg hd h.1.2 h.2]
  | .enum ns ks ts, v, h => by
    cases v <;> simp only [rtb, Bool.false_eq_true] at h
    case var name v =>
      obtain ⟨g, p, hg, hp, hd⟩ := rtVar D ns ks ts name v h
      exact ⟨g, by simp [ser, hg], by simp [de, hp, hd]⟩
theorem rtL (D : Defects) : ∀ (ts : List STy) (vs : List SVal), rtbL D ts vs = true →
    ∃ gs, serL D ts vs = some gs ∧ deL ts gs = some vs
  | [], [], _ => ⟨[], by simp [serL], by simp [deL]⟩
  | t :: ts, v :: vs, h => by
    simp only [rtbL, Bool.and_eq_true] at h
    obtain ⟨g, hg, hd⟩ := rt D t v h.1
    obtain ⟨gs, hgs, hds⟩ := rtL D ts vs h.2
    exact ⟨g :: gs, by simp [serL, hg, hgs], by simp [deL, hd, hds]⟩
  | [], _ :: _, h | _ :: _, [], h => by simp [rtbL] at h
theorem rtVar (D : Defects) : ∀ (ns : List Str) (ks : List VKind) (ts : List STy) (name : Str) (v : SVal),
    rtbVar D ns ks ts name v = true →
    ∃ g p, serVar D ns ks ts name v = some g ∧ enumParts g = some (name, p) ∧
      deVar ns ks ts name p = some (.var name v)
  | n :: ns, k :: ks, t :: ts, name, v, h => by
    by_cases hn : n = name
    · subst hn
      rw [rtbVar.eq_def] at h
      simp only [eq_self, if_true] at h
      split at h
      · -- unit variant
        exact ⟨.str n, none, by rw [serVar.eq_def]; simp, by simp [enumParts], by rw [deVar.eq_def]; simp⟩
      · -- newtype variant
        obtain ⟨g, hg, hd⟩ := rt D t v h
        exact ⟨.obj [(n, g)], some g, by rw [serVar.eq_def]; simp [hg], by simp [enumParts], by rw [deVar.eq_def]; simp [hd]⟩
      · -- tuple variant
        rename_i ts' vs
        simp only [Bool.and_eq_true, Bool.not_eq_true'] at h
        obtain ⟨gs, hg, hd⟩ := rtL D ts' vs h.1
        have hlen := (serL_length D ts' vs gs hg).2
        have hne : gs.isEmpty = false := by
          cases vs with
          | nil => simp at h
          | cons _ _ => cases gs with
            | nil => simp at hlen
            | cons _ _ => rfl
        exact ⟨.obj [(n, .list gs)], some (.list gs), by rw [serVar.eq_def]; simp [hg], by simp [enumParts],
          by rw [deVar.eq_def]; simp [hne, hd]⟩
      · -- struct variant
        rename_i fns fts vs
        simp only [Bool.and_eq_true, decide_eq_true_eq] at h
        obtain ⟨gs, hg, hd⟩ := rtL D fts vs h.1.1
        exact ⟨.obj [(n, .obj (imFromList (fns.zip gs)))], some (.obj (imFromList (fns.zip gs))),
          by rw [serVar.eq_def]; simp [hg, h.1.2], by simp [enumParts],
          by rw [deVar.eq_def]; simp [struct_core D fns fts vs gs hg hd h.1.2 h.2]⟩
      · simp at h
    · rw [rtbVar.eq_def] at h
      simp only [if_neg hn] at h
      obtain ⟨g, p, hg, hp, hd⟩ := rtVar D ns ks ts name v h
      exact ⟨g, p, by rw [serVar.eq_def]; simp [hn, hg], hp, by rw [deVar.eq_def]; simp [hn, hd]⟩
  | [], _, _, _, _, h | _ :: _, [], _, _, _, h | _ :: _, _ :: _, [], _, _, h => by simp [rtbVar] at h
end

-- ---------------------------------------------------------------- converse direction

theorem allM_inv {α β : Type} (f : α → Option β) (g : β → Option α) (l : List α) (bs : List β)
    (h1 : allM f l = some bs) (h2 : allM g bs = some l) :
    ∀ a ∈ l, ∃ b, f a = some b ∧ g b = some a := by
  induction l generalizing bs with
  | nil => simp
  | cons a as ih =>
    rw [allM] at h1
    cases hfa : f a with
    | none => simp [hfa] at h1
    | some b =>
      simp only [hfa] at h1
      cases hr : allM f as with
      | none => simp [hr] at h1
      | some bs' =>
        simp [hr] at h1; subst h1
        rw [allM] at h2
        cases hgb : g b with
        | none => simp [hgb] at h2
        | some a' =>
          simp only [hgb] at h2
          cases hr2 : allM g bs' with
          | none => simp [hr2] at h2
          | some as' =>
            simp [hr2] at h2
            obtain ⟨e1, e2⟩ := h2
            subst e1; subst e2
            intro x hx
            simp at hx
            rcases hx with rfl | hx
            · exact ⟨b, hfa, hgb⟩
            · exact ih bs' hr hr2 x hx

theorem prim_exact (D : Defects) (p : PTy) (v : SVal) (g : GV) (hw : shapePrim p v = true)
    (hs : serPrim D p v = some g) (hd : dePrim p g = some v) : rtPrim D p v = true := by
  cases p <;> cases v <;> simp [shapePrim] at hw <;> simp [serPrim, PTy.ser64] at hs <;>
    first
    | (subst hs; simp_all [rtPrim, dePrim, PTy.ser64]; done)
    | (subst hs; by_cases hf : finiteBits ‹Nat› = true <;> simp_all [rtPrim, dePrim]; done)
    | (obtain ⟨_, hs⟩ := hs; subst hs; simp_all [rtPrim, dePrim, PTy.ser64]; done)

theorem deL_of_struct (D : Defects) (ns : List Str) (ts : List STy) (vs : List SVal) (gs : List GV)
    (hs : serL D ts vs = some gs) (hl : ns.length = ts.length) (hn : nodup ns = true) :
    deFields ns ts (imFromList (ns.zip gs)) = deL ts gs := by
  have hlen := (serL_length D ts vs gs hs).1
  have hkeys : (ns.zip gs).map (·.1) = ns := by
    apply List.map_fst_zip; omega
  rw [imFromList_nodup _ (by rw [hkeys]; exact hn)]
  exact deFields_eq_deL ns ts gs _ (allLook_zip ns gs ((nodup_iff _).mp hn) (by omega)) hl

theorem serVar_name (D : Defects) (ns : List Str) (ks : List VKind) (ts : List STy) (name : Str) (v : SVal)
    (g : GV) (h : serVar D ns ks ts name v = some g) : ∃ p, enumParts g = some (name, p) := by
  induction ns generalizing ks ts with
  | nil => rw [serVar.eq_def] at h; simp at h
  | cons n ns ih =>
    cases ks with
    | nil => rw [serVar.eq_def] at h; simp at h
    | cons k ks =>
      cases ts with
      | nil => rw [serVar.eq_def] at h; simp at h
      | cons t ts =>
        rw [serVar.eq_def] at h
        by_cases hn : n = name
        · subst hn
          simp only [eq_self, if_true] at h
          split at h
          · simp at h; subst h; exact ⟨none, rfl⟩
          · cases hg : ser D t v <;> simp [hg] at h
            subst h; exact ⟨_, rfl⟩
          · rename_i ts' vs
            cases hg : serL D ts' vs <;> simp [hg] at h
            subst h; exact ⟨_, rfl⟩
          · rename_i fns fts vs
            split at h
            · cases hg : serL D fts vs <;> simp [hg] at h
              subst h; exact ⟨_, rfl⟩
            · simp at h
          · simp at h
        · simp only [if_neg hn] at h
          exact ih ks ts h

-- ---------------------------------------------------------------- the induction of the converse

mutual
theorem ex (D : Defects) : ∀ (τ : STy) (v : SVal) (g : GV), wellShaped τ v = true →
    ser D τ v = some g → de τ g = some v → rtb D τ v = true
  | .prim p, v, g, hw, hs, hd => by
    simp only [wellShaped] at hw
    simp only [ser] at hs
    simp only [de] at hd
    simpa [rtb] using prim_exact D p v g hw hs hd
  | .opt t, v, g, hw, hs, hd => by
    cases v <;> simp only [wellShaped, Bool.false_eq_true] at hw
    case none => simp [rtb]
    case some v =>
      simp only [ser] at hs
      have hnn : g.isNull = false := by
        cases g <;> simp_all [de, GV.isNull]
      have hd' : de t g = some v := by
        cases g <;> simp_all [de, GV.isNull]
      simp [rtb, ex D t v g hw hs hd', hs, serIsNull, hnn]
  | .newtype t, v, g, hw, hs, hd => by
    cases v <;> simp only [wellShaped, Bool.false_eq_true] at hw
    case newtype v =>
      simp only [ser] at hs
      have hd' : de t g = some v := by
        simp only [de] at hd
        cases h : de t g <;> simp_all
      simpa [rtb] using ex D t v g hw hs hd'
  | .seq t, v, g, hw, hs, hd => by
    cases v <;> simp only [wellShaped, Bool.false_eq_true] at hw
    case seq vs =>
      simp only [ser] at hs
      cases hgs : allM (ser D t) vs with
      | none => simp [hgs] at hs
      | some gs =>
        simp [hgs] at hs; subst hs
        simp only [de] at hd
        cases hvs : allM (de t) gs with
        | none => simp [hvs] at hd
        | some vs' =>
          simp [hvs] at hd; subst hd
          rw [List.all_eq_true] at hw
          simp only [rtb, List.all_eq_true]
          intro a ha
          obtain ⟨b, hb1, hb2⟩ := allM_inv _ _ _ _ hgs hvs a ha
          exact ex D t a b (hw a ha) hb1 hb2
  | .map t, v, g, hw, hs, hd => by
    cases v <;> simp only [wellShaped, Bool.false_eq_true] at hw
    case map kvs =>
      simp only [Bool.and_eq_true, List.all_eq_true] at hw
      simp only [ser] at hs
      cases hl : allM (fun kv : Str × SVal => (ser D t kv.2).map (fun g => (kv.1, g))) kvs with
      | none => simp [hl] at hs
      | some l =>
        simp [hl] at hs; subst hs
        have hk := allM_keys (ser D t) kvs l hl
        rw [imFromList_nodup l (by rw [hk]; exact hw.2)] at hd
        simp only [de] at hd
        cases hvs : allM (fun kv : Str × GV => (de t kv.2).map (fun v => (kv.1, v))) l with
        | none => simp [hvs] at hd
        | some kvs' =>
          simp [hvs] at hd; subst hd
          simp only [rtb, Bool.and_eq_true, List.all_eq_true]
          refine ⟨?_, hw.2⟩
          intro a ha
          obtain ⟨b, hb1, hb2⟩ := allM_inv _ _ _ _ hl hvs a ha
          cases hsa : ser D t a.2 with
          | none => simp [hsa] at hb1
          | some ga =>
            simp [hsa] at hb1; subst hb1
            cases hda : de t ga with
            | none => simp [hda] at hb2
            | some w =>
              simp [hda] at hb2
              have : w = a.2 := by rw [← hb2]
              subst this
              exact ex D t a.2 ga (hw.1 a ha) hsa hda
  | .tup ts, v, g, hw, hs, hd => by
    cases v <;> simp only [wellShaped, Bool.false_eq_true] at hw
    case tup vs =>
      simp only [ser] at hs
      cases hgs : serL D ts vs with
      | none => simp [hgs] at hs
      | some gs =>
        simp [hgs] at hs; subst hs
        simp only [de] at hd
        cases hvs : deL ts gs with
        | none => simp [hvs] at hd
        | some vs' =>
          simp [hvs] at hd; subst hd
          simpa [rtb] using exL D ts vs' gs hw hgs hvs
  | .tstruct ts, v, g, hw, hs, hd => by
    cases v <;> simp only [wellShaped, Bool.false_eq_true] at hw
    case tup vs =>
      simp only [ser] at hs
      cases hgs : serL D ts vs with
      | none => simp [hgs] at hs
      | some gs =>
        simp [hgs] at hs; subst hs
        simp only [de] at hd
        cases hvs : deL ts gs with
        | none => simp [hvs] at hd
        | some vs' =>
          simp [hvs] at hd; subst hd
          simpa [rtb] using exL D ts vs' gs hw hgs hvs
  | .struct ns ts, v, g, hw, hs, hd => by
    cases v <;> simp only [wellShaped, Bool.false_eq_true] at hw
    case tup vs =>
      simp only [Bool.and_eq_true, decide_eq_true_eq] at hw
      simp only [ser, hw.1.2, if_true] at hs
      cases hgs : serL D ts vs with
      | none => simp [hgs] at hs
      | some gs =>
        simp [hgs] at hs; subst hs
        simp only [de] at hd
        rw [deL_of_struct D ns ts vs gs hgs hw.1.2 hw.2] at hd
        cases hvs : deL ts gs with
        | none => simp [hvs] at hd
        | some vs' =>
          simp [hvs] at hd; subst hd
          simp [rtb, exL D ts vs' gs hw.1.1 hgs hvs, hw.1.2, hw.2]
  | .enum ns ks ts, v, g, hw, hs, hd => by
    cases v <;> simp only [wellShaped, Bool.false_eq_true] at hw
    case var name v =>
      simp only [ser] at hs
      simp only [rtb]
      rw [de] at hd
      exact exVar D ns ks ts name v g hw hs hd
theorem exL (D : Defects) : ∀ (ts : List STy) (vs : List SVal) (gs : List GV), wellShapedL ts vs = true →
    serL D ts vs = some gs → deL ts gs = some vs → rtbL D ts vs = true
  | [], [], _, _, _, _ => by simp [rtbL]
  | t :: ts, v :: vs, gs, hw, hs, hd => by
    simp only [wellShapedL, Bool.and_eq_true] at hw
    simp only [serL] at hs
    cases hg : ser D t v with
    | none => simp [hg] at hs
    | some g =>
      cases hgs : serL D ts vs with
      | none => simp [hg, hgs] at hs
      | some gs' =>
        simp [hg, hgs] at hs; subst hs
        simp only [deL] at hd
        cases hv : de t g with
        | none => simp [hv] at hd
        | some v' =>
          cases hvs : deL ts gs' with
          | none => simp [hv, hvs] at hd
          | some vs' =>
            simp [hv, hvs] at hd
            obtain ⟨e1, e2⟩ := hd
            subst e1; subst e2
            simp [rtbL, ex D t v' g hw.1 hg hv, exL D ts vs' gs' hw.2 hgs hvs]
  | [], _ :: _, _, hw, _, _ | _ :: _, [], _, hw, _, _ => by simp [wellShapedL] at hw
theorem exVar (D : Defects) : ∀ (ns : List Str) (ks : List VKind) (ts : List STy) (name : Str) (v : SVal) (g : GV),
    wellShapedVar ns ks ts name v = true → serVar D ns ks ts name v = some g →
    (match enumParts g with
      | some (name', p) => deVar ns ks ts name' p
      | none => none) = some (.var name v) →
    rtbVar D ns ks ts name v = true
  | n :: ns, k :: ks, t :: ts, name, v, g, hw, hs, hd => by
    by_cases hn : n = name
    · subst hn
      rw [wellShapedVar.eq_def] at hw; simp only [eq_self, if_true] at hw
      rw [rtbVar.eq_def]; simp only [eq_self, if_true]
      rw [serVar.eq_def] at hs; simp only [eq_self, if_true] at hs
      split at hw
      · simp
      · -- newtype variant
        simp only at hs ⊢
        cases hg : ser D t v with
        | none => simp [hg] at hs
        | some g' =>
          simp [hg] at hs; subst hs
          simp only [enumParts] at hd
          rw [deVar.eq_def] at hd; simp only [eq_self, if_true] at hd
          cases hv : de t g' with
          | none => simp [hv] at hd
          | some v' =>
            simp [hv] at hd; subst hd
            exact ex D t v' g' hw hg hv
      · -- tuple variant
        rename_i ts' vs
        simp only at hs ⊢
        cases hgs : serL D ts' vs with
        | none => simp [hgs] at hs
        | some gs =>
          simp [hgs] at hs; subst hs
          simp only [enumParts] at hd
          rw [deVar.eq_def] at hd; simp only [eq_self, if_true] at hd
          by_cases he : gs.isEmpty = true
          · simp [he] at hd
          · simp only [he] at hd
            cases hvs : deL ts' gs with
            | none => simp [hvs] at hd
            | some vs' =>
              simp [hvs] at hd; subst hd
              have hlen := (serL_length D ts' vs' gs hgs).2
              have : vs'.isEmpty = false := by
                cases vs' with
                | nil => cases gs <;> simp_all
                | cons _ _ => rfl
              simp [exL D ts' vs' gs hw hgs hvs, this]
      · -- struct variant
        rename_i fns fts vs
        simp only [Bool.and_eq_true, decide_eq_true_eq] at hw
        simp only [hw.1.2, if_true] at hs ⊢
        cases hgs : serL D fts vs with
        | none => simp [hgs] at hs
        | some gs =>
          simp [hgs] at hs; subst hs
          simp only [enumParts] at hd
          rw [deVar.eq_def] at hd; simp only [eq_self, if_true] at hd
          rw [deL_of_struct D fns fts vs gs hgs hw.1.2 hw.2] at hd
          cases hvs : deL fts gs with
          | none => simp [hvs] at hd
          | some vs' =>
            simp [hvs] at hd; subst hd
            simp [exL D fts vs' gs hw.1.1 hgs hvs, hw.2]
      · simp at hw
    · rw [wellShapedVar.eq_def] at hw; simp only [if_neg hn] at hw
      rw [rtbVar.eq_def]; simp only [if_neg hn]
      rw [serVar.eq_def] at hs; simp only [if_neg hn] at hs
      have hname : ∀ name' p, enumParts g = some (name', p) → name' = name := by
        intro name' p hp
        obtain ⟨p', hp'⟩ := serVar_name D ns ks ts name v g hs
        rw [hp'] at hp
        simp at hp
        exact hp.1.symm
      refine exVar D ns ks ts name v g hw hs ?_
      cases hp : enumParts g with
      | none => simp [hp] at hd
      | some np =>
        obtain ⟨name', p⟩ := np
        have := hname name' p hp
        subst this
        simp only [hp] at hd ⊢
        rw [deVar.eq_def] at hd; simp only [if_neg hn] at hd
        exact hd
  | [], _, _, _, _, _, hw, _, _ | _ :: _, [], _, _, _, _, hw, _, _ | _ :: _, _ :: _, [], _, _, _, hw, _, _ => by
    simp [wellShapedVar] at hw
end

end AGV.Lemmas.Serde
