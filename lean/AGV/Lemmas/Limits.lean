/-
  C10 — lemmas relating the walkers of the model (which follow fragment spreads on the fly)
  to the reference measures of the expanded document.
-/
import AGV.Model.Limits

namespace AGV.Lemmas.Limits
open AGV.Core
open AGV.Spec.Limits
open AGV.Model.Limits (Defects)

-- ------------------------------------------------------------------ list helpers

theorem cxSels_map (S : Schema) (R : Rules) (ρ : ArgEnv) (vds : List VarDef) (cur : Option String)
    (h : Sel → Sel) (l : List Sel) :
    cxSels S R ρ vds cur (l.map h) = (l.map fun s => cxSel S R ρ vds cur (h s)).sum := by
  induction l with
  | nil => simp [cxSels]
  | cons s ss ih => simp [cxSels, ih]

theorem depthSels_map (h : Sel → Sel) (l : List Sel) :
    depthSels (l.map h) = maxList (l.map fun s => depthSel (h s)) := by
  induction l with
  | nil => simp [depthSels, maxList]
  | cons s ss ih => simp [depthSels, maxList, ih]

theorem lt_maxList {k : Nat} {l : List Nat} : k < maxList l ↔ ∃ x ∈ l, k < x := by
  induction l with
  | nil => simp [maxList]
  | cons x xs ih =>
    simp only [maxList, List.mem_cons, exists_eq_or_imp]
    rw [← ih]
    omega

theorem lt_nestSels {k : Nat} {l : List Sel} : k < nestSels l ↔ ∃ s ∈ l, k < nestSel s := by
  induction l with
  | nil => simp [nestSels]
  | cons x xs ih =>
    simp only [nestSels, List.mem_cons, exists_eq_or_imp]
    rw [← ih]
    omega

theorem lt_dirSels {k : Nat} {l : List Sel} : k < dirSels l ↔ ∃ s ∈ l, k < dirSel s := by
  induction l with
  | nil => simp [dirSels]
  | cons x xs ih =>
    simp only [dirSels, List.mem_cons, exists_eq_or_imp]
    rw [← ih]
    omega

theorem nestSel_le_nestSels {s : Sel} {l : List Sel} (h : s ∈ l) : nestSel s ≤ nestSels l := by
  induction l with
  | nil => cases h
  | cons x xs ih =>
    simp only [nestSels]
    rcases List.mem_cons.mp h with rfl | h'
    · omega
    · have := ih h'
      omega

theorem inlineSels_nil (frags : List FragDef) (f : Nat) : inlineSels frags f [] = [] := by
  cases f <;> simp [inlineSels]

theorem inlineSels_isEmpty (frags : List FragDef) (f : Nat) (l : List Sel) :
    (inlineSels frags (f + 1) l).isEmpty = l.isEmpty := by
  cases l <;> simp [inlineSels]

-- ------------------------------------------------------------------ type stack vs current type

theorem typeNamed_eq (S : Schema) (n : String) : Model.Limits.typeNamed S n = known S n := by
  unfold Model.Limits.typeNamed known
  cases S.find? n <;> simp

theorem pushField_eq (S : Schema) (cur : Option String) (rest : List (Option String)) (name : String) :
    Model.Limits.pushField S (cur :: rest) name = fieldType S cur name :: cur :: rest := by
  unfold Model.Limits.pushField fieldType Model.Limits.current
  cases cur with
  | none => rfl
  | some t =>
    simp only
    cases S.field? t name <;> simp [typeNamed_eq]

theorem customRule_eq (S : Schema) (R : Rules) (x cur : Option String) (rest : List (Option String)) (name : String) :
    Model.Limits.customRule S R (x :: cur :: rest) name = rule? S R cur name := by
  unfold Model.Limits.customRule rule? Model.Limits.parent Schema.kindOf
  cases cur with
  | none => rfl
  | some t =>
    simp only
    cases h : S.find? t with
    | none => simp
    | some td =>
      simp only [Option.map_some]
      by_cases hk : td.kind = Kind.object
      · simp only [hk, if_true]
        cases R.find? (fun r => r.ty = t ∧ r.field = name) <;> rfl
      · simp [hk]

-- ------------------------------------------------------------------ complexity

theorem none_tn : Defects.none.typenameUncounted = false := rfl
theorem none_sp : Defects.none.spreadKeepsParentType = false := rfl

theorem cx_refines (S : Schema) (R : Rules) (ρ : ArgEnv) (vds : List VarDef) (frags : List FragDef) :
    ∀ (f : Nat) (cur : Option String) (rest : List (Option String)) (sels : List Sel),
      Model.Limits.cxSels Defects.none S R ρ vds frags f (cur :: rest) sels
        = cxSels S R ρ vds cur (inlineSels frags f sels) := by
  intro f
  induction f with
  | zero => intro cur rest sels; simp [Model.Limits.cxSels, inlineSels, cxSels]
  | succ f ih =>
    intro cur rest sels
    rw [Model.Limits.cxSels, inlineSels, cxSels_map]
    congr 1
    apply List.map_congr_left
    intro s _
    cases s with
    | field a name args dirs sub pos =>
      simp only [none_tn, Bool.false_eq_true, and_false, if_false, pushField_eq, customRule_eq, ih, cxSel]
      cases rule? S R cur name with
      | none => rfl
      | some e =>
        simp only
        cases e.eval (ρ vds args) (cxSels S R ρ vds (fieldType S cur name) (inlineSels frags f sub)) <;> rfl
    | spread n dirs pos =>
      cases hfr : frags.find? (fun fr => fr.name = n) with
      | none => simp [hfr, cxSel]
      | some fr =>
        simp only [hfr, Model.Limits.pushSpread, none_sp, Bool.false_eq_true, if_false, ih, cxSel, condType,
          typeNamed_eq]
    | inline c dirs sub pos =>
      cases c with
      | none => simp only [Model.Limits.pushInline, ih, cxSel, condType]
      | some c => simp only [Model.Limits.pushInline, ih, cxSel, condType, typeNamed_eq]

-- ------------------------------------------------------------------ depth

theorem depth_refines (frags : List FragDef) :
    ∀ (f : Nat) (sels : List Sel),
      Model.Limits.depthSels Defects.none frags f sels = depthSels (inlineSels frags f sels) := by
  intro f
  induction f with
  | zero => intro sels; simp [Model.Limits.depthSels, inlineSels, depthSels]
  | succ f ih =>
    intro sels
    rw [Model.Limits.depthSels, inlineSels, depthSels_map]
    congr 1
    apply List.map_congr_left
    intro s _
    cases s with
    | field a name args dirs sub pos =>
      simp only [none_tn, Bool.false_eq_true, and_false, if_false, ih, depthSel]
    | spread n dirs pos =>
      cases hfr : frags.find? (fun fr => fr.name = n) with
      | none => simp [hfr, depthSel]
      | some fr => simp only [hfr, ih, depthSel]
    | inline c dirs sub pos => simp only [ih, depthSel]

-- ------------------------------------------------------------------ recursion walker

theorem lt_nestSels_map {k : Nat} (h : Sel → Sel) (l : List Sel) :
    k < nestSels (l.map h) ↔ ∃ s, s ∈ l ∧ k < nestSel (h s) := by
  induction l with
  | nil => simp [nestSels]
  | cons x xs ih =>
    simp only [List.map_cons, nestSels, List.mem_cons, exists_eq_or_imp]
    rw [← ih]
    omega

theorem lt_dirSels_map {k : Nat} (h : Sel → Sel) (l : List Sel) :
    k < dirSels (l.map h) ↔ ∃ s, s ∈ l ∧ k < dirSel (h s) := by
  induction l with
  | nil => simp [dirSels]
  | cons x xs ih =>
    simp only [List.map_cons, dirSels, List.mem_cons, exists_eq_or_imp]
    rw [← ih]
    omega

theorem nest_map_lt {h : Sel → Sel} {l : List Sel} {k : Nat} (H : nestSels (l.map h) < k) :
    ∀ s, s ∈ l → nestSel (h s) < k := by
  intro s hs
  have := nestSel_le_nestSels (List.mem_map_of_mem (f := h) hs)
  omega

theorem rec_refines (frags : List FragDef) :
    ∀ (b f : Nat) (sels : List Sel), b + 1 ≤ f →
      (Model.Limits.recExceeds frags b sels = true ↔ b ≤ nestSels (inlineSels frags f sels)) := by
  intro b
  induction b with
  | zero => intro f sels _; simp [Model.Limits.recExceeds]
  | succ b ih =>
    intro f sels hf
    obtain ⟨f', rfl⟩ : ∃ f', f = f' + 1 := ⟨f - 1, by omega⟩
    have hf' : b + 1 ≤ f' := by omega
    obtain ⟨f'', hf''⟩ : ∃ f'', f' = f'' + 1 := ⟨f' - 1, by omega⟩
    rw [Model.Limits.recExceeds, inlineSels, Nat.add_one_le_iff, lt_nestSels_map, List.any_eq_true]
    apply exists_congr
    intro s
    apply and_congr_right
    intro _
    cases s with
    | field a name args dirs sub pos =>
      simp only [nestSel, Bool.and_eq_true, Bool.not_eq_true', ih f' sub hf']
      rw [hf'', inlineSels_isEmpty, ← hf'']
      cases hsub : sub.isEmpty <;> simp <;> omega
    | spread n dirs pos =>
      cases hfr : frags.find? (fun fr => fr.name = n) with
      | none => simp [hfr, nestSel]
      | some fr =>
        simp only [hfr, nestSel, ih f' fr.sels hf']
        omega
    | inline c dirs sub pos =>
      simp only [nestSel, ih f' sub hf']
      omega

-- ------------------------------------------------------------------ directive walker

theorem dir_refines (frags : List FragDef) (lim : Nat) :
    ∀ (f : Nat) (sels : List Sel),
      (Model.Limits.dirExceeds frags lim f sels = true ↔ lim < dirSels (inlineSels frags f sels)) := by
  intro f
  induction f with
  | zero => intro sels; simp [Model.Limits.dirExceeds, inlineSels, dirSels]
  | succ f ih =>
    intro sels
    rw [Model.Limits.dirExceeds, inlineSels, lt_dirSels_map, List.any_eq_true]
    apply exists_congr
    intro s
    apply and_congr_right
    intro _
    cases s with
    | field a name args dirs sub pos =>
      simp only [dirSel, Bool.or_eq_true, decide_eq_true_eq, ih sub]
      omega
    | spread n dirs pos =>
      cases hfr : frags.find? (fun fr => fr.name = n) with
      | none => simp [hfr, dirSel]
      | some fr => simp only [hfr, dirSel, ih fr.sels]
    | inline c dirs sub pos => simp only [dirSel, ih sub]

-- ------------------------------------------------------------------ the expansion is complete within the recursion limit

theorem inline_stable (frags : List FragDef) :
    ∀ (f f' : Nat) (sels : List Sel), nestSels (inlineSels frags f sels) + 1 < f → f ≤ f' →
      inlineSels frags f' sels = inlineSels frags f sels := by
  intro f
  induction f with
  | zero => intro f' sels h; omega
  | succ f ih =>
    intro f' sels h hle
    obtain ⟨f'', rfl⟩ : ∃ f'', f' = f'' + 1 := ⟨f' - 1, by omega⟩
    have hle' : f ≤ f'' := by omega
    rw [inlineSels] at h
    have hall := nest_map_lt (Nat.lt_of_succ_lt_succ h)
    rw [inlineSels, inlineSels]
    apply List.map_congr_left
    intro s hs
    have hs' := hall s hs
    cases s with
    | field a name args dirs sub pos =>
      simp only [nestSel] at hs'
      cases sub with
      | nil => simp [inlineSels_nil]
      | cons x xs =>
        cases f with
        | zero => omega
        | succ g =>
          rw [inlineSels_isEmpty] at hs'
          simp only [List.isEmpty_cons, Bool.false_eq_true, if_false] at hs'
          simp only
          rw [ih f'' (x :: xs) (by omega) hle']
    | spread n dirs pos =>
      cases hfr : frags.find? (fun fr => fr.name = n) with
      | none => simp only [hfr]
      | some fr =>
        simp only [hfr, nestSel] at hs'
        simp only [hfr]
        rw [ih f'' fr.sels (by omega) hle']
    | inline c dirs sub pos =>
      simp only [nestSel] at hs'
      simp only
      rw [ih f'' sub (by omega) hle']

end AGV.Lemmas.Limits
