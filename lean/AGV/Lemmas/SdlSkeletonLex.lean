/-
  C17 — lexing the exporter's pieces of a type definition (type references, input values with
  default values, deprecations and directive applications, argument lists in both layouts, fields,
  implements lists, union members).
-/
import AGV.Lemmas.SdlSkeletonDefs
import AGV.Lemmas.SdlDesc
namespace AGV.Lemmas.SdlSkeleton
open AGV.Core AGV.Core.PAst AGV.Core.Sdl AGV.Model.Sdl AGV.Spec.Literal AGV.Spec.Lex AGV.Spec.Parse AGV.Spec.SdlParse AGV.Lemmas.SdlLex AGV.Lemmas.SdlValue

-- ------------------------------------------------------------------ lexing the exporter's pieces

theorem tab_ignored (o : Opts) : ∀ c ∈ tab o, isIgnoredChar c = true := by
  intro c hc
  unfold tab at hc
  split at hc
  · rw [List.mem_replicate] at hc; rw [hc.2]; decide
  · simp at hc; rw [hc]; decide

theorem nameEnd_of_ignored (c : Char) (r : Text) (h : isIgnoredChar c = true) : NameEnd (c :: r) := by
  intro d r' e
  cases e
  simp [← Char.toNat_inj, isIgnoredChar, isLineTerm, nameChar, nameStart, isAlpha, AGV.Digits.isDigit] at *
  omega

theorem nameEnd_of_punct (c : Char) (r : Text) (h : isPunct c = true) : NameEnd (c :: r) := by
  intro d r' e
  cases e
  simp [← Char.toNat_inj, isPunct, nameChar, nameStart, isAlpha, AGV.Digits.isDigit] at *
  omega

theorem nameEnd_nil : NameEnd [] := by intro c r e; cases e

/-- a name followed by an ignored character -/
theorem Lx.nameI {n : Text} {c : Char} {r ts} (hn : isName n = true) (hc : isIgnoredChar c = true) (h : Lx r ts) :
    Lx (n ++ c :: r) (.name n :: ts) :=
  Lx.name hn (nameEnd_of_ignored c r hc) (Lx.ign hc h)

/-- a name followed by a punctuator -/
theorem Lx.nameP {n : Text} {c : Char} {r ts} (hn : isName n = true) (hc : isPunct c = true) (h : Lx r ts) :
    Lx (n ++ c :: r) (.name n :: .punct c :: ts) :=
  Lx.name hn (nameEnd_of_punct c r hc) (Lx.punct hc h)

theorem Lx_type (t : PType) (ht : WfType t) : ∀ (rest : Text) (ts : List Tok), NameEnd rest → Lx rest ts →
    Lx (typeText t ++ rest) (typeToks t ++ ts) := by
  induction t with
  | named n nl =>
    intro rest ts hr h
    cases nl with
    | true => simpa [typeText, typeToks] using Lx.name ht hr h
    | false =>
      have := Lx.nameP (n := n) (c := '!') ht (by decide) h
      simpa [typeText, typeToks] using this
  | listOf t nl ih =>
    intro rest ts hr h
    cases nl with
    | true =>
      have h1 : Lx (']' :: rest) (.punct ']' :: ts) := Lx.punct (by decide) h
      have h2 := ih ht _ _ (nameEnd_of_punct ']' rest (by decide)) h1
      have h3 := Lx.punct (c := '[') (by decide) h2
      simpa [typeText, typeToks, List.append_assoc] using h3
    | false =>
      have h0 : Lx ('!' :: rest) (.punct '!' :: ts) := Lx.punct (by decide) h
      have h1 : Lx (']' :: '!' :: rest) (.punct ']' :: .punct '!' :: ts) := Lx.punct (by decide) h0
      have h2 := ih ht _ _ (nameEnd_of_punct ']' _ (by decide)) h1
      have h3 := Lx.punct (c := '[') (by decide) h2
      simpa [typeText, typeToks, List.append_assoc] using h3

theorem fedAttrs_off (o : Opts) (ho : o.federation = false) (a : Attrs) : fedAttrs Defects.none o a = [] := by
  simp [fedAttrs, ho]

theorem dirsToks_append (a b : List DirApp) : dirsToks (a ++ b) = dirsToks a ++ dirsToks b := by
  simp [dirsToks]

theorem writeDeprecated_valEnd (d : Dep) (rest : Text) (hr : ValEnd rest) : ValEnd (writeDeprecated Defects.none d ++ rest) := by
  cases d with
  | no => simpa [writeDeprecated] using hr
  | yes r => cases r <;> (simp only [writeDeprecated, s]; exact valEnd_ign ' ' _ (by decide))

theorem dirApps_valEnd (ds : List DirApp) (rest : Text) (hr : ValEnd rest) : ValEnd (dirApps ds ++ rest) := by
  cases ds with
  | nil => simpa [dirApps] using hr
  | cons d ds => simp only [dirApps, List.map_cons, List.flatten_cons, List.cons_append]; exact valEnd_ign ' ' _ (by decide)

-- ------------------------------------------------------------------ federation attributes

theorem writeTags_valEnd (ts : List Text) (rest : Text) (hr : ValEnd rest) : ValEnd (writeTags Defects.none ts ++ rest) := by
  cases ts with
  | nil => simpa [writeTags] using hr
  | cons t ts => simp only [writeTags, List.map_cons, List.flatten_cons, s, List.append_assoc]; exact valEnd_ign ' ' _ (by decide)

theorem fedAttrs_valEnd (o : Opts) (a : Attrs) (rest : Text) (hr : ValEnd rest) : ValEnd (fedAttrs Defects.none o a ++ rest) := by
  unfold fedAttrs
  split
  · cases a.inacc
    · simpa using writeTags_valEnd a.tags rest hr
    · simp only [s, ↓reduceIte, List.append_assoc]; exact valEnd_ign ' ' _ (by decide)
  · simpa using hr

/-- ` @tag(name: "…")` for every tag -/
theorem Lx_tags (tags : List Text) (rest : Text) (ts : List Tok) (h : Lx rest ts) :
    Lx (writeTags Defects.none tags ++ rest)
      (dirsToks (tags.map (fun t => (⟨kwT "tag", [(kwT "name", .str t)]⟩ : DirApp))) ++ ts) := by
  induction tags with
  | nil => simpa [writeTags, dirsToks] using h
  | cons u tags ih =>
    have h1 : Lx ('"' :: (escapeString false u ++ '"' :: ')' :: (writeTags Defects.none tags ++ rest)))
        (.str u :: .punct ')' :: (dirsToks (tags.map (fun t => (⟨kwT "tag", [(kwT "name", .str t)]⟩ : DirApp))) ++ ts)) :=
      Lx.estr (by simp) (Lx.punct (by decide) ih)
    have h2 := Lx.name (n := kwT "name") (by decide) (valEnd_punct ':' _ (by decide)).nameEnd
      (Lx.punct (c := ':') (by decide) (Lx.ign (c := ' ') (by decide) h1))
    have h3 := Lx.ign (c := ' ') (by decide) (Lx.punct (c := '@') (by decide)
      (Lx.name (n := kwT "tag") (by decide) (valEnd_punct '(' _ (by decide)).nameEnd (Lx.punct (c := '(') (by decide) h2)))
    have hD : tagText Defects.none u = escapeString false u := by simp [tagText, Defects.none]
    simpa [writeTags, hD, dirsToks, dirToks, sfToks, svToks, s, kwT, List.append_assoc] using h3

theorem Lx_fedAttrs (o : Opts) (a : Attrs) (rest : Text) (ts : List Tok) (hr : ValEnd rest) (h : Lx rest ts) :
    Lx (fedAttrs Defects.none o a ++ rest) (dirsToks (fedApps o a) ++ ts) := by
  unfold fedAttrs fedApps
  split
  · have h1 := Lx_tags a.tags rest ts h
    cases a.inacc
    · simpa using h1
    · have := Lx.ign (c := ' ') (by decide) (Lx.punct (c := '@') (by decide)
        (Lx.name (n := kwT "inaccessible") (by decide) (writeTags_valEnd a.tags rest hr).nameEnd h1))
      simpa [dirsToks_append, dirsToks, dirToks, s, kwT, List.append_assoc] using this
  · simpa [dirsToks] using h

/-- what the exporter writes after an argument, input field or enum value: the deprecation, the
    federation attributes, the custom directive applications -/
theorem itemApps_valEnd (o : Opts) (a : Attrs) (rest : Text) (hr : ValEnd rest) :
    ValEnd (writeDeprecated Defects.none a.dep ++ (fedAttrs Defects.none o a ++ (dirApps a.dirs ++ rest))) :=
  writeDeprecated_valEnd _ _ (fedAttrs_valEnd o a _ (dirApps_valEnd _ _ hr))

theorem Lx_itemApps (o : Opts) (a : Attrs) (ha : WfAttrs a) (rest : Text) (ts : List Tok) (hr : ValEnd rest) (h : Lx rest ts) :
    Lx (writeDeprecated Defects.none a.dep ++ (fedAttrs Defects.none o a ++ (dirApps a.dirs ++ rest))) (dirsToks (itemApps o a) ++ ts) := by
  have h1 := Lx_dirApps a.dirs ha.dirs rest ts hr.nameEnd h
  have h2 := Lx_fedAttrs o a _ _ (dirApps_valEnd a.dirs rest hr) h1
  have h3 := Lx_deprecated a.dep _ _ (fedAttrs_valEnd o a _ (dirApps_valEnd a.dirs rest hr)).nameEnd h2
  simpa [itemApps, dirsToks_append, List.append_assoc] using h3

/-- … after a field: the deprecation, the custom directive applications, the federation attributes -/
theorem fieldApps_valEnd (o : Opts) (a : Attrs) (rest : Text) (hr : ValEnd rest) :
    ValEnd (writeDeprecated Defects.none a.dep ++ (dirApps a.dirs ++ (fedAttrs Defects.none o a ++ rest))) :=
  writeDeprecated_valEnd _ _ (dirApps_valEnd _ _ (fedAttrs_valEnd o a _ hr))

theorem Lx_fieldApps (o : Opts) (a : Attrs) (ha : WfAttrs a) (rest : Text) (ts : List Tok) (hr : ValEnd rest) (h : Lx rest ts) :
    Lx (writeDeprecated Defects.none a.dep ++ (dirApps a.dirs ++ (fedAttrs Defects.none o a ++ rest))) (dirsToks (fieldApps o a) ++ ts) := by
  have h1 := Lx_fedAttrs o a rest ts hr h
  have h2 := Lx_dirApps a.dirs ha.dirs _ _ (fedAttrs_valEnd o a rest hr).nameEnd h1
  have h3 := Lx_deprecated a.dep _ _ (dirApps_valEnd a.dirs _ (fedAttrs_valEnd o a rest hr)).nameEnd h2
  simpa [fieldApps, dirsToks_append, List.append_assoc] using h3

theorem Lx_optDesc (o : Opts) (level : Nat) (dsc : Option Text) (rest : Text) (ts : List Tok) (h : Lx rest ts) :
    Lx (optDescription Defects.none o level dsc ++ rest) (descToks dsc ++ ts) := by
  cases dsc with
  | none => simpa [optDescription, descToks] using h
  | some d => simpa [optDescription, descToks] using Lx_description o level d rest ts h

theorem Lx_inputValue (o : Opts) (x : InputVal) (hx : SkelIv x) (rest : Text) (ts : List Tok)
    (hr : ValEnd rest) (h : Lx rest ts) :
    Lx (writeInputValue Defects.none x ++ (fedAttrs Defects.none o x.a ++ (dirApps x.a.dirs ++ rest))) (ivCore o x ++ ts) := by
  have h0 := Lx_itemApps o x.a hx.attrs rest ts hr h
  have hve := itemApps_valEnd o x.a rest hr
  cases hdf : x.default with
  | none =>
    have h1 := Lx_type x.ty hx.ty _ _ hve.nameEnd h0
    have h2 := Lx.ign (c := ' ') (by decide) h1
    have h3 := Lx.nameP (n := x.name) (c := ':') hx.name (by decide) h2
    simpa [writeInputValue, hdf, defaultToks, ivCore, s, List.append_assoc] using h3
  | some v =>
    have hv := Lx_value v (hx.default v hdf) _ _ hve h0
    have hv' := Lx.ign (c := ' ') (by decide) (Lx.punct (c := '=') (by decide) (Lx.ign (c := ' ') (by decide) hv))
    have h1 := Lx_type x.ty hx.ty _ _ (valEnd_ign ' ' _ (by decide)).nameEnd hv'
    have h2 := Lx.ign (c := ' ') (by decide) h1
    have h3 := Lx.nameP (n := x.name) (c := ':') hx.name (by decide) h2
    simpa [writeInputValue, hdf, defaultToks, ivCore, s, List.append_assoc] using h3

theorem writeArgs_valEnd (o : Opts) (nm : Bool) (i : Nat) (args : List InputVal) (rest : Text) (hr : ValEnd rest) :
    ValEnd (writeArgs Defects.none o nm (i + 1) args ++ rest) := by
  cases args with
  | nil => simpa [writeArgs] using hr
  | cons a as =>
    simp only [writeArgs, Nat.add_one_ne_zero, ne_eq, not_false_eq_true, if_true, List.cons_append, List.nil_append,
      List.append_assoc]
    exact valEnd_ign ',' _ (by decide)

theorem Lx_args (o : Opts) (nm : Bool) (args : List InputVal) (hargs : ∀ a ∈ args, SkelIv a) :
    ∀ (i : Nat) (rest : Text) (ts : List Tok), ValEnd rest → Lx rest ts →
      Lx (writeArgs Defects.none o nm i args ++ rest) (ivsToks o args ++ ts) := by
  induction args with
  | nil => intro i rest ts _ h; simpa [writeArgs, ivsToks] using h
  | cons a as ih =>
    intro i rest ts hr h
    have ha := hargs a List.mem_cons_self
    have h1 := ih (fun x hx => hargs x (List.mem_cons_of_mem _ hx)) (i + 1) rest ts hr h
    have h2 := Lx_inputValue o a ha _ _ (writeArgs_valEnd o nm i as rest hr) h1
    -- the indentation before the argument
    have h3 : Lx ((if nm then tab o ++ tab o else if i ≠ 0 then [' '] else []) ++
        (writeInputValue Defects.none a ++ (fedAttrs Defects.none o a.a ++ (dirApps a.a.dirs ++ (writeArgs Defects.none o nm (i + 1) as ++ rest)))))
        (ivCore o a ++ (ivsToks o as ++ ts)) := by
      apply Lx.ws _ h2
      intro c hc
      split at hc
      · rcases List.mem_append.mp hc with hc | hc <;> exact tab_ignored o c hc
      · split at hc
        · simp at hc; rw [hc]; decide
        · cases hc
    -- the description
    have h4 : Lx ((match a.a.desc with
          | some d => '\n' :: writeDescription Defects.none o 2 d
          | none => []) ++
        ((if nm then tab o ++ tab o else if i ≠ 0 then [' '] else []) ++
          (writeInputValue Defects.none a ++ (fedAttrs Defects.none o a.a ++ (dirApps a.a.dirs ++ (writeArgs Defects.none o nm (i + 1) as ++ rest))))))
        (descToks a.a.desc ++ (ivCore o a ++ (ivsToks o as ++ ts))) := by
      cases a.a.desc with
      | none => simpa [descToks] using h3
      | some d =>
        have := Lx.ign (c := '\n') (by decide) (Lx_description o 2 d _ _ h3)
        simpa [descToks, List.append_assoc] using this
    have h5 := Lx.ws (p := if i ≠ 0 then [','] else []) (by
      intro c hc
      split at hc
      · simp at hc; rw [hc]; decide
      · cases hc) h4
    have e : writeArgs Defects.none o nm i (a :: as) ++ rest =
        (if i ≠ 0 then [','] else []) ++ ((match a.a.desc with
          | some d => '\n' :: writeDescription Defects.none o 2 d
          | none => []) ++
        ((if nm then tab o ++ tab o else if i ≠ 0 then [' '] else []) ++
          (writeInputValue Defects.none a ++ (fedAttrs Defects.none o a.a ++ (dirApps a.a.dirs ++ (writeArgs Defects.none o nm (i + 1) as ++ rest)))))) := by
      simp only [writeArgs, List.append_assoc]
      cases a.a.desc <;> rfl
    rw [e]
    have e2 : ivsToks o (a :: as) ++ ts = descToks a.a.desc ++ (ivCore o a ++ (ivsToks o as ++ ts)) := by
      simp [ivsToks, ivToks, List.append_assoc]
    rw [e2]
    exact h5

theorem sortByName_sorted {α : Type} (on : Bool) (nm : α → Text) (xs : List α) :
    (if on then sortByName nm xs else xs) = sorted on nm xs := by
  cases on <;> rfl

/-- the field is written: no introspection field (the repaired exporter leaves the federation
    machinery's fields out of the query root only, before it comes to the fields: `fedRoot`) -/
def FieldShown (o : Opts) (f : FieldDef) : Prop :=
  (startsWith2Underscores f.name ||
    (Defects.none.fedFieldsEverywhere && o.federation && (f.name = s "_service" || f.name = s "_entities"))) = false

theorem Lx_field (o : Opts) (f : FieldDef) (hf : SkelField f)
    (hnd : FieldShown o f) (rest : Text) (ts : List Tok) (h : Lx rest ts) :
    Lx (exportField Defects.none o f ++ rest) (fieldToks o f ++ ts) := by
  have hnl : Lx ('\n' :: rest) ts := Lx.ign (by decide) h
  have hap := Lx_fieldApps o f.a hf.attrs ('\n' :: rest) ts (valEnd_ign '\n' rest (by decide)) hnl
  have hve := fieldApps_valEnd o f.a ('\n' :: rest) (valEnd_ign '\n' rest (by decide))
  have hty := Lx_type f.ty hf.ty _ _ hve.nameEnd hap
  have hsp := Lx.ign (c := ' ') (by decide) hty
  have hcol := Lx.punct (c := ':') (by decide) hsp
  unfold FieldShown at hnd
  by_cases he : f.args = []
  · have h1 := Lx.name (n := f.name) hf.name (nameEnd_of_punct ':' _ (by decide)) hcol
    have h2 := Lx.ws (tab_ignored o) h1
    have h3 := Lx_optDesc o 1 f.a.desc _ _ h2
    have e : exportField Defects.none o f ++ rest =
        optDescription Defects.none o 1 f.a.desc ++ (tab o ++ (f.name ++ ':' :: ' ' :: (typeText f.ty ++
          (writeDeprecated Defects.none f.a.dep ++ (dirApps f.a.dirs ++ (fedAttrs Defects.none o f.a ++ '\n' :: rest)))))) := by
      simp only [exportField, hnd, Bool.false_eq_true, if_false, he, List.isEmpty_nil, Bool.not_true]
      simp [s, List.append_assoc]
    rw [e]
    simpa [fieldToks, fieldCore, he, List.append_assoc] using h3
  · have hne : f.args.isEmpty = false := by simpa using he
    have hsk : ∀ a ∈ sorted o.sortedArgs (·.name) f.args, SkelIv a := fun x hx => hf.args x ((sorted_mem _ _ _ _).mp hx)
    generalize hnm : (sorted o.sortedArgs (·.name) f.args).any (fun x => x.a.desc.isSome) = nm
    have hpar := Lx.punct (c := ')') (by decide) hcol
    have hpar' : Lx ((if nm then '\n' :: tab o else []) ++ ')' :: ':' :: ' ' :: (typeText f.ty ++
          (writeDeprecated Defects.none f.a.dep ++ (dirApps f.a.dirs ++ (fedAttrs Defects.none o f.a ++ '\n' :: rest)))))
        (.punct ')' :: .punct ':' :: (typeToks f.ty ++ (dirsToks (fieldApps o f.a) ++ ts))) := by
      apply Lx.ws _ hpar
      intro c hc
      split at hc
      · rcases List.mem_cons.mp hc with rfl | hc
        · decide
        · exact tab_ignored o c hc
      · cases hc
    have hne' : ValEnd ((if nm then '\n' :: tab o else []) ++ ')' :: ':' :: ' ' :: (typeText f.ty ++
          (writeDeprecated Defects.none f.a.dep ++ (dirApps f.a.dirs ++ (fedAttrs Defects.none o f.a ++ '\n' :: rest))))) := by
      split
      · exact valEnd_ign '\n' _ (by decide)
      · exact valEnd_punct ')' _ (by decide)
    have hargs := Lx_args o nm _ hsk 0 _ _ hne' hpar'
    have h1 := Lx.nameP (n := f.name) (c := '(') hf.name (by decide) hargs
    have h2 := Lx.ws (tab_ignored o) h1
    have h3 := Lx_optDesc o 1 f.a.desc _ _ h2
    have e : exportField Defects.none o f ++ rest =
        optDescription Defects.none o 1 f.a.desc ++ (tab o ++ (f.name ++ '(' :: (writeArgs Defects.none o nm 0 (sorted o.sortedArgs (·.name) f.args) ++
          ((if nm then '\n' :: tab o else []) ++ ')' :: ':' :: ' ' :: (typeText f.ty ++
            (writeDeprecated Defects.none f.a.dep ++ (dirApps f.a.dirs ++ (fedAttrs Defects.none o f.a ++ '\n' :: rest)))))))) := by
      simp only [exportField, hnd, Bool.false_eq_true, if_false,
        hne, Bool.not_false, if_true, sortByName_sorted, hnm]
      simp [s, List.append_assoc]
    rw [e]
    simpa [fieldToks, fieldCore, hne, List.append_assoc] using h3

theorem Lx_fieldList (o : Opts) (fs : List FieldDef)
    (hfs : ∀ f ∈ fs, SkelField f ∧ FieldShown o f) (rest : Text) (ts : List Tok) (h : Lx rest ts) :
    Lx ((fs.map (exportField Defects.none o)).flatten ++ rest) (fieldsToks o fs ++ ts) := by
  induction fs with
  | nil => simpa [fieldsToks] using h
  | cons f fs ih =>
    have h1 := ih (fun x hx => hfs x (List.mem_cons_of_mem _ hx))
    have h2 := Lx_field o f (hfs f List.mem_cons_self).1 (hfs f List.mem_cons_self).2 _ _ h1
    simpa [fieldsToks, List.append_assoc] using h2

theorem Lx_fields (o : Opts) (fs : List FieldDef)
    (hfs : ∀ f ∈ fs, SkelField f ∧ FieldShown o f) (rest : Text) (ts : List Tok) (h : Lx rest ts) :
    Lx (exportFields Defects.none o fs ++ rest) (fieldsToks o (sorted o.sortedFields (·.name) fs) ++ ts) := by
  unfold exportFields
  rw [sortByName_sorted]
  exact Lx_fieldList o _ (fun f hf => hfs f ((sorted_mem _ _ _ _).mp hf)) rest ts h

/-- `A & B & C` / `A | B | C` -/
theorem Lx_joinSep (sep : Char) (hsep : isPunct sep = true) (ns : List Text) (hns : ∀ n ∈ ns, isName n = true)
    (rest : Text) (ts : List Tok) (hr : NameEnd rest) (h : Lx rest ts) :
    Lx (joinSep [' ', sep, ' '] ns ++ rest) (sepToks sep ns ++ ts) := by
  induction ns with
  | nil => simpa [joinSep, sepToks] using h
  | cons n ns ih =>
    cases ns with
    | nil => simpa [joinSep, sepToks] using Lx.name (hns n List.mem_cons_self) hr h
    | cons m ms =>
      have h1 := ih (fun x hx => hns x (List.mem_cons_of_mem _ hx))
      have h2 : Lx (' ' :: (joinSep [' ', sep, ' '] (m :: ms) ++ rest)) (sepToks sep (m :: ms) ++ ts) :=
        Lx.ign (by decide) h1
      have h3 : Lx (sep :: ' ' :: (joinSep [' ', sep, ' '] (m :: ms) ++ rest)) (.punct sep :: (sepToks sep (m :: ms) ++ ts)) :=
        Lx.punct hsep h2
      have h4 := Lx.nameI (n := n) (c := ' ') (hns n List.mem_cons_self) (by decide) h3
      simpa [joinSep, sepToks, List.append_assoc] using h4

theorem Lx_implements (impls : List Text) (hns : ∀ n ∈ impls, isName n = true) (rest : Text) (ts : List Tok)
    (hr : NameEnd rest) (h : Lx rest ts) :
    Lx (writeImplements impls ++ rest) (implToks impls ++ ts) := by
  by_cases he : impls = []
  · subst he; simpa [writeImplements, implToks] using h
  · have hne : impls.isEmpty = false := by simpa using he
    have h1 := Lx_joinSep '&' (by decide) impls hns rest ts hr h
    have h2 := Lx.nameI (n := kw "implements") (c := ' ') (by decide) (by decide) h1
    have h3 : Lx (' ' :: (kw "implements" ++ ' ' :: (joinSep [' ', '&', ' '] impls ++ rest)))
        (.name (kw "implements") :: (sepToks '&' impls ++ ts)) := Lx.ign (by decide) h2
    have e : writeImplements impls ++ rest = ' ' :: (kw "implements" ++ ' ' :: (joinSep [' ', '&', ' '] impls ++ rest)) := by
      simp [writeImplements, hne, s, kw, List.append_assoc]
    rw [e]
    simpa [implToks, hne] using h3

theorem Lx_unionMembers (ms : List Text) (hns : ∀ n ∈ ms, isName n = true) (rest : Text) (ts : List Tok)
    (hr : NameEnd rest) (h : Lx rest ts) :
    ∀ i, Lx (unionMembers i ms ++ rest)
      ((match i, ms with | _, [] => [] | 0, _ => [] | _ + 1, _ => [Tok.punct '|']) ++ sepToks '|' ms ++ ts) := by
  induction ms with
  | nil => intro i; simpa [unionMembers, sepToks] using h
  | cons m ms ih =>
    intro i
    have hm := hns m List.mem_cons_self
    have ih' := ih (fun x hx => hns x (List.mem_cons_of_mem _ hx))
    cases ms with
    | nil =>
      have h1 := Lx.name hm hr h
      cases i with
      | zero => simpa [unionMembers, sepToks] using (Lx.ign (c := ' ') (by decide) h1)
      | succ i =>
        have h2 : Lx (' ' :: '|' :: ' ' :: (m ++ rest)) (.punct '|' :: .name m :: ts) :=
          Lx.ign (by decide) (Lx.punct (by decide) (Lx.ign (by decide) h1))
        simpa [unionMembers, sepToks, s] using h2
    | cons m2 ms2 =>
      cases i with
      | zero =>
        have h0 := ih' 1
        simp only [List.cons_append, List.nil_append] at h0
        have hne : NameEnd (unionMembers 1 (m2 :: ms2) ++ rest) := by
          simp only [unionMembers, s]; exact nameEnd_of_ignored ' ' _ (by decide)
        have h1 := Lx.name hm hne h0
        simpa [unionMembers, sepToks, List.append_assoc] using (Lx.ign (c := ' ') (by decide) h1)
      | succ i =>
        have h0 := ih' (i + 2)
        simp only [List.cons_append, List.nil_append] at h0
        have hne : NameEnd (unionMembers (i + 2) (m2 :: ms2) ++ rest) := by
          simp only [unionMembers, s]; exact nameEnd_of_ignored ' ' _ (by decide)
        have h1 := Lx.name hm hne h0
        have h2 : Lx (' ' :: '|' :: ' ' :: (m ++ (unionMembers (i + 2) (m2 :: ms2) ++ rest)))
            (.punct '|' :: .name m :: .punct '|' :: (sepToks '|' (m2 :: ms2) ++ ts)) :=
          Lx.ign (by decide) (Lx.punct (by decide) (Lx.ign (by decide) h1))
        simpa [unionMembers, sepToks, s, List.append_assoc] using h2

end AGV.Lemmas.SdlSkeleton
