/-
  C17 — type definitions, document level: the exported text of a list of well-formed type
  definitions lexes to the token sequence `defToks`, which the reference parser reads as the
  definitions `describe` requires.
-/
import AGV.Lemmas.SdlSkeletonLex
namespace AGV.Lemmas.SdlSkeleton
open AGV.Core AGV.Core.PAst AGV.Core.Sdl AGV.Model.Sdl AGV.Spec.Literal AGV.Spec.Lex AGV.Spec.Parse AGV.Spec.SdlParse AGV.Lemmas.SdlLex AGV.Lemmas.SdlValue AGV.Lemmas.SdlBlock

-- ------------------------------------------------------------------ lexing a type definition

theorem Lx_enumValues (o : Opts) (vs : List (Text × Attrs)) (hvs : ∀ v ∈ vs, SkelEnumVal v)
    (rest : Text) (ts : List Tok) (h : Lx rest ts) :
    Lx ((vs.map (exportEnumValue Defects.none o)).flatten ++ rest) (enumToks o vs ++ ts) := by
  induction vs with
  | nil => simpa [enumToks] using h
  | cons v vs ih =>
    have hv := hvs v List.mem_cons_self
    have h1 := ih (fun x hx => hvs x (List.mem_cons_of_mem _ hx))
    have hnl := Lx.ign (c := '\n') (by decide) h1
    have hap := Lx_itemApps o v.2 hv.attrs _ _ (valEnd_ign '\n' _ (by decide)) hnl
    have hve := itemApps_valEnd o v.2 ('\n' :: ((vs.map (exportEnumValue Defects.none o)).flatten ++ rest)) (valEnd_ign '\n' _ (by decide))
    have h2 := Lx_optDesc o 1 v.2.desc _ _ (Lx.ws (tab_ignored o) (Lx.name (n := v.1) hv.name hve.nameEnd hap))
    have e : exportEnumValue Defects.none o v = optDescription Defects.none o 1 v.2.desc ++ (tab o ++ (v.1 ++
        (writeDeprecated Defects.none v.2.dep ++ (fedAttrs Defects.none o v.2 ++ (dirApps v.2.dirs ++ ['\n']))))) := by
      simp [exportEnumValue]
    simpa [enumToks, enumValToks, e, List.append_assoc] using h2

theorem Lx_inputFields (o : Opts) (fs : List InputVal) (hfs : ∀ f ∈ fs, SkelIv f)
    (rest : Text) (ts : List Tok) (h : Lx rest ts) :
    Lx ((fs.map (exportInputField Defects.none o)).flatten ++ rest) (ivsToks o fs ++ ts) := by
  induction fs with
  | nil => simpa [ivsToks] using h
  | cons f fs ih =>
    have hf := hfs f List.mem_cons_self
    have h1 := ih (fun x hx => hfs x (List.mem_cons_of_mem _ hx))
    have h2 : Lx ('\n' :: ((fs.map (exportInputField Defects.none o)).flatten ++ rest)) (ivsToks o fs ++ ts) :=
      Lx.ign (by decide) h1
    have h3 := Lx_optDesc o 1 f.a.desc _ _ (Lx.ws (tab_ignored o) (Lx_inputValue o f hf _ _ (valEnd_ign '\n' _ (by decide)) h2))
    have e : exportInputField Defects.none o f = optDescription Defects.none o 1 f.a.desc ++ (tab o ++ (writeInputValue Defects.none f ++
        (fedAttrs Defects.none o f.a ++ (dirApps f.a.dirs ++ ['\n'])))) := by
      simp [exportInputField]
    simpa [ivsToks, ivToks, e, List.append_assoc] using h3

/-- ` {\n` … `}\n\n` around a body -/
theorem Lx_braces (body rest : Text) (bt ts : List Tok) (hb : ∀ r t, Lx r t → Lx (body ++ r) (bt ++ t)) (h : Lx rest ts) :
    Lx (s " {\n" ++ body ++ s "}\n\n" ++ rest) (.punct '{' :: bt ++ .punct '}' :: ts) := by
  have h1 : Lx ('}' :: '\n' :: '\n' :: rest) (.punct '}' :: ts) :=
    Lx.punct (by decide) (Lx.ign (by decide) (Lx.ign (by decide) h))
  have h2 := hb _ _ h1
  have h3 : Lx (' ' :: '{' :: '\n' :: (body ++ '}' :: '\n' :: '\n' :: rest)) (.punct '{' :: (bt ++ .punct '}' :: ts)) :=
    Lx.ign (by decide) (Lx.punct (by decide) (Lx.ign (by decide) h2))
  simpa [s, List.append_assoc] using h3


/-- keyword, blank, type name -/
theorem Lx_head (k : String) (hk : isName (kw k) = true) (n : Text) (hn : isName n = true) (r : Text) (ts : List Tok)
    (hr : NameEnd r) (h : Lx r ts) : Lx (kw k ++ ' ' :: (n ++ r)) (.name (kw k) :: .name n :: ts) :=
  Lx.nameI hk (by decide) (Lx.name hn hr h)

/-- ` @specifiedBy(url: "…")` -/
theorem Lx_specifiedBy (u rest : Text) (ts : List Tok) (h : Lx rest ts) :
    Lx (s " @specifiedBy(url: \"" ++ tagText Defects.none u ++ s "\")" ++ rest)
      (dirsToks [⟨kwT "specifiedBy", [(kwT "url", .str u)]⟩] ++ ts) := by
  have h1 : Lx ('"' :: (escapeString false u ++ '"' :: ')' :: rest)) (.str u :: .punct ')' :: ts) :=
    Lx.estr (by simp) (Lx.punct (by decide) h)
  have h2 := Lx.name (n := kwT "url") (by decide) (valEnd_punct ':' _ (by decide)).nameEnd
    (Lx.punct (c := ':') (by decide) (Lx.ign (c := ' ') (by decide) h1))
  have h3 := Lx.ign (c := ' ') (by decide) (Lx.punct (c := '@') (by decide)
    (Lx.name (n := kwT "specifiedBy") (by decide) (valEnd_punct '(' _ (by decide)).nameEnd (Lx.punct (c := '(') (by decide) h2)))
  have hD : tagText Defects.none u = escapeString false u := by simp [tagText, Defects.none]
  simpa [hD, dirsToks, dirToks, sfToks, svToks, s, kwT, List.append_assoc] using h3

theorem braces_nameEnd (body rest : Text) : NameEnd (s " {\n" ++ body ++ s "}\n\n" ++ rest) := by
  simp only [s]; exact nameEnd_of_ignored ' ' _ (by decide)

theorem braces_valEnd (body rest : Text) : ValEnd (s " {\n" ++ body ++ s "}\n\n" ++ rest) := by
  simp only [s]; exact valEnd_ign ' ' _ (by decide)

/-- federation attributes, then custom directive applications (scalar, interface, union, enum,
    input object) -/
theorem Lx_fedDirs (o : Opts) (a : Attrs) (ha : TypeAttrs a) (rest : Text) (ts : List Tok) (hr : ValEnd rest) (h : Lx rest ts) :
    Lx (fedAttrs Defects.none o a ++ (dirApps a.dirs ++ rest)) (dirsToks (fedApps o a ++ a.dirs) ++ ts) := by
  have h1 := Lx_dirApps a.dirs ha.dirs rest ts hr.nameEnd h
  have h2 := Lx_fedAttrs o a _ _ (dirApps_valEnd a.dirs rest hr) h1
  simpa [dirsToks_append, List.append_assoc] using h2

theorem fedDirs_valEnd (o : Opts) (a : Attrs) (rest : Text) (hr : ValEnd rest) :
    ValEnd (fedAttrs Defects.none o a ++ (dirApps a.dirs ++ rest)) :=
  fedAttrs_valEnd o a _ (dirApps_valEnd a.dirs rest hr)

/-- custom directive applications, then federation attributes (object type) -/
theorem Lx_dirsFed (o : Opts) (a : Attrs) (ha : TypeAttrs a) (rest : Text) (ts : List Tok) (hr : ValEnd rest) (h : Lx rest ts) :
    Lx (dirApps a.dirs ++ (fedAttrs Defects.none o a ++ rest)) (dirsToks (a.dirs ++ fedApps o a) ++ ts) := by
  have h1 := Lx_fedAttrs o a rest ts hr h
  have h2 := Lx_dirApps a.dirs ha.dirs _ _ (fedAttrs_valEnd o a rest hr).nameEnd h1
  simpa [dirsToks_append, List.append_assoc] using h2

theorem dirsFed_valEnd (o : Opts) (a : Attrs) (rest : Text) (hr : ValEnd rest) :
    ValEnd (dirApps a.dirs ++ (fedAttrs Defects.none o a ++ rest)) :=
  dirApps_valEnd a.dirs _ (fedAttrs_valEnd o a rest hr)

/-- description, or `extend` for a type extension -/
theorem Lx_prefix (o : Opts) (e : Bool) (dsc : Option Text) (body : Text) (toks : List Tok)
    (hb : ∃ c r, body = c :: r ∧ nameStart c = true) (h : Lx body toks) :
    Lx ((if e then [] else optDescription Defects.none o 0 dsc) ++ ((if e then s "extend " else []) ++ body))
      (if e then .name (kw "extend") :: toks else descToks dsc ++ toks) := by
  cases e
  · simpa using Lx_optDesc o 0 dsc _ _ h
  · have := Lx.nameI (n := kw "extend") (c := ' ') (by decide) (by decide) h
    simpa [s, kw] using this

/-- (no longer a restriction: the repaired exporter writes every field it is handed) -/
def FedFields (_o : Opts) : TypeDef → Prop := fun _ => True

theorem fieldShown (o : Opts) (f : FieldDef) (h1 : startsWith2Underscores f.name = false) : FieldShown o f := by
  unfold FieldShown; rw [h1]; rfl

theorem Lx_typeDef (o : Opts) (t : TypeDef) (hs : SkelType t) (hff : FedFields o t) (rest : Text) (ts : List Tok)
    (h : Lx rest ts) : Lx (exportType Defects.none o t ++ rest) (defToks o t ++ ts) := by
  cases t with
  | scalar n a url =>
    obtain ⟨hn, ha⟩ := hs
    by_cases hsys : isSystemScalar o (.scalar n a url) = true
    · have hsys2 := hsys
      simp only [isSystemScalar] at hsys2
      have hc : n ∈ systemScalars := by simpa using hsys2
      simpa [exportType, Defects.none, defToks, hsys, hc] using h
    · have hsys' : isSystemScalar o (.scalar n a url) = false := by simpa using hsys
      have hsys3 := hsys'
      simp only [isSystemScalar] at hsys3
      have hsys2 : ¬ (n ∈ systemScalars) := by simpa using hsys3
      have h1 : Lx ('\n' :: '\n' :: rest) ts := Lx.ign (by decide) (Lx.ign (by decide) h)
      have hve : ValEnd ('\n' :: '\n' :: rest) := valEnd_ign '\n' _ (by decide)
      have hd := Lx_fedDirs o a ha _ _ hve h1
      have hdn := (fedDirs_valEnd o a _ hve).nameEnd
      have key : ∀ (sp : Text) (sa : List DirApp), NameEnd (sp ++ (fedAttrs Defects.none o a ++ (dirApps a.dirs ++ '\n' :: '\n' :: rest))) →
          Lx (sp ++ (fedAttrs Defects.none o a ++ (dirApps a.dirs ++ '\n' :: '\n' :: rest))) (dirsToks sa ++ (dirsToks (fedApps o a ++ a.dirs) ++ ts)) →
          Lx (optDescription Defects.none o 0 a.desc ++ (kw "scalar" ++ ' ' :: (n ++ (sp ++ (fedAttrs Defects.none o a ++ (dirApps a.dirs ++ '\n' :: '\n' :: rest))))))
            (descToks a.desc ++ (.name (kw "scalar") :: .name n :: (dirsToks (sa ++ (fedApps o a ++ a.dirs)) ++ ts))) := by
        intro sp sa hne hsp
        have h2 := Lx_head "scalar" (by decide) n hn _ _ hne hsp
        simpa [dirsToks_append, List.append_assoc] using Lx_optDesc o 0 a.desc _ _ h2
      cases hsb : o.specifiedBy with
      | false =>
        have := key [] [] (by simpa using hdn) (by simpa [dirsToks] using hd)
        simpa [exportType, Defects.none, hsys2, hsb, defToks, hsys', isExt, tdAttrs, defCore, typeApps, specApps,
          s, kw, List.append_assoc] using this
      | true =>
        cases url with
        | none =>
          have := key [] [] (by simpa using hdn) (by simpa [dirsToks] using hd)
          simpa [exportType, Defects.none, hsys2, hsb, defToks, hsys', isExt, tdAttrs, defCore, typeApps, specApps,
            s, kw, List.append_assoc] using this
        | some u =>
          have := key (s " @specifiedBy(url: \"" ++ tagText Defects.none u ++ s "\")") [⟨kwT "specifiedBy", [(kwT "url", .str u)]⟩]
            (by simp only [s]; exact nameEnd_of_ignored ' ' _ (by decide))
            (by simpa [List.append_assoc] using Lx_specifiedBy u _ _ hd)
          simpa [exportType, Defects.none, hsys2, hsb, defToks, hsys', isExt, tdAttrs, defCore, typeApps, specApps,
            s, kw, List.append_assoc] using this
  | object n a ext impls fs =>
    obtain ⟨hn, ha, himpl, _, hfs⟩ := hs
    have hfs' : ∀ f ∈ fs, SkelField f ∧ FieldShown o f := fun f hf => ⟨(hfs f hf).1, fieldShown o f (hfs f hf).2⟩
    have hb := Lx_braces (exportFields Defects.none o fs) rest (fieldsToks o (sorted o.sortedFields (·.name) fs)) ts
      (fun r t hrt => Lx_fields o fs hfs' r t hrt) h
    have hve := braces_valEnd (exportFields Defects.none o fs) rest
    have hd := Lx_dirsFed o a ha _ _ hve hb
    have hdn := (dirsFed_valEnd o a _ hve).nameEnd
    have hi := Lx_implements impls himpl _ _ hdn hd
    have hne2 : NameEnd (writeImplements impls ++ (dirApps a.dirs ++ (fedAttrs Defects.none o a ++ (s " {\n" ++ exportFields Defects.none o fs ++ s "}\n\n" ++ rest)))) := by
      unfold writeImplements; split
      · simpa using hdn
      · simp only [s]; exact nameEnd_of_ignored ' ' _ (by decide)
    have h2 := Lx_head "type" (by decide) n hn _ _ hne2 hi
    have hD : Defects.none.extendKeepsDescription = false := rfl
    cases hfe : (o.federation && ext) with
    | false =>
      have h3 := Lx_optDesc o 0 a.desc _ _ h2
      have e : exportType Defects.none o (.object n a ext impls fs) ++ rest =
          optDescription Defects.none o 0 a.desc ++
            (kw "type" ++ ' ' :: (n ++ (writeImplements impls ++ (dirApps a.dirs ++ (fedAttrs Defects.none o a ++
            (s " {\n" ++ exportFields Defects.none o fs ++ s "}\n\n" ++ rest)))))) := by
        simp only [exportType, hD, hfe, Bool.not_false, Bool.and_true, Bool.false_eq_true, if_false]
        simp [s, kw, List.append_assoc]
      rw [e]
      simpa [defToks, isSystemScalar, isExt, hfe, tdAttrs, defCore, typeApps, List.append_assoc] using h3
    | true =>
      have h3 := Lx.nameI (n := kw "extend") (c := ' ') (by decide) (by decide) h2
      have e : exportType Defects.none o (.object n a ext impls fs) ++ rest =
          kw "extend" ++ ' ' ::
            (kw "type" ++ ' ' :: (n ++ (writeImplements impls ++ (dirApps a.dirs ++ (fedAttrs Defects.none o a ++
            (s " {\n" ++ exportFields Defects.none o fs ++ s "}\n\n" ++ rest)))))) := by
        simp only [exportType, hD, hfe, Bool.not_false, Bool.and_true, if_true]
        simp [s, kw, List.append_assoc]
      rw [e]
      simpa [defToks, isSystemScalar, isExt, hfe, tdAttrs, defCore, typeApps, List.append_assoc] using h3
  | interface n a ext impls fs =>
    obtain ⟨hn, ha, himpl, _, hfs⟩ := hs
    have hfs' : ∀ f ∈ fs, SkelField f ∧ FieldShown o f := fun f hf => ⟨(hfs f hf).1, fieldShown o f (hfs f hf).2⟩
    have hb := Lx_braces (exportFields Defects.none o fs) rest (fieldsToks o (sorted o.sortedFields (·.name) fs)) ts
      (fun r t hrt => Lx_fields o fs hfs' r t hrt) h
    have hve := braces_valEnd (exportFields Defects.none o fs) rest
    have hd := Lx_fedDirs o a ha _ _ hve hb
    have hdn := (fedDirs_valEnd o a _ hve).nameEnd
    have hi := Lx_implements impls himpl _ _ hdn hd
    have hne2 : NameEnd (writeImplements impls ++ (fedAttrs Defects.none o a ++ (dirApps a.dirs ++ (s " {\n" ++ exportFields Defects.none o fs ++ s "}\n\n" ++ rest)))) := by
      unfold writeImplements; split
      · simpa using hdn
      · simp only [s]; exact nameEnd_of_ignored ' ' _ (by decide)
    have h2 := Lx_head "interface" (by decide) n hn _ _ hne2 hi
    have hD : Defects.none.extendKeepsDescription = false := rfl
    have hD2 : Defects.none.interfaceDirectivesFirst = false := rfl
    cases hfe : (o.federation && ext) with
    | false =>
      have h3 := Lx_optDesc o 0 a.desc _ _ h2
      have e : exportType Defects.none o (.interface n a ext impls fs) ++ rest =
          optDescription Defects.none o 0 a.desc ++
            (kw "interface" ++ ' ' :: (n ++ (writeImplements impls ++ (fedAttrs Defects.none o a ++ (dirApps a.dirs ++
            (s " {\n" ++ exportFields Defects.none o fs ++ s "}\n\n" ++ rest)))))) := by
        simp only [exportType, hD, hD2, hfe, Bool.not_false, Bool.and_true, Bool.false_eq_true, if_false]
        simp [s, kw, List.append_assoc]
      rw [e]
      simpa [defToks, isSystemScalar, isExt, hfe, tdAttrs, defCore, typeApps, List.append_assoc] using h3
    | true =>
      have h3 := Lx.nameI (n := kw "extend") (c := ' ') (by decide) (by decide) h2
      have e : exportType Defects.none o (.interface n a ext impls fs) ++ rest =
          kw "extend" ++ ' ' ::
            (kw "interface" ++ ' ' :: (n ++ (writeImplements impls ++ (fedAttrs Defects.none o a ++ (dirApps a.dirs ++
            (s " {\n" ++ exportFields Defects.none o fs ++ s "}\n\n" ++ rest)))))) := by
        simp only [exportType, hD, hD2, hfe, Bool.not_false, Bool.and_true, Bool.false_eq_true, if_false, if_true]
        simp [s, kw, List.append_assoc]
      rw [e]
      simpa [defToks, isSystemScalar, isExt, hfe, tdAttrs, defCore, typeApps, List.append_assoc] using h3
  | union n a ms =>
    obtain ⟨hn, ha, hne, hms⟩ := hs
    have h1 : Lx ('\n' :: '\n' :: rest) ts := Lx.ign (by decide) (Lx.ign (by decide) h)
    have hu := Lx_unionMembers ms hms _ _ (nameEnd_of_ignored '\n' _ (by decide)) h1 0
    have hu' : Lx (unionMembers 0 ms ++ '\n' :: '\n' :: rest) (sepToks '|' ms ++ ts) := by
      cases ms with
      | nil => exact absurd rfl hne
      | cons m ms => simpa using hu
    have h3 : Lx (' ' :: '=' :: (unionMembers 0 ms ++ '\n' :: '\n' :: rest)) (.punct '=' :: (sepToks '|' ms ++ ts)) :=
      Lx.ign (by decide) (Lx.punct (by decide) hu')
    have hve : ValEnd (' ' :: '=' :: (unionMembers 0 ms ++ '\n' :: '\n' :: rest)) := valEnd_ign ' ' _ (by decide)
    have hd := Lx_fedDirs o a ha _ _ hve h3
    have h4 := Lx_head "union" (by decide) n hn _ _ (fedDirs_valEnd o a _ hve).nameEnd hd
    have e : exportType Defects.none o (.union n a ms) ++ rest =
        optDescription Defects.none o 0 a.desc ++ (kw "union" ++ ' ' :: (n ++ (fedAttrs Defects.none o a ++ (dirApps a.dirs ++ ' ' :: '=' :: (unionMembers 0 ms ++ '\n' :: '\n' :: rest))))) := by
      simp only [exportType]
      simp [s, kw, List.append_assoc]
    rw [e]
    simpa [defToks, isSystemScalar, isExt, tdAttrs, defCore, typeApps, List.append_assoc] using Lx_optDesc o 0 a.desc _ _ h4
  | «enum» n a vs =>
    obtain ⟨hn, ha, _, hvs⟩ := hs
    have hb := Lx_braces ((sorted o.sortedEnum (·.1) vs).map (exportEnumValue Defects.none o)).flatten rest
      (enumToks o (sorted o.sortedEnum (·.1) vs)) ts
      (fun r t hrt => Lx_enumValues o _ (fun v hv => hvs v ((sorted_mem _ _ _ _).mp hv)) r t hrt) h
    have hve := braces_valEnd ((sorted o.sortedEnum (·.1) vs).map (exportEnumValue Defects.none o)).flatten rest
    have hd := Lx_fedDirs o a ha _ _ hve hb
    have h2 := Lx_head "enum" (by decide) n hn _ _ (fedDirs_valEnd o a _ hve).nameEnd hd
    have e : exportType Defects.none o (.enum n a vs) ++ rest =
        optDescription Defects.none o 0 a.desc ++ (kw "enum" ++ ' ' :: (n ++ (fedAttrs Defects.none o a ++ (dirApps a.dirs ++ (s " {\n" ++ ((sorted o.sortedEnum (·.1) vs).map (exportEnumValue Defects.none o)).flatten ++
          s "}\n\n" ++ rest))))) := by
      simp only [exportType, sortByName_sorted]
      simp [s, kw, List.append_assoc]
    rw [e]
    simpa [defToks, isSystemScalar, isExt, tdAttrs, defCore, typeApps, List.append_assoc] using Lx_optDesc o 0 a.desc _ _ h2
  | input n a oneof fs =>
    obtain ⟨hn, ha, _, hfs⟩ := hs
    have hb := Lx_braces ((sorted o.sortedFields (·.name) fs).map (exportInputField Defects.none o)).flatten rest
      (ivsToks o (sorted o.sortedFields (·.name) fs)) ts
      (fun r t hrt => Lx_inputFields o _ (fun v hv => hfs v ((sorted_mem _ _ _ _).mp hv)) r t hrt) h
    have hve := braces_valEnd ((sorted o.sortedFields (·.name) fs).map (exportInputField Defects.none o)).flatten rest
    have hd := Lx_fedDirs o a ha _ _ hve hb
    have hdn := (fedDirs_valEnd o a _ hve).nameEnd
    have hone : Lx ((if oneof then s " @oneOf" else []) ++ (fedAttrs Defects.none o a ++ (dirApps a.dirs ++
          (s " {\n" ++ ((sorted o.sortedFields (·.name) fs).map (exportInputField Defects.none o)).flatten ++ s "}\n\n" ++ rest))))
        (dirsToks ((if oneof then [⟨kwT "oneOf", []⟩] else []) ++ (fedApps o a ++ a.dirs)) ++
          .punct '{' :: (ivsToks o (sorted o.sortedFields (·.name) fs) ++ .punct '}' :: ts)) ∧
        NameEnd ((if oneof then s " @oneOf" else []) ++ (fedAttrs Defects.none o a ++ (dirApps a.dirs ++
          (s " {\n" ++ ((sorted o.sortedFields (·.name) fs).map (exportInputField Defects.none o)).flatten ++ s "}\n\n" ++ rest)))) := by
      cases oneof
      · exact ⟨by simpa [List.append_assoc] using hd, by simpa using hdn⟩
      · have := Lx.ign (c := ' ') (by decide) (Lx.punct (c := '@') (by decide) (Lx.name (n := kwT "oneOf") (by decide) hdn hd))
        refine ⟨by simpa [dirsToks_append, dirsToks, dirToks, s, kwT, List.append_assoc] using this, ?_⟩
        simp only [s, ↓reduceIte]; exact nameEnd_of_ignored ' ' _ (by decide)
    have h2 := Lx_head "input" (by decide) n hn _ _ hone.2 hone.1
    have e : exportType Defects.none o (.input n a oneof fs) ++ rest =
        optDescription Defects.none o 0 a.desc ++ (kw "input" ++ ' ' :: (n ++ ((if oneof then s " @oneOf" else []) ++ (fedAttrs Defects.none o a ++ (dirApps a.dirs ++
          (s " {\n" ++ ((sorted o.sortedFields (·.name) fs).map (exportInputField Defects.none o)).flatten ++
          s "}\n\n" ++ rest)))))) := by
      simp only [exportType, sortByName_sorted]
      simp [s, kw, List.append_assoc]
    rw [e]
    simpa [defToks, isSystemScalar, isExt, tdAttrs, defCore, typeApps, List.append_assoc] using Lx_optDesc o 0 a.desc _ _ h2


-- ------------------------------------------------------------------ a list of type definitions

theorem Lx_typeDefs_then (o : Opts) (L : List TypeDef) (hL : ∀ t ∈ L, SkelType t ∧ FedFields o t)
    (rest : Text) (ts : List Tok) (h : Lx rest ts) :
    Lx ((L.map (exportType Defects.none o)).flatten ++ rest) (L.flatMap (defToks o) ++ ts) := by
  induction L with
  | nil => simpa using h
  | cons t L ih =>
    have := Lx_typeDef o t (hL t List.mem_cons_self).1 (hL t List.mem_cons_self).2 _ _ (ih (fun x hx => hL x (List.mem_cons_of_mem _ hx)))
    simpa [List.append_assoc] using this

/-- the exported text of a list of well-formed type definitions IS (lexes and parses to) the list
    of definitions it denotes (`xType`: those `describe` requires, with the directive applications
    of fields and object types in the exporter's order) -/
theorem parse_typeDefs (o : Opts) (L : List TypeDef) (hL : ∀ t ∈ L, SkelType t ∧ FedFields o t)
    (hne : L.filterMap (xType o) ≠ []) :
    parseSchema ((L.map (exportType Defects.none o)).flatten) = some (L.filterMap (xType o)) := by
  have hl := (by simpa using Lx_typeDefs_then o L hL [] [] Lx.nil : Lx ((L.map (exportType Defects.none o)).flatten) (L.flatMap (defToks o))).tokens
  unfold parseSchema
  rw [hl]
  simp only [parseTokens]
  rcases pDefs_toks o L (fun t ht => (hL t ht).1) ((L.flatMap (defToks o)).length + 1)
    (by have := defs_le_toks o L (fun t ht => (hL t ht).1); omega) with ⟨e1, _⟩ | ⟨_, e2⟩
  · exact absurd e1 hne
  · exact e2

end AGV.Lemmas.SdlSkeleton
