/-
  C17 — type definitions, document level: the exported text of a list of well-formed type
  definitions lexes to the token sequence `defToks`, which the reference parser reads as the
  definitions `describe` requires.
-/
import AGV.Lemmas.SdlSkeletonLex
namespace AGV.Lemmas.SdlSkeleton
open AGV.Core AGV.Core.PAst AGV.Core.Sdl AGV.Model.Sdl AGV.Spec.Literal AGV.Spec.Lex AGV.Spec.Parse AGV.Spec.SdlParse AGV.Lemmas.SdlLex AGV.Lemmas.SdlValue AGV.Lemmas.SdlBlock

-- ------------------------------------------------------------------ lexing a type definition

theorem Lx_enumValues (o : Opts) (ho : o.federation = false) (vs : List (Text × Attrs)) (hvs : ∀ v ∈ vs, SkelEnumVal v)
    (rest : Text) (ts : List Tok) (h : Lx rest ts) :
    Lx ((vs.map (exportEnumValue Defects.none o)).flatten ++ rest) (enumToks vs ++ ts) := by
  induction vs with
  | nil => simpa [enumToks] using h
  | cons v vs ih =>
    have hv := hvs v List.mem_cons_self
    have h1 := ih (fun x hx => hvs x (List.mem_cons_of_mem _ hx))
    have hnl := Lx.ign (c := '\n') (by decide) h1
    have hap := Lx_itemApps v.2 hv.attrs _ _ (nameEnd_of_ignored '\n' _ (by decide)) hnl
    have hve := itemApps_valEnd v.2 ('\n' :: ((vs.map (exportEnumValue Defects.none o)).flatten ++ rest)) (valEnd_ign '\n' _ (by decide))
    have h2 := Lx_optDesc o 1 v.2.desc _ _ (Lx.ws (tab_ignored o) (Lx.name (n := v.1) hv.name hve.nameEnd hap))
    have e : exportEnumValue Defects.none o v = optDescription Defects.none o 1 v.2.desc ++ (tab o ++ (v.1 ++
        (writeDeprecated Defects.none v.2.dep ++ (dirApps v.2.dirs ++ ['\n'])))) := by
      simp [exportEnumValue, fedAttrs_off o ho]
    simpa [enumToks, enumValToks, e, List.append_assoc] using h2

theorem Lx_inputFields (o : Opts) (ho : o.federation = false) (fs : List InputVal) (hfs : ∀ f ∈ fs, SkelIv f)
    (rest : Text) (ts : List Tok) (h : Lx rest ts) :
    Lx ((fs.map (exportInputField Defects.none o)).flatten ++ rest) (ivsToks fs ++ ts) := by
  induction fs with
  | nil => simpa [ivsToks] using h
  | cons f fs ih =>
    have hf := hfs f List.mem_cons_self
    have h1 := ih (fun x hx => hfs x (List.mem_cons_of_mem _ hx))
    have h2 : Lx ('\n' :: ((fs.map (exportInputField Defects.none o)).flatten ++ rest)) (ivsToks fs ++ ts) :=
      Lx.ign (by decide) h1
    have h3 := Lx_optDesc o 1 f.a.desc _ _ (Lx.ws (tab_ignored o) (Lx_inputValue o ho f hf _ _ (valEnd_ign '\n' _ (by decide)) h2))
    have e : exportInputField Defects.none o f = optDescription Defects.none o 1 f.a.desc ++ (tab o ++ (writeInputValue Defects.none f ++
        (fedAttrs Defects.none o f.a ++ (dirApps f.a.dirs ++ ['\n'])))) := by
      simp [exportInputField]
    simpa [ivsToks, ivToks, e, List.append_assoc] using h3

/-- ` {\n` … `}\n\n` around a body -/
theorem Lx_braces (body rest : Text) (bt ts : List Tok) (hb : ∀ r t, Lx r t → Lx (body ++ r) (bt ++ t)) (h : Lx rest ts) :
    Lx (s " {\n" ++ body ++ s "}\n\n" ++ rest) (.punct '{' :: bt ++ .punct '}' :: ts) := by
  have h1 : Lx ('}' :: '\n' :: '\n' :: rest) (.punct '}' :: ts) :=
    Lx.punct (by decide) (Lx.ign (by decide) (Lx.ign (by decide) h))
  have h2 := hb _ _ h1
  have h3 : Lx (' ' :: '{' :: '\n' :: (body ++ '}' :: '\n' :: '\n' :: rest)) (.punct '{' :: (bt ++ .punct '}' :: ts)) :=
    Lx.ign (by decide) (Lx.punct (by decide) (Lx.ign (by decide) h2))
  simpa [s, List.append_assoc] using h3


/-- keyword, blank, type name -/
theorem Lx_head (k : String) (hk : isName (kw k) = true) (n : Text) (hn : isName n = true) (r : Text) (ts : List Tok)
    (hr : NameEnd r) (h : Lx r ts) : Lx (kw k ++ ' ' :: (n ++ r)) (.name (kw k) :: .name n :: ts) :=
  Lx.nameI hk (by decide) (Lx.name hn hr h)

/-- ` @specifiedBy(url: "…")` -/
theorem Lx_specifiedBy (u rest : Text) (ts : List Tok) (h : Lx rest ts) :
    Lx (s " @specifiedBy(url: \"" ++ tagText Defects.none u ++ s "\")" ++ rest)
      (dirsToks [⟨kwT "specifiedBy", [(kwT "url", .str u)]⟩] ++ ts) := by
  have h1 : Lx ('"' :: (escapeString false u ++ '"' :: ')' :: rest)) (.str u :: .punct ')' :: ts) :=
    Lx.estr (by simp) (Lx.punct (by decide) h)
  have h2 := Lx.name (n := kwT "url") (by decide) (valEnd_punct ':' _ (by decide)).nameEnd
    (Lx.punct (c := ':') (by decide) (Lx.ign (c := ' ') (by decide) h1))
  have h3 := Lx.ign (c := ' ') (by decide) (Lx.punct (c := '@') (by decide)
    (Lx.name (n := kwT "specifiedBy") (by decide) (valEnd_punct '(' _ (by decide)).nameEnd (Lx.punct (c := '(') (by decide) h2)))
  have hD : tagText Defects.none u = escapeString false u := by simp [tagText, Defects.none]
  simpa [hD, dirsToks, dirToks, sfToks, svToks, s, kwT, List.append_assoc] using h3

theorem braces_nameEnd (body rest : Text) : NameEnd (s " {\n" ++ body ++ s "}\n\n" ++ rest) := by
  simp only [s]; exact nameEnd_of_ignored ' ' _ (by decide)

theorem Lx_typeDef (o : Opts) (ho : o.federation = false) (t : TypeDef) (hs : SkelType t) (rest : Text) (ts : List Tok)
    (h : Lx rest ts) : Lx (exportType Defects.none o t ++ rest) (defToks o t ++ ts) := by
  cases t with
  | scalar n a url =>
    obtain ⟨hn, ha⟩ := hs
    by_cases hsys : systemScalars.contains n = true
    · have hm : n ∈ systemScalars := by simpa using hsys
      simpa [exportType, defToks, isSystemScalar, hm] using h
    · have hsys' : systemScalars.contains n = false := by simpa using hsys
      have hm : n ∉ systemScalars := by simpa using hsys'
      have h1 : Lx ('\n' :: '\n' :: rest) ts := Lx.ign (by decide) (Lx.ign (by decide) h)
      have hd := Lx_dirApps a.dirs ha.dirs _ _ (nameEnd_of_ignored '\n' _ (by decide)) h1
      have hdn := dirApps_nameEnd a.dirs ('\n' :: '\n' :: rest) (nameEnd_of_ignored '\n' _ (by decide))
      have key : ∀ (sp : Text) (sa : List DirApp), NameEnd (sp ++ (dirApps a.dirs ++ '\n' :: '\n' :: rest)) →
          Lx (sp ++ (dirApps a.dirs ++ '\n' :: '\n' :: rest)) (dirsToks sa ++ (dirsToks a.dirs ++ ts)) →
          Lx (optDescription Defects.none o 0 a.desc ++ (kw "scalar" ++ ' ' :: (n ++ (sp ++ (dirApps a.dirs ++ '\n' :: '\n' :: rest)))))
            (descToks a.desc ++ (.name (kw "scalar") :: .name n :: (dirsToks (sa ++ a.dirs) ++ ts))) := by
        intro sp sa hne hsp
        have h2 := Lx_head "scalar" (by decide) n hn _ _ hne hsp
        simpa [dirsToks_append, List.append_assoc] using Lx_optDesc o 0 a.desc _ _ h2
      cases hsb : o.specifiedBy with
      | false =>
        have := key [] [] (by simpa using hdn) (by simpa [dirsToks] using hd)
        simpa [exportType, hsys', ho, hsb, fedAttrs_off o ho, defToks, isSystemScalar, hm, tdAttrs, defCore, typeApps, specApps,
          s, kw, List.append_assoc] using this
      | true =>
        cases url with
        | none =>
          have := key [] [] (by simpa using hdn) (by simpa [dirsToks] using hd)
          simpa [exportType, hsys', ho, hsb, fedAttrs_off o ho, defToks, isSystemScalar, hm, tdAttrs, defCore, typeApps, specApps,
            s, kw, List.append_assoc] using this
        | some u =>
          have := key (s " @specifiedBy(url: \"" ++ tagText Defects.none u ++ s "\")") [⟨kwT "specifiedBy", [(kwT "url", .str u)]⟩]
            (by simp only [s]; exact nameEnd_of_ignored ' ' _ (by decide))
            (by simpa [List.append_assoc] using Lx_specifiedBy u _ _ hd)
          simpa [exportType, hsys', ho, hsb, fedAttrs_off o ho, defToks, isSystemScalar, hm, tdAttrs, defCore, typeApps, specApps,
            s, kw, List.append_assoc] using this
  | object n a ext impls fs =>
    obtain ⟨hn, ha, himpl, _, hfs⟩ := hs
    have hb := Lx_braces (exportFields Defects.none o fs) rest (fieldsToks o (sorted o.sortedFields (·.name) fs)) ts
      (fun r t hrt => Lx_fields o ho fs hfs r t hrt) h
    have hne := braces_nameEnd (exportFields Defects.none o fs) rest
    have hd := Lx_dirApps a.dirs ha.dirs _ _ hne hb
    have hi := Lx_implements impls himpl _ _ (dirApps_nameEnd a.dirs _ hne) hd
    have hne2 : NameEnd (writeImplements impls ++ (dirApps a.dirs ++ (s " {\n" ++ exportFields Defects.none o fs ++ s "}\n\n" ++ rest))) := by
      unfold writeImplements; split
      · simpa using dirApps_nameEnd a.dirs _ hne
      · simp only [s]; exact nameEnd_of_ignored ' ' _ (by decide)
    have h2 := Lx_head "type" (by decide) n hn _ _ hne2 hi
    have e : exportType Defects.none o (.object n a ext impls fs) ++ rest =
        optDescription Defects.none o 0 a.desc ++ (kw "type" ++ ' ' :: (n ++ (writeImplements impls ++ (dirApps a.dirs ++
          (s " {\n" ++ exportFields Defects.none o fs ++ s "}\n\n" ++ rest))))) := by
      simp only [exportType, ho, Bool.false_and, Bool.false_eq_true, if_false, fedAttrs_off o ho]
      simp [s, kw, List.append_assoc]
    rw [e]
    simpa [defToks, isSystemScalar, tdAttrs, defCore, typeApps, List.append_assoc] using Lx_optDesc o 0 a.desc _ _ h2
  | interface n a ext impls fs =>
    obtain ⟨hn, ha, himpl, _, hfs⟩ := hs
    have hb := Lx_braces (exportFields Defects.none o fs) rest (fieldsToks o (sorted o.sortedFields (·.name) fs)) ts
      (fun r t hrt => Lx_fields o ho fs hfs r t hrt) h
    have hne := braces_nameEnd (exportFields Defects.none o fs) rest
    have hd := Lx_dirApps a.dirs ha.dirs _ _ hne hb
    have hi := Lx_implements impls himpl _ _ (dirApps_nameEnd a.dirs _ hne) hd
    have hne2 : NameEnd (writeImplements impls ++ (dirApps a.dirs ++ (s " {\n" ++ exportFields Defects.none o fs ++ s "}\n\n" ++ rest))) := by
      unfold writeImplements; split
      · simpa using dirApps_nameEnd a.dirs _ hne
      · simp only [s]; exact nameEnd_of_ignored ' ' _ (by decide)
    have h2 := Lx_head "interface" (by decide) n hn _ _ hne2 hi
    have e : exportType Defects.none o (.interface n a ext impls fs) ++ rest =
        optDescription Defects.none o 0 a.desc ++ (kw "interface" ++ ' ' :: (n ++ (writeImplements impls ++ (dirApps a.dirs ++
          (s " {\n" ++ exportFields Defects.none o fs ++ s "}\n\n" ++ rest))))) := by
      have hD : Defects.none.interfaceDirectivesFirst = false := rfl
      simp only [exportType, ho, Bool.false_and, Bool.false_eq_true, if_false, fedAttrs_off o ho, hD]
      simp [s, kw, List.append_assoc]
    rw [e]
    simpa [defToks, isSystemScalar, tdAttrs, defCore, typeApps, List.append_assoc] using Lx_optDesc o 0 a.desc _ _ h2
  | union n a ms =>
    obtain ⟨hn, ha, hne, hms⟩ := hs
    have h1 : Lx ('\n' :: '\n' :: rest) ts := Lx.ign (by decide) (Lx.ign (by decide) h)
    have hu := Lx_unionMembers ms hms _ _ (nameEnd_of_ignored '\n' _ (by decide)) h1 0
    have hu' : Lx (unionMembers 0 ms ++ '\n' :: '\n' :: rest) (sepToks '|' ms ++ ts) := by
      cases ms with
      | nil => exact absurd rfl hne
      | cons m ms => simpa using hu
    have h3 : Lx (' ' :: '=' :: (unionMembers 0 ms ++ '\n' :: '\n' :: rest)) (.punct '=' :: (sepToks '|' ms ++ ts)) :=
      Lx.ign (by decide) (Lx.punct (by decide) hu')
    have hd := Lx_dirApps a.dirs ha.dirs _ _ (nameEnd_of_ignored ' ' _ (by decide)) h3
    have h4 := Lx_head "union" (by decide) n hn _ _ (dirApps_nameEnd a.dirs _ (nameEnd_of_ignored ' ' _ (by decide))) hd
    have e : exportType Defects.none o (.union n a ms) ++ rest =
        optDescription Defects.none o 0 a.desc ++ (kw "union" ++ ' ' :: (n ++ (dirApps a.dirs ++ ' ' :: '=' :: (unionMembers 0 ms ++ '\n' :: '\n' :: rest)))) := by
      simp only [exportType, fedAttrs_off o ho]
      simp [s, kw, List.append_assoc]
    rw [e]
    simpa [defToks, isSystemScalar, tdAttrs, defCore, typeApps, List.append_assoc] using Lx_optDesc o 0 a.desc _ _ h4
  | «enum» n a vs =>
    obtain ⟨hn, ha, _, hvs⟩ := hs
    have hb := Lx_braces ((sorted o.sortedEnum (·.1) vs).map (exportEnumValue Defects.none o)).flatten rest
      (enumToks (sorted o.sortedEnum (·.1) vs)) ts
      (fun r t hrt => Lx_enumValues o ho _ (fun v hv => hvs v ((sorted_mem _ _ _ _).mp hv)) r t hrt) h
    have hne := braces_nameEnd ((sorted o.sortedEnum (·.1) vs).map (exportEnumValue Defects.none o)).flatten rest
    have hd := Lx_dirApps a.dirs ha.dirs _ _ hne hb
    have h2 := Lx_head "enum" (by decide) n hn _ _ (dirApps_nameEnd a.dirs _ hne) hd
    have e : exportType Defects.none o (.enum n a vs) ++ rest =
        optDescription Defects.none o 0 a.desc ++ (kw "enum" ++ ' ' :: (n ++ (dirApps a.dirs ++ (s " {\n" ++ ((sorted o.sortedEnum (·.1) vs).map (exportEnumValue Defects.none o)).flatten ++
          s "}\n\n" ++ rest)))) := by
      simp only [exportType, fedAttrs_off o ho, sortByName_sorted]
      simp [s, kw, List.append_assoc]
    rw [e]
    simpa [defToks, isSystemScalar, tdAttrs, defCore, typeApps, List.append_assoc] using Lx_optDesc o 0 a.desc _ _ h2
  | input n a oneof fs =>
    obtain ⟨hn, ha, _, hfs⟩ := hs
    have hb := Lx_braces ((sorted o.sortedFields (·.name) fs).map (exportInputField Defects.none o)).flatten rest
      (ivsToks (sorted o.sortedFields (·.name) fs)) ts
      (fun r t hrt => Lx_inputFields o ho _ (fun v hv => hfs v ((sorted_mem _ _ _ _).mp hv)) r t hrt) h
    have hne := braces_nameEnd ((sorted o.sortedFields (·.name) fs).map (exportInputField Defects.none o)).flatten rest
    have hd := Lx_dirApps (typeApps o (.input n a oneof fs)) (typeApps_wf o (.input n a oneof fs) ha) _ _ hne hb
    have h2 := Lx_head "input" (by decide) n hn _ _ (dirApps_nameEnd _ _ hne) hd
    have e : exportType Defects.none o (.input n a oneof fs) ++ rest =
        optDescription Defects.none o 0 a.desc ++ (kw "input" ++ ' ' :: (n ++ (dirApps (typeApps o (.input n a oneof fs)) ++
          (s " {\n" ++ ((sorted o.sortedFields (·.name) fs).map (exportInputField Defects.none o)).flatten ++
          s "}\n\n" ++ rest)))) := by
      simp only [exportType, fedAttrs_off o ho, sortByName_sorted, typeApps]
      cases oneof <;> simp [s, kw, kwT, dirApps, dirAppSdl, List.append_assoc]
    rw [e]
    simpa [defToks, isSystemScalar, tdAttrs, defCore, List.append_assoc] using Lx_optDesc o 0 a.desc _ _ h2


-- ------------------------------------------------------------------ a list of type definitions

theorem Lx_typeDefs (o : Opts) (ho : o.federation = false) (L : List TypeDef) (hL : ∀ t ∈ L, SkelType t) :
    Lx ((L.map (exportType Defects.none o)).flatten) (L.flatMap (defToks o)) := by
  induction L with
  | nil => exact Lx.nil
  | cons t L ih =>
    have := Lx_typeDef o ho t (hL t List.mem_cons_self) _ _ (ih (fun x hx => hL x (List.mem_cons_of_mem _ hx)))
    simpa using this

/-- the exported text of a list of skeleton type definitions IS (lexes and parses to) the list of
    definitions `describe` requires -/
theorem parse_typeDefs (o : Opts) (ho : o.federation = false) (L : List TypeDef) (hL : ∀ t ∈ L, SkelType t)
    (hne : L.filterMap (dType o) ≠ []) :
    parseSchema ((L.map (exportType Defects.none o)).flatten) = some (L.filterMap (dType o)) := by
  have hl := (Lx_typeDefs o ho L hL).tokens
  unfold parseSchema
  rw [hl]
  simp only [parseTokens]
  rcases pDefs_toks o ho L hL ((L.flatMap (defToks o)).length + 1)
    (by have := defs_le_toks o ho L hL; omega) with ⟨e1, _⟩ | ⟨_, e2⟩
  · exact absurd e1 hne
  · exact e2

end AGV.Lemmas.SdlSkeleton
