/-
  Helper lemmas for C32 (cursor codecs, base64, pagination arguments).
-/
import AGV.Model.Cursor
import AGV.Spec.Cursor

namespace AGV.Lemmas.Cursor
open AGV.Digits AGV.Model.Cursor

-- ------------------------------------------------------------------ the checked digit loop

def horner (acc : Nat) (cs : List Char) : Nat := cs.foldl (fun a c => a * 10 + digitVal c) acc

theorem horner_ge (cs : List Char) (acc : Nat) : acc ≤ horner acc cs := by
  induction cs generalizing acc with
  | nil => simp [horner]
  | cons c r ih =>
    have := ih (acc * 10 + digitVal c)
    simp only [horner, List.foldl_cons] at this ⊢
    omega

theorem horner_zero (cs : List Char) : horner 0 cs = parseNat cs := rfl

/-- the loop succeeds exactly on all-digit strings whose value stays within the limit, and then
    returns that value -/
theorem accum_ok_iff (limit : Nat) (ov : IntErr) (cs : List Char) (acc v : Nat) (hacc : acc ≤ limit) :
    accum limit ov acc cs = .ok v ↔ (cs.all isDigit = true ∧ horner acc cs ≤ limit ∧ v = horner acc cs) := by
  induction cs generalizing acc with
  | nil =>
    simp only [accum, List.all_nil, horner, List.foldl_nil, true_and]
    constructor
    · intro h; injection h with h; subst h; exact ⟨hacc, rfl⟩
    · rintro ⟨_, rfl⟩; rfl
  | cons c r ih =>
    rw [accum]
    by_cases hd : isDigit c = false
    · simp [hd]
    · have hd' : isDigit c = true := by simpa using hd
      simp only [hd', Bool.true_eq_false, if_false]
      by_cases hov : acc * 10 + digitVal c > limit
      · simp only [hov, if_true]
        have := horner_ge r (acc * 10 + digitVal c)
        simp only [horner, List.foldl_cons] at this ⊢
        constructor
        · intro h; cases h
        · rintro ⟨_, h, _⟩; omega
      · simp only [hov, if_false]
        rw [ih (acc * 10 + digitVal c) (by omega)]
        simp [horner, hd']

theorem accum_error_kind (limit : Nat) (ov : IntErr) (cs : List Char) (acc : Nat) (e : IntErr)
    (h : accum limit ov acc cs = .error e) : e = .invalid ∨ e = ov := by
  induction cs generalizing acc with
  | nil => simp [accum] at h
  | cons c r ih =>
    rw [accum] at h
    split at h
    · left; injection h with h; exact h.symm
    · split at h
      · right; injection h with h; exact h.symm
      · exact ih _ h

-- ------------------------------------------------------------------ base64 alphabet

theorem val_sym : ∀ i, i < 64 → val (sym i) = some i := by decide

theorem sym_inj_aux : ∀ i, i < 64 → (sym i).toNat < 128 := by decide

theorem ofNat_toNat (c : Char) : Char.ofNat c.toNat = c := by
  simp [Char.ofNat_toNat]

/-- every symbol value comes from exactly one character -/
theorem sym_val (c : Char) (i : Nat) (h : val c = some i) : i < 64 ∧ sym i = c := by
  unfold val at h
  simp only at h
  split at h
  · injection h with h; subst h
    rename_i hc
    refine ⟨by omega, ?_⟩
    have : sym (c.toNat - 65) = Char.ofNat c.toNat := by
      unfold sym; rw [if_pos (by omega)]; congr 1; omega
    rw [this, ofNat_toNat]
  · split at h
    · injection h with h; subst h
      rename_i hc
      refine ⟨by omega, ?_⟩
      have : sym (c.toNat - 71) = Char.ofNat c.toNat := by
        unfold sym; rw [if_neg (by omega), if_pos (by omega)]; congr 1; omega
      rw [this, ofNat_toNat]
    · split at h
      · injection h with h; subst h
        rename_i hc
        refine ⟨by omega, ?_⟩
        have : sym (c.toNat + 4) = Char.ofNat c.toNat := by
          unfold sym; rw [if_neg (by omega), if_neg (by omega), if_pos (by omega)]; congr 1
        rw [this, ofNat_toNat]
      · split at h
        · injection h with h; subst h
          rename_i hc
          refine ⟨by omega, ?_⟩
          have : sym 62 = Char.ofNat c.toNat := by rw [hc]; decide
          rw [this, ofNat_toNat]
        · split at h
          · injection h with h; subst h
            rename_i hc
            refine ⟨by omega, ?_⟩
            have : sym 63 = Char.ofNat c.toNat := by rw [hc]; decide
            rw [this, ofNat_toNat]
          · cases h

-- ------------------------------------------------------------------ integer syntax

open AGV.Spec.Cursor (InRange splitSign readDigits)

theorem inRange_nonneg (t : IntTy) (p : Nat) : InRange t.signed t.bits (p : Int) ↔ p ≤ t.maxMag := by
  have hp : 0 < 2 ^ (t.bits - 1) := Nat.two_pow_pos _
  have hq : 0 < 2 ^ t.bits := Nat.two_pow_pos _
  have e1 : ((2 : Int) ^ (t.bits - 1)) = ((2 ^ (t.bits - 1) : Nat) : Int) := by simp [Int.natCast_pow]
  have e2 : ((2 : Int) ^ t.bits) = ((2 ^ t.bits : Nat) : Int) := by simp [Int.natCast_pow]
  unfold InRange IntTy.maxMag
  cases t.signed <;> simp only [Bool.false_eq_true, if_false, if_true] <;> (try rw [e1]) <;> (try rw [e2]) <;> omega

theorem inRange_neg (t : IntTy) (p : Nat) (h : t.signed = true) :
    InRange t.signed t.bits (-(p : Int)) ↔ p ≤ t.minMag := by
  have hp : 0 < 2 ^ (t.bits - 1) := Nat.two_pow_pos _
  have e1 : ((2 : Int) ^ (t.bits - 1)) = ((2 ^ (t.bits - 1) : Nat) : Int) := by simp [Int.natCast_pow]
  unfold InRange IntTy.minMag
  rw [h]; simp only [if_true]; rw [e1]; omega

theorem pos_path (limit : Nat) (ds : List Char) (n : Int) :
    (accum limit .posOverflow 0 ds).map Int.ofNat = .ok n ↔
      (ds.all isDigit = true ∧ parseNat ds ≤ limit ∧ n = (parseNat ds : Int)) := by
  cases h : accum limit .posOverflow 0 ds with
  | error e =>
    simp only [Except.map]
    constructor
    · intro h'; cases h'
    · rintro ⟨h1, h2, _⟩
      have := (accum_ok_iff limit .posOverflow ds 0 (parseNat ds) (Nat.zero_le _)).2 ⟨h1, h2, rfl⟩
      rw [h] at this; cases this
  | ok v =>
    have := (accum_ok_iff limit .posOverflow ds 0 v (Nat.zero_le _)).1 h
    rw [horner_zero] at this
    obtain ⟨h1, h2, h3⟩ := this
    simp only [Except.map]
    constructor
    · intro h'; injection h' with h'; subst h'; subst h3; exact ⟨h1, h2, rfl⟩
    · rintro ⟨_, _, rfl⟩; subst h3; rfl

theorem neg_path (limit : Nat) (ds : List Char) (n : Int) :
    (accum limit .negOverflow 0 ds).map (fun m => -(m : Int)) = .ok n ↔
      (ds.all isDigit = true ∧ parseNat ds ≤ limit ∧ n = -(parseNat ds : Int)) := by
  cases h : accum limit .negOverflow 0 ds with
  | error e =>
    simp only [Except.map]
    constructor
    · intro h'; cases h'
    · rintro ⟨h1, h2, _⟩
      have := (accum_ok_iff limit .negOverflow ds 0 (parseNat ds) (Nat.zero_le _)).2 ⟨h1, h2, rfl⟩
      rw [h] at this; cases this
  | ok v =>
    have := (accum_ok_iff limit .negOverflow ds 0 v (Nat.zero_le _)).1 h
    rw [horner_zero] at this
    obtain ⟨h1, h2, h3⟩ := this
    simp only [Except.map]
    constructor
    · intro h'; injection h' with h'; subst h'; subst h3; exact ⟨h1, h2, rfl⟩
    · rintro ⟨_, _, rfl⟩; subst h3; rfl

/-- the reference reading of an unsigned digit string -/
theorem spec_digits (signed : Bool) (bits : Nat) (neg : Bool) (ds : List Char) (n : Int) :
    AGV.Spec.Cursor.readDigits signed bits neg ds = some n ↔
    (ds ≠ [] ∧ ds.all isDigit = true ∧
      InRange signed bits (if neg then -(parseNat ds : Int) else (parseNat ds : Int)) ∧
      n = (if neg then -(parseNat ds : Int) else (parseNat ds : Int))) := by
  unfold AGV.Spec.Cursor.readDigits
  by_cases h1 : ds = []
  · simp [h1]
  · by_cases h2 : ds.all isDigit = true
    · simp only [h1, h2, false_or, Bool.true_eq_false, if_false, ne_eq, not_false_eq_true, true_and]
      by_cases h3 : InRange signed bits (if neg then -(parseNat ds : Int) else (parseNat ds : Int))
      · simp only [h3, if_true, true_and]
        constructor
        · intro h; injection h with h; exact h.symm
        · intro h; rw [h]
      · simp [h3]
    · have : ds.all isDigit = false := by simpa using h2
      simp [this]

-- ------------------------------------------------------------------ round trips

theorem isDigit_not_plus : ∀ c, isDigit c = true → c ≠ '+' := by
  intro c h e; subst e; revert h; decide

/-- the reference reading of the printed form of an in-range integer is that integer -/
theorem spec_decode_encode (signed : Bool) (bits : Nat) (n : Int) (h : InRange signed bits n) :
    AGV.Spec.Cursor.decodeInt signed bits (encodeInt n) = some n := by
  unfold AGV.Spec.Cursor.decodeInt encodeInt intDigits
  by_cases hn : n < 0
  · have hs : signed = true := by
      cases signed
      · unfold InRange at h; simp at h; omega
      · rfl
    subst hs
    simp only [hn, if_true, splitSign]
    rw [spec_digits]
    refine ⟨natDigits_ne_nil _, ?_, ?_, ?_⟩
    · rw [List.all_eq_true]; exact natDigits_all_digit _
    · simp only [if_true, parseNat_natDigits]
      have : -(n.natAbs : Int) = n := by omega
      rw [this]; exact h
    · simp only [if_true, parseNat_natDigits]; omega
  · simp only [hn, if_false]
    obtain ⟨c, r, e, hc, hd⟩ := natDigits_head_ne_minus n.toNat
    have hsplit : splitSign signed (natDigits n.toNat) = some (false, natDigits n.toNat) := by
      rw [e]
      unfold splitSign
      split
      · rename_i heq; injection heq with h1 _; exact absurd h1 (isDigit_not_plus c hd)
      · rename_i heq; injection heq with h1 _; exact absurd h1 hc
      · rfl
    rw [hsplit]
    simp only
    rw [spec_digits]
    refine ⟨natDigits_ne_nil _, ?_, ?_, ?_⟩
    · rw [List.all_eq_true]; exact natDigits_all_digit _
    · simp only [Bool.false_eq_true, if_false, parseNat_natDigits]
      have : (n.toNat : Int) = n := by omega
      rw [this]; exact h
    · simp only [Bool.false_eq_true, if_false, parseNat_natDigits]; omega

-- ------------------------------------------------------------------ base64

theorem b64_roundtrip (bs : List Nat) (h : ∀ b ∈ bs, b < 256) : b64decode (b64encode bs) = some bs := by
  fun_induction b64encode bs with
  | case1 => simp [b64decode]
  | case2 a =>
    have ha : a < 256 := h a (by simp)
    simp only [b64decode, val_sym (a / 4) (by omega), val_sym (a % 4 * 16) (by omega)]
    have : a % 4 * 16 % 16 = 0 := by omega
    simp only [this, if_true]
    congr 2; omega
  | case3 a b =>
    have ha : a < 256 := h a (by simp)
    have hb : b < 256 := h b (by simp)
    simp only [b64decode, val_sym (a / 4) (by omega), val_sym (a % 4 * 16 + b / 16) (by omega),
      val_sym (b % 16 * 4) (by omega)]
    have : b % 16 * 4 % 4 = 0 := by omega
    simp only [this, if_true]
    congr 2
    · omega
    · congr 1; omega
  | case4 a b c r ih =>
    have ha : a < 256 := h a (by simp)
    have hb : b < 256 := h b (by simp)
    have hc : c < 256 := h c (by simp)
    have ih' := ih (fun x hx => h x (by simp [hx]))
    simp only [b64decode, val_sym (a / 4) (by omega), val_sym (a % 4 * 16 + b / 16) (by omega),
      val_sym (b % 16 * 4 + c / 64) (by omega), val_sym (c % 64) (by omega), ih']
    congr 2
    · omega
    · congr 1
      · omega
      · congr 1; omega

/-- the decoder accepts only the canonical encoding: whatever it decodes re-encodes to the
    same string, and only bytes come out -/
theorem b64_canonical : ∀ (s : List Char) (bs : List Nat), b64decode s = some bs →
    b64encode bs = s ∧ ∀ b ∈ bs, b < 256
  | [], bs, h => by
    simp only [b64decode] at h; injection h with h; subst h; simp [b64encode]
  | [_], bs, h => by simp [b64decode] at h
  | [p, q], bs, h => by
    simp only [b64decode] at h
    cases hx : val p with
    | none => simp [hx] at h
    | some x =>
      cases hy : val q with
      | none => simp [hx, hy] at h
      | some y =>
        simp only [hx, hy] at h
        obtain ⟨hx1, hx2⟩ := sym_val p x hx
        obtain ⟨hy1, hy2⟩ := sym_val q y hy
        by_cases hm : y % 16 = 0
        · simp only [hm, if_true] at h
          injection h with h; subst h
          constructor
          · simp only [b64encode]
            rw [← hx2, ← hy2]
            have e1 : (x * 4 + y / 16) / 4 = x := by omega
            have e2 : (x * 4 + y / 16) % 4 * 16 = y := by omega
            rw [e1, e2]
          · intro b hb; simp at hb; omega
        · simp [hm] at h
  | [p, q, r], bs, h => by
    simp only [b64decode] at h
    cases hx : val p with
    | none => simp [hx] at h
    | some x =>
      cases hy : val q with
      | none => simp [hx, hy] at h
      | some y =>
        cases hz : val r with
        | none => simp [hx, hy, hz] at h
        | some z =>
          simp only [hx, hy, hz] at h
          obtain ⟨hx1, hx2⟩ := sym_val p x hx
          obtain ⟨hy1, hy2⟩ := sym_val q y hy
          obtain ⟨hz1, hz2⟩ := sym_val r z hz
          by_cases hm : z % 4 = 0
          · simp only [hm, if_true] at h
            injection h with h; subst h
            constructor
            · simp only [b64encode]
              rw [← hx2, ← hy2, ← hz2]
              have e1 : (x * 4 + y / 16) / 4 = x := by omega
              have e2 : (x * 4 + y / 16) % 4 * 16 + (y % 16 * 16 + z / 4) / 16 = y := by omega
              have e3 : (y % 16 * 16 + z / 4) % 16 * 4 = z := by omega
              rw [e1, e2, e3]
            · intro b hb; simp at hb; omega
          · simp [hm] at h
  | p :: q :: r :: s' :: rest, bs, h => by
    simp only [b64decode] at h
    cases hx : val p with
    | none => simp [hx] at h
    | some x =>
      cases hy : val q with
      | none => simp [hx, hy] at h
      | some y =>
        cases hz : val r with
        | none => simp [hx, hy, hz] at h
        | some z =>
          cases hw : val s' with
          | none => simp [hx, hy, hz, hw] at h
          | some w =>
            cases htl : b64decode rest with
            | none => simp [hx, hy, hz, hw, htl] at h
            | some tl =>
              simp only [hx, hy, hz, hw, htl] at h
              obtain ⟨hx1, hx2⟩ := sym_val p x hx
              obtain ⟨hy1, hy2⟩ := sym_val q y hy
              obtain ⟨hz1, hz2⟩ := sym_val r z hz
              obtain ⟨hw1, hw2⟩ := sym_val s' w hw
              injection h with h; subst h
              obtain ⟨ih1, ih2⟩ := b64_canonical rest tl htl
              constructor
              · simp only [b64encode]
                rw [← hx2, ← hy2, ← hz2, ← hw2, ih1]
                have e1 : (x * 4 + y / 16) / 4 = x := by omega
                have e2 : (x * 4 + y / 16) % 4 * 16 + (y % 16 * 16 + z / 4) / 16 = y := by omega
                have e3 : (y % 16 * 16 + z / 4) % 16 * 4 + (z % 4 * 64 + w) / 64 = z := by omega
                have e4 : (z % 4 * 64 + w) % 64 = w := by omega
                rw [e1, e2, e3, e4]
              · intro b hb
                simp at hb
                rcases hb with hb | hb | hb | hb
                · omega
                · omega
                · omega
                · exact ih2 b hb

instance {ε α : Type} [DecidableEq ε] [DecidableEq α] : DecidableEq (Except ε α) := fun a b =>
  match a, b with
  | .ok x, .ok y => if h : x = y then isTrue (by rw [h]) else isFalse (by intro e; cases e; exact h rfl)
  | .error x, .error y => if h : x = y then isTrue (by rw [h]) else isFalse (by intro e; cases e; exact h rfl)
  | .ok _, .error _ => isFalse (by intro e; cases e)
  | .error _, .ok _ => isFalse (by intro e; cases e)

def okOf {ε α : Type} : Except ε α → Option α
  | .ok a => some a
  | .error _ => none


end AGV.Lemmas.Cursor
