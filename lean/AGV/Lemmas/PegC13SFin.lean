/-
  Property C13, specification side: the finiteness parameter of the specification.  Reading with
  the finiteness check (`finiteFloats := true`) is reading without it (`P'`) and then rejecting
  results that contain an infinite float — for every parser of `Spec/Parse.lean`.
-/
import AGV.Lemmas.PegC13SFinS
namespace AGV.Lemmas.PegX
open AGV.Spec.Lex AGV.Spec.Parse AGV.Core.PAst AGV.Lemmas.SpecVal

def defFrag (P : Params) (n t : Name) (r1 : List Tok) : Option (PDef × List Tok) :=
  match pDirs P false r1 with
  | some (ds, r2) => (pSelectionSet P r2).map (fun x => (.frag n ⟨t, ds, x.1⟩, x.2))
  | none => none

def defVars (P : Params) (r1 : List Tok) : Option (List PVarDef × List Tok) :=
  match r1 with
  | .punct '(' :: r2 => pVarDefs P (r2.length + 1) r2
  | _ => some ([], r1)

def defOp (P : Params) (name : Option Name) (ty : OpType) (r1 : List Tok) : Option (PDef × List Tok) :=
  match defVars P r1 with
  | some (vs, r3) =>
    (match pDirs P false r3 with
     | some (ds, r4) => (pSelectionSet P r4).map (fun x => (.op name ⟨ty, vs, ds, x.1⟩, x.2))
     | none => none)
  | none => none

def opName (r : List Tok) : Option Name × List Tok :=
  match r with
  | .name n :: r' => (some n, r')
  | _ => (none, r)

theorem pDefinition_step (P : Params) (ts : List Tok) :
    pDefinition P ts =
      match ts with
      | .punct '{' :: r => (pSelectionSet P (.punct '{' :: r)).map (fun x => (.op none ⟨.query, [], [], x.1⟩, x.2))
      | .name k :: r =>
        if k = kw "fragment" then
          match r with
          | .name n :: .name o :: .name t :: r1 =>
            if n = kw "on" || o ≠ kw "on" then none else defFrag P n t r1
          | _ => none
        else
          match opTypeOf k with
          | none => none
          | some ty => defOp P (opName r).1 ty (opName r).2
      | _ => none := by
  rw [pDefinition.eq_def]
  unfold defFrag defOp defVars opName
  rfl

theorem defFrag_bind (P : Params) (n t : Name) (r1 : List Tok) :
    defFrag P n t r1 = (pDirs P false r1).bind fun x => (pSelectionSet P x.2).bind fun y =>
      some (.frag n ⟨t, x.1, y.1⟩, y.2) := by
  unfold defFrag
  cases pDirs P false r1 with
  | none => rfl
  | some x => simp only [Option.bind_some]; cases pSelectionSet P x.2 <;> rfl

theorem defOp_bind (P : Params) (name : Option Name) (ty : OpType) (r1 : List Tok) :
    defOp P name ty r1 = (defVars P r1).bind fun x => (pDirs P false x.2).bind fun y =>
      (pSelectionSet P y.2).bind fun z => some (.op name ⟨ty, x.1, y.1, z.1⟩, z.2) := by
  unfold defOp
  cases defVars P r1 with
  | none => rfl
  | some x =>
    simp only [Option.bind_some]
    cases pDirs P false x.2 with
    | none => rfl
    | some y => simp only [Option.bind_some]; cases pSelectionSet P y.2 <;> rfl

section
variable (P : Params) (hP : P.finiteFloats = true)
include hP

theorem defVars_flt (r1 : List Tok) : defVars P r1 = flt (fun vs => vs.all finVD) (defVars P' r1) := by
  unfold defVars
  split
  · exact pVarDefs_flt P hP _ _
  · simp [flt]

theorem defFrag_flt (n t : Name) (r1 : List Tok) : defFrag P n t r1 = flt finDef (defFrag P' n t r1) := by
  rw [defFrag_bind, defFrag_bind, pDirs_flt P hP false]
  cases hq : pDirs P' false r1 with
  | none => rfl
  | some x =>
    obtain ⟨ds, r2⟩ := x
    simp only [flt_some, Option.bind_some, pSelectionSet_flt P hP]
    cases hs : pSelectionSet P' r2 with
    | none => cases finDs ds <;> simp [flt, hs]
    | some y =>
      obtain ⟨ss, r3⟩ := y
      cases hfd : finDs ds <;> cases hfs : finSels ss <;> simp [flt, hs, hfd, hfs, finDef]

theorem defOp_flt (name : Option Name) (ty : OpType) (r1 : List Tok) :
    defOp P name ty r1 = flt finDef (defOp P' name ty r1) := by
  rw [defOp_bind, defOp_bind, defVars_flt P hP]
  cases hv : defVars P' r1 with
  | none => rfl
  | some x =>
    obtain ⟨vs, r3⟩ := x
    simp only [flt_some, Option.bind_some, pDirs_flt P hP false]
    cases hq : pDirs P' false r3 with
    | none => cases vs.all finVD <;> simp [flt, hq]
    | some y =>
      obtain ⟨ds, r4⟩ := y
      simp only [pSelectionSet_flt P hP, Option.bind_some]
      cases hs : pSelectionSet P' r4 with
      | none => cases vs.all finVD <;> cases finDs ds <;> simp [flt, hq, hs]
      | some z =>
        obtain ⟨ss, r5⟩ := z
        cases hfv : vs.all finVD <;> cases hfd : finDs ds <;> cases hfs : finSels ss <;>
          simp [flt, hq, hs, hfd, hfs, finDef] <;> simp_all

theorem pDefinition_flt (ts : List Tok) : pDefinition P ts = flt finDef (pDefinition P' ts) := by
  rw [pDefinition_step, pDefinition_step]
  split
  · rw [pSelectionSet_flt P hP]
    rename_i r
    cases hs : pSelectionSet P' (.punct '{' :: r) with
    | none => rfl
    | some y => obtain ⟨ss, r3⟩ := y; cases hfs : finSels ss <;> simp [flt, hfs, finDef, finDs]
  · split
    · split
      · split
        · rfl
        · exact defFrag_flt P hP _ _ _
      · rfl
    · split
      · rfl
      · exact defOp_flt P hP _ _ _
  · rfl

theorem pDefinitions_flt : ∀ (g : Nat) (ts : List Tok),
    pDefinitions P g ts = (pDefinitions P' g ts).bind (fun defs => if defs.all finDef then some defs else none) := by
  intro g
  induction g with
  | zero => intro ts; rw [pDefinitions, pDefinitions]; rfl
  | succ g ih =>
    intro ts
    rw [pDefinitions.eq_def, pDefinitions.eq_def P']
    simp only []
    rw [pDefinition_flt P hP]
    cases hd : pDefinition P' ts with
    | none => rfl
    | some x =>
      obtain ⟨d, r⟩ := x
      cases r with
      | nil => cases hfd : finDef d <;> simp [flt, hfd]
      | cons t r' =>
        cases hfd : finDef d <;> simp only [flt_some, hfd, Bool.false_eq_true, reduceIte, ih]
        · cases pDefinitions P' g (t :: r') <;> simp [hfd]
        · cases pDefinitions P' g (t :: r') <;> simp [hfd]
end

-- ------------------------------------------------------------------ the same facts as equivalences

/-- the documented parameters (`finiteFloats := true`) -/
def P0 : Params := {}

theorem pValue_fin_iff (c : Bool) (f : Nat) (ts : List Tok) (v : PValue) (r : List Tok) :
    pValue P0 c f ts = some (v, r) ↔ pValue P' c f ts = some (v, r) ∧ finV v = true :=
  flt_iff (pValue_flt P0 rfl c f ts) v r

theorem pArgList_fin_iff (c : Bool) (g : Nat) (ts : List Tok) (as : List (Name × PValue)) (r : List Tok) :
    pArgList P0 c g ts = some (as, r) ↔ pArgList P' c g ts = some (as, r) ∧ finFs as = true :=
  flt_iff (pArgList_flt P0 rfl c g ts) as r

theorem pOptArgs_fin_iff (c : Bool) (ts : List Tok) (as : List (Name × PValue)) (r : List Tok) :
    pOptArgs P0 c ts = some (as, r) ↔ pOptArgs P' c ts = some (as, r) ∧ finFs as = true :=
  flt_iff (pOptArgs_flt P0 rfl c ts) as r

theorem pDirectives_fin_iff (c : Bool) (g : Nat) (ts : List Tok) (ds : List PDirective) (r : List Tok) :
    pDirectives P0 c g ts = some (ds, r) ↔ pDirectives P' c g ts = some (ds, r) ∧ finDs ds = true :=
  flt_iff (pDirectives_flt P0 rfl c g ts) ds r

theorem pDirs_fin_iff (c : Bool) (ts : List Tok) (ds : List PDirective) (r : List Tok) :
    pDirs P0 c ts = some (ds, r) ↔ pDirs P' c ts = some (ds, r) ∧ finDs ds = true :=
  flt_iff (pDirs_flt P0 rfl c ts) ds r

theorem pVarDefs_fin_iff (g : Nat) (ts : List Tok) (vs : List PVarDef) (r : List Tok) :
    pVarDefs P0 g ts = some (vs, r) ↔ pVarDefs P' g ts = some (vs, r) ∧ vs.all finVD = true :=
  flt_iff (pVarDefs_flt P0 rfl g ts) vs r

theorem pSelections_fin_iff (f : Nat) (ts : List Tok) (ss : List PSel) (r : List Tok) :
    pSelections P0 f ts = some (ss, r) ↔ pSelections P' f ts = some (ss, r) ∧ finSels ss = true :=
  flt_iff (pSelections_flt P0 rfl f ts) ss r

theorem pSelectionSet_fin_iff (ts : List Tok) (ss : List PSel) (r : List Tok) :
    pSelectionSet P0 ts = some (ss, r) ↔ pSelectionSet P' ts = some (ss, r) ∧ finSels ss = true :=
  flt_iff (pSelectionSet_flt P0 rfl ts) ss r

theorem pDefinition_fin_iff (ts : List Tok) (d : PDef) (r : List Tok) :
    pDefinition P0 ts = some (d, r) ↔ pDefinition P' ts = some (d, r) ∧ finDef d = true :=
  flt_iff (pDefinition_flt P0 rfl ts) d r

theorem pDefinitions_fin_iff (g : Nat) (ts : List Tok) (defs : List PDef) :
    pDefinitions P0 g ts = some defs ↔ pDefinitions P' g ts = some defs ∧ defs.all finDef = true := by
  rw [pDefinitions_flt P0 rfl]
  cases pDefinitions P' g ts with
  | none => simp
  | some ds =>
    simp only [Option.bind_some]
    cases h : ds.all finDef
    · simp only [Bool.false_eq_true, if_false]
      constructor
      · intro e; cases e
      · rintro ⟨e, h'⟩; cases e; rw [h] at h'; cases h'
    · simp only [if_true]
      constructor
      · intro e; cases e; exact ⟨rfl, h⟩
      · rintro ⟨e, _⟩; exact e

/-- the finiteness parameter of the specification: a document read with the finiteness check is one
    read without it in which no float is the infinite double -/
theorem fin_defs (g : Nat) (ts : List Tok) :
    pDefinitions {} g ts = (pDefinitions P' g ts).bind (fun defs => if defs.all finDef then some defs else none) :=
  pDefinitions_flt {} rfl g ts
end AGV.Lemmas.PegX
