/-
  C17 — the whole document of a plain (non-federation) export: decidable well-formedness of a
  schema (`schemaOk`) with its soundness lemmas, and `parse_document`: the exported text of a
  well-formed schema — type definitions, directive definitions, schema block — lexes and parses
  to the document `describe` requires.
-/
import AGV.Lemmas.SdlDirDefs
namespace AGV.Lemmas.SdlSkeleton
open AGV.Core AGV.Core.PAst AGV.Core.Sdl AGV.Model.Sdl AGV.Spec.Literal AGV.Spec.Lex AGV.Spec.Parse AGV.Spec.SdlParse AGV.Lemmas.SdlLex AGV.Lemmas.SdlValue AGV.Lemmas.SdlBlock

-- ------------------------------------------------------------------ decidable well-formedness

def attrsOk (a : Attrs) : Bool := a.dirs.all dirWf

def tyOk : PType → Bool
  | .named n _ => isName n
  | .listOf t _ => tyOk t

def ivOk (x : InputVal) : Bool :=
  isName x.name && tyOk x.ty && (match x.default with | some v => svWf v | none => true) && attrsOk x.a

def fieldOk (f : FieldDef) : Bool :=
  isName f.name && tyOk f.ty && attrsOk f.a && f.args.all ivOk && !startsWith2Underscores f.name

def enumValOk (v : Text × Attrs) : Bool :=
  isName v.1 && !(v.1 = kw "true") && !(v.1 = kw "false") && !(v.1 = kw "null") && attrsOk v.2

def depNo : Dep → Bool
  | .no => true
  | .yes _ => false

def typeAttrsOk (a : Attrs) : Bool := depNo a.dep && attrsOk a

def typeOk : TypeDef → Bool
  | .scalar n a _ => isName n && typeAttrsOk a
  | .object n a _ impls fs | .interface n a _ impls fs =>
    isName n && typeAttrsOk a && impls.all isName && !fs.isEmpty && fs.all fieldOk
  | .union n a ms => isName n && typeAttrsOk a && !ms.isEmpty && ms.all isName
  | .enum n a vs => isName n && typeAttrsOk a && !vs.isEmpty && vs.all enumValOk
  | .input n a _ fs => isName n && typeAttrsOk a && !fs.isEmpty && fs.all ivOk

def dirDefOk (d : DirDef) : Bool :=
  isName d.name && d.args.all (fun a => ivOk (bare a)) && !d.locs.isEmpty && d.locs.all directiveLocations.contains

/-- the well-formedness a plain export relies on (decidable): every name is a Name; enum values
    are not `true` / `false` / `null`; default values and directive arguments are printable
    (`svWf`); the lists the grammar wants non-empty are non-empty; no field name starts with `__`;
    a type itself carries no deprecation; directive locations are those of the specification -/
def schemaOk (S : Schema) : Bool :=
  isName S.query && (match S.mutation with | some m => isName m | none => true) &&
    S.types.all typeOk && S.ddefs.all dirDefOk

theorem attrsOk_sound {a : Attrs} (h : attrsOk a = true) : WfAttrs a :=
  ⟨fun d hd => List.all_eq_true.mp h d hd⟩

theorem tyOk_sound : ∀ {t : PType}, tyOk t = true → WfType t
  | .named _ _, h => h
  | .listOf t _, h => tyOk_sound (t := t) h

theorem ivOk_sound {x : InputVal} (h : ivOk x = true) : SkelIv x := by
  simp only [ivOk, Bool.and_eq_true] at h
  refine ⟨h.1.1.1, tyOk_sound h.1.1.2, ?_, attrsOk_sound h.2⟩
  intro v hv
  have := h.1.2
  rw [hv] at this
  exact this

theorem fieldOk_sound {f : FieldDef} (h : fieldOk f = true) : SkelField f ∧ startsWith2Underscores f.name = false := by
  simp only [fieldOk, Bool.and_eq_true, Bool.not_eq_true', List.all_eq_true] at h
  exact ⟨⟨h.1.1.1.1, tyOk_sound h.1.1.1.2, attrsOk_sound h.1.1.2, fun a ha => ivOk_sound (h.1.2 a ha)⟩, h.2⟩

theorem enumValOk_sound {v : Text × Attrs} (h : enumValOk v = true) : SkelEnumVal v := by
  simp only [enumValOk, Bool.and_eq_true, Bool.not_eq_true', decide_eq_false_iff_not] at h
  exact ⟨h.1.1.1.1, ⟨h.1.1.1.2, h.1.1.2, h.1.2⟩, attrsOk_sound h.2⟩

theorem typeAttrsOk_sound {a : Attrs} (h : typeAttrsOk a = true) : TypeAttrs a := by
  simp only [typeAttrsOk, Bool.and_eq_true] at h
  refine ⟨?_, (attrsOk_sound h.2).dirs⟩
  cases hd : a.dep with
  | no => rfl
  | yes r => rw [hd] at h; simp [depNo] at h

theorem typeOk_sound {t : TypeDef} (h : typeOk t = true) : SkelType t := by
  cases t with
  | scalar n a url =>
    simp only [typeOk, Bool.and_eq_true] at h
    exact ⟨h.1, typeAttrsOk_sound h.2⟩
  | object n a ext impls fs =>
    simp only [typeOk, Bool.and_eq_true, Bool.not_eq_true', List.all_eq_true, List.isEmpty_eq_false_iff] at h
    exact ⟨h.1.1.1.1, typeAttrsOk_sound h.1.1.1.2, h.1.1.2, h.1.2, fun f hf => fieldOk_sound (h.2 f hf)⟩
  | interface n a ext impls fs =>
    simp only [typeOk, Bool.and_eq_true, Bool.not_eq_true', List.all_eq_true, List.isEmpty_eq_false_iff] at h
    exact ⟨h.1.1.1.1, typeAttrsOk_sound h.1.1.1.2, h.1.1.2, h.1.2, fun f hf => fieldOk_sound (h.2 f hf)⟩
  | union n a ms =>
    simp only [typeOk, Bool.and_eq_true, Bool.not_eq_true', List.all_eq_true, List.isEmpty_eq_false_iff] at h
    exact ⟨h.1.1.1, typeAttrsOk_sound h.1.1.2, h.1.2, h.2⟩
  | «enum» n a vs =>
    simp only [typeOk, Bool.and_eq_true, Bool.not_eq_true', List.all_eq_true, List.isEmpty_eq_false_iff] at h
    exact ⟨h.1.1.1, typeAttrsOk_sound h.1.1.2, h.1.2, fun v hv => enumValOk_sound (h.2 v hv)⟩
  | input n a oneof fs =>
    simp only [typeOk, Bool.and_eq_true, Bool.not_eq_true', List.all_eq_true, List.isEmpty_eq_false_iff] at h
    exact ⟨h.1.1.1, typeAttrsOk_sound h.1.1.2, h.1.2, fun v hv => ivOk_sound (h.2 v hv)⟩

theorem dirDefOk_sound {d : DirDef} (h : dirDefOk d = true) : SkelDirDef d := by
  simp only [dirDefOk, Bool.and_eq_true, Bool.not_eq_true', List.isEmpty_eq_false_iff] at h
  exact ⟨h.1.1.1, fun a ha => ivOk_sound (List.all_eq_true.mp h.1.1.2 a ha), h.1.2, h.2⟩

theorem systemDirectives_ok : systemDirectives.all dirDefOk = true := by decide


-- ------------------------------------------------------------------ the whole document of a plain export

theorem nameLe_total (a b : Name) : (nameLe a b || nameLe b a) = true := by
  simp only [nameLe, Bool.or_eq_true, Bool.not_eq_true', decide_eq_false_iff_not]
  rcases List.le_total (α := Char) a b with h | h
  · exact Or.inl (List.not_lt.mpr h)
  · exact Or.inr (List.not_lt.mpr h)

theorem nameLe_trans (a b c : Name) (h1 : nameLe a b = true) (h2 : nameLe b c = true) : nameLe a c = true := by
  simp only [nameLe, Bool.not_eq_true', decide_eq_false_iff_not] at *
  exact List.not_lt.mpr (List.le_trans (List.not_lt.mp h1) (List.not_lt.mp h2))

/-- sorting a sorted list again changes nothing -/
theorem sorted_sortByName {α : Type} (nm : α → Text) (xs : List α) : sorted true nm (sortByName nm xs) = sortByName nm xs := by
  unfold sorted sortByName
  rw [if_pos rfl]
  exact List.mergeSort_of_pairwise (List.pairwise_mergeSort (le := fun a b => nameLe (nm a) (nm b)) (fun a b c => nameLe_trans _ _ _) (fun a b => nameLe_total _ _) xs)

/-- the built-in directive definitions the exporter writes for `S` -/
def presentOf (S : Schema) : List Text :=
  builtinDirectiveNames.filter (fun n => directivePrinted S ⟨n, none, [], false, [], none⟩)

theorem directive_filter (S : Schema) (d : DirDef) :
    (!builtinDirectiveNames.contains d.name || (presentOf S).contains d.name) = directivePrinted S d := by
  have hp : directivePrinted S ⟨d.name, none, [], false, [], none⟩ = directivePrinted S d := rfl
  by_cases hb : d.name ∈ builtinDirectiveNames
  · have : (presentOf S).contains d.name = directivePrinted S d := by
      rw [← hp]
      simp only [presentOf, List.contains_eq_mem, List.mem_filter, hb, true_and]
      cases directivePrinted S ⟨d.name, none, [], false, [], none⟩ <;> simp
    rw [this]; simp [hb]
  · have h1 : d.name ≠ s "deprecated" := by intro e; exact hb (by rw [e]; decide)
    have h2 : d.name ≠ s "specifiedBy" := by intro e; exact hb (by rw [e]; decide)
    have h3 : d.name ≠ s "oneOf" := by intro e; exact hb (by rw [e]; decide)
    simp [hb, directivePrinted, h1, h2, h3]

theorem Lx_typeDefs_then (o : Opts) (ho : o.federation = false) (L : List TypeDef) (hL : ∀ t ∈ L, SkelType t)
    (rest : Text) (ts : List Tok) (h : Lx rest ts) :
    Lx ((L.map (exportType Defects.none o)).flatten ++ rest) (L.flatMap (defToks o) ++ ts) := by
  induction L with
  | nil => simpa using h
  | cons t L ih =>
    have := Lx_typeDef o ho t (hL t List.mem_cons_self) _ _ (ih (fun x hx => hL x (List.mem_cons_of_mem _ hx)))
    simpa [List.append_assoc] using this

theorem dirDefsToks_length (ds : List DirDef) : ds.length ≤ (ds.flatMap dirDefToks).length := by
  induction ds with
  | nil => simp
  | cons d ds ih =>
    have : 1 ≤ (dirDefToks d).length := by
      unfold dirDefToks; simp; omega
    simp at ih ⊢; omega

theorem schemaToks_end (S : Schema) : DefEnd (schemaToks S) ∧ schemaToks S ≠ [] := by
  unfold schemaToks; exact ⟨DefEnd.name _ _, by simp⟩

/-- The whole document of a plain export: for every well-formed schema (`schemaOk`, decidable)
    and every sorting / indentation / description-style / specifiedBy option, the exported text —
    lexed by the specification's lexer, parsed by the reference parser — IS the document
    `describe` requires (with the built-in directive definitions the exporter chose to write). -/
theorem parse_document (o : Opts) (ho : o.federation = false) (S : Schema) (hS : schemaOk S = true) :
    parseSchema (exportSdl Defects.none S o) =
      some (describe o S (allDirectives S) (composeGroups (allDirectives S)) (presentOf S)) := by
  simp only [schemaOk, Bool.and_eq_true, List.all_eq_true] at hS
  obtain ⟨⟨⟨hq, hm⟩, hty⟩, hdd⟩ := hS
  -- the type definitions
  have hfilt : (sorted true TypeDef.name S.types).filter
      (fun t => !startsDunder t.name && !(o.federation && (federationTypeNames.contains t.name || t.name = kwT "Any"))) =
      (sortByName TypeDef.name S.types).filter (typeExported o) := by
    have : sorted true TypeDef.name S.types = sortByName TypeDef.name S.types := rfl
    rw [this]
    congr 1
    funext t
    have : startsDunder t.name = startsWith2Underscores t.name := by
      unfold startsDunder startsWith2Underscores
      split <;> simp_all
    simp [typeExported, ho, this]
  generalize hLdef : (sortByName TypeDef.name S.types).filter (typeExported o) = L at hfilt
  have hL : ∀ t ∈ L, SkelType t := by
    intro t ht
    rw [← hLdef] at ht
    exact typeOk_sound (hty t (List.mem_mergeSort.mp (List.mem_filter.mp ht).1))
  -- the directive definitions
  have hdfilt : (sorted true (·.name) (allDirectives S)).filter
      (fun d => !builtinDirectiveNames.contains d.name || (presentOf S).contains d.name) =
      (allDirectives S).filter (directivePrinted S) := by
    have : sorted true (·.name) (allDirectives S) = allDirectives S := sorted_sortByName _ _
    rw [this]
    congr 1
    funext d
    exact directive_filter S d
  generalize hDdef : (allDirectives S).filter (directivePrinted S) = Ds at hdfilt
  have hDs : ∀ d ∈ Ds, SkelDirDef d := by
    intro d hd
    rw [← hDdef] at hd
    have hd' := List.mem_mergeSort.mp (List.mem_filter.mp hd).1
    rcases List.mem_append.mp hd' with h | h
    · exact dirDefOk_sound (hdd d h)
    · exact dirDefOk_sound (List.all_eq_true.mp systemDirectives_ok d (List.mem_filter.mp h).1)
  -- the text and its tokens
  have hm' : ∀ m, S.mutation = some m → isName m = true := by
    intro m e; rw [e] at hm; exact hm
  have hlx : Lx (exportSdl Defects.none S o) (L.flatMap (defToks o) ++ (Ds.flatMap dirDefToks ++ schemaToks S)) := by
    have h1 := Lx_schema o S hq hm'
    have h2 := Lx_dirDefs o ho Ds hDs _ _ h1
    have h3 := Lx_typeDefs_then o ho L hL _ _ h2
    cases hmu : S.mutation with
    | none => simp only [hmu] at h3; simpa [exportSdl, hLdef, hDdef, ho, hmu, List.append_assoc] using h3
    | some m => simp only [hmu] at h3; simpa [exportSdl, hLdef, hDdef, ho, hmu, List.append_assoc] using h3
  -- parsing
  have hdesc : describe o S (allDirectives S) (composeGroups (allDirectives S)) (presentOf S) =
      L.filterMap (dType o) ++ (Ds.map dDirective ++ [.schema false [] (some S.query) S.mutation none]) := by
    rw [describe, hfilt, hdfilt]
    simp [dSchema, ho]
  rw [hdesc]
  unfold parseSchema
  rw [hlx.tokens]
  simp only [parseTokens]
  have hb1 := defs_le_toks o ho L hL
  have hb2 := dirDefsToks_length Ds
  obtain ⟨hse, hsne⟩ := schemaToks_end S
  have hfuel : (L.flatMap (defToks o) ++ (Ds.flatMap dirDefToks ++ schemaToks S)).length + 1 =
      (((L.flatMap (defToks o)).length - (L.filterMap (dType o)).length + ((Ds.flatMap dirDefToks).length - Ds.length) +
        (schemaToks S).length) + 1 + Ds.length) + (L.filterMap (dType o)).length := by
    simp only [List.length_append]; omega
  rw [hfuel]
  have hR : DefEnd (Ds.flatMap dirDefToks ++ schemaToks S) := dirDefsToks_end Ds _ hse
  rw [pDefs_toks_then o ho L hL _ hR (by intro e; exact hsne (List.append_eq_nil_iff.mp e).2)]
  rw [pDefs_dirDefs_then o ho Ds hDs _ hse hsne]
  rw [pDefs, pDef_schema]
  simp

end AGV.Lemmas.SdlSkeleton
