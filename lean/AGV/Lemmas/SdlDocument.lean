/-
  C17 — the whole exported document, every option set: decidable well-formedness of a schema
  (`schemaOk`, for federation exports also `federationOk`) with soundness lemmas; `Lx_document`
  (characters to tokens) and `parse_xDoc`: the exported text of a well-formed schema — type
  definitions, directive definitions, schema block or `@link` schema extension — lexes and parses
  to the document `xDoc`, which IS `describe`'s document for a plain export (`xDoc_plain`) and is
  `describe`'s document up to the order of differently named directive applications always
  (`xDoc_cDoc`, through `normDirs_swap`).  The compose blocks of a federation export (composable
  directives grouped by URL) come in any order `gs` of the groups.
-/
import AGV.Lemmas.SdlCompose
import AGV.Lemmas.SdlSort
namespace AGV.Lemmas.SdlSkeleton
open AGV.Core AGV.Core.PAst AGV.Core.Sdl AGV.Model.Sdl AGV.Spec.Literal AGV.Spec.Lex AGV.Spec.Parse AGV.Spec.SdlParse AGV.Lemmas.SdlLex AGV.Lemmas.SdlValue AGV.Lemmas.SdlBlock

-- ------------------------------------------------------------------ decidable well-formedness

def attrsOk (a : Attrs) : Bool := a.dirs.all dirWf

def tyOk : PType → Bool
  | .named n _ => isName n
  | .listOf t _ => tyOk t

def ivOk (x : InputVal) : Bool :=
  isName x.name && tyOk x.ty && (match x.default with | some v => svWf v | none => true) && attrsOk x.a

def fieldOk (f : FieldDef) : Bool :=
  isName f.name && tyOk f.ty && attrsOk f.a && f.args.all ivOk && !startsWith2Underscores f.name

def enumValOk (v : Text × Attrs) : Bool :=
  isName v.1 && !(v.1 = kw "true") && !(v.1 = kw "false") && !(v.1 = kw "null") && attrsOk v.2

def depNo : Dep → Bool
  | .no => true
  | .yes _ => false

def typeAttrsOk (a : Attrs) : Bool := depNo a.dep && attrsOk a

def typeOk : TypeDef → Bool
  | .scalar n a _ => isName n && typeAttrsOk a
  | .object n a _ impls fs | .interface n a _ impls fs =>
    isName n && typeAttrsOk a && impls.all isName && !fs.isEmpty && fs.all fieldOk
  | .union n a ms => isName n && typeAttrsOk a && !ms.isEmpty && ms.all isName
  | .enum n a vs => isName n && typeAttrsOk a && !vs.isEmpty && vs.all enumValOk
  | .input n a _ fs => isName n && typeAttrsOk a && !fs.isEmpty && fs.all ivOk

def dirDefOk (d : DirDef) : Bool :=
  isName d.name && d.args.all (fun a => ivOk (bare a)) && !d.locs.isEmpty && d.locs.all directiveLocations.contains

/-- the well-formedness a plain export relies on (decidable): every name is a Name; enum values
    are not `true` / `false` / `null`; default values and directive arguments are printable
    (`svWf`); the lists the grammar wants non-empty are non-empty; no field name starts with `__`;
    a type itself carries no deprecation; directive locations are those of the specification -/
def schemaOk (S : Schema) : Bool :=
  isName S.query && (match S.mutation with | some m => isName m | none => true) &&
    S.types.all typeOk && S.ddefs.all dirDefOk

theorem attrsOk_sound {a : Attrs} (h : attrsOk a = true) : WfAttrs a :=
  ⟨fun d hd => List.all_eq_true.mp h d hd⟩

theorem tyOk_sound : ∀ {t : PType}, tyOk t = true → WfType t
  | .named _ _, h => h
  | .listOf t _, h => tyOk_sound (t := t) h

theorem ivOk_sound {x : InputVal} (h : ivOk x = true) : SkelIv x := by
  simp only [ivOk, Bool.and_eq_true] at h
  refine ⟨h.1.1.1, tyOk_sound h.1.1.2, ?_, attrsOk_sound h.2⟩
  intro v hv
  have := h.1.2
  rw [hv] at this
  exact this

theorem fieldOk_sound {f : FieldDef} (h : fieldOk f = true) : SkelField f ∧ startsWith2Underscores f.name = false := by
  simp only [fieldOk, Bool.and_eq_true, Bool.not_eq_true', List.all_eq_true] at h
  exact ⟨⟨h.1.1.1.1, tyOk_sound h.1.1.1.2, attrsOk_sound h.1.1.2, fun a ha => ivOk_sound (h.1.2 a ha)⟩, h.2⟩

theorem enumValOk_sound {v : Text × Attrs} (h : enumValOk v = true) : SkelEnumVal v := by
  simp only [enumValOk, Bool.and_eq_true, Bool.not_eq_true', decide_eq_false_iff_not] at h
  exact ⟨h.1.1.1.1, ⟨h.1.1.1.2, h.1.1.2, h.1.2⟩, attrsOk_sound h.2⟩

theorem typeAttrsOk_sound {a : Attrs} (h : typeAttrsOk a = true) : TypeAttrs a := by
  simp only [typeAttrsOk, Bool.and_eq_true] at h
  refine ⟨?_, (attrsOk_sound h.2).dirs⟩
  cases hd : a.dep with
  | no => rfl
  | yes r => rw [hd] at h; simp [depNo] at h

theorem typeOk_sound {t : TypeDef} (h : typeOk t = true) : SkelType t := by
  cases t with
  | scalar n a url =>
    simp only [typeOk, Bool.and_eq_true] at h
    exact ⟨h.1, typeAttrsOk_sound h.2⟩
  | object n a ext impls fs =>
    simp only [typeOk, Bool.and_eq_true, Bool.not_eq_true', List.all_eq_true, List.isEmpty_eq_false_iff] at h
    exact ⟨h.1.1.1.1, typeAttrsOk_sound h.1.1.1.2, h.1.1.2, h.1.2, fun f hf => fieldOk_sound (h.2 f hf)⟩
  | interface n a ext impls fs =>
    simp only [typeOk, Bool.and_eq_true, Bool.not_eq_true', List.all_eq_true, List.isEmpty_eq_false_iff] at h
    exact ⟨h.1.1.1.1, typeAttrsOk_sound h.1.1.1.2, h.1.1.2, h.1.2, fun f hf => fieldOk_sound (h.2 f hf)⟩
  | union n a ms =>
    simp only [typeOk, Bool.and_eq_true, Bool.not_eq_true', List.all_eq_true, List.isEmpty_eq_false_iff] at h
    exact ⟨h.1.1.1, typeAttrsOk_sound h.1.1.2, h.1.2, h.2⟩
  | «enum» n a vs =>
    simp only [typeOk, Bool.and_eq_true, Bool.not_eq_true', List.all_eq_true, List.isEmpty_eq_false_iff] at h
    exact ⟨h.1.1.1, typeAttrsOk_sound h.1.1.2, h.1.2, fun v hv => enumValOk_sound (h.2 v hv)⟩
  | input n a oneof fs =>
    simp only [typeOk, Bool.and_eq_true, Bool.not_eq_true', List.all_eq_true, List.isEmpty_eq_false_iff] at h
    exact ⟨h.1.1.1, typeAttrsOk_sound h.1.1.2, h.1.2, fun v hv => ivOk_sound (h.2 v hv)⟩

theorem dirDefOk_sound {d : DirDef} (h : dirDefOk d = true) : SkelDirDef d := by
  simp only [dirDefOk, Bool.and_eq_true, Bool.not_eq_true', List.isEmpty_eq_false_iff] at h
  exact ⟨h.1.1.1, fun a ha => ivOk_sound (List.all_eq_true.mp h.1.1.2 a ha), h.1.2, h.2⟩

theorem systemDirectives_ok : systemDirectives.all dirDefOk = true := by decide


-- ------------------------------------------------------------------ what a federation export needs in addition

def appsFedOk (a : Attrs) : Bool := a.dirs.all (fun d => !(d.name = s "tag") && !(d.name = s "inaccessible"))

def ivFedOk (x : InputVal) : Bool := appsFedOk x.a

def fieldFedOk (f : FieldDef) : Bool := appsFedOk f.a && f.args.all ivFedOk

def typeFedOk : TypeDef → Bool
  | .scalar _ a _ => appsFedOk a
  | .object _ a _ _ fs | .interface _ a _ _ fs => appsFedOk a && fs.all fieldFedOk
  | .union _ a _ => appsFedOk a
  | .enum _ a vs => appsFedOk a && vs.all (fun v => appsFedOk v.2)
  | .input _ a _ fs => appsFedOk a && fs.all ivFedOk

/-- what a federation export needs beyond `schemaOk` (decidable): no custom directive
    application named `tag` or `inaccessible` (the exporter writes the federation attributes after
    the custom applications on fields and object types, `describe` lists them first: equal only up
    to the order of differently named directives).  Composable directive definitions are fine:
    any URL, any number of groups. -/
def federationOk (S : Schema) : Bool := S.types.all typeFedOk

-- ------------------------------------------------------------------ the order of directive applications

theorem nameLe_total (a b : Name) : (nameLe a b || nameLe b a) = true := by
  simp only [nameLe, Bool.or_eq_true, Bool.not_eq_true', decide_eq_false_iff_not]
  rcases List.le_total (α := Char) a b with h | h
  · exact Or.inl (List.not_lt.mpr h)
  · exact Or.inr (List.not_lt.mpr h)

theorem nameLe_trans (a b c : Name) (h1 : nameLe a b = true) (h2 : nameLe b c = true) : nameLe a c = true := by
  simp only [nameLe, Bool.not_eq_true', decide_eq_false_iff_not] at *
  exact List.not_lt.mpr (List.le_trans (List.not_lt.mp h1) (List.not_lt.mp h2))

theorem nameLe_antisymm (a b : Name) (h1 : nameLe a b = true) (h2 : nameLe b a = true) : a = b := by
  simp only [nameLe, Bool.not_eq_true', decide_eq_false_iff_not] at *
  exact List.le_antisymm (List.not_lt.mp h1) (List.not_lt.mp h2)

/-- `normDirs` does not see the order of two blocks of applications with no common name -/
theorem normDirs_swap (D A F : List PDirective) (h : ∀ x ∈ A, ∀ y ∈ F, x.name ≠ y.name) :
    normDirs (D ++ (A ++ F)) = normDirs (D ++ (F ++ A)) := by
  unfold normDirs
  have tr : ∀ a b c : PDirective, nameLe a.name b.name = true → nameLe b.name c.name = true → nameLe a.name c.name = true :=
    fun a b c => nameLe_trans _ _ _
  have tot : ∀ a b : PDirective, (nameLe a.name b.name || nameLe b.name a.name) = true := fun a b => nameLe_total _ _
  apply AGV.Lemmas.SdlSort.mergeSort_prefix (fun a b : PDirective => nameLe a.name b.name) tr tot
  apply AGV.Lemmas.SdlSort.mergeSort_append_comm (fun a b : PDirective => nameLe a.name b.name) tr tot
  intro x hx y hy hxy
  exact h x hx y hy (nameLe_antisymm _ _ hxy.1 hxy.2)

theorem cDirs_swap (D A F : List PDirective) (h : ∀ x ∈ A, ∀ y ∈ F, x.name ≠ y.name) :
    cDirs (D ++ (A ++ F)) = cDirs (D ++ (F ++ A)) := by
  unfold cDirs; rw [normDirs_swap D A F h]

/-- the custom applications of an item share no name with its federation attributes -/
def AppsDisjoint (o : Opts) (a : Attrs) : Prop := ∀ x ∈ a.dirs, ∀ y ∈ fedApps o a, x.name ≠ y.name

theorem appsDisjoint (o : Opts) (a : Attrs) (h : o.federation = true → appsFedOk a = true) : AppsDisjoint o a := by
  intro x hx y hy
  unfold fedApps at hy
  split at hy
  · rename_i hf
    have hx' := List.all_eq_true.mp (h hf) x hx
    simp only [Bool.and_eq_true, Bool.not_eq_true', decide_eq_false_iff_not] at hx'
    rcases List.mem_append.mp hy with hy | hy
    · cases hi : a.inacc
      · rw [hi] at hy; cases hy
      · rw [hi] at hy; simp only [if_true, List.mem_singleton] at hy; subst hy; exact hx'.2
    · obtain ⟨t, _, rfl⟩ := List.mem_map.mp hy; exact hx'.1
  · cases hy

theorem cDirs_fieldApps (o : Opts) (a : Attrs) (h : AppsDisjoint o a) :
    cDirs ((fieldApps o a).map dDir) = cDirs (dDirs o a) := by
  rw [dDirs_apps]
  simp only [fieldApps, itemApps, List.map_append]
  apply cDirs_swap
  intro x hx y hy
  obtain ⟨x', hx', rfl⟩ := List.mem_map.mp hx
  obtain ⟨y', hy', rfl⟩ := List.mem_map.mp hy
  exact h x' hx' y' hy'

theorem cField_xField (o : Opts) (f : FieldDef) (h : AppsDisjoint o f.a) : cField (xField o f) = cField (dField o f) := by
  simp only [cField, xField, dField, cDirs_fieldApps o f.a h]

theorem dDirs_type (o : Opts) (a : Attrs) (ha : TypeAttrs a) : dDirs o a = (fedApps o a ++ a.dirs).map dDir := by
  rw [dDirs_apps]; simp [itemApps, ha.dep, depApps]

theorem cFields_xFields (o : Opts) (fs : List FieldDef) (h : ∀ f ∈ fs, AppsDisjoint o f.a) :
    (xFields o fs).map cField = (dFields o fs).map cField := by
  simp only [xFields, dFields, List.map_map]
  apply List.map_congr_left
  intro f hf
  exact cField_xField o f (h f ((sorted_mem _ _ _ _).mp hf))

theorem typeFedOk_fields (o : Opts) (a : Attrs) (fs : List FieldDef)
    (h : o.federation = true → (appsFedOk a && fs.all fieldFedOk) = true) :
    (o.federation = true → appsFedOk a = true) ∧ (∀ f ∈ fs, AppsDisjoint o f.a) := by
  refine ⟨fun hf => ?_, fun f hf => appsDisjoint o f.a (fun hfed => ?_)⟩
  · have := h hf; simp only [Bool.and_eq_true] at this; exact this.1
  · have := h hfed
    simp only [Bool.and_eq_true, List.all_eq_true] at this
    have := this.2 f hf
    simp only [fieldFedOk, Bool.and_eq_true] at this
    exact this.1

/-- the definition the exported text denotes and the definition `describe` requires are the same
    up to the order of differently named directive applications -/
theorem cDef_xType (o : Opts) (t : TypeDef) (ht : TypeAttrs (tdAttrs t)) (hF : o.federation = true → typeFedOk t = true) :
    (xType o t).map cDef = (dType o t).map cDef := by
  cases t with
  | scalar n a url =>
    have hs : isSystemScalar o (.scalar n a url) = builtinScalars.contains n := by
      simp only [isSystemScalar, systemScalars_builtin]
    simp only [xType, dType, hs, dDirs_type o a ht, typeApps, specApps, List.map_append]
    cases builtinScalars.contains n
    · cases o.specifiedBy <;> cases url <;> simp [dDir, SValue.toP]
    · rfl
  | object n a ext impls fs =>
    obtain ⟨h1, h2⟩ := typeFedOk_fields o a fs hF
    have hd : cDirs ((a.dirs ++ fedApps o a).map dDir) = cDirs (dDirs o a) := by
      rw [dDirs_type o a ht]
      have := cDirs_swap [] (a.dirs.map dDir) ((fedApps o a).map dDir) (by
        intro x hx y hy
        obtain ⟨x', hx', rfl⟩ := List.mem_map.mp hx
        obtain ⟨y', hy', rfl⟩ := List.mem_map.mp hy
        exact appsDisjoint o a h1 x' hx' y' hy')
      simpa [List.map_append] using this
    simp only [xType, dType, Option.map_some, cDef, cBody, typeApps, hd, cFields_xFields o fs h2]
  | interface n a ext impls fs =>
    obtain ⟨h1, h2⟩ := typeFedOk_fields o a fs hF
    simp only [xType, dType, Option.map_some, cDef, cBody, typeApps, tdAttrs, dDirs_type o a ht, cFields_xFields o fs h2]
  | union n a ms => simp only [xType, dType, typeApps, tdAttrs, dDirs_type o a ht]
  | «enum» n a vs => simp only [xType, dType, typeApps, tdAttrs, dDirs_type o a ht]
  | input n a oneof fs =>
    simp only [xType, dType, typeApps, dDirs_type o a ht, List.map_append]
    cases oneof <;> simp [dDir]

-- ------------------------------------------------------------------ the whole document

/-- sorting a sorted list again changes nothing -/
theorem sorted_sortByName {α : Type} (nm : α → Text) (xs : List α) : sorted true nm (sortByName nm xs) = sortByName nm xs := by
  unfold sorted sortByName
  rw [if_pos rfl]
  exact List.mergeSort_of_pairwise (List.pairwise_mergeSort (le := fun a b => nameLe (nm a) (nm b)) (fun a b c => nameLe_trans _ _ _) (fun a b => nameLe_total _ _) xs)

/-- the built-in directive definitions the exporter writes for `S` -/
def presentOf (S : Schema) : List Text :=
  builtinDirectiveNames.filter (fun n => directivePrinted S ⟨n, none, [], false, [], none⟩)

theorem directive_filter (S : Schema) (d : DirDef) :
    (!builtinDirectiveNames.contains d.name || (presentOf S).contains d.name) = directivePrinted S d := by
  have hp : directivePrinted S ⟨d.name, none, [], false, [], none⟩ = directivePrinted S d := rfl
  by_cases hb : d.name ∈ builtinDirectiveNames
  · have : (presentOf S).contains d.name = directivePrinted S d := by
      rw [← hp]
      simp only [presentOf, List.contains_eq_mem, List.mem_filter, hb, true_and]
      cases directivePrinted S ⟨d.name, none, [], false, [], none⟩ <;> simp
    rw [this]; simp [hb]
  · have h1 : d.name ≠ s "deprecated" := by intro e; exact hb (by rw [e]; decide)
    have h2 : d.name ≠ s "specifiedBy" := by intro e; exact hb (by rw [e]; decide)
    have h3 : d.name ≠ s "oneOf" := by intro e; exact hb (by rw [e]; decide)
    simp [hb, directivePrinted, h1, h2, h3]

theorem dirDefsToks_length (o : Opts) (ds : List DirDef) : ds.length ≤ (ds.flatMap (dirDefToks o)).length := by
  induction ds with
  | nil => simp
  | cons d ds ih =>
    have : 1 ≤ (dirDefToks o d).length := by
      unfold dirDefToks; simp; omega
    simp at ih ⊢; omega

theorem escapeChar_nameChar (c : Char) (h : nameChar c = true) : escapeChar false c = [c] := by
  have : c ≠ '\\' ∧ c ≠ '"' ∧ c ≠ Char.ofNat 8 ∧ c ≠ Char.ofNat 12 ∧ c ≠ '\n' ∧ c ≠ '\r' ∧ c ≠ '\t' := by
    simp [← Char.toNat_inj, nameChar, nameStart, isAlpha, AGV.Digits.isDigit] at *
    omega
  simp [escapeChar, this]

theorem escapeString_plain : ∀ (n : Text), (∀ c ∈ n, escapeChar false c = [c]) → escapeString false n = n
  | [], _ => rfl
  | c :: r, h => by
    simp [escapeString, h c List.mem_cons_self, escapeString_plain r (fun x hx => h x (List.mem_cons_of_mem _ hx))]

/-- an import name `@name` needs no escaping -/
theorem importName_plain (n : Text) (hn : isName n = true) : escapeString false ('@' :: n) = '@' :: n := by
  apply escapeString_plain
  intro c hc
  rcases List.mem_cons.mp hc with rfl | hc
  · decide
  · cases n with
    | nil => cases hc
    | cons a r =>
      simp only [isName, Bool.and_eq_true, List.all_eq_true] at hn
      rcases List.mem_cons.mp hc with rfl | hc
      · exact escapeChar_nameChar _ (by simp [nameChar, hn.1])
      · exact escapeChar_nameChar _ (hn.2 c hc)

theorem foldl_inv {α β : Type} (f : β → α → β) (I : β → Prop) :
    ∀ (l : List α) (b : β), I b → (∀ b a, a ∈ l → I b → I (f b a)) → I (l.foldl f b)
  | [], _, hb, _ => hb
  | a :: l, b, hb, hstep =>
    foldl_inv f I l (f b a) (hstep b a List.mem_cons_self hb) (fun b' a' ha' => hstep b' a' (List.mem_cons_of_mem _ ha'))

/-- every import name of a compose group is `@` + the name of a directive -/
theorem composeGroups_names (P : Text → Prop) (ds : List DirDef) (h : ∀ d ∈ ds, P ('@' :: d.name)) :
    ∀ g ∈ composeGroups ds, ∀ n ∈ g.2, P n := by
  unfold composeGroups
  apply foldl_inv _ (fun (acc : List (Text × List Text)) => ∀ g ∈ acc, ∀ n ∈ g.2, P n)
  · intro g hg; cases hg
  · intro acc d hdm hacc
    have hd := h d hdm
    simp only []
    split
    · exact hacc
    · rename_i url _
      split
      · intro g hg n hn
        obtain ⟨g0, hg0, rfl⟩ := List.mem_map.mp hg
        split at hn
        · rcases List.mem_append.mp hn with hn | hn
          · exact hacc g0 hg0 n hn
          · rw [List.mem_singleton.mp hn]; exact hd
        · exact hacc g0 hg0 n hn
      · intro g hg n hn
        rcases List.mem_append.mp hg with hg | hg
        · exact hacc g hg n hn
        · rw [List.mem_singleton.mp hg] at hn
          rw [List.mem_singleton.mp hn]; exact hd

/-- the types and directive definitions the exporter writes, in its order -/
def exportedTypes (o : Opts) (S : Schema) : List TypeDef := writtenTypes S o

theorem filterMap_congr' {α β : Type} (f g : α → Option β) : ∀ (l : List α), (∀ x ∈ l, f x = g x) → l.filterMap f = l.filterMap g
  | [], _ => rfl
  | a :: l, h => by
    simp only [List.filterMap_cons, h a List.mem_cons_self, filterMap_congr' f g l (fun x hx => h x (List.mem_cons_of_mem _ hx))]

theorem all_isEmpty {α : Type} (p : α → Bool) : ∀ (l : List α), (∀ x ∈ l, p x = false) → l.all p = l.isEmpty
  | [], _ => rfl
  | a :: l, h => by simp [h a List.mem_cons_self]

/-- on a well-formed type the exporter's view of the query root is the specification's -/
theorem fedRoot_dRoot (o : Opts) (q : Text) (t : TypeDef) (ht : typeOk t = true) : fedRoot o q t = dRoot o q t := by
  cases t with
  | object n a e i fs =>
    simp only [typeOk, Bool.and_eq_true, List.all_eq_true] at ht
    have hflt : fs.filter (fun f => !(f.name = s "_service" || f.name = s "_entities")) =
        fs.filter (fun f => !(f.name = kwT "_service") && !(f.name = kwT "_entities")) := by
      apply List.filter_congr
      intro f _
      simp only [s, kwT, Bool.not_or]
      try congr
    have hnd : ∀ f ∈ fs.filter (fun f => !(f.name = kwT "_service") && !(f.name = kwT "_entities")), startsWith2Underscores f.name = false := by
      intro f hf
      have := ht.2 f (List.mem_filter.mp hf).1
      simp only [fieldOk, Bool.and_eq_true, Bool.not_eq_true'] at this
      exact this.2
    simp only [fedRoot, dRoot, hflt, all_isEmpty _ _ hnd]
  | scalar n a u => rfl
  | interface n a e i fs => rfl
  | union n a m => rfl
  | «enum» n a v => rfl
  | input n a oo f => rfl

/-- what the exporter makes of a well-formed type is well-formed, with the same attributes -/
theorem fedRoot_ok (o : Opts) (q : Text) (t t' : TypeDef) (ht : typeOk t = true) (h : fedRoot o q t = some t') :
    typeOk t' = true ∧ (typeFedOk t = true → typeFedOk t' = true) := by
  cases t with
  | object n a e i fs =>
    simp only [fedRoot] at h
    split at h
    · split at h
      · cases h
      · rename_i hall
        cases h
        simp only [typeOk, Bool.and_eq_true, List.all_eq_true, Bool.not_eq_true', List.isEmpty_eq_false_iff] at ht ⊢
        refine ⟨⟨⟨ht.1.1, ?_⟩, fun f hf => ht.2 f (List.mem_filter.mp hf).1⟩, ?_⟩
        · intro e0; rw [e0] at hall; exact hall rfl
        · intro hfo
          simp only [typeFedOk, Bool.and_eq_true, List.all_eq_true] at hfo ⊢
          exact ⟨hfo.1, fun f hf => hfo.2 f (List.mem_filter.mp hf).1⟩
    · cases h; exact ⟨ht, id⟩
  | scalar n a u => cases h; exact ⟨ht, id⟩
  | interface n a e i fs => cases h; exact ⟨ht, id⟩
  | union n a m => cases h; exact ⟨ht, id⟩
  | «enum» n a v => cases h; exact ⟨ht, id⟩
  | input n a oo f => cases h; exact ⟨ht, id⟩

/-- every type the exporter writes is (the exporter's view of) a registered type: well-formed,
    and fit for a federation export if the schema is -/
theorem exported_ok (o : Opts) (S : Schema) (hS : schemaOk S = true) :
    ∀ t ∈ exportedTypes o S, typeOk t = true ∧ (federationOk S = true → typeFedOk t = true) := by
  simp only [schemaOk, Bool.and_eq_true, List.all_eq_true] at hS
  intro t' ht'
  obtain ⟨t, ht, h⟩ := List.mem_filterMap.mp ht'
  have hmem : t ∈ S.types := List.mem_mergeSort.mp (List.mem_filter.mp ht).1
  obtain ⟨h1, h2⟩ := fedRoot_ok o S.query t t' (hS.1.2 t hmem) h
  refine ⟨h1, fun hfo => h2 ?_⟩
  simp only [federationOk, List.all_eq_true] at hfo
  exact hfo t hmem

def exportedDirs (S : Schema) : List DirDef := (allDirectives S).filter (directivePrinted S)

/-- the schema definition (plain export) / the `@link` schema extensions (federation export: the
    federation link, then with the compose option one block per group of `gs`) -/
def composePart (o : Opts) (gs : List (Text × List Text)) : List (Text × List Text) := if o.compose then gs else []
def schemaPartToks (o : Opts) (S : Schema) (gs : List (Text × List Text)) : List Tok :=
  if o.federation then fedSchemaToks ++ (composePart o gs).flatMap groupToks else schemaToks S
def xSchema (o : Opts) (S : Schema) (gs : List (Text × List Text)) : List SDef :=
  if o.federation then .schema true [linkDir fedUrl federationImportNames] none none none :: (composePart o gs).map xGroup
  else [.schema false [] (some S.query) S.mutation none]

/-- the document the exported text denotes: `describe`'s, with the directive applications of
    fields and object types in the exporter's order -/
def xDoc (o : Opts) (S : Schema) (gs : List (Text × List Text)) : List SDef :=
  (exportedTypes o S).filterMap (xType o) ++ ((exportedDirs S).map dDirective ++ xSchema o S gs)

theorem schemaPart (o : Opts) (S : Schema) (gs : List (Text × List Text)) :
    DefEnd (schemaPartToks o S gs) ∧ schemaPartToks o S gs ≠ [] ∧
      ∀ g, (schemaPartToks o S gs).length ≤ g → pDefs g (schemaPartToks o S gs) = some (xSchema o S gs) := by
  unfold schemaPartToks xSchema
  split
  · refine ⟨DefEnd.name _ _, by simp [fedSchemaToks], fun g hg => ?_⟩
    have h := pDefs_exts ([linkApp] :: (composePart o gs).map groupApps) (by simp)
      (by
        intro a ha
        rcases List.mem_cons.mp ha with rfl | ha
        · exact ⟨by simp, linkApp_wf⟩
        · obtain ⟨x, _, rfl⟩ := List.mem_map.mp ha
          exact ⟨groupApps_ne x, groupApps_wf x⟩) g
      (by
        have h1 : ∀ L : List (Text × List Text), L.length ≤ (L.flatMap groupToks).length := by
          intro L
          induction L with
          | nil => simp
          | cons x L ih => simp [groupToks, extToks] at ih ⊢; omega
        have := h1 (composePart o gs)
        simp only [fedSchemaToks, List.length_append, List.length_cons, List.length_map] at hg ⊢
        omega)
    have e1 : (composePart o gs).flatMap groupToks = (composePart o gs).flatMap (fun a => extToks (groupApps a)) := rfl
    have e2 : (composePart o gs).map xGroup =
        (composePart o gs).map (fun x => SDef.schema true ((groupApps x).map dDir) none none none) := rfl
    rw [e1, e2]
    simpa [fedSchemaToks_ext, linkApp_dDir, List.flatMap_map, List.map_map, Function.comp_def] using h
  · refine ⟨DefEnd.name _ _, by simp [schemaToks], fun g hg => ?_⟩
    obtain ⟨g, rfl⟩ : ∃ g', g = g' + 1 := ⟨g - 1, by simp [schemaToks] at hg; omega⟩
    simp [pDefs, pDef_schema]

/-- the token sequence of the whole exported document -/
def docToks (o : Opts) (S : Schema) (gs : List (Text × List Text)) : List Tok :=
  (exportedTypes o S).flatMap (defToks o) ++ ((exportedDirs S).flatMap (dirDefToks o) ++ schemaPartToks o S gs)

/-- the compose groups a document may list: every import name needs no escaping (`@` + a Name) -/
def GroupsOk (gs : List (Text × List Text)) : Prop := ∀ g ∈ gs, ∀ n ∈ g.2, escapeString false n = n

theorem exported_wf (o : Opts) (S : Schema) (hS : schemaOk S = true) (hF : o.federation = true → federationOk S = true) :
    (∀ t ∈ exportedTypes o S, SkelType t ∧ FedFields o t) ∧ (∀ d ∈ exportedDirs S, SkelDirDef d) := by
  have hS0 := hS
  simp only [schemaOk, Bool.and_eq_true, List.all_eq_true] at hS
  obtain ⟨⟨⟨hq, hm⟩, hty⟩, hdd⟩ := hS
  have hL : ∀ t ∈ exportedTypes o S, SkelType t ∧ FedFields o t := fun t ht =>
    ⟨typeOk_sound (exported_ok o S hS0 t ht).1, trivial⟩
  have hDs : ∀ d ∈ exportedDirs S, SkelDirDef d := by
    intro d hd
    have hd' := List.mem_mergeSort.mp (List.mem_filter.mp hd).1
    rcases List.mem_append.mp hd' with h | h
    · exact dirDefOk_sound (hdd d h)
    · exact dirDefOk_sound (List.all_eq_true.mp systemDirectives_ok d (List.mem_filter.mp h).1)
  exact ⟨hL, hDs⟩

/-- the groups the model writes are fine: every import name is `@` + the name of a registered
    directive, and those are Names -/
theorem composeGroups_ok (S : Schema) (hS : schemaOk S = true) : GroupsOk (composeGroups (allDirectives S)) := by
  simp only [schemaOk, Bool.and_eq_true, List.all_eq_true] at hS
  apply composeGroups_names (fun n => escapeString false n = n)
  intro d hd
  apply importName_plain
  rcases List.mem_append.mp (List.mem_mergeSort.mp hd) with h | h
  · exact (dirDefOk_sound (hS.2 d h)).name
  · exact (dirDefOk_sound (List.all_eq_true.mp systemDirectives_ok d (List.mem_filter.mp h).1)).name

theorem GroupsOk.perm {gs gs' : List (Text × List Text)} (h : GroupsOk gs') (hp : gs.Perm gs') : GroupsOk gs :=
  fun g hg => h g (hp.mem_iff.mp hg)

/-- CHARACTERS TO TOKENS, every option set: the exported text of a well-formed schema is, for the
    specification's lexer, exactly the token sequence `docToks` (every separator the exporter
    writes — blanks, tabs, line ends, commas — is ignored; every lexeme ends where the exporter
    ends it), the compose blocks in any order `gs`. -/
theorem Lx_document (o : Opts) (S : Schema) (hS : schemaOk S = true) (hF : o.federation = true → federationOk S = true)
    (gs : List (Text × List Text)) (hgs : GroupsOk gs) :
    Lx (exportSdlG Defects.none S o gs) (docToks o S gs) := by
  obtain ⟨hL, hDs⟩ := exported_wf o S hS hF
  simp only [schemaOk, Bool.and_eq_true, List.all_eq_true] at hS
  obtain ⟨⟨⟨hq, hm⟩, hty⟩, hdd⟩ := hS
  have hm' : ∀ m, S.mutation = some m → isName m = true := by
    intro m e; rw [e] at hm; exact hm
  unfold docToks
  -- the text and its tokens
  have key : ∀ (txt : Text), Lx txt (schemaPartToks o S gs) →
      Lx ((((exportedTypes o S).map (exportType Defects.none o)).flatten) ++
        ((((exportedDirs S).map (fun d => directiveSdl Defects.none o d ++ ['\n'])).flatten) ++ txt))
        ((exportedTypes o S).flatMap (defToks o) ++ ((exportedDirs S).flatMap (dirDefToks o) ++ schemaPartToks o S gs)) :=
    fun txt h1 => Lx_typeDefs_then o _ hL _ _ (Lx_dirDefs o _ hDs _ _ h1)
  cases hf : o.federation with
  | false =>
    have h1 := Lx_schema o S hq hm'
    have h3 := key _ (by simpa [schemaPartToks, hf] using h1)
    cases hmu : S.mutation with
    | none => simp only [hmu] at h3; simpa [exportSdlG, exportedTypes, exportedDirs, hf, hmu, List.append_assoc] using h3
    | some m => simp only [hmu] at h3; simpa [exportSdlG, exportedTypes, exportedDirs, hf, hmu, List.append_assoc] using h3
  | true =>
    cases hc : o.compose with
    | false =>
      have h1 := Lx_fedSchema o [] [] Lx.nil
      have h3 := key _ (by simpa [schemaPartToks, composePart, hf, hc] using h1)
      simpa [exportSdlG, exportedTypes, exportedDirs, hf, hc, List.append_assoc] using h3
    | true =>
      have h0 := Lx_groups o gs hgs [] [] Lx.nil
      have h1 := Lx_fedSchema o _ _ (Lx.ign (c := '\n') (by decide) h0)
      have h3 := key _ (by simpa [schemaPartToks, composePart, hf, hc] using h1)
      simpa [exportSdlG, exportedTypes, exportedDirs, hf, hc, List.append_assoc] using h3

/-- THE WHOLE DOCUMENT, every option set: for a well-formed schema (`schemaOk`; for a federation
    export also `federationOk`) the exported text — lexed by the specification's lexer, parsed by
    the reference parser — is the document `xDoc`, the compose blocks in any order `gs`. -/
theorem parse_xDoc (o : Opts) (S : Schema) (hS : schemaOk S = true) (hF : o.federation = true → federationOk S = true)
    (gs : List (Text × List Text)) (hgs : GroupsOk gs) :
    parseSchema (exportSdlG Defects.none S o gs) = some (xDoc o S gs) := by
  obtain ⟨hL, hDs⟩ := exported_wf o S hS hF
  have hlx := Lx_document o S hS hF gs hgs
  unfold docToks at hlx
  unfold parseSchema
  rw [hlx.tokens]
  simp only [parseTokens, xDoc]
  have hL1 : ∀ t ∈ exportedTypes o S, SkelType t := fun t ht => (hL t ht).1
  have hb1 := defs_le_toks o _ hL1
  have hb2 := dirDefsToks_length o (exportedDirs S)
  obtain ⟨hse, hsne, hsp⟩ := schemaPart o S gs
  have hfuel : ((exportedTypes o S).flatMap (defToks o) ++ ((exportedDirs S).flatMap (dirDefToks o) ++ schemaPartToks o S gs)).length + 1 =
      ((((exportedTypes o S).flatMap (defToks o)).length - ((exportedTypes o S).filterMap (xType o)).length +
        (((exportedDirs S).flatMap (dirDefToks o)).length - (exportedDirs S).length) +
        (schemaPartToks o S gs).length) + 1 + (exportedDirs S).length) + ((exportedTypes o S).filterMap (xType o)).length := by
    simp only [List.length_append]; omega
  rw [hfuel]
  have hR : DefEnd ((exportedDirs S).flatMap (dirDefToks o) ++ schemaPartToks o S gs) := dirDefsToks_end o _ _ hse
  rw [pDefs_toks_then o _ hL1 _ hR (by intro e; exact hsne (List.append_eq_nil_iff.mp e).2)]
  rw [pDefs_dirDefs_then o _ hDs _ hse hsne]
  rw [hsp _ (by omega)]
  simp

-- ------------------------------------------------------------------ the document `describe` requires

theorem startsDunder_eq (n : Text) : startsDunder n = startsWith2Underscores n := by
  unfold startsDunder startsWith2Underscores
  split <;> simp_all

/-- the types `describe` lists: those the exporter writes -/
theorem describedTypes (o : Opts) (S : Schema) (hS : schemaOk S = true) :
    ((sorted true TypeDef.name S.types).filter
      (fun t => !startsDunder t.name && !(o.federation && federationTypeNames.contains t.name))).filterMap
        (fun t => (dRoot o S.query t).bind (dType o)) =
    (exportedTypes o S).filterMap (dType o) := by
  have : sorted true TypeDef.name S.types = sortByName TypeDef.name S.types := rfl
  have hflt : (sortByName TypeDef.name S.types).filter
      (fun t => !startsDunder t.name && !(o.federation && federationTypeNames.contains t.name)) =
      (sortByName TypeDef.name S.types).filter (typeExported o) := by congr 1
  rw [this, hflt, exportedTypes, writtenTypes, List.filterMap_filterMap]
  simp only [schemaOk, Bool.and_eq_true, List.all_eq_true] at hS
  apply filterMap_congr'
  intro t ht
  rw [fedRoot_dRoot o S.query t (hS.1.2 t (List.mem_mergeSort.mp (List.mem_filter.mp ht).1))]

theorem describedDirs (S : Schema) :
    (sorted true (·.name) (allDirectives S)).filter
      (fun d => !builtinDirectiveNames.contains d.name || (presentOf S).contains d.name) = exportedDirs S := by
  have : sorted true (·.name) (allDirectives S) = allDirectives S := sorted_sortByName _ _
  rw [this, exportedDirs]
  congr 1
  funext d
  exact directive_filter S d

theorem filterMap_filter_none {α β : Type} (f : α → Option β) (q : α → Bool) :
    ∀ (L : List α), (∀ t ∈ L, q t = false → f t = none) → (L.filter q).filterMap f = L.filterMap f
  | [], _ => rfl
  | t :: L, h => by
    have ih := filterMap_filter_none f q L (fun x hx => h x (List.mem_cons_of_mem _ hx))
    cases hq : q t
    · simp [List.filter_cons, hq, List.filterMap_cons, h t List.mem_cons_self hq, ih]
    · simp [List.filter_cons, hq, List.filterMap_cons, ih]

theorem filterMap_map_congr {α β γ : Type} (f f' : α → Option β) (g : β → γ) :
    ∀ (L : List α), (∀ t ∈ L, (f t).map g = (f' t).map g) → (L.filterMap f).map g = (L.filterMap f').map g
  | [], _ => rfl
  | t :: L, h => by
    have ih := filterMap_map_congr f f' g L (fun x hx => h x (List.mem_cons_of_mem _ hx))
    have ht := h t List.mem_cons_self
    cases h1 : f t <;> cases h2 : f' t <;> simp [List.filterMap_cons, h1, h2, ih] <;> simp [h1, h2] at ht
    exact ht

theorem xType_plain (o : Opts) (ho : o.federation = false) (t : TypeDef) (ht : TypeAttrs (tdAttrs t)) : xType o t = dType o t := by
  have hfa : ∀ a : Attrs, fedApps o a = [] := by intro a; simp [fedApps, ho]
  have hxf : ∀ fs, xFields o fs = dFields o fs := by
    intro fs
    simp only [xFields, dFields]
    apply List.map_congr_left
    intro f _
    simp [xField, dField, fieldApps, dDirs_apps, itemApps, hfa]
  cases t with
  | scalar n a url =>
    simp only [xType, dType, isSystemScalar, systemScalars_builtin, typeApps, specApps,
      dDirs_type o a ht, hfa, List.nil_append, List.map_append]
    cases builtinScalars.contains n
    · cases o.specifiedBy <;> cases url <;> simp [dDir, SValue.toP]
    · rfl
  | object n a ext impls fs => simp [xType, dType, typeApps, dDirs_type o a ht, hfa, hxf]
  | interface n a ext impls fs => simp [xType, dType, typeApps, tdAttrs, dDirs_type o a ht, hfa, hxf]
  | union n a ms => simp [xType, dType, typeApps, tdAttrs, dDirs_type o a ht]
  | «enum» n a vs => simp [xType, dType, typeApps, tdAttrs, dDirs_type o a ht]
  | input n a oneof fs =>
    simp only [xType, dType, typeApps, dDirs_type o a ht, List.map_append]
    cases oneof <;> simp [dDir]

theorem typeAttrs_of_typeOk {t : TypeDef} (h : typeOk t = true) : TypeAttrs (tdAttrs t) := by
  have := typeOk_sound h
  cases t <;> first | exact this.2.1 | exact this.2

theorem typeAttrs_of_ok {S : Schema} (hS : schemaOk S = true) : ∀ t ∈ S.types, TypeAttrs (tdAttrs t) := by
  simp only [schemaOk, Bool.and_eq_true, List.all_eq_true] at hS
  intro t ht
  have := typeOk_sound (hS.1.2 t ht)
  cases t <;> first | exact this.2.1 | exact this.2

theorem xSchema_dSchema (o : Opts) (S : Schema) (gs : List (Text × List Text)) : xSchema o S gs = dSchema o S gs := by
  unfold xSchema dSchema composePart
  cases o.federation
  · rfl
  · simp only [if_true, fedUrl]
    cases o.compose
    · rfl
    · simp only [if_true, List.cons.injEq, true_and]
      apply List.map_congr_left
      intro g _
      simp only [xGroup, groupApps_dDir]

/-- for a plain export the document the text denotes IS the document `describe` requires -/
theorem xDoc_plain (o : Opts) (ho : o.federation = false) (S : Schema) (hS : schemaOk S = true) (gs : List (Text × List Text)) :
    xDoc o S gs = describe o S (allDirectives S) gs (presentOf S) := by
  have hta : ∀ t ∈ exportedTypes o S, TypeAttrs (tdAttrs t) := fun t ht => typeAttrs_of_typeOk (exported_ok o S hS t ht).1
  rw [describe, describedTypes o S hS, describedDirs, xDoc]
  have h2 : (exportedTypes o S).filterMap (xType o) = (exportedTypes o S).filterMap (dType o) := by
    have key : ∀ L : List TypeDef, (∀ t ∈ L, xType o t = dType o t) → L.filterMap (xType o) = L.filterMap (dType o) := by
      intro L hL
      induction L with
      | nil => rfl
      | cons t L ih =>
        simp only [List.filterMap_cons, hL t List.mem_cons_self, ih (fun x hx => hL x (List.mem_cons_of_mem _ hx))]
    exact key _ (fun t ht => xType_plain o ho t (hta t ht))
  rw [h2, xSchema_dSchema, List.append_assoc]

/-- for EVERY export the document the text denotes is the document `describe` requires up to the
    order of differently named directive applications (the comparison `cDoc` makes) -/
theorem xDoc_cDoc (o : Opts) (S : Schema) (hS : schemaOk S = true) (hF : o.federation = true → federationOk S = true)
    (gs : List (Text × List Text)) :
    cDoc (xDoc o S gs) = cDoc (describe o S (allDirectives S) gs (presentOf S)) := by
  cases hf : o.federation with
  | false => rw [xDoc_plain o hf S hS]
  | true =>
    have hfo := hF hf
    rw [describe, describedTypes o S hS, describedDirs, xDoc]
    have hB : ((exportedTypes o S).filterMap (xType o)).map cDef = ((exportedTypes o S).filterMap (dType o)).map cDef := by
      apply filterMap_map_congr
      intro t ht
      exact cDef_xType o t (typeAttrs_of_typeOk (exported_ok o S hS t ht).1) (fun _ => (exported_ok o S hS t ht).2 hfo)
    unfold cDoc
    rw [List.map_append, List.map_append, List.map_append, List.map_append, hB, xSchema_dSchema, List.append_assoc]

end AGV.Lemmas.SdlSkeleton
