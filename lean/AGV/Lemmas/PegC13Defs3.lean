/-
  Property C13: `fragment_definition`, `named_operation_definition`, `operation_definition`,
  `executable_definition` read by the interpreter, as token-level PEGs (`qDefinition`), and
  `parse_definition_item` on the emitted pair.
-/
import AGV.Lemmas.PegC13Defs2
namespace AGV.Lemmas.PegX
open AGV.Model.Peg AGV.Model.BuildAst AGV.Spec.Lex AGV.Core.PAst AGV.Lemmas.PegC13 AGV.Lemmas.SpecVal

def kwFragment : List Char := "fragment".toList
theorem kwFragment_mem : kwFragment ∈ kwList := by decide

def fragDefRule : Rule := ⟨"fragment_definition", .normal,
  .seq (kwLit kwFragment) (.seq (.neg (.ident "kw_on_only")) (.seq (.ident "name") (.seq (.ident "type_condition")
    (.seq (.opt (.ident "directives")) (.ident "selection_set")))))⟩
def namedOpRule : Rule := ⟨"named_operation_definition", .normal,
  .seq (.ident "operation_type") (.seq (.opt (.ident "name")) (.seq (.opt (.ident "variable_definitions"))
    (.seq (.opt (.ident "directives")) (.ident "selection_set"))))⟩
def opDefRule : Rule := ⟨"operation_definition", .normal,
  .choice (.ident "named_operation_definition") (.ident "selection_set")⟩
def exDefRule : Rule := ⟨"executable_definition", .normal,
  .choice (.ident "operation_definition") (.ident "fragment_definition")⟩

set_option maxRecDepth 8000 in
theorem def_rules : RuleOk "fragment_definition" fragDefRule ∧ RuleOk "named_operation_definition" namedOpRule ∧
    RuleOk "operation_definition" opDefRule ∧ RuleOk "executable_definition" exDefRule :=
  ⟨⟨by rfl, by decide, by decide, by rfl, rfl, by decide⟩, ⟨by rfl, by decide, by decide, by rfl, rfl, by decide⟩,
   ⟨by rfl, by decide, by decide, by rfl, rfl, by decide⟩, ⟨by rfl, by decide, by decide, by rfl, rfl, by decide⟩⟩

def mkFrag (x : Unit × Unit × Name × Name × Option (List PDirective) × List PSel) : PDef :=
  .frag x.2.2.1 ⟨x.2.2.2.1, x.2.2.2.2.1.getD [], x.2.2.2.2.2⟩

/-- `fragment !on name on name directives? selection_set` -/
def qFragDef (n : Nat) : Sim PDef :=
  tMap mkFrag (tSeq (tKw kwFragment) (tSeq (tNot (tKw onKw)) (tSeq AGV.Spec.Parse.pName (tSeq qTypeCond
    (tSeq (tOpt (qDirectives false)) (qSelSet n))))))

def mkOp (x : OpType × Option Name × Option (List PVarDef) × Option (List PDirective) × List PSel) : PDef :=
  .op x.2.1 ⟨x.1, x.2.2.1.getD [], x.2.2.2.1.getD [], x.2.2.2.2⟩

/-- `operation_type name? variable_definitions? directives? selection_set` -/
def qNamedOp (n : Nat) : Sim PDef :=
  tMap mkOp (tSeq qOpType (tSeq (tOpt AGV.Spec.Parse.pName) (tSeq (tOpt (qVarDefs n)) (tSeq (tOpt (qDirectives false)) (qSelSet n)))))

def qAnonOp (n : Nat) : Sim PDef := tMap (fun ss => PDef.op none ⟨.query, [], [], ss⟩) (qSelSet n)

def qDefinition (n : Nat) : Sim PDef := tOr (tOr (qNamedOp n) (qAnonOp n)) (qFragDef n)

def okDef (d : PDef) : Bool := finDef d && decide (dDef d ≤ maxDepth)

def bDef : Bld PDef := fun s₀ ps d =>
  ∃ pr, ps = [pr] ∧ pr.rule = "executable_definition" ∧ Exp (buildDefinition (envOf s₀) pr) (okDef d) (normDef d)

/-- the pair inside an `operation_definition` pair -/
def bOpAlt : Bld PDef := fun s₀ ps d =>
  ∃ o, ps = [o] ∧ ∀ p p1 p' p1',
    Exp (buildDefinition (envOf s₀) (Pair.mk "executable_definition" p p1 [Pair.mk "operation_definition" p' p1' [o]]))
      (okDef d) (normDef d)

/-- the pair inside an `executable_definition` pair -/
def bDefAlt : Bld PDef := fun s₀ ps d =>
  ∃ c, ps = [c] ∧ ∀ p p1,
    Exp (buildDefinition (envOf s₀) (Pair.mk "executable_definition" p p1 [c])) (okDef d) (normDef d)

/-- the builder's fuel (text length + 8) exceeds the nesting of a selection set read from the text -/
theorem topSS_of {s₀ : List Char} {q : Nat} {t : List Char} (hat : At s₀ q t) {n : Nat} {ts r : List Tok} {ss : List PSel}
    (hts : ts.length ≤ (toks t).length) (hq : qSelSet n ts = some (ss, r)) {ps : List Pair} (hb : bSelSet s₀ ps ss) :
    ∃ sp, ps = [sp] ∧ topSS s₀ sp ss (finSels ss && decide (dSels ss ≤ maxDepth)) := by
  obtain ⟨sp, rfl, hr, -, hbuild⟩ := hb
  refine ⟨sp, rfl, hr, hbuild _ _ ?_⟩
  have d1 := qSelSet_depth _ _ _ _ hq
  have d2 := toks_length_le t.length t (Nat.le_refl _)
  have d3 := hat.len
  simp only [fuelOf, envOf, List.size_toArray]
  omega

theorem reads_anonOp (L : Nat) : Reads L (.ident "selection_set") 100 (qAnonOp L) bOpAlt := by
  refine Reads.convT (fun ss => PDef.op none ⟨.query, [], [], ss⟩) (reads_selSet L) (fun _ => rfl) ?_
  rintro s₀ q t ps ss r hat hq hb
  obtain ⟨sp, rfl, hS⟩ := topSS_of hat (Nat.le_refl _) hq hb
  refine ⟨sp, rfl, fun p p1 p' p1' => ?_⟩
  refine (anon_build s₀ p p1 p' p1' sp ss _ hS).cast ?_ rfl
  simp only [okDef, finDef, dDef, AGV.Spec.Parse.defSels, finDs, List.all_nil, Bool.true_and]
  rfl

theorem mono_tSeq_some {α β : Type} {qa : Sim α} {qb : Sim β} (ha : Mono qa) {ts r : List Tok} {x : α × β}
    (h : tSeq qa qb ts = some (x, r)) : ∃ r1, r1.length ≤ ts.length ∧ qb r1 = some (x.2, r) := by
  obtain ⟨r1, h1, h2⟩ := tSeq_some h
  exact ⟨r1, ha _ _ _ h1, h2⟩

theorem reads_namedOp (L : Nat) : Reads L (.ident "named_operation_definition") 110 (qNamedOp L) bOpAlt := by
  have hbody := Reads.seq (reads_opType L) (Reads.seq (Reads.opt (Reads.name L 8 (Nat.le_refl _)) (K := 9) (by omega))
    (Reads.seq (Reads.opt (reads_vardefs L) (K := 81) (by omega))
      (Reads.seq (Reads.opt (reads_directives famV (Or.inl rfl) L) (K := 53) (by omega)) (reads_selSet L)
        (K := 101) (by omega) (by omega) (by omega)) (K := 102) (by omega) (by omega) (by omega))
      (K := 103) (by omega) (by omega) (by omega)) (K := 104) (by omega) (by omega) (by omega)
  have hrule := Reads.rule def_rules.2.1 (r := namedOpRule) hbody (K := 110) (by omega)
  refine Reads.convT mkOp hrule (fun _ => rfl) ?_
  rintro s₀ q t ps ⟨ty, on, ovs, ods, ss⟩ r hat hq ⟨p, p1, inner, rfl, ps1, ps2, rfl, ⟨tp, rfl, htr, hty⟩, ps3, ps4, rfl, h3,
    ps5, ps6, rfl, h5, ps7, ps8, rfl, h7, h8⟩
  obtain ⟨r1, m1, g1⟩ := mono_tSeq_some strict_qOpType.mono hq
  obtain ⟨r2, m2, g2⟩ := mono_tSeq_some (mono_opt strict_pName.mono) g1
  obtain ⟨r3, m3, g3⟩ := mono_tSeq_some (mono_opt (strict_qVarDefs L).mono) g2
  obtain ⟨r4, m4, g4⟩ := mono_tSeq_some (mono_opt (strict_rep1 (strict_qDirective false)).mono) g3
  obtain ⟨sp, rfl, hS⟩ := topSS_of hat (by omega) g4 h8
  refine ⟨_, rfl, fun p' p1' p'' p1'' => ?_⟩
  refine (named_build s₀ p' p1' p'' p1'' p p1 tp ps3 ps5 ps7 sp ty on ovs ods ss _ ⟨htr, hty⟩ h3 h5 h7 hS).cast ?_ rfl
  simp only [okDef, mkOp, finDef, dDef, AGV.Spec.Parse.defSels, Bool.and_assoc]
  rfl

theorem reads_fragDef (L : Nat) : Reads L (.ident "fragment_definition") 110 (qFragDef L) bDefAlt := by
  have hbody := Reads.seq (Reads.kw L kwFragment kwFragment_mem 19 (Nat.le_refl _)) (Reads.seq (reads_notOn L)
    (Reads.seq (Reads.name L 8 (Nat.le_refl _)) (Reads.seq (reads_typeCond L)
      (Reads.seq (Reads.opt (reads_directives famV (Or.inl rfl) L) (K := 53) (by omega)) (reads_selSet L)
        (K := 101) (by omega) (by omega) (by omega)) (K := 102) (by omega) (by omega) (by omega))
      (K := 103) (by omega) (by omega) (by omega)) (K := 104) (by omega) (by omega) (by omega))
      (K := 105) (by omega) (by omega) (by omega)
  have hrule := Reads.rule def_rules.1 (r := fragDefRule) hbody (K := 110) (by omega)
  refine Reads.convT mkFrag hrule (fun _ => rfl) ?_
  rintro s₀ q t ps ⟨⟨⟩, ⟨⟩, n, tc, ods, ss⟩ r hat hq ⟨p, p1, inner, rfl, ps1, ps2, rfl, h1, ps3, ps4, rfl, h3,
    ps5, ps6, rfl, ⟨a, b, rfl, hn⟩, ps7, ps8, rfl, ⟨tcp, rfl, -, htc⟩, ps9, ps10, rfl, h9, h10⟩
  simp only [bNil] at h1 h3
  subst h1 h3
  obtain ⟨r1, m1, g1⟩ := mono_tSeq_some (strict_kw kwFragment).mono hq
  obtain ⟨r2, m2, g2⟩ := mono_tSeq_some (mono_not _) g1
  obtain ⟨r3, m3, g3⟩ := mono_tSeq_some strict_pName.mono g2
  obtain ⟨r4, m4, g4⟩ := mono_tSeq_some strict_qTypeCond.mono g3
  obtain ⟨r5, m5, g5⟩ := mono_tSeq_some (mono_opt (strict_rep1 (strict_qDirective false)).mono) g4
  obtain ⟨sp, rfl, hS⟩ := topSS_of hat (by omega) g5 h10
  refine ⟨_, rfl, fun p' p1' => ?_⟩
  simp only [List.nil_append, List.cons_append]
  refine (frag_build s₀ p' p1' p p1 a b tcp ps9 sp n tc ods ss _ hn htc h9 hS).cast ?_ rfl
  simp only [okDef, mkFrag, finDef, dDef, AGV.Spec.Parse.defSels, Bool.and_assoc]
  rfl

theorem reads_definition (L : Nat) : Reads L (.ident "executable_definition") 120 (qDefinition L) bDef := by
  have hop : Reads L (.ident "operation_definition") 114 (tOr (qNamedOp L) (qAnonOp L)) bDefAlt := by
    have hbody := Reads.choice (reads_namedOp L) (reads_anonOp L) (K := 111) (by omega) (by omega)
    refine Reads.weaken (Reads.rule def_rules.2.2.1 (r := opDefRule) hbody (K := 114) (by omega)) ?_
    rintro s₀ ps d ⟨p, p1, inner, rfl, o, rfl, ho⟩
    exact ⟨_, rfl, fun p' p1' => ho p' p1' p p1⟩
  have hbody := Reads.choice hop (reads_fragDef L) (K := 115) (by omega) (by omega)
  refine Reads.weaken (Reads.rule def_rules.2.2.2 (r := exDefRule) hbody (K := 120) (by omega)) ?_
  rintro s₀ ps d ⟨p, p1, inner, rfl, c, rfl, hc⟩
  exact ⟨_, rfl, rfl, hc p p1⟩
end AGV.Lemmas.PegX
