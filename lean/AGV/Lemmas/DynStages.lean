import AGV.Lemmas.DynCheck
/-
  C33 — every stage of `SchemaInner::check` (toggle-free model) as a statement about the
  reference's name resolution and clauses.
-/
namespace AGV.Lemmas.DynStages
open AGV.Model.DynCheck AGV.Lemmas.DynCheck
open AGV.Spec.TypeSystem


theorem isOutputType_eq (t : TypeDef) : t.isOutputType = isOutput t := by cases t <;> rfl
theorem isInputType_eq (t : TypeDef) : t.isInputType = isInput t := by cases t <;> rfl
theorem reserved_eq (s : String) : reserved s = reservedName s := rfl

theorem namesOutput_iff (T : TypeSystem) (ty : TypeRef) : namesOutput T ty = true ↔
    (getType (allTypes T) ty.typeName).isSome = true ∧
    ∀ t, getType (allTypes T) ty.typeName = some t → t.isOutputType = true := by
  rw [getType_allTypes, namesOutput]
  cases lookup T ty.typeName <;> simp [isOutputType_eq]

theorem namesInput_iff (T : TypeSystem) (ty : TypeRef) : namesInput T ty = true ↔
    (getType (allTypes T) ty.typeName).isSome = true ∧
    ∀ t, getType (allTypes T) ty.typeName = some t → t.isInputType = true := by
  rw [getType_allTypes, namesInput]
  cases lookup T ty.typeName <;> simp [isInputType_eq]

theorem checkArgs_ok_iff (types : List TypeDef) (owner fieldName : String) (args : List InputValue) :
    checkArgs types owner fieldName args = .ok () ↔
    ∀ a ∈ args, reserved a.name = false ∧ ∀ t, getType types a.ty.typeName = some t → t.isInputType = true := by
  unfold checkArgs
  rw [forEach_ok_iff]
  apply forall_congr'; intro a
  apply imp_congr_right; intro _
  cases reserved a.name <;> cases getType types a.ty.typeName <;> simp

theorem checkField_ok_iff (types : List TypeDef) (owner : String) (field : Field) :
    checkField types owner field = .ok () ↔
    reserved field.name = false ∧ (∀ t, getType types field.ty.typeName = some t → t.isOutputType = true) ∧
    ∀ a ∈ field.args, reserved a.name = false ∧ ∀ t, getType types a.ty.typeName = some t → t.isInputType = true := by
  unfold checkField
  rw [← checkArgs_ok_iff types owner field.name]
  cases reserved field.name <;> cases getType types field.ty.typeName <;> simp
  rename_i t
  cases t.isOutputType <;> simp

theorem checkInputField_ok_iff (types : List TypeDef) (owner : String) (oneof : Bool) (field : InputValue) :
    checkInputField types owner oneof field = .ok () ↔
    reserved field.name = false ∧ (∀ t, getType types field.ty.typeName = some t → t.isInputType = true) ∧
    (oneof = true → field.ty.isNullable = true ∧ field.hasDefault = false) := by
  unfold checkInputField
  cases reserved field.name <;> cases getType types field.ty.typeName <;> simp
  · cases oneof <;> cases field.ty.isNullable <;> cases field.hasDefault <;> simp
  · rename_i t
    cases t.isInputType <;> cases oneof <;> cases field.ty.isNullable <;> cases field.hasDefault <;> simp



theorem namedSubtype_eq (T : TypeSystem) (sup sub : String) :
    namedSubtype {} (allTypes T) sup sub = namedCovariant T sub sup := by
  unfold namedSubtype namedCovariant
  rw [getType_allTypes, getType_allTypes, BEq.comm (a := sup)]
  congr 1
  cases h1 : lookup T sup with
  | none => cases h2 : lookup T sub with
    | none => simp
    | some t2 => cases t2 <;> simp
  | some t1 => cases h2 : lookup T sub with
    | none => cases t1 <;> simp
    | some t2 => cases t1 <;> cases t2 <;> simp

theorem fieldTypeOk_eq (T : TypeSystem) (implTy ifaceTy : TypeRef) :
    fieldTypeOk {} (allTypes T) implTy ifaceTy = validImplFieldType (namedCovariant T) implTy ifaceTy := by
  unfold fieldTypeOk
  simp only [Bool.false_eq_true, if_false]
  rw [subtype_spec]
  congr 1
  funext f i
  exact namedSubtype_eq T i f

theorem checkImplArgs_ok_iff (implName ifaceName fieldName : String) (implArgs ifaceArgs : List InputValue) :
    checkImplArgs {} implName ifaceName fieldName implArgs ifaceArgs = .ok () ↔
    ifaceArgs.all (fun a => (implArgs.find? (fun b => b.name == a.name)).any (fun b => b.ty == a.ty)) = true := by
  unfold checkImplArgs
  rw [forEach_ok_iff, List.all_eq_true]
  apply forall_congr'; intro a
  apply imp_congr_right; intro _
  unfold findArg
  cases List.find? (fun b => b.name == a.name) implArgs with
  | none => simp
  | some b =>
    simp only [Bool.false_eq_true, if_false, Option.any_some]
    by_cases h : a.ty = b.ty
    · simp [h]
    · have : ¬ b.ty = a.ty := fun e => h e.symm
      simp [h, this]

theorem checkExtraArgs_ok_iff (implName ifaceName fieldName : String) (ifaceArgs implArgs : List InputValue) :
    checkExtraArgs {} implName ifaceName fieldName ifaceArgs implArgs = .ok () ↔
    implArgs.all (fun b => (ifaceArgs.find? (fun a => a.name == b.name)).isSome || !required b) = true := by
  unfold checkExtraArgs
  rw [forEach_ok_iff, List.all_eq_true]
  apply forall_congr'; intro b
  apply imp_congr_right; intro _
  unfold findArg required
  cases List.find? (fun a => a.name == b.name) ifaceArgs <;> cases b.ty.isNullable <;> cases b.hasDefault <;> simp

theorem checkIsValidImplementation_ok_iff (T : TypeSystem) (kind implName : String) (implFields : List Field)
    (ifaceName : String) (ifaceFields : List Field) :
    checkIsValidImplementation {} (allTypes T) kind implName implFields ifaceName ifaceFields = .ok () ↔
    ifaceFields.all (fieldImplemented T implFields) = true := by
  unfold checkIsValidImplementation
  rw [forEach_ok_iff, List.all_eq_true]
  apply forall_congr'; intro fld
  apply imp_congr_right; intro _
  unfold fieldImplemented findField
  cases List.find? (fun f => f.name == fld.name) implFields with
  | none => simp
  | some f =>
    simp only [Bool.and_eq_true]
    rw [← checkImplArgs_ok_iff implName ifaceName fld.name, ← checkExtraArgs_ok_iff implName ifaceName fld.name,
      ← fieldTypeOk_eq]
    cases checkImplArgs {} implName ifaceName fld.name f.args fld.args with
    | error e => simp
    | ok u =>
      cases u
      cases checkExtraArgs {} implName ifaceName fld.name fld.args f.args with
      | error e => simp
      | ok u => cases u; cases fieldTypeOk {} (allTypes T) f.ty fld.ty <;> simp

theorem checkImplements_ok_iff (T : TypeSystem) (kind name : String) (fields : List Field) (impls : List String) :
    checkImplements {} (allTypes T) kind name fields impls = .ok () ↔
    ∀ i ∈ impls, ∀ t, lookup T i = some t →
      ∃ n is ifs, t = .interface n is ifs ∧ ifs.all (fieldImplemented T fields) = true := by
  unfold checkImplements
  rw [forEach_ok_iff]
  apply forall_congr'; intro i
  apply imp_congr_right; intro _
  rw [getType_allTypes]
  cases lookup T i with
  | none => simp
  | some t =>
    cases t <;> simp [checkIsValidImplementation_ok_iff]
    constructor
    · intro h; exact ⟨_, _, _, ⟨rfl, rfl, rfl⟩, h⟩
    · rintro ⟨_, _, _, ⟨rfl, rfl, rfl⟩, h⟩; exact h



theorem pairwiseDistinct_iff (l : List String) : pairwiseDistinct l = true ↔ l.Nodup := by
  induction l with
  | nil => simp [pairwiseDistinct]
  | cons x xs ih => simp [pairwiseDistinct, ih, List.nodup_cons]

theorem register_ok_iff (seen : List String) (ts : List TypeDef) :
    register seen ts = .ok () ↔ (∀ t ∈ ts, t.name ∉ seen) ∧ (ts.map (·.name)).Nodup := by
  induction ts generalizing seen with
  | nil => simp [register]
  | cons t ts ih =>
    simp only [register]
    by_cases h : seen.contains t.name = true
    · simp only [h, if_true]
      simp at h
      simp [h]
    · simp only [h, if_false, Bool.false_eq_true]
      rw [ih]
      simp only [List.contains_eq_mem, decide_eq_true_eq] at h
      simp only [List.mem_cons, forall_eq_or_imp, List.map_cons, List.nodup_cons, List.mem_map, not_or]
      constructor
      · rintro ⟨h1, h2⟩
        refine ⟨⟨h, fun a ha => (h1 a ha).2⟩, ?_, h2⟩
        rintro ⟨a, ha, hat⟩
        exact (h1 a ha).1 hat
      · rintro ⟨⟨_, h1⟩, h2, h3⟩
        refine ⟨fun a ha => ⟨fun e => h2 ⟨a, ha, e⟩, h1 a ha⟩, h3⟩

theorem find_self (ts : List TypeDef) (hn : (ts.map (·.name)).Nodup) (t : TypeDef) (ht : t ∈ ts) :
    ts.find? (fun x => x.name == t.name) = some t := by
  induction ts with
  | nil => simp at ht
  | cons x xs ih =>
    simp only [List.map_cons, List.nodup_cons, List.mem_map, not_exists, not_and] at hn
    simp only [List.mem_cons] at ht
    rcases ht with rfl | ht
    · simp
    · have : ¬ x.name = t.name := fun e => hn.1 t ht e.symm
      simp [this, ih hn.2 ht]

theorem lookup_self (T : TypeSystem) (hn : (T.types.map (·.name)).Nodup) (t : TypeDef) (ht : t ∈ T.types) :
    lookup T t.name = some t := by
  unfold lookup
  rw [find_self T.types hn t ht]

/-- the names a registered type refers to, as `check_types_exists` walks them -/
def refNames : TypeDef → List String
  | .object _ impls fs => fieldTypeNames fs ++ impls
  | .inputObject _ _ fs => fs.map (fun (f : InputValue) => f.ty.typeName)
  | .interface _ _ fs => fieldTypeNames fs
  | .union _ ms => ms
  | .subscription _ fs => fieldTypeNames fs
  | _ => []

theorem forEach_allTypes (f : TypeDef → R) (T : TypeSystem) (hs : ∀ s, f (.scalar s) = .ok ()) :
    forEach f (allTypes T) = .ok () ↔ ∀ t ∈ T.types, f t = .ok () := by
  rw [forEach_ok_iff]
  simp only [allTypes, List.mem_append, builtinScalars, List.mem_map]
  constructor
  · intro h t ht; exact h t (Or.inl ht)
  · intro h t ht
    rcases ht with ht | ⟨s, _, rfl⟩
    · exact h t ht
    · exact hs s

theorem checkTypesExists_ok_iff (T : TypeSystem) :
    checkTypesExists {} T (allTypes T) = .ok () ↔
    (∀ n ∈ [T.query] ++ T.mutation.toList ++ T.subscription.toList, (lookup T n).isSome = true) ∧
    ∀ t ∈ T.types, ∀ n ∈ refNames t, (lookup T n).isSome = true := by
  unfold checkTypesExists
  simp only [Bool.false_eq_true, if_false]
  have key : ∀ names, existsCheck (allTypes T) names = .ok () ↔ ∀ n ∈ names, (lookup T n).isSome = true := by
    intro names; rw [existsCheck_ok_iff]; simp only [getType_allTypes]
  cases h : existsCheck (allTypes T) ([T.query] ++ T.mutation.toList ++ T.subscription.toList) with
  | error e =>
    have : ¬ (∀ n ∈ [T.query] ++ T.mutation.toList ++ T.subscription.toList, (lookup T n).isSome = true) := by
      rw [← key, h]; simp
    simp only [this, false_and]; simp
  | ok u =>
    cases u
    have h1 := (key _).1 h
    rw [and_iff_right h1]
    rw [forEach_allTypes _ _ (by intro s; rfl)]
    apply forall_congr'; intro t
    apply imp_congr_right; intro _
    cases t <;> simp only [key, refNames] <;> simp

theorem bind_forall (o : Option String) (lk : String → Option TypeDef) (P : TypeDef → Prop) :
    (∀ m, o = some m → ∀ t, lk m = some t → P t) ↔ ∀ t, o.bind lk = some t → P t := by
  cases o <;> simp

theorem checkRootTypes_ok_iff (T : TypeSystem) :
    checkRootTypes T (allTypes T) = .ok () ↔
    (∀ t, lookup T T.query = some t → t.isObject = true) ∧
    (∀ m, T.mutation = some m → ∀ t, lookup T m = some t → t.isObject = true) ∧
    (∀ s, T.subscription = some s → ∀ t, lookup T s = some t → t.isSubscription = true) := by
  unfold checkRootTypes checkRootTypes.rest
  simp only [getType_allTypes]
  have hm : ∀ o : Option String, o.bind (getType (allTypes T)) = o.bind (lookup T) := by
    intro o; cases o <;> simp [getType_allTypes]
  simp only [hm]
  rw [bind_forall T.mutation, bind_forall T.subscription]
  generalize lookup T T.query = qo
  generalize T.mutation.bind (lookup T) = mo
  generalize T.subscription.bind (lookup T) = so
  rcases qo with _ | tq <;> rcases mo with _ | tm <;> rcases so with _ | ts
  all_goals (try (cases h1 : tq.isObject)) <;> (try (cases h2 : tm.isObject)) <;> (try (cases h3 : ts.isSubscription)) <;> simp_all


theorem checkObjects_ok_iff (T : TypeSystem) :
    checkObjects {} (allTypes T) = .ok () ↔
    ∀ name impls fields, TypeDef.object name impls fields ∈ T.types →
      fields.isEmpty = false ∧ (∀ f ∈ fields, checkField (allTypes T) name f = .ok ()) ∧
      checkImplements {} (allTypes T) "Object" name fields impls = .ok () := by
  unfold checkObjects
  rw [forEach_allTypes _ _ (by intro s; rfl)]
  constructor
  · intro h name impls fields hm
    have := h _ hm
    simp only at this
    cases he : fields.isEmpty with
    | true => simp [he] at this
    | false =>
      simp only [he, Bool.false_eq_true, if_false] at this
      cases hf : forEach (checkField (allTypes T) name) fields with
      | error e => simp [hf] at this
      | ok u => cases u; simp only [hf] at this; exact ⟨rfl, (forEach_ok_iff _ _).1 hf, this⟩
  · intro h t ht
    cases t with
    | object name impls fields =>
      obtain ⟨h1, h2, h3⟩ := h name impls fields ht
      simp only [h1, Bool.false_eq_true, if_false, (forEach_ok_iff _ _).2 h2, h3]
    | _ => rfl

theorem checkInputObjects_ok_iff (T : TypeSystem) :
    checkInputObjects (allTypes T) = .ok () ↔
    ∀ name oneof fields, TypeDef.inputObject name oneof fields ∈ T.types →
      (∀ f ∈ fields, checkInputField (allTypes T) name oneof f = .ok ()) ∧
      refCheck (allTypes T) name ((allTypes T).length + 1) [] fields = .ok () := by
  unfold checkInputObjects
  rw [forEach_allTypes _ _ (by intro s; rfl)]
  constructor
  · intro h name oneof fields hm
    have := h _ hm
    simp only at this
    cases hf : forEach (checkInputField (allTypes T) name oneof) fields with
    | error e => simp [hf] at this
    | ok u => cases u; simp only [hf] at this; exact ⟨(forEach_ok_iff _ _).1 hf, this⟩
  · intro h t ht
    cases t with
    | inputObject name oneof fields =>
      obtain ⟨h2, h3⟩ := h name oneof fields ht
      simp only [(forEach_ok_iff _ _).2 h2, h3]
    | _ => rfl

theorem checkInterfaces_ok_iff (T : TypeSystem) :
    checkInterfaces {} (allTypes T) = .ok () ↔
    ∀ name impls fields, TypeDef.interface name impls fields ∈ T.types →
      (∀ f ∈ fields, checkField (allTypes T) name f = .ok ()) ∧ impls.contains name = false ∧
      checkImplements {} (allTypes T) "Interface" name fields impls = .ok () := by
  unfold checkInterfaces
  rw [forEach_allTypes _ _ (by intro s; rfl)]
  constructor
  · intro h name impls fields hm
    have := h _ hm
    simp only [Bool.false_eq_true, if_false] at this
    cases hf : forEach (checkField (allTypes T) name) fields with
    | error e => simp [hf] at this
    | ok u =>
      cases u; simp only [hf] at this
      cases hc : impls.contains name with
      | true => rw [hc] at this; simp at this
      | false =>
        rw [hc] at this
        exact ⟨(forEach_ok_iff _ _).1 hf, rfl, by simpa using this⟩
  · intro h t ht
    cases t with
    | interface name impls fields =>
      obtain ⟨h1, h2, h3⟩ := h name impls fields ht
      simp only [Bool.false_eq_true, if_false, (forEach_ok_iff _ _).2 h1, h2, h3]
    | _ => rfl

theorem checkUnions_ok_iff (T : TypeSystem) :
    checkUnions (allTypes T) = .ok () ↔
    ∀ name ms, TypeDef.union name ms ∈ T.types → ∀ m ∈ ms, ∀ t, lookup T m = some t → t.isObject = true := by
  unfold checkUnions
  rw [forEach_allTypes _ _ (by intro s; rfl)]
  constructor
  · intro h name ms hm m hmm t hl
    have := h _ hm
    simp only [forEach_ok_iff] at this
    have := this m hmm
    rw [getType_allTypes, hl] at this
    cases hi : t.isObject with
    | true => rfl
    | false => simp [hi] at this
  · intro h t ht
    cases t with
    | union name ms =>
      simp only [forEach_ok_iff]
      intro m hm
      rw [getType_allTypes]
      cases hl : lookup T m with
      | none => rfl
      | some t => simp [h name ms ht m hm t hl]
    | _ => rfl

theorem checkSubscriptions_ok_iff (T : TypeSystem) :
    checkSubscriptions {} (allTypes T) = .ok () ↔
    ∀ name fields, TypeDef.subscription name fields ∈ T.types → ∀ f ∈ fields, checkField (allTypes T) name f = .ok () := by
  unfold checkSubscriptions
  simp only [Bool.false_eq_true, if_false]
  rw [forEach_allTypes _ _ (by intro s; rfl)]
  constructor
  · intro h name fields hm
    exact (forEach_ok_iff _ _).1 (h _ hm)
  · intro h t ht
    cases t with
    | subscription name fields => exact (forEach_ok_iff _ _).2 (h name fields ht)
    | _ => rfl

end AGV.Lemmas.DynStages
