/-
  C09 — which message kinds each stateful rule of Model/Validate.lean can report (so that membership
  of a kind in `strictErrors` reduces to membership in the output of the one rule that owns it).
-/
import AGV.Lemmas.ValidateStateless
namespace AGV.Lemmas.ValidateRanges
open AGV.Core AGV.Model.Validate

theorem range_argsCorrect (S : VSchema) (vars opName cur unsel evs) (k : Model.Validate.Kind) :
    k ∈ ruleArgsCorrect S {} vars opName cur unsel evs → k = .argInvalid := by
  fun_induction ruleArgsCorrect S {} vars opName cur unsel evs <;> grind

theorem range_knownArgs (S : VSchema) (D : Defects) (cur evs) (k : Model.Validate.Kind) :
    k ∈ ruleKnownArgs S D cur evs → k = .unknownArgDir ∨ k = .unknownArgField := by
  fun_induction ruleKnownArgs S D cur evs <;> grind

theorem range_uniqueArgs (seen evs) (k : Model.Validate.Kind) :
    k ∈ ruleUniqueArgs seen evs → k = .dupArg := by
  fun_induction ruleUniqueArgs seen evs <;> grind

theorem range_uniqueVars (seen evs) (k : Model.Validate.Kind) :
    k ∈ ruleUniqueVars seen evs → k = .dupVar := by
  fun_induction ruleUniqueVars seen evs <;> grind

theorem range_knownDirs (S : VSchema) (stk evs) (k : Model.Validate.Kind) :
    k ∈ ruleKnownDirs S stk evs → k = .dirMisplaced ∨ k = .unknownDirective := by
  fun_induction ruleKnownDirs S stk evs <;> grind

theorem range_cycles (d tbl) (k : Model.Validate.Kind) : k ∈ ruleCycles d tbl → k = .cycle := by
  unfold ruleCycles; grind
theorem range_unusedFrags (d tbl) (k : Model.Validate.Kind) : k ∈ ruleUnusedFrags d tbl → k = .unusedFragment := by
  unfold ruleUnusedFrags; grind
theorem range_undefinedVars (d tbl) (k : Model.Validate.Kind) :
    k ∈ ruleUndefinedVars d tbl → k = .undefVarOp ∨ k = .undefVar := by
  simp only [ruleUndefinedVars, List.mem_flatMap]; grind
theorem range_unusedVars (d tbl) (k : Model.Validate.Kind) :
    k ∈ ruleUnusedVars d tbl → k = .unusedVarOp ∨ k = .unusedVar := by
  simp only [ruleUnusedVars, List.mem_flatMap]; grind
theorem range_varPositions (D d tbl) (k : Model.Validate.Kind) : k ∈ ruleVarPositions D d tbl → k = .varPosition := by
  simp only [ruleVarPositions, List.mem_flatMap]; grind


def ConflictOnly (st : FCState) : Prop :=
  ∀ k ∈ st.errs, k = Kind.conflictFields ∨ k = Kind.conflictArgsLen ∨ k = Kind.conflictArgsVal

theorem addOutput_conflictOnly (st cond key name args) (h : ConflictOnly st) : ConflictOnly (addOutput st cond key name args) := by
  unfold addOutput ConflictOnly at *
  split
  · simp only [List.mem_append]; grind
  · exact h

theorem foldl_inv {α β} (P : β → Prop) (f : β → α → β) (l : List α) (b : β) (hb : P b)
    (hf : ∀ b a, P b → P (f b a)) : P (l.foldl f b) := by
  induction l generalizing b with
  | nil => exact hb
  | cons a l ih => exact ih _ (hf _ _ hb)

theorem findConflicts_conflictOnly (d : Doc) (u : Bool) (fuel cond sels st) (h : ConflictOnly st) :
    ConflictOnly (findConflicts d u fuel cond sels st) := by
  induction fuel generalizing cond sels st with
  | zero => simpa [findConflicts] using h
  | succ n ih =>
    rw [findConflicts]
    apply foldl_inv ConflictOnly _ _ _ h
    intro b a hb
    split
    · exact addOutput_conflictOnly _ _ _ _ _ hb
    · exact ih _ _ _ hb
    · split
      · split
        · exact hb
        · exact ih _ _ _ (by simpa [ConflictOnly] using hb)
      · exact hb

theorem range_overlap (D : Defects) (d evs) (k : Model.Validate.Kind) :
    k ∈ ruleOverlap D d evs → k = .conflictFields ∨ k = .conflictArgsLen ∨ k = .conflictArgsVal := by
  simp only [ruleOverlap, List.mem_flatMap]
  rintro ⟨e, _, h⟩
  split at h
  · exact findConflicts_conflictOnly d _ _ _ _ _ (by simp [ConflictOnly]) k h
  · simp at h

end AGV.Lemmas.ValidateRanges
