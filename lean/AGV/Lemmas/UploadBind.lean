import AGV.Model.UploadBind
import AGV.Spec.UploadBind

/- Helper lemmas for C24 (core tactics only). -/
namespace AGV.Lemmas.UploadBind
open AGV.Spec.UploadBind
open AGV.Model.UploadBind

theorem splitDot_ne_nil (s : Str) : splitDot s ≠ [] := by
  induction s with
  | nil => simp [splitDot]
  | cons c cs ih =>
    simp only [splitDot]
    split
    · simp
    · split <;> simp

theorem getKey_setKey {β : Type} (k : Str) (x v : β) (kvs : List (Str × β)) (h : getKey k kvs = some v) :
    getKey k (setKey k x kvs) = some x := by
  induction kvs with
  | nil => simp [getKey] at h
  | cons kv r ih =>
    obtain ⟨k', v'⟩ := kv
    by_cases hk : k' = k
    · simp [setKey, getKey, hk]
    · simp [getKey, hk] at h
      simp [setKey, getKey, hk, ih h]

/-- reading back along the path that was just written yields what was written -/
theorem getAt_setAt {α : Type} (x : T α) (v : T α) (ps : List Str) (v' : T α)
    (h : setAt x v ps = some v') : getAt v' ps = some x := by
  induction ps generalizing v v' with
  | nil => simp [setAt] at h; subst h; simp [getAt]
  | cons p ps ih =>
    cases v with
    | arr xs =>
      simp only [setAt] at h
      split at h
      · cases h
      · rename_i i hi
        split at h
        · cases h
        · rename_i w hw
          cases hs : setAt x w ps with
          | none => simp [hs] at h
          | some w' =>
            simp [hs] at h
            subst h
            have hlt : i < xs.length := by
              rcases List.getElem?_eq_some_iff.mp hw with ⟨hlt, _⟩
              exact hlt
            simp [getAt, hi, hlt, ih w w' hs]
    | obj kvs =>
      simp only [setAt] at h
      split at h
      · cases h
      · rename_i w hw
        cases hs : setAt x w ps with
        | none => simp [hs] at h
        | some w' =>
          simp [hs] at h
          subst h
          simp [getAt, getKey_setKey p w' w kvs hw, ih w w' hs]
    | null => simp [setAt] at h
    | bool b => simp [setAt] at h
    | num n => simp [setAt] at h
    | str s => simp [setAt] at h
    | ext a => simp [setAt] at h

/-- writing below an object yields an object -/
theorem setAt_obj {α : Type} (x : T α) (kvs : List (Str × T α)) (p : Str) (ps : List Str) (t : T α)
    (h : setAt x (.obj kvs) (p :: ps) = some t) : ∃ kvs', t = .obj kvs' := by
  simp only [setAt] at h
  split at h
  · cases h
  · rename_i w hw
    cases hs : setAt x w ps with
    | none => simp [hs] at h
    | some w' => simp [hs] at h; exact ⟨_, h.symm⟩

-- ------------------------------------------------------------------ the scan

theorem scan_files {D : Defects} {o : Opts} {ps : List Part} {st st' : St}
    (h : scan D o st ps = .ok st') : st'.files = st.files ++ fileParts ps := by
  induction ps generalizing st with
  | nil => simp [scan] at h; subst h; simp [fileParts]
  | cons p ps ih =>
    cases p with
    | ops b n =>
      simp only [scan] at h
      split at h
      · cases h
      · split at h
        · cases h
        · simpa [fileParts] using ih h
    | map m n =>
      simp only [scan] at h
      split at h
      · cases h
      · split at h
        · cases h
        · simpa [fileParts] using ih h
    | file f =>
      simp only [scan] at h
      split at h
      · cases h
      · split at h
        · cases h
        · simpa [fileParts] using ih h
    | other n =>
      simp only [scan] at h
      split at h
      · cases h
      · simpa [fileParts] using ih h

theorem scan_limits {o : Opts} {ps : List Part} {st st' : St}
    (h : scan Defects.none o st ps = .ok st') :
    (∀ s, o.maxFileSize = some s → ∀ f ∈ fileParts ps, f.size ≤ s) ∧
    (∀ n, o.maxNumFiles = some n → st.files.length ≤ n → st'.files.length ≤ n) := by
  induction ps generalizing st with
  | nil => simp [scan] at h; subst h; simp [fileParts]
  | cons p ps ih =>
    cases p with
    | ops b n =>
      simp only [scan] at h
      split at h
      · cases h
      · split at h
        · cases h
        · simpa [fileParts] using ih h
    | map m n =>
      simp only [scan] at h
      split at h
      · cases h
      · split at h
        · cases h
        · simpa [fileParts] using ih h
    | file f =>
      simp only [scan] at h
      split at h
      · cases h
      · rename_i hc
        split at h
        · cases h
        · rename_i hs
          have := ih h
          refine ⟨?_, ?_⟩
          · intro s hs' g hg
            simp only [fileParts, List.mem_cons] at hg
            rcases hg with rfl | hg
            · simp [fieldTooBig, hs'] at hs; exact hs
            · exact this.1 s hs' g hg
          · intro n hn _
            apply this.2 n hn
            simp [countExceeded, Defects.none, hn] at hc
            simp; omega
    | other n =>
      simp only [scan] at h
      split at h
      · cases h
      · simpa [fileParts] using ih h

-- ------------------------------------------------------------------ binding

/-- what `bindFiles` leaves of the map: the entries whose key names no file -/
theorem bindFiles_rest {D : Defects} {files : List File} {b b' : Batch} {m m' : FileMap}
    (h : bindFiles D b m files = some (b', m')) :
    m' = m.filter (fun e => files.all (fun f => f.name ≠ e.1)) := by
  induction files generalizing b m with
  | nil => simp [bindFiles] at h; rw [← h.2]; exact (List.filter_eq_self.mpr (by simp)).symm
  | cons f fs ih =>
    simp only [bindFiles] at h
    split at h
    · rename_i hk
      have := ih h
      subst this
      -- no entry has the key f.name
      have hno : ∀ e ∈ m, e.1 ≠ f.name := by
        intro e he heq
        have : ∀ (l : FileMap), e ∈ l → getKey f.name l ≠ none := by
          intro l
          induction l with
          | nil => simp
          | cons a r ihr =>
            obtain ⟨k, v⟩ := a
            intro hm
            by_cases hkk : k = f.name
            · simp [getKey, hkk]
            · simp only [getKey, hkk, if_false]
              rcases List.mem_cons.mp hm with rfl | hm
              · exact absurd heq hkk
              · exact ihr hm
        exact this m he hk
      apply List.filter_congr
      intro e he
      have := hno e he
      simp [List.all_cons, Ne.symm this]
    · rename_i paths hk
      split at h
      · cases h
      · rename_i b1 hb
        have := ih h
        subst this
        simp only [eraseKey, List.filter_filter]
        apply List.filter_congr
        intro e _
        by_cases he : e.1 = f.name
        · simp [he]
        · simp [List.all_cons, he, Ne.symm he]

theorem mem_keys_of_getKey {β : Type} (k : Str) (m : List (Str × β)) (h : (getKey k m).isSome) : k ∈ m.map (·.1) := by
  induction m with
  | nil => simp [getKey] at h
  | cons a r ih =>
    obtain ⟨k', v⟩ := a
    by_cases hk : k' = k
    · simp [hk]
    · simp only [getKey, hk, if_false] at h
      simp [ih h]

theorem getKey_isSome_of_mem {β : Type} (k : Str) (m : List (Str × β)) (h : k ∈ m.map (·.1)) : (getKey k m).isSome := by
  induction m with
  | nil => simp at h
  | cons a r ih =>
    obtain ⟨k', v⟩ := a
    by_cases hk : k' = k
    · simp [getKey, hk]
    · simp only [getKey, hk, if_false]
      simp only [List.map_cons, List.mem_cons] at h
      rcases h with h | h
      · exact absurd h.symm hk
      · exact ih h

/-- a map keeps every key of the JSON object -/
theorem dedup_keys (m : FileMap) (k : Str) : k ∈ (dedup m).map (·.1) ↔ k ∈ m.map (·.1) := by
  induction m with
  | nil => simp [dedup]
  | cons a r ih =>
    obtain ⟨k', v⟩ := a
    simp only [dedup]
    split
    · rename_i hs
      have := mem_keys_of_getKey k' r hs
      simp only [List.map_cons, List.mem_cons, ih]
      constructor
      · intro h; exact Or.inr h
      · rintro (h | h)
        · subst h; exact this
        · exact h
    · simp [ih]

/-- which map the loop ends with: the last `map` part, de-duplicated -/
theorem scan_map {D : Defects} {o : Opts} {ps : List Part} {st st' : St}
    (h : scan D o st ps = .ok st') :
    (∀ m, (mapParts ps).getLast? = some (some m) → st'.map = some (dedup m)) ∧
    (mapParts ps = [] → st'.map = st.map) := by
  induction ps generalizing st with
  | nil => simp [scan] at h; subst h; simp [mapParts]
  | cons p ps ih =>
    cases p with
    | ops b n =>
      simp only [scan] at h
      split at h
      · cases h
      · split at h
        · cases h
        · simpa [mapParts] using ih h
    | map m0 n =>
      simp only [scan] at h
      split at h
      · cases h
      · split at h
        · cases h
        · rename_i m1
          have := ih h
          refine ⟨?_, by simp [mapParts]⟩
          intro m hm
          cases hmp : mapParts ps with
          | nil =>
            simp [mapParts, hmp] at hm
            subst hm
            simpa using this.2 hmp
          | cons a r =>
            simp only [mapParts, hmp, List.getLast?_cons_cons] at hm
            exact this.1 m (by rw [hmp]; exact hm)
    | file f =>
      simp only [scan] at h
      split at h
      · cases h
      · split at h
        · cases h
        · simpa [mapParts] using ih h
    | other n =>
      simp only [scan] at h
      split at h
      · cases h
      · simpa [mapParts] using ih h

/-- without the toggle every path of an entry must resolve, one after the other -/
theorem bindPaths_none_eq_foldlM (f : File) (b : Batch) (ps : List Str) :
    bindPaths Defects.none f b ps = ps.foldlM (fun b p => bindPath b p f) b := by
  induction ps generalizing b with
  | nil => simp [bindPaths]
  | cons p ps ih =>
    simp only [bindPaths, List.foldlM_cons]
    cases bindPath b p f with
    | none => simp [Defects.none]
    | some b' => simp [ih]

end AGV.Lemmas.UploadBind
