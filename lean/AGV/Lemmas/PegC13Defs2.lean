/-
  Property C13: what `parse_definition_item` makes of the pairs of an operation definition and a
  fragment definition, given what it makes of the parts.
-/
import AGV.Lemmas.PegC13Defs1
namespace AGV.Lemmas.PegX
open AGV.Model.Peg AGV.Model.BuildAst AGV.Spec.Lex AGV.Core.PAst AGV.Lemmas.PegC13 AGV.Lemmas.SpecVal

def finDef : PDef → Bool
  | .op _ o => o.vars.all finVD && finDs o.dirs && finSels o.sels
  | .frag _ f => finDs f.dirs && finSels f.sels

def normDef : PDef → PDef
  | .op n o => .op n ⟨o.ty, o.vars.map normVD, normDs o.dirs, normSels o.sels⟩
  | .frag n f => .frag n ⟨f.tc, normDs f.dirs, normSels f.sels⟩

/-- levels of selection sets below the top-level one -/
def dDef (d : PDef) : Nat := dSels (AGV.Spec.Parse.defSels d)

/-- a top-level selection set as `parse_definition_item` reads it -/
def topSS (s₀ : List Char) (sp : Pair) (ss : List PSel) (c : Bool) : Prop :=
  sp.rule = "selection_set" ∧ Exp (buildSelSet (envOf s₀) (fuelOf (envOf s₀)) maxDepth sp) c (normSels ss)

theorem anon_build (s₀ : List Char) (p p1 p' p1' : Nat) (sp : Pair) (ss : List PSel) (c : Bool) (hS : topSS s₀ sp ss c) :
    Exp (buildDefinition (envOf s₀) (Pair.mk "executable_definition" p p1 [Pair.mk "operation_definition" p' p1' [sp]]))
      c (normDef (.op none ⟨.query, [], [], ss⟩)) := by
  obtain ⟨nm, x, y, i⟩ := sp
  obtain ⟨hr, hb⟩ := hS
  simp only [rule_mk] at hr
  subst hr
  cases c <;> simp only [exp_true, exp_false] at hb ⊢
  · obtain ⟨e, he⟩ := hb
    exact ⟨e, by simp [buildDefinition, inner_mk, rule_mk, he, Except.map]⟩
  · simp [buildDefinition, inner_mk, rule_mk, hb, Except.map, normDef, normDs]

def OptN (s₀ : List Char) (psN : List Pair) (on : Option Name) : Prop :=
  match on with
  | some n => ∃ a b, psN = [Pair.mk "name" a b []] ∧ Env.asStr (envOf s₀) (Pair.mk "name" a b []) = n
  | none => psN = []

theorem optN_norm {s₀ : List Char} {psN : List Pair} {on : Option Name} (hN : bOpt bName s₀ psN on) : OptN s₀ psN on := by
  cases on with
  | none => exact hN
  | some n => obtain ⟨a, b, rfl, hn⟩ := hN; exact ⟨a, b, rfl, hn⟩

def OptV (s₀ : List Char) (psV : List Pair) (ovs : Option (List PVarDef)) : Prop :=
  match ovs with
  | some vs => ∃ x y i, psV = [Pair.mk "variable_definitions" x y i] ∧
      i.mapM (buildVarDef (envOf s₀)) = if vs.all finVD then .ok (vs.map normVD) else .error .number
  | none => psV = []

theorem optV_norm {s₀ : List Char} {psV : List Pair} {ovs : Option (List PVarDef)} (hV : bOpt bVarDefs s₀ psV ovs) :
    OptV s₀ psV ovs := by
  cases ovs with
  | none => exact hV
  | some vs =>
    obtain ⟨pr, rfl, hr, hi⟩ := hV
    obtain ⟨nm, x, y, i⟩ := pr
    simp only [rule_mk] at hr
    subst hr
    exact ⟨x, y, i, rfl, hi⟩

theorem all_nil_finVD : ([] : List PVarDef).all finVD = true := rfl

theorem named_build (s₀ : List Char) (p p1 p' p1' p'' p1'' : Nat) (tp : Pair) (psN psV psD : List Pair) (sp : Pair)
    (ty : OpType) (on : Option Name) (ovs : Option (List PVarDef)) (ods : Option (List PDirective)) (ss : List PSel)
    (c : Bool)
    (hT : tp.rule = "operation_type" ∧ opTypeOf (Env.asStr (envOf s₀) tp) = ty)
    (hN : bOpt bName s₀ psN on) (hV : bOpt bVarDefs s₀ psV ovs) (hD : bOpt (bDirs famV) s₀ psD ods)
    (hS : topSS s₀ sp ss c) :
    Exp (buildDefinition (envOf s₀) (Pair.mk "executable_definition" p p1 [Pair.mk "operation_definition" p' p1'
        [Pair.mk "named_operation_definition" p'' p1'' (tp :: (psN ++ (psV ++ (psD ++ [sp]))))]]))
      ((ovs.getD []).all finVD && finDs (ods.getD []) && c)
      (normDef (.op on ⟨ty, ovs.getD [], ods.getD [], ss⟩)) := by
  obtain ⟨nm4, x4, y4, i4⟩ := sp
  obtain ⟨hr4, hb⟩ := hS
  simp only [rule_mk] at hr4
  subst hr4
  obtain ⟨hrT, hty⟩ := hT
  have hN' := optN_norm hN
  have hV' := optV_norm hV
  have hD' := optD_norm hD
  clear hN hV hD
  cases hb1 : (ovs.getD []).all finVD <;> cases hb2 : finDs (ods.getD []) <;> cases c <;>
  cases on <;> cases ovs <;> cases ods <;>
    simp only [Option.getD_some, Option.getD_none, all_nil_finVD, finDs_nil, reduceCtorEq, exp_true, exp_false,
      OptN, OptV, OptD] at hb1 hb2 hN' hV' hD' hb <;>
    (try obtain ⟨a1, b1, rfl, hN2⟩ := hN') <;> (try subst hN') <;>
    (try obtain ⟨x2, y2, i2, rfl, hV2⟩ := hV') <;> (try subst hV') <;>
    (try obtain ⟨x3, y3, i3, rfl, hD2⟩ := hD') <;> (try subst hD') <;>
    (try obtain ⟨e4, hb3⟩ := hb) <;>
    simp [exp_true, exp_false, buildDefinition, inner_mk, rule_mk, nextIf, buildOptDirectives, bind, Except.bind, pure,
      Except.pure, Except.map, normDef, normDs, expDs, *]

theorem frag_build (s₀ : List Char) (p p1 p' p1' a b : Nat) (tcp : Pair) (psD : List Pair) (sp : Pair)
    (n tc : Name) (ods : Option (List PDirective)) (ss : List PSel) (c : Bool)
    (hn : Env.asStr (envOf s₀) (Pair.mk "name" a b []) = n)
    (hT : innerName (envOf s₀) tcp = .ok tc) (hD : bOpt (bDirs famV) s₀ psD ods)
    (hS : topSS s₀ sp ss c) :
    Exp (buildDefinition (envOf s₀) (Pair.mk "executable_definition" p p1 [Pair.mk "fragment_definition" p' p1'
        (Pair.mk "name" a b [] :: tcp :: (psD ++ [sp]))]))
      (finDs (ods.getD []) && c) (normDef (.frag n ⟨tc, ods.getD [], ss⟩)) := by
  obtain ⟨nm4, x4, y4, i4⟩ := sp
  obtain ⟨hr4, hb⟩ := hS
  simp only [rule_mk] at hr4
  subst hr4
  have hD' := optD_norm hD
  clear hD
  cases hb2 : finDs (ods.getD []) <;> cases c <;> cases ods <;>
    simp only [Option.getD_some, Option.getD_none, finDs_nil, reduceCtorEq, exp_true, exp_false, OptD] at hb2 hD' hb <;>
    (try obtain ⟨x3, y3, i3, rfl, hD2⟩ := hD') <;> (try subst hD') <;>
    (try obtain ⟨e4, hb3⟩ := hb) <;>
    simp [exp_true, exp_false, buildDefinition, inner_mk, rule_mk, buildOptDirectives, bind, Except.bind, pure,
      Except.pure, Except.map, normDef, normDs, expDs, *]
end AGV.Lemmas.PegX
