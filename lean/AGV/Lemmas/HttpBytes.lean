/-
  Helper lemmas for the byte layer of C23 (UTF-8 at the transport boundary).  Core only.
-/
import AGV.Model.Http
import AGV.Spec.Http

namespace AGV.Lemmas.HttpBytes
open AGV.Spec.Http

theorem char_range (c : Char) : c.toNat < 0xD800 ∨ (0xDFFF < c.toNat ∧ c.toNat < 0x110000) := by
  have h := c.valid
  rw [← Char.toNat_val]
  unfold UInt32.isValidChar Nat.isValidChar at h
  omega

theorem toNat_ofNat_valid (n : Nat) (h : n < 0xD800 ∨ (0xDFFF < n ∧ n < 0x110000)) :
    (Char.ofNat n).toNat = n := by
  have hv : n.isValidChar := by unfold Nat.isValidChar; omega
  unfold Char.ofNat
  simp [hv, Char.ofNatAux, Char.toNat]

theorem toNat_toUInt8 (n : Nat) (h : n < 256) : n.toUInt8.toNat = n := by
  simp [Nat.toUInt8_eq, UInt8.toNat_ofNat']; omega

theorem toUInt8_toNat (b : UInt8) : b.toNat.toUInt8 = b := by
  simp [Nat.toUInt8_eq]

/-- decoding one step of the UTF-8 form of `c` gives `c` back -/
theorem utf8Step_encode (c : Char) (rest : List Nat) :
    ∃ b0 tl, utf8EncodeCharN c ++ rest = b0 :: tl ∧ utf8Step b0 tl = .char c.toNat rest := by
  have hr := char_range c
  unfold utf8EncodeCharN
  generalize c.toNat = n at hr
  simp only []
  by_cases h1 : n < 0x80
  · refine ⟨n, rest, by simp [h1], by simp [utf8Step, h1]⟩
  · by_cases h2 : n < 0x800
    · refine ⟨0xC0 + n / 64, (0x80 + n % 64) :: rest, by simp [h1, h2], ?_⟩
      have a1 : ¬ (0xC0 + n / 64 < 0x80) := by omega
      have a2 : ¬ (0xC0 + n / 64 < 0xC2) := by omega
      have a3 : 0xC0 + n / 64 < 0xE0 := by omega
      have a4 : inRange 0x80 0xBF (0x80 + n % 64) = true := by simp [inRange]; omega
      have a5 : (0xC0 + n / 64 - 0xC0) * 64 + (0x80 + n % 64 - 0x80) = n := by omega
      simp only [utf8Step, a1, a2, a3, a4, a5, if_true, if_false]
    · by_cases h3 : n < 0x10000
      · refine ⟨0xE0 + n / 4096, (0x80 + n / 64 % 64) :: (0x80 + n % 64) :: rest, by simp [h1, h2, h3], ?_⟩
        have a1 : ¬ (0xE0 + n / 4096 < 0x80) := by omega
        have a2 : ¬ (0xE0 + n / 4096 < 0xC2) := by omega
        have a3 : ¬ (0xE0 + n / 4096 < 0xE0) := by omega
        have a3' : 0xE0 + n / 4096 < 0xF0 := by omega
        have a4 : inRange (if 0xE0 + n / 4096 = 0xE0 then 0xA0 else 0x80)
            (if 0xE0 + n / 4096 = 0xED then 0x9F else 0xBF) (0x80 + n / 64 % 64) = true := by
          simp only [inRange]; split <;> split <;> simp <;> omega
        have a5 : inRange 0x80 0xBF (0x80 + n % 64) = true := by simp [inRange]; omega
        have a6 : (0xE0 + n / 4096 - 0xE0) * 4096 + (0x80 + n / 64 % 64 - 0x80) * 64 + (0x80 + n % 64 - 0x80) = n := by
          omega
        simp only [utf8Step, a1, a2, a3, a3', a4, a5, a6, if_true, if_false]
      · refine ⟨0xF0 + n / 262144, (0x80 + n / 4096 % 64) :: (0x80 + n / 64 % 64) :: (0x80 + n % 64) :: rest,
          by simp [h1, h2, h3], ?_⟩
        have a1 : ¬ (0xF0 + n / 262144 < 0x80) := by omega
        have a2 : ¬ (0xF0 + n / 262144 < 0xC2) := by omega
        have a3 : ¬ (0xF0 + n / 262144 < 0xE0) := by omega
        have a3' : ¬ (0xF0 + n / 262144 < 0xF0) := by omega
        have a3'' : 0xF0 + n / 262144 < 0xF5 := by omega
        have a4 : inRange (if 0xF0 + n / 262144 = 0xF0 then 0x90 else 0x80)
            (if 0xF0 + n / 262144 = 0xF4 then 0x8F else 0xBF) (0x80 + n / 4096 % 64) = true := by
          simp only [inRange]; split <;> split <;> simp <;> omega
        have a5 : inRange 0x80 0xBF (0x80 + n / 64 % 64) = true := by simp [inRange]; omega
        have a5' : inRange 0x80 0xBF (0x80 + n % 64) = true := by simp [inRange]; omega
        have a6 : (0xF0 + n / 262144 - 0xF0) * 262144 + (0x80 + n / 4096 % 64 - 0x80) * 4096
            + (0x80 + n / 64 % 64 - 0x80) * 64 + (0x80 + n % 64 - 0x80) = n := by
          omega
        simp only [utf8Step, a1, a2, a3, a3', a3'', a4, a5, a5', a6, if_true, if_false]

/-- strict decoding undoes encoding (byte values) -/
theorem utf8DecodeN_encodeN (cs : List Char) : utf8DecodeN (utf8EncodeN cs) = some cs := by
  induction cs with
  | nil => simp [utf8EncodeN, utf8DecodeN]
  | cons c cs ih =>
    obtain ⟨b0, tl, h1, h2⟩ := utf8Step_encode c (utf8EncodeN cs)
    simp only [utf8EncodeN, h1]
    rw [utf8DecodeN]
    split
    · rename_i n rest hs
      rw [h2] at hs
      cases hs
      simp [ih, Char.ofNat_toNat]
    · rename_i r hs
      rw [h2] at hs
      cases hs

theorem utf8EncodeCharN_lt (c : Char) : ∀ x ∈ utf8EncodeCharN c, x < 256 := by
  have hr := char_range c
  unfold utf8EncodeCharN
  generalize c.toNat = n at hr
  simp only []
  intro x hx
  split at hx
  · simp at hx; omega
  · split at hx
    · simp at hx; omega
    · split at hx
      · simp at hx; omega
      · simp at hx; omega

theorem utf8EncodeN_lt (cs : List Char) : ∀ x ∈ utf8EncodeN cs, x < 256 := by
  induction cs with
  | nil => simp [utf8EncodeN]
  | cons c cs ih =>
    intro x hx
    simp only [utf8EncodeN, List.mem_append] at hx
    cases hx with
    | inl h => exact utf8EncodeCharN_lt c x h
    | inr h => exact ih x h

theorem map_toNat_toUInt8 (l : List Nat) (h : ∀ x ∈ l, x < 256) : (l.map Nat.toUInt8).map UInt8.toNat = l := by
  induction l with
  | nil => rfl
  | cons a l ih =>
    simp only [List.map_cons]
    rw [toNat_toUInt8 a (h a (by simp)), ih (fun x hx => h x (by simp [hx]))]

theorem map_toUInt8_toNat (bs : Bytes) : (bs.map UInt8.toNat).map Nat.toUInt8 = bs := by
  induction bs with
  | nil => rfl
  | cons b bs ih => simp only [List.map_cons, toUInt8_toNat, ih]

/-- `utf8Decode (utf8Encode cs) = some cs` -/
theorem utf8Decode_encode (cs : List Char) : utf8Decode (utf8Encode cs) = some cs := by
  unfold utf8Decode utf8Encode
  rw [map_toNat_toUInt8 _ (utf8EncodeN_lt cs), utf8DecodeN_encodeN]

/-- a successful step consumed exactly the UTF-8 form of the scalar value it reports -/
theorem utf8Step_sound (b0 : Nat) (tl : List Nat) (n : Nat) (rest : List Nat)
    (h : utf8Step b0 tl = .char n rest) :
    (n < 0xD800 ∨ (0xDFFF < n ∧ n < 0x110000)) ∧
    (if n < 0x80 then [n]
     else if n < 0x800 then [0xC0 + n / 64, 0x80 + n % 64]
     else if n < 0x10000 then [0xE0 + n / 4096, 0x80 + n / 64 % 64, 0x80 + n % 64]
     else [0xF0 + n / 262144, 0x80 + n / 4096 % 64, 0x80 + n / 64 % 64, 0x80 + n % 64]) ++ rest = b0 :: tl := by
  by_cases h1 : b0 < 0x80
  · simp only [utf8Step, h1, if_true] at h
    injection h with hn hr; subst hn; subst hr
    refine ⟨by omega, by simp [h1]⟩
  by_cases h2 : b0 < 0xC2
  · simp [utf8Step, h1, h2] at h
  by_cases h3 : b0 < 0xE0
  · cases tl with
    | nil => simp [utf8Step, h1, h2, h3] at h
    | cons b1 r1 =>
      by_cases c1 : inRange 0x80 0xBF b1 = true
      · simp only [utf8Step, h1, h2, h3, c1, if_true, if_false] at h
        injection h with hn hr; subst hn; subst hr
        simp only [inRange, Bool.and_eq_true, decide_eq_true_eq] at c1
        have e1 : ¬ ((b0 - 0xC0) * 64 + (b1 - 0x80) < 0x80) := by omega
        have e2 : (b0 - 0xC0) * 64 + (b1 - 0x80) < 0x800 := by omega
        refine ⟨by omega, ?_⟩
        simp only [e1, e2, if_true, if_false, List.cons_append, List.nil_append]
        rw [List.cons.injEq, List.cons.injEq]
        exact ⟨by omega, by omega, rfl⟩
      · simp [utf8Step, h1, h2, h3, c1] at h
  by_cases h4 : b0 < 0xF0
  · cases tl with
    | nil => simp [utf8Step, h1, h2, h3, h4] at h
    | cons b1 r1 =>
      by_cases c1 : inRange (if b0 = 0xE0 then 0xA0 else 0x80) (if b0 = 0xED then 0x9F else 0xBF) b1 = true
      · cases r1 with
        | nil => simp [utf8Step, h1, h2, h3, h4, c1] at h
        | cons b2 r2 =>
          by_cases c2 : inRange 0x80 0xBF b2 = true
          · simp only [utf8Step, h1, h2, h3, h4, c1, c2, if_true, if_false] at h
            injection h with hn hr; subst hn; subst hr
            simp only [inRange, Bool.and_eq_true, decide_eq_true_eq] at c1 c2
            have c1' : (b0 = 0xE0 → 0xA0 ≤ b1) ∧ 0x80 ≤ b1 ∧ (b0 = 0xED → b1 ≤ 0x9F) ∧ b1 ≤ 0xBF := by
              split at c1 <;> split at c1 <;> omega
            clear c1
            have e1 : ¬ ((b0 - 0xE0) * 4096 + (b1 - 0x80) * 64 + (b2 - 0x80) < 0x80) := by omega
            have e2 : ¬ ((b0 - 0xE0) * 4096 + (b1 - 0x80) * 64 + (b2 - 0x80) < 0x800) := by omega
            have e3 : (b0 - 0xE0) * 4096 + (b1 - 0x80) * 64 + (b2 - 0x80) < 0x10000 := by omega
            refine ⟨by omega, ?_⟩
            simp only [e1, e2, e3, if_true, if_false, List.cons_append, List.nil_append]
            rw [List.cons.injEq, List.cons.injEq, List.cons.injEq]
            exact ⟨by omega, by omega, by omega, rfl⟩
          · simp [utf8Step, h1, h2, h3, h4, c1, c2] at h
      · simp [utf8Step, h1, h2, h3, h4, c1] at h
  by_cases h5 : b0 < 0xF5
  · cases tl with
    | nil => simp [utf8Step, h1, h2, h3, h4, h5] at h
    | cons b1 r1 =>
      by_cases c1 : inRange (if b0 = 0xF0 then 0x90 else 0x80) (if b0 = 0xF4 then 0x8F else 0xBF) b1 = true
      · cases r1 with
        | nil => simp [utf8Step, h1, h2, h3, h4, h5, c1] at h
        | cons b2 r2 =>
          by_cases c2 : inRange 0x80 0xBF b2 = true
          · cases r2 with
            | nil => simp [utf8Step, h1, h2, h3, h4, h5, c1, c2] at h
            | cons b3 r3 =>
              by_cases c3 : inRange 0x80 0xBF b3 = true
              · simp only [utf8Step, h1, h2, h3, h4, h5, c1, c2, c3, if_true, if_false] at h
                injection h with hn hr; subst hn; subst hr
                simp only [inRange, Bool.and_eq_true, decide_eq_true_eq] at c1 c2 c3
                have c1' : (b0 = 0xF0 → 0x90 ≤ b1) ∧ 0x80 ≤ b1 ∧ (b0 = 0xF4 → b1 ≤ 0x8F) ∧ b1 ≤ 0xBF := by
                  split at c1 <;> split at c1 <;> omega
                clear c1
                have e1 : ¬ ((b0 - 0xF0) * 262144 + (b1 - 0x80) * 4096 + (b2 - 0x80) * 64 + (b3 - 0x80) < 0x80) := by omega
                have e2 : ¬ ((b0 - 0xF0) * 262144 + (b1 - 0x80) * 4096 + (b2 - 0x80) * 64 + (b3 - 0x80) < 0x800) := by omega
                have e3 : ¬ ((b0 - 0xF0) * 262144 + (b1 - 0x80) * 4096 + (b2 - 0x80) * 64 + (b3 - 0x80) < 0x10000) := by omega
                refine ⟨by omega, ?_⟩
                simp only [e1, e2, e3, if_false, List.cons_append, List.nil_append]
                rw [List.cons.injEq, List.cons.injEq, List.cons.injEq, List.cons.injEq]
                exact ⟨by omega, by omega, by omega, by omega, rfl⟩
              · simp [utf8Step, h1, h2, h3, h4, h5, c1, c2, c3] at h
          · simp [utf8Step, h1, h2, h3, h4, h5, c1, c2] at h
      · simp [utf8Step, h1, h2, h3, h4, h5, c1] at h
  · simp [utf8Step, h1, h2, h3, h4, h5] at h

theorem utf8EncodeCharN_ofNat (n : Nat) (h : n < 0xD800 ∨ (0xDFFF < n ∧ n < 0x110000)) :
    utf8EncodeCharN (Char.ofNat n) =
      (if n < 0x80 then [n]
       else if n < 0x800 then [0xC0 + n / 64, 0x80 + n % 64]
       else if n < 0x10000 then [0xE0 + n / 4096, 0x80 + n / 64 % 64, 0x80 + n % 64]
       else [0xF0 + n / 262144, 0x80 + n / 4096 % 64, 0x80 + n / 64 % 64, 0x80 + n % 64]) := by
  unfold utf8EncodeCharN
  rw [toNat_ofNat_valid n h]

/-- whatever strict decoding accepts is the UTF-8 form of its result (byte values) -/
theorem utf8DecodeN_sound (l : List Nat) (cs : List Char) (h : utf8DecodeN l = some cs) : utf8EncodeN cs = l := by
  induction l using utf8DecodeN.induct generalizing cs with
  | case1 => simp [utf8DecodeN] at h; subst h; rfl
  | case2 b0 tl n rest hs cs' hd ih =>
    rw [utf8DecodeN] at h
    split at h
    · rename_i n' rest' hs'
      rw [hs] at hs'
      injection hs' with e1 e2
      subst e1; subst e2
      simp [hd] at h
      subst h
      obtain ⟨hv, he⟩ := utf8Step_sound b0 tl n rest hs
      simp only [utf8EncodeN, ih cs' hd, utf8EncodeCharN_ofNat n hv]
      exact he
    · rename_i r hs'
      rw [hs] at hs'; cases hs'
  | case3 b0 tl n rest hs hd ih =>
    rw [utf8DecodeN] at h
    split at h
    · rename_i n' rest' hs'
      rw [hs] at hs'
      injection hs' with e1 e2
      subst e1; subst e2
      simp [hd] at h
    · cases h
  | case4 b0 tl r hs =>
    rw [utf8DecodeN] at h
    split at h
    · rename_i n' rest' hs'
      rw [hs] at hs'; cases hs'
    · cases h

/-- strict decoding accepts exactly the UTF-8 forms of scalar-value sequences -/
theorem utf8Decode_iff (bs : Bytes) (cs : List Char) : utf8Decode bs = some cs ↔ bs = utf8Encode cs := by
  constructor
  · intro h
    unfold utf8Decode at h
    have := utf8DecodeN_sound _ _ h
    unfold utf8Encode
    rw [this, map_toUInt8_toNat]
  · intro h
    subst h
    exact utf8Decode_encode cs

end AGV.Lemmas.HttpBytes
