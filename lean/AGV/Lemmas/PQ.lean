/-
  Helper lemmas for C31 (persisted queries): the association-list store, the store invariant,
  and the simulation of the model by the reference acceptor.  Core only.
-/
import AGV.Model.PQ
import AGV.Spec.PQ

namespace AGV.Lemmas.PQ
open AGV.Model.PQ

section
variable {Hash Doc : Type} [DecidableEq Hash]

theorem supportedVersion_eq : AGV.Gen.PersistedQueries.supportedVersion = 1 := by decide

-- ------------------------------------------------------------------ the store

theorem sGet_sErase_self (h : Hash) : ∀ s : Store Hash Doc, sGet h (sErase h s) = none
  | [] => rfl
  | (k, d) :: r => by
    by_cases e : k = h
    · simp only [sErase, e, if_true]; exact sGet_sErase_self h r
    · simp only [sErase, e, if_false, sGet]; exact sGet_sErase_self h r

theorem sGet_sErase_ne (h k : Hash) (hk : k ≠ h) : ∀ s : Store Hash Doc, sGet k (sErase h s) = sGet k s
  | [] => rfl
  | (k', d) :: r => by
    by_cases e : k' = h
    · subst e
      have : ¬ k' = k := fun x => hk x.symm
      simp only [sErase, if_true, sGet, this, if_false]; exact sGet_sErase_ne k' k hk r
    · by_cases e2 : k' = k
      · subst e2; simp only [sErase, e, if_false, sGet, if_true]
      · simp only [sErase, e, if_false, sGet, e2]; exact sGet_sErase_ne h k hk r

theorem sGet_sErase_some (h k : Hash) (d : Doc) (s : Store Hash Doc) (hg : sGet k (sErase h s) = some d) :
    sGet k s = some d := by
  by_cases e : k = h
  · subst e; rw [sGet_sErase_self] at hg; cases hg
  · rwa [sGet_sErase_ne h k e] at hg

theorem sGet_sPut_self (h : Hash) (d : Doc) (s : Store Hash Doc) : sGet h (sPut h d s) = some d := by
  simp only [sPut, sGet, if_true]

theorem sGet_sPut_ne (h k : Hash) (d : Doc) (s : Store Hash Doc) (hk : k ≠ h) : sGet k (sPut h d s) = sGet k s := by
  have : ¬ h = k := fun e => hk e.symm
  simp only [sPut, sGet, this, if_false]; exact sGet_sErase_ne h k hk s

-- ------------------------------------------------------------------ the store invariant

/-- everything stored under a hash is the parse of a non-empty text with that hash -/
def Inv (H : Text → Hash) (parse : Text → Option Doc) (s : Store Hash Doc) : Prop :=
  ∀ h d, sGet h s = some d → ∃ q, q ≠ [] ∧ H q = h ∧ parse q = some d

theorem inv_nil (H : Text → Hash) (parse : Text → Option Doc) : Inv H parse ([] : Store Hash Doc) := by
  intro h d hg; cases hg

theorem inv_sErase (H : Text → Hash) (parse : Text → Option Doc) (s : Store Hash Doc) (h : Hash)
    (hi : Inv H parse s) : Inv H parse (sErase h s) :=
  fun k d hg => hi k d (sGet_sErase_some h k d s hg)

/-- the store changes only by a registration: same store, or `sPut (H q) (parse q)` -/
theorem step_store (H : Text → Hash) (parse : Text → Option Doc) (s : Store Hash Doc) (r : Req Hash) :
    (step H parse s r).1 = s ∨
      ∃ v d, r.ext = .pq v (H r.query) ∧ v = 1 ∧ r.query ≠ [] ∧ parse r.query = some d ∧
        (step H parse s r).1 = sPut (H r.query) d s ∧ (step H parse s r).2 = .exec d := by
  unfold step
  split
  · exact .inl rfl
  · exact .inl rfl
  · rename_i v h hext
    by_cases hv : v ≠ AGV.Gen.PersistedQueries.supportedVersion
    · simp [hv]
    · have hv' : v = 1 := by rw [← supportedVersion_eq]; exact Decidable.not_not.1 hv
      by_cases hq : r.query = []
      · simp [hv, hq]; split <;> simp
      · by_cases hh : h ≠ H r.query
        · simp [hv, hq, hh]
        · have hh' : h = H r.query := Decidable.not_not.1 hh
          cases hp : parse r.query with
          | none => simp [hv, hq, hh]
          | some d =>
            right
            exact ⟨v, d, by rw [hext, hh'], hv', hq, rfl, by simp [hv, hq, hh'], by simp [hv, hq, hh']⟩

theorem inv_step (H : Text → Hash) (parse : Text → Option Doc) (s : Store Hash Doc) (r : Req Hash)
    (hi : Inv H parse s) : Inv H parse (step H parse s r).1 := by
  rcases step_store H parse s r with e | ⟨v, d, _, _, hq, hp, hs, _⟩
  · rw [e]; exact hi
  · rw [hs]
    intro k d' hg
    by_cases hk : k = H r.query
    · subst hk
      rw [sGet_sPut_self] at hg
      cases hg
      exact ⟨r.query, hq, rfl, hp⟩
    · rw [sGet_sPut_ne _ _ _ _ hk] at hg
      exact hi k d' hg

theorem inv_stepAct (H : Text → Hash) (parse : Text → Option Doc) (s : Store Hash Doc) (a : Act Hash)
    (hi : Inv H parse s) : Inv H parse (stepAct H parse s a).1 := by
  cases a with
  | req r => exact inv_step H parse s r hi
  | forget h => exact inv_sErase H parse s h hi

theorem inv_after (H : Text → Hash) (parse : Text → Option Doc) :
    ∀ (hist : List (Act Hash)) (s : Store Hash Doc), Inv H parse s → Inv H parse (after H parse s hist)
  | [], _, hi => hi
  | a :: r, s, hi => inv_after H parse r _ (inv_stepAct H parse s a hi)

-- ------------------------------------------------------------------ model ⊑ reference acceptor

section
variable [DecidableEq Doc]
open AGV.Spec.PQ

/-- whatever the store holds under a hash is the latest registration under it (it may hold less) -/
def Rel (s : Store Hash Doc) (regs : List (Hash × Doc)) : Prop :=
  ∀ h d, sGet h s = some d → latest h regs = some d

theorem rel_nil : Rel ([] : Store Hash Doc) [] := by intro h d hg; cases hg

theorem rel_erase (s : Store Hash Doc) (regs : List (Hash × Doc)) (h : Hash) (hr : Rel s regs) :
    Rel (sErase h s) regs :=
  fun k d hg => hr k d (sGet_sErase_some h k d s hg)

def regsAfter (H : Text → Hash) (parse : Text → Option Doc) (regs : List (Hash × Doc)) (r : Req Hash) :
    List (Hash × Doc) :=
  match registers H parse r with
  | some hd => hd :: regs
  | none => regs

/-- one request: the model's answer is allowed, and the relation is kept -/
theorem step_sim (H : Text → Hash) (parse : Text → Option Doc) (s : Store Hash Doc)
    (regs : List (Hash × Doc)) (r : Req Hash) (hr : Rel s regs) :
    allowed H parse regs r (step H parse s r).2 = true ∧
      Rel (step H parse s r).1 (regsAfter H parse regs r) := by
  obtain ⟨q, ext⟩ := r
  cases ext with
  | none => simp [step, allowed, regsAfter, registers]; exact hr
  | bad => simp [step, allowed, regsAfter, registers, isErr]; exact hr
  | pq v h =>
    by_cases hv : v = 1
    · subst hv
      by_cases hq : q = []
      · subst hq
        have hreg : regsAfter H parse regs ⟨[], .pq 1 h⟩ = regs := by simp [regsAfter, registers]
        rw [hreg]
        cases hg : sGet h s with
        | none => simp [step, allowed, supportedVersion_eq, hg]; exact hr
        | some d => simp [step, allowed, supportedVersion_eq, hg, hr h d hg]; exact hr
      · by_cases hh : h = H q
        · subst hh
          cases hp : parse q with
          | none =>
            simp [step, allowed, supportedVersion_eq, hq, hp, regsAfter, registers, isErr]; exact hr
          | some d =>
            simp only [step, allowed, supportedVersion_eq, hq, hp, regsAfter, registers]
            simp
            intro k d' hg
            by_cases hk : k = H q
            · subst hk; rw [sGet_sPut_self] at hg; cases hg; simp [latest, hq]
            · rw [sGet_sPut_ne _ _ _ _ hk] at hg
              have : ¬ H q = k := fun e => hk e.symm
              simp [latest, this, hq]; exact hr k d' hg
        · have hh' : ¬ H q = h := fun e => hh e.symm
          simp [step, allowed, supportedVersion_eq, hq, hh, hh', regsAfter, registers, isErr]; exact hr
    · simp [step, allowed, supportedVersion_eq, hv, regsAfter, registers, isErr]; exact hr

def reqsOf : List (Act Hash) → List (Req Hash)
  | [] => []
  | .req r :: rest => r :: reqsOf rest
  | .forget _ :: rest => reqsOf rest

theorem run_accepted (H : Text → Hash) (parse : Text → Option Doc) :
    ∀ (hist : List (Act Hash)) (s : Store Hash Doc) (regs : List (Hash × Doc)), Rel s regs →
      accepts H parse regs ((reqsOf hist).zip (run H parse s hist)) = true
  | [], _, _, _ => rfl
  | .req r :: rest, s, regs, hr => by
    obtain ⟨h1, h2⟩ := step_sim H parse s regs r hr
    have ih := run_accepted H parse rest _ _ h2
    simp only [reqsOf, run, stepAct, List.zip_cons_cons, accepts, h1, Bool.true_and]
    exact ih
  | .forget h :: rest, s, regs, hr => by
    have ih := run_accepted H parse rest _ _ (rel_erase s regs h hr)
    simpa only [reqsOf, run, stepAct] using ih

end
end
end AGV.Lemmas.PQ
