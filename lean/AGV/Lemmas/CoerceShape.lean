import AGV.Lemmas.Coerce

/- C06: shape of declared types, wrap/view commutation, well-formed tables and values (core tactics only). -/
namespace AGV.Lemmas.Coerce
open AGV.Core
open AGV.Spec.Coerce
open AGV.Model.Coerce

-- ------------------------------------------------------------------ shape of declared types (continued)

theorem gql_base : ∀ t : RTy, t.gql.base = t.base
  | .named _ => by simp [RTy.gql, TypeRef.base, RTy.base]
  | .vec t => by simp [RTy.gql, TypeRef.base, RTy.base, gql_base t]
  | .opt t => by
    have ih := gql_base t
    simp only [RTy.gql, RTy.base]
    cases h : t.gql <;> simp_all [TypeRef.nullable, TypeRef.base]
  | .mu t => by
    have ih := gql_base t
    simp only [RTy.gql, RTy.base]
    cases h : t.gql <;> simp_all [TypeRef.nullable, TypeRef.base]

theorem nullable_idem (ty : TypeRef) (h : ty.isNonNull = false) : ty.nullable = ty := by
  cases ty <;> simp_all [TypeRef.nullable, TypeRef.isNonNull]

/-- the declared type below the outer `!`, read off the Rust type without its `Option`s -/
theorem gql_nullable_core : ∀ t : RTy,
    (∀ u, t.core = .vec u → t.gql.nullable = .list u.gql ∧ t.item = u) ∧
    (∀ n, t.core = .named n → t.gql.nullable = .named n) ∧
    (∀ u, t.core ≠ .opt u) ∧ (∀ u, t.core ≠ .mu u)
  | .named n => by simp [RTy.core, RTy.gql, TypeRef.nullable]
  | .vec t => by simp [RTy.core, RTy.gql, TypeRef.nullable, RTy.item]
  | .opt t => by
    have ih := gql_nullable_core t
    have h2 := nullable_idem _ (gql_nullable_not_nonNull t)
    simp only [RTy.core, RTy.gql, RTy.item, h2]
    exact ih
  | .mu t => by
    have ih := gql_nullable_core t
    have h2 := nullable_idem _ (gql_nullable_not_nonNull t)
    simp only [RTy.core, RTy.gql, RTy.item, h2]
    exact ih

theorem core_base : ∀ t : RTy, (∀ n, t.core = .named n → t.base = n)
  | .named n => by simp [RTy.core, RTy.base]
  | .vec t => by simp [RTy.core]
  | .opt t => by simpa [RTy.core, RTy.base] using core_base t
  | .mu t => by simpa [RTy.core, RTy.base] using core_base t


-- ------------------------------------------------------------------ wrap / view

/-- neither null nor a list: what the single-value rule wraps -/
def atomic : GValue → Bool
  | .null => false
  | .list _ => false
  | _ => true

def isLeaf : GValue → Bool
  | .int _ => true
  | .float _ => true
  | .str _ => true
  | .bool _ => true
  | .enum _ => true
  | _ => false

theorem wrap_nullable (ty : TypeRef) (g : GValue) : wrap ty.nullable g = wrap ty g := by
  cases ty <;> simp [TypeRef.nullable, wrap]

theorem view_opt (T : Table) (t : RTy) (x : GValue) : view T (.opt t) x = view T t x := by
  cases x <;> simp [view, RTy.item, RTy.base]

theorem view_mu (T : Table) (t : RTy) (x : GValue) : view T (.mu t) x = view T t x := by
  cases x <;> simp [view, RTy.item, RTy.base]

theorem view_vec_atomic (T : Table) (t : RTy) (x : GValue) (h : atomic x = true) :
    view T (.vec t) x = view T t x := by
  cases x <;> simp_all [view, RTy.base, atomic]

/-- the view of a wrapped single value is the wrapped view -/
theorem view_wrap (T : Table) (g : GValue) (h : atomic g = true) :
    ∀ rty : RTy, view T rty (wrap rty.gql g) = wrapVec rty (view T rty g)
  | .named n => by simp [RTy.gql, wrap, wrapVec]
  | .opt t => by simp [RTy.gql, wrap_nullable, wrapVec, view_opt, view_wrap T g h t]
  | .mu t => by simp [RTy.gql, wrap_nullable, wrapVec, view_mu, view_wrap T g h t]
  | .vec t => by
    simp [RTy.gql, wrap, wrapVec, view, viewList, RTy.item, view_wrap T g h t, view_vec_atomic T t g h]

theorem view_leaf (T : Table) (rty : RTy) (g : GValue) (h : isLeaf g = true) : view T rty g = leafView g := by
  cases g <;> simp_all [view, leafView, isLeaf]

theorem coerceLeaf_isLeaf (T : Table) (j : Bool) (n : String) (v g : GValue)
    (h : coerceLeaf T j n v = some g) : isLeaf g = true := by
  unfold coerceLeaf at h
  split at h
  · unfold coerceScalar at h
    split at h <;> simp_all [isLeaf]
    all_goals first | (obtain ⟨_, rfl⟩ := h; rfl) | (subst h; rfl) | skip
  · rename_i values _
    cases v <;> simp [coerceEnum] at h
    all_goals (obtain ⟨_, rfl⟩ := h; rfl)
  · cases h


-- ------------------------------------------------------------------ well-formed tables and values

def nodupB : List String → Bool
  | [] => true
  | x :: xs => !xs.contains x && nodupB xs

theorem nodupB_cons (x : String) (xs : List String) : nodupB (x :: xs) = true ↔ x ∉ xs ∧ nodupB xs = true := by
  simp [nodupB]

/-- the type a oneof variant is parsed as (`X(T)` is registered as `Option<T>`) -/
def stripOpt : RTy → RTy
  | .opt t => t
  | t => t

def tyOf (oneOf : Bool) (f : InField) : RTy := if oneOf then stripOpt f.ty else f.ty

/-- what the derive macros guarantee of an input object type: field names pairwise distinct; a
    oneof variant carries a non-null type -/
def wfDef : NDef → Bool
  | .input oneOf fields =>
    nodupB (fields.map (·.name)) && (!oneOf || fields.all (fun f => (stripOpt f.ty).gql.isNonNull))
  | _ => true

def wfTable (T : Table) : Bool := T.types.all (fun nd => wfDef nd.2)

theorem wfTable_find {T : Table} (h : wfTable T = true) {n : String} {d : NDef} (hf : T.find? n = some d) :
    wfDef d = true := by
  simp only [Table.find?, Option.map_eq_some_iff] at hf
  obtain ⟨nd, hnd, rfl⟩ := hf
  simp only [wfTable, List.all_eq_true] at h
  exact h nd (List.mem_of_find?_eq_some hnd)

mutual
/-- every object literal met at an input object type has pairwise distinct keys, all of them
    declared (what `is_valid_input_value` checks before anything is parsed, on a map) -/
def shapeOk (T : Table) : TypeRef → GValue → Bool
  | ty, .list xs =>
    match ty.nullable with
    | .list t => shapeOkList T t xs
    | _ => true
  | ty, .obj fs =>
    match T.find? ty.base with
    | some (.input _ fields) => nodupB (fs.map (·.1)) && shapeOkEntries T fields fs
    | _ => true
  | _, .null => true
  | _, .int _ => true
  | _, .float _ => true
  | _, .str _ => true
  | _, .bool _ => true
  | _, .enum _ => true
def shapeOkList (T : Table) (t : TypeRef) : List GValue → Bool
  | [] => true
  | x :: xs => shapeOk T t x && shapeOkList T t xs
def shapeOkEntries (T : Table) (fields : List InField) : List (String × GValue) → Bool
  | [] => true
  | (k, v) :: rest =>
    (match fields.find? (·.name = k) with
     | some f => shapeOk T f.ty.gql v
     | none => false) && shapeOkEntries T fields rest
end

theorem shapeOk_congr (T : Table) (ty1 ty2 : TypeRef) (v : GValue)
    (h1 : ty1.nullable = ty2.nullable) (h2 : ty1.base = ty2.base) : shapeOk T ty1 v = shapeOk T ty2 v := by
  cases v <;> simp [shapeOk, h1, h2]

theorem stripOpt_gql (t : RTy) : (stripOpt t).gql.nullable = t.gql.nullable ∧ (stripOpt t).base = t.base := by
  cases t <;> simp [stripOpt, RTy.gql, RTy.base]
  rename_i u
  exact (nullable_idem _ (gql_nullable_not_nonNull u)).symm

theorem shapeOk_tyOf (T : Table) (o : Bool) (f : InField) (v : GValue) :
    shapeOk T (tyOf o f).gql v = shapeOk T f.ty.gql v := by
  cases o
  · simp [tyOf]
  · simp only [tyOf, if_true]
    exact shapeOk_congr T _ _ v (stripOpt_gql f.ty).1 (by rw [gql_base, gql_base, (stripOpt_gql f.ty).2])

-- ------------------------------------------------------------------ declared keys (the repaired generated `parse`)

mutual
/-- a well-shaped value carries declared keys only -/
theorem shapeOk_declaredOk (T : Table) : ∀ (v : GValue) (ty : TypeRef),
    shapeOk T ty v = true → declaredOk T ty v = true
  | .null, _, _ => by simp [declaredOk]
  | .int _, _, _ => by simp [declaredOk]
  | .float _, _, _ => by simp [declaredOk]
  | .str _, _, _ => by simp [declaredOk]
  | .bool _, _, _ => by simp [declaredOk]
  | .enum _, _, _ => by simp [declaredOk]
  | .list xs, ty, h => by
    simp only [shapeOk] at h
    simp only [declaredOk]
    split
    · rename_i t ht
      simp only [ht] at h
      exact shapeOkList_declaredOk T xs t h
    · rfl
  | .obj fs, ty, h => by
    simp only [shapeOk] at h
    simp only [declaredOk]
    split
    · rename_i o fields hf
      simp only [hf, Bool.and_eq_true] at h
      exact shapeOkEntries_declaredOk T fs fields h.2
    · rfl
theorem shapeOkList_declaredOk (T : Table) : ∀ (xs : List GValue) (t : TypeRef),
    shapeOkList T t xs = true → declaredOkList T t xs = true
  | [], _, _ => by simp [declaredOkList]
  | x :: xs, t, h => by
    simp only [shapeOkList, Bool.and_eq_true] at h
    simp only [declaredOkList, Bool.and_eq_true]
    exact ⟨shapeOk_declaredOk T x t h.1, shapeOkList_declaredOk T xs t h.2⟩
theorem shapeOkEntries_declaredOk (T : Table) : ∀ (fs : List (String × GValue)) (fields : List InField),
    shapeOkEntries T fields fs = true → declaredOkEntries T fields fs = true
  | [], _, _ => by simp [declaredOkEntries]
  | (k, v) :: rest, fields, h => by
    simp only [shapeOkEntries, Bool.and_eq_true] at h
    simp only [declaredOkEntries, Bool.and_eq_true]
    refine ⟨?_, shapeOkEntries_declaredOk T rest fields h.2⟩
    cases hf : fields.find? (·.name = k) with
    | none => simp [hf] at h
    | some f =>
      simp only [hf] at h
      exact shapeOk_declaredOk T v f.ty.gql h.1
end

/-- on a well-shaped value the repaired `parse` (which refuses undeclared keys) is `parseD` -/
theorem parseK_of_shapeOk (D : Defects) (T : Table) (rty : RTy) (v : GValue)
    (h : shapeOk T rty.gql v = true) : parseK D T rty v = parseD D T rty v := by
  simp [parseK, shapeOk_declaredOk T v rty.gql h]

/-- with the toggle on, `parseK` is `parseD` -/
theorem parseK_pinned (D : Defects) (T : Table) (rty : RTy) (v : GValue)
    (h : D.undeclaredKeysIgnored = true) : parseK D T rty v = parseD D T rty v := by
  simp [parseK, h]

theorem parseK_null (D : Defects) (T : Table) (rty : RTy) : parseK D T rty .null = parseD D T rty .null := by
  simp [parseK, declaredOk]

end AGV.Lemmas.Coerce
