import AGV.Lemmas.CoerceValue

/- C06: every successfully parsed value is a value of the Rust type it was parsed for (mutual
   structural induction on the value). -/
namespace AGV.Lemmas.Coerce
open AGV.Core
open AGV.Spec.Coerce
open AGV.Model.Coerce

-- ------------------------------------------------------------------ typed: wrappers

theorem typed_opt (T : Table) (t : RTy) (r : RV) (h : r.solid = true) : typed T (.opt t) r = typed T t r := by
  cases r <;> simp_all [typed, RTy.core, RV.solid]

theorem typed_mu (T : Table) (t : RTy) (r : RV) (h : r.solid = true) : typed T (.mu t) r = typed T t r := by
  cases r <;> simp_all [typed, RTy.core, RV.solid]

/-- int/float/str/bool/enum/obj -/
def atomicRV : RV → Bool
  | .null => false
  | .undef => false
  | .list _ => false
  | _ => true

theorem wrapVec_solid (x : RV) (h : x.solid = true) : ∀ rty : RTy, (wrapVec rty x).solid = true
  | .named _ => by simpa [wrapVec] using h
  | .opt t => by simpa [wrapVec] using wrapVec_solid x h t
  | .mu t => by simpa [wrapVec] using wrapVec_solid x h t
  | .vec t => by simp [wrapVec, RV.solid]

theorem atomicRV_solid (x : RV) (h : atomicRV x = true) : x.solid = true := by
  cases x <;> simp_all [atomicRV, RV.solid]

/-- a single value typed for the named base type is, wrapped, typed for the whole type -/
theorem typed_wrapVec (T : Table) (x : RV) (hx : atomicRV x = true) :
    ∀ rty : RTy, typed T (.named rty.base) x = true → typed T rty (wrapVec rty x) = true
  | .named n => by simp [RTy.base, wrapVec]
  | .opt t => by
    intro h
    rw [wrapVec, typed_opt T t _ (wrapVec_solid x (atomicRV_solid x hx) t)]
    exact typed_wrapVec T x hx t (by simpa [RTy.base] using h)
  | .mu t => by
    intro h
    rw [wrapVec, typed_mu T t _ (wrapVec_solid x (atomicRV_solid x hx) t)]
    exact typed_wrapVec T x hx t (by simpa [RTy.base] using h)
  | .vec t => by
    intro h
    simp only [wrapVec, typed, RTy.core, typedList, Bool.and_true]
    exact typed_wrapVec T x hx t (by simpa [RTy.base] using h)

-- ------------------------------------------------------------------ typed: leaves and null

theorem parseLeaf_typed (T : Table) (n : String) (v : GValue) (x : RV) (h : parseLeaf T n v = some x) :
    atomicRV x = true ∧ typed T (.named n) x = true := by
  unfold parseLeaf at h
  split at h
  · unfold parseScalar at h
    split at h
    · rw [parseInt_i32] at h
      split at h
      · cases h
        rename_i hd
        simp [atomicRV, typed, RTy.core, leafTyped, i32ok, hd]
      · cases h
    all_goals (first | cases h | skip)
    all_goals simp [atomicRV, typed, RTy.core, leafTyped]
  · rename_i vs hfind
    cases v <;> simp [parseEnum] at h
    all_goals (obtain ⟨hc, rfl⟩ := h; simp [atomicRV, typed, RTy.core, leafTyped, hfind, hc])
  · cases h

theorem parseNull_typed (rty : RTy) (r : RV) (h : parseNull Defects.none rty = some r) :
    r = .null ∧ nullTyped rty = true := by
  cases rty <;> simp_all [parseNull, nullTyped, Defects.none]

theorem parseAbsent_typed (T : Table) (rty : RTy) (r : RV) (h : parseAbsent Defects.none rty = some r) :
    typed T rty r = true := by
  cases rty with
  | mu t => simp [parseAbsent] at h; subst h; simp [typed, undefTyped]
  | opt t =>
    obtain ⟨rfl, hn⟩ := parseNull_typed _ r (by simpa [parseAbsent] using h)
    simp [typed, hn]
  | vec t =>
    obtain ⟨rfl, hn⟩ := parseNull_typed _ r (by simpa [parseAbsent] using h)
    simp [typed, hn]
  | named n =>
    obtain ⟨rfl, hn⟩ := parseNull_typed _ r (by simpa [parseAbsent] using h)
    simp [typed, hn]

-- ------------------------------------------------------------------ typed: structs

theorem lookup_mem {α : Type} (k : String) (v : α) (xs : List (String × α)) (h : lookup xs k = some v) :
    (k, v) ∈ xs := by
  induction xs with
  | nil => simp [lookup] at h
  | cons x xs ih =>
    obtain ⟨k', v'⟩ := x
    rw [lookup_cons] at h
    by_cases hk : k' = k
    · simp [hk] at h; simp [hk, h]
    · simp [hk] at h; simp [ih h]

/-- what the entry parses of an object are: results of declared keys, typed for the field -/
def entriesTyped (T : Table) (o : Bool) (fields : List InField) (es : List (String × Option RV)) : Prop :=
  ∀ k r, (k, some r) ∈ es → ∃ f, fields.find? (·.name = k) = some f ∧ typed T (tyOf o f) r = true

theorem finishStruct_typed (T : Table) (dflt : InField → GValue → Option RV) (fields : List InField)
    (es : List (String × Option RV)) (he : entriesTyped T false fields es)
    (hd : ∀ f ∈ fields, ∀ d r, f.default = some d → dflt f d = some r → typed T f.ty r = true)
    (gs : List InField) (hg : ∀ g ∈ gs, fields.find? (·.name = g.name) = some g)
    (r : List (String × RV)) (h : finishStruct Defects.none dflt gs es = some r) :
    r.map (·.1) = gs.map (·.name) ∧ typedEntries T fields r = true := by
  induction gs generalizing r with
  | nil => simp [finishStruct] at h; subst h; simp [typedEntries]
  | cons g gs ih =>
    have hgf := hg g (by simp)
    have hgm : g ∈ fields := List.mem_of_find?_eq_some hgf
    simp only [finishStruct] at h
    split at h
    · rename_i x rest hx hrest
      cases h
      obtain ⟨ih1, ih2⟩ := ih (fun g' h' => hg g' (by simp [h'])) rest hrest
      refine ⟨by simp [ih1], ?_⟩
      simp only [typedEntries, hgf, ih2, Bool.and_true]
      -- where does x come from?
      cases hl : lookup es g.name with
      | some ox =>
        simp only [hl] at hx
        subst hx
        obtain ⟨f, hf, ht⟩ := he g.name x (lookup_mem _ _ _ hl)
        rw [hgf] at hf
        cases hf
        simpa [tyOf] using ht
      | none =>
        simp only [hl] at hx
        cases hdef : g.default with
        | some d => simp only [hdef] at hx; exact hd g hgm d x hdef hx
        | none => simp only [hdef] at hx; exact parseAbsent_typed T g.ty x hx
    · cases h

-- ------------------------------------------------------------------ parse results of non-null values are solid

theorem parse_solid (T : Table) (dflt : InField → GValue → Option RV) (rty : RTy) (v : GValue) (r : RV)
    (hv : v ≠ .null) (h : parseWith dflt Defects.none T rty v = some r) : r.solid = true := by
  have leafcase : ∀ w, (parseLeaf T rty.base w).map (wrapVec rty) = some r → r.solid = true := by
    intro w hw
    simp only [Option.map_eq_some_iff] at hw
    obtain ⟨x, hx, rfl⟩ := hw
    exact wrapVec_solid x (atomicRV_solid x (parseLeaf_typed T _ w x hx).1) rty
  cases v with
  | null => exact absurd rfl hv
  | list xs =>
    simp only [parseWith] at h
    split at h
    · simp only [Option.map_eq_some_iff] at h
      obtain ⟨l, _, rfl⟩ := h; rfl
    · cases h
  | obj fs =>
    simp only [parseWith] at h
    split at h
    · split at h
      · split at h
        · cases h; exact wrapVec_solid _ rfl rty
        · cases h
      · cases h
    · simp only [Option.map_eq_some_iff] at h
      obtain ⟨l, _, rfl⟩ := h
      exact wrapVec_solid _ rfl rty
    · cases h
  | int i => exact leafcase _ (by simpa [parseWith] using h)
  | float t => exact leafcase _ (by simpa [parseWith] using h)
  | str s => exact leafcase _ (by simpa [parseWith] using h)
  | bool b => exact leafcase _ (by simpa [parseWith] using h)
  | enum n => exact leafcase _ (by simpa [parseWith] using h)


-- ------------------------------------------------------------------ typed: objects

theorem parseEntries_cons_some (dflt : InField → GValue → Option RV) (D : Defects) (T : Table) (o : Bool)
    (fields : List InField) (k : String) (v : GValue) (rest : List (String × GValue)) (f : InField)
    (hf : fields.find? (·.name = k) = some f) :
    parseEntriesWith dflt D T o fields ((k, v) :: rest) =
      (k, parseWith dflt D T (tyOf o f) v) :: parseEntriesWith dflt D T o fields rest := by
  simp only [parseEntriesWith, hf]
  have key : ∀ ty, ty = tyOf o f →
      (k, parseWith dflt D T ty v) :: parseEntriesWith dflt D T o fields rest =
      (k, parseWith dflt D T (tyOf o f) v) :: parseEntriesWith dflt D T o fields rest := by
    intro ty hty; rw [hty]
  apply key
  cases o
  · simp [tyOf]
  · simp only [tyOf, if_true]
    split
    · rename_i t heq; simp [stripOpt, heq]
    · rename_i hne
      cases hft : f.ty with
      | opt t => exact absurd hft (hne t)
      | named n => simp [stripOpt]
      | mu t => simp [stripOpt]
      | vec t => simp [stripOpt]

theorem parseEntries_cons_none (dflt : InField → GValue → Option RV) (D : Defects) (T : Table) (o : Bool)
    (fields : List InField) (k : String) (v : GValue) (rest : List (String × GValue))
    (hf : fields.find? (·.name = k) = none) :
    parseEntriesWith dflt D T o fields ((k, v) :: rest) = parseEntriesWith dflt D T o fields rest := by
  simp only [parseEntriesWith, hf]

theorem typed_stripOpt (T : Table) (t : RTy) (r : RV) (hr : r.solid = true)
    (h : typed T (stripOpt t) r = true) : typed T t r = true := by
  cases t with
  | opt u => rw [typed_opt T u r hr]; simpa [stripOpt] using h
  | named n => simpa [stripOpt] using h
  | mu u => simpa [stripOpt] using h
  | vec u => simpa [stripOpt] using h

/-- an object literal: given that the entry parses are typed -/
theorem typed_obj (T : Table) (dflt : InField → GValue → Option RV) (hwf : wfTable T = true)
    (hd : ∀ n o fs f d r, T.find? n = some (.input o fs) → f ∈ fs → f.default = some d →
        dflt f d = some r → typed T f.ty r = true)
    (rty : RTy) (fs : List (String × GValue)) (r : RV)
    (he : ∀ o fields, T.find? rty.base = some (.input o fields) →
        entriesTyped T o fields (parseEntriesWith dflt Defects.none T o fields fs))
    (h : parseWith dflt Defects.none T rty (.obj fs) = some r) : typed T rty r = true := by
  simp only [parseWith] at h
  cases hfind : T.find? rty.base with
  | none => simp [hfind] at h
  | some d =>
    cases d with
    | scalar => simp [hfind] at h
    | enum vs => simp [hfind] at h
    | input o fields =>
      have hwd := wfTable_find hwf hfind
      simp only [wfDef, Bool.and_eq_true] at hwd
      have hE := he o fields hfind
      cases o with
      | false =>
        simp only [hfind, Option.map_eq_some_iff] at h
        obtain ⟨l, hl, rfl⟩ := h
        obtain ⟨h1, h2⟩ := finishStruct_typed T dflt fields _ hE
          (fun f hf d r hdf hr => hd _ _ _ f d r hfind hf hdf hr) fields (find_self fields hwd.1) l hl
        apply typed_wrapVec T _ rfl rty
        simp [typed, RTy.core, hfind, h1, h2]
      | true =>
        have hnn : ∀ f ∈ fields, (stripOpt f.ty).gql.isNonNull = true := by
          have := hwd.2; simpa using this
        simp only [hfind] at h
        cases fs with
        | nil => simp [parseEntriesWith] at h
        | cons e rest =>
          obtain ⟨k, v⟩ := e
          cases rest with
          | cons e2 rest2 =>
            split at h
            · simp at h
            · cases h
          | nil =>
            cases hf : fields.find? (·.name = k) with
            | none =>
              rw [parseEntries_cons_none dflt _ T true fields k v [] hf] at h
              simp [parseEntriesWith] at h
            | some f =>
              rw [parseEntries_cons_some dflt _ T true fields k v [] f hf] at h hE
              simp only [parseEntriesWith] at h hE
              cases hp : parseWith dflt Defects.none T (tyOf true f) v with
              | none => simp [hp] at h
              | some x =>
                simp only [hp, List.length_singleton, if_true, Option.some.injEq] at h
                subst h
                rw [hp] at hE
                obtain ⟨f', hf', ht⟩ := hE k x (by simp)
                rw [hf] at hf'; cases hf'
                have hxs : x.solid = true := by
                  by_cases hv : v = .null
                  · subst hv
                    simp only [parseWith, parseNull_repaired, tyOf, if_true, hnn f (find_name hf).2] at hp
                    cases hp
                  · exact parse_solid T dflt _ v x hv hp
                apply typed_wrapVec T _ rfl rty
                simp only [typed, RTy.core, hfind, hf, hxs, typedEntries, Bool.and_true, Bool.true_and]
                exact typed_stripOpt T f.ty x hxs (by simpa [tyOf] using ht)


theorem leaf_typed (T : Table) (rty : RTy) (w : GValue) (r : RV)
    (h : (parseLeaf T rty.base w).map (wrapVec rty) = some r) : typed T rty r = true := by
  simp only [Option.map_eq_some_iff] at h
  obtain ⟨x, hx, rfl⟩ := h
  obtain ⟨h1, h2⟩ := parseLeaf_typed T _ w x hx
  exact typed_wrapVec T x h1 rty h2

mutual
/-- every successfully parsed value is a value of the Rust type it was parsed for -/
theorem parse_typed (T : Table) (dflt : InField → GValue → Option RV) (hwf : wfTable T = true)
    (hd : ∀ n o fs f d r, T.find? n = some (.input o fs) → f ∈ fs → f.default = some d →
        dflt f d = some r → typed T f.ty r = true) :
    ∀ (v : GValue) (rty : RTy) (r : RV), parseWith dflt Defects.none T rty v = some r → typed T rty r = true
  | .null, rty, r, h => by
    simp only [parseWith] at h
    obtain ⟨rfl, hn⟩ := parseNull_typed rty r h
    simp [typed, hn]
  | .int i, rty, r, h => leaf_typed T rty _ r (by simpa [parseWith] using h)
  | .float t, rty, r, h => leaf_typed T rty _ r (by simpa [parseWith] using h)
  | .str s, rty, r, h => leaf_typed T rty _ r (by simpa [parseWith] using h)
  | .bool b, rty, r, h => leaf_typed T rty _ r (by simpa [parseWith] using h)
  | .enum n, rty, r, h => leaf_typed T rty _ r (by simpa [parseWith] using h)
  | .list xs, rty, r, h => by
    simp only [parseWith] at h
    cases hcore : rty.core with
    | vec t =>
      simp only [hcore, Option.map_eq_some_iff] at h
      obtain ⟨rs, hrs, rfl⟩ := h
      simp only [typed, hcore]
      exact parseList_typed T dflt hwf hd xs t rs hrs
    | named n => simp [hcore] at h
    | opt t => simp [hcore] at h
    | mu t => simp [hcore] at h
  | .obj fs, rty, r, h =>
    typed_obj T dflt hwf hd rty fs r (fun o fields _ => parseEntries_typed T dflt hwf hd fs o fields) h
theorem parseList_typed (T : Table) (dflt : InField → GValue → Option RV) (hwf : wfTable T = true)
    (hd : ∀ n o fs f d r, T.find? n = some (.input o fs) → f ∈ fs → f.default = some d →
        dflt f d = some r → typed T f.ty r = true) :
    ∀ (xs : List GValue) (t : RTy) (rs : List RV), parseListWith dflt Defects.none T t xs = some rs →
      typedList T t rs = true
  | [], t, rs, h => by simp [parseListWith] at h; subst h; simp [typedList]
  | x :: xs, t, rs, h => by
    simp only [parseListWith] at h
    cases hx : parseWith dflt Defects.none T t x with
    | none => simp [hx] at h
    | some a =>
      cases hxs : parseListWith dflt Defects.none T t xs with
      | none => simp [hx, hxs] at h
      | some b =>
        simp [hx, hxs] at h
        subst h
        simp [typedList, parse_typed T dflt hwf hd x t a hx, parseList_typed T dflt hwf hd xs t b hxs]
theorem parseEntries_typed (T : Table) (dflt : InField → GValue → Option RV) (hwf : wfTable T = true)
    (hd : ∀ n o fs f d r, T.find? n = some (.input o fs) → f ∈ fs → f.default = some d →
        dflt f d = some r → typed T f.ty r = true) :
    ∀ (fs : List (String × GValue)) (o : Bool) (fields : List InField),
      entriesTyped T o fields (parseEntriesWith dflt Defects.none T o fields fs)
  | [], o, fields => by intro k r hm; simp [parseEntriesWith] at hm
  | (k, v) :: rest, o, fields => by
    intro k' r hm
    cases hf : fields.find? (·.name = k) with
    | none =>
      rw [parseEntries_cons_none dflt _ T o fields k v rest hf] at hm
      exact parseEntries_typed T dflt hwf hd rest o fields k' r hm
    | some f =>
      rw [parseEntries_cons_some dflt _ T o fields k v rest f hf] at hm
      rcases List.mem_cons.mp hm with heq | hm
      · simp only [Prod.mk.injEq] at heq
        obtain ⟨rfl, hp⟩ := heq
        exact ⟨f, hf, parse_typed T dflt hwf hd v (tyOf o f) r hp.symm⟩
      · exact parseEntries_typed T dflt hwf hd rest o fields k' r hm
end

/-- the two-level evaluation of defaults (`parseD`): every parsed value is typed -/
theorem parseD_typed (T : Table) (hwf : wfTable T = true) (rty : RTy) (v : GValue) (r : RV)
    (h : parseD Defects.none T rty v = some r) : typed T rty r = true :=
  parse_typed T (fieldDefault Defects.none T) hwf
    (fun _ _ _ f d r _ _ _ hr =>
      parse_typed T (fun _ _ => none) hwf (fun _ _ _ _ _ _ _ _ _ hr' => by cases hr') d f.ty r hr)
    v rty r h

end AGV.Lemmas.Coerce
