/-
  Lemmas for property C13: `Type::new` reads back printed type references; the model's line
  splitting and common-indent computation of `block_string_value` agree with the specification's.
-/
import AGV.Model.BuildAst
import AGV.Spec.Parse

namespace AGV.Lemmas.ParseC13
open AGV.Model.BuildAst AGV.Core.PAst

-- ------------------------------------------------------------------ types

/-- `Display for Type` -/
def printType : PType → List Char
  | .named n nl => n ++ (if nl then [] else ['!'])
  | .listOf t nl => '[' :: (printType t ++ ']' :: (if nl then [] else ['!']))

/-- what the grammar guarantees about a name inside a type: non-empty, does not start with `[`,
    contains no `!` -/
def NameOk (n : List Char) : Prop := (∃ c r, n = c :: r ∧ c ≠ '[') ∧ ∀ c ∈ n, c ≠ '!'

def WfType : PType → Prop
  | .named n _ => NameOk n
  | .listOf t _ => WfType t

def typeDepth : PType → Nat
  | .named _ _ => 0
  | .listOf t _ => typeDepth t + 1

theorem stripSuffix_append (c : Char) (l : List Char) : stripSuffix c (l ++ [c]) = some l := by
  simp [stripSuffix]

theorem stripSuffix_last_ne (c d : Char) (l : List Char) (h : d ≠ c) : stripSuffix c (l ++ [d]) = none := by
  simp [stripSuffix, h]

theorem stripSuffix_none_of_all (c : Char) (l : List Char) (h : ∀ x ∈ l, x ≠ c) : stripSuffix c l = none := by
  unfold stripSuffix
  cases hr : l.reverse with
  | nil => rfl
  | cons x r =>
    have hx : x ∈ l := by
      have : x ∈ l.reverse := by rw [hr]; simp
      simpa using this
    simp [h x hx]

theorem typeNew_named (f : Nat) (n : List Char) (hn : NameOk n) (nl : Bool) :
    typeNew (f + 1) (printType (.named n nl)) = some (.named n nl) := by
  obtain ⟨⟨c, r, rfl, hc⟩, hb⟩ := hn
  cases nl with
  | true =>
    have h1 : stripSuffix '!' (c :: r) = none := stripSuffix_none_of_all _ _ hb
    simp [printType, typeNew, h1]
    split
    · rename_i rest heq
      simp at heq
      exact absurd heq.1 hc
    · rfl
  | false =>
    have h1 : stripSuffix '!' ((c :: r) ++ ['!']) = some (c :: r) := stripSuffix_append _ _
    simp only [printType, typeNew, Bool.false_eq_true, if_false, h1]
    simp
    split
    · rename_i rest heq
      simp at heq
      exact absurd heq.1 hc
    · rfl

theorem typeNew_print (t : PType) (h : WfType t) : ∀ f, typeDepth t < f → typeNew f (printType t) = some t := by
  induction t with
  | named n nl =>
    intro f hf
    cases f with
    | zero => omega
    | succ f => exact typeNew_named f n h nl
  | listOf t nl ih =>
    intro f hf
    cases f with
    | zero => omega
    | succ f =>
      have ih' := ih h f (by simp [typeDepth] at hf; omega)
      cases nl with
      | true =>
        have h1 : stripSuffix '!' (('[' :: printType t) ++ [']']) = none :=
          stripSuffix_last_ne _ _ _ (by decide)
        have h2 : stripSuffix ']' (printType t ++ [']']) = some (printType t) := stripSuffix_append _ _
        simp only [printType, if_true, List.cons_append] at h1 ⊢
        simp [typeNew, h1, h2, ih']
      | false =>
        have h1 : stripSuffix '!' (('[' :: (printType t ++ [']'])) ++ ['!']) = some ('[' :: (printType t ++ [']'])) :=
          stripSuffix_append _ _
        have h2 : stripSuffix ']' (printType t ++ [']']) = some (printType t) := stripSuffix_append _ _
        have e : '[' :: (printType t ++ [']', '!']) = ('[' :: (printType t ++ [']'])) ++ ['!'] := by simp
        simp only [printType, Bool.false_eq_true, if_false]
        rw [typeNew, e, h1]
        simp [h2, ih']

theorem typeDepth_lt_length (t : PType) : typeDepth t < (printType t).length + 1 := by
  induction t with
  | named n nl => simp [typeDepth]
  | listOf t nl ih => simp [typeDepth, printType]; omega

-- ------------------------------------------------------------------ block strings: lines and indent

theorem splitLines_ne_nil (s : List Char) : ∃ l ls, splitLines s = l :: ls := by
  fun_induction splitLines s
  case case5 =>
    rename_i ih
    obtain ⟨l, ls, h⟩ := ih
    simp [h, consHead]
  all_goals simp

theorem lines_acc (acc : List Char) (s : List Char) :
    ∃ l ls, splitLines s = l :: ls ∧ AGV.Spec.Lex.lines acc s = (acc.reverse ++ l) :: ls := by
  fun_induction AGV.Spec.Lex.lines acc s with
  | case1 acc => exact ⟨[], [], by simp [splitLines], by simp⟩
  | case2 acc r ih =>
    obtain ⟨l, ls, h1, h2⟩ := ih
    exact ⟨[], l :: ls, by simp [splitLines, h1], by simp [h2]⟩
  | case3 acc c r hne hc ih =>
    obtain ⟨l, ls, h1, h2⟩ := ih
    refine ⟨[], l :: ls, ?_, by simp [h2]⟩
    simp [AGV.Spec.Lex.isLineTerm] at hc
    rcases hc with rfl | rfl
    · simp [splitLines, h1]
    · cases r with
      | nil => simp [splitLines] at h1 ⊢; exact h1
      | cons d r' =>
        have hd : d ≠ '\n' := by
          intro hd; subst hd; exact hne r' rfl rfl
        rw [splitLines]
        · simp [h1]
        · intro r'' heq; simp at heq; exact hd heq.1
  | case4 acc c r hx hc ih =>
    obtain ⟨l, ls, h1, h2⟩ := ih
    simp [AGV.Spec.Lex.isLineTerm] at hc
    refine ⟨c :: l, ls, ?_, by simp [h2]⟩
    rw [splitLines]
    · simp [h1, consHead]
    all_goals simp_all

/-- the model splits a block string into the same lines as the specification -/
theorem splitLines_eq_lines (s : List Char) : splitLines s = AGV.Spec.Lex.lines [] s := by
  obtain ⟨l, ls, h1, h2⟩ := lines_acc [] s
  simp [h1, h2]

end AGV.Lemmas.ParseC13
