/-
  C20: exactness for object-only documents.  For a well-formed document whose single operation
  selects only on object types (`Spec.Cache.objOnly`), the repaired visitor merges exactly the
  keys the response can contain: visited ⊆ reach (the converse of Lemmas/CacheReach.lean).

  * `FlatH`, `CollOK`, `collect_complete` : CollectFields with its visitedFragments set finds every
    field selection reachable through inline fragments and spreads (no fuel runs out, a fragment
    skipped as visited was collected before; acyclicity is not assumed, the height of the
    derivation `FlatH` is the measure)
  * `group_complete`, `collect_oo`, `visit_decomp`, `visit_sub_reach` : the induction over `objOnly`
  * `visit_stable` : the visitor needs no more fuel than `objOnly`
  * `combine_congr` : `combine` depends only on the set of hints
  * `visited_iff_reach` : the two key sets coincide from fuel `n` on
-/
import AGV.Lemmas.CacheReach
import AGV.Lemmas.CacheCombine
namespace AGV.Lemmas.Cache
open AGV.Core AGV.Core.Cache AGV.Model.CacheControl AGV.Spec.Cache AGV.Spec.Exec

/-! ### object-only documents -/

/-- the body of `objOnlySels` for one selection -/
def ooSel (S : Schema) (d : Doc) (fuel : Nat) (t : String) (sel : Sel) : Bool :=
  match sel with
  | .field _ name _ dirs ss _ =>
    !hasCond dirs &&
    (name = "__typename" ||
      match S.field? t name with
      | none => false
      | some fd => ss.isEmpty || objOnlySels S d fuel fd.ty.base ss)
  | .spread name dirs _ =>
    !hasCond dirs &&
    (match d.frag? name with
     | none => false
     | some fr => fr.cond = t && objOnlySels S d fuel t fr.sels)
  | .inline cond dirs ss _ =>
    !hasCond dirs && (cond = none || cond = some t) && objOnlySels S d fuel t ss

theorem objOnlySels_succ (S : Schema) (d : Doc) (fuel : Nat) (t : String) (sels : List Sel) :
    objOnlySels S d (fuel + 1) t sels = (isObject S t && sels.all (ooSel S d fuel t)) := by
  rfl

theorem objOnlySels_iff {S : Schema} {d : Doc} {fuel : Nat} {t : String} {sels : List Sel} :
    objOnlySels S d (fuel + 1) t sels = true ↔ isObject S t = true ∧ ∀ s ∈ sels, ooSel S d fuel t s = true := by
  rw [objOnlySels_succ]; simp

theorem ooSel_step {S : Schema} {d : Doc} {j j' : Nat}
    (ih : ∀ (t : String) (sels : List Sel), objOnlySels S d j t sels = true → objOnlySels S d j' t sels = true)
    (t : String) (s : Sel) (h2 : ooSel S d j t s = true) : ooSel S d j' t s = true := by
  cases s with
  | field al name args dirs ss pos =>
    simp only [ooSel, Bool.and_eq_true, Bool.or_eq_true, decide_eq_true_eq] at h2 ⊢
    refine ⟨h2.1, h2.2.imp id ?_⟩
    intro h3
    cases hf : S.field? t name with
    | none => simp [hf] at h3
    | some fd =>
      simp only [hf, Bool.or_eq_true] at h3 ⊢
      exact h3.imp id (ih _ _)
  | spread name dirs pos =>
    simp only [ooSel, Bool.and_eq_true] at h2 ⊢
    refine ⟨h2.1, ?_⟩
    cases hf : d.frag? name with
    | none => simp [hf] at h2
    | some fr =>
      simp only [hf, Bool.and_eq_true] at h2 ⊢
      exact ⟨h2.2.1, ih _ _ h2.2.2⟩
  | inline cond dirs ss pos =>
    simp only [ooSel, Bool.and_eq_true] at h2 ⊢
    exact ⟨h2.1, ih _ _ h2.2⟩

theorem objOnlySels_mono (S : Schema) (d : Doc) : ∀ (j : Nat) (t : String) (sels : List Sel),
    objOnlySels S d j t sels = true → objOnlySels S d (j + 1) t sels = true := by
  intro j
  induction j with
  | zero => intro t sels h; simp [objOnlySels] at h
  | succ j ih =>
    intro t sels h
    rw [objOnlySels_iff] at h ⊢
    exact ⟨h.1, fun s hs => ooSel_step ih t s (h.2 s hs)⟩

theorem objOnlySels_mono_le (S : Schema) (d : Doc) {j j' : Nat} (h : j ≤ j') (t : String) (sels : List Sel)
    (hh : objOnlySels S d j t sels = true) : objOnlySels S d j' t sels = true := by
  induction h with
  | refl => exact hh
  | step _ ih => exact objOnlySels_mono S d _ t sels ih

theorem ooSel_mono_le (S : Schema) (d : Doc) {j j' : Nat} (h : j ≤ j') (t : String) (s : Sel)
    (hh : ooSel S d j t s = true) : ooSel S d j' t s = true :=
  ooSel_step (fun t sels => objOnlySels_mono_le S d h t sels) t s hh

/-! ### `collect` finds every field of an object-only selection set -/

def occOf (al : Option String) (n : String) (args : List (String × DValue)) (ss : List Sel) (pos : Pos) : FieldOcc :=
  { key := Sel.key al n, name := n, args := args, sels := ss, pos := pos }

/-- `o` is the occurrence of a field selection found in `sels` through at most `h - 1` levels of
    inline fragments and fragment spreads -/
def FlatH (d : Doc) : Nat → List Sel → FieldOcc → Prop
  | 0, _, _ => False
  | h + 1, sels, o =>
    (∃ al n args dirs ss pos, Sel.field al n args dirs ss pos ∈ sels ∧ o = occOf al n args ss pos) ∨
    (∃ cond dirs ss pos, Sel.inline cond dirs ss pos ∈ sels ∧ FlatH d h ss o) ∨
    (∃ nm dirs pos fr, Sel.spread nm dirs pos ∈ sels ∧ d.frag? nm = some fr ∧ FlatH d h fr.sels o)

theorem FlatH_mono (d : Doc) : ∀ (h : Nat) (sels : List Sel) (o : FieldOcc), FlatH d h sels o → FlatH d (h + 1) sels o := by
  intro h
  induction h with
  | zero => intro sels o hh; exact hh.elim
  | succ h ih =>
    intro sels o hh
    rcases hh with h1 | ⟨cond, dirs, ss, pos, hm, h2⟩ | ⟨nm, dirs, pos, fr, hm, hf, h2⟩
    · exact Or.inl h1
    · exact Or.inr (Or.inl ⟨cond, dirs, ss, pos, hm, ih _ _ h2⟩)
    · exact Or.inr (Or.inr ⟨nm, dirs, pos, fr, hm, hf, ih _ _ h2⟩)

theorem FlatH_mono_le (d : Doc) {h h' : Nat} (hle : h ≤ h') (sels : List Sel) (o : FieldOcc)
    (hh : FlatH d h sels o) : FlatH d h' sels o := by
  induction hle with
  | refl => exact hh
  | step _ ih => exact FlatH_mono d _ sels o ih

theorem FlatH_subset (d : Doc) {h : Nat} {sels sels' : List Sel} {o : FieldOcc} (hs : ∀ x ∈ sels, x ∈ sels')
    (hh : FlatH d h sels o) : FlatH d h sels' o := by
  cases h with
  | zero => exact hh.elim
  | succ h =>
    rcases hh with ⟨al, n, args, dirs, ss, pos, hm, e⟩ | ⟨cond, dirs, ss, pos, hm, h2⟩ | ⟨nm, dirs, pos, fr, hm, hf, h2⟩
    · exact Or.inl ⟨al, n, args, dirs, ss, pos, hs _ hm, e⟩
    · exact Or.inr (Or.inl ⟨cond, dirs, ss, pos, hs _ hm, h2⟩)
    · exact Or.inr (Or.inr ⟨nm, dirs, pos, fr, hs _ hm, hf, h2⟩)

theorem FlatH_cons (d : Doc) {h : Nat} {s : Sel} {rest : List Sel} {o : FieldOcc}
    (hh : FlatH d h (s :: rest) o) : FlatH d h [s] o ∨ FlatH d h rest o := by
  cases h with
  | zero => exact hh.elim
  | succ h =>
    rcases hh with ⟨al, n, args, dirs, ss, pos, hm, e⟩ | ⟨cond, dirs, ss, pos, hm, h2⟩ | ⟨nm, dirs, pos, fr, hm, hf, h2⟩
    · rcases List.mem_cons.1 hm with e' | e'
      · exact Or.inl (Or.inl ⟨al, n, args, dirs, ss, pos, e' ▸ List.mem_singleton.2 rfl, e⟩)
      · exact Or.inr (Or.inl ⟨al, n, args, dirs, ss, pos, e', e⟩)
    · rcases List.mem_cons.1 hm with e' | e'
      · exact Or.inl (Or.inr (Or.inl ⟨cond, dirs, ss, pos, e' ▸ List.mem_singleton.2 rfl, h2⟩))
      · exact Or.inr (Or.inr (Or.inl ⟨cond, dirs, ss, pos, e', h2⟩))
    · rcases List.mem_cons.1 hm with e' | e'
      · exact Or.inl (Or.inr (Or.inr ⟨nm, dirs, pos, fr, e' ▸ List.mem_singleton.2 rfl, hf, h2⟩))
      · exact Or.inr (Or.inr (Or.inr ⟨nm, dirs, pos, fr, e', hf, h2⟩))

/-- `o` is a field of a fragment already in the visited set, found there at a height below `h` -/
def Cov (d : Doc) (vis : List String) (o : FieldOcc) (h : Nat) : Prop :=
  ∃ nm ∈ vis, ∃ fr, d.frag? nm = some fr ∧ ∃ h', h' < h ∧ FlatH d h' fr.sels o

theorem Cov.mono {d : Doc} {vis : List String} {o : FieldOcc} {h h' : Nat} (hle : h ≤ h') (hc : Cov d vis o h) :
    Cov d vis o h' := by
  obtain ⟨nm, hnm, fr, hf, h0, hlt, hfl⟩ := hc
  exact ⟨nm, hnm, fr, hf, h0, Nat.lt_of_lt_of_le hlt hle, hfl⟩

/-- what one run of the fold of `collect` over `sels` (from `acc` to `r`) achieves -/
def CollOK (d : Doc) (sels : List Sel) (acc r : List FieldOcc × List String) : Prop :=
  (∀ o ∈ acc.1, o ∈ r.1) ∧ (∀ nm ∈ acc.2, nm ∈ r.2) ∧
  (∀ o h, FlatH d h sels o → o ∈ r.1 ∨ Cov d acc.2 o h) ∧
  (∀ nm ∈ r.2, nm ∉ acc.2 → ∀ fr, d.frag? nm = some fr → ∀ o h, FlatH d h fr.sels o → o ∈ r.1 ∨ Cov d acc.2 o (h + 1))

theorem CollOK.nil (d : Doc) (acc : List FieldOcc × List String) : CollOK d [] acc acc := by
  refine ⟨fun _ h => h, fun _ h => h, ?_, fun nm h hn => absurd h hn⟩
  intro o h hh
  cases h with
  | zero => exact hh.elim
  | succ h =>
    rcases hh with ⟨_, _, _, _, _, _, hm, _⟩ | ⟨_, _, _, _, hm, _⟩ | ⟨_, _, _, _, hm, _⟩ <;> cases hm

theorem CollOK.cons {d : Doc} {s : Sel} {rest : List Sel} {acc a1 r : List FieldOcc × List String}
    (h1 : CollOK d [s] acc a1) (h2 : CollOK d rest a1 r) : CollOK d (s :: rest) acc r := by
  obtain ⟨p1, p2, p3, p4⟩ := h1
  obtain ⟨q1, q2, q3, q4⟩ := h2
  -- a covering by the intermediate visited set is a covering by the initial one, or collected
  have conv : ∀ o h, Cov d a1.2 o h → o ∈ r.1 ∨ Cov d acc.2 o h := by
    intro o h ⟨nm, hnm, fr, hf, h0, hlt, hfl⟩
    by_cases hin : nm ∈ acc.2
    · exact Or.inr ⟨nm, hin, fr, hf, h0, hlt, hfl⟩
    · rcases p4 nm hnm hin fr hf o h0 hfl with h | h
      · exact Or.inl (q1 o h)
      · exact Or.inr (h.mono hlt)
  refine ⟨fun o h => q1 o (p1 o h), fun nm h => q2 nm (p2 nm h), ?_, ?_⟩
  · intro o h hh
    rcases FlatH_cons d hh with hh | hh
    · rcases p3 o h hh with h' | h'
      · exact Or.inl (q1 o h')
      · exact Or.inr h'
    · rcases q3 o h hh with h' | h'
      · exact Or.inl h'
      · exact conv o h h'
  · intro nm hnm hnin fr hf o h hh
    by_cases hin : nm ∈ a1.2
    · rcases p4 nm hin hnin fr hf o h hh with h' | h'
      · exact Or.inl (q1 o h')
      · exact Or.inr h'
    · rcases q4 nm hnm hin fr hf o h hh with h' | h'
      · exact Or.inl h'
      · exact conv o (h + 1) h'

theorem excluded_of_not_hasCond (vars : List (String × GValue)) (dirs : List Dir) (h : hasCond dirs = false) :
    excluded vars dirs = false := by
  unfold hasCond at h
  unfold excluded
  rw [List.any_eq_false] at h ⊢
  intro x hx
  have := h x hx
  simp only [Bool.or_eq_true, decide_eq_true_eq, not_or] at this
  simp [this.1, this.2]

theorem doesApply_self {S : Schema} {t : String} (h : isObject S t = true) : doesApply S t t = true := by
  unfold isObject Schema.kindOf at h
  unfold doesApply
  cases hf : S.find? t with
  | none => simp [hf] at h
  | some td =>
    have : td.kind = .object := by
      cases hk : td.kind
      case object => rfl
      all_goals (simp [hf, hk] at h; exact absurd h (by decide))
    simp [this]

/-- the recursive calls of `collect` at fuel `F` are complete on object-only selection sets -/
def RecOK (c : Ctx) (t : String) (F : Nat) : Prop :=
  ∀ (j : Nat) (ss : List Sel) (vis : List String), j ≤ F → objOnlySels c.S c.d j t ss = true →
    CollOK c.d ss ([], vis) (collect c t F ss vis)

theorem collectStep_ok {c : Ctx} {t : String} (ht : isObject c.S t = true) {F : Nat} (hR : RecOK c t F)
    {j : Nat} (hj : j ≤ F) (s : Sel) (hs : ooSel c.S c.d j t s = true) (acc : List FieldOcc × List String) :
    CollOK c.d [s] acc (collectStep c t F acc s) := by
  cases s with
  | field al n args dirs ss pos =>
    simp only [ooSel, Bool.and_eq_true, Bool.not_eq_true'] at hs
    simp only [collectStep, excluded_of_not_hasCond c.vars dirs hs.1, Bool.false_eq_true, if_false]
    refine ⟨fun o h => List.mem_append.2 (Or.inl h), fun _ h => h, ?_, fun nm h hn => absurd h hn⟩
    intro o h hh
    left
    cases h with
    | zero => exact hh.elim
    | succ h =>
      rcases hh with ⟨al', n', args', dirs', ss', pos', hm, e⟩ | ⟨_, _, _, _, hm, _⟩ | ⟨_, _, _, _, hm, _⟩
      · rw [List.mem_singleton] at hm
        cases hm
        rw [e]
        exact List.mem_append.2 (Or.inr (List.mem_singleton.2 rfl))
      · rw [List.mem_singleton] at hm; cases hm
      · rw [List.mem_singleton] at hm; cases hm
  | inline cond dirs ss pos =>
    simp only [ooSel, Bool.and_eq_true, Bool.not_eq_true', Bool.or_eq_true, decide_eq_true_eq] at hs
    obtain ⟨⟨hc, hcond⟩, hoo⟩ := hs
    have hrec := hR j ss acc.2 hj hoo
    have key : CollOK c.d [Sel.inline cond dirs ss pos] acc
        (acc.1 ++ (collect c t F ss acc.2).1, (collect c t F ss acc.2).2) := by
      obtain ⟨_, r2, r3, r4⟩ := hrec
      refine ⟨fun o h => List.mem_append.2 (Or.inl h), r2, ?_, ?_⟩
      · intro o h hh
        cases h with
        | zero => exact hh.elim
        | succ h =>
          rcases hh with ⟨_, _, _, _, _, _, hm, _⟩ | ⟨cond', dirs', ss', pos', hm, h2⟩ | ⟨_, _, _, _, hm, _⟩
          · rw [List.mem_singleton] at hm; cases hm
          · rw [List.mem_singleton] at hm
            cases hm
            rcases r3 o h h2 with h' | h'
            · exact Or.inl (List.mem_append.2 (Or.inr h'))
            · exact Or.inr (h'.mono (Nat.le_succ _))
          · rw [List.mem_singleton] at hm; cases hm
      · intro nm hnm hnin fr hf o h hh
        rcases r4 nm hnm hnin fr hf o h hh with h' | h'
        · exact Or.inl (List.mem_append.2 (Or.inr h'))
        · exact Or.inr h'
    simp only [collectStep, excluded_of_not_hasCond c.vars dirs hc, Bool.false_eq_true, if_false]
    rcases hcond with e | e
    · subst e; exact key
    · subst e
      simp only [doesApply_self ht, Bool.not_true, Bool.false_eq_true, if_false]
      exact key
  | spread nm dirs pos =>
    simp only [ooSel, Bool.and_eq_true, Bool.not_eq_true'] at hs
    obtain ⟨hc, hfr⟩ := hs
    cases hf : c.d.frag? nm with
    | none => simp [hf] at hfr
    | some fr =>
      simp only [hf, Bool.and_eq_true, decide_eq_true_eq] at hfr
      obtain ⟨hcond, hoo⟩ := hfr
      simp only [collectStep, excluded_of_not_hasCond c.vars dirs hc, Bool.false_eq_true, if_false]
      by_cases hin : acc.2.contains nm = true
      · rw [if_pos hin]
        have hin' : nm ∈ acc.2 := by simpa using hin
        refine ⟨fun _ h => h, fun _ h => h, ?_, fun nm h hn => absurd h hn⟩
        intro o h hh
        right
        cases h with
        | zero => exact hh.elim
        | succ h =>
          rcases hh with ⟨_, _, _, _, _, _, hm, _⟩ | ⟨_, _, _, _, hm, _⟩ | ⟨nm', dirs', pos', fr', hm, hf', h2⟩
          · rw [List.mem_singleton] at hm; cases hm
          · rw [List.mem_singleton] at hm; cases hm
          · rw [List.mem_singleton] at hm
            cases hm
            rw [hf] at hf'; cases hf'
            exact ⟨nm, hin', fr, hf, h, Nat.lt_succ_self _, h2⟩
      · rw [if_neg hin]
        have hnin : nm ∉ acc.2 := by simpa using hin
        simp only [hf, hcond, doesApply_self ht, Bool.not_true, Bool.false_eq_true, if_false]
        obtain ⟨_, r2, r3, r4⟩ := hR j fr.sels (nm :: acc.2) hj hoo
        -- every field of the fragment is collected or was covered before
        have K : ∀ h o, FlatH c.d h fr.sels o →
            o ∈ (collect c t F fr.sels (nm :: acc.2)).1 ∨ Cov c.d acc.2 o (h + 1) := by
          intro h
          induction h using Nat.strongRecOn with
          | _ h ih =>
            intro o hh
            rcases r3 o h hh with h' | ⟨nm', hnm', fr', hf', h0, hlt, hfl⟩
            · exact Or.inl h'
            · rcases List.mem_cons.1 hnm' with e | e
              · subst e
                rw [hf] at hf'; cases hf'
                rcases ih h0 hlt o hfl with h' | h'
                · exact Or.inl h'
                · exact Or.inr (h'.mono (by omega))
              · exact Or.inr ⟨nm', e, fr', hf', h0, by omega, hfl⟩
        refine ⟨fun o h => List.mem_append.2 (Or.inl h), fun x hx => r2 x (List.mem_cons_of_mem _ hx), ?_, ?_⟩
        · intro o h hh
          cases h with
          | zero => exact hh.elim
          | succ h =>
            rcases hh with ⟨_, _, _, _, _, _, hm, _⟩ | ⟨_, _, _, _, hm, _⟩ | ⟨nm', dirs', pos', fr', hm, hf', h2⟩
            · rw [List.mem_singleton] at hm; cases hm
            · rw [List.mem_singleton] at hm; cases hm
            · rw [List.mem_singleton] at hm
              cases hm
              rw [hf] at hf'; cases hf'
              rcases K h o h2 with h' | h'
              · exact Or.inl (List.mem_append.2 (Or.inr h'))
              · exact Or.inr h'
        · intro nm2 hnm2 hnin2 fr2 hf2 o h hh
          by_cases e : nm2 = nm
          · subst e
            rw [hf] at hf2; cases hf2
            rcases K h o hh with h' | h'
            · exact Or.inl (List.mem_append.2 (Or.inr h'))
            · exact Or.inr h'
          · have hnin3 : nm2 ∉ nm :: acc.2 := by
              intro hm
              rcases List.mem_cons.1 hm with e' | e'
              · exact e e'
              · exact hnin2 e'
            rcases r4 nm2 hnm2 hnin3 fr2 hf2 o h hh with h' | ⟨nm', hnm', fr', hf', h0, hlt, hfl⟩
            · exact Or.inl (List.mem_append.2 (Or.inr h'))
            · rcases List.mem_cons.1 hnm' with e' | e'
              · subst e'
                rw [hf] at hf'; cases hf'
                rcases K h0 o hfl with h' | h'
                · exact Or.inl (List.mem_append.2 (Or.inr h'))
                · exact Or.inr (h'.mono (by omega))
              · exact Or.inr ⟨nm', e', fr', hf', h0, hlt, hfl⟩

theorem foldl_collect_ok {c : Ctx} {t : String} (ht : isObject c.S t = true) {F : Nat} (hR : RecOK c t F)
    {j : Nat} (hj : j ≤ F) : ∀ (sels : List Sel) (acc : List FieldOcc × List String),
    (∀ s ∈ sels, ooSel c.S c.d j t s = true) → CollOK c.d sels acc (sels.foldl (collectStep c t F) acc) := by
  intro sels
  induction sels with
  | nil => intro acc _; exact CollOK.nil _ _
  | cons s rest ih =>
    intro acc hs
    rw [List.foldl_cons]
    exact CollOK.cons (collectStep_ok ht hR hj s (hs s (List.mem_cons_self ..)) acc)
      (ih _ (fun x hx => hs x (List.mem_cons_of_mem _ hx)))

theorem recOK_all {c : Ctx} {t : String} (ht : isObject c.S t = true) : ∀ F, RecOK c t F := by
  intro F
  induction F with
  | zero =>
    intro j ss vis hj hoo
    have : j = 0 := by omega
    subst this
    simp [objOnlySels] at hoo
  | succ F ih =>
    intro j ss vis hj hoo
    cases j with
    | zero => simp [objOnlySels] at hoo
    | succ j =>
      rw [objOnlySels_iff] at hoo
      rw [collect_succ]
      exact foldl_collect_ok ht ih (by omega) ss _ hoo.2

/-- completeness of CollectFields on an object-only selection set: with enough fuel every field
    selection reachable through inline fragments and spreads is collected -/
theorem collect_complete {c : Ctx} {t : String} {j F : Nat} {sels : List Sel} (hj : j ≤ F)
    (hoo : objOnlySels c.S c.d j t sels = true) {h : Nat} {o : FieldOcc} (hh : FlatH c.d h sels o) :
    o ∈ (collect c t F sels []).1 := by
  have ht : isObject c.S t = true := by
    cases j with
    | zero => simp [objOnlySels] at hoo
    | succ j => exact (objOnlySels_iff.1 hoo).1
  obtain ⟨_, _, r3, _⟩ := recOK_all ht F j sels [] hj hoo
  rcases r3 o h hh with h' | ⟨nm, hnm, _⟩
  · exact h'
  · cases hnm


/-! ### `group` keeps every occurrence -/

theorem group_complete_aux : ∀ (occs : List FieldOcc) (gs : List (String × List FieldOcc)),
    (∀ g ∈ gs, ∃ g' ∈ occs.foldl (fun gs o =>
        if gs.any (·.1 = o.key) then gs.map (fun g => if g.1 = o.key then (g.1, g.2 ++ [o]) else g)
        else gs ++ [(o.key, [o])]) gs, g'.1 = g.1 ∧ ∀ x ∈ g.2, x ∈ g'.2) ∧
    (∀ o ∈ occs, ∃ g' ∈ occs.foldl (fun gs o =>
        if gs.any (·.1 = o.key) then gs.map (fun g => if g.1 = o.key then (g.1, g.2 ++ [o]) else g)
        else gs ++ [(o.key, [o])]) gs, g'.1 = o.key ∧ o ∈ g'.2) := by
  intro occs
  induction occs with
  | nil => intro gs; exact ⟨fun g hg => ⟨g, hg, rfl, fun _ h => h⟩, fun o h => by cases h⟩
  | cons o rest ih =>
    intro gs
    rw [List.foldl_cons]
    generalize hgs1 : (if gs.any (·.1 = o.key) then gs.map (fun g => if g.1 = o.key then (g.1, g.2 ++ [o]) else g)
        else gs ++ [(o.key, [o])]) = gs1
    obtain ⟨i1, i2⟩ := ih gs1
    have s12 : (∀ g ∈ gs, ∃ g1 ∈ gs1, g1.1 = g.1 ∧ ∀ x ∈ g.2, x ∈ g1.2) ∧ (∃ g1 ∈ gs1, g1.1 = o.key ∧ o ∈ g1.2) := by
      subst hgs1
      split
      · rename_i hany
        constructor
        · intro g hg
          refine ⟨_, List.mem_map.2 ⟨g, hg, rfl⟩, ?_⟩
          split
          · exact ⟨rfl, fun x hx => List.mem_append.2 (Or.inl hx)⟩
          · exact ⟨rfl, fun x hx => hx⟩
        · rw [List.any_eq_true] at hany
          obtain ⟨g, hg, hk⟩ := hany
          have hk' : g.1 = o.key := by simpa using hk
          refine ⟨_, List.mem_map.2 ⟨g, hg, rfl⟩, ?_⟩
          rw [if_pos hk']
          exact ⟨hk', List.mem_append.2 (Or.inr (List.mem_singleton.2 rfl))⟩
      · constructor
        · intro g hg
          exact ⟨g, List.mem_append.2 (Or.inl hg), rfl, fun x hx => hx⟩
        · exact ⟨_, List.mem_append.2 (Or.inr (List.mem_singleton.2 rfl)), rfl, List.mem_singleton.2 rfl⟩
    obtain ⟨s1, g1, hg1, hk1, ho1⟩ := s12
    constructor
    · intro g hg
      obtain ⟨g1', hg1', e1, sub1⟩ := s1 g hg
      obtain ⟨g', hg', e2, sub2⟩ := i1 g1' hg1'
      exact ⟨g', hg', e2.trans e1, fun x hx => sub2 x (sub1 x hx)⟩
    · intro o' ho'
      rcases List.mem_cons.1 ho' with e | e
      · subst e
        obtain ⟨g', hg', e2, sub2⟩ := i1 g1 hg1
        exact ⟨g', hg', e2.trans hk1, sub2 _ ho1⟩
      · exact i2 o' e

theorem group_complete (occs : List FieldOcc) (o : FieldOcc) (ho : o ∈ occs) :
    ∃ g ∈ group occs, g.1 = o.key ∧ o ∈ g.2 :=
  (group_complete_aux occs []).2 o ho

/-! ### object-only: every collected occurrence is object-only -/

theorem isObject_iff {S : Schema} {t : String} : isObject S t = true ↔ S.kindOf t = some .object := by
  unfold isObject
  cases h : S.kindOf t with
  | none => decide
  | some k => cases k <;> decide

/-- the object-only condition of a collected occurrence at level `J` -/
def OO (S : Schema) (d : Doc) (J : Nat) (t : String) (o : FieldOcc) : Prop :=
  o.name = "__typename" ∨ ∃ fd, S.field? t o.name = some fd ∧ (o.sels = [] ∨ objOnlySels S d J fd.ty.base o.sels = true)

theorem collect_oo {c : Ctx} {t : String} {J : Nat} : ∀ (F : Nat) (sels : List Sel) (vis : List String),
    (∀ s ∈ sels, ooSel c.S c.d J t s = true) → ∀ o ∈ (collect c t F sels vis).1, OO c.S c.d J t o := by
  intro F
  induction F with
  | zero => intro sels vis _ o h; simp [collect] at h
  | succ F ih =>
    intro sels vis hs
    rw [collect_succ]
    apply foldl_inv_mem (fun (acc : List FieldOcc × List String) => ∀ o ∈ acc.1, OO c.S c.d J t o)
    · intro o h; cases h
    · intro acc s hmem hacc
      have h2 := hs s hmem
      -- nested selection sets are object-only one level down, hence at level J
      have lift : ∀ ss, objOnlySels c.S c.d J t ss = true → ∀ x ∈ ss, ooSel c.S c.d J t x = true := by
        intro ss hoo x hx
        cases J with
        | zero => simp [objOnlySels] at hoo
        | succ J' => exact ooSel_mono_le c.S c.d (Nat.le_succ _) t x ((objOnlySels_iff.1 hoo).2 x hx)
      cases s with
      | field al n args dirs ss pos =>
        simp only [collectStep]
        split
        · exact hacc
        · intro o ho
          rcases List.mem_append.1 ho with h | h
          · exact hacc o h
          · rw [List.mem_singleton] at h
            subst h
            simp only [ooSel, Bool.and_eq_true, Bool.or_eq_true, decide_eq_true_eq] at h2
            rcases h2.2 with e | e
            · exact Or.inl e
            · right
              cases hf : c.S.field? t n with
              | none => simp [hf] at e
              | some fd =>
                simp only [hf, Bool.or_eq_true] at e
                exact ⟨fd, rfl, e.imp (by simp) id⟩
      | spread nm dirs pos =>
        simp only [ooSel, Bool.and_eq_true] at h2
        simp only [collectStep]
        split
        · exact hacc
        · split
          · exact hacc
          · split
            · exact hacc
            · rename_i fr hf
              simp only [hf, Bool.and_eq_true] at h2
              split
              · exact hacc
              · intro o ho
                rcases List.mem_append.1 ho with h | h
                · exact hacc o h
                · exact ih fr.sels _ (lift _ h2.2.2) o h
      | inline cond dirs ss pos =>
        simp only [ooSel, Bool.and_eq_true] at h2
        simp only [collectStep]
        split
        · exact hacc
        · cases cond with
          | some t' =>
            dsimp only
            split
            · exact hacc
            · intro o ho
              rcases List.mem_append.1 ho with h | h
              · exact hacc o h
              · exact ih ss _ (lift _ h2.2) o h
          | none =>
            dsimp only
            intro o ho
            rcases List.mem_append.1 ho with h | h
            · exact hacc o h
            · exact ih ss _ (lift _ h2.2) o h

/-! ### object-only: what the visitor merges comes from a flattened field -/

theorem enterSet_object {S : Schema} {t : String} (h : S.kindOf t = some .object) :
    enterSet {} S (some t) = [⟨t, none⟩] := by
  simp [enterSet, h]

theorem typeNamed_object {S : Schema} {t : String} (h : S.kindOf t = some .object) : typeNamed S t = some t := by
  unfold Schema.kindOf at h
  cases hf : S.find? t with
  | none => simp [hf] at h
  | some td => exact typeNamed_of_find hf

theorem visit_decomp {S : Schema} {d : Doc} {t : String} (ht : S.kindOf t = some .object) :
    ∀ (m j : Nat) (sels : List Sel) (k : Key), objOnlySels S d j t sels = true →
      k ∈ visitSet {} S d m (some t) sels →
      k = ⟨t, none⟩ ∨ ∃ al n args ss pos h, FlatH d h sels (occOf al n args ss pos) ∧ n ≠ "__typename" ∧
        (k ∈ enterField {} S (some t) n ∨ ∃ m', k ∈ visitSet {} S d m' (fieldType S (some t) n) ss) := by
  intro m
  induction m with
  | zero => intro j sels k _ h; simp [visitSet] at h
  | succ m ih =>
    intro j sels k hoo hk
    cases j with
    | zero => simp [objOnlySels] at hoo
    | succ j =>
      rw [objOnlySels_iff] at hoo
      rw [mem_visitSet_succ, enterSet_object ht] at hk
      rcases hk.2 with h1 | ⟨sel, hsel, h1⟩
      · exact Or.inl (List.mem_singleton.1 h1)
      · have h2 := hoo.2 sel hsel
        cases sel with
        | field al n args dirs ss pos =>
          simp only [selKeys] at h1
          split at h1
          · cases h1
          · rename_i hn
            right
            refine ⟨al, n, args, ss, pos, 1, Or.inl ⟨al, n, args, dirs, ss, pos, hsel, rfl⟩, hn, ?_⟩
            rcases List.mem_append.1 h1 with h | h
            · exact Or.inl h
            · exact Or.inr ⟨m, h⟩
        | spread nm dirs pos =>
          simp only [ooSel, Bool.and_eq_true] at h2
          simp only [selKeys] at h1
          cases hf : d.frag? nm with
          | none => simp [hf] at h2
          | some fr =>
            simp only [hf, Bool.and_eq_true, decide_eq_true_eq] at h2 h1
            have h1' : k ∈ visitSet {} S d m (some t) fr.sels := by
              have : typeNamed S fr.cond = some t := by rw [h2.2.1]; exact typeNamed_object ht
              simpa [this] using h1
            rcases ih j fr.sels k h2.2.2 h1' with e | ⟨al, n, args, ss, pos', h, hfl, hn, hk'⟩
            · exact Or.inl e
            · exact Or.inr ⟨al, n, args, ss, pos', h + 1, Or.inr (Or.inr ⟨nm, dirs, pos, fr, hsel, hf, hfl⟩), hn, hk'⟩
        | inline cond dirs ss pos =>
          simp only [ooSel, Bool.and_eq_true, Bool.or_eq_true, decide_eq_true_eq] at h2
          have h1' : k ∈ visitSet {} S d m (some t) ss := by
            rcases h2.1.2 with e | e
            · subst e; simpa [selKeys] using h1
            · subst e; simpa [selKeys, typeNamed_object ht] using h1
          rcases ih j ss k h2.2 h1' with e | ⟨al, n, args, ss', pos', h, hfl, hn, hk'⟩
          · exact Or.inl e
          · exact Or.inr ⟨al, n, args, ss', pos', h + 1, Or.inr (Or.inl ⟨cond, dirs, ss, pos, hsel, hfl⟩), hn, hk'⟩



theorem visitSet_nil (D : Defects) (S : Schema) (d : Doc) (m : Nat) (cur : Option String) :
    visitSet D S d m cur [] = [] := by
  cases m <;> rfl

/-! ### object-only: visited ⊆ reach -/

theorem enterField_object {S : Schema} {t n : String} {fd : FieldDef} (ht : S.kindOf t = some .object)
    (hf : S.field? t n = some fd) : enterField {} S (some t) n = [⟨t, some n⟩] := by
  simp [enterField, hf, isAbstract, ht]

theorem possible_object {S : Schema} {t : String} (ht : S.kindOf t = some .object) : S.possibleTypes t = [t] := by
  unfold Schema.kindOf at ht
  unfold Schema.possibleTypes
  cases hf : S.find? t with
  | none => simp [hf] at ht
  | some td =>
    have : td.kind = .object := by simpa [hf] using ht
    simp [this]

/-- the occurrences of one group carry the same field name -/
theorem group_same_name {c : Ctx} {N : String → String} {V : Key → Prop} {rt : String}
    {g : String × List FieldOcc} (hkey : ∀ o ∈ g.2, o.key = g.1) (hocc : ∀ o ∈ g.2, OccOK c N V rt o)
    {o o' : FieldOcc} (ho : o ∈ g.2) (ho' : o' ∈ g.2) : o.name = o'.name := by
  rw [← (hocc o ho).1, ← (hocc o' ho').1, hkey o ho, hkey o' ho']

/-- the merged selection set of a group is covered below every possible runtime type of the field -/
theorem cov_merged {c : Ctx} {N : String → String} {V : Key → Prop} (hS : WfSchema c.S) {rt : String}
    {g : String × List FieldOcc} (hkey : ∀ o ∈ g.2, o.key = g.1) (hocc : ∀ o ∈ g.2, OccOK c N V rt o)
    {occ : FieldOcc} (hmem0 : occ ∈ g.2) (hn : occ.name ≠ "__typename") {fd : FieldDef}
    (hfd : c.S.field? rt occ.name = some fd) {rt' : String} (hrt' : rt' ∈ c.S.possibleTypes fd.ty.base) :
    ∀ sel ∈ (g.2.map (·.sels)).flatten, CovSel c N V rt' sel := by
  intro sel hsel
  obtain ⟨l, hl, hsel⟩ := List.mem_flatten.1 hsel
  obtain ⟨o, ho, rfl⟩ := List.mem_map.1 hl
  obtain ⟨_, ti, hrti, hi⟩ := hocc o ho
  rw [group_same_name hkey hocc ho hmem0] at hi
  obtain ⟨_, fdSi, hfdSi, _, hwfi, hvisi⟩ := hi hn
  have hposs := covariant' hS hrti hfdSi hfd hrt'
  obtain ⟨td, htd⟩ := find_of_possible hposs
  refine ⟨fdSi.ty.base, hposs, ?_, wfSels_mem hwfi hsel⟩
  intro k' hk'
  apply hvisi k'
  rw [typeNamed_of_find htd]
  exact Vis.of_mem hsel hk'

theorem visit_sub_reach {c : Ctx} {N : String → String} (hS : WfSchema c.S)
    (hfr : ∀ fr ∈ c.d.frags, wfSels c.S N fr.cond fr.sels = true) :
    ∀ (j : Nat) (t : String) (M sels : List Sel) (m F : Nat) (k : Key),
      objOnlySels c.S c.d j t M = true → (∀ x ∈ sels, x ∈ M) →
      (∀ sel ∈ M, CovSel c N (fun _ => True) t sel) → j ≤ F →
      k ∈ visitSet {} c.S c.d m (some t) sels → k ∈ reach c F t M := by
  intro j
  induction j with
  | zero => intro t M sels m F k hoo; simp [objOnlySels] at hoo
  | succ j ih =>
    intro t M sels m F k hoo hsub hcov hF hk
    have hoo' := objOnlySels_iff.1 hoo
    have ht := isObject_iff.1 hoo'.1
    cases F with
    | zero => omega
    | succ F =>
      rw [reach_succ]
      have hooS : objOnlySels c.S c.d (j + 1) t sels = true :=
        objOnlySels_iff.2 ⟨hoo'.1, fun s hs => hoo'.2 s (hsub s hs)⟩
      rcases visit_decomp ht m (j + 1) sels k hooS hk with e | ⟨al, n, args, ss, pos, h, hfl, hn, hk'⟩
      · subst e; exact List.mem_cons_self ..
      · apply List.mem_cons_of_mem
        rw [List.mem_flatMap]
        have hin : occOf al n args ss pos ∈ (collect c t (F + 1) M []).1 :=
          collect_complete hF hoo (FlatH_subset c.d hsub hfl)
        obtain ⟨g, hg, _, hgo⟩ := group_complete _ _ hin
        refine ⟨g, hg, ?_⟩
        have hgm := group_mem _ g hg
        have hkey : ∀ o ∈ g.2, o.key = g.1 := fun o ho => (hgm o ho).2
        have hOK : ∀ o ∈ g.2, OccOK c N (fun _ => True) t o :=
          fun o ho => collect_ok hfr ht _ _ _ hcov o (hgm o ho).1
        have hOO : ∀ o ∈ g.2, OO c.S c.d j t o :=
          fun o ho => collect_oo _ _ _ hoo'.2 o (hgm o ho).1
        unfold reachGroup
        split
        · rename_i hnil; rw [hnil] at hgo; cases hgo
        · rename_i occ rest hg2
          have hmem0 : occ ∈ g.2 := by rw [hg2]; exact List.mem_cons_self ..
          have hname : occ.name = n := group_same_name hkey hOK hmem0 hgo
          have hn0 : occ.name ≠ "__typename" := by rw [hname]; exact hn
          rw [if_neg hn0]
          rcases hOO occ hmem0 with e | ⟨fd, hfd, _⟩
          · exact absurd e hn0
          · rw [hfd]
            simp only
            rw [hname] at hfd
            rcases hk' with hk' | ⟨m', hk'⟩
            · rw [enterField_object ht hfd, List.mem_singleton] at hk'
              rw [hk', hname]; exact List.mem_cons_self ..
            · apply List.mem_cons_of_mem
              have hssne : ss ≠ [] := by
                intro e; subst e
                rw [visitSet_nil] at hk'; cases hk'
              rcases hOO _ hgo with e | ⟨fd', hfd', hs'⟩
              · exact absurd e hn
              · have : fd' = fd := by
                  have : some fd' = some fd := by rw [← hfd', ← hfd]; rfl
                  exact Option.some.inj this
                subst this
                rcases hs' with e | hooss
                · exact absurd e hssne
                · have hooss' : objOnlySels c.S c.d j fd'.ty.base ss = true := hooss
                  cases j with
                  | zero => simp [objOnlySels] at hooss'
                  | succ j0 =>
                    have hb := isObject_iff.1 (objOnlySels_iff.1 hooss').1
                    rw [possible_object hb]
                    simp only [List.flatMap_cons, List.flatMap_nil, List.append_nil]
                    have hft : fieldType c.S (some t) n = some fd'.ty.base := by
                      rw [fieldType_some hfd, typeNamed_object hb]
                    rw [hft] at hk'
                    refine ih fd'.ty.base _ ss m' F k ?_ ?_ ?_ (by omega) hk'
                    · rw [objOnlySels_iff]
                      refine ⟨(objOnlySels_iff.1 hooss').1, ?_⟩
                      intro x hx
                      obtain ⟨l, hl, hx⟩ := List.mem_flatten.1 hx
                      obtain ⟨o, ho, rfl⟩ := List.mem_map.1 hl
                      rcases hOO o ho with e | ⟨fdo, hfdo, hso⟩
                      · rw [group_same_name hkey hOK ho hmem0] at e; exact absurd e hn0
                      · rw [group_same_name hkey hOK ho hmem0, hname, hfd] at hfdo
                        cases hfdo
                        rcases hso with e | e
                        · rw [e] at hx; cases hx
                        · exact (objOnlySels_iff.1 e).2 x hx
                    · intro x hx
                      exact List.mem_flatten.2 ⟨_, List.mem_map.2 ⟨_, hgo, rfl⟩, hx⟩
                    · have hfd0 : c.S.field? t occ.name = some fd' := by rw [hname]; exact hfd
                      exact cov_merged hS hkey hOK hmem0 hn0 hfd0
                        (by rw [possible_object hb]; exact List.mem_singleton.2 rfl)



/-! ### object-only: the visitor needs no more fuel than `objOnly` -/

theorem visit_stable {S : Schema} {d : Doc} : ∀ (j : Nat) (t : String) (sels : List Sel) (m : Nat) (k : Key),
    objOnlySels S d j t sels = true → k ∈ visitSet {} S d m (some t) sels → k ∈ visitSet {} S d j (some t) sels := by
  intro j
  induction j with
  | zero => intro t sels m k hoo; simp [objOnlySels] at hoo
  | succ j ih =>
    intro t sels m k hoo hk
    have hoo' := objOnlySels_iff.1 hoo
    have ht := isObject_iff.1 hoo'.1
    cases m with
    | zero => simp [visitSet] at hk
    | succ m =>
      rw [mem_visitSet_succ] at hk ⊢
      refine ⟨hk.1, ?_⟩
      rcases hk.2 with h1 | ⟨sel, hsel, h1⟩
      · exact Or.inl h1
      · refine Or.inr ⟨sel, hsel, ?_⟩
        have h2 := hoo'.2 sel hsel
        cases sel with
        | field al n args dirs ss pos =>
          simp only [selKeys] at h1 ⊢
          split
          · rename_i hn; simp [hn] at h1
          · rename_i hn
            rw [if_neg hn, List.mem_append] at h1
            rw [List.mem_append]
            refine h1.imp id ?_
            intro h3
            have hssne : ss ≠ [] := by
              intro e; subst e
              rw [visitSet_nil] at h3; cases h3
            simp only [ooSel, Bool.and_eq_true, Bool.or_eq_true, decide_eq_true_eq] at h2
            rcases h2.2 with e | e
            · exact absurd e hn
            · cases hf : S.field? t n with
              | none => simp [hf] at e
              | some fd =>
                simp only [hf, Bool.or_eq_true] at e
                rcases e with e | e
                · exact absurd (by simpa using e) hssne
                · have hb : S.kindOf fd.ty.base = some .object := by
                    cases j with
                    | zero => simp [objOnlySels] at e
                    | succ j0 => exact isObject_iff.1 (objOnlySels_iff.1 e).1
                  rw [fieldType_some hf, typeNamed_object hb] at h3 ⊢
                  exact ih _ _ _ _ e h3
        | spread nm dirs pos =>
          simp only [ooSel, Bool.and_eq_true] at h2
          simp only [selKeys] at h1 ⊢
          cases hf : d.frag? nm with
          | none => simp [hf] at h2
          | some fr =>
            simp only [hf, Bool.and_eq_true, decide_eq_true_eq] at h2 h1 ⊢
            have : typeNamed S fr.cond = some t := by rw [h2.2.1]; exact typeNamed_object ht
            simp only [Bool.false_eq_true, if_false, this] at h1 ⊢
            exact ih _ _ _ _ h2.2.2 h1
        | inline cond dirs ss pos =>
          simp only [ooSel, Bool.and_eq_true, Bool.or_eq_true, decide_eq_true_eq] at h2
          rcases h2.1.2 with e | e
          · subst e
            simp only [selKeys] at h1 ⊢
            exact ih _ _ _ _ h2.2 h1
          · subst e
            simp only [selKeys, typeNamed_object ht] at h1 ⊢
            exact ih _ _ _ _ h2.2 h1

/-! ### `combine` depends only on the set of hints -/

/-- `v` is the least positive max-age of `l` (0 when there is none) -/
def IsLeast (l : List CC) (v : Int) : Prop :=
  (v = 0 ∧ ∀ x ∈ l, ¬ 0 < x.maxAge) ∨
  (0 < v ∧ (∃ x ∈ l, x.maxAge = v) ∧ ∀ y ∈ l, 0 < y.maxAge → v ≤ y.maxAge)

theorem leastPos_cons (x : CC) (l : List CC) :
    leastPos (x :: l) = if 0 < x.maxAge then (if leastPos l = 0 then x.maxAge else min x.maxAge (leastPos l))
      else leastPos l := by
  have ⟨g1, _⟩ := leastPos_spec l
  by_cases hx : 0 < x.maxAge
  · rw [if_pos hx]
    simp only [leastPos, List.filter_cons, hx, decide_true, if_true, List.foldl_cons]
    have : stepAge 0 x = x.maxAge := by simp [stepAge]
    rw [this]; exact g1 _ hx
  · rw [if_neg hx]; simp [leastPos, hx]

theorem leastPos_isLeast (l : List CC) : IsLeast l (leastPos l) := by
  induction l with
  | nil => left; exact ⟨rfl, fun x h => by cases h⟩
  | cons x l ih =>
    rw [leastPos_cons]
    have h0 := (leastPos_spec l).2
    by_cases hx : 0 < x.maxAge
    · rw [if_pos hx]
      right
      rcases ih with ⟨e, hno⟩ | ⟨hp, ⟨y, hy, hye⟩, hle⟩
      · rw [if_pos e]
        refine ⟨hx, ⟨x, List.mem_cons_self .., rfl⟩, ?_⟩
        intro y hy hyp
        rcases List.mem_cons.1 hy with e' | e'
        · subst e'; exact Int.le_refl _
        · exact absurd hyp (hno y e')
      · have hne : leastPos l ≠ 0 := by omega
        rw [if_neg hne]
        refine ⟨by omega, ?_, ?_⟩
        · by_cases hc : x.maxAge ≤ leastPos l
          · exact ⟨x, List.mem_cons_self .., by omega⟩
          · exact ⟨y, List.mem_cons_of_mem _ hy, by omega⟩
        · intro z hz hzp
          rcases List.mem_cons.1 hz with e' | e'
          · subst e'; omega
          · have := hle z e' hzp; omega
    · rw [if_neg hx]
      rcases ih with ⟨e, hno⟩ | ⟨hp, ⟨y, hy, hye⟩, hle⟩
      · left
        refine ⟨e, ?_⟩
        intro z hz
        rcases List.mem_cons.1 hz with e' | e'
        · subst e'; exact hx
        · exact hno z e'
      · right
        refine ⟨hp, ⟨y, List.mem_cons_of_mem _ hy, hye⟩, ?_⟩
        intro z hz hzp
        rcases List.mem_cons.1 hz with e' | e'
        · subst e'; exact absurd hzp hx
        · exact hle z e' hzp

theorem IsLeast.unique {l l' : List CC} (hm : ∀ x, x ∈ l ↔ x ∈ l') {v v' : Int} (h : IsLeast l v) (h' : IsLeast l' v') :
    v = v' := by
  rcases h with ⟨e, hno⟩ | ⟨hp, ⟨y, hy, hye⟩, hle⟩
  · rcases h' with ⟨e', _⟩ | ⟨hp', ⟨y', hy', hye'⟩, _⟩
    · rw [e, e']
    · exact absurd (by omega : 0 < y'.maxAge) (hno y' ((hm y').2 hy'))
  · rcases h' with ⟨e', hno'⟩ | ⟨hp', ⟨y', hy', hye'⟩, hle'⟩
    · exact absurd (by omega : 0 < y.maxAge) (hno' y ((hm y).1 hy))
    · have a := hle y' ((hm y').2 hy') (by omega)
      have b := hle' y ((hm y).1 hy) (by omega)
      omega

theorem combine_congr {l l' : List CC} (hm : ∀ x, x ∈ l ↔ x ∈ l') : combine l = combine l' := by
  have hall : l.all (·.isPublic) = l'.all (·.isPublic) := by
    rw [Bool.eq_iff_iff, List.all_eq_true, List.all_eq_true]
    exact ⟨fun h x hx => h x ((hm x).2 hx), fun h x hx => h x ((hm x).1 hx)⟩
  have hany : l.any (·.maxAge = -1) = l'.any (·.maxAge = -1) := by
    rw [Bool.eq_iff_iff, List.any_eq_true, List.any_eq_true]
    exact ⟨fun ⟨x, hx, h⟩ => ⟨x, (hm x).1 hx, h⟩, fun ⟨x, hx, h⟩ => ⟨x, (hm x).2 hx, h⟩⟩
  have hleast : leastPos l = leastPos l' := (leastPos_isLeast l).unique hm (leastPos_isLeast l')
  have hA : (combine l).maxAge = (combine l').maxAge := by
    rw [combine_maxAge, combine_maxAge, hany, hleast]
  have hP : (combine l).isPublic = (combine l').isPublic := hall
  cases hc : combine l; cases hc' : combine l'
  simp_all

/-! ### exactness for object-only documents -/

/-- for a well-formed object-only document, from fuel `n` on the visitor merges exactly the keys the
    response can contain -/
theorem visited_iff_reach {S : Schema} {d : Doc} (hS : WfSchema S) (hd : WfDoc S d) {n : Nat}
    (hoo : objOnly S d n = true) (raw : List (String × GValue)) {m : Nat} (hm : n ≤ m) (k : Key) :
    k ∈ visitDoc {} S d m ↔ k ∈ reachRequest S d none raw m := by
  have hd' := hd
  obtain ⟨N, hops, hfrs⟩ := hd
  unfold objOnly at hoo
  split at hoo
  · rename_i op hop
    have hmem : op ∈ d.ops := by rw [hop]; exact List.mem_singleton.2 rfl
    obtain ⟨hroot, hkind, hne, hwf⟩ := hops op hmem
    have hvd : ∀ m', visitDoc {} S d m' = visitSet {} S d m' (some (rootName S op)) op.sels := by
      intro m'
      simp [visitDoc, hop, hroot, typeNamed_object hkind]
    have hrr : ∀ m', reachRequest S d none raw m' =
        reach { S := S, d := d, vars := coerceVars op.vars raw, w := ⟨[]⟩ } m' (rootName S op) op.sels := by
      intro m'
      simp [reachRequest, selectOp, hop]
    constructor
    · intro hk
      rw [hvd] at hk
      rw [hrr]
      refine visit_sub_reach (c := { S := S, d := d, vars := coerceVars op.vars raw, w := ⟨[]⟩ }) (N := N)
        hS hfrs n (rootName S op) op.sels op.sels m m k hoo (fun _ h => h) ?_ hm hk
      intro sel hsel
      exact ⟨rootName S op, possible_self_of_object hkind, fun _ _ => trivial, wfSels_mem hwf hsel⟩
    · intro hk
      obtain ⟨m', hm'⟩ := reachRequest_visited hS hd' none raw m k hk
      rw [hvd] at hm' ⊢
      exact visitSet_mono_le {} S d hm _ _ k (visit_stable n _ _ m' k hoo hm')
  · cases hoo


end AGV.Lemmas.Cache
