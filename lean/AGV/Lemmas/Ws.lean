/-
  C25 — helper lemmas: the model of `WebSocket::poll_next` (no defect toggles) refines the
  protocol monitor of Spec/WsProto.lean.
-/
import AGV.Model.Ws
import AGV.Spec.WsProto

namespace AGV.Lemmas.Ws
open AGV.Spec.WsProto AGV.Model.Ws
open AGV.Gen

set_option linter.unusedSimpArgs false

/-- the live operation ids (kept as a definition so that `simp` does not rewrite the `map`) -/
def ids (ss : List (Nat × Nat)) : List Nat := ss.map (·.1)

/-- abstraction: the monitor state that corresponds to a `WebSocket` state between polls -/
def abs (s : State) : M :=
  { initSeen := !s.onInit, acked := s.acked, live := ids s.streams, stopped := [],
    pings := if s.pingPending then 1 else 0, expect := none, closed := s.closed }

/-- invariant of the `WebSocket` struct -/
structure Inv (s : State) : Prop where
  initP : s.initPending = true → s.onInit = false ∧ s.acked = false ∧ s.pingPending = false
  ackI : s.acked = true → s.onInit = false
  noOps : s.acked = false → s.streams = []

theorem inv_init (p : Proto) (ka : Nat) : Inv (State.init p ka) := by
  constructor <;> simp [State.init]

theorem contains_map_fst (id : Nat) (ss : List (Nat × Nat)) :
    (ss.map (·.1)).contains id = hasId id ss := by
  induction ss with
  | nil => simp [hasId]
  | cons a r ih =>
    simp only [hasId] at ih
    simp only [List.map_cons, List.contains_cons, hasId, List.any_cons, ih]
    rw [BEq.comm]

theorem rm_map_fst (id : Nat) (ss : List (Nat × Nat)) :
    rm id (ss.map (·.1)) = (dropId id ss).map (·.1) := by
  induction ss with
  | nil => simp [rm, dropId]
  | cons a r ih =>
    simp only [rm, dropId] at ih
    simp only [rm, dropId, List.map_cons, List.filter_cons]
    cases h : (a.1 != id) <;> simp_all

theorem dropId_of_not_has (id : Nat) (ss : List (Nat × Nat)) (h : hasId id ss = false) :
    dropId id ss = ss := by
  induction ss with
  | nil => simp [dropId]
  | cons a r ih =>
    simp only [hasId, List.any_cons, Bool.or_eq_false_iff] at h
    simp only [hasId] at ih
    simp only [dropId, List.filter_cons] at ih ⊢
    have : (a.1 != id) = true := by simp_all [bne]
    simp [this, ih h.2]

theorem idOfInst_has (inst : Nat) (ss : List (Nat × Nat)) (id : Nat)
    (h : idOfInst inst ss = some id) : hasId id ss = true := by
  induction ss with
  | nil => simp [idOfInst] at h
  | cons a r ih =>
    obtain ⟨i, n⟩ := a
    simp only [idOfInst] at h
    simp only [hasId, List.any_cons]
    split at h
    · simp_all
    · have := ih h
      simp only [hasId] at this
      simp [this]

theorem ids_nil : ids [] = [] := rfl
theorem ids_cons (a b : Nat) (ss : List (Nat × Nat)) : ids ((a, b) :: ss) = a :: ids ss := rfl
theorem ids_contains (id : Nat) (ss : List (Nat × Nat)) : (ids ss).contains id = hasId id ss :=
  contains_map_fst id ss
theorem rm_ids (id : Nat) (ss : List (Nat × Nat)) : rm id (ids ss) = ids (dropId id ss) :=
  rm_map_fst id ss
@[simp] theorem rm_nil (id : Nat) : rm id [] = [] := rfl
@[simp] theorem rm_self (id : Nat) : rm id [id] = [] := by simp [rm]
@[simp] theorem dropId_nil (id : Nat) : dropId id [] = [] := rfl
@[simp] theorem hasId_dropId (id : Nat) (ss : List (Nat × Nat)) : hasId id (dropId id ss) = false := by
  induction ss with
  | nil => simp [hasId, dropId]
  | cons a r ih =>
    simp only [hasId, dropId, List.filter_cons] at ih ⊢
    cases h : (a.1 != id) <;> simp_all
theorem ids_mem (id : Nat) (ss : List (Nat × Nat)) : id ∈ ids ss ↔ hasId id ss = true := by
  rw [← ids_contains]; simp

/-- a state in which `poll_next` enters the message loop -/
structure Ready (s : State) : Prop where
  inv : Inv s
  opn : s.closed = false
  noInit : s.initPending = false
  noPing : s.pingPending = false

/-- one iteration of the message loop is matched by the monitor -/
theorem handle_sim (s : State) (m : CMsg) (h : Ready s) :
  match handle {} s m with
  | .cont s' => step s.proto (abs s) (.recv m) = some (abs s') ∧ Ready s' ∧ s'.proto = s.proto
  | .brk s' => step s.proto (abs s) (.recv m) = some (abs s') ∧ Inv s' ∧ s'.closed = false ∧ s'.proto = s.proto
  | .ret s' o => (∃ m', steps s.proto (abs s) [.recv m, .out o] = some m' ∧ (o ≠ .done → m' = abs s'))
      ∧ Inv s' ∧ s'.proto = s.proto := by
  obtain ⟨⟨hi, ha, hn⟩, hc, hni, hnp⟩ := h
  cases m with
  | eof => simp [handle, steps, step, abs, hc, violation, accept, emit, hi, ha, hn]; exact ⟨hi, ha, hn⟩
  | bad =>
    cases hp : s.proto <;>
    simp [handle, steps, step, abs, hc, violation, accept, emit, expected, Expect.admits, WsWire.codeUnparseable, hp] <;>
    exact ⟨by simpa using hi, by simpa using ha, by simpa using hn⟩
  | init =>
    cases ho : s.onInit <;> cases hp : s.proto <;>
    simp [handle, rearm, steps, step, abs, hc, violation, accept, emit, expected, Expect.admits, refuse, WsWire.codeTooManyInit, hp, ho, hnp] <;>
    (try constructor) <;> simp_all
  | start id =>
    cases hk : s.acked <;> cases hp : s.proto <;> cases hh : hasId id s.streams <;>
    simp [handle, rearm, steps, step, abs, hc, violation, accept, emit, expected, Expect.admits, refuse,
      WsWire.codeBeforeAck, hp, hk, hh, hnp, ids_contains, ids_mem, rm_ids, ids_cons, rm_nil, dropId_of_not_has] <;>
    (repeat' constructor) <;> simp_all
  | stop id =>
    cases hh : hasId id s.streams <;>
    simp [handle, rearm, steps, step, abs, hc, violation, accept, emit, hh, hnp, ids_contains, ids_mem, rm_ids, rm_self, dropId_nil, hasId_dropId] <;>
    (repeat' constructor) <;> simp_all
  | term =>
    simp [handle, rearm, steps, step, abs, hc, violation, accept, emit, hnp] <;>
    (try constructor) <;> simp_all
  | ping =>
    simp [handle, rearm, steps, step, abs, hc, violation, accept, emit, hnp] <;>
    (try constructor) <;> simp_all
  | pong =>
    simp [handle, rearm, steps, step, abs, hc, violation, accept, emit, hnp] <;>
    (try constructor) <;> (try constructor) <;> simp_all

theorem steps_append (p : Proto) (m : M) (a b : List Ev) :
    steps p m (a ++ b) = (steps p m a).bind (fun m' => steps p m' b) := by
  induction a generalizing m with
  | nil => simp [steps]
  | cons e r ih =>
    simp only [List.cons_append, steps]
    cases step p m e with
    | none => simp
    | some m' => simp [ih]

theorem steps_cons_some (p : Proto) (m m' : M) (e : Ev) (es : List Ev) (h : step p m e = some m') :
    steps p m (e :: es) = steps p m' es := by
  simp [steps, h]

theorem loop_sim (inbox : List CMsg) (s : State) (h : Ready s) :
  match loop {} s inbox with
  | (s', _, taken, some o) =>
      (∃ m', steps s.proto (abs s) (pollEvents taken o) = some m' ∧ (o ≠ .done → m' = abs s'))
      ∧ Inv s' ∧ s'.proto = s.proto
  | (s', _, taken, none) =>
      steps s.proto (abs s) (taken.map .recv) = some (abs s') ∧ Inv s' ∧ s'.closed = false
      ∧ s'.proto = s.proto := by
  induction inbox generalizing s with
  | nil => simp [loop, steps]; exact ⟨h.inv, h.opn⟩
  | cons m rest ih =>
    have hs := handle_sim s m h
    simp only [loop]
    cases hh : handle {} s m with
    | ret s' o =>
      rw [hh] at hs
      simpa [pollEvents] using hs
    | brk s' =>
      rw [hh] at hs
      obtain ⟨h1, h2, h3, h4⟩ := hs
      simp [steps, h1, h2, h3, h4]
    | cont s' =>
      rw [hh] at hs
      obtain ⟨h1, h2, h3⟩ := hs
      have := ih s' h2
      simp only
      rcases hl : loop {} s' rest with ⟨s'', rest', taken, o⟩
      rw [hl] at this
      cases o with
      | none =>
        simp only at this ⊢
        rw [h3] at this
        simp [steps, h1, this]
      | some o =>
        simp only at this ⊢
        rw [h3] at this
        simpa [pollEvents, steps, h1] using this

set_option linter.unnecessarySimpa false

/-- the monitor state `m` matches the `WebSocket` state `s`: exactly while the session is open;
    once closed both only end the session -/
def Good (s : State) (m : M) : Prop :=
  if s.closed then (m.closed = true ∧ m.expect = none) else m = abs s

theorem good_abs (s : State) : Good s (abs s) := by
  unfold Good; split <;> simp_all [abs]

theorem afterLoop_sim (s : State) (e : Env) (hi : Inv s) (hc : s.closed = false) :
  match afterLoop s e with
  | (s', o) => (∃ m', step s.proto (abs s) (.out o) = some m' ∧ Good s' m') ∧ Inv s' ∧ s'.proto = s.proto ∧ o ≠ .done := by
  obtain ⟨hi, ha, hn⟩ := hi
  unfold afterLoop
  cases hip : s.initPending with
  | true =>
    obtain ⟨h1, h2, h3⟩ := hi hip
    cases hf : e.fut <;> cases hp : s.proto <;>
    simp [step, abs, emit, refuse, hc, h1, h2, h3, hp, violationCodes, WsWire.codeInitError, Good] <;>
    (repeat' constructor) <;> simp_all
  | false =>
    cases hpp : s.pingPending with
    | true =>
      cases hf : e.fut <;> cases hp : s.proto <;>
      simp [step, abs, emit, refuse, hc, hpp, hp, violationCodes, WsWire.codePingError, Good] <;>
      (repeat' constructor) <;> simp_all
    | false =>
      cases hs : e.str with
      | none => simp [step, abs, emit, hc, hpp, hip, Good]; exact ⟨by simpa [hip] using hi, ha, hn⟩
      | item inst val =>
        cases hid : idOfInst inst s.streams with
        | none => simp [step, abs, emit, hc, hpp, hip, hid, Good]; exact ⟨by simpa [hip] using hi, ha, hn⟩
        | some id =>
          have := idOfInst_has inst s.streams id hid
          cases hp : s.proto <;>
          simp [step, abs, emit, hc, hpp, hp, hid, hip, ids_contains, ids_mem, this, Good] <;>
          exact ⟨by simpa [hip] using hi, ha, hn⟩
      | fin inst =>
        cases hid : idOfInst inst s.streams with
        | none => simp [step, abs, emit, hc, hpp, hip, hid, Good]; exact ⟨by simpa [hip] using hi, ha, hn⟩
        | some id =>
          have := idOfInst_has inst s.streams id hid
          simp [step, abs, emit, hc, hpp, hid, hip, ids_contains, ids_mem, this, rm_ids, Good]
          (repeat' constructor) <;> simp_all

theorem inv_env (s : State) (ib : List CMsg) (l : Nat) (h : Inv s) :
    Inv { s with inbox := ib, left := l } := ⟨h.initP, h.ackI, h.noOps⟩
theorem inv_inbox (s : State) (ib : List CMsg) (h : Inv s) :
    Inv { s with inbox := ib } := ⟨h.initP, h.ackI, h.noOps⟩
theorem good_inbox (s : State) (ib : List CMsg) (m : M) (h : Good s m) :
    Good { s with inbox := ib } m := h

theorem poll_sim (s : State) (e : Env) (hi : Inv s) (hc : s.closed = false) :
  match poll {} s e with
  | (s', taken, o) =>
    (∃ m', steps s.proto (abs s) (pollEvents taken o) = some m' ∧ (o ≠ .done → Good s' m'))
    ∧ Inv s' ∧ s'.proto = s.proto := by
  unfold poll
  generalize hs1 : ({ s with inbox := s.inbox ++ e.arrive, left := if e.tick then s.left - 1 else s.left } : State) = s1
  have hi1 : Inv s1 := by subst hs1; exact inv_env s _ _ hi
  have hc1 : s1.closed = false := by subst hs1; exact hc
  have ha1 : abs s1 = abs s := by subst hs1; rfl
  have hp1 : s1.proto = s.proto := by subst hs1; rfl
  simp only [hc1, Bool.false_eq_true, if_false]
  rw [← ha1, ← hp1]
  clear hs1 ha1 hp1 hi hc
  split
  · -- keep-alive timer fired
    cases hp : s1.proto <;>
    simp [pollEvents, steps, step, abs, emit, refuse, hc1, hp, violationCodes, WsWire.codeTimeout, Good] <;>
    exact ⟨hi1.initP, hi1.ackI, hi1.noOps⟩
  · split
    · rename_i hnp
      have hnp' : s1.initPending = false ∧ s1.pingPending = false := by simpa using hnp
      have hr : Ready s1 := ⟨hi1, hc1, hnp'.1, hnp'.2⟩
      have hl := loop_sim s1.inbox s1 hr
      rcases hloop : loop {} s1 s1.inbox with ⟨s', rest, taken, o⟩
      rw [hloop] at hl
      cases o with
      | some o =>
        simp only at hl ⊢
        obtain ⟨⟨m', h1, h2⟩, h3, h4⟩ := hl
        exact ⟨⟨m', h1, fun hne => by rw [h2 hne]; exact good_abs _⟩, inv_inbox _ _ h3, h4⟩
      | none =>
        simp only at hl ⊢
        obtain ⟨h1, h2, h3, h4⟩ := hl
        have ha := afterLoop_sim { s' with inbox := rest } e (inv_inbox _ _ h2) h3
        rcases hal : afterLoop { s' with inbox := rest } e with ⟨s'', o⟩
        rw [hal] at ha
        simp only at ha ⊢
        obtain ⟨⟨m', g1, g2⟩, g3, g4, g5⟩ := ha
        refine ⟨⟨m', ?_, fun _ => g2⟩, g3, by rw [g4]; exact h4⟩
        simp only [pollEvents, steps_append, h1, Option.bind_some]
        have : abs { s' with inbox := rest } = abs s' := rfl
        rw [this] at g1
        have hpe : ({ s' with inbox := rest } : State).proto = s1.proto := h4
        rw [hpe] at g1
        simp [steps, g1]
    · have ha := afterLoop_sim s1 e hi1 hc1
      rcases hal : afterLoop s1 e with ⟨s'', o⟩
      rw [hal] at ha
      simp only at ha ⊢
      obtain ⟨⟨m', g1, g2⟩, g3, g4, g5⟩ := ha
      exact ⟨⟨m', by simp [pollEvents, steps, g1], fun _ => g2⟩, g3, g4⟩

theorem poll_closed (D : Defects) (s : State) (e : Env) (hc : s.closed = true) :
    (poll D s e).2 = ([], .done) := by
  simp [poll, hc]

theorem run_sim (h : List Env) (s : State) (m : M) (hi : Inv s) (hg : Good s m) :
    (steps s.proto m (run {} s h)).isSome = true := by
  induction h generalizing s m with
  | nil => simp [run, steps]
  | cons e h ih =>
    cases hc : s.closed with
    | true =>
      have hp := poll_closed {} s e hc
      rcases hpp : poll {} s e with ⟨s', taken, o⟩
      rw [hpp] at hp
      simp only [Prod.mk.injEq] at hp
      obtain ⟨rfl, rfl⟩ := hp
      simp only [Good, hc, if_true] at hg
      simp [run, hpp, pollEvents, steps, step, hg.1, hg.2]
    | false =>
      simp only [Good, hc, Bool.false_eq_true, if_false] at hg
      subst hg
      have hs := poll_sim s e hi hc
      rcases hpp : poll {} s e with ⟨s', taken, o⟩
      rw [hpp] at hs
      simp only at hs
      obtain ⟨⟨m', h1, h2⟩, h3, h4⟩ := hs
      simp only [run, hpp, steps_append, h1, Option.bind_some]
      by_cases hd : o = .done
      · simp [hd, steps]
      · simp only [hd, if_false]
        rw [← h4]
        exact ih s' m' h3 (h2 hd)

/-- the invariant is kept by one loop iteration, for every defect setting -/
theorem handle_inv (D : Defects) (s : State) (m : CMsg) (hi : Inv s)
    (h1 : s.initPending = false) (h2 : s.pingPending = false) :
  match handle D s m with
  | .cont s' => Inv s' ∧ s'.initPending = false ∧ s'.pingPending = false
  | .brk s' => Inv s'
  | .ret s' _ => Inv s' := by
  obtain ⟨hi, ha, hn⟩ := hi
  cases m with
  | eof => simp [handle]; exact ⟨hi, ha, hn⟩
  | bad => simp [handle]; exact ⟨by simpa using hi, by simpa using ha, by simpa using hn⟩
  | init =>
    cases ho : s.onInit <;> simp [handle, rearm, ho] <;> constructor <;> simp_all
  | start id =>
    cases hk : s.acked
    · simp [handle, rearm, hk]; constructor <;> simp_all
    · by_cases hd : (s.proto == .new && !D.dupIdReplaces && hasId id s.streams) = true
      · simp only [handle, rearm, hk, hd, if_true]; constructor <;> simp_all
      · simp only [handle, rearm, hk, hd, if_true, if_false]; (repeat' constructor) <;> simp_all
  | stop id =>
    cases hh : hasId id s.streams <;> simp [handle, rearm, hh] <;> (repeat' constructor) <;> simp_all
  | term => simp [handle, rearm]; constructor <;> simp_all
  | ping => simp [handle, rearm]; constructor <;> simp_all
  | pong => simp [handle, rearm]; (repeat' constructor) <;> simp_all

theorem loop_inv (D : Defects) (inbox : List CMsg) (s : State) (hi : Inv s)
    (h1 : s.initPending = false) (h2 : s.pingPending = false) :
    Inv (loop D s inbox).1 := by
  induction inbox generalizing s with
  | nil => simpa [loop] using hi
  | cons m rest ih =>
    have hs := handle_inv D s m hi h1 h2
    simp only [loop]
    cases hh : handle D s m with
    | ret s' o => rw [hh] at hs; simpa using hs
    | brk s' => rw [hh] at hs; simpa using hs
    | cont s' =>
      rw [hh] at hs
      exact ih s' hs.1 hs.2.1 hs.2.2

theorem afterLoop_inv (s : State) (e : Env) (hi : Inv s) : Inv (afterLoop s e).1 := by
  obtain ⟨hi, ha, hn⟩ := hi
  unfold afterLoop
  cases hip : s.initPending with
  | true =>
    obtain ⟨h1, h2, h3⟩ := hi hip
    cases hf : e.fut <;> simp <;> constructor <;> simp_all
  | false =>
    cases hpp : s.pingPending with
    | true => cases hf : e.fut <;> simp <;> constructor <;> simp_all
    | false =>
      cases hs : e.str with
      | none => simp; constructor <;> simp_all
      | item inst val => cases hid : idOfInst inst s.streams <;> simp [hid] <;> constructor <;> simp_all
      | fin inst => cases hid : idOfInst inst s.streams <;> simp [hid] <;> constructor <;> simp_all

theorem poll_inv (D : Defects) (s : State) (e : Env) (hi : Inv s) : Inv (poll D s e).1 := by
  unfold poll
  generalize hs1 : ({ s with inbox := s.inbox ++ e.arrive, left := if e.tick then s.left - 1 else s.left } : State) = s1
  have hi1 : Inv s1 := by subst hs1; exact inv_env s _ _ hi
  clear hs1 hi
  simp only
  split
  · exact hi1
  · split
    · exact ⟨hi1.initP, hi1.ackI, hi1.noOps⟩
    · split
      · rename_i hnp
        have hnp' : s1.initPending = false ∧ s1.pingPending = false := by simpa using hnp
        have hl := loop_inv D s1.inbox s1 hi1 hnp'.1 hnp'.2
        rcases hloop : loop D s1 s1.inbox with ⟨s', rest, taken, o⟩
        rw [hloop] at hl
        cases o with
        | some o => exact inv_inbox _ _ hl
        | none => exact afterLoop_inv _ e (inv_inbox _ _ hl)
      · exact afterLoop_inv s1 e hi1

/-- the `WebSocket` state after a history of polls -/
def stateAfter (D : Defects) : State → List Env → State
  | s, [] => s
  | s, e :: h => stateAfter D (poll D s e).1 h

theorem stateAfter_inv (D : Defects) (h : List Env) (s : State) (hi : Inv s) : Inv (stateAfter D s h) := by
  induction h generalizing s with
  | nil => exact hi
  | cons e h ih => exact ih _ (poll_inv D s e hi)

/-! consequences of the monitor, for every accepted trace -/

theorem step_acked_mono (p : Proto) (m m' : M) (ev : Ev) (h : step p m ev = some m')
    (ha : m.acked = true) : m'.acked = true := by
  unfold step at h
  cases he : m.expect with
  | some x =>
    cases ev with
    | recv msg => simp [he] at h
    | out o => simp only [he] at h; split at h <;> simp_all; subst h; simpa using ha
  | none =>
    simp only [he] at h
    cases hc : m.closed with
    | true =>
      simp only [hc, if_true] at h
      split at h <;> simp_all
    | false =>
      simp only [hc, Bool.false_eq_true, if_false] at h
      cases ev with
      | recv msg =>
        simp only at h
        split at h
        · simp at h; subst h; simpa using ha
        · simp at h; subst h
          cases msg <;> simp [accept] <;> (try split) <;> simp_all
      | out o =>
        simp only at h
        cases o <;> simp [emit] at h <;> (try split at h) <;> simp_all <;>
          (try (subst h; simpa using ha)) <;> (try (obtain ⟨_, h⟩ := h; subst h; simpa using ha))

theorem step_ack (p : Proto) (m m' : M) (h : step p m (.out .ack) = some m') :
    m.acked = false ∧ m'.acked = true := by
  unfold step at h
  cases he : m.expect with
  | some x => cases x <;> simp [he, Expect.admits] at h
  | none =>
    simp only [he] at h
    cases hc : m.closed with
    | true => simp [hc] at h
    | false =>
      simp [hc, emit] at h
      obtain ⟨⟨_, h1⟩, h2⟩ := h
      subst h2
      simp [h1]

/-- at most one `connection_ack` in any accepted trace (none if already acknowledged) -/
theorem monitor_single_ack (p : Proto) (tr : List Ev) (m m' : M) (h : steps p m tr = some m') :
    tr.count (.out .ack) + (if m.acked then 1 else 0) ≤ 1 := by
  induction tr generalizing m with
  | nil => simp; split <;> simp
  | cons ev r ih =>
    simp only [steps] at h
    cases hs : step p m ev with
    | none => simp [hs] at h
    | some m1 =>
      simp only [hs] at h
      have := ih m1 h
      by_cases hev : ev = .out .ack
      · subst hev
        obtain ⟨h1, h2⟩ := step_ack p m m1 hs
        simp [h1, h2] at this ⊢
        omega
      · have hc : (ev :: r).count (.out .ack) = r.count (.out .ack) := by
          simp [List.count_cons, hev]
        rw [hc]
        cases ha : m.acked with
        | false => simp; split at this <;> omega
        | true =>
          have := step_acked_mono p m m1 ev hs ha
          simp_all

theorem step_closed (p : Proto) (m m' : M) (ev : Ev) (hc : m.closed = true) (he : m.expect = none)
    (h : step p m ev = some m') : (ev = .out .done ∨ ev = .out .pending) ∧ m' = m := by
  unfold step at h
  simp only [he, hc, if_true] at h
  split at h <;> simp_all

/-- a closed session is silent: only "end of stream"/"nothing" follow -/
theorem monitor_closed_silent (p : Proto) (tr : List Ev) (m m' : M) (hc : m.closed = true)
    (he : m.expect = none) (h : steps p m tr = some m') :
    ∀ ev ∈ tr, ev = .out .done ∨ ev = .out .pending := by
  induction tr generalizing m with
  | nil => simp
  | cons ev r ih =>
    simp only [steps] at h
    cases hs : step p m ev with
    | none => simp [hs] at h
    | some m1 =>
      simp only [hs] at h
      obtain ⟨h1, h2⟩ := step_closed p m m1 ev hc he hs
      subst h2
      intro x hx
      rcases List.mem_cons.mp hx with rfl | hx
      · exact h1
      · exact ih m1 hc he h x hx

theorem step_close_frame (p : Proto) (m m' : M) (o : Out)
    (ho : (∃ c r, o = .close c r) ∨ (∃ r, o = .connErr r))
    (h : step p m (.out o) = some m') : m'.closed = true ∧ m'.expect = none := by
  unfold step at h
  cases he : m.expect with
  | some x =>
    simp only [he] at h
    split at h <;> simp_all
    subst h; simp
  | none =>
    simp only [he] at h
    cases hc : m.closed with
    | true =>
      rcases ho with ⟨c, r, rfl⟩ | ⟨r, rfl⟩ <;> simp [hc] at h
    | false =>
      rcases ho with ⟨c, r, rfl⟩ | ⟨r, rfl⟩ <;> simp [hc, emit] at h <;>
        (obtain ⟨_, h⟩ := h; subst h; simp [he])

/-- nothing is taken from or sent to the socket after a close frame or a `connection_error` -/
theorem monitor_nothing_after_close (p : Proto) (pre post : List Ev) (o : Out) (m m' : M)
    (ho : (∃ c r, o = .close c r) ∨ (∃ r, o = .connErr r))
    (h : steps p m (pre ++ .out o :: post) = some m') :
    ∀ ev ∈ post, ev = .out .done ∨ ev = .out .pending := by
  rw [steps_append] at h
  cases h1 : steps p m pre with
  | none => simp [h1] at h
  | some m1 =>
    simp only [h1, Option.bind_some, steps] at h
    cases h2 : step p m1 (.out o) with
    | none => simp [h2] at h
    | some m2 =>
      simp only [h2] at h
      obtain ⟨hc, he⟩ := step_close_frame p m1 m2 o ho h2
      exact monitor_closed_silent p post m2 m' hc he h

/-! the monitor invariant `stopped ∩ live = ∅` and "complete at most once" for every accepted trace -/

set_option linter.unusedVariables false in
theorem mem_rm (x id : Nat) (l : List Nat) : x ∈ rm id l ↔ x ∈ l ∧ x ≠ id := by
  simp [rm]

/-- monitor invariant: an id is never both live and stopped -/
def Disj (m : M) : Prop := ∀ x, x ∈ m.live → x ∉ m.stopped

/-- nothing is known about `id`: neither live nor awaiting its `complete` -/
def Absent (id : Nat) (m : M) : Prop := id ∉ m.live ∧ id ∉ m.stopped

theorem disj_init : Disj {} := by simp [Disj]

theorem accept_disj (m : M) (msg : CMsg) (h : Disj m) : Disj (accept m msg) := by
  cases msg <;> simp only [accept] <;> (try exact h)
  · rename_i id
    split
    · rename_i hc
      intro x hx
      simp only [List.mem_cons, mem_rm] at hx
      rcases hx with rfl | ⟨hx, _⟩
      · exact h _ (by simpa using hc)
      · exact h _ hx
    · rename_i hc
      intro x hx
      simp only [List.mem_cons, mem_rm] at hx ⊢
      rcases hx with rfl | hx
      · simp
      · intro hh; exact h _ hx hh.1
  · rename_i id
    split
    · intro x hx
      simp only [List.mem_cons, mem_rm] at hx ⊢
      intro hh
      rcases hh with rfl | hh
      · exact hx.2 rfl
      · exact h _ hx.1 hh
    · exact h

theorem emit_disj (p : Proto) (m m' : M) (o : Out) (h : Disj m) (he : emit p m o = some m') : Disj m' := by
  cases o <;> simp only [emit] at he <;> (try split at he) <;> (try split at he) <;>
    simp at he <;> (try subst he) <;> (try exact h)
  · intro x hx; simp only [mem_rm] at hx; exact h _ hx.1
  · intro x hx; simp only [mem_rm]; intro hh; exact h _ hx hh.1

theorem step_disj (p : Proto) (m m' : M) (ev : Ev) (h : Disj m) (hs : step p m ev = some m') : Disj m' := by
  unfold step at hs
  cases he : m.expect with
  | some x =>
    simp only [he] at hs
    cases ev with
    | recv msg => simp at hs
    | out o => simp only at hs; split at hs <;> simp at hs; subst hs; exact h
  | none =>
    simp only [he] at hs
    cases hc : m.closed with
    | true =>
      simp only [hc, if_true] at hs
      split at hs <;> simp at hs <;> (subst hs; exact h)
    | false =>
      simp only [hc, Bool.false_eq_true, if_false] at hs
      cases ev with
      | recv msg =>
        simp only at hs
        split at hs <;> simp at hs <;> subst hs
        · exact h
        · exact accept_disj m msg h
      | out o => exact emit_disj p m m' o h hs

theorem steps_disj (p : Proto) (tr : List Ev) (m m' : M) (h : Disj m) (hs : steps p m tr = some m') : Disj m' := by
  induction tr generalizing m with
  | nil => simp [steps] at hs; subst hs; exact h
  | cons ev r ih =>
    simp only [steps] at hs
    cases h1 : step p m ev with
    | none => simp [h1] at hs
    | some m1 => simp only [h1] at hs; exact ih m1 (step_disj p m m1 ev h h1) hs

/-- what every step leaves alone: a step other than `recv (start id)` cannot make `id` known -/
theorem step_absent (p : Proto) (id : Nat) (m m' : M) (ev : Ev) (h : Absent id m)
    (hne : ev ≠ .recv (.start id)) (hs : step p m ev = some m') : Absent id m' := by
  unfold step at hs
  cases he : m.expect with
  | some x =>
    simp only [he] at hs
    cases ev with
    | recv msg => simp at hs
    | out o => simp only at hs; split at hs <;> simp at hs; subst hs; exact h
  | none =>
    simp only [he] at hs
    cases hc : m.closed with
    | true =>
      simp only [hc, if_true] at hs
      split at hs <;> simp at hs <;> (subst hs; exact h)
    | false =>
      simp only [hc, Bool.false_eq_true, if_false] at hs
      cases ev with
      | recv msg =>
        simp only at hs
        split at hs <;> simp at hs <;> subst hs
        · exact h
        · obtain ⟨h1, h2⟩ := h
          cases msg <;> simp only [accept] <;> (try exact ⟨h1, h2⟩)
          · rename_i id' _
            have hid : id ≠ id' := by intro hh; subst hh; exact hne rfl
            split
            · exact ⟨by simp [mem_rm, hid, h1], h2⟩
            · exact ⟨by simp [hid, h1], by simp [mem_rm, h2]⟩
          · rename_i id' _
            split
            · rename_i hc'
              have hid : id ≠ id' := by intro hh; subst hh; exact h1 (by simpa using hc')
              exact ⟨by simp [mem_rm, h1], by simp [hid, h2]⟩
            · exact ⟨h1, h2⟩
      | out o =>
        simp only at hs
        obtain ⟨h1, h2⟩ := h
        cases o <;> simp only [emit] at hs <;> (try split at hs) <;> (try split at hs) <;>
          simp at hs <;> (try subst hs) <;> (try exact ⟨h1, h2⟩)
        · exact ⟨by simp [mem_rm, h1], h2⟩
        · exact ⟨h1, by simp [mem_rm, h2]⟩

theorem steps_absent (p : Proto) (id : Nat) (tr : List Ev) (m m' : M) (h : Absent id m)
    (hne : .recv (.start id) ∉ tr) (hs : steps p m tr = some m') : Absent id m' := by
  induction tr generalizing m with
  | nil => simp [steps] at hs; subst hs; exact h
  | cons ev r ih =>
    simp only [steps] at hs
    simp only [List.mem_cons, not_or] at hne
    cases h1 : step p m ev with
    | none => simp [h1] at hs
    | some m1 =>
      simp only [h1] at hs
      exact ih m1 (step_absent p id m m1 ev h (fun hh => hne.1 hh.symm) h1) hne.2 hs

/-- after an accepted `complete id` the id is neither live nor stopped (needs the invariant) -/
theorem step_complete_absent (p : Proto) (id : Nat) (m m' : M) (hd : Disj m)
    (hs : step p m (.out (.complete id)) = some m') : Absent id m' := by
  unfold step at hs
  cases he : m.expect with
  | some x => cases x <;> simp [he, Expect.admits] at hs
  | none =>
    simp only [he] at hs
    cases hc : m.closed with
    | true => simp [hc] at hs
    | false =>
      simp only [hc, Bool.false_eq_true, if_false, emit] at hs
      split at hs
      · rename_i hl
        simp at hs; subst hs
        exact ⟨by simp [mem_rm], hd _ (by simpa using hl)⟩
      · rename_i hl
        split at hs <;> simp at hs
        subst hs
        exact ⟨by simpa using hl, by simp [mem_rm]⟩

/-- a message about `id` (`next`/`data`/`complete`) is not accepted while `id` is absent -/
theorem step_about_needs (p : Proto) (id : Nat) (m m' : M) (o : Out) (h : Absent id m)
    (ho : o = .complete id ∨ (∃ i v, o = .next id i v) ∨ (∃ i v, o = .data id i v))
    (hs : step p m (.out o) = some m') : False := by
  obtain ⟨h1, h2⟩ := h
  unfold step at hs
  cases he : m.expect with
  | some x =>
    rcases ho with rfl | ⟨i, v, rfl⟩ | ⟨i, v, rfl⟩ <;> cases x <;> simp [he, Expect.admits] at hs
  | none =>
    simp only [he] at hs
    cases hc : m.closed with
    | true => rcases ho with rfl | ⟨i, v, rfl⟩ | ⟨i, v, rfl⟩ <;> simp [hc] at hs
    | false =>
      rcases ho with rfl | ⟨i, v, rfl⟩ | ⟨i, v, rfl⟩ <;> simp [hc, emit, h1, h2] at hs

/-- THE trace-only statement, from any monitor state satisfying the invariant -/
theorem monitor_complete_once (p : Proto) (pre mid : List Ev) (id : Nat) (o : Out) (m m' : M)
    (hd : Disj m)
    (h : steps p m (pre ++ .out (.complete id) :: mid ++ [.out o]) = some m')
    (ho : o = .complete id ∨ (∃ i v, o = .next id i v) ∨ (∃ i v, o = .data id i v)) :
    .recv (.start id) ∈ mid := by
  rw [List.append_assoc, steps_append] at h
  cases h1 : steps p m pre with
  | none => simp [h1] at h
  | some m1 =>
    simp only [h1, Option.bind_some, List.cons_append, steps] at h
    cases h2 : step p m1 (.out (.complete id)) with
    | none => simp [h2] at h
    | some m2 =>
      simp only [h2] at h
      rw [steps_append] at h
      cases h3 : steps p m2 mid with
      | none => simp [h3] at h
      | some m3 =>
        simp only [h3, Option.bind_some, steps] at h
        cases h4 : step p m3 (.out o) with
        | none => simp [h4] at h
        | some m4 =>
          refine Classical.byContradiction fun hne => ?_
          have ha := step_complete_absent p id m1 m2 (steps_disj p pre m m1 hd h1) h2
          exact step_about_needs p id m3 m4 o (steps_absent p id mid m2 m3 ha hne h3) ho h4

/-! the message loop never returns `next`/`data`; where the ids of the stream map come from -/

/-- the return value of a loop iteration is never `next`/`data` -/
theorem handle_ret_not_item (D : Defects) (s s' : State) (m : CMsg) (o : Out) (id inst val : Nat)
    (ho : o = .next id inst val ∨ o = .data id inst val) (h : handle D s m = .ret s' o) : False := by
  cases m with
  | eof => rcases ho with rfl | rfl <;> simp [handle] at h
  | bad => rcases ho with rfl | rfl <;> simp [handle] at h
  | init =>
    cases h1 : s.onInit <;> cases h2 : s.proto <;> rcases ho with rfl | rfl <;>
      simp [handle, rearm, refuse, h1, h2] at h
  | start i =>
    cases h1 : s.acked <;> cases h2 : (s.proto == .new && !D.dupIdReplaces && hasId i s.streams) <;>
    cases h3 : (s.proto == .new && !D.preAck1011) <;> rcases ho with rfl | rfl <;>
      simp [handle, rearm, h1, h2, h3] at h
  | stop i =>
    cases h1 : hasId i s.streams <;> rcases ho with rfl | rfl <;> simp [handle, rearm, h1] at h
  | term => rcases ho with rfl | rfl <;> simp [handle] at h
  | ping => simp [handle] at h
  | pong => simp [handle] at h

theorem loop_ret_not_item (D : Defects) (ib : List CMsg) (s s' : State) (rest taken : List CMsg) (o : Out)
    (id inst val : Nat) (ho : o = .next id inst val ∨ o = .data id inst val)
    (h : loop D s ib = (s', rest, taken, some o)) : False := by
  induction ib generalizing s taken with
  | nil => simp [loop] at h
  | cons m r ih =>
    simp only [loop] at h
    cases hh : handle D s m with
    | ret s1 o1 =>
      simp only [hh, Prod.mk.injEq, Option.some.injEq] at h
      obtain ⟨_, _, _, rfl⟩ := h
      exact handle_ret_not_item D s s1 m o1 id inst val ho hh
    | brk s1 => simp [hh] at h
    | cont s1 =>
      simp only [hh] at h
      rcases hl : loop D s1 r with ⟨s2, r2, t2, o2⟩
      simp only [hl, Prod.mk.injEq] at h
      obtain ⟨rfl, rfl, _, rfl⟩ := h
      exact ih s1 t2 hl

theorem hasId_dropId_of (id id' : Nat) (ss : List (Nat × Nat)) (h : hasId id (dropId id' ss) = true) :
    hasId id ss = true := by
  simp only [hasId, dropId, List.any_eq_true, List.mem_filter] at h ⊢
  obtain ⟨x, ⟨hx, _⟩, hx2⟩ := h
  exact ⟨x, hx, hx2⟩

/-- an id in the stream map after one loop iteration was there before or was started by it -/
theorem handle_streams (D : Defects) (s : State) (m : CMsg) (id : Nat) (s' : State)
    (h : handle D s m = .cont s' ∨ handle D s m = .brk s') (hi : hasId id s'.streams = true) :
    hasId id s.streams = true ∨ m = .start id := by
  cases m with
  | eof => simp [handle] at h
  | bad => simp [handle] at h
  | init =>
    cases h1 : s.onInit <;> simp [handle, rearm, h1] at h
    subst h; exact .inl hi
  | start i =>
    cases h1 : s.acked <;> cases h2 : (s.proto == .new && !D.dupIdReplaces && hasId i s.streams) <;>
      simp [handle, rearm, h1, h2] at h
    subst h
    by_cases hid : i = id
    · exact .inr (by rw [hid])
    · left
      simp only [hasId, List.any_cons] at hi
      have : (i == id) = false := by simpa using hid
      simp only [this, Bool.false_or] at hi
      exact hasId_dropId_of id i _ hi
  | stop i =>
    cases h1 : hasId i s.streams <;> simp [handle, rearm, h1] at h
    subst h; exact .inl hi
  | term => simp [handle] at h
  | ping => simp [handle, rearm] at h; subst h; exact .inl hi
  | pong => simp [handle, rearm] at h; subst h; exact .inl hi

theorem loop_streams (D : Defects) (ib : List CMsg) (s s' : State) (rest taken : List CMsg) (id : Nat)
    (h : loop D s ib = (s', rest, taken, none)) (hi : hasId id s'.streams = true) :
    hasId id s.streams = true ∨ .start id ∈ taken := by
  induction ib generalizing s taken with
  | nil => simp [loop] at h; obtain ⟨rfl, _, _⟩ := h; exact .inl hi
  | cons m r ih =>
    simp only [loop] at h
    cases hh : handle D s m with
    | ret s1 o1 => simp [hh] at h
    | brk s1 =>
      simp only [hh, Prod.mk.injEq] at h
      obtain ⟨rfl, _, rfl, _⟩ := h
      rcases handle_streams D s m id s1 (.inr hh) hi with h1 | h1
      · exact .inl h1
      · exact .inr (by simp [h1])
    | cont s1 =>
      simp only [hh] at h
      rcases hl : loop D s1 r with ⟨s2, r2, t2, o2⟩
      simp only [hl, Prod.mk.injEq] at h
      obtain ⟨rfl, rfl, rfl, rfl⟩ := h
      rcases ih s1 t2 hl with h1 | h1
      · rcases handle_streams D s m id s1 (.inl hh) h1 with h2 | h2
        · exact .inl h2
        · exact .inr (by simp [h2])
      · exact .inr (by simp [h1])

end AGV.Lemmas.Ws
