/-
  C06, `ValidationMode::Fast`: no validation rule looks at argument values, the generated
  `InputType::parse` functions alone decide.

    declaredOk_shapeOk     declared keys + pairwise distinct keys = the shape `c06_value_wf` asks for
    parseK_value           the repaired `parse` of a supplied value refuses exactly what the
                           specification's input coercion refuses — for EVERY value that is a map
                           (no "declared keys" hypothesis: refusing them is `parse`'s own job now)
    paramValue_const       one argument given as an arbitrary variable-free literal
    paramValue_typed …     whatever a resolver is handed is a value of the declared Rust type, in
                           both validation modes
    (core tactics only)
-/
import AGV.Lemmas.CoerceNested

namespace AGV.Lemmas.Coerce
open AGV.Core
open AGV.Spec.Coerce
open AGV.Model.Coerce

-- ------------------------------------------------------------------ declared + distinct keys = well-shaped

mutual
theorem declaredOk_shapeOk (T : Table) : ∀ (v : GValue) (ty : TypeRef),
    declaredOk T ty v = true → distinctKeys v = true → shapeOk T ty v = true
  | .null, _, _, _ => by simp [shapeOk]
  | .int _, _, _, _ => by simp [shapeOk]
  | .float _, _, _, _ => by simp [shapeOk]
  | .str _, _, _, _ => by simp [shapeOk]
  | .bool _, _, _, _ => by simp [shapeOk]
  | .enum _, _, _, _ => by simp [shapeOk]
  | .list xs, ty, h, hd => by
    simp only [declaredOk] at h
    simp only [distinctKeys] at hd
    simp only [shapeOk]
    split
    · rename_i t ht
      simp only [ht] at h
      exact declaredOkList_shapeOk T xs t h hd
    · rfl
  | .obj fs, ty, h, hd => by
    simp only [declaredOk] at h
    simp only [distinctKeys, Bool.and_eq_true] at hd
    simp only [shapeOk]
    split
    · rename_i o fields hf
      simp only [hf] at h
      simp [hd.1, declaredOkEntries_shapeOk T fs fields h hd.2]
    · rfl
theorem declaredOkList_shapeOk (T : Table) : ∀ (xs : List GValue) (t : TypeRef),
    declaredOkList T t xs = true → distinctKeysList xs = true → shapeOkList T t xs = true
  | [], _, _, _ => by simp [shapeOkList]
  | x :: xs, t, h, hd => by
    simp only [declaredOkList, Bool.and_eq_true] at h
    simp only [distinctKeysList, Bool.and_eq_true] at hd
    simp only [shapeOkList, Bool.and_eq_true]
    exact ⟨declaredOk_shapeOk T x t h.1 hd.1, declaredOkList_shapeOk T xs t h.2 hd.2⟩
theorem declaredOkEntries_shapeOk (T : Table) : ∀ (fs : List (String × GValue)) (fields : List InField),
    declaredOkEntries T fields fs = true → distinctKeysFields fs = true → shapeOkEntries T fields fs = true
  | [], _, _, _ => by simp [shapeOkEntries]
  | (k, v) :: rest, fields, h, hd => by
    simp only [declaredOkEntries, Bool.and_eq_true] at h
    simp only [distinctKeysFields, Bool.and_eq_true] at hd
    simp only [shapeOkEntries, Bool.and_eq_true]
    refine ⟨?_, declaredOkEntries_shapeOk T rest fields h.2 hd.2⟩
    cases hf : fields.find? (·.name = k) with
    | none => simp [hf] at h
    | some f =>
      simp only [hf] at h
      exact declaredOk_shapeOk T v f.ty.gql h.1 hd.1
end

-- ------------------------------------------------------------------ parse alone = the specification's coercion

/-- the repaired `parse` of a supplied value, with nothing checked before it -/
theorem parseK_value (T : Table) (hwf : wfTable T = true)
    (hd : ∀ n o fs f d, T.find? n = some (.input o fs) → f ∈ fs → f.default = some d →
        fieldDefault Defects.none T f d = some (view T f.ty d))
    (rty : RTy) (v : GValue) (hk : distinctKeys v = true) :
    parseK Defects.none T rty v = (coerce T true rty.gql v).map (view T rty) := by
  have key : ∀ hs : shapeOk T rty.gql v = true,
      parseK Defects.none T rty v = (coerce T true rty.gql v).map (view T rty) := by
    intro hs
    rw [parseK_of_shapeOk _ _ _ _ hs]
    exact parse_value T (fieldDefault Defects.none T) hwf hd v rty hs
  cases hc : coerce T true rty.gql v with
  | some c => rw [← hc]; exact key (coerce_shapeOk T true v rty.gql c hc hk)
  | none =>
    by_cases hdo : declaredOk T rty.gql v = true
    · rw [← hc]; exact key (declaredOk_shapeOk T v rty.gql hdo hk)
    · have hD : Defects.none.undeclaredKeysIgnored = false := rfl
      simp [parseK, hD, hdo]

mutual
/-- a variable-free literal denotes a map when its object literals have pairwise distinct keys -/
def distinctKeysD : DValue → Bool
  | .list xs => distinctKeysDList xs
  | .obj fs => nodupB (fs.map (·.1)) && distinctKeysDFields fs
  | _ => true
def distinctKeysDList : List DValue → Bool
  | [] => true
  | x :: xs => distinctKeysD x && distinctKeysDList xs
def distinctKeysDFields : List (String × DValue) → Bool
  | [] => true
  | (_, v) :: rest => distinctKeysD v && distinctKeysDFields rest
end

mutual
theorem distinctKeys_constOf : ∀ dv : DValue, distinctKeysD dv = true → distinctKeys (constOf dv) = true
  | .var _, _ => by simp [constOf, distinctKeys]
  | .null, _ => by simp [constOf, distinctKeys]
  | .int _, _ => by simp [constOf, distinctKeys]
  | .float _, _ => by simp [constOf, distinctKeys]
  | .str _, _ => by simp [constOf, distinctKeys]
  | .bool _, _ => by simp [constOf, distinctKeys]
  | .enum _, _ => by simp [constOf, distinctKeys]
  | .list xs, h => by
    simp only [distinctKeysD] at h
    simp only [constOf, distinctKeys]
    exact distinctKeys_constOfList xs h
  | .obj fs, h => by
    simp only [distinctKeysD, Bool.and_eq_true] at h
    simp only [constOf, distinctKeys, Bool.and_eq_true, constOfFields_keys]
    exact ⟨h.1, distinctKeys_constOfFields fs h.2⟩
theorem distinctKeys_constOfList : ∀ xs : List DValue, distinctKeysDList xs = true →
    distinctKeysList (constOfList xs) = true
  | [], _ => by simp [constOfList, distinctKeysList]
  | x :: xs, h => by
    simp only [distinctKeysDList, Bool.and_eq_true] at h
    simp only [constOfList, distinctKeysList, Bool.and_eq_true]
    exact ⟨distinctKeys_constOf x h.1, distinctKeys_constOfList xs h.2⟩
theorem distinctKeys_constOfFields : ∀ fs : List (String × DValue), distinctKeysDFields fs = true →
    distinctKeysFields (constOfFields fs) = true
  | [], _ => by simp [constOfFields, distinctKeysFields]
  | (k, v) :: rest, h => by
    simp only [distinctKeysDFields, Bool.and_eq_true] at h
    simp only [constOfFields, distinctKeysFields, Bool.and_eq_true]
    exact ⟨distinctKeys_constOf v h.1, distinctKeys_constOfFields rest h.2⟩
end

/-- one argument given as ANY variable-free literal (valid or not): with no validation before
    it, `get_param_value` succeeds exactly when the specification's input coercion of the literal
    does, and delivers the Rust view of the coerced value -/
theorem paramValue_const (T : Table) (hwf : wfTable T = true)
    (hd : ∀ n o fs f d, T.find? n = some (.input o fs) → f ∈ fs → f.default = some d →
        fieldDefault Defects.none T f d = some (view T f.ty d))
    (defs : List VarDef) (raw : List (String × GValue)) (provided : List (String × DValue)) (a : InField)
    (dv : DValue) (hl : lookup provided a.name = some dv) (hnv : noVars dv = true)
    (hk : distinctKeysD dv = true) :
    paramValue Defects.none T defs raw provided a =
      (coerce T true a.ty.gql (constOf dv)).map (view T a.ty) := by
  simp only [paramValue, hl, resolve_const defs raw dv hnv]
  exact parseK_value T hwf hd a.ty (constOf dv) (distinctKeys_constOf dv hk)

-- ------------------------------------------------------------------ never a mistyped value, in either mode

theorem parseK_some (D : Defects) (T : Table) (rty : RTy) (v : GValue) (r : RV)
    (h : parseK D T rty v = some r) : parseD D T rty v = some r := by
  unfold parseK at h
  split at h
  · exact h
  · cases h

/-- whatever `get_param_value` returns — the parse of a supplied value, of the argument's
    default, or the `None`/`Undefined` of an absent argument — is a value of the argument's type -/
theorem paramValue_typed (T : Table) (hwf : wfTable T = true) (defs : List VarDef)
    (raw : List (String × GValue)) (provided : List (String × DValue)) (a : InField) (r : RV)
    (h : paramValue Defects.none T defs raw provided a = some r) : typed T a.ty r = true := by
  have hdf : ∀ r, (match a.default with
      | some d => parseD Defects.none T a.ty d
      | none => parseAbsent Defects.none a.ty) = some r → typed T a.ty r = true := by
    intro r hr
    cases hdef : a.default with
    | some d => rw [hdef] at hr; exact parseD_typed T hwf a.ty d r hr
    | none => rw [hdef] at hr; exact parseAbsent_typed T a.ty r hr
  have hD : Defects.none.omittedVarSkipsArgDefault = false := rfl
  simp only [paramValue, hD, Bool.false_eq_true, if_false] at h
  split at h
  · exact hdf r h
  · split at h
    · exact hdf r h
    · exact parseD_typed T hwf a.ty _ r (parseK_some _ _ _ _ _ h)

/-- the arguments handed to one resolver: one per declared argument, in order, each a value of
    the declared type -/
def argsTyped (T : Table) : List InField → List (String × RV) → Prop
  | [], [] => True
  | a :: as, (k, r) :: rest => k = a.name ∧ typed T a.ty r = true ∧ argsTyped T as rest
  | _, _ => False

theorem paramValues_typed (T : Table) (hwf : wfTable T = true) (defs : List VarDef)
    (raw : List (String × GValue)) (provided : List (String × DValue)) :
    ∀ (as : List InField) (vs : List (String × RV)),
      paramValues Defects.none T defs raw provided as = some vs → argsTyped T as vs
  | [], vs, h => by simp [paramValues] at h; subst h; trivial
  | a :: as, vs, h => by
    simp only [paramValues] at h
    cases h1 : paramValue Defects.none T defs raw provided a with
    | none => simp [h1] at h
    | some v =>
      cases h2 : paramValues Defects.none T defs raw provided as with
      | none => simp [h1, h2] at h
      | some rest =>
        simp [h1, h2] at h
        subst h
        exact ⟨rfl, paramValue_typed T hwf defs raw provided a v h1,
          paramValues_typed T hwf defs raw provided as rest h2⟩

theorem execFields_typed (T : Table) (hwf : wfTable T = true) (defs : List VarDef)
    (raw : List (String × GValue)) :
    ∀ (R : List (String × String × List (String × DValue))) (b : Bool) (key : String) (vs : List (String × RV)),
      (key, Outcome.seen vs) ∈ execFields Defects.none T defs raw R b →
      ∃ name args sig, (key, name, args) ∈ R ∧ T.field? name = some sig ∧ argsTyped T sig.args vs
  | [], _, _, _, h => by simp [execFields] at h
  | (k, n, args) :: rest, true, key, vs, h => by
    simp only [execFields, List.mem_cons, Prod.mk.injEq, reduceCtorEq, and_false, false_or] at h
    obtain ⟨name, args', sig, hm, hs, ht⟩ := execFields_typed T hwf defs raw rest true key vs h
    exact ⟨name, args', sig, by simp [hm], hs, ht⟩
  | (k, n, args) :: rest, false, key, vs, h => by
    simp only [execFields] at h
    cases hp : (T.field? n).bind (fun sig => paramValues Defects.none T defs raw args sig.args) with
    | none =>
      simp only [hp, List.mem_cons, Prod.mk.injEq, reduceCtorEq, and_false, false_or] at h
      obtain ⟨name, args', sig, hm, hs, ht⟩ := execFields_typed T hwf defs raw rest true key vs h
      exact ⟨name, args', sig, by simp [hm], hs, ht⟩
    | some ws =>
      simp only [hp, List.mem_cons, Prod.mk.injEq, Outcome.seen.injEq] at h
      rcases h with ⟨rfl, rfl⟩ | h
      · cases hf : T.field? n with
        | none => simp [hf] at hp
        | some sig =>
          simp only [hf, Option.bind_some] at hp
          exact ⟨n, args, sig, by simp, hf, paramValues_typed T hwf defs raw args sig.args _ hp⟩
      · obtain ⟨name, args', sig, hm, hs, ht⟩ := execFields_typed T hwf defs raw rest false key vs h
        exact ⟨name, args', sig, by simp [hm], hs, ht⟩

theorem runMode_typed (T : Table) (hwf : wfTable T = true) (fast : Bool) (op : OpDef)
    (raw : List (String × GValue)) (key : String) (vs : List (String × RV))
    (h : (key, Outcome.seen vs) ∈ (runMode fast Defects.none T op raw).fields) :
    ∃ name args sig, (key, name, args) ∈ rootFields op ∧ T.field? name = some sig ∧ argsTyped T sig.args vs := by
  have notInv : ∀ R : List (String × String × List (String × DValue)),
      (key, Outcome.seen vs) ∉ R.map (fun f => (f.1, Outcome.notInvoked)) := by
    intro R hm
    simp only [List.mem_map, Prod.mk.injEq, reduceCtorEq, and_false, exists_false] at hm
  cases fast with
  | true =>
    simp only [runMode, if_true, runFast] at h
    split at h
    · exact absurd h (notInv _)
    · exact execFields_typed T hwf op.vars raw (rootFields op) false key vs h
  | false =>
    simp only [runMode, Bool.false_eq_true, if_false, run] at h
    split at h
    · exact absurd h (notInv _)
    · exact execFields_typed T hwf op.vars raw (rootFields op) false key vs h

-- ------------------------------------------------------------------ valid documents in Fast mode

theorem ReqBase.fast_none {T : Table} {op : OpDef} {raw : List (String × GValue)} (H : ReqBase T op raw)
    (hcv : coerceVars T op.vars raw = none) :
    (runFast Defects.none T op raw).status = .reqerr ∧
    (runFast Defects.none T op raw).fields = (rootFields op).map (fun f => (f.1, Outcome.notInvoked)) := by
  have hnp : Defects.none.nonObjectPassesInputObject = false := rfl
  have hC : varValuesValid false T op.vars raw = false := by
    cases h : varValuesValid false T op.vars raw with
    | false => rfl
    | true => obtain ⟨vars, hv⟩ := H.vars_exist h; rw [hv] at hcv; cases hcv
  have hD : Defects.none.varValueNotCoerced = false := rfl
  simp [runFast, hnp, hC, hD]

/-- with no validation stage, what the executor does on a valid document -/
theorem ReqBase.fast_some {T : Table} {op : OpDef} {raw : List (String × GValue)} (H : ReqBase T op raw)
    (vars : List (String × GValue)) (hcv : coerceVars T op.vars raw = some vars)
    (hroot : ∀ r ∈ rootFields op, implOf T op.vars raw r = specOf T vars r) :
    ((runFast Defects.none T op raw).status = .ok ↔
      ((rootFields op).map (fun r => (r.1, specOf T vars r))).all (·.2.isSome) = true) ∧
    ∀ p ∈ ((rootFields op).map (fun r => (r.1, specOf T vars r))).zip (runFast Defects.none T op raw).fields,
      p.1.1 = p.2.1 ∧
      (∀ args, p.1.2 = some args → p.2.2 = .seen args ∨
        (((rootFields op).map (fun r => (r.1, specOf T vars r))).any (·.2.isNone) = true ∧
          (p.2.2 = .err ∨ p.2.2 = .notInvoked))) ∧
      (p.1.2 = none → p.2.2 = .err ∨ p.2.2 = .notInvoked) := by
  have hD : Defects.none.varValueNotCoerced = false := rfl
  simp only [runFast, H.defaultsValid, H.valuesValid vars hcv, Bool.or_true, Bool.and_true,
    Bool.not_true, Bool.false_eq_true, if_false]
  have hexec := exec_spec T op.vars raw vars (rootFields op) false hroot
  have key : ∀ (f : String × Outcome → Bool), (∀ o, f o = isSeen o.2) →
      (execFields Defects.none T op.vars raw (rootFields op) false).all f =
      (execFields Defects.none T op.vars raw (rootFields op) false).all (fun o => isSeen o.2) := by
    intro f hf; congr 1; funext o; exact hf o
  rw [key _ (by intro o; rcases o with ⟨k, _ | _ | _⟩ <;> rfl), hexec.2 rfl]
  refine ⟨?_, ?_⟩
  · have e : ((rootFields op).map (fun r => (r.1, specOf T vars r))).all (·.2.isSome) =
        (rootFields op).all (fun r => (specOf T vars r).isSome) := by rw [List.all_map]; rfl
    rw [e]
    cases (rootFields op).all (fun r => (specOf T vars r).isSome) <;> simp
  · intro p hp
    obtain ⟨h1, h2, h3⟩ := hexec.1 p hp
    refine ⟨h1, ?_, h3⟩
    intro args ha
    rcases h2 args ha with h2 | h2
    · exact Or.inl h2
    · right
      refine ⟨?_, h2.2⟩
      rcases h2.1 with h | h
      · cases h
      · rw [List.any_map]; exact h

end AGV.Lemmas.Coerce
