/-
  Property C13: combinators for reading the normal (non-atomic) rules of the repaired grammar at the
  start of a token.  `Reads L e B qf Bd`: on every text of length < `L` that starts a token, the
  interpreter's result for `e` (fuel `24·length + B`) is what the token-level function `qf` (a PEG
  in the option monad over the specification's tokens) returns on `toks t`, leaving a text with
  exactly the remaining tokens, and the emitted pairs satisfy `Bd` (what the tree builder makes of
  them).  One lemma per PEG construct; rules are then read by composing them.
-/
import AGV.Lemmas.PegC13Val7
namespace AGV.Lemmas.PegX
open AGV.Model.Peg AGV.Model.BuildAst AGV.Spec.Lex AGV.Spec.Parse AGV.Core.PAst AGV.Lemmas.PegC13 AGV.Lemmas.SpecVal

/-- a token-level reader -/
abbrev Sim (α : Type) := List Tok → Option (α × List Tok)
/-- what the emitted pairs mean (in the document `s₀`) -/
abbrev Bld (α : Type) := List Char → List Pair → α → Prop

def Out {α : Type} (qf : Sim α) (Bd : Bld α) (s₀ : List Char) (q : Nat) (t : List Char) (r : Res) : Prop :=
  match qf (toks t) with
  | some (a, ts') =>
    ∃ s' ps, r = .ok (q + (t.length - s'.length)) s' ps ∧ toks s' = ts' ∧ (∃ mid, t = mid ++ s') ∧ Bd s₀ ps a
  | none => r = .fail

def Reads {α : Type} (L : Nat) (e : Expr) (B : Nat) (qf : Sim α) (Bd : Bld α) : Prop :=
  ∀ q t, t.length < L → TokStart t →
    ∃ r, EvR G0 c0 e q t (24 * t.length + B) r ∧ ∀ s₀, At s₀ q t → Out qf Bd s₀ q t r

theorem at_dummy (q : Nat) (t : List Char) : At (List.replicate q 'x' ++ t) q t := ⟨_, rfl, by simp⟩

theorem Out.isFail {α : Type} {qf : Sim α} {Bd : Bld α} {s₀ q t r} (h : Out qf Bd s₀ q t r) (hq : qf (toks t) = none) :
    r = .fail := by unfold Out at h; rw [hq] at h; exact h

theorem Out.isOk {α : Type} {qf : Sim α} {Bd : Bld α} {s₀ q t r a ts'} (h : Out qf Bd s₀ q t r)
    (hq : qf (toks t) = some (a, ts')) :
    ∃ s' ps, r = .ok (q + (t.length - s'.length)) s' ps ∧ toks s' = ts' ∧ (∃ mid, t = mid ++ s') ∧ Bd s₀ ps a := by
  unfold Out at h; rw [hq] at h; exact h

theorem Out.mk_none {α : Type} {qf : Sim α} {Bd : Bld α} {s₀ q t} (hq : qf (toks t) = none) :
    Out qf Bd s₀ q t .fail := by unfold Out; rw [hq]

theorem Out.mk_some {α : Type} {qf : Sim α} {Bd : Bld α} {s₀ q t a ts' s' ps p'} (hq : qf (toks t) = some (a, ts'))
    (hp : p' = q + (t.length - s'.length)) (h1 : toks s' = ts') (h2 : ∃ mid, t = mid ++ s') (h3 : Bd s₀ ps a) :
    Out qf Bd s₀ q t (.ok p' s' ps) := by
  unfold Out; rw [hq]; exact ⟨s', ps, by rw [hp], h1, h2, h3⟩

theorem append_len_le {t mid s' : List Char} (h : t = mid ++ s') : s'.length ≤ t.length := by
  rw [h]; simp

/-- fewer tokens left ⇒ characters were consumed -/
theorem lt_of_toks_lt {t mid s' : List Char} (h : t = mid ++ s') (hl : (toks s').length < (toks t).length) :
    s'.length < t.length := by
  cases mid with
  | nil => simp at h; subst h; omega
  | cons c m => rw [h]; simp; omega

/-- a reader that consumes at least one token when it succeeds -/
def Strict {α : Type} (qf : Sim α) : Prop := ∀ ts a r, qf ts = some (a, r) → r.length < ts.length

-- ------------------------------------------------------------------ change of presentation

theorem Reads.conv {α β : Type} {L e B} {qf : Sim α} {Bd : Bld α} {qf' : Sim β} {Bd' : Bld β} (f : α → β)
    (h : Reads L e B qf Bd) (hq : ∀ ts, qf' ts = (qf ts).map (fun x => (f x.1, x.2)))
    (hB : ∀ s₀ ps a, Bd s₀ ps a → Bd' s₀ ps (f a)) : Reads L e B qf' Bd' := by
  intro q t hL ht
  obtain ⟨r, hr, ho⟩ := h q t hL ht
  refine ⟨r, hr, fun s₀ hat => ?_⟩
  have := ho s₀ hat
  cases hx : qf (toks t) with
  | none => rw [this.isFail hx]; exact Out.mk_none (by rw [hq, hx]; rfl)
  | some x =>
    obtain ⟨a, ts'⟩ := x
    obtain ⟨s', ps, e, h1, h2, h3⟩ := this.isOk hx
    subst e
    exact Out.mk_some (by rw [hq, hx]; rfl) rfl h1 h2 (hB _ _ _ h3)

/-- … where the meaning of the pairs may depend on what was read (token-level facts) -/
theorem Reads.convT {α β : Type} {L e B} {qf : Sim α} {Bd : Bld α} {qf' : Sim β} {Bd' : Bld β} (f : α → β)
    (h : Reads L e B qf Bd) (hq : ∀ ts, qf' ts = (qf ts).map (fun x => (f x.1, x.2)))
    (hB : ∀ s₀ q t ps a r, At s₀ q t → qf (toks t) = some (a, r) → Bd s₀ ps a → Bd' s₀ ps (f a)) :
    Reads L e B qf' Bd' := by
  intro q t hL ht
  obtain ⟨r, hr, ho⟩ := h q t hL ht
  refine ⟨r, hr, fun s₀ hat => ?_⟩
  have := ho s₀ hat
  cases hx : qf (toks t) with
  | none => rw [this.isFail hx]; exact Out.mk_none (by rw [hq, hx]; rfl)
  | some x =>
    obtain ⟨a, ts'⟩ := x
    obtain ⟨s', ps, e, h1, h2, h3⟩ := this.isOk hx
    subst e
    exact Out.mk_some (by rw [hq, hx]; rfl) rfl h1 h2 (hB _ _ _ _ _ _ hat hx h3)

theorem toks_length_le : ∀ (n : Nat) (t : List Char), t.length ≤ n → (toks t).length ≤ t.length := by
  intro n
  induction n using Nat.strongRecOn with
  | _ n ih =>
    intro t hn
    rw [← toks_skipI t]
    have hs := skipI_len t
    rcases toks_head (skipI t) (tokStart_skipI t) with ⟨h1, h2⟩ | ⟨h1, -, h2⟩ | ⟨tok, rest, -, h2, h3⟩
    · rw [h2]; simp
    · rw [h2]
      have : 0 < (skipI t).length := List.length_pos_iff.2 h1
      simp; omega
    · rw [h2]
      have := ih rest.length (by omega) rest (Nat.le_refl _)
      simp only [List.length_cons]; omega

theorem Reads.mono {α : Type} {L L' e B B'} {qf : Sim α} {Bd : Bld α} (h : Reads L e B qf Bd) (hL : L' ≤ L)
    (hB : B ≤ B') : Reads L' e B' qf Bd := by
  intro q t hL' ht
  obtain ⟨r, hr, ho⟩ := h q t (by omega) ht
  exact ⟨r, hr.mono (by omega), ho⟩

-- ------------------------------------------------------------------ sequence

def tSeq {α β : Type} (qa : Sim α) (qb : Sim β) : Sim (α × β) := fun ts =>
  match qa ts with
  | some (x, r) => (match qb r with | some (y, r') => some ((x, y), r') | none => none)
  | none => none

def bSeq {α β : Type} (Ba : Bld α) (Bb : Bld β) : Bld (α × β) := fun s₀ ps x =>
  ∃ ps1 ps2, ps = ps1 ++ ps2 ∧ Ba s₀ ps1 x.1 ∧ Bb s₀ ps2 x.2

theorem skipI_suffix (s : List Char) : ∃ pre, s = pre ++ skipI s := by
  obtain ⟨pre, h, -⟩ := (ev_skip0 0 s).consumes
  exact ⟨pre, h⟩

/-- `a ~ b` in a normal rule; the second part may be known only for shorter texts when the first
    consumes a token -/
theorem Reads.seq_gen {α β : Type} {L L' : Nat} {a b : Expr} {Ba Bb K : Nat} {qa : Sim α} {Bda : Bld α}
    {qb : Sim β} {Bdb : Bld β} (ha : Reads L a Ba qa Bda) (hb : Reads L' b Bb qb Bdb)
    (hcase : (L ≤ L' ∧ Bb < K) ∨ (Strict qa ∧ L ≤ L' + 1 ∧ Bb < K + 24))
    (hBa : Ba < K) (h17 : 17 < K) : Reads L (.seq a b) K (tSeq qa qb) (bSeq Bda Bdb) := by
  intro q t hL ht
  obtain ⟨ra, hEa, hOa⟩ := ha q t hL ht
  cases hqa : qa (toks t) with
  | none =>
    have hra := (hOa _ (at_dummy q t)).isFail hqa
    subst hra
    exact ⟨.fail, EvR.seq_fail hEa (by omega), fun s₀ _ => Out.mk_none (by simp [tSeq, hqa])⟩
  | some x =>
    obtain ⟨xa, ts1⟩ := x
    obtain ⟨s1, ps1, e, hts1, ⟨mid, hmid⟩, -⟩ := (hOa _ (at_dummy q t)).isOk hqa
    subst e
    have hl1 := append_len_le hmid
    have hsl := skipI_len s1
    have hlb : (skipI s1).length < L' ∧ 24 * (skipI s1).length + Bb < 24 * t.length + K := by
      rcases hcase with ⟨h1, h2⟩ | ⟨hs, h1, h2⟩
      · omega
      · have h3 := hs _ _ _ hqa
        rw [← hts1] at h3
        have := lt_of_toks_lt hmid h3
        omega
    obtain ⟨rb, hEb, hOb⟩ := hb (skipPos (q + (t.length - s1.length)) s1) (skipI s1) hlb.1 (tokStart_skipI s1)
    refine ⟨prepend ps1 rb, ev_seq0 hEa hEb (by omega) (by omega) (by omega), fun s₀ hat => ?_⟩
    obtain ⟨s1', ps1', e, -, -, hbd⟩ := (hOa s₀ hat).isOk hqa
    injection e with e1 e2 e3
    subst e2 e3
    have hat1 : At s₀ (q + (t.length - s1.length)) s1 := hat.consumes ⟨mid, hmid, by rw [hmid]; simp⟩
    have hob := hOb s₀ hat1.skip
    have htk : toks (skipI s1) = ts1 := by rw [toks_skipI, hts1]
    cases hqb : qb ts1 with
    | none =>
      rw [hob.isFail (by rw [htk]; exact hqb)]
      exact Out.mk_none (by simp [tSeq, hqa, hqb])
    | some y =>
      obtain ⟨yb, ts2⟩ := y
      obtain ⟨s2, ps2, e, h1, ⟨mid2, hmid2⟩, h3⟩ := hob.isOk (by rw [htk]; exact hqb)
      subst e
      obtain ⟨pre, hpre⟩ := skipI_suffix s1
      have hlen1 := congrArg List.length hmid
      have hlen2 := congrArg List.length hmid2
      have hlen3 := congrArg List.length hpre
      simp only [List.length_append] at hlen1 hlen2 hlen3
      refine Out.mk_some (a := (xa, yb)) (by simp [tSeq, hqa, hqb]) ?_ h1 ⟨mid ++ pre ++ mid2, ?_⟩ ⟨ps1, ps2, rfl, hbd, h3⟩
      · unfold skipPos; omega
      · rw [List.append_assoc, List.append_assoc, ← hmid2, ← hpre, ← hmid]

theorem Reads.seq {α β : Type} {L : Nat} {a b : Expr} {Ba Bb K : Nat} {qa : Sim α} {Bda : Bld α}
    {qb : Sim β} {Bdb : Bld β} (ha : Reads L a Ba qa Bda) (hb : Reads L b Bb qb Bdb)
    (hBa : Ba < K) (hBb : Bb < K) (h17 : 17 < K) : Reads L (.seq a b) K (tSeq qa qb) (bSeq Bda Bdb) :=
  Reads.seq_gen ha hb (Or.inl ⟨Nat.le_refl _, hBb⟩) hBa h17

theorem Reads.seqS {α β : Type} {L L' : Nat} {a b : Expr} {Ba Bb K : Nat} {qa : Sim α} {Bda : Bld α}
    {qb : Sim β} {Bdb : Bld β} (ha : Reads L a Ba qa Bda) (hS : Strict qa) (hb : Reads L' b Bb qb Bdb)
    (hL : L ≤ L' + 1) (hBa : Ba < K) (hBb : Bb < K + 24) (h17 : 17 < K) :
    Reads L (.seq a b) K (tSeq qa qb) (bSeq Bda Bdb) :=
  Reads.seq_gen ha hb (Or.inr ⟨hS, hL, hBb⟩) hBa h17

-- ------------------------------------------------------------------ option, choice

def tOpt {α : Type} (qa : Sim α) : Sim (Option α) := fun ts =>
  match qa ts with
  | some (x, r) => some (some x, r)
  | none => some (none, ts)

def bOpt {α : Type} (Ba : Bld α) : Bld (Option α) := fun s₀ ps o =>
  match o with
  | some x => Ba s₀ ps x
  | none => ps = []

theorem Reads.opt {α : Type} {L : Nat} {a : Expr} {Ba K : Nat} {qa : Sim α} {Bda : Bld α}
    (ha : Reads L a Ba qa Bda) (hBa : Ba < K) : Reads L (.opt a) K (tOpt qa) (bOpt Bda) := by
  intro q t hL ht
  obtain ⟨ra, hEa, hOa⟩ := ha q t hL ht
  cases hqa : qa (toks t) with
  | none =>
    have hra := (hOa _ (at_dummy q t)).isFail hqa
    subst hra
    refine ⟨.ok q t [], EvR.opt_fail hEa (by omega), fun s₀ _ => ?_⟩
    exact Out.mk_some (a := none) (by simp [tOpt, hqa]) (by simp) rfl ⟨[], rfl⟩ rfl
  | some x =>
    obtain ⟨xa, ts1⟩ := x
    obtain ⟨s1, ps1, e, hts1, hm, -⟩ := (hOa _ (at_dummy q t)).isOk hqa
    subst e
    refine ⟨_, EvR.opt_ok hEa (by omega), fun s₀ hat => ?_⟩
    obtain ⟨s1', ps1', e, h1, h2, hbd⟩ := (hOa s₀ hat).isOk hqa
    injection e with e1 e2 e3
    subst e2 e3
    exact Out.mk_some (a := some xa) (by simp [tOpt, hqa]) rfl h1 h2 hbd

def tOr {α : Type} (qa qb : Sim α) : Sim α := fun ts =>
  match qa ts with
  | some x => some x
  | none => qb ts

theorem Reads.choice {α : Type} {L : Nat} {a b : Expr} {Ba Bb K : Nat} {qa qb : Sim α} {Bd : Bld α}
    (ha : Reads L a Ba qa Bd) (hb : Reads L b Bb qb Bd) (hBa : Ba < K) (hBb : Bb < K) :
    Reads L (.choice a b) K (tOr qa qb) Bd := by
  intro q t hL ht
  obtain ⟨ra, hEa, hOa⟩ := ha q t hL ht
  cases hqa : qa (toks t) with
  | none =>
    have hra := (hOa _ (at_dummy q t)).isFail hqa
    subst hra
    obtain ⟨rb, hEb, hOb⟩ := hb q t hL ht
    refine ⟨rb, EvR.choice_r hEa hEb (by omega) (by omega), fun s₀ hat => ?_⟩
    have := hOb s₀ hat
    unfold Out at this ⊢
    simp only [tOr, hqa]
    exact this
  | some x =>
    obtain ⟨xa, ts1⟩ := x
    obtain ⟨s1, ps1, e, hts1, hm, -⟩ := (hOa _ (at_dummy q t)).isOk hqa
    subst e
    refine ⟨_, EvR.choice_l hEa (by omega), fun s₀ hat => ?_⟩
    have := hOa s₀ hat
    unfold Out at this ⊢
    simp only [tOr, hqa] at this ⊢
    exact this

-- ------------------------------------------------------------------ a normal rule

def bRule {α : Type} (n : String) (Bd : Bld α) : Bld α := fun s₀ ps a =>
  ∃ p p1 inner, ps = [Pair.mk n p p1 inner] ∧ Bd s₀ inner a

theorem Reads.rule {α : Type} {L : Nat} {n : String} {r : Rule} {B K : Nat} {qf : Sim α} {Bd : Bld α}
    (hR : RuleOk n r) (hb : Reads L r.expr B qf Bd) (hB : B < K) : Reads L (.ident n) K qf (bRule n Bd) := by
  intro q t hL ht
  obtain ⟨rb, hEb, hOb⟩ := hb q t hL ht
  refine ⟨wrapN n q rb, ev_ruleOk hR hEb (by omega), fun s₀ hat => ?_⟩
  have := hOb s₀ hat
  cases hq : qf (toks t) with
  | none => rw [this.isFail hq]; exact Out.mk_none hq
  | some x =>
    obtain ⟨a, ts'⟩ := x
    obtain ⟨s', ps, e, h1, h2, h3⟩ := this.isOk hq
    subst e
    exact Out.mk_some hq rfl h1 h2 ⟨_, _, _, rfl, h3⟩
end AGV.Lemmas.PegX
