/-
  C09 — per-rule equivalences, part C: which rule owns which message kind in `strictErrors`, and the
  parser's uniqueness checks (`preErrors`) against §5.2.1.1, §5.2.2.1, §5.5.1.1.
-/
import AGV.Lemmas.ValidateRulesB
namespace AGV.Lemmas.ValidateRules
open AGV.Core AGV.Model.Validate AGV.Lemmas.ValidateWalk AGV.Lemmas.ValidateMachine AGV.Lemmas.ValidateSpecNodes
open AGV.Lemmas.ValidateRanges

/-- the kinds the stateless rules can report on the toggle-free walk -/
def statelessKinds : List Model.Validate.Kind :=
  [.dupDirective, .upload, .fragNonComposite, .unknownType, .unknownTypeDefault, .invalidDefault, .varNonInput, .dirArgMissing,
   .unknownField, .leafWithSel, .compositeNoSel, .fieldArgMissing, .unknownFragment, .spreadImpossible, .inlineNonComposite,
   .inlineImpossible, .notConfigured]

theorem range_stateless (S : VSchema) (d : Doc) (k : Model.Validate.Kind)
    (h : k ∈ (events S {} d).flatMap (stateless S {} d)) : k ∈ statelessKinds := by
  rw [mem_stateless_events] at h
  rcases h with ⟨f, _, h⟩ | ⟨o, _, h⟩ | ⟨v, _, h⟩
  · simp only [fragOut, dirsOut, List.mem_append, List.mem_flatMap, mem_stateless_enterFrag, mem_stateless_enterDir] at h
    rcases h with (h | h | h) | ⟨_, _, h⟩ <;> simp [h.1, statelessKinds]
  · unfold opOut at h
    cases hr : rootOf S o.ty with
    | none =>
      simp only [hr, List.mem_append, mem_stateless_enterOp, List.mem_singleton] at h
      rcases h with (h | h) | h <;> simp [h, statelessKinds]
    | some r =>
      simp only [hr, dirsOut, List.mem_append, List.mem_flatMap, mem_stateless_enterOp, mem_stateless_enterVar, mem_stateless_enterDir] at h
      rcases h with (h | h) | ⟨_, _, (h | h | h | h)⟩ | ⟨_, _, h⟩ <;> simp [h.1, statelessKinds]
  · obtain ⟨st, s⟩ := v
    cases s with
    | field al n args ds ss p =>
      simp only [nodeOut, dirsOut, List.mem_append, List.mem_flatMap, mem_stateless_enterField, mem_stateless_enterDir] at h
      rcases h with (h | h | h | h | h) | ⟨_, _, h⟩ <;> simp [h.1, statelessKinds]
    | spread n ds p =>
      simp only [nodeOut, dirsOut, List.mem_append, List.mem_flatMap, mem_stateless_enterSpread, mem_stateless_enterDir] at h
      rcases h with (h | h | h) | ⟨_, _, h⟩ <;> simp [h.1, statelessKinds]
    | inline c ds ss p =>
      simp only [nodeOut, dirsOut, List.mem_append, List.mem_flatMap, mem_stateless_enterInline, mem_stateless_enterDir] at h
      rcases h with (h | h | h | h) | ⟨_, _, h⟩ <;> simp [h.1, statelessKinds]


/-- membership in the strict-mode error list, component by component -/
theorem mem_strictErrors (S : VSchema) (d : Doc) (vars opName) (k : Model.Validate.Kind) :
    k ∈ strictErrors S {} d vars opName ↔
      k ∈ (events S {} d).flatMap (stateless S {} d)
      ∨ k ∈ ruleArgsCorrect S {} vars opName none false (events S {} d)
      ∨ k ∈ ruleKnownArgs S {} none (events S {} d)
      ∨ k ∈ ruleUniqueArgs [] (events S {} d)
      ∨ k ∈ ruleUniqueVars [] (events S {} d)
      ∨ k ∈ ruleKnownDirs S [] (events S {} d)
      ∨ k ∈ ruleCycles d (scopeTable none [] (events S {} d))
      ∨ k ∈ ruleUnusedFrags d (scopeTable none [] (events S {} d))
      ∨ k ∈ ruleUndefinedVars d (scopeTable none [] (events S {} d))
      ∨ k ∈ ruleUnusedVars d (scopeTable none [] (events S {} d))
      ∨ k ∈ ruleVarPositions {} d (scopeTable none [] (events S {} d))
      ∨ k ∈ ruleOverlap {} d (events S {} d) := by
  simp only [strictErrors, List.mem_append, or_assoc]

/-- the kinds owned by the rules with state and by the graph rules -/
def statefulKinds : List Model.Validate.Kind :=
  [.argInvalid, .unknownArgDir, .unknownArgField, .dupArg, .dupVar, .dirMisplaced, .unknownDirective, .cycle, .unusedFragment,
   .undefVarOp, .undefVar, .unusedVarOp, .unusedVar, .varPosition, .conflictFields, .conflictArgsLen, .conflictArgsVal]

theorem kinds_disjoint : ∀ k ∈ statelessKinds, k ∉ statefulKinds := by decide

/-- a stateless kind is in the error list iff a stateless rule reports it -/
theorem strict_stateless (S : VSchema) (d : Doc) (vars opName) (k : Model.Validate.Kind) (hk : k ∈ statelessKinds) :
    k ∈ strictErrors S {} d vars opName ↔ k ∈ (events S {} d).flatMap (stateless S {} d) := by
  rw [mem_strictErrors]
  constructor
  · intro h
    have hn := kinds_disjoint k hk
    rcases h with h | h | h | h | h | h | h | h | h | h | h | h
    · exact h
    · have := range_argsCorrect _ _ _ _ _ _ _ h; subst this; exact absurd (by decide) hn
    · rcases range_knownArgs _ _ _ _ _ h with rfl | rfl <;> exact absurd (by decide) hn
    · have := range_uniqueArgs _ _ _ h; subst this; exact absurd (by decide) hn
    · have := range_uniqueVars _ _ _ h; subst this; exact absurd (by decide) hn
    · rcases range_knownDirs _ _ _ _ h with rfl | rfl <;> exact absurd (by decide) hn
    · have := range_cycles _ _ _ h; subst this; exact absurd (by decide) hn
    · have := range_unusedFrags _ _ _ h; subst this; exact absurd (by decide) hn
    · rcases range_undefinedVars _ _ _ h with rfl | rfl <;> exact absurd (by decide) hn
    · rcases range_unusedVars _ _ _ h with rfl | rfl <;> exact absurd (by decide) hn
    · have := range_varPositions _ _ _ _ h; subst this; exact absurd (by decide) hn
    · rcases range_overlap _ _ _ _ h with rfl | rfl | rfl <;> exact absurd (by decide) hn
  · exact Or.inl

theorem strict_dupVar (S : VSchema) (d : Doc) (vars opName) :
    Kind.dupVar ∈ strictErrors S {} d vars opName ↔ Kind.dupVar ∈ ruleUniqueVars [] (events S {} d) := by
  rw [mem_strictErrors]
  constructor
  · intro h
    rcases h with h | h | h | h | h | h | h | h | h | h | h | h
    · exact absurd (range_stateless _ _ _ h) (by decide)
    · exact absurd (range_argsCorrect _ _ _ _ _ _ _ h) (by decide)
    · rcases range_knownArgs _ _ _ _ _ h with h | h <;> exact absurd h (by decide)
    · exact absurd (range_uniqueArgs _ _ _ h) (by decide)
    · exact h
    · rcases range_knownDirs _ _ _ _ h with h | h <;> exact absurd h (by decide)
    · exact absurd (range_cycles _ _ _ h) (by decide)
    · exact absurd (range_unusedFrags _ _ _ h) (by decide)
    · rcases range_undefinedVars _ _ _ h with h | h <;> exact absurd h (by decide)
    · rcases range_unusedVars _ _ _ h with h | h <;> exact absurd h (by decide)
    · exact absurd (range_varPositions _ _ _ _ h) (by decide)
    · rcases range_overlap _ _ _ _ h with h | h | h <;> exact absurd h (by decide)
  · intro h; exact Or.inr (Or.inr (Or.inr (Or.inr (Or.inl h))))

theorem strict_dupArg (S : VSchema) (d : Doc) (vars opName) :
    Kind.dupArg ∈ strictErrors S {} d vars opName ↔ Kind.dupArg ∈ ruleUniqueArgs [] (events S {} d) := by
  rw [mem_strictErrors]
  constructor
  · intro h
    rcases h with h | h | h | h | h | h | h | h | h | h | h | h
    · exact absurd (range_stateless _ _ _ h) (by decide)
    · exact absurd (range_argsCorrect _ _ _ _ _ _ _ h) (by decide)
    · rcases range_knownArgs _ _ _ _ _ h with h | h <;> exact absurd h (by decide)
    · exact h
    · exact absurd (range_uniqueVars _ _ _ h) (by decide)
    · rcases range_knownDirs _ _ _ _ h with h | h <;> exact absurd h (by decide)
    · exact absurd (range_cycles _ _ _ h) (by decide)
    · exact absurd (range_unusedFrags _ _ _ h) (by decide)
    · rcases range_undefinedVars _ _ _ h with h | h <;> exact absurd h (by decide)
    · rcases range_unusedVars _ _ _ h with h | h <;> exact absurd h (by decide)
    · exact absurd (range_varPositions _ _ _ _ h) (by decide)
    · rcases range_overlap _ _ _ _ h with h | h | h <;> exact absurd h (by decide)
  · intro h; exact Or.inr (Or.inr (Or.inr (Or.inl h)))

theorem strict_knownDirs (S : VSchema) (d : Doc) (vars opName) (k : Model.Validate.Kind)
    (hk : k = .unknownDirective ∨ k = .dirMisplaced) :
    k ∈ strictErrors S {} d vars opName ↔ k ∈ ruleKnownDirs S [] (events S {} d) := by
  rw [mem_strictErrors]
  constructor
  · intro h
    rcases h with h | h | h | h | h | h | h | h | h | h | h | h
    · rcases hk with rfl | rfl <;> exact absurd (range_stateless _ _ _ h) (by decide)
    · rcases hk with rfl | rfl <;> exact absurd (range_argsCorrect _ _ _ _ _ _ _ h) (by decide)
    · rcases hk with rfl | rfl <;> rcases range_knownArgs _ _ _ _ _ h with h | h <;> exact absurd h (by decide)
    · rcases hk with rfl | rfl <;> exact absurd (range_uniqueArgs _ _ _ h) (by decide)
    · rcases hk with rfl | rfl <;> exact absurd (range_uniqueVars _ _ _ h) (by decide)
    · exact h
    · rcases hk with rfl | rfl <;> exact absurd (range_cycles _ _ _ h) (by decide)
    · rcases hk with rfl | rfl <;> exact absurd (range_unusedFrags _ _ _ h) (by decide)
    · rcases hk with rfl | rfl <;> rcases range_undefinedVars _ _ _ h with h | h <;> exact absurd h (by decide)
    · rcases hk with rfl | rfl <;> rcases range_unusedVars _ _ _ h with h | h <;> exact absurd h (by decide)
    · rcases hk with rfl | rfl <;> exact absurd (range_varPositions _ _ _ _ h) (by decide)
    · rcases hk with rfl | rfl <;> rcases range_overlap _ _ _ _ h with h | h | h <;> exact absurd h (by decide)
  · intro h; exact Or.inr (Or.inr (Or.inr (Or.inr (Or.inr (Or.inl h)))))


-- ------------------------------------------------------------------ before validation: the parser's uniqueness checks

theorem hasDup_eq (l : List String) : Model.Validate.hasDup l = Spec.Validate.hasDup l := by
  induction l with
  | nil => rfl
  | cons x xs ih => simp [Model.Validate.hasDup, Spec.Validate.hasDup, ih]

theorem pre_dupOperation (d : Doc) :
    PreKind.dupOperation ∈ preErrors d ↔ Spec.Validate.violates_OperationNameUniqueness d = true := by
  unfold preErrors Spec.Validate.violates_OperationNameUniqueness
  simp only [hasDup_eq]
  cases h : Spec.Validate.hasDup (d.ops.filterMap (·.name)) with
  | true => simp
  | false =>
    simp only [Bool.false_eq_true, if_false]
    split
    · simp
    · split
      · simp
      · split <;> simp

theorem pre_multipleAnonymous (d : Doc) :
    PreKind.multipleAnonymous ∈ preErrors d ↔
      (Spec.Validate.violates_OperationNameUniqueness d = false ∧ Spec.Validate.violates_LoneAnonymousOperation d = true) := by
  unfold preErrors Spec.Validate.violates_OperationNameUniqueness Spec.Validate.violates_LoneAnonymousOperation
  simp only [hasDup_eq]
  cases h : Spec.Validate.hasDup (d.ops.filterMap (·.name)) with
  | true => simp
  | false =>
    simp only [Bool.false_eq_true, if_false, true_and]
    split
    · simp_all
    · split
      · simp_all
      · split <;> simp_all

theorem pre_dupFragment (d : Doc) :
    PreKind.dupFragment ∈ preErrors d ↔
      (Spec.Validate.violates_OperationNameUniqueness d = false ∧ Spec.Validate.violates_LoneAnonymousOperation d = false
        ∧ Spec.Validate.violates_FragmentNameUniqueness d = true) := by
  unfold preErrors Spec.Validate.violates_OperationNameUniqueness Spec.Validate.violates_LoneAnonymousOperation
    Spec.Validate.violates_FragmentNameUniqueness
  simp only [hasDup_eq]
  cases h : Spec.Validate.hasDup (d.ops.filterMap (·.name)) with
  | true => simp
  | false =>
    simp only [Bool.false_eq_true, if_false, true_and]
    split
    · rename_i hm
      have hm' : (decide (d.ops.length > 1) && d.ops.any (·.name.isNone)) = true := hm
      simp [hm']
    · split
      · simp_all
      · split <;> simp_all

-- ------------------------------------------------------------------ the reference validator's list

open AGV.Spec.Validate in
theorem mem_violations (P : Spec.Validate.Params) (S : VSchema) (d : Doc) (vars opName) (r : String) :
    r ∈ violations P S d vars opName ↔
      (r = "5.2.1.1 Operation Name Uniqueness" ∧ violates_OperationNameUniqueness d = true)
      ∨ (r = "5.2.2.1 Lone Anonymous Operation" ∧ violates_LoneAnonymousOperation d = true)
      ∨ (r = "5.2.3.1 Single Root Field" ∧ violates_SingleRootField d (closureFuel d) = true)
      ∨ (r = "5.3.1 Field Selections" ∧ violates_FieldSelections S d = true)
      ∨ (r = "5.3.2 Field Selection Merging" ∧ violates_FieldSelectionMerging S d = true)
      ∨ (r = "5.3.3 Leaf Field Selections" ∧ violates_LeafFieldSelections S d = true)
      ∨ (r = "5.4.1 Argument Names" ∧ violates_ArgumentNames S d = true)
      ∨ (r = "5.4.2 Argument Uniqueness" ∧ violates_ArgumentUniqueness S d = true)
      ∨ (r = "5.4.2.1 Required Arguments" ∧ violates_RequiredArguments S d = true)
      ∨ (r = "5.5.1.1 Fragment Name Uniqueness" ∧ violates_FragmentNameUniqueness d = true)
      ∨ (r = "5.5.1.2 Fragment Spread Type Existence" ∧ violates_FragmentSpreadTypeExistence S d = true)
      ∨ (r = "5.5.1.3 Fragments On Composite Types" ∧ violates_FragmentsOnCompositeTypes S d = true)
      ∨ (r = "5.5.1.4 Fragments Must Be Used" ∧ violates_FragmentsMustBeUsed d = true)
      ∨ (r = "5.5.2.1 Fragment Spread Target Defined" ∧ violates_FragmentSpreadTargetDefined d = true)
      ∨ (r = "5.5.2.2 Fragment Spreads Must Not Form Cycles" ∧ violates_FragmentSpreadsMustNotFormCycles d = true)
      ∨ (r = "5.5.2.3 Fragment Spread Is Possible" ∧ violates_FragmentSpreadIsPossible S d = true)
      ∨ (r = "5.6 Values Of Correct Type" ∧ violates_ValuesOfCorrectType S d = true)
      ∨ (r = "5.7.1 Directives Are Defined" ∧ violates_DirectivesAreDefined S d = true)
      ∨ (r = "5.7.2 Directives Are In Valid Locations" ∧ violates_DirectivesInValidLocations S d = true)
      ∨ (r = "5.7.3 Directives Are Unique Per Location" ∧ violates_DirectivesUniquePerLocation S d = true)
      ∨ (r = "5.8.1 Variable Uniqueness" ∧ violates_VariableUniqueness d = true)
      ∨ (r = "5.8.2 Variables Are Input Types" ∧ violates_VariablesAreInputTypes S d = true)
      ∨ (r = "5.8.3 All Variable Uses Defined" ∧ violates_AllVariableUsesDefined d = true)
      ∨ (r = "5.8.4 All Variables Used" ∧ violates_AllVariablesUsed d = true)
      ∨ (r = "5.8.5 All Variable Usages Are Allowed" ∧ violates_AllVariableUsagesAllowed S d = true)
      ∨ (r = "async-graphql: Upload only in mutations" ∧ violates_UploadOnlyInMutations P d = true)
      ∨ (r = "6.1.2 Coercing Variable Values" ∧ violates_VariableValues S d vars opName = true)
      ∨ (r = "operation type not served" ∧ violates_OperationTypeExists S d = true) := by
  have hr : ∀ (name : String) (b : Bool), r ∈ (if b then [name] else []) ↔ (r = name ∧ b = true) := by
    intro name b; cases b <;> simp
  unfold violations
  simp only [List.mem_append, hr, or_assoc]

end AGV.Lemmas.ValidateRules
