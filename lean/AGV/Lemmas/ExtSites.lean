/-
  C30 — lemmas about the hook SITES of the family's executor (Model/Ext.lean) run without
  extensions: the site markers are well bracketed (`Bal`) and the field sites correspond one to
  one to the resolver invocations of the executor's log (`Once`), by induction on the fuel and
  on the `TypeRef`, mirroring the naturality proof of Lemmas/Ext.lean.
-/
import AGV.Lemmas.Ext
namespace AGV.Lemmas.Ext
open AGV.Core AGV.Model.Ext
open AGV.Spec.Exec (FieldOcc mapIdx)

/-- well bracketed w.r.t. a stack of open sites: a closing marker must be the innermost open
    site; the events recorded by extensions are transparent -/
def balanced : List Site → List Ev → Bool
  | st, [] => st.isEmpty
  | st, .mark true s :: r => balanced (s :: st) r
  | top :: st, .mark false s :: r => top == s && balanced st r
  | [], .mark false _ :: _ => false
  | st, .hook _ _ _ :: r => balanced st r

/-- a self-contained well-bracketed segment: it can be erased in any context -/
def Bal (t : List Ev) : Prop := ∀ st r, balanced st (t ++ r) = balanced st r

theorem Bal.nil : Bal [] := fun _ _ => rfl

theorem Bal.append {a b : List Ev} (ha : Bal a) (hb : Bal b) : Bal (a ++ b) := by
  intro st r; rw [List.append_assoc, ha, hb]

theorem Bal.site {t : List Ev} (s : Site) (h : Bal t) : Bal (Ev.mark true s :: t ++ [Ev.mark false s]) := by
  intro st r
  simp only [List.cons_append, List.append_assoc, balanced]
  rw [h]
  simp [balanced]

theorem Bal.hooks {t : List Ev} (a b : List Ev) (ha : ∀ e ∈ a, ∃ en i s, e = Ev.hook en i s)
    (hb : ∀ e ∈ b, ∃ en i s, e = Ev.hook en i s) (h : Bal t) : Bal (a ++ t ++ b) := by
  have key : ∀ (a : List Ev), (∀ e ∈ a, ∃ en i s, e = Ev.hook en i s) → Bal a := by
    intro a
    induction a with
    | nil => intro _; exact Bal.nil
    | cons e a ih =>
      intro ha st r
      obtain ⟨en, i, s, rfl⟩ := ha e List.mem_cons_self
      simp only [List.cons_append, balanced]
      exact ih (fun e' he' => ha e' (List.mem_cons_of_mem _ he')) st r
  exact ((key a ha).append h).append (key b hb)

theorem Bal.flatten {ts : List (List Ev)} (h : ∀ t ∈ ts, Bal t) : Bal ts.flatten := by
  induction ts with
  | nil => exact Bal.nil
  | cons t ts ih =>
    rw [List.flatten_cons]
    exact (h t List.mem_cons_self).append (ih (fun t' ht' => h t' (List.mem_cons_of_mem _ ht')))

theorem Bal.balanced {t : List Ev} (h : Bal t) : balanced [] t = true := by
  have := h [] []
  rw [List.append_nil] at this
  rw [this]; rfl

/-- the site of a field (as opposed to a list item): a resolve site whose path ends in a key -/
def isFieldSite (s : Site) : Bool :=
  s.hook = .resolve && (match s.path.getLast? with | some (.key _) => true | _ => false)

def isFieldOpen : Ev → Bool
  | .mark true s => isFieldSite s
  | _ => false

/-- number of field sites opened in a trace -/
def fieldOpens (t : List Ev) : Nat := (t.filter isFieldOpen).length

theorem fieldOpens_nil : fieldOpens [] = 0 := rfl
theorem fieldOpens_append (a b : List Ev) : fieldOpens (a ++ b) = fieldOpens a + fieldOpens b := by
  simp [fieldOpens, List.filter_append]
theorem fieldOpens_site (s : Site) (t : List Ev) :
    fieldOpens (Ev.mark true s :: t ++ [Ev.mark false s]) = (if isFieldSite s then 1 else 0) + fieldOpens t := by
  simp only [fieldOpens, List.cons_append, List.filter_cons, List.filter_append, isFieldOpen, List.filter_nil]
  split <;> simp <;> omega
theorem fieldOpens_flatten (ts : List (List Ev)) : fieldOpens ts.flatten = (ts.map fieldOpens).sum := by
  induction ts with
  | nil => rfl
  | cons t ts ih => simp [fieldOpens_append, ih]

theorem isFieldSite_key (p : List PathSeg) (k par ret : String) :
    isFieldSite { hook := .resolve, path := p ++ [PathSeg.key k], parent := par, ret := ret } = true := by
  simp [isFieldSite]
theorem isFieldSite_idx (p : List PathSeg) (i : Nat) (par ret : String) :
    isFieldSite { hook := .resolve, path := p ++ [PathSeg.idx i], parent := par, ret := ret } = false := by
  simp [isFieldSite]

/-- THE INVARIANT of the executor: the trace is well bracketed and opens as many field sites as
    the result's log has resolver invocations -/
def Once (r : T FRes) : Prop := Bal r.2 ∧ fieldOpens r.2 = r.1.log.length

theorem Once.leaf (r : FRes) (h : r.log = []) : Once (r, []) := ⟨Bal.nil, by simp [fieldOpens_nil, h]⟩

theorem Once.same {r r' : T FRes} (h : Once r) (h2 : r'.2 = r.2) (h1 : r'.1.log = r.1.log) : Once r' := by
  unfold Once; rw [h2, h1]; exact h

/-- the resolve-hook runner without extensions: the two markers around the inner future -/
def SiteHook (h : Site → Wrap FRes) : Prop :=
  ∀ s b, h s b = ((b ()).1, Ev.mark true s :: (b ()).2 ++ [Ev.mark false s])

theorem resolveAt_nil_siteHook {Req Doc VR Resp E : Type} :
    SiteHook (resolveAt ([] : List (Ext Req Doc VR Resp E))) := by
  intro s b; rfl

theorem joinAllT_all (Q : T FRes → Prop) (fs : List (Unit → T FRes)) (h : ∀ f ∈ fs, Q (f ())) :
    ∀ r ∈ joinAllT fs, Q r := by
  induction fs with
  | nil => simp [joinAllT]
  | cons f fs ih =>
    simp only [joinAllT]
    have hf := h f List.mem_cons_self
    have ih' := ih (fun g hg => h g (List.mem_cons_of_mem _ hg))
    split
    · intro r hr; simp only [List.mem_singleton] at hr; subst hr; exact hf
    · intro r hr
      rcases List.mem_cons.mp hr with rfl | hr
      · exact hf
      · exact ih' r hr

theorem mapIdx_all {α β : Type} (Q : β → Prop) (F : Nat → α → β) (h : ∀ i v, Q (F i v)) (xs : List α) (i0 : Nat) :
    ∀ f ∈ mapIdx F xs i0, Q f := by
  induction xs generalizing i0 with
  | nil => simp [mapIdx]
  | cons v xs ih =>
    intro f hf
    simp only [mapIdx, List.mem_cons] at hf
    rcases hf with rfl | hf
    · exact h _ _
    · exact ih _ f hf

theorem gather_snd (rs : List (T FRes)) (ok : List GValue → GValue) (bad : Option GValue) :
    (gather rs ok bad).2 = (rs.map (·.2)).flatten := by
  simp only [gather]; split <;> rfl
theorem gather_log (rs : List (T FRes)) (ok : List GValue → GValue) (bad : Option GValue) :
    (gather rs ok bad).1.log = (rs.map (·.1.log)).flatten := by
  simp only [gather]; split <;> rfl

theorem Once.gather (rs : List (T FRes)) (ok : List GValue → GValue) (bad : Option GValue)
    (h : ∀ r ∈ rs, Once r) : Once (gather rs ok bad) := by
  refine ⟨?_, ?_⟩
  · rw [gather_snd]
    apply Bal.flatten
    intro t ht
    obtain ⟨r, hr, rfl⟩ := List.mem_map.mp ht
    exact (h r hr).1
  · rw [gather_snd, gather_log, fieldOpens_flatten, List.length_flatten, List.map_map, List.map_map]
    congr 1
    apply List.map_congr_left
    intro r hr
    exact (h r hr).2

theorem nnWrapX_snd (r : T FRes) : (nnWrapX r).2 = r.2 := by
  simp only [nnWrapX]; split <;> (try split) <;> rfl
theorem nnWrapX_log (r : T FRes) : (nnWrapX r).1.log = r.1.log := by
  simp only [nnWrapX]; split <;> (try split) <;> rfl
theorem itemWrapX_snd (D : AGV.Model.ExecStatic.Defects) (p : List PathSeg) (r : T FRes) : (itemWrapX D p r).2 = r.2 := by
  simp only [itemWrapX]; split <;> rfl
theorem itemWrapX_log (D : AGV.Model.ExecStatic.Defects) (p : List PathSeg) (r : T FRes) :
    (itemWrapX D p r).1.log = r.1.log := by
  simp only [itemWrapX]; split <;> rfl

theorem resolveValueX_once {x : XCtx} (hh : SiteHook x.hookAt)
    (rec : String → String → Nat → List Sel → List PathSeg → T FRes)
    (hrec : ∀ a b c d e, Once (rec a b c d e))
    (t : TypeRef) : ∀ (rv : RVal) (ss : List Sel) (path : List PathSeg) (pos : Pos),
      Once (resolveValueX x rec t rv ss path pos) := by
  induction t with
  | nonNull t ih =>
    intro rv ss path pos
    cases rv <;> simp only [resolveValueX] <;> first
      | exact Once.leaf _ rfl
      | exact (ih _ _ _ _).same (nnWrapX_snd _) (nnWrapX_log _)
  | list t ih =>
    intro rv ss path pos
    cases rv <;> simp only [resolveValueX] <;> first
      | exact Once.leaf _ rfl
      | skip
    rename_i xs
    apply Once.gather
    apply joinAllT_all
    apply mapIdx_all (fun (f : Unit → T FRes) => Once (f ()))
    intro i v
    show Once (x.hookAt _ _)
    rw [hh]
    have h := (ih v ss (path ++ [.idx i]) pos).same (itemWrapX_snd x.c.D (path ++ [.idx i]) _) (itemWrapX_log x.c.D (path ++ [.idx i]) _)
    refine ⟨Bal.site _ h.1, ?_⟩
    rw [fieldOpens_site, isFieldSite_idx]
    simpa using h.2
  | named n =>
    intro rv ss path pos
    cases rv <;> simp only [resolveValueX] <;> first
      | exact Once.leaf _ rfl
      | skip
    · split <;> exact Once.leaf _ rfl
    · split
      · split
        · exact hrec _ _ _ _ _
        · exact (hrec _ _ _ _ _).same rfl rfl
      · exact Once.leaf _ rfl

theorem completeFieldX_once {x : XCtx} (hh : SiteHook x.hookAt)
    (rec : String → String → Nat → List Sel → List PathSeg → T FRes)
    (hrec : ∀ a b c d e, Once (rec a b c d e))
    (fd : FieldDef) (rv : RVal) (occ : FieldOcc) (fpath : List PathSeg) :
    Once (completeFieldX x rec fd rv occ fpath) := by
  cases rv <;> simp only [completeFieldX] <;> first
    | exact resolveValueX_once hh rec hrec _ _ _ _ _
    | skip
  split <;> exact Once.leaf _ rfl

/-- one field future: either no site and no invocation (`__typename`, unknown field), or exactly
    one field site around exactly one more invocation than the completion of the value logs -/
theorem runFieldX_once {x : XCtx} (hh : SiteHook x.hookAt)
    (rec : String → String → Nat → List Sel → List PathSeg → T FRes)
    (hrec : ∀ a b c d e, Once (rec a b c d e))
    (rt : String) (id : Nat) (path : List PathSeg) (occ : FieldOcc) (hd : Bool) :
    Once (runFieldX x rec rt id path occ hd) := by
  simp only [runFieldX]
  split
  · exact Once.leaf _ rfl
  · split
    · split <;> exact Once.leaf _ rfl
    · rename_i fd _
      rw [hh]
      have h := completeFieldX_once hh rec hrec fd (AGV.Model.ExecStatic.fieldRVal x.c id fd occ) occ
        (path ++ [PathSeg.key occ.key])
      refine ⟨Bal.site _ h.1, ?_⟩
      show fieldOpens (Ev.mark true _ :: _ ++ [Ev.mark false _]) = _
      rw [fieldOpens_site, isFieldSite_key]
      simp only [if_true, List.length_cons]
      rw [h.2]; omega

theorem resolveContainerX_once {x : XCtx} (hh : SiteHook x.hookAt) (fuel : Nat) :
    ∀ (st rt : String) (id : Nat) (sels : List Sel) (path : List PathSeg),
      Once (resolveContainerX x fuel st rt id sels path) := by
  induction fuel with
  | zero => intro st rt id sels path; simp only [resolveContainerX]; exact Once.leaf _ rfl
  | succ fuel ih =>
    intro st rt id sels path
    simp only [resolveContainerX]
    apply Once.gather
    apply joinAllT_all
    intro f hf
    obtain ⟨o, _, rfl⟩ := List.mem_map.mp hf
    exact runFieldX_once hh _ ih _ _ _ _ _

theorem runOp_once (D : AGV.Model.ExecStatic.Defects) (X : XDefects) (k : Bool) (h : Site → Wrap FRes)
    (hh : SiteHook h) (S : Schema) (d : Doc) (op : OpDef) (raw : List (String × GValue)) (w : World) (fuel : Nat) :
    Once (runOp D X k h S d op raw w fuel) := by
  simp only [runOp]
  exact resolveContainerX_once (x := { c := _, X := X, hooked := k, hookAt := h }) hh fuel _ _ _ _ _

end AGV.Lemmas.Ext
