import AGV.Lemmas.CoerceStruct

/- C06: the value-level refinement `parse = view ∘ coerce` by mutual structural induction on the value. -/
namespace AGV.Lemmas.Coerce
open AGV.Core
open AGV.Spec.Coerce
open AGV.Model.Coerce

theorem view_stripOpt (T : Table) (t : RTy) (a : GValue) : view T (stripOpt t) a = view T t a := by
  cases t <;> simp [stripOpt, view_opt]

theorem finishOneOf_two (a b : String × GValue) (l : List (String × GValue)) : finishOneOf (a :: b :: l) = none := by
  simp [finishOneOf]

theorem finishOneOf_one (k : String) (a : GValue) (h : a ≠ .null) : finishOneOf [(k, a)] = some [(k, a)] := by
  cases a <;> simp_all [finishOneOf]

theorem shapeOkEntries_declared (T : Table) (fields : List InField) (fs : List (String × GValue))
    (h : shapeOkEntries T fields fs = true) : declared fields fs := by
  induction fs with
  | nil => intro kv hkv; simp at hkv
  | cons e fs ih =>
    obtain ⟨k, v⟩ := e
    simp only [shapeOkEntries, Bool.and_eq_true] at h
    intro kv hkv
    rcases List.mem_cons.mp hkv with rfl | hkv
    · cases hf : fields.find? (·.name = k) with
      | none => simp [hf] at h
      | some f => exact ⟨f, rfl⟩
    · exact ih h.2 kv hkv

/-- an object literal: given that every entry is parsed as specified -/
theorem parse_obj (T : Table) (dflt : InField → GValue → Option RV) (hwf : wfTable T = true)
    (hd : ∀ n o fs f d, T.find? n = some (.input o fs) → f ∈ fs → f.default = some d →
        dflt f d = some (view T f.ty d))
    (rty : RTy) (fs : List (String × GValue)) (hs : shapeOk T rty.gql (.obj fs) = true)
    (he : ∀ o fields, T.find? rty.base = some (.input o fields) →
        parseEntriesWith dflt Defects.none T o fields fs = entryRes T o fields fs) :
    parseWith dflt Defects.none T rty (.obj fs) = (coerce T true rty.gql (.obj fs)).map (view T rty) := by
  simp only [parseWith, coerce, gql_base]
  simp only [shapeOk, gql_base] at hs
  cases hfind : T.find? rty.base with
  | none => simp
  | some d =>
    cases d with
    | scalar => simp
    | enum vs => simp
    | input o fields =>
      have hwd := wfTable_find hwf hfind
      simp only [wfDef, Bool.and_eq_true] at hwd
      simp only [hfind, Bool.and_eq_true] at hs
      have hdecl := shapeOkEntries_declared T fields fs hs.2
      have hview : ∀ r, view T rty (wrap rty.gql (.obj r)) = wrapVec rty (view T rty (.obj r)) :=
        fun r => view_wrap T (.obj r) rfl rty
      cases o with
      | false =>
        simp only [he false fields hfind]
        rw [struct_eq T dflt fields fs hwd.1 hs.1 hdecl (fun f hf d hdf => hd _ _ _ f d hfind hf hdf)]
        cases hc : coerceEntries T true fields fs with
        | none => simp
        | some es =>
          simp only [Option.bind_some, Bool.false_eq_true, if_false, Option.map_map]
          cases finishFields fields es with
          | none => simp
          | some r => simp [hview, view, hfind]
      | true =>
        simp only [he true fields hfind, if_true]
        have hnn : ∀ f ∈ fields, (stripOpt f.ty).gql.isNonNull = true := by
          have := hwd.2; simpa using this
        cases fs with
        | nil => simp [entryRes_nil, coerceEntries, finishOneOf]
        | cons e rest =>
          obtain ⟨k, v⟩ := e
          obtain ⟨f, hf⟩ := hdecl (k, v) (by simp)
          cases rest with
          | nil =>
            rw [entryRes_cons_some T true fields k v [] f hf, entryRes_nil]
            simp only [coerceEntries, hf, tyOf, if_true, List.length_singleton]
            by_cases hv : v = .null
            · subst hv
              simp only [coerce, hnn f (find_name hf).2, if_true, Option.map_none]
              by_cases hfn : f.ty.gql.isNonNull = true <;> simp [hfn, finishOneOf]
            · rw [coerce_congr T true (stripOpt f.ty).gql f.ty.gql v hv (stripOpt_gql f.ty).1]
              cases hc : coerce T true f.ty.gql v with
              | none => simp
              | some a =>
                have hane := coerce_ne_null T true f.ty.gql v a hv hc
                simp [finishOneOf_one k a hane, hview, view, hfind, viewEntries, hf, view_stripOpt]
          | cons e2 rest2 =>
            obtain ⟨k2, v2⟩ := e2
            obtain ⟨f2, hf2⟩ := hdecl (k2, v2) (by simp)
            rw [entryRes_cons_some T true fields k v _ f hf, entryRes_cons_some T true fields k2 v2 _ f2 hf2]
            cases hc : coerceEntries T true fields ((k, v) :: (k2, v2) :: rest2) with
            | none => simp
            | some es =>
              have hlen := coerceEntries_length T true fields _ es hc
              cases es with
              | nil => simp at hlen
              | cons a es =>
                cases es with
                | nil => simp at hlen
                | cons b es => simp [finishOneOf_two]


-- ------------------------------------------------------------------ leaves (as in Props.C06, needed below it)

theorem parseScalar_eq (n : String) (v : GValue) :
    parseScalar n v = (coerceScalar n v).map leafView := by
  unfold parseScalar coerceScalar
  split
  · rw [parseInt_i32]; split <;> simp_all [leafView]
  all_goals simp_all [leafView]

theorem parseEnum_eq (values : List String) (v : GValue) :
    parseEnum values v = (coerceEnum true values v).map leafView := by
  cases v <;> simp [parseEnum, coerceEnum, leafView] <;> split <;> simp_all [leafView]

theorem parseLeaf_eq (T : Table) (n : String) (v : GValue) :
    parseLeaf T n v = (coerceLeaf T true n v).map leafView := by
  unfold parseLeaf coerceLeaf
  split <;> simp_all [parseScalar_eq, parseEnum_eq]

theorem leaf_eq (T : Table) (rty : RTy) (v : GValue) :
    (parseLeaf T rty.base v).map (wrapVec rty) =
      ((coerceLeaf T true rty.gql.base v).map (wrap rty.gql)).map (view T rty) := by
  rw [gql_base, parseLeaf_eq]
  cases hc : coerceLeaf T true rty.base v with
  | none => simp
  | some g =>
    have hl := coerceLeaf_isLeaf T true rty.base v g hc
    have ha : atomic g = true := by cases g <;> simp_all [isLeaf, atomic]
    simp [view_wrap T g ha rty, view_leaf T rty g hl]

theorem list_eq (T : Table) (dflt : InField → GValue → Option RV) (rty : RTy) (xs : List GValue)
    (hs : shapeOk T rty.gql (.list xs) = true)
    (hl : ∀ t, shapeOkList T t.gql xs = true →
      parseListWith dflt Defects.none T t xs = (coerceList T true t.gql xs).map (viewList T t)) :
    parseWith dflt Defects.none T rty (.list xs) = (coerce T true rty.gql (.list xs)).map (view T rty) := by
  simp only [parseWith, coerce]
  simp only [shapeOk] at hs
  obtain ⟨h1, h2, h3, h4⟩ := gql_nullable_core rty
  cases hcore : rty.core with
  | vec u =>
    obtain ⟨hn, hi⟩ := h1 u hcore
    rw [hn] at hs ⊢
    simp only [hl u hs, Option.map_map]
    cases coerceList T true u.gql xs with
    | none => simp
    | some ys => simp [view, hi]
  | named n => rw [h2 n hcore]; simp
  | opt u => exact absurd hcore (h3 u)
  | mu u => exact absurd hcore (h4 u)

mutual
/-- the refinement on every well-shaped value, for every Rust type -/
theorem parse_value (T : Table) (dflt : InField → GValue → Option RV) (hwf : wfTable T = true)
    (hd : ∀ n o fs f d, T.find? n = some (.input o fs) → f ∈ fs → f.default = some d →
        dflt f d = some (view T f.ty d)) :
    ∀ (v : GValue) (rty : RTy), shapeOk T rty.gql v = true →
      parseWith dflt Defects.none T rty v = (coerce T true rty.gql v).map (view T rty)
  | .null, rty, _ => by
    simp only [parseWith, coerce, parseNull_repaired]
    split <;> simp [view]
  | .int i, rty, _ => by simp only [parseWith, coerce]; exact leaf_eq T rty _
  | .float t, rty, _ => by simp only [parseWith, coerce]; exact leaf_eq T rty _
  | .str s, rty, _ => by simp only [parseWith, coerce]; exact leaf_eq T rty _
  | .bool b, rty, _ => by simp only [parseWith, coerce]; exact leaf_eq T rty _
  | .enum n, rty, _ => by simp only [parseWith, coerce]; exact leaf_eq T rty _
  | .list xs, rty, h => list_eq T dflt rty xs h (fun t ht => parse_list T dflt hwf hd xs t ht)
  | .obj fs, rty, h => parse_obj T dflt hwf hd rty fs h (fun o fields hfind => by
      have h' := h
      simp only [shapeOk, gql_base, hfind, Bool.and_eq_true] at h'
      exact parse_entries T dflt hwf hd fs o fields h'.2)
theorem parse_list (T : Table) (dflt : InField → GValue → Option RV) (hwf : wfTable T = true)
    (hd : ∀ n o fs f d, T.find? n = some (.input o fs) → f ∈ fs → f.default = some d →
        dflt f d = some (view T f.ty d)) :
    ∀ (xs : List GValue) (t : RTy), shapeOkList T t.gql xs = true →
      parseListWith dflt Defects.none T t xs = (coerceList T true t.gql xs).map (viewList T t)
  | [], t, _ => by simp [parseListWith, coerceList, viewList]
  | x :: xs, t, h => by
    simp only [shapeOkList, Bool.and_eq_true] at h
    simp only [parseListWith, coerceList, parse_value T dflt hwf hd x t h.1, parse_list T dflt hwf hd xs t h.2]
    cases coerce T true t.gql x <;> cases coerceList T true t.gql xs <;> simp [viewList]
theorem parse_entries (T : Table) (dflt : InField → GValue → Option RV) (hwf : wfTable T = true)
    (hd : ∀ n o fs f d, T.find? n = some (.input o fs) → f ∈ fs → f.default = some d →
        dflt f d = some (view T f.ty d)) :
    ∀ (fs : List (String × GValue)) (o : Bool) (fields : List InField), shapeOkEntries T fields fs = true →
      parseEntriesWith dflt Defects.none T o fields fs = entryRes T o fields fs
  | [], o, fields, _ => by simp [parseEntriesWith, entryRes_nil]
  | (k, v) :: rest, o, fields, h => by
    simp only [shapeOkEntries, Bool.and_eq_true] at h
    cases hf : fields.find? (·.name = k) with
    | none => simp [hf] at h
    | some f =>
      simp only [hf] at h
      rw [entryRes_cons_some T o fields k v rest f hf]
      simp only [parseEntriesWith, hf]
      have key : ∀ ty, ty = tyOf o f →
          (k, parseWith dflt Defects.none T ty v) :: parseEntriesWith dflt Defects.none T o fields rest =
          (k, Option.map (view T (tyOf o f)) (coerce T true (tyOf o f).gql v)) :: entryRes T o fields rest := by
        intro ty hty
        rw [hty, parse_value T dflt hwf hd v (tyOf o f) (by rw [shapeOk_tyOf]; exact h.1),
          parse_entries T dflt hwf hd rest o fields h.2]
      apply key
      cases o
      · simp [tyOf]
      · simp only [tyOf, if_true]
        split
        · rename_i t heq; simp [stripOpt, heq]
        · rename_i hne
          cases hft : f.ty with
          | opt t => exact absurd hft (hne t)
          | named n => simp [stripOpt]
          | mu t => simp [stripOpt]
          | vec t => simp [stripOpt]
end

end AGV.Lemmas.Coerce
