/-
  Property C13: the `arguments` / `const_arguments` productions (`"(" ~ argument+ ~ ")"`) against the
  specification's `pArgList`, and `parse_arguments` on the emitted pair.
-/
import AGV.Lemmas.PegC13Val6
namespace AGV.Lemmas.PegX
open AGV.Model.Peg AGV.Model.BuildAst AGV.Spec.Lex AGV.Spec.Parse AGV.Core.PAst AGV.Lemmas.PegC13 AGV.Lemmas.SpecVal

-- ------------------------------------------------------------------ the specification's argument list, fuel-free

theorem pArgList_nc (c : Bool) (g : Nat) (n : List Char) (r : List Tok) :
    pArgList P' c (g + 1) (.name n :: .punct ':' :: r) =
      (pV P' c r).bind (fun x =>
        match closeTok ')' x.2 with
        | some r' => some ([(n, x.1)], r')
        | none => (pArgList P' c g x.2).map (fun y => ((n, x.1) :: y.1, y.2))) := by
  rw [pArgList]
  show (match pV P' c r with | some (v, r) => _ | none => none) = _
  cases pV P' c r with
  | none => rfl
  | some x =>
    obtain ⟨v, r1⟩ := x
    simp only [Option.bind_some]
    split
    · rename_i r'; simp [closeTok]
    · rename_i hne
      rw [closeTok_none (fun r' e => hne r' e)]

theorem pArgList_other (c : Bool) (g : Nat) (ts : List Tok) (h : ∀ n r, ts ≠ .name n :: .punct ':' :: r) :
    pArgList P' c g ts = none := by
  cases g with
  | zero => rw [pArgList]
  | succ g =>
    rw [pArgList]
    exact fun n r e => h n r e

theorem pArgList_fuel (c : Bool) : ∀ (L : Nat) (ts : List Tok), ts.length ≤ L → ∀ g g', ts.length < g → ts.length < g' →
    pArgList P' c g ts = pArgList P' c g' ts := by
  intro L
  induction L using Nat.strongRecOn with
  | _ L ih =>
    intro ts hL g g' hg hg'
    obtain ⟨j, rfl⟩ : ∃ k, g = k + 1 := ⟨g - 1, by omega⟩
    obtain ⟨j', rfl⟩ : ∃ k, g' = k + 1 := ⟨g' - 1, by omega⟩
    by_cases hn : ∃ n r, ts = .name n :: .punct ':' :: r
    · obtain ⟨n, r, rfl⟩ := hn
      simp only [List.length_cons] at hL hg hg'
      rw [pArgList_nc, pArgList_nc]
      cases hp : pV P' c r with
      | none => rfl
      | some x =>
        have := pV_len P' c (v := x.1) (r := x.2) hp
        simp only [Option.bind_some]
        cases closeTok ')' x.2 with
        | some r' => rfl
        | none =>
          simp only []
          rw [ih x.2.length (by omega) x.2 (Nat.le_refl _) j j' (by omega) (by omega)]
    · rw [pArgList_other c _ ts (fun n r e => hn ⟨n, r, e⟩), pArgList_other c _ ts (fun n r e => hn ⟨n, r, e⟩)]

/-- `Argument+` up to `)` -/
def argsV (c : Bool) (ts : List Tok) : Option (List (Name × PValue) × List Tok) := pArgList P' c (ts.length + 1) ts

/-- … after at least one argument: `)` ends the list -/
def afterV (c : Bool) (ts : List Tok) : Option (List (Name × PValue) × List Tok) :=
  match closeTok ')' ts with
  | some r => some ([], r)
  | none => argsV c ts

theorem argsV_eq (c : Bool) (ts : List Tok) :
    argsV c ts = (pField c ts).bind (fun x => (afterV c x.2).map (fun y => (x.1 :: y.1, y.2))) := by
  by_cases hn : ∃ n r, ts = .name n :: .punct ':' :: r
  · obtain ⟨n, r, rfl⟩ := hn
    rw [argsV, pArgList_nc, pField_nc]
    cases hp : pV P' c r with
    | none => rfl
    | some x =>
      have := pV_len P' c (v := x.1) (r := x.2) hp
      simp only [Option.bind_some, Option.map_some, afterV]
      cases closeTok ')' x.2 with
      | some r' => rfl
      | none =>
        simp only []
        rw [pArgList_fuel c x.2.length x.2 (Nat.le_refl _) _ (x.2.length + 1) (by simp; omega) (Nat.lt_succ_self _)]
        rfl
  · rw [argsV, pArgList_other c _ ts (fun n r e => hn ⟨n, r, e⟩)]
    have : pField c ts = none := by
      unfold pField; split
      · rename_i n r; exact absurd ⟨n, r, rfl⟩ hn
      · rfl
    rw [this]; rfl

theorem afterV_close (c : Bool) (r : List Tok) : afterV c (.punct ')' :: r) = some ([], r) := by
  simp [afterV, closeTok]

theorem afterV_elem (c : Bool) (ts : List Tok) (h : ∀ r, ts ≠ .punct ')' :: r) :
    afterV c ts = (pField c ts).bind (fun x => (afterV c x.2).map (fun y => (x.1 :: y.1, y.2))) := by
  rw [afterV, closeTok_none h]; exact argsV_eq c ts

theorem pField_punct (c : Bool) (y : Char) (r : List Tok) : pField c (.punct y :: r) = none := by simp [pField]

/-- a chain of `name ":" value` elements against any loop that ends at the Punctuator `y` -/
theorem chain_loop {F : ValFam} (y : Char) (loop : List Tok → Option (List (Name × PValue) × List Tok))
    (hclose : ∀ r, loop (.punct y :: r) = some ([], r))
    (helem : ∀ ts, (∀ r, ts ≠ .punct y :: r) →
      loop ts = (pField F.const ts).bind (fun x => (loop x.2).map (fun z => (x.1 :: z.1, z.2))))
    {p : Nat} {s : List Char} {p' : Nat} {s' : List Char} {ps : List Pair}
    (h : Chain (GoodFC F) p s p' s' ps) : ∀ s₀, At s₀ p s →
    ∃ fs, loop (toks s) = (closeTok y (toks s')).map (fun r => (fs, r)) ∧ At s₀ p' s' ∧ p ≤ p' ∧
      BuildsFL s₀ p ps fs := by
  induction h with
  | @stop p s hg =>
    intro s₀ hat
    have hg' := hg s₀ hat.skip
    have hpv : pField F.const (toks (skipI s)) = none := by
      cases hp : pField F.const (toks (skipI s)) with
      | none => rfl
      | some x => obtain ⟨⟨n, v⟩, ts'⟩ := x; obtain ⟨s'', pr, e, -⟩ := hg'.ok hp; cases e
    refine ⟨[], ?_, hat, Nat.le_refl _, fun bf _ => by rw [expFs_nil]; rfl⟩
    rw [← toks_skipI s]
    by_cases hc : ∃ r, toks (skipI s) = .punct y :: r
    · obtain ⟨r, hr⟩ := hc
      rw [hr, hclose, closeTok_self]; rfl
    · rw [helem _ (fun r e => hc ⟨r, e⟩), hpv, closeTok_none (fun r e => hc ⟨r, e⟩)]; rfl
  | @step p s p2 s2 ps2 p3 s3 ps3 hg hch ih =>
    intro s₀ hat
    have hat1 := hat.skip
    have hg' := hg s₀ hat1
    cases hp : pField F.const (toks (skipI s)) with
    | none => have := hg'.fail hp; cases this
    | some x =>
      obtain ⟨⟨n, v⟩, ts'⟩ := x
      obtain ⟨s'', pr, e, hts, hlt, ⟨mid, hmid⟩, hst, hb⟩ := hg'.ok hp
      cases e
      have hat2 : At s₀ (skipPos p s + ((skipI s).length - s2.length)) s2 :=
        hat1.consumes ⟨mid, hmid, by rw [hmid]; simp⟩
      obtain ⟨fs', hi, hat3, hle, hbl⟩ := ih s₀ hat2
      have hge := skipPos_ge p s
      refine ⟨(n, v) :: fs', ?_, hat3, by omega, ?_⟩
      · rw [← toks_skipI s]
        have hnc : ∀ r, toks (skipI s) ≠ .punct y :: r := fun r e => by rw [e, pField_punct] at hp; cases hp
        rw [helem _ hnc, hp]
        simp only [Option.bind_some]
        rw [← hts, hi]
        cases closeTok y (toks s3) <;> rfl
      · intro bf hbf
        have h1 := hb bf (by rw [hst]; omega)
        have h2 := hbl bf (by omega)
        rw [List.singleton_append, List.mapM_cons, h1, h2, expFs_cons]
        rfl

-- ------------------------------------------------------------------ the arguments rule

def aName (F : ValFam) : String := if F.const then "const_argument" else "argument"
def asName (F : ValFam) : String := if F.const then "const_arguments" else "arguments"
def aRule (F : ValFam) : Rule := ⟨aName F, .normal, .seq (.ident "name") (.seq (.str [':']) (.ident F.vName))⟩
def asRule (F : ValFam) : Rule :=
  ⟨asName F, .normal, .seq (.str ['(']) (.seq (.rep1 (.ident (aName F))) (.str [')']))⟩

theorem arg_rules (F : ValFam) (hF : IsFam F) : RuleOk (aName F) (aRule F) ∧ RuleOk (asName F) (asRule F) := by
  rcases hF with rfl | rfl <;>
    exact ⟨⟨by rfl, by decide, by decide, by rfl, rfl, by decide⟩, ⟨by rfl, by decide, by decide, by rfl, rfl, by decide⟩⟩

/-- `Arguments[Const]` on tokens: `(` `Argument+` `)` -/
def pArgsV (c : Bool) (ts : List Tok) : Option (List (Name × PValue) × List Tok) :=
  match closeTok '(' ts with
  | some r => argsV c r
  | none => none

theorem pOptArgs_eq (c : Bool) (ts : List Tok) :
    pOptArgs P' c ts = (match closeTok '(' ts with
      | some _ => pArgsV c ts
      | none => some ([], ts)) := by
  unfold pOptArgs pArgsV
  split
  · simp [closeTok]; rfl
  · rename_i hne
    rw [closeTok_none (fun r e => hne r e)]

def GoodArgs (F : ValFam) (s₀ : List Char) (q : Nat) (t : List Char) (r : Res) : Prop :=
  match pArgsV F.const (toks t) with
  | some (as, ts') =>
    ∃ s' pr, r = .ok (q + (t.length - s'.length)) s' [pr] ∧ toks s' = ts' ∧ s'.length < t.length ∧
      (∃ mid, t = mid ++ s') ∧ pr.start = q ∧ buildArgs (envOf s₀) pr = expFs as
  | none => r = .fail

theorem buildArgs_eq (env : Env) (n : String) (a b : Nat) (ps : List Pair) :
    buildArgs env (Pair.mk n a b ps) = ps.mapM (fieldBuild env (fuelOf env)) := rfl

theorem goodF_fail_none {F s₀ q t} (h : GoodF F s₀ q t .fail) : pField F.const (toks t) = none := by
  cases hp : pField F.const (toks t) with
  | none => rfl
  | some x => obtain ⟨⟨n, v⟩, ts'⟩ := x; obtain ⟨s'', pr, e, -⟩ := h.ok hp; cases e

/-- the arguments rules on every text that starts a token -/
theorem args_main (F : ValFam) (hF : IsFam F) (q : Nat) (t : List Char) (ht : TokStart t) :
    ∃ r, EvR G0 c0 (.ident (asName F)) q t (24 * t.length + 40) r ∧ ∀ s₀, At s₀ q t → GoodArgs F s₀ q t r := by
  obtain ⟨hA, hAs⟩ := arg_rules F hF
  have hcl0 := closeTok_toks '(' (by decide) t ht
  cases hd : punctTok '(' t with
  | none =>
    rw [hd] at hcl0
    refine ⟨.fail, (ev_open_fail hAs '(' (by decide) _ rfl q t hd).mono (by omega), fun s₀ _ => ?_⟩
    unfold GoodArgs pArgsV
    rw [hcl0]; rfl
  | some rest =>
    rw [hd] at hcl0
    have hopen : EvR G0 c0 (.str ['(']) q t 1 (.ok (q + 1) rest []) := by
      intro f hf; rw [punct_spec G0 c0 '(' (by decide) q t f hf, hd]; rfl
    have hlen : rest.length < t.length := by have := hopen.consumes.len; omega
    obtain ⟨mid0, hmid0, -⟩ := hopen.consumes
    have hsl := skipI_len rest
    have hpa : pArgsV F.const (toks t) = argsV F.const (toks (skipI rest)) := by
      unfold pArgsV; rw [hcl0, toks_skipI]; rfl
    have H : ∀ t' q', t'.length ≤ rest.length → TokStart t' →
        ∃ r, EvR G0 c0 (.ident (aName F)) q' t' (24 * t'.length + 21) r ∧ GoodFC F q' t' r ∧
          (r = .fail ∨ ∃ p2 s2 ps, r = .ok p2 s2 ps ∧ s2.length < t'.length) := by
      intro t' q' _ hts'
      obtain ⟨r, h1, h2⟩ := field_elem_gen F (aName F) (aRule F) hA rfl q' t' hts'
        (fun t'' q'' _ ht'' => value_main F hF t''.length t'' q'' (Nat.le_refl _) ht'')
      exact ⟨r, h1, h2, goodFC_shape h2⟩
    rcases rep1_chain tokRules0 (c := c0) rfl (a := .ident (aName F)) (Good := GoodFC F) (Ba := 21)
      (L := rest.length) (by omega) H (skipI rest) (skipPos (q + 1) rest) (tokStart_skipI rest) hsl with
      ⟨hg, hfail⟩ | ⟨p2, s2, ps2, p', s', ps, hg, hch, hlt2, hle', hrep⟩
    · -- no first argument
      have hin : EvR G0 c0 (.seq (.rep1 (.ident (aName F))) (.str [')'])) (skipPos (q + 1) rest) (skipI rest)
          (24 * rest.length + 27) .fail := EvR.seq_fail hfail (by omega)
      have hbody := ev_seq0 hopen hin (K := 24 * rest.length + 28) (by omega) (by omega) (by omega)
      refine ⟨.fail, ((ev_ruleOk hAs (r := asRule F) hbody (Nat.lt_succ_self _)).cast rfl).mono (by omega),
        fun s₀ hat => ?_⟩
      have hat2 : At s₀ (skipPos (q + 1) rest) (skipI rest) := (hat.consumes hopen.consumes).skip
      unfold GoodArgs
      rw [hpa, argsV_eq, goodF_fail_none (hg s₀ hat2)]; rfl
    · have hsl3 := skipI_len s'
      have hclose : EvR G0 c0 (.str [')']) (skipPos p' s') (skipI s') 1
          (resOf (skipPos p' s' + 1) (punctTok ')' (skipI s'))) := by
        intro f hf; rw [punct_spec G0 c0 ')' (by decide) _ _ f hf]
      have hin := ev_seq0 hrep hclose (K := 24 * rest.length + 27) (by omega) (by omega) (by omega)
      have hbody := ev_seq0 hopen hin (K := 24 * rest.length + 28) (by omega) (by omega) (by omega)
      have hev := ev_ruleOk hAs (r := asRule F) hbody (Nat.lt_succ_self _)
      have hcl : closeTok ')' (toks s') = (punctTok ')' (skipI s')).map toks := by
        rw [← toks_skipI s']; exact closeTok_toks ')' (by decide) _ (tokStart_skipI s')
      -- the specification's side, for any document
      have hspec : ∀ s₀, At s₀ q t → ∃ n v fs pr, ps2 = [pr] ∧
          pArgsV F.const (toks t) = (closeTok ')' (toks s')).map (fun r => ((n, v) :: fs, r)) ∧
          BuildsFL s₀ (skipPos (q + 1) rest) (ps2 ++ ps) ((n, v) :: fs) := by
        intro s₀ hat
        have hat2 : At s₀ (skipPos (q + 1) rest) (skipI rest) := (hat.consumes hopen.consumes).skip
        have hg' := hg s₀ hat2
        cases hp : pField F.const (toks (skipI rest)) with
        | none => have := hg'.fail hp; cases this
        | some x =>
          obtain ⟨⟨n, v⟩, ts'⟩ := x
          obtain ⟨s'', pr, e, hts, hlt, ⟨mid, hmid⟩, hst, hb⟩ := hg'.ok hp
          cases e
          have hat3 : At s₀ (skipPos (q + 1) rest + ((skipI rest).length - s2.length)) s2 :=
            hat2.consumes ⟨mid, hmid, by rw [hmid]; simp⟩
          obtain ⟨fs, hi, -, hle2, hbl⟩ := chain_loop ')' (afterV F.const) (afterV_close F.const)
            (afterV_elem F.const) hch s₀ hat3
          refine ⟨n, v, fs, pr, rfl, ?_, ?_⟩
          · rw [hpa, argsV_eq, hp]
            simp only [Option.bind_some]
            rw [← hts, hi]
            cases closeTok ')' (toks s') <;> rfl
          · intro bf hbf
            have h1 := hb bf (by rw [hst]; exact hbf)
            have h2 := hbl bf (by omega)
            show ([pr] ++ ps).mapM (fieldBuild (envOf s₀) bf) = _
            rw [List.singleton_append, List.mapM_cons, h1, h2, expFs_cons]
            rfl
      cases hc5 : punctTok ')' (skipI s') with
      | none =>
        rw [hc5] at hev hcl
        refine ⟨.fail, (hev.cast (by simp [resOf])).mono (by omega), fun s₀ hat => ?_⟩
        obtain ⟨n, v, fs, pr, -, hsp, -⟩ := hspec s₀ hat
        unfold GoodArgs
        rw [hsp, hcl]; rfl
      | some r5 =>
        rw [hc5] at hev hcl
        have hev' : EvR G0 c0 (.ident (asName F)) q t (24 * rest.length + 28 + 1)
            (.ok (skipPos p' s' + 1) r5 [Pair.mk (asName F) q (skipPos p' s' + 1) (ps2 ++ ps)]) :=
          hev.cast (by simp [resOf])
        have hc := hev'.consumes
        obtain ⟨mid5, hmid5, hpos5⟩ := hc
        have hlen5 := congrArg List.length hmid5
        simp only [List.length_append] at hlen5
        have hl5 : r5.length < t.length := by
          have h5 := (show EvR G0 c0 (.str [')']) (skipPos p' s') (skipI s') 1 (.ok (skipPos p' s' + 1) r5 []) from
            hclose.cast (by rw [hc5]; rfl)).consumes.len
          omega
        refine ⟨_, hev'.mono (by omega), fun s₀ hat => ?_⟩
        obtain ⟨n, v, fs, pr, hps2, hsp, hbl⟩ := hspec s₀ hat
        unfold GoodArgs
        rw [hsp, hcl]
        simp only [Option.map_some]
        refine ⟨r5, Pair.mk (asName F) q (skipPos p' s' + 1) (ps2 ++ ps), ?_, rfl, hl5, ⟨mid5, hmid5⟩, rfl, ?_⟩
        · have : q + (t.length - r5.length) = skipPos p' s' + 1 := by omega
          rw [this]
        · have hat2 : At s₀ (skipPos (q + 1) rest) (skipI rest) := (hat.consumes hopen.consumes).skip
          rw [buildArgs_eq]
          exact hbl _ (by
            have := hat2.len
            simp [fuelOf, envOf]; omega)
end AGV.Lemmas.PegX
