/-
  C09 — `is_valid_input_value` (all value toggles off) against §5.6.1 Values Of Correct Type on
  constants: `valid_eq_lit` — they agree for every type and every constant whose object literals do
  not repeat a key, in registries where the five built-in scalar names are scalars and every
  input-object type has its definition with unique field names (`LitSchema`).  The implementation
  walks the declared fields and looks each up among the entries, the specification walks the
  entries and looks each up among the declared fields (`object_agree`).  Consequences:
  `defaultsAgree_of`, `argLiteralsAgree_of`.
-/
import AGV.Lemmas.ValidateOverlap
set_option linter.unusedSectionVars false
set_option linter.unusedSimpArgs false
namespace AGV.Lemmas.ValidateLiterals
open AGV.Core AGV.Model.Validate
open AGV.Spec.Validate (litOk litOf litOfL litOfF tyDef kindIs)

theorem find_key_of_nodup {β : Type} (fs : List (String × β)) (hn : (fs.map (·.1)).Nodup) (p : String × β) (hp : p ∈ fs) :
    fs.find? (·.1 = p.1) = some p := by
  induction fs with
  | nil => cases hp
  | cons q qs ih =>
    simp only [List.map_cons, List.nodup_cons] at hn
    rcases List.mem_cons.mp hp with rfl | h
    · simp
    · have hne : q.1 ≠ p.1 := fun he => hn.1 (he ▸ List.mem_map_of_mem h)
      simp [List.find?_cons, hne, ih hn.2 h]

theorem find_name_of_nodup (fields : List ArgDef) (hn : (fields.map (·.name)).Nodup) (f : ArgDef) (hf : f ∈ fields) :
    fields.find? (·.name = f.name) = some f := by
  induction fields with
  | nil => cases hf
  | cons q qs ih =>
    simp only [List.map_cons, List.nodup_cons] at hn
    rcases List.mem_cons.mp hf with rfl | h
    · simp
    · have hne : q.name ≠ f.name := fun he => hn.1 (he ▸ List.mem_map_of_mem h)
      simp [List.find?_cons, hne, ih hn.2 h]

/-- the field-by-field comparison of an input object: the implementation walks the declared fields and
    looks each one up among the given entries, the specification walks the entries and looks each
    one up among the declared fields; with unique keys and unique field names the two agree -/
theorem object_agree {β γ : Type} (litOf : β → γ) (fields : List ArgDef) (hF : (fields.map (·.name)).Nodup)
    (fs : List (String × β)) (hK : (fs.map (·.1)).Nodup) (req : ArgDef → Bool)
    (vM : TypeRef → β → Bool) (vS : TypeRef → γ → Bool)
    (hv : ∀ p ∈ fs, ∀ t, vM t p.2 = vS t (litOf p.2)) :
    ((∀ f ∈ fields, (∀ p, fs.find? (·.1 = f.name) = some p → vM f.ty p.2 = true)
        ∧ (fs.find? (·.1 = f.name) = none → req f = false))
      ∧ (∀ p ∈ fs, ∃ f ∈ fields, f.name = p.1)) ↔
    ((∀ p ∈ fs, ∃ f, fields.find? (·.name = p.1) = some f ∧ vS f.ty (litOf p.2) = true)
      ∧ (∀ f ∈ fields, req f = false ∨ ∃ p ∈ fs, p.1 = f.name)) := by
  constructor
  · rintro ⟨hB, hC⟩
    refine ⟨?_, ?_⟩
    · intro p hp
      obtain ⟨f, hf, hname⟩ := hC p hp
      refine ⟨f, by rw [← hname]; exact find_name_of_nodup fields hF f hf, ?_⟩
      have := (hB f hf).1 p (by rw [hname]; exact find_key_of_nodup fs hK p hp)
      rw [← hv p hp]; exact this
    · intro f hf
      cases hfind : fs.find? (·.1 = f.name) with
      | none => exact Or.inl ((hB f hf).2 hfind)
      | some p => exact Or.inr ⟨p, List.mem_of_find?_eq_some hfind, by simpa using List.find?_some hfind⟩
  · rintro ⟨hA, hC⟩
    refine ⟨?_, ?_⟩
    · intro f hf
      refine ⟨?_, ?_⟩
      · intro p hfind
        have hp := List.mem_of_find?_eq_some hfind
        have hname : p.1 = f.name := by simpa using List.find?_some hfind
        obtain ⟨g, hg, hval⟩ := hA p hp
        rw [hname, find_name_of_nodup fields hF f hf] at hg
        cases hg
        rw [hv p hp]; exact hval
      · intro hnone
        rcases hC f hf with h | ⟨p, hp, hname⟩
        · exact h
        · have := List.find?_eq_none.mp hnone p hp
          simp [hname] at this
    · intro p hp
      obtain ⟨f, hf, _⟩ := hA p hp
      exact ⟨f, List.mem_of_find?_eq_some hf, by simpa using List.find?_some hf⟩

end AGV.Lemmas.ValidateLiterals

namespace AGV.Lemmas.ValidateLiterals
open AGV.Core AGV.Model.Validate
open AGV.Spec.Validate (litOk litOf litOfL litOfF tyDef kindIs)

mutual
/-- no object literal inside the constant repeats a key -/
def keysOk : GValue → Bool
  | .list xs => keysOkL xs
  | .obj fs => !(Spec.Validate.hasDup (fs.map (·.1))) && keysOkF fs
  | _ => true
def keysOkL : List GValue → Bool
  | [] => true
  | x :: xs => keysOk x && keysOkL xs
def keysOkF : List (String × GValue) → Bool
  | [] => true
  | (_, x) :: xs => keysOk x && keysOkF xs
end

theorem keysOkL_mem (xs : List GValue) (h : keysOkL xs = true) : ∀ x ∈ xs, keysOk x = true := by
  induction xs with
  | nil => intro x hx; cases hx
  | cons a as ih =>
    simp only [keysOkL, Bool.and_eq_true] at h
    intro x hx
    rcases List.mem_cons.mp hx with rfl | hx
    · exact h.1
    · exact ih h.2 x hx

theorem keysOkF_mem (fs : List (String × GValue)) (h : keysOkF fs = true) : ∀ p ∈ fs, keysOk p.2 = true := by
  induction fs with
  | nil => intro x hx; cases hx
  | cons a as ih =>
    obtain ⟨k, v⟩ := a
    simp only [keysOkF, Bool.and_eq_true] at h
    intro x hx
    rcases List.mem_cons.mp hx with rfl | hx
    · exact h.1
    · exact ih h.2 x hx

theorem litOfL_eq (xs : List GValue) : litOfL xs = xs.map litOf := by
  induction xs with
  | nil => rfl
  | cons a as ih => simp [litOfL, ih]

theorem litOfF_eq (fs : List (String × GValue)) : litOfF fs = fs.map (fun p => (p.1, litOf p.2)) := by
  induction fs with
  | nil => rfl
  | cons a as ih => obtain ⟨k, v⟩ := a; simp [litOfF, ih]

theorem kindIs_of (S : VSchema) (n : String) (k : Core.Kind) :
    kindIs S n k = (match S.kindOf n with | some k' => k' == k | none => false) := by
  simp only [kindIs, VSchema.kindOf, VSchema.ty?, Schema.find?, tyDef]
  cases S.base.types.find? (·.name = n) <;> rfl

/-- registry conditions under which `is_valid_input_value` and §5.6.1 can be compared -/
structure LitSchema (S : VSchema) : Prop where
  /-- the five built-in scalar names are scalars of the schema -/
  builtins : ∀ n ∈ ["Int", "Float", "String", "Boolean", "ID"], S.kindOf n = some .scalar
  /-- every input-object type has its definition, with unique field names -/
  inputs : ∀ n, S.kindOf n = some .input → ∃ idef, S.input? n = some idef ∧ (idef.fields.map (·.name)).Nodup

theorem litOf_not_var (c : GValue) : ∀ n, litOf c ≠ .var n := by
  intro n; cases c <;> simp [litOf]

end AGV.Lemmas.ValidateLiterals

namespace AGV.Lemmas.ValidateLiterals
open AGV.Core AGV.Model.Validate
open AGV.Spec.Validate (litOk litOf litOfL litOfF tyDef kindIs)

theorem not_builtin (S : VSchema) (hS : LitSchema S) (n : String) (hk : S.kindOf n ≠ some .scalar) :
    n ≠ "Int" ∧ n ≠ "Float" ∧ n ≠ "String" ∧ n ≠ "Boolean" ∧ n ≠ "ID" := by
  refine ⟨?_, ?_, ?_, ?_, ?_⟩ <;> (intro h; subst h; exact hk (hS.builtins _ (by simp)))

theorem ty?_eq (S : VSchema) (n : String) : S.ty? n = tyDef S n := rfl

/-- everything but input objects -/
theorem valid_eq_lit_simple (S : VSchema) (hS : LitSchema S) (fuel : Nat) (n : String) (c : GValue)
    (hobj : S.kindOf n = some .input → ∀ fs, c ≠ .obj fs) :
    validInput S {} (fuel + 1) (.named n) c = litOk S (fuel + 1) (.named n) (litOf c) := by
  cases hk : S.kindOf n with
  | none =>
    obtain ⟨h1, h2, h3, h4, h5⟩ := not_builtin S hS n (by simp [hk])
    cases c <;> simp [validInput, litOk, litOf, hk, kindIs_of, h1, h2, h3, h4, h5]
  | some k =>
    cases k with
    | scalar =>
      cases c <;> simp [validInput, litOk, litOf, hk, kindIs_of, scalarValid, Model.Validate.i32Min, Model.Validate.i32Max,
        Spec.Validate.i32Min, Spec.Validate.i32Max] <;> first | rfl | congr
    | enum => cases c <;> simp [validInput, litOk, litOf, hk, kindIs_of, ty?_eq] <;> (cases tyDef S n <;> simp)
    | input =>
      cases c with
      | obj fs => exact absurd rfl (hobj hk fs)
      | _ => simp [validInput, litOk, litOf, hk, kindIs_of]
    | object =>
      obtain ⟨h1, h2, h3, h4, h5⟩ := not_builtin S hS n (by simp [hk])
      cases c <;> simp [validInput, litOk, litOf, hk, kindIs_of, h1, h2, h3, h4, h5]
    | interface =>
      obtain ⟨h1, h2, h3, h4, h5⟩ := not_builtin S hS n (by simp [hk])
      cases c <;> simp [validInput, litOk, litOf, hk, kindIs_of, h1, h2, h3, h4, h5]
    | union =>
      obtain ⟨h1, h2, h3, h4, h5⟩ := not_builtin S hS n (by simp [hk])
      cases c <;> simp [validInput, litOk, litOf, hk, kindIs_of, h1, h2, h3, h4, h5]

end AGV.Lemmas.ValidateLiterals

namespace AGV.Lemmas.ValidateLiterals
open AGV.Core AGV.Model.Validate
open AGV.Spec.Validate (litOk litOf litOfL litOfF tyDef kindIs)

theorem oneof_agree (fs : List (String × GValue)) :
    (fs.length == 1 && (match fs with | [(_, .null)] => false | _ => true)) =
      ((litOfF fs).length == 1 && (litOfF fs).all (fun p => match p.2 with | .null => false | _ => true)) := by
  cases fs with
  | nil => simp [litOfF]
  | cons p rest =>
    obtain ⟨k, v⟩ := p
    cases rest with
    | nil => cases v <;> simp [litOfF, litOf]
    | cons q rest => obtain ⟨k', v'⟩ := q; simp [litOfF]

theorem keys_litOfF (fs : List (String × GValue)) : (litOfF fs).map (·.1) = fs.map (·.1) := by
  rw [litOfF_eq]; simp [List.map_map, Function.comp_def]

/-- the input-object case, given the comparison for the values of the entries -/
theorem valid_eq_lit_obj (S : VSchema) (hS : LitSchema S) (fuel : Nat) (n : String) (fs : List (String × GValue))
    (hin : S.kindOf n = some .input) (hk : keysOk (.obj fs) = true)
    (ih : ∀ t c, keysOk c = true → validInput S {} fuel t c = litOk S fuel t (litOf c)) :
    validInput S {} (fuel + 1) (.named n) (.obj fs) = litOk S (fuel + 1) (.named n) (litOf (.obj fs)) := by
  obtain ⟨idef, hidef, hnames⟩ := hS.inputs n hin
  have hidef' : S.inputs.find? (·.name = n) = some idef := hidef
  simp only [keysOk, Bool.and_eq_true, Bool.not_eq_true'] at hk
  have hkeys : (fs.map (·.1)).Nodup := (AGV.Lemmas.ValidateGraph.hasDup_false_iff _).mp hk.1
  have hvals := keysOkF_mem fs hk.2
  simp only [validInput, litOk, litOf, hin, kindIs_of, hidef, hidef']
  have e1 : (Core.Kind.input == Core.Kind.enum) = false := by decide
  have e2 : (Core.Kind.input == Core.Kind.input) = true := by decide
  simp only [e1, e2, Bool.false_eq_true, if_false, if_true, keys_litOfF, hk.1, Bool.not_false, Bool.and_true]
  rw [Bool.eq_iff_iff]
  simp only [Bool.and_eq_true, Bool.or_eq_true, Bool.not_eq_true', List.all_eq_true, List.any_eq_true, decide_eq_true_eq]
  have hv : ∀ p ∈ fs, ∀ t, validInput S {} fuel t p.2 = litOk S fuel t (litOf p.2) := fun p hp t => ih t p.2 (hvals p hp)
  have hOA := object_agree litOf idef.fields hnames fs hkeys (fun f => f.ty.isNonNull && f.default.isNone)
    (validInput S {} fuel) (litOk S fuel) hv
  have hmem : ∀ x : String × DValue, x ∈ litOfF fs ↔ ∃ p ∈ fs, x = (p.1, litOf p.2) := by
    intro x; rw [litOfF_eq, List.mem_map]
    constructor
    · rintro ⟨p, hp, rfl⟩; exact ⟨p, hp, rfl⟩
    · rintro ⟨p, hp, rfl⟩; exact ⟨p, hp, rfl⟩
  constructor
  · rintro ⟨⟨hO, hB⟩, hC⟩
    have hPB : ∀ f ∈ idef.fields, (∀ p, fs.find? (·.1 = f.name) = some p → validInput S {} fuel f.ty p.2 = true)
        ∧ (fs.find? (·.1 = f.name) = none → (f.ty.isNonNull && f.default.isNone) = false) := by
      intro f hf
      have := hB f hf
      refine ⟨fun p hp => ?_, fun hn => ?_⟩
      · simp only [hp] at this; exact this
      · simp only [hn] at this; exact (Bool.not_eq_true' _).mp this
    obtain ⟨QA, QC⟩ := hOA.mp ⟨hPB, hC⟩
    refine ⟨⟨?_, ?_⟩, ?_⟩
    · intro x hx
      obtain ⟨p, hp, rfl⟩ := (hmem x).mp hx
      obtain ⟨f, hf, hval⟩ := QA p hp
      simp only [hf]; exact hval
    · intro f hf
      rcases QC f hf with h | ⟨p, hp, hname⟩
      · exact Or.inl h
      · exact Or.inr ⟨(p.1, litOf p.2), (hmem _).mpr ⟨p, hp, rfl⟩, hname⟩
    · cases ho : idef.oneof with
      | false => exact Or.inl rfl
      | true =>
        right
        simp only [ho, if_true] at hO
        match fs, hO with
        | [], hO => simp at hO
        | [(k, v)], hO => cases v <;> simp [litOfF, litOf] at hO ⊢
        | _ :: _ :: _, hO => simp at hO
  · rintro ⟨⟨hA, hC⟩, hO⟩
    have hQA : ∀ p ∈ fs, ∃ f, idef.fields.find? (·.name = p.1) = some f ∧ litOk S fuel f.ty (litOf p.2) = true := by
      intro p hp
      have := hA (p.1, litOf p.2) ((hmem _).mpr ⟨p, hp, rfl⟩)
      cases hfind : idef.fields.find? (·.name = p.1) with
      | none => simp [hfind] at this
      | some f => simp only [hfind] at this; exact ⟨f, rfl, this⟩
    have hQC : ∀ f ∈ idef.fields, (f.ty.isNonNull && f.default.isNone) = false ∨ ∃ p ∈ fs, p.1 = f.name := by
      intro f hf
      rcases hC f hf with h | ⟨x, hx, hname⟩
      · exact Or.inl h
      · obtain ⟨p, hp, rfl⟩ := (hmem x).mp hx
        exact Or.inr ⟨p, hp, hname⟩
    obtain ⟨PB, PC⟩ := hOA.mpr ⟨hQA, hQC⟩
    refine ⟨⟨?_, ?_⟩, PC⟩
    · cases ho : idef.oneof with
      | false => simp
      | true =>
        simp only [if_true]
        rcases hO with h | ⟨h1, h2⟩
        · rw [ho] at h; cases h
        · match fs, h1, h2 with
          | [], h1, _ => simp [litOfF] at h1
          | [(k, v)], _, h2 => cases v <;> simp [litOfF, litOf] at h2 ⊢
          | _ :: _ :: _, h1, _ => simp [litOfF] at h1
    · intro f hf
      obtain ⟨h1, h2⟩ := PB f hf
      cases hfind : fs.find? (·.1 = f.name) with
      | none => simp only []; exact (Bool.not_eq_true' _).mpr (h2 hfind)
      | some p => simp only []; exact h1 p hfind

end AGV.Lemmas.ValidateLiterals

namespace AGV.Lemmas.ValidateLiterals
open AGV.Core AGV.Model.Validate AGV.Lemmas.ValidateRules
open AGV.Spec.Validate (litOk tyDef kindIs)

-- ------------------------------------------------------------------ the same comparison for literals WITH variables

mutual
/-- no object literal inside the argument repeats a key -/
def keysOkD : DValue → Bool
  | .list xs => keysOkDL xs
  | .obj fs => !(Spec.Validate.hasDup (fs.map (·.1))) && keysOkDF fs
  | _ => true
def keysOkDL : List DValue → Bool
  | [] => true
  | x :: xs => keysOkD x && keysOkDL xs
def keysOkDF : List (String × DValue) → Bool
  | [] => true
  | (_, x) :: xs => keysOkD x && keysOkDF xs
end

theorem keysOkDL_mem (xs : List DValue) (h : keysOkDL xs = true) : ∀ x ∈ xs, keysOkD x = true := by
  induction xs with
  | nil => intro x hx; cases hx
  | cons a as ih =>
    simp only [keysOkDL, Bool.and_eq_true] at h
    intro x hx
    rcases List.mem_cons.mp hx with rfl | hx
    · exact h.1
    · exact ih h.2 x hx

theorem keysOkDF_mem (fs : List (String × DValue)) (h : keysOkDF fs = true) : ∀ p ∈ fs, keysOkD p.2 = true := by
  induction fs with
  | nil => intro x hx; cases hx
  | cons a as ih =>
    obtain ⟨k, v⟩ := a
    simp only [keysOkDF, Bool.and_eq_true] at h
    intro x hx
    rcases List.mem_cons.mp hx with rfl | hx
    · exact h.1
    · exact ih h.2 x hx

/-- everything but input objects and variables -/
theorem lit_eq_simple (S : VSchema) (hS : LitSchema S) (fuel : Nat) (n : String) (c : DValue)
    (hobj : S.kindOf n = some .input → ∀ fs, c ≠ .obj fs) :
    validLit S {} (fuel + 1) (.named n) c = litOk S (fuel + 1) (.named n) c := by
  cases hk : S.kindOf n with
  | none =>
    obtain ⟨h1, h2, h3, h4, h5⟩ := not_builtin S hS n (by simp [hk])
    cases c <;> simp [validLit, litOk, hk, kindIs_of, h1, h2, h3, h4, h5]
  | some k =>
    cases k with
    | scalar =>
      cases c <;> simp [validLit, litOk, hk, kindIs_of, Model.Validate.i32Min, Model.Validate.i32Max,
        Spec.Validate.i32Min, Spec.Validate.i32Max] <;> first | rfl | congr
    | enum => cases c <;> simp [validLit, litOk, hk, kindIs_of, ty?_eq] <;> (cases tyDef S n <;> simp)
    | input =>
      cases c with
      | obj fs => exact absurd rfl (hobj hk fs)
      | _ => simp [validLit, litOk, hk, kindIs_of]
    | object =>
      obtain ⟨h1, h2, h3, h4, h5⟩ := not_builtin S hS n (by simp [hk])
      cases c <;> simp [validLit, litOk, hk, kindIs_of, h1, h2, h3, h4, h5]
    | interface =>
      obtain ⟨h1, h2, h3, h4, h5⟩ := not_builtin S hS n (by simp [hk])
      cases c <;> simp [validLit, litOk, hk, kindIs_of, h1, h2, h3, h4, h5]
    | union =>
      obtain ⟨h1, h2, h3, h4, h5⟩ := not_builtin S hS n (by simp [hk])
      cases c <;> simp [validLit, litOk, hk, kindIs_of, h1, h2, h3, h4, h5]

/-- the input-object case, given the comparison for the values of the entries -/
theorem lit_eq_obj (S : VSchema) (hS : LitSchema S) (fuel : Nat) (n : String) (fs : List (String × DValue))
    (hin : S.kindOf n = some .input) (hk : keysOkD (.obj fs) = true)
    (ih : ∀ t c, keysOkD c = true → validLit S {} fuel t c = litOk S fuel t c) :
    validLit S {} (fuel + 1) (.named n) (.obj fs) = litOk S (fuel + 1) (.named n) (.obj fs) := by
  obtain ⟨idef, hidef, hnames⟩ := hS.inputs n hin
  have hidef' : S.inputs.find? (·.name = n) = some idef := hidef
  simp only [keysOkD, Bool.and_eq_true, Bool.not_eq_true'] at hk
  have hkeys : (fs.map (·.1)).Nodup := (AGV.Lemmas.ValidateGraph.hasDup_false_iff _).mp hk.1
  have hvals := keysOkDF_mem fs hk.2
  simp only [validLit, litOk, hin, kindIs_of, hidef, hidef']
  have e1 : (Core.Kind.input == Core.Kind.enum) = false := by decide
  have e2 : (Core.Kind.input == Core.Kind.input) = true := by decide
  simp only [e1, e2, Bool.false_eq_true, if_false, if_true, hk.1, Bool.not_false, Bool.and_true]
  rw [Bool.eq_iff_iff]
  simp only [Bool.and_eq_true, Bool.or_eq_true, Bool.not_eq_true', List.all_eq_true, List.any_eq_true, decide_eq_true_eq]
  have hv : ∀ p ∈ fs, ∀ t, validLit S {} fuel t p.2 = litOk S fuel t (id p.2) := fun p hp t => ih t p.2 (hvals p hp)
  have hOA := object_agree id idef.fields hnames fs hkeys (fun f => f.ty.isNonNull && f.default.isNone)
    (validLit S {} fuel) (litOk S fuel) hv
  simp only [id] at hOA
  constructor
  · rintro ⟨⟨hO, hB⟩, hC⟩
    have hPB : ∀ f ∈ idef.fields, (∀ p, fs.find? (·.1 = f.name) = some p → validLit S {} fuel f.ty p.2 = true)
        ∧ (fs.find? (·.1 = f.name) = none → (f.ty.isNonNull && f.default.isNone) = false) := by
      intro f hf
      have := hB f hf
      refine ⟨fun p hp => ?_, fun hn => ?_⟩
      · simp only [hp] at this; exact this
      · simp only [hn] at this; exact (Bool.not_eq_true' _).mp this
    obtain ⟨QA, QC⟩ := hOA.mp ⟨hPB, hC⟩
    refine ⟨⟨?_, ?_⟩, ?_⟩
    · intro p hp
      obtain ⟨f, hf, hval⟩ := QA p hp
      simp only [hf]; exact hval
    · intro f hf
      rcases QC f hf with h | ⟨p, hp, hname⟩
      · exact Or.inl h
      · exact Or.inr ⟨p, hp, hname⟩
    · cases ho : idef.oneof with
      | false => exact Or.inl rfl
      | true =>
        right
        simp only [ho, if_true] at hO
        match fs, hO with
        | [], hO => simp at hO
        | [(k, v)], hO => cases v <;> simp at hO ⊢
        | _ :: _ :: _, hO => simp at hO
  · rintro ⟨⟨hA, hC⟩, hO⟩
    have hQA : ∀ p ∈ fs, ∃ f, idef.fields.find? (·.name = p.1) = some f ∧ litOk S fuel f.ty p.2 = true := by
      intro p hp
      have := hA p hp
      cases hfind : idef.fields.find? (·.name = p.1) with
      | none => simp [hfind] at this
      | some f => simp only [hfind] at this; exact ⟨f, rfl, this⟩
    have hQC : ∀ f ∈ idef.fields, (f.ty.isNonNull && f.default.isNone) = false ∨ ∃ p ∈ fs, p.1 = f.name := by
      intro f hf
      rcases hC f hf with h | ⟨x, hx, hname⟩
      · exact Or.inl h
      · exact Or.inr ⟨x, hx, hname⟩
    obtain ⟨PB, PC⟩ := hOA.mpr ⟨hQA, hQC⟩
    refine ⟨⟨?_, ?_⟩, PC⟩
    · cases ho : idef.oneof with
      | false => simp
      | true =>
        simp only [if_true]
        rcases hO with h | ⟨h1, h2⟩
        · rw [ho] at h; cases h
        · match fs, h1, h2 with
          | [], h1, _ => simp at h1
          | [(k, v)], _, h2 => cases v <;> simp at h2 ⊢
          | _ :: _ :: _, h1, _ => simp at h1
    · intro f hf
      obtain ⟨h1, h2⟩ := PB f hf
      cases hfind : fs.find? (·.1 = f.name) with
      | none => simp only []; exact (Bool.not_eq_true' _).mpr (h2 hfind)
      | some p => simp only []; exact h1 p hfind

/-- `is_valid_input_value` over literals (repaired, a variable acceptable anywhere) = §5.6.1 on
    arguments whose object literals do not repeat keys -/
theorem lit_eq (S : VSchema) (hS : LitSchema S) (fuel : Nat) :
    ∀ (t : TypeRef) (c : DValue), keysOkD c = true → validLit S {} fuel t c = litOk S fuel t c := by
  induction fuel with
  | zero => intro t c _; rfl
  | succ fuel ih =>
    intro t c hk
    by_cases hvar : ∃ x, c = .var x
    · obtain ⟨x, rfl⟩ := hvar; simp [validLit, litOk]
    cases t with
    | named n =>
      by_cases hin : S.kindOf n = some .input ∧ ∃ fs, c = .obj fs
      · obtain ⟨h1, fs, rfl⟩ := hin
        exact lit_eq_obj S hS fuel n fs h1 hk ih
      · exact lit_eq_simple S hS fuel n c (fun h fs hc => hin ⟨h, fs, hc⟩)
    | list t =>
      cases c with
      | var x => exact absurd ⟨x, rfl⟩ hvar
      | list xs =>
        simp only [validLit, litOk]
        have := keysOkDL_mem xs (by simpa [keysOkD] using hk)
        rw [Bool.eq_iff_iff]
        simp only [List.all_eq_true]
        constructor
        · intro h x hx; rw [← ih t x (this x hx)]; exact h x hx
        · intro h x hx; rw [ih t x (this x hx)]; exact h x hx
      | null => simp [validLit, litOk]
      | int i => have := ih t (.int i) hk; simpa [validLit, litOk] using this
      | float f => have := ih t (.float f) hk; simpa [validLit, litOk] using this
      | str s => have := ih t (.str s) hk; simpa [validLit, litOk] using this
      | bool b => have := ih t (.bool b) hk; simpa [validLit, litOk] using this
      | enum e => have := ih t (.enum e) hk; simpa [validLit, litOk] using this
      | obj fs => have := ih t (.obj fs) hk; simpa [validLit, litOk] using this
    | nonNull t =>
      cases c with
      | var x => exact absurd ⟨x, rfl⟩ hvar
      | null => simp [validLit, litOk]
      | list xs => have := ih t (.list xs) hk; simpa [validLit, litOk] using this
      | int i => have := ih t (.int i) hk; simpa [validLit, litOk] using this
      | float f => have := ih t (.float f) hk; simpa [validLit, litOk] using this
      | str s => have := ih t (.str s) hk; simpa [validLit, litOk] using this
      | bool b => have := ih t (.bool b) hk; simpa [validLit, litOk] using this
      | enum e => have := ih t (.enum e) hk; simpa [validLit, litOk] using this
      | obj fs => have := ih t (.obj fs) hk; simpa [validLit, litOk] using this

end AGV.Lemmas.ValidateLiterals

namespace AGV.Lemmas.ValidateLiterals
open AGV.Core AGV.Model.Validate AGV.Lemmas.ValidateRules
open AGV.Spec.Validate (litOk litOf litOfL litOfF tyDef kindIs)

/-- `is_valid_input_value` (repaired) = §5.6.1 on constants whose object literals do not repeat keys,
    for registries with scalar built-ins and defined input objects -/
theorem valid_eq_lit (S : VSchema) (hS : LitSchema S) (fuel : Nat) :
    ∀ (t : TypeRef) (c : GValue), keysOk c = true → validInput S {} fuel t c = litOk S fuel t (litOf c) := by
  induction fuel with
  | zero => intro t c _; rfl
  | succ fuel ih =>
    intro t c hk
    cases t with
    | named n =>
      by_cases hin : S.kindOf n = some .input ∧ ∃ fs, c = .obj fs
      · obtain ⟨h1, fs, rfl⟩ := hin
        exact valid_eq_lit_obj S hS fuel n fs h1 hk ih
      · exact valid_eq_lit_simple S hS fuel n c (fun h fs hc => hin ⟨h, fs, hc⟩)
    | list t =>
      cases c with
      | list xs =>
        simp only [validInput, litOk, litOf, litOfL_eq, List.all_map]
        have := keysOkL_mem xs (by simpa [keysOk] using hk)
        rw [Bool.eq_iff_iff]
        simp only [List.all_eq_true, Function.comp]
        constructor
        · intro h x hx; rw [← ih t x (this x hx)]; exact h x hx
        · intro h x hx; rw [ih t x (this x hx)]; exact h x hx
      | null => simp [validInput, litOk, litOf]
      | int i => have := ih t (.int i) hk; simpa [validInput, litOk, litOf] using this
      | float f => have := ih t (.float f) hk; simpa [validInput, litOk, litOf] using this
      | str s => have := ih t (.str s) hk; simpa [validInput, litOk, litOf] using this
      | bool b => have := ih t (.bool b) hk; simpa [validInput, litOk, litOf] using this
      | enum e => have := ih t (.enum e) hk; simpa [validInput, litOk, litOf] using this
      | obj fs => have := ih t (.obj fs) hk; simpa [validInput, litOk, litOf] using this
    | nonNull t =>
      cases c with
      | null => simp [validInput, litOk, litOf]
      | list xs => have := ih t (.list xs) hk; simpa [validInput, litOk, litOf] using this
      | int i => have := ih t (.int i) hk; simpa [validInput, litOk, litOf] using this
      | float f => have := ih t (.float f) hk; simpa [validInput, litOk, litOf] using this
      | str s => have := ih t (.str s) hk; simpa [validInput, litOk, litOf] using this
      | bool b => have := ih t (.bool b) hk; simpa [validInput, litOk, litOf] using this
      | enum e => have := ih t (.enum e) hk; simpa [validInput, litOk, litOf] using this
      | obj fs => have := ih t (.obj fs) hk; simpa [validInput, litOk, litOf] using this


/-- no object literal inside a default value repeats a key -/
def DefaultKeysOk (d : Doc) : Prop := ∀ o ∈ d.ops, ∀ v ∈ o.vars, ∀ dv, v.default = some dv → keysOk dv = true

/-- `DefaultsAgree` from registry conditions and unique keys -/
theorem defaultsAgree_of (S : VSchema) (d : Doc) (hS : LitSchema S) (hK : DefaultKeysOk d) : DefaultsAgree S d :=
  fun o ho v hv dv hdv => valid_eq_lit S hS _ v.ty dv (hK o ho v hv dv hdv)

/-- no object literal inside an argument repeats a key -/
def ArgKeysOk (S : VSchema) (d : Doc) : Prop := ∀ s ∈ Spec.Validate.argSites S d, ∀ a ∈ s.2, keysOkD a.2 = true

/-- `ArgLiteralsAgree` from registry conditions and unique keys (variables anywhere) -/
theorem argLiteralsAgree_of (S : VSchema) (d : Doc) (hS : LitSchema S) (hK : ArgKeysOk S d) : ArgLiteralsAgree S d := by
  intro s hs a ha ad _
  exact lit_eq S hS Model.Validate.valueFuel ad.ty a.2 (hK s hs a ha)

end AGV.Lemmas.ValidateLiterals

namespace AGV.Lemmas.ValidateLiterals
open AGV.Core AGV.Model.Validate AGV.Lemmas.ValidateRules AGV.Lemmas.ValidateSpecNodes AGV.Lemmas.ValidateWalk
open AGV.Spec.Validate (litOk litOf tyDef kindIs argSites)

theorem dirSites_varFree (S : VSchema) (ds : List Dir) (h : dirsVarFree ds) : ∀ s ∈ dirSites S ds, argsVarFree s.2 := by
  intro s hs
  simp only [dirSites, List.mem_map] at hs
  obtain ⟨dr, hdr, rfl⟩ := hs
  exact h dr hdr

/-- in a document without variables in arguments, no argument site has one -/
theorem argSites_varFree (S : VSchema) (d : Doc) (hV : DocVarFree d) : ∀ s ∈ argSites S d, ∀ a ∈ s.2, Spec.Validate.varsIn a.2 = [] := by
  intro s hs
  rw [argSites_eq] at hs
  simp only [List.mem_append, List.mem_flatMap] at hs
  rcases hs with (⟨w, hw, hs⟩ | ⟨o, ho, hs⟩) | ⟨f, hf, hs⟩
  · have hmem : w.2 ∈ allSels d := by rw [← specDocVisits_snd S d]; exact List.mem_map_of_mem hw
    have hsv := hV.sels w.2 hmem
    obtain ⟨p, sel⟩ := w
    cases sel with
    | field al n args ds ss q =>
      simp only [selSites, List.mem_cons] at hs
      rcases hs with rfl | hs
      · exact hsv.1
      · exact dirSites_varFree S ds hsv.2 s hs
    | spread n ds q => exact dirSites_varFree S ds hsv s hs
    | inline c ds ss q => exact dirSites_varFree S ds hsv s hs
  · exact dirSites_varFree S o.dirs (hV.ops o ho) s hs
  · exact dirSites_varFree S f.dirs (hV.frags f hf) s hs

/-- `LitSchema` as a check -/
def litSchemaB (S : VSchema) : Bool :=
  ["Int", "Float", "String", "Boolean", "ID"].all (fun n => S.kindOf n == some .scalar)
  && S.base.types.all (fun t => t.kind != .input ||
      (match S.input? t.name with
       | some idef => !(Spec.Validate.hasDup (idef.fields.map (·.name)))
       | none => false))

theorem litSchema_of_check (S : VSchema) (h : litSchemaB S = true) : LitSchema S := by
  simp only [litSchemaB, Bool.and_eq_true, List.all_eq_true, Bool.or_eq_true] at h
  refine ⟨fun n hn => by simpa using h.1 n hn, ?_⟩
  intro n hk
  simp only [VSchema.kindOf, VSchema.ty?, Schema.find?] at hk
  cases hf : S.base.types.find? (·.name = n) with
  | none => simp [hf] at hk
  | some t =>
    simp only [hf, Option.map_some, Option.some.injEq] at hk
    have hmem := List.mem_of_find?_eq_some hf
    have hname : t.name = n := by simpa using List.find?_some hf
    rcases h.2 t hmem with h1 | h1
    · simp [hk] at h1
    · rw [hname] at h1
      cases hi : S.input? n with
      | none => simp [hi] at h1
      | some idef =>
        simp only [hi, Bool.not_eq_true'] at h1
        exact ⟨idef, rfl, (AGV.Lemmas.ValidateGraph.hasDup_false_iff _).mp h1⟩

instance (d : Doc) : Decidable (DefaultKeysOk d) := by
  unfold DefaultKeysOk
  exact decidable_of_iff (∀ o ∈ d.ops, ∀ v ∈ o.vars, (match v.default with | some dv => keysOk dv | none => true) = true)
    ⟨fun h o ho v hv dv hdv => by have := h o ho v hv; simpa [hdv] using this,
     fun h o ho v hv => by cases hdv : v.default with | none => rfl | some dv => exact h o ho v hv dv hdv⟩
instance (S : VSchema) (d : Doc) : Decidable (ArgKeysOk S d) := by unfold ArgKeysOk; infer_instance

end AGV.Lemmas.ValidateLiterals

