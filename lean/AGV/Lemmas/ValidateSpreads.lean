/-
  C09 — PossibleFragmentSpreads = §5.5.2.3 Fragment Spread Is Possible, as an extension of the block of
  ValidateBlock.lean (the rule presupposes that the block rules accept the document); abstract types
  must have at least one possible type (`AbstractInhabited`) for `type_overlap` to be GetPossibleTypes ∩.
-/
import AGV.Lemmas.ValidateBlock
namespace AGV.Lemmas.ValidateRules
open AGV.Core AGV.Model.Validate AGV.Lemmas.ValidateWalk AGV.Lemmas.ValidateMachine AGV.Lemmas.ValidateSpecNodes
open AGV.Spec.Validate (tyDef fieldType leafType composite kindIs typesOverlap possibleTypes)

-- ------------------------------------------------------------------ PossibleFragmentSpreads

/-- interfaces and unions have at least one possible type -/
def AbstractInhabited (S : VSchema) : Prop :=
  ∀ td ∈ S.base.types, (td.kind = .interface ∨ td.kind = .union) → td.members ≠ []

theorem tyDef_mem (S : VSchema) (n : String) (td : TypeDef) (h : tyDef S n = some td) : td ∈ S.base.types :=
  List.mem_of_find?_eq_some h

theorem overlap_eq (S : VSchema) (hA : AbstractInhabited S) (a b : String)
    (ha : composite S a = true) (hb : composite S b = true) : S.overlap a b = typesOverlap S a b := by
  unfold composite kindIs at ha hb
  cases hta : tyDef S a with
  | none => simp [hta] at ha
  | some ta =>
    cases htb : tyDef S b with
    | none => simp [htb] at hb
    | some tb =>
      have hma := hA ta (tyDef_mem S a ta hta)
      simp only [hta, htb] at ha hb
      have ka : S.kindOf a = some ta.kind := by simp [VSchema.kindOf, VSchema.ty?, show S.base.find? a = some ta from hta]
      have kb : S.kindOf b = some tb.kind := by simp [VSchema.kindOf, VSchema.ty?, show S.base.find? b = some tb from htb]
      have ma : S.members a = ta.members := by simp [VSchema.members, VSchema.ty?, show S.base.find? a = some ta from hta]
      have mb : S.members b = tb.members := by simp [VSchema.members, VSchema.ty?, show S.base.find? b = some tb from htb]
      unfold VSchema.overlap typesOverlap possibleTypes VSchema.isAbstract VSchema.isPossible
      simp only [hta, htb, ka, kb, ma, mb]
      by_cases hab : a = b
      · subst hab
        have : ta = tb := by rw [hta] at htb; exact Option.some.inj htb
        subst this
        cases hk : ta.kind <;> simp_all
        all_goals (cases hm : ta.members <;> simp_all)
      · cases hka : ta.kind <;> cases hkb : tb.kind <;> simp_all
        all_goals (rw [Bool.eq_iff_iff]; simp)


/-- §5.5.2.3 at one selection -/
def sv4 (S : VSchema) (d : Doc) (w : Option String × Sel) : Bool :=
  match w.2 with
  | .spread n _ _ =>
    (match w.1 with
     | some p => (match d.frags.find? (·.name = n) with
        | some f => composite S p && composite S f.cond && !typesOverlap S p f.cond
        | none => false)
     | none => false)
  | .inline (some c) _ _ _ =>
    (match w.1 with
     | some p => composite S p && composite S c && !typesOverlap S p c
     | none => false)
  | _ => false

theorem spec_spreadIsPossible (S : VSchema) (d : Doc) :
    Spec.Validate.violates_FragmentSpreadIsPossible S d = (specDocVisits S d).any (sv4 S d) := by
  unfold Spec.Validate.violates_FragmentSpreadIsPossible
  rw [allNodes_eq, List.any_map]
  congr 1; funext w; obtain ⟨p, s⟩ := w
  cases s with
  | inline c ds ss q => cases c <;> cases p <;> rfl
  | spread n ds q => cases p <;> rfl
  | field al n args ds ss q => cases p <;> rfl

/-- what PossibleFragmentSpreads reports at a visited selection -/
def mv4 (S : VSchema) (d : Doc) (v : Stack × Sel) : Prop :=
  match v.2 with
  | .spread n _ _ => ∃ f c, d.frag? n = some f ∧ Stack.cur v.1 = some c ∧ S.exists? f.cond = true ∧ S.overlap c f.cond = false
  | .inline (some t) _ _ _ => ∃ p, Stack.cur v.1 = some p ∧ S.exists? t = true ∧ S.overlap p t = false
  | _ => False

theorem nodeOut_impossible (S : VSchema) (d : Doc) (st : Stack) (s : Sel) :
    (Kind.spreadImpossible ∈ nodeOut S d st s ∨ Kind.inlineImpossible ∈ nodeOut S d st s) ↔ mv4 S d (st, s) := by
  have hd : ∀ k st ds, k ≠ Kind.dirArgMissing → k ∉ dirsOut S d st ds := by
    intro k st ds hk; simp [dirsOut, mem_stateless_enterDir, hk]
  cases s with
  | field al n args ds ss p => simp [nodeOut, mv4, mem_stateless_enterField, hd]
  | spread n ds p => simp [nodeOut, mv4, mem_stateless_enterSpread, hd]
  | inline c ds ss p =>
    cases c with
    | none => simp [nodeOut, mv4, mem_stateless_enterInline, hd]
    | some t => simp [nodeOut, mv4, mem_stateless_enterInline, hd, inlineSt, par_cons]


theorem exists_of_composite (S : VSchema) (n : String) (h : composite S n = true) : (tyDef S n).isSome = true := by
  unfold composite kindIs at h
  cases ht : tyDef S n <;> simp_all

theorem node_agree4 (S : VSchema) (d : Doc) (hA : AbstractInhabited S) (hF : ¬ fragsBad S d)
    (st : Stack) (parent : Option String) (s : Sel)
    (hcur : Stack.cur st = parent) (hok : OKp S parent) (hv : ¬ mv S (st, s)) :
    mv4 S d (st, s) ↔ sv4 S d (parent, s) = true := by
  subst hcur
  cases s with
  | field al n args ds ss q => simp [mv4, sv4]
  | spread n ds q =>
    simp only [mv4, sv4, Doc.frag?]
    cases hc : Stack.cur st with
    | none => simp
    | some p =>
      have hp := hok p hc
      cases hf : d.frags.find? (·.name = n) with
      | none => simp
      | some f =>
        have hmem : f ∈ d.frags := List.mem_of_find?_eq_some hf
        simp only [Option.some.injEq, hp, Bool.true_and, Bool.and_eq_true, Bool.not_eq_true', exists_eq_tyDef]
        by_cases he : (tyDef S f.cond).isSome = true
        · have hcomp : composite S f.cond = true := by
            cases hcc : composite S f.cond
            · exact absurd ⟨f, hmem, he, hcc⟩ hF
            · rfl
          simp [he, hcomp, overlap_eq S hA p f.cond hp hcomp]
        · have : composite S f.cond = false := by
            cases hcc : composite S f.cond
            · rfl
            · exact absurd (exists_of_composite S _ hcc) he
          simp [he, this]
  | inline c ds ss q =>
    cases c with
    | none => simp [mv4, sv4]
    | some t =>
      simp only [mv4, sv4]
      cases hc : Stack.cur st with
      | none => simp
      | some p =>
        have hp := hok p hc
        simp only [Option.some.injEq, hp, Bool.true_and, Bool.and_eq_true, Bool.not_eq_true', exists_eq_tyDef]
        by_cases he : (tyDef S t).isSome = true
        · have hcomp : composite S t = true := by
            simp only [mv, inlineSt, Stack.cur, not_exists, not_and, exists_eq_tyDef, he, if_true, Option.some.injEq] at hv
            have := hv t rfl
            rw [isComposite_eq] at this
            simpa using this
          simp [he, hcomp, overlap_eq S hA p t hp hcomp]
        · have : composite S t = false := by
            cases hcc : composite S t
            · rfl
            · exact absurd (exists_of_composite S _ hcc) he
          simp [he, this]

/-- where the block rules accept everything, PossibleFragmentSpreads and §5.5.2.3 agree below a root -/
theorem spreads_visits (S : VSchema) (d : Doc) (hB : BlockSchema S) (hA : AbstractInhabited S) (hF : ¬ fragsBad S d)
    (st : Stack) (parent : Option String) (hcur : Stack.cur st = parent) (hok : OKp S parent) (ss : List Sel)
    (hsel : ∀ x ∈ flatSels ss, selOK x) (hno : ∀ v ∈ visitsSels S st ss, ¬ mv S v) :
    (∃ v ∈ visitsSels S st ss, mv4 S d v) ↔ (∃ w ∈ specVisitsSels S parent ss, sv4 S d w = true) := by
  have hno' : ∀ x ∈ pairSels S st parent ss, ¬ mv S (x.1, x.2.2) := by
    intro x hx
    apply hno
    rw [← pairSels_left S st parent ss]
    exact List.mem_map.mpr ⟨x, hx, rfl⟩
  have hinv := inv_pairSels S hB st parent hcur hok ss hsel hno'
  rw [← pairSels_left S st parent ss, ← pairSels_right S st parent ss]
  simp only [List.mem_map]
  constructor
  · rintro ⟨v, ⟨x, hx, rfl⟩, hp⟩
    exact ⟨x.2, ⟨x, hx, rfl⟩, (node_agree4 S d hA hF x.1 x.2.1 x.2.2 (hinv x hx).1 (hinv x hx).2 (hno' x hx)).mp hp⟩
  · rintro ⟨w, ⟨x, hx, rfl⟩, hq⟩
    exact ⟨(x.1, x.2.2), ⟨x, hx, rfl⟩, (node_agree4 S d hA hF x.1 x.2.1 x.2.2 (hinv x hx).1 (hinv x hx).2 (hno' x hx)).mpr hq⟩


/-- the block extended by PossibleFragmentSpreads = §5.5.2.3 Fragment Spread Is Possible -/
theorem rule_block_spreads (S : VSchema) (d : Doc) (hB : BlockSchema S) (hA : AbstractInhabited S) (hs : Served S d)
    (hroots : RootsComposite S d) (hdoc : ∀ s ∈ allSels d, selOK s) :
    ((Kind.unknownField ∈ (events S {} d).flatMap (stateless S {} d) ∨ Kind.leafWithSel ∈ (events S {} d).flatMap (stateless S {} d)
      ∨ Kind.compositeNoSel ∈ (events S {} d).flatMap (stateless S {} d) ∨ Kind.fragNonComposite ∈ (events S {} d).flatMap (stateless S {} d)
      ∨ Kind.inlineNonComposite ∈ (events S {} d).flatMap (stateless S {} d))
      ∨ (Kind.spreadImpossible ∈ (events S {} d).flatMap (stateless S {} d) ∨ Kind.inlineImpossible ∈ (events S {} d).flatMap (stateless S {} d))) ↔
    ((Spec.Validate.violates_FieldSelections S d = true ∨ Spec.Validate.violates_LeafFieldSelections S d = true
      ∨ Spec.Validate.violates_FragmentsOnCompositeTypes S d = true)
      ∨ Spec.Validate.violates_FragmentSpreadIsPossible S d = true) := by
  have hblock := rule_block S d hB hs hroots hdoc
  by_cases hb : (Kind.unknownField ∈ (events S {} d).flatMap (stateless S {} d) ∨ Kind.leafWithSel ∈ (events S {} d).flatMap (stateless S {} d)
      ∨ Kind.compositeNoSel ∈ (events S {} d).flatMap (stateless S {} d) ∨ Kind.fragNonComposite ∈ (events S {} d).flatMap (stateless S {} d)
      ∨ Kind.inlineNonComposite ∈ (events S {} d).flatMap (stateless S {} d))
  · exact ⟨fun _ => Or.inl (hblock.mp hb), fun _ => Or.inl hb⟩
  · have hb' : ¬ (Spec.Validate.violates_FieldSelections S d = true ∨ Spec.Validate.violates_LeafFieldSelections S d = true
        ∨ Spec.Validate.violates_FragmentsOnCompositeTypes S d = true) := fun h => hb (hblock.mpr h)
    simp only [hb, hb', false_or]
    have hnb := (not_congr (block_model_iff S d)).mp hb
    have hF : ¬ fragsBad S d := fun h => hnb (Or.inl h)
    have hno : ∀ v ∈ docVisits S d, ¬ mv S v := fun v hv h => hnb (Or.inr ⟨v, hv, h⟩)
    have hd : ∀ k st ds, k ≠ Kind.dirArgMissing → k ∉ dirsOut S d st ds := by
      intro k st ds hk; simp [dirsOut, mem_stateless_enterDir, hk]
    have hfragN : ∀ f, Kind.spreadImpossible ∉ fragOut S d f ∧ Kind.inlineImpossible ∉ fragOut S d f := by
      intro f; simp [fragOut, mem_stateless_enterFrag, hd]
    have hopN : ∀ o, Kind.spreadImpossible ∉ opOut S d o ∧ Kind.inlineImpossible ∉ opOut S d o := by
      intro o; unfold opOut
      cases rootOf S o.ty <;> simp [dirsOut, mem_stateless_enterOp, mem_stateless_enterVar, mem_stateless_enterDir]
    have hM : (Kind.spreadImpossible ∈ (events S {} d).flatMap (stateless S {} d) ∨ Kind.inlineImpossible ∈ (events S {} d).flatMap (stateless S {} d))
        ↔ ∃ v ∈ docVisits S d, mv4 S d v := by
      simp only [mem_stateless_events, (hfragN _).1, (hfragN _).2, (hopN _).1, (hopN _).2, and_false, exists_false, false_or,
        ← nodeOut_impossible S d]
      constructor
      · rintro (⟨v, hv, h⟩ | ⟨v, hv, h⟩)
        · exact ⟨v, hv, Or.inl h⟩
        · exact ⟨v, hv, Or.inr h⟩
      · rintro ⟨v, hv, h | h⟩
        · exact Or.inl ⟨v, hv, h⟩
        · exact Or.inr ⟨v, hv, h⟩
    rw [hM, spec_spreadIsPossible, List.any_eq_true]
    exact roots_lift S d hs hroots hF (mv4 S d) (fun w => sv4 S d w = true)
      (fun st parent ss hcur hok hmem hvis =>
        spreads_visits S d hB hA hF st parent hcur hok ss (fun x hx => hdoc x (hmem x hx)) (fun v hv => hno v (hvis v hv)))

end AGV.Lemmas.ValidateRules
