/-
  Helper lemmas for property C08 (core only).
-/
import AGV.Model.Validators

namespace AGV.Lemmas.Validators
open AGV.Spec.Validators AGV.Model.Validators

-- ------------------------------------------------------------------ exact numbers

theorem num_ofInt (a : Int) : (Dy.ofInt a).num = a := by
  unfold Dy.ofInt Dy.num; simp; split <;> omega

/-- on integers the dyadic order IS the order of ℤ -/
theorem le_ofInt (a b : Int) : Dy.le (Dy.ofInt a) (Dy.ofInt b) ↔ a ≤ b := by
  unfold Dy.le Dy.scaled; simp [num_ofInt]; simp [Dy.ofInt]

/-- on integers dyadic divisibility IS divisibility in ℤ -/
theorem dvd_ofInt (a b : Int) : Dy.dvd (Dy.ofInt a) (Dy.ofInt b) ↔ a ∣ b := by
  unfold Dy.dvd Dy.scaled; simp [num_ofInt]; simp [Dy.ofInt]

theorem ofInt_m_eq_zero (a : Int) : (Dy.ofInt a).m = 0 ↔ a = 0 := by
  unfold Dy.ofInt; simp

theorem scaled_eq_zero (d : Dy) (e0 : Int) : d.scaled e0 = 0 ↔ d.m = 0 := by
  unfold Dy.scaled Dy.num
  constructor
  · intro h
    rcases Int.mul_eq_zero.mp h with h | h
    · split at h <;> omega
    · exact absurd h (Int.pow_ne_zero (by decide))
  · intro h; simp [h]

theorem charLen (c : Char) :
    (if c.toNat < 0x80 then 1 else if c.toNat < 0x800 then 2 else if c.toNat < 0x10000 then 3 else 4) = c.utf8Size := by
  unfold Char.utf8Size Char.toNat
  simp only [UInt32.le_iff_toNat_le]
  simp
  repeat' split
  all_goals omega

theorem foldl_byteLen (s : List Char) (k : Nat) :
    s.foldl (fun acc c =>
      acc + (if c.toNat < 0x80 then 1 else if c.toNat < 0x800 then 2 else if c.toNat < 0x10000 then 3 else 4)) k
    = k + utf8Len s := by
  induction s generalizing k with
  | nil => simp [utf8Len]
  | cons c s ih =>
    simp only [List.foldl_cons]
    rw [ih, charLen]; simp [utf8Len]; omega

/-- `str::len()` as the model computes it is the UTF-8 length of the specification -/
theorem byteLen_eq (s : List Char) : byteLen s = utf8Len s := by
  unfold byteLen; rw [foldl_byteLen]; simp

-- ------------------------------------------------------------------ single validators, no defect

theorem maximumOk_none (v : Sv) (n : Num) :
    maximumOk Defects.none v n = true ↔ numSat v (fun d => Dy.le d n.dy) := by
  cases v <;> cases n <;> simp [maximumOk, toI64, toF64, Defects.none, numSat, Sv.dy, Num.dy, le_ofInt]

theorem minimumOk_none (v : Sv) (n : Num) :
    minimumOk Defects.none v n = true ↔ numSat v (fun d => Dy.le n.dy d) := by
  cases v <;> cases n <;> simp [minimumOk, toI64, toF64, Defects.none, numSat, Sv.dy, Num.dy, le_ofInt]

theorem multipleOfOk_none (v : Sv) (n : Num) :
    multipleOfOk Defects.none v n = true ↔ numSat v (fun d => ¬ d.isZero ∧ Dy.dvd n.dy d) := by
  cases v with
  | str s => cases n <;> simp [multipleOfOk, toI64, toF64, numSat, Sv.dy]
  | int i =>
    cases n with
    | i n =>
      simp [multipleOfOk, toI64, Defects.none, numSat, Sv.dy, Num.dy, Dy.isZero, ofInt_m_eq_zero, dvd_ofInt,
        Int.dvd_iff_tmod_eq_zero]
    | f x =>
      simp only [multipleOfOk, toF64, Defects.none, numSat, Sv.dy, Num.dy, Dy.isZero, Dy.dvd,
        Int.dvd_iff_tmod_eq_zero, Bool.and_eq_true, decide_eq_true_eq]
      constructor
      · rintro ⟨⟨h1, _⟩, h3⟩; exact ⟨h1, h3⟩
      · rintro ⟨h1, h3⟩
        refine ⟨⟨h1, ?_⟩, h3⟩
        intro hx
        have hz : x.scaled (min x.e (Dy.ofInt i).e) = 0 := (scaled_eq_zero _ _).mpr hx
        rw [hz] at h3
        have : (Dy.ofInt i).scaled (min x.e (Dy.ofInt i).e) = 0 := by
          simpa [Int.tmod_zero] using h3
        exact h1 ((scaled_eq_zero _ _).mp this)
  | flt d =>
    cases n with
    | i n => simp [multipleOfOk, toI64, Defects.none, numSat, Sv.dy, Num.dy, Dy.isZero]
    | f x =>
      simp only [multipleOfOk, toF64, numSat, Sv.dy, Num.dy, Dy.isZero, Dy.dvd,
        Int.dvd_iff_tmod_eq_zero, Bool.and_eq_true, decide_eq_true_eq]
      constructor
      · rintro ⟨⟨h1, _⟩, h3⟩; exact ⟨h1, h3⟩
      · rintro ⟨h1, h3⟩
        refine ⟨⟨h1, ?_⟩, h3⟩
        intro hx
        have hz : x.scaled (min x.e d.e) = 0 := (scaled_eq_zero _ _).mpr hx
        rw [hz] at h3
        have : d.scaled (min x.e d.e) = 0 := by
          simpa [Int.tmod_zero] using h3
        exact h1 ((scaled_eq_zero _ _).mp this)

theorem strOk_iff (v : Sv) (p : List Char → Bool) (q : List Char → Prop)
    (h : ∀ s, p s = true ↔ q s) : strOk v p = true ↔ strSat v q := by
  cases v <;> simp [strOk, strSat, h]

-- ------------------------------------------------------------------ the generated code

theorem firstFail_none {α : Type} (vs : List (Kind × (α → Bool))) (x : α) :
    firstFail vs x = none ↔ ∀ p ∈ vs, p.2 x = true := by
  unfold firstFail; simp [List.find?_eq_none]

theorem segC {α β : Type} (o : Option β) (k : Kind) (g : β → α → Bool) (x : α) (P : β → Prop)
    (h : ∀ n, g n x = true ↔ P n) :
    (∀ p ∈ (o.map (fun n => (k, g n))).toList, p.2 x = true) ↔ optSat o P := by
  cases o <;> simp [optSat, h]

theorem elem_iff (re : List Char → List Char → Bool) (c : Cfg) (v : Sv) :
    firstFail (elemValidators Defects.none re c) v = none ↔ elemSat re c v := by
  rw [firstFail_none]; unfold elemValidators elemSat
  simp only [List.forall_mem_append, and_assoc]
  refine and_congr (segC _ _ (fun n v => multipleOfOk Defects.none v n) v _ (fun n => multipleOfOk_none v n)) ?_
  refine and_congr (segC _ _ (fun n v => maximumOk Defects.none v n) v _ (fun n => maximumOk_none v n)) ?_
  refine and_congr (segC _ _ (fun n v => minimumOk Defects.none v n) v _ (fun n => minimumOk_none v n)) ?_
  refine and_congr (segC _ _ (fun n v => strOk v (fun s => decide (byteLen s ≤ n))) v _
    (fun n => strOk_iff v _ _ (fun s => by simp [byteLen_eq]))) ?_
  refine and_congr (segC _ _ (fun n v => strOk v (fun s => decide (byteLen s ≥ n))) v _
    (fun n => strOk_iff v _ _ (fun s => by simp [byteLen_eq]))) ?_
  refine and_congr (segC _ _ (fun n v => strOk v (fun s => decide (s.length ≤ n))) v _
    (fun n => strOk_iff v _ _ (fun s => by simp))) ?_
  refine and_congr (segC _ _ (fun n v => strOk v (fun s => decide (s.length ≥ n))) v _
    (fun n => strOk_iff v _ _ (fun s => by simp))) ?_
  exact segC _ _ (fun p v => strOk v (fun s => re p s)) v _ (fun p => strOk_iff v _ _ (fun s => Iff.rfl))

theorem items_iff (c : Cfg) (xs : List Item) :
    firstFail (listValidators c) xs = none ↔ itemsSat c xs.length := by
  rw [firstFail_none]; unfold listValidators itemsSat
  simp only [List.forall_mem_append]
  refine and_congr (segC _ _ (fun n (xs : List Item) => decide (xs.length ≤ n)) xs _ (fun n => by simp)) ?_
  exact segC _ _ (fun n (xs : List Item) => decide (xs.length ≥ n)) xs _ (fun n => by simp)

/-- the form of the typed value matches the declared shape -/
def formOk (sh : Shape) : Tv → Prop
  | .scalar _ => sh.isList = false
  | .list _ => sh.isList = true

theorem skipEmpty {α : Type} (l : List (Kind × (α → Bool))) (x : α) :
    (if l.isEmpty = true then none else firstFail l x) = firstFail l x := by
  cases l <;> simp [firstFail]

theorem skipEmptyItems (ev : List (Kind × (Sv → Bool))) (xs : List Item) :
    (if ev.isEmpty = true then none else xs.findSome? (itemFail ev)) = xs.findSome? (itemFail ev) := by
  cases ev with
  | cons a l => simp
  | nil =>
    simp only [List.isEmpty_nil, if_true]
    symm; rw [List.findSome?_eq_none_iff]
    intro it _; cases it <;> simp [itemFail, firstFail]

theorem itemFail_iff (re : List Char → List Char → Bool) (c : Cfg) (it : Item) :
    itemFail (elemValidators Defects.none re c) it = none ↔ optSat it (elemSat re c) := by
  cases it with
  | none => simp [itemFail, optSat]
  | some sv => simp only [itemFail, optSat]; exact elem_iff re c sv

theorem validate_list (D : Defects) (re : List Char → List Char → Bool) (sh : Shape) (c : Cfg)
    (xs : List Item) (hl : sh.isList = true) :
    validate D re sh c (.list (some xs)) =
      (firstFail (listValidators c) xs).or (xs.findSome? (itemFail (elemValidators D re c))) := by
  simp only [validate, rawList, hl, if_true, skipEmpty, skipEmptyItems]
  cases firstFail (listValidators c) xs <;> rfl

theorem validate_scalar (D : Defects) (re : List Char → List Char → Bool) (sh : Shape) (c : Cfg)
    (sv : Sv) (hl : sh.isList = false) :
    validate D re sh c (.scalar (some sv)) = firstFail (elemValidators D re c) sv := by
  simp only [validate, rawList, rawScalar, hl]
  cases h : elemValidators D re c <;> simp [firstFail]

theorem validate_null (D : Defects) (re : List Char → List Char → Bool) (sh : Shape) (c : Cfg) :
    validate D re sh c (.scalar none) = none ∧ validate D re sh c (.list none) = none := by
  simp [validate, rawList, rawScalar]

theorem validate_none_iff (re : List Char → List Char → Bool) (sh : Shape) (c : Cfg) (v : Tv)
    (hf : formOk sh v) :
    validate Defects.none re sh c v = none ↔ satisfiesAll re c v := by
  cases v with
  | scalar x =>
    cases x with
    | none => simp [(validate_null _ re sh c).1, satisfiesAll]
    | some sv => rw [validate_scalar _ _ _ _ _ hf]; simp only [satisfiesAll]; exact elem_iff re c sv
  | list x =>
    cases x with
    | none => simp [(validate_null _ re sh c).2, satisfiesAll]
    | some xs =>
      rw [validate_list _ _ _ _ _ hf]; simp only [satisfiesAll]
      rw [← items_iff]
      cases h : firstFail (listValidators c) xs with
      | some k => simp
      | none =>
        simp only [Option.none_or, true_and, List.findSome?_eq_none_iff]
        exact forall_congr' (fun it => imp_congr_right (fun _ => itemFail_iff re c it))

-- ------------------------------------------------------------------ parse, gate

/-- the integer widths the library has (`i8 … u64`) -/
def bitsOk : Elem → Prop
  | .num (.int bits _) => bits = 8 ∨ bits = 16 ∨ bits = 32 ∨ bits = 64
  | _ => True

/-- inputs of the theorems: an integer type of a width that exists, and not the one input on
    which the library itself departs from GraphQL coercion (null for a non-null list of
    nullable items is read as `[null]` in fast mode) -/
def Admissible (sh : Shape) (w : W) : Prop :=
  bitsOk sh.elem ∧ ¬ (w = .null ∧ sh.isList = true ∧ sh.opt = false ∧ sh.elemOpt = true)

theorem parseScalar_eq (e : Elem) (w : W) (hb : bitsOk e) : parseScalar e w = denoteScalar e w := by
  cases e with
  | str => cases w <;> simp [parseScalar, denoteScalar]
  | num t =>
    cases t with
    | f32 => cases w <;> simp [parseScalar, denoteScalar, wireNum]
    | f64 => cases w <;> simp [parseScalar, denoteScalar, wireNum]
    | int bits signed =>
      cases w with
      | int i =>
        cases signed <;> rcases hb with h | h | h | h <;> subst h <;>
          simp [parseScalar, denoteScalar, minOf, maxOf, i64Min, i64Max, u64Max]
        all_goals (repeat' split)
        all_goals first | rfl | omega
      | _ => cases signed <;> simp [parseScalar, denoteScalar]

theorem denoteScalar_list (e : Elem) (xs : List W) : denoteScalar e (.list xs) = none := by
  cases e with
  | str => simp [denoteScalar]
  | num t => cases t <;> simp [denoteScalar, wireNum]

theorem parseItem_eq (e : Elem) (b : Bool) (hb : bitsOk e) : parseItem e b = denoteItem e b := by
  funext w; cases w <;> simp [parseItem, denoteItem, parseScalar_eq _ _ hb]

theorem parse_eq (sh : Shape) (w : W) (h : Admissible sh w) : parse sh w = denote sh w := by
  obtain ⟨hb, hn⟩ := h
  unfold parse denote
  cases w with
  | null =>
    cases hl : sh.isList <;> cases ho : sh.opt <;> simp
    · cases he : sh.elemOpt
      · simp [parseItem]
      · exact absurd ⟨rfl, hl, ho, he⟩ hn
  | list xs => cases hl : sh.isList <;> simp [parseItem_eq _ _ hb, parseScalar_eq _ _ hb, denoteScalar_list]
  | int i => cases hl : sh.isList <;> simp [parseItem, parseScalar_eq _ _ hb, Option.map_map, Function.comp_def]
  | float i => cases hl : sh.isList <;> simp [parseItem, parseScalar_eq _ _ hb, Option.map_map, Function.comp_def]
  | str i => cases hl : sh.isList <;> simp [parseItem, parseScalar_eq _ _ hb, Option.map_map, Function.comp_def]
  | other => cases hl : sh.isList <;> simp [parseItem, parseScalar_eq _ _ hb, Option.map_map, Function.comp_def]

theorem parse_form (sh : Shape) (w : W) (v : Tv) (h : parse sh w = some v) : formOk sh v := by
  unfold parse at h
  cases hl : sh.isList <;> simp only [hl] at h
  · cases w <;> simp at h
    all_goals first
      | (obtain ⟨_, _, rfl⟩ := h; exact hl)
      | (obtain ⟨_, rfl⟩ := h; exact hl)
  · cases w <;> simp at h
    all_goals first
      | (obtain ⟨_, _, rfl⟩ := h; exact hl)
      | (obtain ⟨_, rfl⟩ := h; exact hl)
      | (split at h <;> simp at h <;> first | (obtain ⟨_, _, rfl⟩ := h; exact hl) | (obtain ⟨_, rfl⟩ := h; exact hl) | (subst h; exact hl))

theorem scalarValid_of_parse (e : Elem) (w : W) (sv : Sv) (h : parseScalar e w = some sv) :
    scalarValid Defects.none e w = true := by
  cases e with
  | str => cases w <;> simp_all [parseScalar, scalarValid]
  | num t =>
    cases t with
    | f32 => cases w <;> simp_all [parseScalar, scalarValid]
    | f64 => cases w <;> simp_all [parseScalar, scalarValid]
    | int bits signed =>
      cases w with
      | int i =>
        cases signed <;> simp [parseScalar] at h <;> simp [scalarValid, Defects.none] <;>
          simp [i64Min, i64Max, u64Max] at * <;> omega
      | _ => cases signed <;> simp [parseScalar] at h

theorem gateItem_of_parse (e : Elem) (b : Bool) (w : W) (it : Item) (h : parseItem e b w = some it) :
    gateItem Defects.none e b w = true := by
  cases w <;> simp [parseItem] at h <;> simp [gateItem]
  all_goals first
    | exact h.1
    | (obtain ⟨sv, hs, _⟩ := h; exact scalarValid_of_parse _ _ _ hs)

theorem mapM_some {α β : Type} (f : α → Option β) (xs : List α) (l : List β) (h : xs.mapM f = some l) :
    ∀ x ∈ xs, ∃ y, f x = some y := by
  induction xs generalizing l with
  | nil => simp
  | cons a xs ih =>
    simp only [List.mapM_cons] at h
    cases ha : f a with
    | none => simp [ha] at h
    | some y =>
      cases hr : xs.mapM f with
      | none => simp [ha, hr] at h
      | some l' =>
        intro x hx
        rcases List.mem_cons.mp hx with rfl | hx
        · exact ⟨y, ha⟩
        · exact ih l' hr x hx

theorem gate_of_parse (sh : Shape) (w : W) (v : Tv) (ha : Admissible sh w) (h : parse sh w = some v) :
    gate Defects.none sh w = true := by
  unfold parse at h
  cases w with
  | null =>
    simp only [gate]
    cases hl : sh.isList <;> cases ho : sh.opt <;> simp [hl, ho, parseItem] at h ⊢
    exact ha.2 ⟨rfl, hl, ho, h.1⟩
  | list xs =>
    simp only [gate]
    cases hl : sh.isList <;> simp [hl] at h ⊢
    · obtain ⟨sv, hs, _⟩ := h; exact scalarValid_of_parse _ _ _ hs
    · obtain ⟨l, hm, _⟩ := h
      intro x hx
      obtain ⟨y, hy⟩ := mapM_some _ _ _ hm x hx
      exact gateItem_of_parse _ _ _ _ hy
  | int i =>
    simp only [gate]
    cases hl : sh.isList <;> simp [hl, parseItem] at h <;>
      (obtain ⟨sv, hs, _⟩ := h; exact scalarValid_of_parse _ _ _ hs)
  | float i =>
    simp only [gate]
    cases hl : sh.isList <;> simp [hl, parseItem] at h <;>
      (obtain ⟨sv, hs, _⟩ := h; exact scalarValid_of_parse _ _ _ hs)
  | str i =>
    simp only [gate]
    cases hl : sh.isList <;> simp [hl, parseItem] at h <;>
      (obtain ⟨sv, hs, _⟩ := h; exact scalarValid_of_parse _ _ _ hs)
  | other =>
    simp only [gate]
    cases hl : sh.isList <;> simp [hl, parseItem] at h <;>
      (obtain ⟨sv, hs, _⟩ := h; exact scalarValid_of_parse _ _ _ hs)


end AGV.Lemmas.Validators
