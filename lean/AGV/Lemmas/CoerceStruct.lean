import AGV.Lemmas.CoerceShape

/- C06: lookups, the entries of an object literal, the generated struct `parse` vs. §3.10 field
   completion, facts about `coerce` used for oneof objects (core tactics only). -/
namespace AGV.Lemmas.Coerce
open AGV.Core
open AGV.Spec.Coerce
open AGV.Model.Coerce

-- ------------------------------------------------------------------ lookups

theorem lookup_cons {α : Type} (k k' : String) (v : α) (xs : List (String × α)) :
    lookup ((k', v) :: xs) k = if k' = k then some v else lookup xs k := by
  by_cases h : k' = k <;> simp [lookup, h]

theorem lookup_nil {α : Type} (k : String) : lookup ([] : List (String × α)) k = none := by simp [lookup]

theorem lookup_none_of_not_mem {α : Type} (k : String) (xs : List (String × α)) (h : k ∉ xs.map (·.1)) :
    lookup xs k = none := by
  induction xs with
  | nil => exact lookup_nil k
  | cons x xs ih =>
    obtain ⟨k', v⟩ := x
    simp only [List.map_cons, List.mem_cons, not_or] at h
    rw [lookup_cons, if_neg (fun e => h.1 e.symm), ih h.2]

theorem lookup_of_mem_nodup {α : Type} (k : String) (v : α) (xs : List (String × α))
    (hn : nodupB (xs.map (·.1)) = true) (hm : (k, v) ∈ xs) : lookup xs k = some v := by
  induction xs with
  | nil => simp at hm
  | cons x xs ih =>
    obtain ⟨k', v'⟩ := x
    simp only [List.map_cons, nodupB_cons] at hn
    rw [lookup_cons]
    rcases List.mem_cons.mp hm with heq | hm
    · simp only [Prod.mk.injEq] at heq; simp [heq.1, heq.2]
    · have : k' ≠ k := by
        intro e; subst e
        exact hn.1 (List.mem_map_of_mem (f := (·.1)) hm)
      rw [if_neg this, ih hn.2 hm]

theorem lookup_map_some {α : Type} (k : String) (xs : List (String × α)) :
    lookup (xs.map (fun kr => (kr.1, some kr.2))) k = (lookup xs k).map some := by
  induction xs with
  | nil => simp [lookup]
  | cons x xs ih =>
    obtain ⟨k', v⟩ := x
    simp only [List.map_cons, lookup_cons, ih]
    split <;> simp

theorem viewEntries_keys (T : Table) (fields : List InField) (es : List (String × GValue)) :
    ∀ kr ∈ viewEntries T fields es, kr.1 ∈ es.map (·.1) := by
  induction es with
  | nil => simp [viewEntries]
  | cons e es ih =>
    obtain ⟨k, a⟩ := e
    intro kr hkr
    simp only [viewEntries] at hkr
    split at hkr
    · rcases List.mem_cons.mp hkr with rfl | h
      · simp
      · simp [ih kr h]
    · simp [ih kr hkr]

theorem lookup_viewEntries (T : Table) (fields : List InField) (es : List (String × GValue)) (k : String)
    (f : InField) (hf : fields.find? (·.name = k) = some f) :
    lookup (viewEntries T fields es) k = (lookup es k).map (view T f.ty) := by
  induction es with
  | nil => simp [viewEntries, lookup]
  | cons e es ih =>
    obtain ⟨k', a⟩ := e
    by_cases hk : k' = k
    · subst hk
      simp [viewEntries, hf, lookup_cons]
    · rw [lookup_cons, if_neg hk]
      simp only [viewEntries]
      split
      · rw [lookup_cons, if_neg hk, ih]
      · exact ih


-- ------------------------------------------------------------------ the entries of an object literal

/-- per declared key: the specified coercion of the value followed by `view` (the statement of
    the refinement, pointwise) -/
def entryRes (T : Table) (o : Bool) (fields : List InField) (fs : List (String × GValue)) :
    List (String × Option RV) :=
  fs.filterMap (fun kv => (fields.find? (·.name = kv.1)).map
    (fun f => (kv.1, (coerce T true (tyOf o f).gql kv.2).map (view T (tyOf o f)))))

theorem entryRes_nil (T : Table) (o : Bool) (fields : List InField) : entryRes T o fields [] = [] := rfl

theorem entryRes_cons_some (T : Table) (o : Bool) (fields : List InField) (k : String) (v : GValue)
    (rest : List (String × GValue)) (f : InField) (hf : fields.find? (·.name = k) = some f) :
    entryRes T o fields ((k, v) :: rest) =
      (k, (coerce T true (tyOf o f).gql v).map (view T (tyOf o f))) :: entryRes T o fields rest := by
  simp [entryRes, hf]

theorem entryRes_cons_none (T : Table) (o : Bool) (fields : List InField) (k : String) (v : GValue)
    (rest : List (String × GValue)) (hf : fields.find? (·.name = k) = none) :
    entryRes T o fields ((k, v) :: rest) = entryRes T o fields rest := by
  simp [entryRes, hf]

def declared (fields : List InField) (fs : List (String × GValue)) : Prop :=
  ∀ kv ∈ fs, ∃ f, fields.find? (·.name = kv.1) = some f

theorem entryRes_keys (T : Table) (o : Bool) (fields : List InField) (fs : List (String × GValue))
    (hd : declared fields fs) : (entryRes T o fields fs).map (·.1) = fs.map (·.1) := by
  induction fs with
  | nil => rfl
  | cons e fs ih =>
    obtain ⟨k, v⟩ := e
    obtain ⟨f, hf⟩ := hd (k, v) (by simp)
    rw [entryRes_cons_some T o fields k v fs f hf]
    simp [ih (fun kv h => hd kv (by simp [h]))]

theorem coerceEntries_some (T : Table) (fields : List InField) (fs es : List (String × GValue))
    (h : coerceEntries T true fields fs = some es) :
    entryRes T false fields fs = (viewEntries T fields es).map (fun kr => (kr.1, some kr.2)) ∧
    es.map (·.1) = fs.map (·.1) := by
  induction fs generalizing es with
  | nil => simp [coerceEntries] at h; subst h; simp [entryRes_nil, viewEntries]
  | cons e fs ih =>
    obtain ⟨k, v⟩ := e
    simp only [coerceEntries] at h
    cases hf : fields.find? (·.name = k) with
    | none => simp [hf] at h
    | some f =>
      simp only [hf] at h
      cases hc : coerce T true f.ty.gql v with
      | none => simp [hc] at h
      | some a =>
        cases hr : coerceEntries T true fields fs with
        | none => simp [hc, hr] at h
        | some es' =>
          simp [hc, hr] at h
          subst h
          obtain ⟨h1, h2⟩ := ih es' hr
          rw [entryRes_cons_some T false fields k v fs f hf]
          simp [tyOf, hc, viewEntries, hf, h1, h2]

theorem coerceEntries_none (T : Table) (fields : List InField) (fs : List (String × GValue))
    (hd : declared fields fs) (h : coerceEntries T true fields fs = none) :
    ∃ k, (k, none) ∈ entryRes T false fields fs := by
  induction fs with
  | nil => simp [coerceEntries] at h
  | cons e fs ih =>
    obtain ⟨k, v⟩ := e
    obtain ⟨f, hf⟩ := hd (k, v) (by simp)
    rw [entryRes_cons_some T false fields k v fs f hf]
    simp only [coerceEntries, hf] at h
    cases hc : coerce T true f.ty.gql v with
    | none => exact ⟨k, by simp [tyOf, hc]⟩
    | some a =>
      cases hr : coerceEntries T true fields fs with
      | none =>
        obtain ⟨k', hk'⟩ := ih (fun kv h => hd kv (by simp [h])) hr
        exact ⟨k', by simp [hk']⟩
      | some es' => simp [hc, hr] at h


-- ------------------------------------------------------------------ the fields of a struct

theorem finishFields_keys (gs : List InField) (es r : List (String × GValue))
    (h : finishFields gs es = some r) : ∀ kr ∈ r, kr.1 ∈ gs.map (·.name) := by
  induction gs generalizing r with
  | nil => simp [finishFields] at h; subst h; simp
  | cons g gs ih =>
    simp only [finishFields] at h
    cases hr : finishFields gs es with
    | none => simp [hr] at h
    | some rest =>
      simp only [hr] at h
      have ih' := ih rest hr
      split at h
      · cases h
        intro kr hkr
        rcases List.mem_cons.mp hkr with rfl | hkr
        · simp
        · simp [ih' kr hkr]
      · split at h
        · cases h
          intro kr hkr
          rcases List.mem_cons.mp hkr with rfl | hkr
          · simp
          · simp [ih' kr hkr]
        · split at h
          · cases h
          · cases h
            intro kr hkr
            simp [ih' kr hkr]

theorem viewFields_cons (g : InField) (gs : List InField) (l : List (String × RV)) :
    viewFields (g :: gs) l = (g.name, (lookup l g.name).getD (viewAbsent g.ty)) :: viewFields gs l := rfl

theorem viewFields_skip (gs : List InField) (k : String) (x : RV) (l : List (String × RV))
    (hk : k ∉ gs.map (·.name)) : viewFields gs ((k, x) :: l) = viewFields gs l := by
  simp only [viewFields]
  apply List.map_congr_left
  intro g hg
  have : k ≠ g.name := fun e => hk (e ▸ List.mem_map_of_mem hg)
  rw [lookup_cons, if_neg this]

/-- the generated struct `parse` on correctly parsed entries is `finishFields` followed by the view -/
theorem finishStruct_eq (T : Table) (dflt : InField → GValue → Option RV) (fields : List InField)
    (es : List (String × GValue))
    (hd : ∀ f ∈ fields, ∀ d, f.default = some d → dflt f d = some (view T f.ty d))
    (gs : List InField) (hg : ∀ g ∈ gs, fields.find? (·.name = g.name) = some g)
    (hn : nodupB (gs.map (·.name)) = true) :
    finishStruct Defects.none dflt gs ((viewEntries T fields es).map (fun kr => (kr.1, some kr.2))) =
      (finishFields gs es).map (fun r => viewFields gs (viewEntries T fields r)) := by
  induction gs with
  | nil => simp [finishStruct, finishFields, viewFields]
  | cons g gs ih =>
    simp only [List.map_cons, nodupB_cons] at hn
    have hgf := hg g (by simp)
    have hgm : g ∈ fields := List.mem_of_find?_eq_some hgf
    have ih' := ih (fun g' h => hg g' (by simp [h])) hn.2
    simp only [finishStruct, finishFields, ih', lookup_map_some, lookup_viewEntries T fields es g.name g hgf]
    cases hr : finishFields gs es with
    | none =>
      simp only [Option.map_none]
      split <;> simp_all
    | some rest =>
      have hkeys := finishFields_keys gs es rest hr
      have hnotin : g.name ∉ (viewEntries T fields rest).map (·.1) := by
        intro hmem
        obtain ⟨kr, hkr, heq⟩ := List.mem_map.mp hmem
        have h1 := viewEntries_keys T fields rest kr hkr
        obtain ⟨kr2, hkr2, heq2⟩ := List.mem_map.mp h1
        have := hkeys kr2 hkr2
        rw [heq2, heq] at this
        exact hn.1 this
      simp only [Option.map_some]
      cases hl : lookup es g.name with
      | some a =>
        simp only [Option.map_some]
        have e1 : viewEntries T fields ((g.name, a) :: rest) = (g.name, view T g.ty a) :: viewEntries T fields rest := by
          simp [viewEntries, hgf]
        rw [e1, viewFields_cons, lookup_cons, if_pos rfl, viewFields_skip gs g.name _ _ hn.1]
        rfl
      | none =>
        simp only [Option.map_none]
        cases hdef : g.default with
        | some d =>
          simp only [hd g hgm d hdef, Option.map_some]
          have e1 : viewEntries T fields ((g.name, d) :: rest) = (g.name, view T g.ty d) :: viewEntries T fields rest := by
            simp [viewEntries, hgf]
          rw [e1, viewFields_cons, lookup_cons, if_pos rfl, viewFields_skip gs g.name _ _ hn.1]
          rfl
        | none =>
          simp only []
          by_cases hnn : g.ty.gql.isNonNull = true
          · have : parseAbsent Defects.none g.ty = none := by
              cases hty : g.ty with
              | mu t => rw [hty] at hnn; simp [RTy.gql, gql_nullable_not_nonNull] at hnn
              | opt t => simp [parseAbsent, parseNull_repaired, ← hty, hnn]
              | vec t => simp [parseAbsent, parseNull_repaired, ← hty, hnn]
              | named n => simp [parseAbsent, parseNull_repaired, ← hty, hnn]
            simp [this, hnn]
          · have : parseAbsent Defects.none g.ty = some (viewAbsent g.ty) := by
              cases hty : g.ty with
              | mu t => simp [parseAbsent, viewAbsent]
              | opt t => simp [parseAbsent, viewAbsent, parseNull_repaired, ← hty, hnn]
              | vec t => simp [parseAbsent, viewAbsent, parseNull_repaired, ← hty, hnn]
              | named n => simp [parseAbsent, viewAbsent, parseNull_repaired, ← hty, hnn]
            simp only [this, hnn, Bool.false_eq_true, if_false, Option.map_some]
            rw [viewFields_cons, lookup_none_of_not_mem g.name _ hnotin]
            rfl

theorem finishStruct_none (dflt : InField → GValue → Option RV) (es : List (String × Option RV))
    (gs : List InField) (g : InField) (hg : g ∈ gs) (hl : lookup es g.name = some none) :
    finishStruct Defects.none dflt gs es = none := by
  induction gs with
  | nil => simp at hg
  | cons g' gs ih =>
    simp only [finishStruct]
    rcases List.mem_cons.mp hg with rfl | hg
    · simp [hl]
    · rw [ih hg]
      split <;> simp_all


theorem find_self (fields : List InField) (hn : nodupB (fields.map (·.name)) = true) :
    ∀ g ∈ fields, fields.find? (·.name = g.name) = some g := by
  induction fields with
  | nil => intro g hg; simp at hg
  | cons f fields ih =>
    simp only [List.map_cons, nodupB_cons] at hn
    intro g hg
    rcases List.mem_cons.mp hg with rfl | hg
    · simp
    · have : f.name ≠ g.name := fun e => hn.1 (e ▸ List.mem_map_of_mem hg)
      simp [this, ih hn.2 g hg]

theorem find_name {fields : List InField} {k : String} {f : InField}
    (h : fields.find? (·.name = k) = some f) : f.name = k ∧ f ∈ fields :=
  ⟨by simpa using List.find?_some h, List.mem_of_find?_eq_some h⟩

/-- struct objects: given that every entry is parsed as specified -/
theorem struct_eq (T : Table) (dflt : InField → GValue → Option RV) (fields : List InField)
    (fs : List (String × GValue))
    (hnf : nodupB (fields.map (·.name)) = true) (hk : nodupB (fs.map (·.1)) = true)
    (hdecl : declared fields fs)
    (hd : ∀ f ∈ fields, ∀ d, f.default = some d → dflt f d = some (view T f.ty d)) :
    finishStruct Defects.none dflt fields (entryRes T false fields fs) =
      ((coerceEntries T true fields fs).bind (finishFields fields)).map
        (fun r => viewFields fields (viewEntries T fields r)) := by
  cases hc : coerceEntries T true fields fs with
  | some es =>
    rw [(coerceEntries_some T fields fs es hc).1]
    exact finishStruct_eq T dflt fields es hd fields (find_self fields hnf) hnf
  | none =>
    obtain ⟨k, hkm⟩ := coerceEntries_none T fields fs hdecl hc
    have hkeys := entryRes_keys T false fields fs hdecl
    have hl : lookup (entryRes T false fields fs) k = some none :=
      lookup_of_mem_nodup k none _ (by rw [hkeys]; exact hk) hkm
    have hkin : k ∈ fs.map (·.1) := by
      rw [← hkeys]; exact List.mem_map_of_mem (f := (·.1)) hkm
    obtain ⟨kv, hkv, rfl⟩ := List.mem_map.mp hkin
    obtain ⟨f, hf⟩ := hdecl kv hkv
    obtain ⟨hname, hmem⟩ := find_name hf
    simp only [Option.bind_none, Option.map_none]
    exact finishStruct_none dflt _ fields f hmem (by rw [hname]; exact hl)

-- ------------------------------------------------------------------ facts about `coerce` used for oneof objects

theorem nullable_base (ty : TypeRef) : ty.nullable.base = ty.base := by
  cases ty <;> simp [TypeRef.nullable, TypeRef.base]

theorem coerce_congr (T : Table) (j : Bool) (ty1 ty2 : TypeRef) (v : GValue) (hv : v ≠ .null)
    (h : ty1.nullable = ty2.nullable) : coerce T j ty1 v = coerce T j ty2 v := by
  have hb : ty1.base = ty2.base := by rw [← nullable_base ty1, ← nullable_base ty2, h]
  have hw : wrap ty1 = wrap ty2 := funext (fun g => by rw [← wrap_nullable ty1, ← wrap_nullable ty2, h])
  cases v <;> simp_all [coerce]

theorem wrap_ne_null (ty : TypeRef) (g : GValue) (h : g ≠ .null) : wrap ty g ≠ .null := by
  induction ty with
  | named n => simpa [wrap] using h
  | list t _ => simp [wrap]
  | nonNull t ih => simpa [wrap] using ih

theorem coerce_ne_null (T : Table) (j : Bool) (ty : TypeRef) (v a : GValue) (hv : v ≠ .null)
    (h : coerce T j ty v = some a) : a ≠ .null := by
  have leafcase : ∀ w, (coerceLeaf T j ty.base w).map (wrap ty) = some a → a ≠ .null := by
    intro w hw
    cases hl : coerceLeaf T j ty.base w with
    | none => simp [hl] at hw
    | some g =>
      simp [hl] at hw
      subst hw
      apply wrap_ne_null
      have := coerceLeaf_isLeaf T j ty.base w g hl
      intro e; subst e; simp [isLeaf] at this
  cases v with
  | null => exact absurd rfl hv
  | list xs =>
    simp only [coerce] at h
    split at h
    · simp only [Option.map_eq_some_iff] at h
      obtain ⟨l, _, rfl⟩ := h
      simp
    · cases h
  | obj fs =>
    simp only [coerce] at h
    split at h
    · split at h
      · cases h
      · simp only [Option.map_eq_some_iff] at h
        obtain ⟨r, _, rfl⟩ := h
        exact wrap_ne_null _ _ (by simp)
    · cases h
  | int i => exact leafcase _ (by simpa [coerce] using h)
  | float t => exact leafcase _ (by simpa [coerce] using h)
  | str s => exact leafcase _ (by simpa [coerce] using h)
  | bool b => exact leafcase _ (by simpa [coerce] using h)
  | enum n => exact leafcase _ (by simpa [coerce] using h)

theorem coerceEntries_length (T : Table) (j : Bool) (fields : List InField) (fs es : List (String × GValue))
    (h : coerceEntries T j fields fs = some es) : es.length = fs.length := by
  induction fs generalizing es with
  | nil => simp [coerceEntries] at h; subst h; rfl
  | cons e fs ih =>
    obtain ⟨k, v⟩ := e
    simp only [coerceEntries] at h
    split at h
    · cases h
    · split at h
      · rename_i a b ha hb
        cases h
        simp [ih b hb]
      · cases h

end AGV.Lemmas.Coerce
