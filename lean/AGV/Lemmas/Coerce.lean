/-
  Lemmas for property C06: the code's omission-preserving variable substitution is the
  specification's, `null` and the built-in scalar leaves are parsed exactly as the specification
  coerces them.
-/
import AGV.Model.Coerce
import AGV.Lemmas.Scalars

namespace AGV.Lemmas.Coerce
open AGV.Core
open AGV.Spec.Coerce
open AGV.Model.Coerce

-- ------------------------------------------------------------------ resolve = subst

mutual
theorem resolve_eq_subst (defs : List VarDef) (raw vars : List (String × GValue))
    (h : ∀ n, varValue defs raw n = lookup vars n) :
    ∀ dv : DValue, resolve defs raw dv = subst vars dv
  | .var n => by simp [resolve, subst, h]
  | .null => by simp [resolve, subst]
  | .int _ => by simp [resolve, subst]
  | .float _ => by simp [resolve, subst]
  | .str _ => by simp [resolve, subst]
  | .bool _ => by simp [resolve, subst]
  | .enum _ => by simp [resolve, subst]
  | .list xs => by simp [resolve, subst, resolveList_eq_substList defs raw vars h xs]
  | .obj fs => by simp [resolve, subst, resolveFields_eq_substFields defs raw vars h fs]
theorem resolveList_eq_substList (defs : List VarDef) (raw vars : List (String × GValue))
    (h : ∀ n, varValue defs raw n = lookup vars n) :
    ∀ xs : List DValue, resolveList defs raw xs = substList vars xs
  | [] => by simp [resolveList, substList]
  | x :: xs => by
    simp [resolveList, substList, resolve_eq_subst defs raw vars h x,
      resolveList_eq_substList defs raw vars h xs]
theorem resolveFields_eq_substFields (defs : List VarDef) (raw vars : List (String × GValue))
    (h : ∀ n, varValue defs raw n = lookup vars n) :
    ∀ fs : List (String × DValue), resolveFields defs raw fs = substFields vars fs
  | [] => by simp [resolveFields, substFields]
  | (k, v) :: rest => by
    have h1 := resolve_eq_subst defs raw vars h v
    have h2 := resolveFields_eq_substFields defs raw vars h rest
    cases hs : subst vars v <;> simp [resolveFields, substFields, h1, h2, hs]
end

-- ------------------------------------------------------------------ shape of declared types

/-- a declared type never carries two `!` in a row -/
theorem gql_nullable_not_nonNull : ∀ t : RTy, t.gql.nullable.isNonNull = false
  | .named _ => by simp [RTy.gql, TypeRef.nullable, TypeRef.isNonNull]
  | .vec _ => by simp [RTy.gql, TypeRef.nullable, TypeRef.isNonNull]
  | .opt t => by
    have ih := gql_nullable_not_nonNull t
    simp only [RTy.gql]
    cases h : t.gql with
    | nonNull t' => cases t' <;> simp_all [TypeRef.nullable, TypeRef.isNonNull]
    | named _ => simp_all [TypeRef.nullable, TypeRef.isNonNull]
    | list _ => simp_all [TypeRef.nullable, TypeRef.isNonNull]
  | .mu t => by
    have ih := gql_nullable_not_nonNull t
    simp only [RTy.gql]
    cases h : t.gql with
    | nonNull t' => cases t' <;> simp_all [TypeRef.nullable, TypeRef.isNonNull]
    | named _ => simp_all [TypeRef.nullable, TypeRef.isNonNull]
    | list _ => simp_all [TypeRef.nullable, TypeRef.isNonNull]

/-- `null` is a value of the Rust type exactly when the declared type is nullable -/
theorem parseNull_repaired (t : RTy) :
    parseNull Defects.none t = if t.gql.isNonNull then none else some RV.null := by
  cases t with
  | named n => simp [parseNull, RTy.gql, TypeRef.isNonNull]
  | vec t => simp [parseNull, RTy.gql, TypeRef.isNonNull, Defects.none]
  | opt t => simp [parseNull, RTy.gql, gql_nullable_not_nonNull]
  | mu t => simp [parseNull, RTy.gql, gql_nullable_not_nonNull]

-- ------------------------------------------------------------------ scalar leaves

theorem i32Entry_find :
    AGV.Gen.IntScalars.table.find? (·.name = "i32") = some i32Entry := by
  simp [i32Entry, AGV.Gen.IntScalars.table]

theorem i32Entry_mem : i32Entry ∈ AGV.Gen.IntScalars.table :=
  List.mem_of_find?_eq_some i32Entry_find

theorem i32Entry_name : i32Entry.name = "i32" := by
  simp [i32Entry, AGV.Gen.IntScalars.table]

/-- the Rust value of a coerced leaf -/
def leafView : GValue → RV
  | .int i => .int i
  | .float t => .float t
  | .str s => .str s
  | .bool b => .bool b
  | .enum n => .enum n
  | _ => .null

theorem parseInt_i32 (i : Int) :
    parseI32 i = if AGV.Spec.Scalars.inIntDomain "i32" i then some (RV.int i) else none := by
  unfold parseI32
  by_cases h : AGV.Spec.Scalars.inIntDomain "i32" i
  · have := AGV.Lemmas.Scalars.parseInt_in i32Entry i32Entry_mem i (by rw [i32Entry_name]; exact h)
    simp [this, h]
  · obtain ⟨e, he⟩ := AGV.Lemmas.Scalars.parseInt_out i32Entry i32Entry_mem i (by rw [i32Entry_name]; exact h)
    simp [he, h]

end AGV.Lemmas.Coerce
