/-
  Property C13, specification side: `parseDocument` with the documented parameters, in terms of
  reading without the finiteness check (`P'`) followed by the three document-level conditions.
-/
import AGV.Lemmas.PegC13SFin
namespace AGV.Lemmas.PegX
open AGV.Spec.Lex AGV.Spec.Parse AGV.Core.PAst

theorem spec_top (s : List Char) (ts : List Tok) (h : AGV.Spec.Lex.tokens s = some ts) :
    parseDocument {} s =
      match pDefinitions P' (ts.length + 1) ts with
      | none => none
      | some defs =>
        if defs.all finDef && defs.all (fun d => decide (selDepth (s.length + 1) (defSels d) ≤ 64)) &&
            validDefs {} defs then mkDoc defs else none := by
  unfold parseDocument
  rw [h]
  simp only []
  rw [fin_defs]
  cases pDefinitions P' (ts.length + 1) ts with
  | none => rfl
  | some defs =>
    simp only [Option.bind_some]
    cases hf : defs.all finDef
    · simp
    · simp
end AGV.Lemmas.PegX
