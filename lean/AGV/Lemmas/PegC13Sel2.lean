/-
  Property C13: what `parse_selection_set` makes of the pairs of one selection (field, fragment
  spread, inline fragment), given what it makes of the parts.
-/
import AGV.Lemmas.PegC13Sel1
import AGV.Lemmas.ParseC13Depth
namespace AGV.Lemmas.PegX
open AGV.Model.Peg AGV.Model.BuildAst AGV.Spec.Lex AGV.Spec.Parse AGV.Core.PAst AGV.Lemmas.PegC13 AGV.Lemmas.SpecVal
open AGV.Lemmas.ParseC13 (selElemK kOf buildSelSet_succ)

mutual
/-- a selection as the tree builder stores it -/
def normSel : PSel → PSel
  | .field a n as ds ss => .field a n (normFs as) (normDs ds) (normSels ss)
  | .spread n ds => .spread n (normDs ds)
  | .inline tc ds ss => .inline tc (normDs ds) (normSels ss)
def normSels : List PSel → List PSel
  | [] => []
  | s :: ss => normSel s :: normSels ss
end

mutual
/-- no float literal in the selection denotes the infinite double -/
def finSel : PSel → Bool
  | .field _ _ as ds ss => finFs as && finDs ds && finSels ss
  | .spread _ ds => finDs ds
  | .inline _ ds ss => finDs ds && finSels ss
def finSels : List PSel → Bool
  | [] => true
  | s :: ss => finSel s && finSels ss
end

mutual
/-- levels of selection sets below this selection / this set -/
def dSel : PSel → Nat
  | .field _ _ _ _ ss => if ss.isEmpty then 0 else dSels ss + 1
  | .spread _ _ => 0
  | .inline _ _ ss => dSels ss + 1
def dSels : List PSel → Nat
  | [] => 0
  | s :: ss => max (dSel s) (dSels ss)
end

theorem normSels_map (ss : List PSel) : normSels ss = ss.map normSel := by
  induction ss with
  | nil => rfl
  | cons s ss ih => simp [normSels, ih]

theorem finSels_all (ss : List PSel) : finSels ss = ss.all finSel := by
  induction ss with
  | nil => rfl
  | cons s ss ih => simp [finSels, ih]

theorem dSels_le {ss : List PSel} {s : PSel} (h : s ∈ ss) : dSel s ≤ dSels ss := by
  induction ss with
  | nil => cases h
  | cons x xs ih =>
    simp only [dSels]
    rcases List.mem_cons.1 h with rfl | h
    · omega
    · have := ih h; omega

theorem normSels_isEmpty (ss : List PSel) : (normSels ss).isEmpty = ss.isEmpty := by
  cases ss <;> rfl

-- ------------------------------------------------------------------ the pairs of the parts
/-- an optional nested selection set, as the builder's continuation `k` reads it; `c`: the
    continuation's outcome is a value -/
def optSS (k : Pair → Except PErr (List PSel)) (ps : List Pair) (o : Option (List PSel)) (c : Bool) : Prop :=
  match o with
  | some ss => ∃ pr, ps = [pr] ∧ pr.rule = "selection_set" ∧ Exp (k pr) c (normSels ss)
  | none => ps = [] ∧ c = true

theorem asName_famV : asName famV = "arguments" := rfl
theorem dsName_famV : dsName famV = "directives" := rfl

theorem exp_true {α : Type} {r : Except PErr α} {x : α} : Exp r true x ↔ r = .ok x := by simp [Exp]
theorem exp_false {α : Type} {r : Except PErr α} {x : α} : Exp r false x ↔ ∃ e, r = .error e := by simp [Exp]

/-- the pairs of an optional part, with the rule name made explicit -/
def OptA (s₀ : List Char) (psA : List Pair) (oal : Option Name) : Prop :=
  match oal with
  | some al => ∃ x y i, psA = [Pair.mk "alias" x y i] ∧ innerName (envOf s₀) (Pair.mk "alias" x y i) = .ok al
  | none => psA = []

theorem optA_norm {s₀ : List Char} {psA : List Pair} {oal : Option Name} (hA : bOpt bAlias s₀ psA oal) :
    OptA s₀ psA oal := by
  cases oal with
  | none => exact hA
  | some al =>
    obtain ⟨pr, rfl, hr, hi⟩ := hA
    obtain ⟨nm, x, y, i⟩ := pr
    simp only [rule_mk] at hr
    subst hr
    exact ⟨x, y, i, rfl, hi⟩

def OptG (s₀ : List Char) (psG : List Pair) (oas : Option (List (Name × PValue))) : Prop :=
  match oas with
  | some as => ∃ x y i, psG = [Pair.mk "arguments" x y i] ∧ buildArgs (envOf s₀) (Pair.mk "arguments" x y i) = expFs as
  | none => psG = []

theorem optG_norm {s₀ : List Char} {psG : List Pair} {oas : Option (List (Name × PValue))}
    (hG : bOpt (bArgs famV) s₀ psG oas) : OptG s₀ psG oas := by
  cases oas with
  | none => exact hG
  | some as =>
    obtain ⟨pr, rfl, hr, hi⟩ := hG
    obtain ⟨nm, x, y, i⟩ := pr
    simp only [rule_mk, asName_famV] at hr
    subst hr
    exact ⟨x, y, i, rfl, hi⟩

def OptD (s₀ : List Char) (psD : List Pair) (ods : Option (List PDirective)) : Prop :=
  match ods with
  | some ds => ∃ x y i, psD = [Pair.mk "directives" x y i] ∧ i.mapM (buildDirective (envOf s₀)) = expDs ds
  | none => psD = []

theorem optD_norm {s₀ : List Char} {psD : List Pair} {ods : Option (List PDirective)}
    (hD : bOpt (bDirs famV) s₀ psD ods) : OptD s₀ psD ods := by
  cases ods with
  | none => exact hD
  | some ds =>
    obtain ⟨pr, rfl, hr, hi⟩ := hD
    obtain ⟨nm, x, y, i⟩ := pr
    simp only [rule_mk, dsName_famV] at hr
    subst hr
    exact ⟨x, y, i, rfl, hi⟩

def OptS (k : Pair → Except PErr (List PSel)) (psS : List Pair) (oss : Option (List PSel)) (cS : Bool) : Prop :=
  match oss with
  | some ss => ∃ x y i, psS = [Pair.mk "selection_set" x y i] ∧ Exp (k (Pair.mk "selection_set" x y i)) cS (normSels ss)
  | none => psS = [] ∧ cS = true

theorem optS_norm {k : Pair → Except PErr (List PSel)} {psS : List Pair} {oss : Option (List PSel)} {cS : Bool}
    (hS : optSS k psS oss cS) : OptS k psS oss cS := by
  cases oss with
  | none => exact hS
  | some ss =>
    obtain ⟨pr, rfl, hr, hi⟩ := hS
    obtain ⟨nm, x, y, i⟩ := pr
    simp only [rule_mk] at hr
    subst hr
    exact ⟨x, y, i, rfl, hi⟩

theorem finFs_nil : finFs [] = true := rfl
theorem finDs_nil : finDs [] = true := rfl

/-- `parse_selection_set` on a `field` pair -/
theorem field_build (s₀ : List Char) (k : Pair → Except PErr (List PSel)) (p p1 p' p1' a b : Nat)
    (psA psG psD psS : List Pair) (oal : Option Name) (n : Name) (oas : Option (List (Name × PValue)))
    (ods : Option (List PDirective)) (oss : Option (List PSel)) (cS : Bool)
    (hA : bOpt bAlias s₀ psA oal)
    (hn : Env.asStr (envOf s₀) (Pair.mk "name" a b []) = n)
    (hG : bOpt (bArgs famV) s₀ psG oas) (hD : bOpt (bDirs famV) s₀ psD ods) (hS : optSS k psS oss cS) :
    Exp (selElemK (envOf s₀) k (Pair.mk "selection" p p1 [Pair.mk "field" p' p1'
        (psA ++ (Pair.mk "name" a b [] :: (psG ++ (psD ++ psS))))]))
      (finFs (oas.getD []) && finDs (ods.getD []) && cS)
      (.field oal n (normFs (oas.getD [])) (normDs (ods.getD [])) (normSels (oss.getD []))) := by
  have hA' := optA_norm hA
  have hG' := optG_norm hG
  have hD' := optD_norm hD
  have hS' := optS_norm hS
  clear hA hG hD hS
  cases hb1 : finFs (oas.getD []) <;> cases hb2 : finDs (ods.getD []) <;> cases cS <;>
  cases oal <;> cases oas <;> cases ods <;> cases oss <;>
    simp only [Option.getD_some, Option.getD_none, finFs_nil, finDs_nil, reduceCtorEq, and_false, and_true,
      exp_true, exp_false, OptA, OptG, OptD, OptS] at hb1 hb2 hA' hG' hD' hS' <;>
    (try obtain ⟨x1, y1, i1, rfl, hA2⟩ := hA') <;> (try subst hA') <;>
    (try obtain ⟨x2, y2, i2, rfl, hG2⟩ := hG') <;> (try subst hG') <;>
    (try obtain ⟨x3, y3, i3, rfl, hD2⟩ := hD') <;> (try subst hD') <;>
    (try obtain ⟨x4, y4, i4, rfl, hS2⟩ := hS') <;> (try subst hS') <;>
    (try obtain ⟨e4, hS3⟩ := hS2) <;>
    simp [exp_true, exp_false, selElemK, inner_mk, rule_mk, nextIf, buildOptDirectives, bind, Except.bind, pure,
      Except.pure, Except.map, normFs, normDs, normSels, expFs, expDs, *]

/-- `parse_selection_set` on a `fragment_spread` pair -/
theorem spread_build (s₀ : List Char) (k : Pair → Except PErr (List PSel)) (p p1 p' p1' a b : Nat)
    (psD : List Pair) (n : Name) (ods : Option (List PDirective))
    (hn : Env.asStr (envOf s₀) (Pair.mk "name" a b []) = n)
    (hD : bOpt (bDirs famV) s₀ psD ods) :
    Exp (selElemK (envOf s₀) k (Pair.mk "selection" p p1 [Pair.mk "fragment_spread" p' p1' (Pair.mk "name" a b [] :: psD)]))
      (finDs (ods.getD [])) (.spread n (normDs (ods.getD []))) := by
  have hD' := optD_norm hD
  clear hD
  cases hb2 : finDs (ods.getD []) <;> cases ods <;>
    simp only [Option.getD_some, Option.getD_none, finDs_nil, reduceCtorEq, OptD] at hb2 hD' <;>
    (try obtain ⟨x3, y3, i3, rfl, hD2⟩ := hD') <;> (try subst hD') <;>
    simp [exp_true, exp_false, selElemK, inner_mk, rule_mk, buildOptDirectives, Except.map, normDs, expDs, *]

def OptT (s₀ : List Char) (psT : List Pair) (otc : Option Name) : Prop :=
  match otc with
  | some tc => ∃ x y i, psT = [Pair.mk "type_condition" x y i] ∧
      innerName (envOf s₀) (Pair.mk "type_condition" x y i) = .ok tc
  | none => psT = []

theorem optT_norm {s₀ : List Char} {psT : List Pair} {otc : Option Name} (hT : bOpt bTypeCond s₀ psT otc) :
    OptT s₀ psT otc := by
  cases otc with
  | none => exact hT
  | some al =>
    obtain ⟨pr, rfl, hr, hi⟩ := hT
    obtain ⟨nm, x, y, i⟩ := pr
    simp only [rule_mk] at hr
    subst hr
    exact ⟨x, y, i, rfl, hi⟩

/-- `parse_selection_set` on an `inline_fragment` pair -/
theorem inline_build (s₀ : List Char) (k : Pair → Except PErr (List PSel)) (p p1 p' p1' : Nat)
    (psT psD : List Pair) (sp : Pair) (otc : Option Name) (ods : Option (List PDirective)) (ss : List PSel) (cS : Bool)
    (hT : bOpt bTypeCond s₀ psT otc) (hD : bOpt (bDirs famV) s₀ psD ods)
    (hS : sp.rule = "selection_set" ∧ Exp (k sp) cS (normSels ss)) :
    Exp (selElemK (envOf s₀) k (Pair.mk "selection" p p1 [Pair.mk "inline_fragment" p' p1' (psT ++ (psD ++ [sp]))]))
      (finDs (ods.getD []) && cS) (.inline otc (normDs (ods.getD [])) (normSels ss)) := by
  obtain ⟨nm4, x4, y4, i4⟩ := sp
  obtain ⟨hr4, hk⟩ := hS
  simp only [rule_mk] at hr4
  subst hr4
  have hT' := optT_norm hT
  have hD' := optD_norm hD
  clear hT hD
  cases hb2 : finDs (ods.getD []) <;> cases cS <;> cases otc <;> cases ods <;>
    simp only [Option.getD_some, Option.getD_none, finDs_nil, reduceCtorEq, exp_true, exp_false, OptD, OptT] at hb2 hT' hD' hk <;>
    (try obtain ⟨x1, y1, i1, rfl, hT2⟩ := hT') <;> (try subst hT') <;>
    (try obtain ⟨x3, y3, i3, rfl, hD2⟩ := hD') <;> (try subst hD') <;>
    (try obtain ⟨e4, hk2⟩ := hk) <;>
    simp [exp_true, exp_false, selElemK, inner_mk, rule_mk, nextIf, buildOptDirectives, bind, Except.bind, pure,
      Except.pure, Except.map, normDs, expDs, *]
end AGV.Lemmas.PegX
