/-
  Property C13, specification side: the fuelled `selDepth` of `Spec/Parse.lean` is the structural
  nesting depth `dSels` once the fuel covers it; normalisation does not change the depth.
-/
import AGV.Lemmas.PegC13Defs2
namespace AGV.Lemmas.PegX
open AGV.Spec.Parse AGV.Core.PAst

/-- the step of the fold in `selDepth` -/
def sdStep (f : Nat) (m : Nat) (s : PSel) : Nat :=
  match s with
  | .field _ _ _ _ sub => if sub.isEmpty then m else max m (selDepth f sub + 1)
  | .inline _ _ sub => max m (selDepth f sub + 1)
  | .spread _ _ => m

theorem selDepth_succ (f : Nat) (ss : List PSel) : selDepth (f + 1) ss = ss.foldl (sdStep f) 0 := by
  rw [selDepth]; rfl

theorem sdFold (f : Nat) (H : ∀ sub, dSels sub ≤ f → selDepth f sub = dSels sub) :
    ∀ (ss : List PSel) (m : Nat), dSels ss ≤ f + 1 → ss.foldl (sdStep f) m = max m (dSels ss) := by
  intro ss
  induction ss with
  | nil => intro m _; simp [dSels]
  | cons s r ih =>
    intro m h
    simp only [dSels] at h
    have h1 : dSel s ≤ f + 1 := by omega
    have h2 : dSels r ≤ f + 1 := by omega
    rw [List.foldl_cons, ih _ h2]
    simp only [dSels]
    cases s with
    | field a n as ds sub =>
      simp only [sdStep, dSel] at h1 ⊢
      cases he : sub.isEmpty with
      | true => simp only [he, if_true] at h1 ⊢; omega
      | false =>
        simp only [he, Bool.false_eq_true, if_false] at h1 ⊢
        rw [H sub (by omega)]
        omega
    | spread n ds => simp only [sdStep, dSel]; omega
    | inline tc ds sub =>
      simp only [sdStep, dSel] at h1 ⊢
      rw [H sub (by omega)]
      omega

theorem selDepth_eq : ∀ (f : Nat) (ss : List PSel), dSels ss ≤ f → selDepth f ss = dSels ss := by
  intro f
  induction f with
  | zero => intro ss h; rw [selDepth]; omega
  | succ f ih =>
    intro ss h
    rw [selDepth_succ, sdFold f ih ss 0 h]
    omega

mutual
theorem dSel_norm : ∀ s : PSel, dSel (normSel s) = dSel s
  | .field a n as ds ss => by rw [normSel, dSel, dSel, normSels_isEmpty, dSels_norm ss]
  | .spread n ds => by rw [normSel, dSel, dSel]
  | .inline tc ds ss => by rw [normSel, dSel, dSel, dSels_norm ss]
theorem dSels_norm : ∀ ss : List PSel, dSels (normSels ss) = dSels ss
  | [] => by rw [normSels]
  | s :: ss => by rw [normSels, dSels, dSels, dSel_norm s, dSels_norm ss]
end

theorem dDef_norm (d : PDef) : dDef (normDef d) = dDef d := by
  cases d <;> simp [dDef, normDef, defSels, dSels_norm]
end AGV.Lemmas.PegX
