/-
  Property C13, specification side: the token stream of `Spec/Lex.lean` as a total function —
  `toks s` is the list of tokens of `s`, ending in the impossible token `bad` at the first place
  where no token can be read — and its relation to `tokens`: `tokens s = some ts` iff
  `toks s = ts` and `bad ∉ ts`.  No PEG here.
-/
import AGV.Lemmas.PegC13Skip
import AGV.Lemmas.ParseC13Number
namespace AGV.Lemmas.PegX
open AGV.Model.Peg AGV.Spec.Lex AGV.Spec.Literal AGV.Lemmas.PegC13

-- ------------------------------------------------------------------ every token is non-empty

theorem nameOf_len (r : List Char) : (nameOf r).2.length ≤ r.length := by
  rw [(nameOf_eq r).2]; exact dropWhile_len _ _

theorem lexString_lt' : ∀ (n : Nat) (r v rest : List Char), r.length ≤ n → lexString r = some (v, rest) →
    rest.length < r.length := by
  intro n
  induction n with
  | zero => intro r v rest hn h; cases r with
    | nil => simp [lexString] at h
    | cons _ _ => simp at hn
  | succ n ih =>
    intro r v rest hn h
    unfold lexString at h
    repeat' (split at h)
    all_goals try (simp only [Option.ite_none_right_eq_some, Option.some.injEq, Prod.mk.injEq, ite_self, reduceCtorEq] at h)
    all_goals try (rcases h with ⟨-, -, h⟩)
    all_goals try (rcases h with ⟨-, h⟩)
    all_goals try subst h
    all_goals simp only [List.length_cons] at hn ⊢
    all_goals try omega
    all_goals (rename_i hs; have := ih _ _ _ (by omega) hs; omega)

theorem lexString_lt {r v rest : List Char} (h : lexString r = some (v, rest)) : rest.length < r.length :=
  lexString_lt' r.length r v rest (Nat.le_refl _) h

theorem lexBlock_lt' : ∀ (n : Nat) (r v rest : List Char), r.length ≤ n → lexBlock r = some (v, rest) →
    rest.length < r.length := by
  intro n
  induction n with
  | zero => intro r v rest hn h; cases r with
    | nil => simp [lexBlock] at h
    | cons _ _ => simp at hn
  | succ n ih =>
    intro r v rest hn h
    unfold lexBlock at h
    repeat' (split at h)
    all_goals try (simp only [Option.some.injEq, Prod.mk.injEq, reduceCtorEq] at h)
    all_goals try (rcases h with ⟨-, h⟩)
    all_goals try subst h
    all_goals simp only [List.length_cons] at hn ⊢
    all_goals try omega
    all_goals (rename_i hs; have := ih _ _ _ (by omega) hs; omega)

theorem lexBlock_lt {r v rest : List Char} (h : lexBlock r = some (v, rest)) : rest.length < r.length :=
  lexBlock_lt' r.length r v rest (Nat.le_refl _) h

theorem intSpec_lt (s r : List Char) (h : intSpec s = some r) : r.length < s.length := by
  unfold intSpec at h
  have hl := optStr_len ['-'] s
  cases h0 : matchStr ['0'] (optStr ['-'] s) with
  | some t => simp [h0] at h; subst h; have := matchStr_len _ _ _ h0; simp at this; omega
  | none =>
    simp only [h0] at h
    cases hn : classStep isAsciiNonzeroDigit (optStr ['-'] s) with
    | none => simp [hn] at h
    | some t =>
      simp [hn] at h; subst h
      have := classStep_len _ _ _ hn
      have := dropWhile_len isAsciiDigit t
      omega

theorem tokenSpec_lt (s r : List Char) (h : tokenSpec s = some r) : r.length < s.length := by
  unfold tokenSpec at h
  cases h0 : floatSpec s with
  | none => simp only [h0] at h; exact intSpec_lt _ _ h
  | some t =>
    simp [h0] at h; subst h
    unfold floatSpec at h0
    cases h1 : intSpec s with
    | none => simp [h1] at h0
    | some r1 =>
      simp only [h1, floatTail] at h0
      have := intSpec_lt _ _ h1
      cases h2 : fracSpec r1 with
      | none => simp only [h2] at h0; have := expSpec_len _ _ h0; omega
      | some r2 =>
        simp only [h2] at h0
        have := fracSpec_len _ _ h2
        cases h3 : expSpec r2 with
        | none => simp [h3] at h0; subst h0; omega
        | some r3 => simp [h3] at h0; subst h0; have := expSpec_len _ _ h3; omega

theorem lexNumber_lt {s rest : List Char} {t : Tok} (h : lexNumber s = some (t, rest)) : rest.length < s.length := by
  have h1 : (lexNumber s).map (·.2) = some rest := by rw [h]; rfl
  rw [← numberSpec_eq_lex] at h1
  unfold numberSpec at h1
  cases h2 : tokenSpec s with
  | none => simp [h2] at h1
  | some r =>
    simp only [h2] at h1
    have := tokenSpec_lt _ _ h2
    cases h3 : followPatchedSpec r with
    | some x => simp [h3, negOut] at h1
    | none => simp [h3, negOut] at h1; subst h1; exact this

theorem lexToken_lt {t rest : List Char} {tok : Tok} (h : lexToken t = some (tok, rest)) :
    rest.length < t.length := by
  unfold lexToken at h
  repeat' (split at h)
  all_goals try (simp only [Option.some.injEq, Prod.mk.injEq, reduceCtorEq] at h)
  all_goals try (rcases h with ⟨-, h⟩)
  all_goals try subst h
  all_goals simp only [List.length_cons] at ⊢
  all_goals try omega
  · have := nameOf_len ‹List Char›; omega
  · have := lexNumber_lt h; simpa using this
  · rename_i hs; have := lexBlock_lt hs; omega
  · rename_i hs; have := lexString_lt hs; omega

-- ------------------------------------------------------------------ the total token stream

theorem skipN_len (n : Nat) (s : List Char) : (skipN n s).length ≤ s.length := by
  induction n generalizing s with
  | zero => exact Nat.le_refl _
  | succ n ih =>
    cases s with
    | nil => exact Nat.le_refl _
    | cons c r =>
      simp only [skipN]
      split
      · have := ih r; simp; omega
      · split
        · have := ih (dropComment r); have := dropComment_len r; simp; omega
        · exact Nat.le_refl _

theorem skipI_len (s : List Char) : (skipI s).length ≤ s.length := skipN_len _ _

/-- a token the lexer never produces and the parser never accepts -/
def bad : Tok := .punct '?'

/-- the tokens of `s`; `bad` marks the place where lexing fails -/
def toks (s : List Char) : List Tok :=
  match h : skipI s with
  | [] => []
  | c :: t =>
    match h2 : lexToken (c :: t) with
    | some (tok, rest) => tok :: toks rest
    | none => [bad]
termination_by s.length
decreasing_by
  have h1 := lexToken_lt h2
  have h3 : (skipI s).length ≤ s.length := skipI_len s
  rw [h] at h3
  omega

theorem toks_nil {s : List Char} (h : skipI s = []) : toks s = [] := by
  rw [toks]; split
  · rfl
  · rename_i h'; rw [h] at h'; cases h'

theorem toks_cons {s t rest : List Char} {c : Char} {tok : Tok} (h : skipI s = c :: t)
    (h2 : lexToken (c :: t) = some (tok, rest)) : toks s = tok :: toks rest := by
  rw [toks]; split
  · rename_i h'; rw [h] at h'; cases h'
  · rename_i c' t' h'
    rw [h] at h'; cases h'
    split
    · rename_i tok' rest' h3; rw [h2] at h3; cases h3; rfl
    · rename_i h3; rw [h2] at h3; cases h3

theorem toks_bad {s t : List Char} {c : Char} (h : skipI s = c :: t) (h2 : lexToken (c :: t) = none) :
    toks s = [bad] := by
  rw [toks]; split
  · rename_i h'; rw [h] at h'; cases h'
  · rename_i c' t' h'
    rw [h] at h'; cases h'
    split
    · rename_i tok' rest' h3; rw [h2] at h3; cases h3
    · rfl

-- ------------------------------------------------------------------ skipping

theorem skipN_stable (n : Nat) (s : List Char) (hn : s.length ≤ n) : skipN (n + 1) s = skipN n s := by
  induction n generalizing s with
  | zero => cases s with
    | nil => rfl
    | cons _ _ => simp at hn
  | succ n ih =>
    cases s with
    | nil => rfl
    | cons c r =>
      simp only [List.length_cons] at hn
      rw [skipN, skipN]
      split
      · exact ih r (by omega)
      · split
        · exact ih _ (by have := dropComment_len r; omega)
        · rfl

theorem skipN_le (n m : Nat) (s : List Char) (hn : s.length ≤ n) (hm : n ≤ m) : skipN m s = skipN n s := by
  induction hm with
  | refl => rfl
  | step h ih => have : n ≤ _ := h; rw [skipN_stable _ s (by omega), ih]

theorem skipI_nil : skipI [] = [] := rfl

theorem skipI_cons (c : Char) (r : List Char) :
    skipI (c :: r) = if isIgnoredChar c then skipI r else if c = '#' then skipI (dropComment r) else c :: r := by
  simp only [skipI, List.length_cons, skipN]
  split
  · rfl
  · split
    · exact skipN_le _ _ _ (Nat.le_refl _) (dropComment_len r)
    · rfl

/-- a text that begins with a token (or is empty): nothing to skip -/
def TokStart (s : List Char) : Prop := skipI s = s

theorem tokStart_nil : TokStart [] := rfl

theorem tokStart_cons {c : Char} {r : List Char} (h1 : isIgnoredChar c = false) (h2 : c ≠ '#') :
    TokStart (c :: r) := by
  simp [TokStart, skipI_cons, h1, h2]

theorem tokStart_skipI (s : List Char) : TokStart (skipI s) := by
  unfold TokStart
  induction hn : s.length using Nat.strongRecOn generalizing s with
  | _ n ih =>
    cases s with
    | nil => rfl
    | cons c r =>
      rw [skipI_cons]
      simp only [List.length_cons] at hn
      split
      · exact ih r.length (by omega) r rfl
      · split
        · exact ih _ (by have := dropComment_len r; omega) _ rfl
        · rename_i h1 h2; exact tokStart_cons (by simpa using h1) h2

theorem toks_skipI (s : List Char) : toks (skipI s) = toks s := by
  have h := tokStart_skipI s
  cases hs : skipI s with
  | nil => rw [toks_nil (by rw [skipI_nil]), toks_nil hs]
  | cons c t =>
    rw [hs] at h
    cases h2 : lexToken (c :: t) with
    | none => rw [toks_bad h h2, toks_bad hs h2]
    | some x => obtain ⟨tok, rest⟩ := x; rw [toks_cons h h2, toks_cons hs h2]

theorem tokStart_head {c : Char} {r : List Char} (h : TokStart (c :: r)) : isIgnoredChar c = false ∧ c ≠ '#' := by
  unfold TokStart at h
  rw [skipI_cons] at h
  have hl := skipI_len r
  have hl2 := skipI_len (dropComment r)
  have hl3 := dropComment_len r
  constructor
  · cases hi : isIgnoredChar c with
    | false => rfl
    | true => rw [hi, if_pos rfl] at h; have := congrArg List.length h; simp at this; omega
  · intro hc
    cases hi : isIgnoredChar c with
    | false =>
      subst hc
      rw [hi] at h
      simp only [Bool.false_eq_true, if_false, if_true] at h
      have := congrArg List.length h; simp at this; omega
    | true => rw [hi, if_pos rfl] at h; have := congrArg List.length h; simp at this; omega

-- ------------------------------------------------------------------ `tokens` through `toks`

/-- the continuation of `lexAll` after one token -/
def contTok (f : Nat) : Option (Tok × List Char) → Option (List Tok)
  | some (t, rest) => (lexAll f rest).map (t :: ·)
  | none => none

theorem lexAll_cons (f : Nat) (c : Char) (r : List Char) : lexAll (f+1) (c :: r) =
    if isIgnoredChar c then lexAll f r
    else if c = '#' then lexAll f (dropComment r)
    else contTok f (lexToken (c :: r)) := by
  show (match (f+1), (c :: r) with
      | 0, _ => none
      | _ + 1, [] => some []
      | f + 1, c :: r =>
        if isIgnoredChar c then lexAll f r
        else if c = '#' then lexAll f (dropComment r)
        else
          match lexToken (c :: r) with
          | some (t, rest) => (lexAll f rest).map (t :: ·)
          | none => none) = _
  cases h : lexToken (c :: r) with
  | none => simp only [h, contTok]
  | some p => obtain ⟨t, rest⟩ := p; simp only [h, contTok]

theorem contTok_mono (f : Nat) (ih : ∀ s ts, lexAll f s = some ts → lexAll (f + 1) s = some ts)
    (x : Option (Tok × List Char)) (ts : List Tok) (h : contTok f x = some ts) : contTok (f + 1) x = some ts := by
  cases x with
  | none => exact h
  | some p =>
    obtain ⟨t, rest⟩ := p
    simp only [contTok, Option.map_eq_some_iff] at h ⊢
    obtain ⟨ts', h1, h2⟩ := h
    exact ⟨ts', ih _ _ h1, h2⟩

theorem lexAll_mono (f : Nat) : ∀ (s : List Char) (ts : List Tok), lexAll f s = some ts → lexAll (f + 1) s = some ts := by
  induction f with
  | zero => intro s ts h; cases h
  | succ f ih =>
    intro s ts h
    cases s with
    | nil => exact h
    | cons c r =>
      rw [lexAll_cons] at h ⊢
      split
      · rename_i hc; rw [if_pos hc] at h; exact ih _ _ h
      · rename_i hc; rw [if_neg hc] at h
        split
        · rename_i hc2; rw [if_pos hc2] at h; exact ih _ _ h
        · rename_i hc2; rw [if_neg hc2] at h
          exact contTok_mono f ih _ _ h

theorem lexAll_mono_le (f g : Nat) (hfg : f ≤ g) (s : List Char) (ts : List Tok) (h : lexAll f s = some ts) :
    lexAll g s = some ts := by
  induction hfg with
  | refl => exact h
  | step _ ih => exact lexAll_mono _ _ _ ih

theorem lexToken_ne_bad {t rest : List Char} {tok : Tok} (h : lexToken t = some (tok, rest)) : tok ≠ bad := by
  unfold lexToken at h
  repeat' (split at h)
  all_goals try (simp only [Option.some.injEq, Prod.mk.injEq, reduceCtorEq] at h)
  all_goals try (rcases h with ⟨h, -⟩)
  all_goals try subst h
  all_goals try (intro hb; cases hb; done)
  · intro hb; unfold bad at hb; cases hb; rename_i hp; exact absurd hp (by decide)
  · intro hb; subst hb
    rw [lexNumber_eq] at h
    simp only [lexNumber'] at h
    repeat' (split at h)
    all_goals try (simp only [Option.some.injEq, Prod.mk.injEq, reduceCtorEq, bad, false_and] at h)

theorem toks_of_lexAll : ∀ (f : Nat) (s : List Char) (ts : List Tok), lexAll f s = some ts →
    toks s = ts ∧ bad ∉ ts := by
  intro f
  induction f with
  | zero => intro s ts h; cases h
  | succ f ih =>
    intro s ts h
    cases s with
    | nil => cases h; exact ⟨toks_nil rfl, by simp⟩
    | cons c r =>
      rw [lexAll_cons] at h
      rw [← toks_skipI, skipI_cons]
      split at h
      · rename_i hc; rw [if_pos hc, toks_skipI]; exact ih _ _ h
      · rename_i hc; rw [if_neg hc]
        split at h
        · rename_i hc2; rw [if_pos hc2, toks_skipI]; exact ih _ _ h
        · rename_i hc2; rw [if_neg hc2]
          have hts : TokStart (c :: r) := tokStart_cons (by simpa using hc) hc2
          cases hl : lexToken (c :: r) with
          | none => rw [hl] at h; cases h
          | some x =>
            obtain ⟨t, rest⟩ := x
            rw [hl] at h
            simp only [contTok, Option.map_eq_some_iff] at h
            obtain ⟨ts', h1, rfl⟩ := h
            obtain ⟨i1, i2⟩ := ih _ _ h1
            rw [toks_cons hts hl, i1]
            refine ⟨rfl, ?_⟩
            intro hm
            rcases List.mem_cons.1 hm with e | e
            · exact lexToken_ne_bad hl e.symm
            · exact i2 e

theorem lexAll_of_toks (s : List Char) (h : bad ∉ toks s) : lexAll (s.length + 1) s = some (toks s) := by
  induction hn : s.length using Nat.strongRecOn generalizing s with
  | _ n ih =>
    cases s with
    | nil => rw [toks_nil rfl]; rfl
    | cons c r =>
      simp only [List.length_cons] at hn
      subst hn
      rw [lexAll_cons]
      rw [← toks_skipI, skipI_cons] at h ⊢
      by_cases hc : isIgnoredChar c = true
      · rw [if_pos hc, toks_skipI] at h
        rw [if_pos hc, if_pos hc, toks_skipI]; exact ih r.length (by omega) r h rfl
      · rw [if_neg hc] at h
        rw [if_neg hc, if_neg hc]
        by_cases hc2 : c = '#'
        · rw [if_pos hc2, toks_skipI] at h
          rw [if_pos hc2, if_pos hc2, toks_skipI]
          have hl := dropComment_len r
          exact lexAll_mono_le _ _ (by omega) _ _ (ih _ (by omega) _ h rfl)
        · rw [if_neg hc2] at h
          rw [if_neg hc2, if_neg hc2]
          have hts : TokStart (c :: r) := tokStart_cons (by simpa using hc) hc2
          cases hl : lexToken (c :: r) with
          | none => rw [toks_bad hts hl] at h; exact absurd (by simp) h
          | some x =>
            obtain ⟨t, rest⟩ := x
            rw [toks_cons hts hl] at h ⊢
            have hlt := lexToken_lt hl
            simp only [List.length_cons] at hlt
            have h' : bad ∉ toks rest := fun hm => h (List.mem_cons_of_mem _ hm)
            have := lexAll_mono_le _ _ (by omega : rest.length + 1 ≤ r.length + 1) _ _ (ih _ (by omega) _ h' rfl)
            simp [contTok, this]

/-- `tokens` in terms of the total stream: a text is a token sequence iff `bad` does not occur -/
theorem tokens_some (s : List Char) (hb : bad ∉ toks s) : tokens s = some (toks s) := lexAll_of_toks s hb

theorem tokens_none (s : List Char) (hb : bad ∈ toks s) : tokens s = none := by
  cases ht : tokens s with
  | none => rfl
  | some ts => obtain ⟨h1, h2⟩ := toks_of_lexAll _ _ _ ht; rw [h1] at hb; exact absurd hb h2
