/-
  C09 — OverlappingFieldsCanBeMerged (repaired in one point: an inline fragment WITHOUT type condition
  files its fields under the `on_type` of the enclosing selection; the pinned behaviour, `None`, is the
  toggle `overlapUntypedInlineKeyedNone`) is SOUND for §5.3.2 Field Selection Merging (`overlap_sound`):
  `FindConflicts::find` files, one after the other, the fields the reference validator's
  `fieldsInSet` collects (`findConflicts_eq`, `flat_rel`: same recursion, same fuel, same visited
  set); a report means two collected fields with the same `on_type` and response key that differ in
  name or arguments (`errs_conf`), which the reference validator refuses to merge (`conf_spec`).
-/
import AGV.Lemmas.ValidateValues
set_option linter.unusedSectionVars false
set_option linter.unusedSimpArgs false
namespace AGV.Lemmas.ValidateOverlap
open AGV.Core AGV.Model.Validate

/-- the fields `FindConflicts::find` meets, in order, with the `on_type` it files them under; the
    second component is the `visited` set afterwards -/
def flatM (d : Doc) : Nat → Option String → List Sel → List String → List OutField × List String
  | 0, _, _, seen => ([], seen)
  | fuel + 1, cond, sels, seen =>
    sels.foldl (fun acc s =>
      match s with
      | .field al n args _ _ _ => (acc.1 ++ [{ cond, key := al.getD n, name := n, args }], acc.2)
      | .inline c _ ss _ => (acc.1 ++ (flatM d fuel (inlineCond false cond c) ss acc.2).1, (flatM d fuel (inlineCond false cond c) ss acc.2).2)
      | .spread n _ _ =>
        match d.frag? n with
        | some f =>
          if acc.2.contains n then acc
          else (acc.1 ++ (flatM d fuel (some f.cond) f.sels (n :: acc.2)).1, (flatM d fuel (some f.cond) f.sels (n :: acc.2)).2)
        | none => acc) ([], seen)

def addOne (st : FCState) (o : OutField) : FCState := addOutput st o.cond o.key o.name o.args
def addAll (st : FCState) (fs : List OutField) : FCState := fs.foldl addOne st

theorem addOutput_visited (st : FCState) (v : List String) (c k n a) :
    addOutput { st with visited := v } c k n a = { addOutput st c k n a with visited := v } := by
  unfold addOutput
  simp only []
  split <;> rfl

theorem addAll_visited (st : FCState) (v : List String) (fs : List OutField) :
    addAll { st with visited := v } fs = { addAll st fs with visited := v } := by
  induction fs generalizing st with
  | nil => rfl
  | cons o fs ih =>
    simp only [addAll, List.foldl_cons, addOne] at ih ⊢
    rw [addOutput_visited, ih]

theorem addOutput_visited_eq (st : FCState) (c k n a) : (addOutput st c k n a).visited = st.visited := by
  unfold addOutput; split <;> rfl

theorem addAll_visited_eq (st : FCState) (fs : List OutField) : (addAll st fs).visited = st.visited := by
  induction fs generalizing st with
  | nil => rfl
  | cons o fs ih => simp only [addAll, List.foldl_cons, addOne] at ih ⊢; rw [ih, addOutput_visited_eq]

theorem addAll_append (st : FCState) (a b : List OutField) : addAll st (a ++ b) = addAll (addAll st a) b := by
  simp [addAll, List.foldl_append]

/-- the state after the fields `acc.1` were filed and `acc.2` fragments visited -/
def after (st0 : FCState) (acc : List OutField × List String) : FCState := { addAll st0 acc.1 with visited := acc.2 }

theorem after_visited (st0 acc) : (after st0 acc).visited = acc.2 := rfl

/-- `FindConflicts::find` files the fields of `flatM` one after the other -/
theorem findConflicts_eq (d : Doc) (fuel : Nat) (cond : Option String) (sels : List Sel) (st : FCState) :
    findConflicts d false fuel cond sels st =
      { addAll st (flatM d fuel cond sels st.visited).1 with visited := (flatM d fuel cond sels st.visited).2 } := by
  induction fuel generalizing cond sels st with
  | zero => simp [findConflicts, flatM, addAll]
  | succ fuel ih =>
    rw [findConflicts, flatM]
    -- generalise the accumulators
    suffices h : ∀ (st' : FCState) (acc : List OutField × List String), st' = after st acc →
        sels.foldl (fun st s =>
          match s with
          | .field al n args _ _ _ => addOutput st cond (al.getD n) n args
          | .inline c _ ss _ => findConflicts d false fuel (inlineCond false cond c) ss st
          | .spread n _ _ =>
            match d.frag? n with
            | some f =>
              if st.visited.contains n then st
              else findConflicts d false fuel (some f.cond) f.sels { st with visited := n :: st.visited }
            | none => st) st' =
        after st (sels.foldl (fun acc s =>
          match s with
          | .field al n args _ _ _ => (acc.1 ++ [{ cond, key := al.getD n, name := n, args }], acc.2)
          | .inline c _ ss _ => (acc.1 ++ (flatM d fuel (inlineCond false cond c) ss acc.2).1, (flatM d fuel (inlineCond false cond c) ss acc.2).2)
          | .spread n _ _ =>
            match d.frag? n with
            | some f =>
              if acc.2.contains n then acc
              else (acc.1 ++ (flatM d fuel (some f.cond) f.sels (n :: acc.2)).1, (flatM d fuel (some f.cond) f.sels (n :: acc.2)).2)
            | none => acc) acc) by
      exact h st ([], st.visited) (by simp [after, addAll])
    induction sels with
    | nil => intro st' acc h; simpa using h
    | cons s sels ihs =>
      intro st' acc h
      simp only [List.foldl_cons]
      apply ihs
      subst h
      cases s with
      | field al n args ds ss p =>
        simp only [after, addAll_append]
        simp only [addAll, List.foldl_cons, List.foldl_nil, addOne]
        rw [addOutput_visited]
      | inline c ds ss p =>
        simp only []
        rw [ih]
        simp only [after, addAll_append, addAll_visited]
      | spread n ds p =>
        simp only []
        cases hf : d.frag? n with
        | none => rfl
        | some f =>
          simp only [after_visited]
          by_cases hc : n ∈ acc.2
          · simp [hc]
          · simp only [List.contains_eq_mem, hc, decide_false, Bool.false_eq_true, if_false]
            rw [ih]
            simp only [after, addAll_append, addAll_visited]

end AGV.Lemmas.ValidateOverlap

namespace AGV.Lemmas.ValidateOverlap
open AGV.Core AGV.Model.Validate
open AGV.Spec.Validate (dvEq argsEqual FInfo fieldsInSet setCanMerge)

/-- what makes `add_output` report: same `on_type` and response key, and a different field name,
    a different number of arguments, or an argument of the first without an equal partner -/
def Conf (a b : OutField) : Prop :=
  a.cond = b.cond ∧ a.key = b.key ∧
    (a.name ≠ b.name ∨ a.args.length ≠ b.args.length
      ∨ a.args.any (fun x => match b.args.find? (·.1 = x.1) with | some y => !(dvEq x.2 y.2) | none => true) = true)

theorem addOne_inv (st : FCState) (o : OutField) (seenF : List OutField)
    (h1 : ∀ x ∈ st.outputs, x ∈ seenF) (h2 : st.errs ≠ [] → ∃ a ∈ seenF, ∃ b ∈ seenF, Conf a b) :
    (∀ x ∈ (addOne st o).outputs, x ∈ seenF ++ [o])
    ∧ ((addOne st o).errs ≠ [] → ∃ a ∈ seenF ++ [o], ∃ b ∈ seenF ++ [o], Conf a b) := by
  unfold addOne addOutput
  cases hf : st.outputs.find? (fun p => p.cond == o.cond && p.key == o.key) with
  | none =>
    simp only []
    refine ⟨?_, ?_⟩
    · intro x hx
      rcases List.mem_append.mp hx with hx | hx
      · exact List.mem_append_left _ (h1 x hx)
      · exact List.mem_append_right _ hx
    · intro he
      obtain ⟨a, ha, b, hb, hc⟩ := h2 he
      exact ⟨a, List.mem_append_left _ ha, b, List.mem_append_left _ hb, hc⟩
  | some prev =>
    simp only []
    have hprev : prev ∈ seenF := h1 prev (List.mem_of_find?_eq_some hf)
    have hkey : prev.cond = o.cond ∧ prev.key = o.key := by
      have := List.find?_some hf
      simpa using this
    refine ⟨fun x hx => List.mem_append_left _ (h1 x hx), ?_⟩
    intro he
    by_cases hold : st.errs = []
    · refine ⟨prev, List.mem_append_left _ hprev, o, List.mem_append_right _ (by simp), hkey.1, hkey.2, ?_⟩
      simp only [hold, List.nil_append] at he
      by_cases hn : prev.name = o.name
      · by_cases hl : prev.args.length = o.args.length
        · right; right
          simp only [hn, hl, bne_self_eq_false, Bool.false_eq_true, if_false, List.nil_append] at he
          split at he
          · assumption
          · exact absurd rfl he
        · exact Or.inr (Or.inl hl)
      · exact Or.inl hn
    · obtain ⟨a, ha, b, hb, hc⟩ := h2 hold
      exact ⟨a, List.mem_append_left _ ha, b, List.mem_append_left _ hb, hc⟩

theorem addAll_inv (fs : List OutField) (st : FCState) (seenF : List OutField)
    (h1 : ∀ x ∈ st.outputs, x ∈ seenF) (h2 : st.errs ≠ [] → ∃ a ∈ seenF, ∃ b ∈ seenF, Conf a b) :
    (addAll st fs).errs ≠ [] → ∃ a ∈ seenF ++ fs, ∃ b ∈ seenF ++ fs, Conf a b := by
  induction fs generalizing st seenF with
  | nil => simpa [addAll] using h2
  | cons o fs ih =>
    have := addOne_inv st o seenF h1 h2
    have h := ih (addOne st o) (seenF ++ [o]) this.1 this.2
    simpa [addAll, List.append_assoc] using h

/-- a report of the implemented rule on a selection set comes from two collected fields in conflict -/
theorem errs_conf (d : Doc) (fuel : Nat) (ss : List Sel) (k : Model.Validate.Kind)
    (hk : k ∈ (findConflicts d false fuel none ss {}).errs) :
    ∃ a ∈ (flatM d fuel none ss []).1, ∃ b ∈ (flatM d fuel none ss []).1, Conf a b := by
  rw [findConflicts_eq] at hk
  have hne : (addAll {} (flatM d fuel none ss []).1).errs ≠ [] := by
    intro h; simp only [] at hk; rw [h] at hk; cases hk
  have := addAll_inv (flatM d fuel none ss []).1 {} [] (by intro x hx; cases hx) (by intro h; exact absurd rfl h) hne
  simpa using this

end AGV.Lemmas.ValidateOverlap

namespace AGV.Lemmas.ValidateOverlap
open AGV.Core AGV.Model.Validate AGV.Lemmas.ValidateWalk
open AGV.Spec.Validate (dvEq argsEqual FInfo fieldsInSet setCanMerge)

theorem foldl_rel {α β γ : Type} (R : β → γ → Prop) (P : α → Prop) (f : β → α → β) (g : γ → α → γ)
    (hstep : ∀ b c a, P a → R b c → R (f b a) (g c a)) (l : List α) (hl : ∀ a ∈ l, P a) (b : β) (c : γ) (h : R b c) :
    R (l.foldl f b) (l.foldl g c) := by
  induction l generalizing b c with
  | nil => exact h
  | cons a l ih =>
    simp only [List.foldl_cons]
    exact ih (fun x hx => hl x (by simp [hx])) _ _ (hstep b c a (hl a (by simp)) h)

theorem mem_flatSels_of (ss : List Sel) (s x : Sel) (hs : s ∈ ss) (hx : x ∈ flatSel s) : x ∈ flatSels ss := by
  induction ss with
  | nil => cases hs
  | cons a as ih =>
    simp only [flatSels, List.mem_append]
    rcases List.mem_cons.mp hs with rfl | h
    · exact Or.inl hx
    · exact Or.inr (ih h)

/-- a collected field of the implementation against one of the reference validator: same response
    key, name and arguments; filed under the `on_type` of the set and selected on its parent type, or
    filed under a type condition and selected on that type -/
def FRel (c0 p0 : Option String) (o : OutField) (f : FInfo) : Prop :=
  o.key = f.key ∧ o.name = f.name ∧ o.args = f.args ∧
    ((o.cond = c0 ∧ f.parent = p0) ∨ ∃ t, o.cond = some t ∧ f.parent = some t)

theorem FRel_lift (c0 p0 : Option String) (t : String) (o : OutField) (f : FInfo) (h : FRel (some t) (some t) o f) :
    FRel c0 p0 o f := by
  obtain ⟨h1, h2, h3, h4⟩ := h
  refine ⟨h1, h2, h3, Or.inr ?_⟩
  rcases h4 with ⟨h5, h6⟩ | h4
  · exact ⟨t, h5, h6⟩
  · exact h4

/-- the accumulators of the two folds -/
def AccRel (c0 p0 : Option String) (a : List OutField × List String) (b : List FInfo × List String) : Prop :=
  a.2 = b.2 ∧ ∀ o ∈ a.1, ∃ f ∈ b.1, FRel c0 p0 o f

theorem AccRel_append (c0 p0 : Option String) (a : List OutField × List String) (b : List FInfo × List String)
    (x : List OutField × List String) (y : List FInfo × List String)
    (h : AccRel c0 p0 a b) (hxy : x.2 = y.2 ∧ ∀ o ∈ x.1, ∃ f ∈ y.1, FRel c0 p0 o f) :
    AccRel c0 p0 (a.1 ++ x.1, x.2) (b.1 ++ y.1, y.2) := by
  refine ⟨hxy.1, ?_⟩
  intro o ho
  rcases List.mem_append.mp ho with ho | ho
  · obtain ⟨f, hf, hr⟩ := h.2 o ho; exact ⟨f, List.mem_append_left _ hf, hr⟩
  · obtain ⟨f, hf, hr⟩ := hxy.2 o ho; exact ⟨f, List.mem_append_right _ hf, hr⟩

/-- the implementation and the reference validator collect the same fields from a selection set -/
theorem flat_rel (S : VSchema) (d : Doc) (fuel : Nat) :
    ∀ (c0 p0 : Option String) (sels : List Sel) (seen : List String),
      AccRel c0 p0 (flatM d fuel c0 sels seen) (fieldsInSet S d fuel p0 sels seen) := by
  induction fuel with
  | zero => intro c0 p0 sels seen; exact ⟨rfl, by intro o ho; simp [flatM] at ho⟩
  | succ fuel ih =>
    intro c0 p0 sels seen
    rw [flatM, fieldsInSet]
    apply foldl_rel (AccRel c0 p0) (fun _ => True)
    · intro a b s hs hab
      cases s with
      | field al n args ds ss p =>
        have := AccRel_append c0 p0 a b ([{ cond := c0, key := al.getD n, name := n, args := args }], a.2)
          ([{ key := al.getD n, parent := p0, name := n, args := args,
              ty := (p0.bind (fun p => Spec.Validate.fieldType S p n)).map (·.1), sels := ss }], b.2) hab
          ⟨hab.1, by
            intro o ho
            simp only [List.mem_singleton] at ho
            subst ho
            exact ⟨_, List.mem_singleton.mpr rfl, rfl, rfl, rfl, Or.inl ⟨rfl, rfl⟩⟩⟩
        exact this
      | inline c ds ss p =>
        cases c with
        | none =>
          simp only [inlineCond, Bool.false_eq_true, if_false]
          have h := ih c0 p0 ss a.2
          rw [hab.1] at h ⊢
          exact AccRel_append c0 p0 a b _ _ hab ⟨h.1, h.2⟩
        | some t =>
          simp only [inlineCond]
          have h := ih (some t) (some t) ss a.2
          rw [hab.1] at h ⊢
          exact AccRel_append c0 p0 a b _ _ hab ⟨h.1, fun o ho => by
            obtain ⟨f, hf, hr⟩ := h.2 o ho; exact ⟨f, hf, FRel_lift c0 p0 t o f hr⟩⟩
      | spread n ds p =>
        simp only [Doc.frag?]
        rw [hab.1]
        cases hf : d.frags.find? (·.name = n) with
        | none =>
          simp only []
          split <;> exact ⟨by rw [← hab.1], hab.2⟩
        | some f =>
          simp only []
          by_cases hc : b.2.contains n = true
          · simp only [hc, if_true]; exact ⟨by rw [← hab.1], hab.2⟩
          · simp only [hc, Bool.false_eq_true, if_false]
            have h := ih (some f.cond) (some f.cond) f.sels (n :: b.2)
            exact AccRel_append c0 p0 a b _ _ hab ⟨h.1, fun o ho => by
              obtain ⟨g, hg, hr⟩ := h.2 o ho; exact ⟨g, hg, FRel_lift c0 p0 f.cond o g hr⟩⟩
    · intro _ _; trivial
    · exact ⟨rfl, by intro o ho; cases ho⟩

end AGV.Lemmas.ValidateOverlap

namespace AGV.Lemmas.ValidateOverlap
open AGV.Core AGV.Model.Validate AGV.Lemmas.ValidateWalk
open AGV.Spec.Validate (dvEq argsEqual FInfo fieldsInSet setCanMerge)

theorem argsEqual_false_of (a b : List (String × DValue))
    (h : a.length ≠ b.length
      ∨ a.any (fun x => match b.find? (·.1 = x.1) with | some y => !(dvEq x.2 y.2) | none => true) = true) :
    argsEqual a b = false := by
  unfold argsEqual
  rcases h with h | h
  · simp [h]
  · obtain ⟨x, hx, hm⟩ := List.any_eq_true.mp h
    rw [Bool.and_eq_false_iff]
    right
    rw [List.all_eq_false]
    refine ⟨x, hx, ?_⟩
    cases hf : b.find? (·.1 = x.1) with
    | none => simp
    | some y => simp only [hf] at hm ⊢; simpa using hm

theorem setCanMerge_false (S : VSchema) (d : Doc) (fuel : Nat) (L : List FInfo) (fa fb : FInfo) (ha : fa ∈ L) (hb : fb ∈ L)
    (hk : fa.key = fb.key) (hp : fa.parent = fb.parent) (hne : (fa.name == fb.name && argsEqual fa.args fb.args) = false) :
    setCanMerge S d (fuel + 1) true L = false := by
  unfold setCanMerge
  rw [List.all_eq_false]
  refine ⟨fa, ha, ?_⟩
  rw [Bool.not_eq_true, List.all_eq_false]
  refine ⟨fb, hb, ?_⟩
  simp only [hk, bne_self_eq_false, Bool.false_eq_true, if_false, hp, beq_self_eq_true, Bool.true_or, Bool.and_true,
    Bool.not_true, Bool.false_or, hne, Bool.and_false, Bool.false_and]
  simp

/-- two collected fields in conflict are two fields the reference validator refuses to merge -/
theorem conf_spec (S : VSchema) (d : Doc) (fuel : Nat) (p0 : Option String) (L : List FInfo) (a b : OutField)
    (hc : Conf a b) (ha : ∃ f ∈ L, FRel none p0 a f) (hb : ∃ f ∈ L, FRel none p0 b f) :
    setCanMerge S d (fuel + 1) true L = false := by
  obtain ⟨fa, hfa, ka, na, aa, pa⟩ := ha
  obtain ⟨fb, hfb, kb, nb, ab, pb⟩ := hb
  obtain ⟨hcond, hkey, hdiff⟩ := hc
  have hp : fa.parent = fb.parent := by
    rcases pa with ⟨c1, p1⟩ | ⟨t, c1, p1⟩ <;> rcases pb with ⟨c2, p2⟩ | ⟨t', c2, p2⟩
    · rw [p1, p2]
    · rw [c1, c2] at hcond; cases hcond
    · rw [c1, c2] at hcond; cases hcond
    · rw [c1, c2] at hcond; cases hcond; rw [p1, p2]
  apply setCanMerge_false S d fuel L fa fb hfa hfb (by rw [← ka, ← kb, hkey]) hp
  rw [← na, ← nb, ← aa, ← ab]
  rcases hdiff with h | h | h
  · simp [h]
  · simp [argsEqual_false_of _ _ (Or.inl h)]
  · simp [argsEqual_false_of _ _ (Or.inr h)]

/-- a report of the rule at a selection set makes the reference validator refuse the same set,
    whatever parent type it is checked under -/
theorem report_spec (S : VSchema) (d : Doc) (fuel : Nat) (p0 : Option String)
    (ss : List Sel) (k : Model.Validate.Kind) (hk : k ∈ (findConflicts d false (fuel + 1) none ss {}).errs) :
    setCanMerge S d (fuel + 1) true (fieldsInSet S d (fuel + 1) p0 ss []).1 = false := by
  obtain ⟨a, ha, b, hb, hc⟩ := errs_conf d (fuel + 1) ss k hk
  have hrel := flat_rel S d (fuel + 1) none p0 ss []
  exact conf_spec S d fuel p0 _ a b hc (hrel.2 a ha) (hrel.2 b hb)

end AGV.Lemmas.ValidateOverlap

namespace AGV.Lemmas.ValidateOverlap
open AGV.Core AGV.Model.Validate AGV.Lemmas.ValidateWalk AGV.Lemmas.ValidateSpecNodes AGV.Lemmas.ValidateRules
open AGV.Spec.Validate (FInfo fieldsInSet setCanMerge Node allNodes fieldType rootType violates_FieldSelectionMerging)

mutual
theorem flatSel_trans : (s : Sel) → ∀ y ∈ flatSel s, ∀ x ∈ flatSel y, x ∈ flatSel s
  | .field al n args ds ss p => by
    intro y hy x hx
    simp only [flatSel, List.mem_cons] at hy ⊢
    rcases hy with rfl | hy
    · simpa [flatSel] using hx
    · exact Or.inr (flatSels_trans ss y hy x hx)
  | .spread n ds p => by
    intro y hy x hx
    simp only [flatSel, List.mem_singleton] at hy
    subst hy; exact hx
  | .inline c ds ss p => by
    intro y hy x hx
    simp only [flatSel, List.mem_cons] at hy ⊢
    rcases hy with rfl | hy
    · simpa [flatSel] using hx
    · exact Or.inr (flatSels_trans ss y hy x hx)
theorem flatSels_trans : (ss : List Sel) → ∀ y ∈ flatSels ss, ∀ x ∈ flatSel y, x ∈ flatSels ss
  | [] => by intro y hy; simp [flatSels] at hy
  | s :: ss => by
    intro y hy x hx
    simp only [flatSels, List.mem_append] at hy ⊢
    rcases hy with hy | hy
    · exact Or.inl (flatSel_trans s y hy x hx)
    · exact Or.inr (flatSels_trans ss y hy x hx)
end

/-- §5.3.2 for one selection set under a parent type -/
def specCheck (S : VSchema) (d : Doc) (parent : Option String) (ss : List Sel) : Bool :=
  !(setCanMerge S d (Spec.Validate.docFuel d) true (fieldsInSet S d (Spec.Validate.docFuel d) parent ss []).1)

/-- §5.3.2 for the sub-selection of one node -/
def nodeCheck (S : VSchema) (d : Doc) (n : Node) : Bool :=
  match n with
  | .field p _ f _ _ ss => !ss.isEmpty && specCheck S d ((p.bind (fun p => fieldType S p f)).map (·.1.base)) ss
  | .inline p c _ ss => specCheck S d (match c with | some t => some t | none => p) ss
  | _ => false

theorem merging_eq (S : VSchema) (d : Doc) :
    violates_FieldSelectionMerging S d =
      (d.ops.any (fun o => specCheck S d (rootType S o.ty) o.sels) || d.frags.any (fun f => specCheck S d (some f.cond) f.sels)
        || (allNodes S d).any (nodeCheck S d)) := by
  rfl

end AGV.Lemmas.ValidateOverlap

namespace AGV.Lemmas.ValidateOverlap
open AGV.Core AGV.Model.Validate AGV.Lemmas.ValidateWalk AGV.Lemmas.ValidateSpecNodes AGV.Lemmas.ValidateRules
open AGV.Lemmas.ValidateGraph
open AGV.Spec.Validate (FInfo fieldsInSet setCanMerge Node allNodes fieldType rootType violates_FieldSelectionMerging)

theorem notSet_walkArgs (S : VSchema) (st defs args) (e : Evt) (he : e ∈ walkArgs S {} st defs args) (ss : List Sel) :
    e.ev ≠ .enterSet ss := by
  rw [mem_walkArgs] at he
  obtain ⟨a, _, rfl | rfl | rfl⟩ := he <;> simp [Model.Validate.mk]

theorem notSet_walkDirs (S : VSchema) (st ds) (e : Evt) (he : e ∈ walkDirs S {} st ds) (ss : List Sel) :
    e.ev ≠ .enterSet ss := by
  rw [mem_walkDirs] at he
  obtain ⟨dr, _, rfl | h | rfl⟩ := he
  · simp [Model.Validate.mk]
  · exact notSet_walkArgs S _ _ _ e h ss
  · simp [Model.Validate.mk]

theorem set_of_setEvents (st : Stack) (ss' ss : List Sel) (e : Evt) (he : e ∈ setEvents st ss') (h : e.ev = .enterSet ss) :
    ss = ss' ∧ ss' ≠ [] := by
  cases ss' with
  | nil => simp [setEvents] at he
  | cons x xs =>
    simp only [setEvents, List.mem_cons, List.not_mem_nil, or_false] at he
    rcases he with rfl | rfl
    · simp only [Model.Validate.mk, Ev.enterSet.injEq] at h; exact ⟨h.symm, by simp⟩
    · simp [Model.Validate.mk] at h

/-- the selection sets `enter_selection_set` is called with: the root set of a fragment or of an
    operation, or the non-empty sub-selection of a visited field or inline fragment -/
theorem enterSet_cases (S : VSchema) (d : Doc) (e : Evt) (he : e ∈ events S {} d) (ss : List Sel) (h : e.ev = .enterSet ss) :
    (∃ f ∈ d.frags, ss = f.sels) ∨ (∃ o ∈ d.ops, ss = o.sels)
    ∨ (∃ v ∈ docVisits S d, ss ≠ [] ∧ ((∃ al n args ds p, v.2 = .field al n args ds ss p) ∨ (∃ c ds p, v.2 = .inline c ds ss p))) := by
  rw [mem_events] at he
  rcases he with rfl | rfl | ⟨f, hf, he⟩ | ⟨o, ho, he⟩ | ⟨v, hv, he⟩
  · simp [Model.Validate.mk] at h
  · simp [Model.Validate.mk] at h
  · left
    simp only [fragLocal, List.mem_cons, List.mem_append, List.not_mem_nil, or_false] at he
    rcases he with rfl | (he | he) | rfl
    · simp [Model.Validate.mk] at h
    · exact absurd h (notSet_walkDirs S _ _ e he ss)
    · exact ⟨f, hf, (set_of_setEvents _ _ _ e he h).1⟩
    · simp [Model.Validate.mk] at h
  · right; left
    unfold opLocal at he
    cases hroot : rootOf S o.ty with
    | none =>
      simp only [hroot, List.mem_cons, List.mem_append, List.not_mem_nil, or_false] at he
      rcases he with rfl | rfl | rfl <;> simp [Model.Validate.mk] at h
    | some r =>
      simp only [hroot, List.mem_cons, List.mem_append, List.mem_flatMap, List.not_mem_nil, or_false] at he
      rcases he with rfl | ((⟨v, _, rfl | rfl⟩ | he) | he) | rfl
      · simp [Model.Validate.mk] at h
      · simp [Model.Validate.mk] at h
      · simp [Model.Validate.mk] at h
      · exact absurd h (notSet_walkDirs S _ _ e he ss)
      · exact ⟨o, ho, (set_of_setEvents _ _ _ e he h).1⟩
      · simp [Model.Validate.mk] at h
  · right; right
    refine ⟨v, hv, ?_⟩
    obtain ⟨st, sel⟩ := v
    cases sel with
    | field al n args ds ss' p =>
      simp only [localEvents, List.mem_cons, List.mem_append, List.not_mem_nil, or_false] at he
      rcases he with rfl | rfl | ((he | he) | he) | rfl | rfl
      · simp [Model.Validate.mk] at h
      · simp [Model.Validate.mk] at h
      · exact absurd h (notSet_walkArgs S _ _ _ e he ss)
      · exact absurd h (notSet_walkDirs S _ _ e he ss)
      · obtain ⟨h1, h2⟩ := set_of_setEvents _ _ _ e he h
        subst h1
        exact ⟨h2, Or.inl ⟨al, n, args, ds, p, rfl⟩⟩
      · simp [Model.Validate.mk] at h
      · simp [Model.Validate.mk] at h
    | spread n ds p =>
      simp only [localEvents, List.mem_cons, List.mem_append, List.not_mem_nil, or_false] at he
      rcases he with rfl | rfl | he | rfl | rfl
      · simp [Model.Validate.mk] at h
      · simp [Model.Validate.mk] at h
      · exact absurd h (notSet_walkDirs S _ _ e he ss)
      · simp [Model.Validate.mk] at h
      · simp [Model.Validate.mk] at h
    | inline c ds ss' p =>
      simp only [localEvents, List.mem_cons, List.mem_append, List.not_mem_nil, or_false] at he
      rcases he with rfl | rfl | (he | he) | rfl | rfl
      · simp [Model.Validate.mk] at h
      · simp [Model.Validate.mk] at h
      · exact absurd h (notSet_walkDirs S _ _ e he ss)
      · obtain ⟨h1, h2⟩ := set_of_setEvents _ _ _ e he h
        subst h1
        exact ⟨h2, Or.inr ⟨c, ds, p, rfl⟩⟩
      · simp [Model.Validate.mk] at h
      · simp [Model.Validate.mk] at h

/-- OverlappingFieldsCanBeMerged (with condition-less inline fragments filed under the enclosing
    `on_type`) is SOUND w.r.t. §5.3.2 Field Selection Merging: whatever it reports is a conflict for the
    reference validator too (the converse is the defect `overlapKeyedByCondition`). -/
theorem overlap_sound (S : VSchema) (d : Doc) (hs : Served S d) (k : Model.Validate.Kind)
    (hk : k ∈ ruleOverlap {} d (events S {} d)) : violates_FieldSelectionMerging S d = true := by
  obtain ⟨fuel, hfuel⟩ : ∃ f, Spec.Validate.docFuel d = f + 1 := by
    rw [docFuel_eq]
    exact ⟨1 + (d.frags.map (fun f => Spec.Validate.selsSize f.sels + 1)).sum + (d.ops.map (fun o => Spec.Validate.selsSize o.sels + 1)).sum, by omega⟩
  unfold ruleOverlap at hk
  obtain ⟨e, he, hk⟩ := List.mem_flatMap.mp hk
  split at hk
  · rename_i ss hev
    rw [docFuel_model_eq, hfuel] at hk
    have key : ∀ p0, specCheck S d p0 ss = true := by
      intro p0
      unfold specCheck
      rw [hfuel, report_spec S d fuel p0 ss k hk]; rfl
    rw [merging_eq]
    simp only [Bool.or_eq_true, List.any_eq_true]
    rcases enterSet_cases S d e he ss hev with ⟨f, hf, rfl⟩ | ⟨o, ho, rfl⟩ | ⟨v, hv, hne, hsel⟩
    · exact Or.inl (Or.inr ⟨f, hf, key _⟩)
    · exact Or.inl (Or.inl ⟨o, ho, key _⟩)
    · right
      have hmem : v.2 ∈ allSels d := by
        rw [← docSels_served S d hs, ← docVisits_snd]; exact List.mem_map_of_mem hv
      obtain ⟨w, hw, hw2⟩ := (exists_specDocVisits_snd S d (fun s => s = v.2)).mpr ⟨v.2, hmem, rfl⟩
      refine ⟨toNode w, by rw [allNodes_eq]; exact List.mem_map_of_mem hw, ?_⟩
      obtain ⟨p, s⟩ := w
      simp only at hw2
      subst hw2
      rcases hsel with ⟨al, n, args, ds, q, h⟩ | ⟨c, ds, q, h⟩
      · rw [h]
        simp only [toNode, nodeCheck, Bool.and_eq_true, Bool.not_eq_true', List.isEmpty_eq_false_iff]
        exact ⟨hne, key _⟩
      · rw [h]
        simp only [toNode, nodeCheck]
        exact key _
  · cases hk

end AGV.Lemmas.ValidateOverlap
