/-
  The crate's `type_name` / `qualified_type_name` / `create_type_info` (Model/RustTy.lean, repaired)
  compute exactly the reference the declaration means (Spec/RustTy.lean) — for every declared type.
-/
import AGV.Model.RustTy
import AGV.Spec.RustTy

namespace AGV.Lemmas.RustTy
open AGV.Core.RustTy AGV.Core.PAst AGV.Model.RustTy AGV.Spec.RustTy

theorem names_none (t : RTy) : names Defects.none t = (core t, ref t) := by
  induction t with
  | leaf n => simp [names, core, ref, nullable]
  | list k t ih => simp [names, Defects.none, core, ref, nullable] at ih ⊢; simp [ih]
  | option t ih => simp [names, core, ref, nullable, ih]
  | undef t ih => simp [names, core, ref, nullable, ih]
  | ptr k t ih =>
    have e : names Defects.none (.ptr k t) = ((names Defects.none t).1, (names Defects.none t).2) := by
      simp [names, Defects.none]
    rw [e, ih]
    cases h : nullable t <;> simp [core, ref, nullable, h]

theorem typeName_none (t : RTy) : typeName Defects.none t = core t := by
  simp [typeName, names_none]

theorem qualified_none (t : RTy) : qualified Defects.none t = ref t := by
  simp [qualified, names_none]

theorem created_none (t : RTy) : created Defects.none t = ref t := by
  induction t with
  | leaf n => simp [created, ref, core, nullable]
  | list k t _ => simp [created, qualified_none]
  | option t _ => simp [created, typeName_none, ref, core, nullable]
  | undef t _ => simp [created, typeName_none, ref, core, nullable]
  | ptr k t ih =>
    rw [created, ih]
    cases h : nullable t <;> simp [ref, core, nullable, h]

theorem core_not_nonNull (t : RTy) (x : RRef) : core t ≠ .nonNull x := by
  induction t with
  | leaf n => simp [core]
  | list k t _ => simp [core]
  | option t ih => simpa [core] using ih
  | undef t ih => simpa [core] using ih
  | ptr k t ih => simpa [core] using ih

/-- stripping the outer `!` of the reference leaves the core -/
theorem ref_nullable (t : RTy) : (ref t).nullable = core t := by
  unfold ref
  split
  · cases hc : core t with
    | nonNull x => exact absurd hc (core_not_nonNull t x)
    | named n => rfl
    | list x => rfl
  · rfl

theorem ref_option (t : RTy) : ref (.option t) = core t := by simp [ref, nullable, core]
theorem ref_undef (t : RTy) : ref (.undef t) = core t := by simp [ref, nullable, core]
theorem ref_ptr (p : PtrKind) (t : RTy) : ref (.ptr p t) = ref t := by
  cases h : nullable t <;> simp [ref, nullable, core, h]

def setNonNull : PType → PType
  | .named n _ => .named n false
  | .listOf t _ => .listOf t false

theorem setNullable_idem (p : PType) : setNullable (setNullable p) = setNullable p := by
  cases p <;> rfl

theorem setNonNull_setNullable (p : PType) : setNonNull (setNullable p) = setNonNull p := by
  cases p <;> rfl

private theorem toP_aux (t : RTy) :
    toP (core t) = setNullable (ptype t) ∧ toP (.nonNull (core t)) = setNonNull (ptype t) ∧
      ptype t = (if nullable t then setNullable (ptype t) else setNonNull (ptype t)) := by
  induction t with
  | leaf n => simp [core, toP, ptype, setNullable, setNonNull, nullable]
  | list k t ih =>
    obtain ⟨h1, h2, h3⟩ := ih
    have hr : toP (if nullable t then core t else .nonNull (core t)) = ptype t := by
      split
      · rename_i h; rw [h1]; rw [h] at h3; simpa using h3.symm
      · rename_i h; rw [h2]; simp [h] at h3; exact h3.symm
    simp [core, toP, ptype, setNullable, setNonNull, nullable, hr]
  | option t ih =>
    obtain ⟨h1, h2, _⟩ := ih
    simp [core, ptype, nullable, h1, h2, setNullable_idem, setNonNull_setNullable]
  | undef t ih =>
    obtain ⟨h1, h2, _⟩ := ih
    simp [core, ptype, nullable, h1, h2, setNullable_idem, setNonNull_setNullable]
  | ptr k t ih =>
    obtain ⟨h1, h2, h3⟩ := ih
    simp only [core, ptype, nullable]
    exact ⟨h1, h2, h3⟩

theorem toP_ref (t : RTy) : toP (ref t) = ptype t := by
  obtain ⟨h1, h2, h3⟩ := toP_aux t
  unfold ref
  split
  · rename_i h; rw [h1]; rw [h] at h3; simpa using h3.symm
  · rename_i h; rw [h2]; simp [h] at h3; exact h3.symm

end AGV.Lemmas.RustTy
