/-
  Property C13, specification side: the finiteness parameter, selection sets.
-/
import AGV.Lemmas.PegC13SFinS0
namespace AGV.Lemmas.PegX
open AGV.Spec.Lex AGV.Spec.Parse AGV.Core.PAst AGV.Lemmas.SpecVal

def openBrace (r : List Tok) : Option (List Tok) :=
  match r with
  | .punct '{' :: r3 => some r3
  | _ => none

theorem selInline_bind (P : Params) (f : Nat) (tc : Option Name) (r : List Tok) :
    selInline P f tc r = (pDirs P false r).bind fun x => (openBrace x.2).bind fun r3 =>
      (pSelections P f r3).bind fun y => selMore P f (.inline tc x.1 y.1) y.2 := by
  unfold selInline
  cases pDirs P false r with
  | none => rfl
  | some x =>
    obtain ⟨ds, r'⟩ := x
    simp only [Option.bind_some]
    split
    · rename_i ds' r3 heq
      cases heq
      simp only [openBrace, Option.bind_some]
      cases pSelections P f r3 <;> rfl
    · rename_i hn
      have : openBrace r' = none := by
        unfold openBrace
        split
        · rename_i r3; exact (hn ds r3 rfl).elim
        · rfl
      rw [this]; rfl

theorem selSpread_bind (P : Params) (f : Nat) (n : Name) (r : List Tok) :
    selSpread P f n r = (pDirs P false r).bind fun x => selMore P f (.spread n x.1) x.2 := by
  unfold selSpread
  cases pDirs P false r <;> rfl

theorem selField_bind (P : Params) (f : Nat) (al : Option Name) (n : Name) (r : List Tok) :
    selField P f al n r = (pOptArgs P false r).bind fun x => (pDirs P false x.2).bind fun y =>
      (selOptSet P f y.2).bind fun z => selMore P f (.field al n x.1 y.1 z.1) z.2 := by
  unfold selField
  cases pOptArgs P false r with
  | none => rfl
  | some x =>
    simp only [Option.bind_some]
    cases pDirs P false x.2 with
    | none => rfl
    | some y =>
      simp only [Option.bind_some]
      cases selOptSet P f y.2 <;> rfl

section
variable (P : Params) (hP : P.finiteFloats = true) (f : Nat)
  (ih : ∀ ts, pSelections P f ts = flt finSels (pSelections P' f ts))
include ih

theorem selMore_flt (s : PSel) (r : List Tok) :
    flt finSels (selMore P' f s r) = if finSel s then selMore P f s r else none := by
  unfold selMore
  split
  · cases hfv : finSel s <;> simp [flt, hfv, finSels]
  · rw [ih]
    cases hq : pSelections P' f r with
    | none => simp [flt]
    | some x => cases hfv : finSel s <;> simp [flt, hfv, finSels]

theorem selOptSet_flt (r : List Tok) : selOptSet P f r = flt finSels (selOptSet P' f r) := by
  unfold selOptSet
  split
  · exact ih _
  · simp [flt, finSels]

include hP

theorem selInline_flt (tc : Option Name) (r : List Tok) :
    selInline P f tc r = flt finSels (selInline P' f tc r) := by
  rw [selInline_bind, selInline_bind, pDirs_flt P hP false]
  cases hq : pDirs P' false r with
  | none => rfl
  | some x =>
    obtain ⟨ds, r'⟩ := x
    simp only [flt_some, Option.bind_some]
    cases ho : openBrace r' with
    | none => cases finDs ds <;> simp [flt, ho]
    | some r3 =>
      simp only [Option.bind_some, ih]
      cases hs : pSelections P' f r3 with
      | none => cases finDs ds <;> simp [flt, ho, hs]
      | some y =>
        obtain ⟨ss, r4⟩ := y
        simp only [Option.bind_some, selMore_flt P f ih]
        cases hfd : finDs ds <;> cases hfs : finSels ss <;> simp [flt, ho, hs, hfd, hfs, finSel]

theorem selSpread_flt (n : Name) (r : List Tok) :
    selSpread P f n r = flt finSels (selSpread P' f n r) := by
  rw [selSpread_bind, selSpread_bind, pDirs_flt P hP false]
  cases hq : pDirs P' false r with
  | none => rfl
  | some x =>
    obtain ⟨ds, r'⟩ := x
    simp only [flt_some, Option.bind_some, selMore_flt P f ih]
    cases hfd : finDs ds <;> simp [hfd, finSel]

theorem selField_flt (al : Option Name) (n : Name) (r : List Tok) :
    selField P f al n r = flt finSels (selField P' f al n r) := by
  rw [selField_bind, selField_bind, pOptArgs_flt P hP false]
  cases ha : pOptArgs P' false r with
  | none => rfl
  | some x =>
    obtain ⟨as, r1⟩ := x
    simp only [flt_some, Option.bind_some, pDirs_flt P hP false]
    cases hq : pDirs P' false r1 with
    | none => cases finFs as <;> simp [flt, hq]
    | some y =>
      obtain ⟨ds, r2⟩ := y
      simp only [selOptSet_flt P f ih, Option.bind_some]
      cases hs : selOptSet P' f r2 with
      | none => cases finFs as <;> cases finDs ds <;> simp [flt, hq, hs]
      | some z =>
        obtain ⟨ss, r3⟩ := z
        simp only [Option.bind_some, selMore_flt P f ih]
        cases hfa : finFs as <;> cases hfd : finDs ds <;> cases hfs : finSels ss <;>
          simp [flt, hq, hs, hfa, hfd, hfs, finSel]
end

theorem pSelections_flt (P : Params) (hP : P.finiteFloats = true) : ∀ (f : Nat) (ts : List Tok),
    pSelections P f ts = flt finSels (pSelections P' f ts) := by
  intro f
  induction f with
  | zero => intro ts; rw [pSelections, pSelections]; rfl
  | succ f ih =>
    intro ts
    rw [pSelections_step, pSelections_step]
    split
    · split
      · split
        · split
          · exact selInline_flt P hP f ih _ _
          · rfl
        · exact selSpread_flt P hP f ih _ _
      · exact selInline_flt P hP f ih _ _
    · exact selField_flt P hP f ih _ _ _
    · exact selField_flt P hP f ih _ _ _
    · rfl

theorem pSelectionSet_flt (P : Params) (hP : P.finiteFloats = true) (ts : List Tok) :
    pSelectionSet P ts = flt finSels (pSelectionSet P' ts) := by
  unfold pSelectionSet
  split
  · exact pSelections_flt P hP _ _
  · rfl
end AGV.Lemmas.PegX
