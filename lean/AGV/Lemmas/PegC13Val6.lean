/-
  Property C13: the chain of object fields against the specification's `fields` loop, the object
  case of the value rule, and the value rule on every text (`value_main`).
-/
import AGV.Lemmas.PegC13Val5
namespace AGV.Lemmas.PegX
open AGV.Model.Peg AGV.Model.BuildAst AGV.Spec.Lex AGV.Spec.Parse AGV.Core.PAst AGV.Lemmas.PegC13 AGV.Lemmas.SpecVal

def BuildsFL (s₀ : List Char) (p : Nat) (ps : List Pair) (fs : List (Name × PValue)) : Prop :=
  ∀ bf, s₀.length - p < bf → ps.mapM (fieldBuild (envOf s₀) bf) = expFs fs

theorem chain_fields {F : ValFam} {p : Nat} {s : List Char} {p' : Nat} {s' : List Char} {ps : List Pair}
    (h : Chain (GoodFC F) p s p' s' ps) : ∀ s₀, At s₀ p s →
    ∃ fs, fieldsV P' F.const (toks s) = (closeTok '}' (toks s')).map (fun r => (fs, r)) ∧ At s₀ p' s' ∧ p ≤ p' ∧
      BuildsFL s₀ p ps fs := by
  induction h with
  | @stop p s hg =>
    intro s₀ hat
    have hg' := hg s₀ hat.skip
    have hpv : pField F.const (toks (skipI s)) = none := by
      cases hp : pField F.const (toks (skipI s)) with
      | none => rfl
      | some x => obtain ⟨⟨n, v⟩, ts'⟩ := x; obtain ⟨s'', pr, e, -⟩ := hg'.ok hp; cases e
    refine ⟨[], ?_, hat, Nat.le_refl _, fun bf _ => by rw [expFs_nil]; rfl⟩
    rw [← toks_skipI s]
    by_cases hc : ∃ r, toks (skipI s) = .punct '}' :: r
    · obtain ⟨r, hr⟩ := hc
      rw [hr, fieldsV_close, closeTok_self]; rfl
    · rw [fieldsV_pField F.const _ (fun r e => hc ⟨r, e⟩), hpv, closeTok_none (fun r e => hc ⟨r, e⟩)]; rfl
  | @step p s p2 s2 ps2 p3 s3 ps3 hg hch ih =>
    intro s₀ hat
    have hat1 := hat.skip
    have hg' := hg s₀ hat1
    cases hp : pField F.const (toks (skipI s)) with
    | none => have := hg'.fail hp; cases this
    | some x =>
      obtain ⟨⟨n, v⟩, ts'⟩ := x
      obtain ⟨s'', pr, e, hts, hlt, ⟨mid, hmid⟩, hst, hb⟩ := hg'.ok hp
      cases e
      have hat2 : At s₀ (skipPos p s + ((skipI s).length - s2.length)) s2 :=
        hat1.consumes ⟨mid, hmid, by rw [hmid]; simp⟩
      obtain ⟨fs', hi, hat3, hle, hbl⟩ := ih s₀ hat2
      have hge := skipPos_ge p s
      refine ⟨(n, v) :: fs', ?_, hat3, by omega, ?_⟩
      · rw [← toks_skipI s]
        have hnc : ∀ r, toks (skipI s) ≠ .punct '}' :: r := fun r e => by rw [e, pField_rbrace] at hp; cases hp
        rw [fieldsV_pField F.const _ hnc, hp]
        simp only [Option.bind_some]
        rw [← hts, hi]
        cases closeTok '}' (toks s3) <;> rfl
      · intro bf hbf
        have h1 := hb bf (by rw [hst]; omega)
        have h2 := hbl bf (by omega)
        rw [List.singleton_append, List.mapM_cons, h1, h2, expFs_cons]
        rfl

theorem goodFC_shape {F : ValFam} {q : Nat} {t : List Char} {r : Res} (h : GoodFC F q t r) :
    r = .fail ∨ ∃ p2 s2 ps, r = .ok p2 s2 ps ∧ s2.length < t.length := by
  have hg := h (List.replicate q 'x' ++ t) ⟨_, rfl, by simp⟩
  cases hp : pField F.const (toks t) with
  | none => exact Or.inl (hg.fail hp)
  | some x =>
    obtain ⟨⟨n, v⟩, ts'⟩ := x
    obtain ⟨s', pr, e, -, hlt, -⟩ := hg.ok hp
    exact Or.inr ⟨_, _, _, e, hlt⟩

theorem build_obj (F : ValFam) (hF : IsFam F) (s₀ : List Char) (q p5 p2 : Nat) (ps : List Pair)
    (fs : List (Name × PValue)) (hq : q < p2) (hq2 : p2 ≤ s₀.length) (hb : BuildsFL s₀ p2 ps fs) :
    Builds s₀ (Pair.mk F.vName q p5 [Pair.mk F.oName q p5 ps]) (.obj fs) := by
  intro bf hbf
  obtain ⟨bf, rfl⟩ : ∃ b, bf = b + 1 := ⟨bf - 1, by omega⟩
  have := hb bf (by simp [Pair.start] at hbf; omega)
  have key : ∀ (vn on : String), (on = "object" ∨ on = "const_object") →
      buildValue (envOf s₀) (bf + 1) (Pair.mk vn q p5 [Pair.mk on q p5 ps]) =
        (ps.mapM (fieldBuild (envOf s₀) bf)).map (fun fs => PValue.obj (indexMapCollect fs)) := by
    intro vn on hon
    rcases hon with rfl | rfl <;> rfl
  rcases hF with rfl | rfl
  · exact (key famV.vName "object" (Or.inl rfl)).trans (by rw [this, expV_obj])
  · exact (key famC.vName "const_object" (Or.inr rfl)).trans (by rw [this, expV_obj])

theorem value_object_case (F : ValFam) (hF : IsFam F) (q : Nat) (t : List Char) (ht : TokStart t)
    (rest : List Char) (hl : lexToken t = some (.punct '{', rest)) (hts : toks t = .punct '{' :: toks rest)
    (IH : ∀ t' q', t'.length < t.length → TokStart t' →
      ∃ r, EvR G0 c0 (.ident F.vName) q' t' (24 * t'.length + 60) r ∧ GoodC F q' t' r) :
    ∃ r, EvR G0 c0 (.ident F.vName) q t (24 * t.length + 60) r ∧ GoodC F q t r := by
  obtain ⟨k1, k2, k3, k4, k5⟩ := tok_punct hl
  have hp : ∀ x, x ≠ '{' → punctTok x t = none := fun x hx => by rw [k1]; simp [Ne.symm hx]
  have hd : punctTok '{' t = some rest := by rw [k1]; simp
  obtain ⟨e, -⟩ := lexToken_punct_inv hl
  have hlen : t.length = rest.length + 1 := by rw [e]; rfl
  obtain ⟨-, hL, hO, -⟩ := fam_rules F hF
  have hopen : EvR G0 c0 (.str ['{']) q t 1 (.ok (q + 1) rest []) := by
    intro f hf; rw [punct_spec G0 c0 '{' (by decide) q t f hf, hd]; rfl
  have hsl := skipI_len rest
  obtain ⟨p3, s3, ps, hrep, hch, hle3⟩ := rep_chain tokRules0 (c := c0) rfl (a := .ident F.fName) (Good := GoodFC F)
    (Ba := 21) (L := rest.length) (by omega)
    (fun t' q' hL' hts' => by
      obtain ⟨r, h1, h2⟩ := field_elem F hF q' t' hts' (fun t'' q'' hlt'' => IH t'' q'' (by omega))
      exact ⟨r, h1, h2, goodFC_shape h2⟩)
    (skipI rest) (skipPos (q + 1) rest) (tokStart_skipI rest) hsl
  have hsl3 := skipI_len s3
  have hclose : EvR G0 c0 (.str ['}']) (skipPos p3 s3) (skipI s3) 1
      (resOf (skipPos p3 s3 + 1) (punctTok '}' (skipI s3))) := by
    intro f hf; rw [punct_spec G0 c0 '}' (by decide) _ _ f hf]
  have hin := ev_seq0 hrep hclose (K := 24 * rest.length + 27) (by omega) (by omega) (by omega)
  have hbody := ev_seq0 hopen hin (K := 24 * rest.length + 28) (by omega) (by omega) (by omega)
  have hobj := ev_ruleOk hO (r := oRule F) hbody (Nat.lt_succ_self _)
  have hv := ev_variable_fail q t (hp _ (by decide))
  have hnum := ev_number_fail q t k2
  have hbool := ev_boolean_fail q t ht (boolTok_none k4)
  have hnull := ev_null_fail q t ht (k4 _)
  have henum := ev_enum_fail q t (Or.inr k5)
  have hlist := ev_open_fail hL '[' (by decide) _ rfl q t (hp _ (by decide))
  have hstr : EvR G0 c0 (.ident "string") q t (t.length + 22) .fail := by
    have := ev_string_fail (List.replicate q 'x') t k3
    simpa using this
  have hcl : closeTok '}' (toks s3) = (punctTok '}' (skipI s3)).map toks := by
    rw [← toks_skipI s3]; exact closeTok_toks '}' (by decide) _ (tokStart_skipI s3)
  cases hc5 : punctTok '}' (skipI s3) with
  | none =>
    rw [hc5] at hobj hcl
    have hev := ev_value_of_alts F hF q t (24 * t.length + 50) .fail .fail .fail .fail .fail .fail .fail .fail
      ⟨hv.mono (by omega), ne_oof_fail⟩ ⟨hnum.mono (by omega), ne_oof_fail⟩ ⟨hstr.mono (by omega), ne_oof_fail⟩
      ⟨hbool.mono (by omega), ne_oof_fail⟩ ⟨hnull.mono (by omega), ne_oof_fail⟩ ⟨henum.mono (by omega), ne_oof_fail⟩
      ⟨hlist.mono (by omega), ne_oof_fail⟩ ⟨(hobj.cast (by simp [resOf])).mono (by omega), ne_oof_fail⟩
    refine ⟨.fail, hev.cast (by cases F.const <;> simp [firstOk]), fun s₀ hat => GoodV.mk_fail ?_⟩
    have hat2 : At s₀ (skipPos (q + 1) rest) (skipI rest) := (hat.consumes ⟨['{'], by rw [e]; rfl, rfl⟩).skip
    obtain ⟨fs, hi, -, -, -⟩ := chain_fields hch s₀ hat2
    rw [hts, pV_lbrace, ← toks_skipI rest, hi, hcl]; rfl
  | some r5 =>
    rw [hc5] at hobj hcl
    have hobj' : EvR G0 c0 (.ident F.oName) q t (24 * rest.length + 28 + 1)
        (.ok (skipPos p3 s3 + 1) r5 [Pair.mk F.oName q (skipPos p3 s3 + 1) ps]) :=
      hobj.cast (by simp [resOf])
    have hev := ev_value_of_alts F hF q t (24 * t.length + 50) .fail .fail .fail .fail .fail .fail .fail _
      ⟨hv.mono (by omega), ne_oof_fail⟩ ⟨hnum.mono (by omega), ne_oof_fail⟩ ⟨hstr.mono (by omega), ne_oof_fail⟩
      ⟨hbool.mono (by omega), ne_oof_fail⟩ ⟨hnull.mono (by omega), ne_oof_fail⟩ ⟨henum.mono (by omega), ne_oof_fail⟩
      ⟨hlist.mono (by omega), ne_oof_fail⟩ ⟨hobj'.mono (by omega), by simp⟩
    have hev' : EvR G0 c0 (.ident F.vName) q t (24 * t.length + 60)
        (.ok (skipPos p3 s3 + 1) r5
          [Pair.mk F.vName q (skipPos p3 s3 + 1) [Pair.mk F.oName q (skipPos p3 s3 + 1) ps]]) :=
      hev.cast (by cases F.const <;> simp [firstOk])
    have hl5 : r5.length < t.length := by
      have h5 : r5.length < (skipI s3).length := by
        have := (show EvR G0 c0 (.str ['}']) (skipPos p3 s3) (skipI s3) 1 (.ok (skipPos p3 s3 + 1) r5 []) from
          hclose.cast (by rw [hc5]; rfl)).consumes.len
        omega
      omega
    refine ⟨_, hev', fun s₀ hat => ?_⟩
    have hat2 : At s₀ (skipPos (q + 1) rest) (skipI rest) := (hat.consumes ⟨['{'], by rw [e]; rfl, rfl⟩).skip
    obtain ⟨fs, hi, -, -, hbl⟩ := chain_fields hch s₀ hat2
    refine goodV_of_ev hev' (v := .obj fs) ?_ hl5 ?_
    · rw [hts, pV_lbrace, ← toks_skipI rest, hi, hcl]; rfl
    · exact build_obj F hF s₀ q _ (skipPos (q + 1) rest) ps fs (by have := skipPos_ge (q + 1) rest; omega)
        (by have := hat2.len; omega) hbl

/-- The value rules on EVERY text that starts a token, at every position: the interpreter's result
    is what the specification's `pValue` reads there (same acceptance, same remaining tokens), and
    the tree builder computes the specification's value from the emitted pair, or reports the number
    error exactly when a float literal in the value denotes the infinite double (`expV`). -/
theorem value_main (F : ValFam) (hF : IsFam F) : ∀ (L : Nat) (t : List Char) (q : Nat), t.length ≤ L → TokStart t →
    ∃ r, EvR G0 c0 (.ident F.vName) q t (24 * t.length + 60) r ∧ GoodC F q t r := by
  intro L
  induction L using Nat.strongRecOn with
  | _ L ih =>
    intro t q hL ht
    have IH : ∀ t' q', t'.length < t.length → TokStart t' →
        ∃ r, EvR G0 c0 (.ident F.vName) q' t' (24 * t'.length + 60) r ∧ GoodC F q' t' r :=
      fun t' q' hlt ht' => ih t'.length (by omega) t' q' (Nat.le_refl _) ht'
    rcases toks_head t ht with ⟨rfl, hts⟩ | ⟨-, hl, hts⟩ | ⟨tok, rest, hl, hts, hlt⟩
    · have hl : lexToken ([] : List Char) = none := by unfold lexToken; rfl
      obtain ⟨k1, k2, k3, k4, k5⟩ := tok_none hl
      exact goodC_of fun s₀ hat => value_fail_case F hF s₀ q [] ht hat (Or.inr (k1 _)) (k1 _) (k1 _) k2 k3 k4 k5
        (by rw [hts, pV_nil])
    · obtain ⟨k1, k2, k3, k4, k5⟩ := tok_none hl
      exact goodC_of fun s₀ hat => value_fail_case F hF s₀ q t ht hat (Or.inr (k1 _)) (k1 _) (k1 _) k2 k3 k4 k5
        (by rw [hts, pV_bad])
    · cases tok with
      | punct y =>
        by_cases h1 : y = '$'
        · subst h1
          exact goodC_of fun s₀ hat => value_variable_case F hF s₀ q t ht hat rest hl hts hlt
        by_cases h2 : y = '['
        · subst h2; exact value_list_case F hF q t ht rest hl hts IH
        by_cases h3 : y = '{'
        · subst h3; exact value_object_case F hF q t ht rest hl hts IH
        · obtain ⟨k1, k2, k3, k4, k5⟩ := tok_punct hl
          have hp : ∀ x, x ≠ y → punctTok x t = none := fun x hx => by rw [k1]; simp [Ne.symm hx]
          exact goodC_of fun s₀ hat => value_fail_case F hF s₀ q t ht hat (Or.inr (hp _ (Ne.symm h1)))
            (hp _ (Ne.symm h2)) (hp _ (Ne.symm h3)) k2 k3 k4 k5 (by rw [hts, pV_punct_other _ _ _ h1 h2 h3])
      | spread =>
        obtain ⟨k1, k2, k3, k4, k5⟩ := tok_spread hl
        exact goodC_of fun s₀ hat => value_fail_case F hF s₀ q t ht hat (Or.inr (k1 _)) (k1 _) (k1 _) k2 k3 k4 k5
          (by rw [hts, pV_spread])
      | name n => exact goodC_of fun s₀ hat => value_name_case F hF s₀ q t ht hat n rest hl hts hlt
      | int n d => exact goodC_of fun s₀ hat => value_number_case F hF s₀ q t ht hat _ rest hl rfl hts hlt
      | float n i fr e x => exact goodC_of fun s₀ hat => value_number_case F hF s₀ q t ht hat _ rest hl rfl hts hlt
      | str v => exact goodC_of fun s₀ hat => value_string_case F hF s₀ q t ht hat v rest hl hts hlt
end AGV.Lemmas.PegX
