/-
  "At most one resolver start per parent position and response key" for the scheduler model:
  by induction over the executor with a path-prefix invariant.  The only ingredient that
  depends on the collection strategy is that the field futures of one selection set carry
  pairwise distinct response keys (`KeysNodup`), which the repaired collection (`mergeOccs`)
  guarantees (`mergeOccs_keys_nodup`).
-/
import AGV.Lemmas.Sched

namespace AGV.Lemmas.SchedOnce
open AGV.Core AGV.Model AGV.Model.Sched AGV.Lemmas.Sched
open AGV.Spec.Exec (FieldOcc mapIdx group)

abbrev PK := List PathSeg × String

def startsOf (evs : List (Nat × Ev)) : List PK := evs.filterMap startOf

theorem startsOf_append (a b : List (Nat × Ev)) : startsOf (a ++ b) = startsOf a ++ startsOf b := by
  simp [startsOf, List.filterMap_append]

theorem startsOf_err (n : Nat) (e : GErr) : startsOf [(n, Ev.err e)] = [] := rfl

-- ------------------------------------------------------------------ prefixes

theorem prefix_snoc_inj {α} (a : List α) (x y : α) (q : List α) (h1 : (a ++ [x]) <+: q) (h2 : (a ++ [y]) <+: q) : x = y := by
  obtain ⟨t1, rfl⟩ := h1
  obtain ⟨t2, h2⟩ := h2
  simp only [List.append_assoc, List.append_cancel_left_eq, List.singleton_append, List.cons.injEq] at h2
  exact h2.1.symm

theorem not_snoc_prefix_self {α} (a : List α) (x : α) : ¬ (a ++ [x]) <+: a := by
  intro h
  have := h.length_le
  simp only [List.length_append, List.length_cons, List.length_nil] at this
  omega

theorem prefix_of_snoc_prefix {α} (a : List α) (x : α) (q : List α) (h : (a ++ [x]) <+: q) : a <+: q :=
  (List.prefix_append a [x]).trans h

-- ------------------------------------------------------------------ joins

/-- the starts of a parallel join are (a permutation of) a sublist of the children's starts -/
theorem kept_sublist (p : Nat → Nat × Ev → Bool) (rs : List TRes) :
    ∀ i, (mapIdx (fun j (r : TRes) => r.evs.filter (p j)) rs i).flatten.Sublist (rs.map (·.evs)).flatten := by
  induction rs with
  | nil => intro i; simp [mapIdx]
  | cons r rs ih =>
    intro i
    simp only [mapIdx, List.flatten_cons, List.map_cons]
    exact (List.filter_sublist).append (ih _)

theorem joinPar_starts (s : Nat) (rs : List TRes) :
    ∃ l, (startsOf (joinPar s rs).evs).Perm l ∧ l.Sublist (startsOf (rs.map (·.evs)).flatten) := by
  unfold joinPar
  split
  · exact ⟨_, (sortEvs_perm _).filterMap _, List.Sublist.refl _⟩
  · exact ⟨_, (sortEvs_perm _).filterMap _, (kept_sublist _ rs 0).filterMap _⟩

/-- starts of the concatenated children are duplicate-free when each child's are and the
    children's regions are pairwise disjoint -/
theorem flatten_nodup {α} (xs : List α) (f : α → TRes) (P : α → PK → Prop)
    (h : ∀ x ∈ xs, (startsOf (f x).evs).Nodup ∧ ∀ q ∈ startsOf (f x).evs, P x q)
    (hd : xs.Pairwise (fun x y => ∀ q, P x q → P y q → False)) :
    (startsOf ((xs.map f).map (·.evs)).flatten).Nodup ∧
    ∀ q ∈ startsOf ((xs.map f).map (·.evs)).flatten, ∃ x ∈ xs, P x q := by
  induction xs with
  | nil => simp [startsOf]
  | cons x xs ih =>
    rw [List.pairwise_cons] at hd
    have ih' := ih (fun y hy => h y (by simp [hy])) hd.2
    have hx := h x (by simp)
    simp only [List.map_cons, List.flatten_cons, startsOf_append]
    refine ⟨?_, ?_⟩
    · rw [List.nodup_append]
      refine ⟨hx.1, ih'.1, ?_⟩
      intro q hq q' hq' heq
      subst heq
      obtain ⟨y, hy, hPy⟩ := ih'.2 q hq'
      exact hd.1 y hy q (hx.2 q hq) hPy
    · intro q hq
      rw [List.mem_append] at hq
      rcases hq with hq | hq
      · exact ⟨x, by simp, hx.2 q hq⟩
      · obtain ⟨y, hy, hPy⟩ := ih'.2 q hq
        exact ⟨y, by simp [hy], hPy⟩

theorem joinPar_once {α} (xs : List α) (f : α → TRes) (P : α → PK → Prop) (s : Nat)
    (h : ∀ x ∈ xs, (startsOf (f x).evs).Nodup ∧ ∀ q ∈ startsOf (f x).evs, P x q)
    (hd : xs.Pairwise (fun x y => ∀ q, P x q → P y q → False)) :
    (startsOf (joinPar s (xs.map f)).evs).Nodup ∧ ∀ q ∈ startsOf (joinPar s (xs.map f)).evs, ∃ x ∈ xs, P x q := by
  obtain ⟨l, hp, hs⟩ := joinPar_starts s (xs.map f)
  have hf := flatten_nodup xs f P h hd
  exact ⟨hp.nodup_iff.2 (hf.1.sublist hs), fun q hq => hf.2 q (hs.subset (hp.subset hq))⟩

theorem joinSer_once {α} (xs : List α) (f : α → Nat → TRes) (P : α → PK → Prop)
    (h : ∀ x ∈ xs, ∀ s, (startsOf (f x s).evs).Nodup ∧ ∀ q ∈ startsOf (f x s).evs, P x q)
    (hd : xs.Pairwise (fun x y => ∀ q, P x q → P y q → False)) :
    ∀ s, (startsOf (joinSer s (xs.map f)).evs).Nodup ∧ ∀ q ∈ startsOf (joinSer s (xs.map f)).evs, ∃ x ∈ xs, P x q := by
  induction xs with
  | nil => intro s; simp [joinSer, startsOf]
  | cons x xs ih =>
    intro s
    rw [List.pairwise_cons] at hd
    have hx := h x (by simp) s
    have ih' := ih (fun y hy => h y (by simp [hy])) hd.2 (f x s).fin
    simp only [List.map_cons, joinSer]
    split
    · exact ⟨hx.1, fun q hq => ⟨x, by simp, hx.2 q hq⟩⟩
    · simp only [startsOf_append]
      refine ⟨?_, ?_⟩
      · rw [List.nodup_append]
        refine ⟨hx.1, ih'.1, ?_⟩
        intro q hq q' hq' heq
        subst heq
        obtain ⟨y, hy, hPy⟩ := ih'.2 q hq'
        exact hd.1 y hy q (hx.2 q hq) hPy
      · intro q hq
        rw [List.mem_append] at hq
        rcases hq with hq | hq
        · exact ⟨x, by simp, hx.2 q hq⟩
        · obtain ⟨y, hy, hPy⟩ := ih'.2 q hq
          exact ⟨y, by simp [hy], hPy⟩

-- ------------------------------------------------------------------ the invariant

/-- a value completed at response position `p`: no start is repeated, every start lies at or below `p` -/
def Inv (p : List PathSeg) (r : TRes) : Prop :=
  (startsOf r.evs).Nodup ∧ ∀ q ∈ startsOf r.evs, p <+: q.1

theorem inv_of_no_events (p : List PathSeg) (r : TRes) (h : r.evs = []) : Inv p r := by
  simp [Inv, h, startsOf]

theorem capture_inv (opt : Bool) (p : List PathSeg) (r : TRes) (h : Inv p r) : Inv p (capture opt r) := by
  unfold capture
  split
  · split
    · exact h
    · split
      · unfold Inv
        simp only [startsOf_append, startsOf_err, List.append_nil]
        exact h
      · exact h
  · exact h

theorem itemWrap_inv (D : ExecStatic.Defects) (pp p : List PathSeg) (r : TRes) (h : Inv p r) : Inv p (itemWrap D pp r) := by
  unfold itemWrap; split <;> exact h

theorem ofJoin_evs (j : JRes) (mk : List GValue → GValue) : (ofJoin j mk).evs = j.evs := by
  unfold ofJoin; split <;> rfl

theorem zipIdx_ge {α} (xs : List α) : ∀ k, ∀ p ∈ xs.zipIdx k, k ≤ p.2 := by
  induction xs with
  | nil => intro k p hp; simp at hp
  | cons x xs ih =>
    intro k p hp
    simp only [List.zipIdx_cons, List.mem_cons] at hp
    rcases hp with rfl | hp
    · exact Nat.le_refl _
    · have := ih (k + 1) p hp; omega

theorem zipIdx_pairwise {α} (xs : List α) : ∀ k, (xs.zipIdx k).Pairwise (fun a b => a.2 ≠ b.2) := by
  induction xs with
  | nil => intro k; simp
  | cons x xs ih =>
    intro k
    simp only [List.zipIdx_cons, List.pairwise_cons]
    refine ⟨?_, ih _⟩
    intro b hb
    have := zipIdx_ge xs (k + 1) b hb
    simp only [ne_eq]; omega

theorem resolveT_inv (c : ExecStatic.Ctx) (rec : Rec) (G : List Sel → Prop)
    (hrec : ∀ a b i ss p s, G ss → Inv p (rec a b i ss p s)) (ss : List Sel) (hss : G ss) :
    ∀ t opt rv path pos s, Inv path (resolveT c rec opt t rv ss path pos s) := by
  intro t
  induction t with
  | nonNull t ih =>
    intro opt rv path pos s
    cases rv <;> simp only [resolveT] <;> first | exact ih _ _ _ _ _ | exact inv_of_no_events _ _ rfl
  | list t ih =>
    intro opt rv path pos s
    cases rv <;> simp only [resolveT] <;>
      first | exact inv_of_no_events _ _ rfl | (apply capture_inv; exact inv_of_no_events _ _ rfl) | skip
    apply capture_inv
    rw [mapIdx_eq_map]
    rename_i xs
    have := joinPar_once (xs.zipIdx 0)
      (fun p => itemWrap c.D (path ++ [PathSeg.idx p.2]) (resolveT c rec true t p.1 ss (path ++ [PathSeg.idx p.2]) pos s))
      (fun p q => (path ++ [PathSeg.idx p.2]) <+: q.1) s
      (fun p _ => itemWrap_inv _ _ _ _ (ih _ _ _ _ _))
      ((zipIdx_pairwise xs 0).imp (fun {a b} hab q h1 h2 => hab (by
        have := prefix_snoc_inj path _ _ q.1 h1 h2
        simpa using this)))
    refine ⟨by rw [ofJoin_evs]; exact this.1, ?_⟩
    intro q hq
    rw [ofJoin_evs] at hq
    obtain ⟨x, _, hx⟩ := this.2 q hq
    exact prefix_of_snoc_prefix _ _ _ hx
  | named n =>
    intro opt rv path pos s
    cases rv <;> simp only [resolveT] <;>
      first | exact inv_of_no_events _ _ rfl | (apply capture_inv; exact inv_of_no_events _ _ rfl) | skip
    · split
      · exact inv_of_no_events _ _ rfl
      · apply capture_inv; exact inv_of_no_events _ _ rfl
    · split
      · apply capture_inv; exact hrec _ _ _ _ _ _ hss
      · apply capture_inv; exact inv_of_no_events _ _ rfl

theorem completeFieldT_inv (c : ExecStatic.Ctx) (rec : Rec) (G : List Sel → Prop)
    (hrec : ∀ a b i ss p s, G ss → Inv p (rec a b i ss p s))
    (fd : FieldDef) (rv : RVal) (occ : FieldOcc) (hocc : G occ.sels) (fpath : List PathSeg) (s : Nat) :
    Inv fpath (completeFieldT c rec fd rv occ fpath s) := by
  unfold completeFieldT
  split
  · simp only []
    split
    · exact inv_of_no_events _ _ rfl
    · unfold Inv
      simp only [startsOf_err]
      simp
  · exact resolveT_inv c rec G hrec _ hocc _ _ _ _ _ _

/-- region of the field future with response key `k` below parent position `p` -/
def Region (p : List PathSeg) (k : String) (q : PK) : Prop := q = (p, k) ∨ (p ++ [.key k]) <+: q.1

theorem region_disjoint (p : List PathSeg) (k k' : String) (hk : k ≠ k') (q : PK) : Region p k q → Region p k' q → False := by
  intro h1 h2
  rcases h1 with rfl | h1 <;> rcases h2 with h2 | h2
  · simp only [Prod.mk.injEq, true_and] at h2; exact hk h2
  · exact not_snoc_prefix_self _ _ h2
  · subst h2; exact not_snoc_prefix_self _ _ h1
  · have := prefix_snoc_inj p _ _ q.1 h1 h2
    simp only [PathSeg.key.injEq] at this; exact hk this

theorem runFieldT_inv (g : Cfg) (rec : Rec) (G : List Sel → Prop) (hrec : ∀ a b i ss p s, G ss → Inv p (rec a b i ss p s))
    (rt : String) (id : Nat) (path : List PathSeg) (occ : FieldOcc) (hocc : G occ.sels) (s : Nat) :
    (startsOf (runFieldT g rec rt id path occ s).evs).Nodup ∧
    ∀ q ∈ startsOf (runFieldT g rec rt id path occ s).evs, Region path occ.key q := by
  unfold runFieldT
  split
  · simp [okNow, startsOf]
  · split
    · simp [okNow, startsOf]
    · rename_i fd _
      have h := completeFieldT_inv g.c rec G hrec fd (ExecStatic.fieldRVal g.c id fd occ) occ hocc (path ++ [PathSeg.key occ.key])
        (s + g.gate path occ.key occ.pos)
      simp only [startsOf, List.filterMap_cons, startOf]
      refine ⟨?_, ?_⟩
      · rw [List.nodup_cons]
        refine ⟨?_, h.1⟩
        intro hm
        exact not_snoc_prefix_self _ _ (h.2 _ hm)
      · intro q hq
        rw [List.mem_cons] at hq
        rcases hq with rfl | hq
        · left; rfl
        · right; exact h.2 q hq

/-- the field futures of every selection set satisfying `G` carry pairwise distinct response
    keys, and their sub-selections satisfy `G` again -/
def KeysNodupOn (g : Cfg) (G : List Sel → Prop) : Prop :=
  ∀ rt fuel st sels, G sels →
    ((occsOf g rt fuel st sels).map (·.key)).Nodup ∧ ∀ occ ∈ occsOf g rt fuel st sels, G occ.sels

theorem resolveContainerT_inv (g : Cfg) (G : List Sel → Prop) (hk : KeysNodupOn g G) : ∀ fuel serial st rt id sels path s,
    G sels → Inv path (resolveContainerT g serial fuel st rt id sels path s) := by
  intro fuel
  induction fuel with
  | zero => intro serial st rt id sels path s _; exact inv_of_no_events _ _ rfl
  | succ fuel ih =>
    intro serial st rt id sels path s hG
    simp only [resolveContainerT]
    have hrec : ∀ a b i ss p s, G ss → Inv p (resolveContainerT g g.nestedSerial fuel a b i ss p s) :=
      fun a b i ss p s h => ih _ a b i ss p s h
    have hkk := hk rt (fuel + 1) st sels hG
    have hd : (occsOf g rt (fuel + 1) st sels).Pairwise
        (fun x y => ∀ q, Region path x.key q → Region path y.key q → False) := by
      have := hkk.1
      rw [List.nodup_iff_pairwise_ne, List.pairwise_map] at this
      exact this.imp (fun {a b} hab q => region_disjoint path a.key b.key hab q)
    have concl : ∀ (evs : List (Nat × Ev)),
        ((startsOf evs).Nodup ∧ ∀ q ∈ startsOf evs, ∃ x ∈ occsOf g rt (fuel + 1) st sels, Region path x.key q) →
        (startsOf evs).Nodup ∧ ∀ q ∈ startsOf evs, path <+: q.1 := by
      intro evs h
      refine ⟨h.1, fun q hq => ?_⟩
      obtain ⟨x, _, hx⟩ := h.2 q hq
      rcases hx with rfl | hx
      · exact List.prefix_refl _
      · exact prefix_of_snoc_prefix _ _ _ hx
    unfold Inv
    rw [ofJoin_evs]
    apply concl
    cases serial with
    | true =>
      simp only [if_true]
      exact joinSer_once _ _ (fun x q => Region path x.key q)
        (fun occ ho t => runFieldT_inv g _ G hrec rt id path occ (hkk.2 occ ho) t) hd s
    | false =>
      simp only [Bool.false_eq_true, if_false, List.map_map]
      exact joinPar_once _ _ (fun x q => Region path x.key q) s
        (fun occ ho => runFieldT_inv g _ G hrec rt id path occ (hkk.2 occ ho) s) hd

-- ------------------------------------------------------------------ the repaired collection has distinct keys

def GroupInv (gs : List (String × List FieldOcc)) : Prop :=
  (gs.map (·.1)).Nodup ∧ ∀ g ∈ gs, ∀ o ∈ g.2, o.key = g.1

theorem group_step_inv (gs : List (String × List FieldOcc)) (o : FieldOcc) (h : GroupInv gs) :
    GroupInv (if gs.any (·.1 = o.key) then gs.map (fun g => if g.1 = o.key then (g.1, g.2 ++ [o]) else g)
              else gs ++ [(o.key, [o])]) := by
  split
  · refine ⟨?_, ?_⟩
    · have : (gs.map (fun g => if g.1 = o.key then (g.1, g.2 ++ [o]) else g)).map (·.1) = gs.map (·.1) := by
        simp only [List.map_map, List.map_inj_left, Function.comp]
        intro g _; split <;> rfl
      rw [this]; exact h.1
    · intro g hg o' ho'
      simp only [List.mem_map] at hg
      obtain ⟨g0, hg0, rfl⟩ := hg
      split at ho'
      · rename_i hk
        simp only [List.mem_append, List.mem_singleton] at ho'
        rcases ho' with ho' | rfl
        · simp only [hk, if_true]; rw [← hk]; exact h.2 g0 hg0 o' ho'
        · simp only [hk, if_true]
      · rename_i hk
        simp only [hk, if_false]; exact h.2 g0 hg0 o' ho'
  · rename_i hany
    refine ⟨?_, ?_⟩
    · simp only [List.map_append, List.map_cons, List.map_nil]
      rw [List.nodup_append]
      refine ⟨h.1, by simp, ?_⟩
      intro a ha b hb hab
      simp only [List.mem_singleton] at hb
      subst hb; subst hab
      apply hany
      simp only [List.mem_map] at ha
      obtain ⟨g, hg, hga⟩ := ha
      simp only [List.any_eq_true, decide_eq_true_eq]
      exact ⟨g, hg, hga⟩
    · intro g hg o' ho'
      simp only [List.mem_append, List.mem_singleton] at hg
      rcases hg with hg | rfl
      · exact h.2 g hg o' ho'
      · simp only [List.mem_singleton] at ho'; subst ho'; rfl

theorem group_inv (occs : List FieldOcc) : GroupInv (group occs) := by
  unfold group
  have : ∀ gs, GroupInv gs → GroupInv (occs.foldl (fun gs o =>
      if gs.any (·.1 = o.key) then gs.map (fun g => if g.1 = o.key then (g.1, g.2 ++ [o]) else g)
      else gs ++ [(o.key, [o])]) gs) := by
    induction occs with
    | nil => intro gs h; exact h
    | cons o occs ih => intro gs h; exact ih _ (group_step_inv gs o h)
  exact this [] (by simp [GroupInv])

theorem mergeOccs_keys_nodup (occs : List FieldOcc) : ((mergeOccs occs).map (·.key)).Nodup := by
  unfold mergeOccs
  have hg := group_inv occs
  have hsub : (((group occs).filterMap (fun (g : String × List FieldOcc) =>
      match g.2 with
      | [] => none
      | o :: _ => some ({ o with sels := (g.2.map (fun (x : FieldOcc) => x.sels)).flatten } : FieldOcc))).map
        (fun (x : FieldOcc) => x.key)).Sublist ((group occs).map (·.1)) := by
    have hmem : ∀ g ∈ group occs, ∀ o ∈ g.2, o.key = g.1 := hg.2
    revert hmem
    generalize group occs = gs
    intro hmem
    induction gs with
    | nil => simp
    | cons g gs ih =>
      have ih' := ih (fun g' hg' => hmem g' (by simp [hg']))
      simp only [List.filterMap_cons, List.map_cons]
      cases h2 : g.2 with
      | nil => simp only []; exact ih'.cons _
      | cons o rest =>
        simp only [List.map_cons]
        have : o.key = g.1 := hmem g (by simp) o (by simp [h2])
        rw [this]
        exact ih'.cons_cons _
  exact hg.1.sublist hsub

theorem keysNodup_repaired (g : Cfg) (h : g.perOccurrence = false) : KeysNodupOn g (fun _ => True) := by
  intro rt fuel st sels _
  simp only [occsOf, h, Bool.false_eq_true, if_false]
  exact ⟨mergeOccs_keys_nodup _, fun _ _ => trivial⟩

-- ------------------------------------------------------------------ selection sets reachable in a document

/-- selection sets reachable from `root` through fields, inline fragments and the fragments of `d` -/
inductive Reach (d : Doc) (root : List Sel) : List Sel → Prop
  | refl : Reach d root root
  | field {ss al n as ds sub p} : Reach d root ss → Sel.field al n as ds sub p ∈ ss → Reach d root sub
  | inline {ss c ds sub p} : Reach d root ss → Sel.inline c ds sub p ∈ ss → Reach d root sub
  | spread {ss n ds p f} : Reach d root ss → Sel.spread n ds p ∈ ss → d.frag? n = some f → Reach d root f.sels

/-- what `Fields::add_set` collects from a reachable selection set has reachable sub-selections -/
theorem collect_reach (c : ExecStatic.Ctx) (root : List Sel) (rt : String) :
    ∀ fuel st sels, Reach c.d root sels → ∀ occ ∈ ExecStatic.collect c rt fuel st sels, Reach c.d root occ.sels := by
  intro fuel
  induction fuel with
  | zero => intro st sels _ occ ho; simp [ExecStatic.collect] at ho
  | succ fuel ih =>
    intro st sels hr occ ho
    simp only [ExecStatic.collect, List.mem_flatten, List.mem_map] at ho
    obtain ⟨l, ⟨sel, hsel, rfl⟩, hol⟩ := ho
    cases sel with
    | field al n as ds sub p =>
      simp only [List.mem_singleton] at hol
      subst hol
      exact Reach.field hr hsel
    | spread n ds p =>
      simp only [] at hol
      split at hol
      · simp at hol
      · rename_i f hf
        have hr' := Reach.spread hr hsel hf
        split at hol
        · exact ih _ _ hr' occ hol
        · split at hol
          · exact ih _ _ hr' occ hol
          · simp at hol
    | inline cond ds sub p =>
      have hr' := Reach.inline hr hsel
      simp only [] at hol
      split at hol
      · split at hol
        · exact ih _ _ hr' occ hol
        · split at hol
          · exact ih _ _ hr' occ hol
          · simp at hol
      · exact ih _ _ hr' occ hol

end AGV.Lemmas.SchedOnce
