/-
  C11 — lemmas about the cost model: structural bounds of the normal pass, the accounting
  invariant of the memoising walkers, the fan-out chain.
-/
import AGV.Model.Cost
import AGV.Spec.Cost

namespace AGV.Lemmas.Cost
open AGV.Core AGV.Model.Cost AGV.Spec.Cost

-- ------------------------------------------------------------------ sums

theorem sum_map_le_of_le {α : Type} (l : List α) (f g : α → Nat) (h : ∀ x ∈ l, f x ≤ g x) :
    (l.map f).sum ≤ (l.map g).sum := by
  induction l with
  | nil => simp
  | cons x xs ih =>
    simp only [List.map_cons, List.sum_cons]
    have h1 := h x (by simp)
    have h2 := ih (fun y hy => h y (by simp [hy]))
    omega

-- ------------------------------------------------------------------ a walk that never follows spreads is structural

mutual
theorem vSel_noRec_le : ∀ (s : Sel), vSel noRec s ≤ selSize s
  | .field _ name _ _ sub _ => by
    have := vSels_noRec_le sub
    simp only [vSel, selSize]
    split <;> omega
  | .spread _ _ _ => by simp [vSel, selSize, noRec]
  | .inline _ _ sub _ => by
    have := vSels_noRec_le sub
    simp only [vSel, selSize]
    omega
theorem vSels_noRec_le : ∀ (ss : List Sel), vSels noRec ss ≤ selsSize ss
  | [] => by simp [vSels, selsSize]
  | s :: ss => by
    have := vSel_noRec_le s
    have := vSels_noRec_le ss
    simp only [vSels, selsSize]
    omega
end

/-- selections of all fragment definitions -/
def fragsSels : List FragDef → Nat
  | [] => 0
  | f :: fs => selsSize f.sels + fragsSels fs

/-- selections of all operations -/
def opsSels : List OpDef → Nat
  | [] => 0
  | o :: os => selsSize o.sels + opsSels os

theorem fragsSels_le (fs : List FragDef) : fragsSels fs ≤ fragsSize fs := by
  induction fs with
  | nil => simp [fragsSels, fragsSize]
  | cons f fs ih => simp only [fragsSels, fragsSize]; omega

theorem opsSels_le (os : List OpDef) : opsSels os ≤ opsSize os := by
  induction os with
  | nil => simp [opsSels, opsSize]
  | cons o os ih => simp only [opsSels, opsSize]; omega

theorem frags_noRec_le (fs : List FragDef) : (fs.map fun f => vSels noRec f.sels).sum ≤ fragsSels fs := by
  induction fs with
  | nil => simp [fragsSels]
  | cons f fs ih =>
    have := vSels_noRec_le f.sels
    simp only [List.map_cons, List.sum_cons, fragsSels]
    omega

theorem ops_noRec_le (c : Config) (os : List OpDef) :
    (os.map fun o => if hasRoot c o.ty then vSels noRec o.sels else 0).sum ≤ opsSels os := by
  induction os with
  | nil => simp [opsSels]
  | cons o os ih =>
    have := vSels_noRec_le o.sels
    simp only [List.map_cons, List.sum_cons, opsSels]
    split <;> omega

theorem normalPass_le (c : Config) (d : Doc) : normalPass c d ≤ opsSels d.ops + fragsSels d.frags := by
  have h1 := frags_noRec_le d.frags
  have h2 := ops_noRec_le c d.ops
  simp only [normalPass]
  omega

-- ------------------------------------------------------------------ memoising walkers: accounting

theorem takeFrag_sels (n : String) : ∀ (l : List FragDef) (f : FragDef) (r : List FragDef),
    takeFrag n l = some (f, r) → fragsSels l = selsSize f.sels + fragsSels r
  | [], f, r, h => by simp [takeFrag] at h
  | g :: gs, f, r, h => by
    simp only [takeFrag] at h
    split at h
    · simp only [Option.some.injEq, Prod.mk.injEq] at h
      obtain ⟨rfl, rfl⟩ := h
      simp [fragsSels]
    · split at h
      · rename_i g' r' heq
        simp only [Option.some.injEq, Prod.mk.injEq] at h
        obtain ⟨rfl, rfl⟩ := h
        have := takeFrag_sels n gs g' r' heq
        simp only [fragsSels]
        omega
      · simp at h

/-- what a memoising walk has spent plus what it may still spend on fragments -/
def budget (st : MSt) : Nat := st.sel + fragsSels st.rem

/-- `rec` enters a fragment within the budget -/
def Frugal (rec : FragDef → MSt → MSt) : Prop :=
  ∀ f st, budget (rec f st) ≤ budget st + selsSize f.sels

mutual
theorem mwSel_budget (w : Walk) (rec : FragDef → MSt → MSt) (hr : Frugal rec) :
    ∀ (s : Sel) (on : Option String) (st : MSt), budget (mwSel w rec on s st) + 1 ≤ budget st + selSize s
  | .field al name _ _ sub _, on, st => by
    simp only [mwSel, selSize]
    split
    · rename_i hd
      have := mwSels_budget w rec hr sub on
        (if w = Walk.overlap then
          (if st.outs.contains (on, al.getD name) then { st with cmp := st.cmp + 1 }
           else { st with outs := (on, al.getD name) :: st.outs })
        else st)
      have hb : budget (if w = Walk.overlap then
          (if st.outs.contains (on, al.getD name) then { st with cmp := st.cmp + 1 }
           else { st with outs := (on, al.getD name) :: st.outs })
        else st) = budget st := by
        split
        · split <;> simp [budget]
        · rfl
      omega
    · have hb : budget (if w = Walk.overlap then
          (if st.outs.contains (on, al.getD name) then { st with cmp := st.cmp + 1 }
           else { st with outs := (on, al.getD name) :: st.outs })
        else st) = budget st := by
        split
        · split <;> simp [budget]
        · rfl
      omega
  | .spread n _ _, on, st => by
    simp only [mwSel, selSize]
    split
    · rename_i f r heq
      have h1 := takeFrag_sels n st.rem f r heq
      have h2 := hr f { st with rem := r }
      simp only [budget] at h2 ⊢
      omega
    · omega
  | .inline c _ sub _, on, st => by
    have := mwSels_budget w rec hr sub (inlineOn c on) st
    simp only [mwSel, selSize]
    omega
theorem mwSels_budget (w : Walk) (rec : FragDef → MSt → MSt) (hr : Frugal rec) :
    ∀ (ss : List Sel) (on : Option String) (st : MSt), budget (mwSels w rec on ss st) ≤ budget st + selsSize ss
  | [], on, st => by simp [mwSels, selsSize]
  | s :: ss, on, st => by
    have h1 := mwSel_budget w rec hr s on { st with sel := st.sel + 1 }
    have h2 := mwSels_budget w rec hr ss on (mwSel w rec on s { st with sel := st.sel + 1 })
    have h3 : budget { st with sel := st.sel + 1 } = budget st + 1 := by simp [budget]; omega
    simp only [mwSels, selsSize]
    omega
end

theorem mwFrag_frugal (w : Walk) : ∀ k, Frugal (mwFrag w k)
  | 0 => by intro f st; simp [mwFrag]
  | k + 1 => by
    intro f st
    have := mwSels_budget w (mwFrag w k) (mwFrag_frugal w k) f.sels (some f.cond) st
    simpa [mwFrag] using this

theorem mwRun_budget (w : Walk) (d : Doc) (ss : List Sel) (st : MSt) :
    budget (mwRun w d ss st) ≤ budget st + selsSize ss :=
  mwSels_budget w _ (mwFrag_frugal w _) ss none st

theorem mwOps_budget (w : Walk) (d : Doc) (keep : OpDef → Bool) :
    ∀ (os : List OpDef) (st : MSt), budget (mwOps w d keep os st) ≤ budget st + opsSels os
  | [], st => by simp [mwOps, opsSels]
  | o :: os, st => by
    have h2 := mwRun_budget w d o.sels st
    simp only [mwOps, opsSels]
    cases hk : keep o
    · have h1 := mwOps_budget w d keep os st
      simp only [Bool.false_eq_true, if_false]
      omega
    · have h1 := mwOps_budget w d keep os (mwRun w d o.sels st)
      simp only [if_true]
      omega

/-- a memoising walk over all operations visits at most every selection of the document once -/
theorem mwOps_sel_le (w : Walk) (d : Doc) (keep : OpDef → Bool) :
    (mwOps w d keep d.ops { rem := d.frags }).sel ≤ opsSels d.ops + fragsSels d.frags := by
  have h := mwOps_budget w d keep d.ops { rem := d.frags }
  simp only [budget] at h
  omega

theorem sels_le_size (d : Doc) : opsSels d.ops + fragsSels d.frags ≤ size d := by
  have := opsSels_le d.ops
  have := fragsSels_le d.frags
  simp only [size]
  omega

-- ------------------------------------------------------------------ the fan-out chain

def pos0 : Pos := ⟨0, 0⟩

/-- `fragment N on Query { a }` -/
def leafFrag (n : String) : FragDef :=
  { name := n, cond := "Query", dirs := [], sels := [.field none "a" [] [] [] pos0] }

/-- `fragment N on Query { ...NEXT ...NEXT }` -/
def linkFrag (n next : String) : FragDef :=
  { name := n, cond := "Query", dirs := [], sels := [.spread next [] pos0, .spread next [] pos0] }

/-- fragments `nm i … nm (i+k)`: each spreads the next one twice, the last one selects a field -/
def chainFrom (nm : Nat → String) : Nat → Nat → List FragDef
  | i, 0 => [leafFrag (nm i)]
  | i, k + 1 => linkFrag (nm i) (nm (i + 1)) :: chainFrom nm (i + 1) k

/-- `{ ...F0 }  fragment F0 { ...F1 ...F1 } … fragment Fn { a }` -/
def chain (nm : Nat → String) (n : Nat) : Doc :=
  { ops := [{ ty := .query, name := none, vars := [], dirs := [], sels := [.spread (nm 0) [] pos0] }],
    frags := chainFrom nm 0 n }

def fragAt (nm : Nat → String) (i k t : Nat) : FragDef :=
  if t < k then linkFrag (nm (i + t)) (nm (i + t + 1)) else leafFrag (nm (i + t))

theorem find_chainFrom (nm : Nat → String) (hinj : ∀ a b, nm a = nm b → a = b) :
    ∀ k i t, t ≤ k → (chainFrom nm i k).find? (fun f => f.name = nm (i + t)) = some (fragAt nm i k t)
  | 0, i, t, h => by
    have : t = 0 := by omega
    subst this
    simp [chainFrom, fragAt, leafFrag]
  | k + 1, i, 0, _ => by
    simp [chainFrom, fragAt, linkFrag]
  | k + 1, i, t + 1, h => by
    have hne : ¬ nm i = nm (i + (t + 1)) := fun e => by have := hinj _ _ e; omega
    have ih := find_chainFrom nm hinj k (i + 1) t (by omega)
    have e1 : i + (t + 1) = i + 1 + t := by omega
    simp only [chainFrom, List.find?_cons, linkFrag, hne, decide_false]
    rw [e1, ih]
    simp only [fragAt, e1]
    congr 1
    simp

theorem chain_frag? (nm : Nat → String) (hinj : ∀ a b, nm a = nm b → a = b) (n j : Nat) (h : j ≤ n) :
    (chain nm n).frag? (nm j) = some (fragAt nm 0 n j) := by
  have := find_chainFrom nm hinj n 0 j h
  simpa [Doc.frag?, chain] using this

theorem fragsSize_chainFrom (nm : Nat → String) : ∀ k i, fragsSize (chainFrom nm i k) = 3 * k + 2
  | 0, i => by simp [chainFrom, fragsSize, leafFrag, selsSize, selSize]
  | k + 1, i => by
    have := fragsSize_chainFrom nm k (i + 1)
    simp only [chainFrom, fragsSize, linkFrag, selsSize, selSize]
    omega

theorem size_chain (nm : Nat → String) (n : Nat) : size (chain nm n) = 3 * n + 4 := by
  have := fragsSize_chainFrom nm n 0
  simp only [size, chain, opsSize, selsSize, selSize]
  omega

/-- pinned inline walk: the fragment `r` links before the end costs at least `2^r` visits -/
theorem vFrag_chain (nm : Nat → String) (hinj : ∀ a b, nm a = nm b → a = b) (n : Nat) :
    ∀ r j fuel, j + r = n → r + 1 ≤ fuel → 2 ^ r ≤ vFrag (chain nm n) fuel (nm j)
  | 0, j, fuel + 1, hj, _ => by
    have hl := chain_frag? nm hinj n j (by omega)
    have : ¬ j < n := by omega
    simp only [vFrag, hl, fragAt, this, if_false, leafFrag, vSels, vSel]
    split <;> simp
  | r + 1, j, fuel + 1, hj, hf => by
    have hl := chain_frag? nm hinj n j (by omega)
    have hlt : j < n := by omega
    have ih := vFrag_chain nm hinj n r (j + 1) fuel (by omega) (by omega)
    simp only [vFrag, hl, fragAt, hlt, if_true, linkFrag, vSels, vSel, Nat.zero_add]
    rw [Nat.pow_succ]
    omega

/-- the recursion check lets the chain through when it is short enough -/
theorem dpFrag_chain (nm : Nat → String) (hinj : ∀ a b, nm a = nm b → a = b) (n max : Nat) :
    ∀ r j fuel cur, j + r = n → r + 1 ≤ fuel → cur + r ≤ max →
      (dpFrag (chain nm n) max fuel cur (nm j)).2 = true
  | 0, j, fuel + 1, cur, hj, _, hc => by
    have hl := chain_frag? nm hinj n j (by omega)
    have h1 : ¬ j < n := by omega
    have h2 : ¬ cur > max := by omega
    simp [dpFrag, hl, fragAt, h1, h2, leafFrag, dpItems, dpSel]
  | r + 1, j, fuel + 1, cur, hj, hf, hc => by
    have hl := chain_frag? nm hinj n j (by omega)
    have hlt : j < n := by omega
    have h2 : ¬ cur > max := by omega
    have ih := dpFrag_chain nm hinj n max r (j + 1) fuel (cur + 1) (by omega) (by omega) (by omega)
    simp [dpFrag, hl, fragAt, hlt, h2, linkFrag, dpItems, dpSel, ih]

/-- the chain carries no directives -/
theorem mdFrag_chain (nm : Nat → String) (hinj : ∀ a b, nm a = nm b → a = b) (n lim : Nat) :
    ∀ fuel j, j ≤ n → (mdFrag (chain nm n) lim fuel (nm j)).2 = true
  | 0, j, _ => by simp [mdFrag]
  | fuel + 1, j, hj => by
    have hl := chain_frag? nm hinj n j hj
    by_cases hlt : j < n
    · have ih := mdFrag_chain nm hinj n lim fuel (j + 1) (by omega)
      simp [mdFrag, hl, fragAt, hlt, linkFrag, mdSels, mdSel, ih]
    · simp [mdFrag, hl, fragAt, hlt, leafFrag, mdSels, mdSel]

-- ------------------------------------------------------------------ the request on the chain

theorem chain_ops (nm : Nat → String) (n : Nat) :
    (chain nm n).ops = [{ ty := .query, name := none, vars := [], dirs := [], sels := [.spread (nm 0) [] pos0] }] := rfl

theorem depth_chain_ok (nm : Nat → String) (hinj : ∀ a b, nm a = nm b → a = b) (n : Nat) (c : Config)
    (hn : n + 1 ≤ c.recLimit) : (depthPinned c (chain nm n)).2 = true := by
  have h := dpFrag_chain nm hinj n c.recLimit n 0 (c.recLimit + 2) 1 (by omega) (by omega) (by omega)
  simp [depthPinned, chain_ops, seqOps, dpItems, dpSel, h]

theorem dirs_chain_ok (nm : Nat → String) (hinj : ∀ a b, nm a = nm b → a = b) (n : Nat) (c : Config)
    (lim : Nat) : (dirsPinned c lim (chain nm n)).2 = true := by
  have h := mdFrag_chain nm hinj n lim (c.recLimit + 1) 0 (by omega)
  simp [dirsPinned, chain_ops, seqOps, mdSels, mdSel, h]

theorem inline_chain (nm : Nat → String) (hinj : ∀ a b, nm a = nm b → a = b) (n : Nat) (c : Config)
    (hn : n + 1 ≤ c.recLimit) : 2 ^ n ≤ inlinePassPinned c (chain nm n) := by
  have h := vFrag_chain nm hinj n n 0 (c.recLimit + 1) (by omega) (by omega)
  simp only [inlinePassPinned, chain_ops, List.map_cons, List.map_nil, List.sum_cons, List.sum_nil, hasRoot,
    if_true, vSels, vSel]
  omega

/-- the pass table read from `check_rules`: strict = one normal + one inline pass -/
theorem modes_strict : countNormal (passModes true) = 1 ∧ countInline (passModes true) = 1 := by decide

/-- … fast = one inline pass -/
theorem modes_fast : countNormal (passModes false) = 0 ∧ countInline (passModes false) = 1 := by decide

/-- a request whose limit checks pass reaches validation; its inline-mode visits are the pass's -/
theorem run_of_pass (D : Defects) (c : Config) (d : Doc) (hd : (depthPinned c d).2 = true)
    (hm : ∀ lim, c.maxDirs = some lim → (dirsPinned c lim d).2 = true) :
    (run D c d).1 = .done ∧ (run D c d).2.selInline = inlinePass D c d := by
  unfold run
  cases hmd : c.maxDirs with
  | none => cases hl : D.limitsNoMemo <;> cases hs : c.strict <;> simp [hd, modes_strict, modes_fast]
  | some lim =>
    have h2 := hm lim hmd
    cases hl : D.limitsNoMemo <;> cases hs : c.strict <;> simp [hd, h2, modes_strict, modes_fast]

-- ------------------------------------------------------------------ 2^n outgrows the bound

/-- the specification's polynomial on the chain with `n` links, in strict mode -/
def chainBound (n : Nat) : Nat := (3 * n + 5) * (n + 2) * 4

theorem chainBound_step (n : Nat) (h : 1 ≤ n) : chainBound (n + 1) ≤ 2 * chainBound n := by
  have e1 : chainBound (n + 1) = 12 * (n * n) + 68 * n + 96 := by simp only [chainBound]; grind
  have e2 : 2 * chainBound n = 24 * (n * n) + 88 * n + 80 := by simp only [chainBound]; grind
  omega

theorem chainBound_lt_pow' (k : Nat) : chainBound (k + 11) < 2 ^ (k + 11) := by
  induction k with
  | zero => simp [chainBound]
  | succ k ih =>
    have h1 := chainBound_step (k + 11) (by omega)
    have e : k + 1 + 11 = (k + 11) + 1 := by omega
    rw [e, Nat.pow_succ]
    generalize 2 ^ (k + 11) = p at *
    generalize chainBound (k + 11) = q at *
    generalize chainBound (k + 11 + 1) = r at *
    omega

theorem chainBound_lt_pow (n : Nat) (h : 11 ≤ n) : chainBound n < 2 ^ n := by
  obtain ⟨k, rfl⟩ : ∃ k, n = k + 11 := ⟨n - 11, by omega⟩
  exact chainBound_lt_pow' k

theorem length_chainFrom (nm : Nat → String) : ∀ k i, (chainFrom nm i k).length = k + 1
  | 0, i => by simp [chainFrom]
  | k + 1, i => by simp [chainFrom, length_chainFrom nm k (i + 1)]

theorem visitBound_chain_le (nm : Nat → String) (n : Nat) (strict : Bool) :
    visitBound strict (chain nm n) ≤ chainBound n := by
  have hs := size_chain nm n
  have hf : numFragments (chain nm n) = n + 1 := by simp [numFragments, chain, length_chainFrom]
  simp only [visitBound, hs, hf, chainBound, passes]
  have e : 3 * n + 4 + 1 = 3 * n + 5 := by omega
  have e2 : n + 1 + 1 = n + 2 := by omega
  rw [e, e2]
  apply Nat.mul_le_mul_left
  cases strict <;> simp

-- ------------------------------------------------------------------ the repaired walkers are linear

theorem limitMemo_le (d : Doc) : limitMemo d ≤ size d :=
  Nat.le_trans (mwOps_sel_le _ d _) (sels_le_size d)

theorem inlinePassMemo_le (c : Config) (d : Doc) : inlinePassMemo c d ≤ size d :=
  Nat.le_trans (mwOps_sel_le _ d _) (sels_le_size d)

theorem normalPass_le_size (c : Config) (d : Doc) : normalPass c d ≤ size d :=
  Nat.le_trans (normalPass_le c d) (sels_le_size d)

-- ------------------------------------------------------------------ the overlap rule is quadratic

theorem addp_fst (a b : Nat × Nat) : (addp a b).1 = a.1 + b.1 := rfl

theorem ovRun_le (d : Doc) (ss : List Sel) : (ovRun d ss).1 ≤ selsSize ss + fragsSels d.frags := by
  have h := mwRun_budget .overlap d ss { rem := d.frags }
  simp only [budget] at h
  simp only [ovRun]
  omega

mutual
theorem owSel_le (d : Doc) (K : Nat) :
    ∀ (s : Sel), selSize s + fragsSels d.frags ≤ K → (owSel d s).1 ≤ selSize s * K
  | .field _ name _ _ sub _, h => by
    simp only [selSize] at h
    have h1 := ovRun_le d sub
    have h2 := owSels_le d K sub (by omega)
    simp only [owSel, selSize]
    rw [Nat.add_mul, Nat.one_mul]
    split
    · simp
    · split
      · simp
      · rw [addp_fst]; omega
  | .spread _ _ _, _ => by simp [owSel]
  | .inline _ _ sub _, h => by
    simp only [selSize] at h
    have h1 := ovRun_le d sub
    have h2 := owSels_le d K sub (by omega)
    simp only [owSel, selSize]
    rw [Nat.add_mul, Nat.one_mul]
    split
    · simp
    · rw [addp_fst]; omega
theorem owSels_le (d : Doc) (K : Nat) :
    ∀ (ss : List Sel), selsSize ss + fragsSels d.frags ≤ K → (owSels d ss).1 ≤ selsSize ss * K
  | [], _ => by simp [owSels]
  | s :: ss, h => by
    simp only [selsSize] at h
    have h1 := owSel_le d K s (by omega)
    have h2 := owSels_le d K ss (by omega)
    simp only [owSels, selsSize, addp_fst]
    rw [Nat.add_mul]
    omega
end

theorem owSet_le (d : Doc) (K : Nat) (ss : List Sel) (h : selsSize ss + fragsSels d.frags ≤ K) :
    (owSet d ss).1 ≤ (1 + selsSize ss) * K := by
  have h1 := ovRun_le d ss
  have h2 := owSels_le d K ss h
  simp only [owSet]
  rw [Nat.add_mul, Nat.one_mul]
  split
  · simp
  · rw [addp_fst]; omega

theorem mem_fragsSels {f : FragDef} : ∀ {fs : List FragDef}, f ∈ fs → selsSize f.sels ≤ fragsSels fs
  | [], h => by simp at h
  | g :: gs, h => by
    simp only [List.mem_cons] at h
    simp only [fragsSels]
    rcases h with rfl | h
    · omega
    · have := mem_fragsSels h; omega

theorem mem_opsSels {o : OpDef} : ∀ {os : List OpDef}, o ∈ os → selsSize o.sels ≤ opsSels os
  | [], h => by simp at h
  | g :: gs, h => by
    simp only [List.mem_cons] at h
    simp only [opsSels]
    rcases h with rfl | h
    · omega
    · have := mem_opsSels h; omega

theorem sump_frags_le (d : Doc) (K : Nat) : ∀ (fs : List FragDef),
    (∀ f ∈ fs, selsSize f.sels + fragsSels d.frags ≤ K) →
      (sump (fs.map fun f => owSet d f.sels)).1 ≤ fragsSize fs * K
  | [], _ => by simp [sump]
  | f :: fs, h => by
    have h1 := owSet_le d K f.sels (h f (by simp))
    have h2 := sump_frags_le d K fs (fun g hg => h g (by simp [hg]))
    simp only [List.map_cons, sump, addp_fst, fragsSize]
    rw [Nat.add_mul]
    omega

theorem sump_ops_le (c : Config) (d : Doc) (K : Nat) : ∀ (os : List OpDef),
    (∀ o ∈ os, selsSize o.sels + fragsSels d.frags ≤ K) →
      (sump (os.map fun o => if hasRoot c o.ty then owSet d o.sels else (0, 0))).1 ≤ opsSize os * K
  | [], _ => by simp [sump]
  | o :: os, h => by
    have h1 := owSet_le d K o.sels (h o (by simp))
    have h2 := sump_ops_le c d K os (fun g hg => h g (by simp [hg]))
    simp only [List.map_cons, sump, addp_fst, opsSize]
    rw [Nat.add_mul]
    split
    · omega
    · simp only; omega

theorem overlapWork_le (c : Config) (d : Doc) : (overlapWork c d).1 ≤ size d * (2 * size d) := by
  have hs := sels_le_size d
  have hf := sump_frags_le d (2 * size d) d.frags (fun f hf => by have := mem_fragsSels hf; omega)
  have ho := sump_ops_le c d (2 * size d) d.ops (fun o ho => by have := mem_opsSels ho; omega)
  simp only [overlapWork, addp_fst, size]
  simp only [size] at hf ho
  rw [Nat.add_mul]
  omega

-- ------------------------------------------------------------------ pinned walkers on flat fragments

mutual
/-- no named fragment spread anywhere inside -/
def sfSel : Sel → Bool
  | .field _ _ _ _ sub _ => sfSels sub
  | .spread _ _ _ => false
  | .inline _ _ sub _ => sfSels sub
def sfSels : List Sel → Bool
  | [] => true
  | s :: ss => sfSel s && sfSels ss
end

/-- fragment definitions spread no fragments (operations may spread any fragment any number of times) -/
def FlatFragments (d : Doc) : Prop := ∀ f ∈ d.frags, sfSels f.sels = true

theorem one_add_mul (x K : Nat) : (1 + x) * K = K + x * K := by rw [Nat.add_mul, Nat.one_mul]

-- the visitor

mutual
theorem vSel_sf (rec : String → Nat) : ∀ (s : Sel), sfSel s = true → vSel rec s ≤ selSize s
  | .field _ name _ _ sub _, h => by
    simp only [sfSel] at h
    have := vSels_sf rec sub h
    simp only [vSel, selSize]
    split <;> omega
  | .spread _ _ _, h => by simp [sfSel] at h
  | .inline _ _ sub _, h => by
    simp only [sfSel] at h
    have := vSels_sf rec sub h
    simp only [vSel, selSize]
    omega
theorem vSels_sf (rec : String → Nat) : ∀ (ss : List Sel), sfSels ss = true → vSels rec ss ≤ selsSize ss
  | [], _ => by simp [vSels, selsSize]
  | s :: ss, h => by
    simp only [sfSels, Bool.and_eq_true] at h
    have := vSel_sf rec s h.1
    have := vSels_sf rec ss h.2
    simp only [vSels, selsSize]
    omega
end

mutual
theorem vSel_bounded (rec : String → Nat) (M : Nat) (hr : ∀ n, rec n ≤ M) :
    ∀ (s : Sel), vSel rec s ≤ selSize s * (1 + M)
  | .field _ name _ _ sub _ => by
    have := vSels_bounded rec M hr sub
    simp only [vSel, selSize]
    rw [one_add_mul]
    split <;> omega
  | .spread n _ _ => by
    have := hr n
    simp only [vSel, selSize]
    omega
  | .inline _ _ sub _ => by
    have := vSels_bounded rec M hr sub
    simp only [vSel, selSize]
    rw [one_add_mul]
    omega
theorem vSels_bounded (rec : String → Nat) (M : Nat) (hr : ∀ n, rec n ≤ M) :
    ∀ (ss : List Sel), vSels rec ss ≤ selsSize ss * (1 + M)
  | [] => by simp [vSels, selsSize]
  | s :: ss => by
    have := vSel_bounded rec M hr s
    have := vSels_bounded rec M hr ss
    simp only [vSels, selsSize]
    rw [Nat.add_mul]
    omega
end

theorem frag?_mem {d : Doc} {n : String} {f : FragDef} (h : d.frag? n = some f) : f ∈ d.frags :=
  List.mem_of_find?_eq_some h

theorem vFrag_flat (d : Doc) (hf : FlatFragments d) : ∀ k n, vFrag d k n ≤ fragsSels d.frags
  | 0, n => by simp [vFrag]
  | k + 1, n => by
    simp only [vFrag]
    split
    · rename_i f heq
      have hm := frag?_mem heq
      have := vSels_sf (vFrag d k) f.sels (hf f hm)
      have := mem_fragsSels hm
      omega
    · omega

theorem inlinePassPinned_flat (c : Config) (d : Doc) (hf : FlatFragments d) :
    inlinePassPinned c d ≤ opsSels d.ops * (1 + fragsSels d.frags) := by
  simp only [inlinePassPinned]
  generalize d.ops = os
  induction os with
  | nil => simp [opsSels]
  | cons o os ih =>
    have := vSels_bounded (vFrag d (c.recLimit + 1)) _ (vFrag_flat d hf _) o.sels
    simp only [List.map_cons, List.sum_cons, opsSels]
    rw [Nat.add_mul]
    split <;> omega

-- the recursion walker

mutual
theorem dpSel_sf (rec : Nat → String → Nat × Bool) (max : Nat) :
    ∀ (s : Sel) (cur : Nat), sfSel s = true → (dpSel rec max cur s).1 + 1 ≤ selSize s
  | .field _ _ _ _ sub _, cur, h => by
    simp only [sfSel] at h
    have := dpItems_sf rec max sub (cur + 1) h
    simp only [dpSel, selSize]
    split
    · simp
    · split
      · simp
      · omega
  | .spread _ _ _, _, h => by simp [sfSel] at h
  | .inline _ _ sub _, cur, h => by
    simp only [sfSel] at h
    have := dpItems_sf rec max sub (cur + 1) h
    simp only [dpSel, selSize]
    split
    · simp
    · omega
theorem dpItems_sf (rec : Nat → String → Nat × Bool) (max : Nat) :
    ∀ (ss : List Sel) (cur : Nat), sfSels ss = true → (dpItems rec max cur ss).1 ≤ selsSize ss
  | [], _, _ => by simp [dpItems, selsSize]
  | s :: ss, cur, h => by
    simp only [sfSels, Bool.and_eq_true] at h
    have := dpSel_sf rec max s cur h.1
    have := dpItems_sf rec max ss cur h.2
    simp only [dpItems, selsSize]
    split <;> simp only <;> omega
end

mutual
theorem dpSel_bounded (rec : Nat → String → Nat × Bool) (max M : Nat) (hr : ∀ cur n, (rec cur n).1 ≤ M) :
    ∀ (s : Sel) (cur : Nat), (dpSel rec max cur s).1 + 1 ≤ selSize s * (1 + M)
  | .field _ _ _ _ sub _, cur => by
    have := dpItems_bounded rec max M hr sub (cur + 1)
    simp only [dpSel, selSize]
    rw [one_add_mul]
    split
    · simp only; omega
    · split
      · simp only; omega
      · omega
  | .spread n _ _, cur => by
    have := hr (cur + 1) n
    simp only [dpSel, selSize]
    omega
  | .inline _ _ sub _, cur => by
    have := dpItems_bounded rec max M hr sub (cur + 1)
    simp only [dpSel, selSize]
    rw [one_add_mul]
    split
    · simp only; omega
    · omega
theorem dpItems_bounded (rec : Nat → String → Nat × Bool) (max M : Nat) (hr : ∀ cur n, (rec cur n).1 ≤ M) :
    ∀ (ss : List Sel) (cur : Nat), (dpItems rec max cur ss).1 ≤ selsSize ss * (1 + M)
  | [], _ => by simp [dpItems, selsSize]
  | s :: ss, cur => by
    have := dpSel_bounded rec max M hr s cur
    have := dpItems_bounded rec max M hr ss cur
    simp only [dpItems, selsSize]
    rw [Nat.add_mul]
    split <;> simp only <;> omega
end

theorem dpFrag_flat (d : Doc) (max : Nat) (hf : FlatFragments d) :
    ∀ k cur n, (dpFrag d max k cur n).1 ≤ fragsSels d.frags
  | 0, _, _ => by simp [dpFrag]
  | k + 1, cur, n => by
    simp only [dpFrag]
    split
    · simp
    · rename_i f heq
      have hm := frag?_mem heq
      have := dpItems_sf (dpFrag d max k) max f.sels cur (hf f hm)
      have := mem_fragsSels hm
      split
      · simp
      · omega

theorem seqOps_le (f : OpDef → Nat × Bool) (g : OpDef → Nat) :
    ∀ (os : List OpDef), (∀ o ∈ os, (f o).1 ≤ g o) → (seqOps f os).1 ≤ (os.map g).sum
  | [], _ => by simp [seqOps]
  | o :: os, h => by
    have h1 := h o (by simp)
    have h2 := seqOps_le f g os (fun x hx => h x (by simp [hx]))
    simp only [seqOps, List.map_cons, List.sum_cons]
    split <;> (try simp only) <;> omega

theorem sum_opsSels_mul (K : Nat) : ∀ (os : List OpDef),
    (os.map fun o => selsSize o.sels * K).sum = opsSels os * K
  | [] => by simp [opsSels]
  | o :: os => by
    simp only [List.map_cons, List.sum_cons, opsSels, sum_opsSels_mul K os]
    rw [Nat.add_mul]

theorem depthPinned_flat (c : Config) (d : Doc) (hf : FlatFragments d) :
    (depthPinned c d).1 ≤ opsSels d.ops * (1 + fragsSels d.frags) := by
  have h := seqOps_le (fun o => dpItems (dpFrag d c.recLimit (c.recLimit + 2)) c.recLimit 0 o.sels)
    (fun o => selsSize o.sels * (1 + fragsSels d.frags)) d.ops
    (fun o _ => dpItems_bounded _ _ _ (dpFrag_flat d c.recLimit hf _) o.sels 0)
  rw [sum_opsSels_mul] at h
  exact h

-- the directive walker

mutual
theorem mdSel_sf (rec : String → Nat × Bool) (lim : Nat) :
    ∀ (s : Sel), sfSel s = true → (mdSel rec lim s).1 + 1 ≤ selSize s
  | .field _ _ _ _ sub _, h => by
    simp only [sfSel] at h
    have := mdSels_sf rec lim sub h
    simp only [mdSel, selSize]
    split
    · simp
    · omega
  | .spread _ _ _, h => by simp [sfSel] at h
  | .inline _ _ sub _, h => by
    simp only [sfSel] at h
    have := mdSels_sf rec lim sub h
    simp only [mdSel, selSize]
    omega
theorem mdSels_sf (rec : String → Nat × Bool) (lim : Nat) :
    ∀ (ss : List Sel), sfSels ss = true → (mdSels rec lim ss).1 ≤ selsSize ss
  | [], _ => by simp [mdSels, selsSize]
  | s :: ss, h => by
    simp only [sfSels, Bool.and_eq_true] at h
    have := mdSel_sf rec lim s h.1
    have := mdSels_sf rec lim ss h.2
    simp only [mdSels, selsSize]
    split <;> simp only <;> omega
end

mutual
theorem mdSel_bounded (rec : String → Nat × Bool) (lim M : Nat) (hr : ∀ n, (rec n).1 ≤ M) :
    ∀ (s : Sel), (mdSel rec lim s).1 + 1 ≤ selSize s * (1 + M)
  | .field _ _ _ _ sub _ => by
    have := mdSels_bounded rec lim M hr sub
    simp only [mdSel, selSize]
    rw [one_add_mul]
    split
    · simp only; omega
    · omega
  | .spread n _ _ => by
    have := hr n
    simp only [mdSel, selSize]
    omega
  | .inline _ _ sub _ => by
    have := mdSels_bounded rec lim M hr sub
    simp only [mdSel, selSize]
    rw [one_add_mul]
    omega
theorem mdSels_bounded (rec : String → Nat × Bool) (lim M : Nat) (hr : ∀ n, (rec n).1 ≤ M) :
    ∀ (ss : List Sel), (mdSels rec lim ss).1 ≤ selsSize ss * (1 + M)
  | [] => by simp [mdSels, selsSize]
  | s :: ss => by
    have := mdSel_bounded rec lim M hr s
    have := mdSels_bounded rec lim M hr ss
    simp only [mdSels, selsSize]
    rw [Nat.add_mul]
    split <;> simp only <;> omega
end

theorem mdFrag_flat (d : Doc) (lim : Nat) (hf : FlatFragments d) :
    ∀ k n, (mdFrag d lim k n).1 ≤ fragsSels d.frags
  | 0, _ => by simp [mdFrag]
  | k + 1, n => by
    simp only [mdFrag]
    split
    · simp
    · rename_i f heq
      have hm := frag?_mem heq
      have := mdSels_sf (mdFrag d lim k) lim f.sels (hf f hm)
      have := mem_fragsSels hm
      omega

theorem dirsPinned_flat (c : Config) (lim : Nat) (d : Doc) (hf : FlatFragments d) :
    (dirsPinned c lim d).1 ≤ opsSels d.ops * (1 + fragsSels d.frags) := by
  have h := seqOps_le (fun o => mdSels (mdFrag d lim (c.recLimit + 1)) lim o.sels)
    (fun o => selsSize o.sels * (1 + fragsSels d.frags)) d.ops
    (fun o _ => mdSels_bounded _ _ _ (mdFrag_flat d lim hf _) o.sels)
  rw [sum_opsSels_mul] at h
  exact h

theorem flat_walk_le_quadratic (d : Doc) :
    opsSels d.ops * (1 + fragsSels d.frags) ≤ size d * (1 + size d) := by
  have h := sels_le_size d
  exact Nat.mul_le_mul (by omega) (by omega)

mutual
/-- the names of the fragment spreads written in a selection set, with repetitions -/
def spreadNamesSel : Sel → List String
  | .field _ _ _ _ sub _ => spreadNames sub
  | .spread n _ _ => [n]
  | .inline _ _ sub _ => spreadNames sub
def spreadNames : List Sel → List String
  | [] => []
  | s :: ss => spreadNamesSel s ++ spreadNames ss
end

-- ------------------------------------------------------------------ pinned walkers, general upper bound

/-- `(1 + F)^k` with `F` the selections of all fragment definitions: what `k` levels of fragment
    nesting can multiply a walk by -/
def fan (d : Doc) (k : Nat) : Nat := (1 + fragsSels d.frags) ^ k

theorem fan_pos (d : Doc) (k : Nat) : 1 ≤ fan d k := Nat.pow_pos (by omega)

theorem fan_succ (d : Doc) (k : Nat) : fan d (k + 1) = fan d k + fragsSels d.frags * fan d k := by
  simp only [fan, Nat.pow_succ]
  rw [Nat.mul_comm, Nat.add_mul, Nat.one_mul]

theorem fan_mono (d : Doc) {a b : Nat} (h : a ≤ b) : fan d a ≤ fan d b :=
  Nat.pow_le_pow_right (by omega) h

theorem vFrag_fan (d : Doc) : ∀ k n, vFrag d k n + 1 ≤ fan d k
  | 0, n => by simp [vFrag, fan]
  | k + 1, n => by
    have hp := fan_pos d k
    simp only [vFrag]
    rw [fan_succ]
    split
    · rename_i f heq
      have hb := vSels_bounded (vFrag d k) (fan d k - 1) (fun m => by have := vFrag_fan d k m; omega) f.sels
      have e : 1 + (fan d k - 1) = fan d k := by omega
      rw [e] at hb
      have := Nat.mul_le_mul_right (fan d k) (mem_fragsSels (frag?_mem heq))
      omega
    · omega

theorem inlinePassPinned_fan (c : Config) (d : Doc) :
    inlinePassPinned c d ≤ opsSels d.ops * fan d (c.recLimit + 1) := by
  simp only [inlinePassPinned]
  have hp := fan_pos d (c.recLimit + 1)
  generalize d.ops = os
  induction os with
  | nil => simp [opsSels]
  | cons o os ih =>
    have hb := vSels_bounded (vFrag d (c.recLimit + 1)) (fan d (c.recLimit + 1) - 1)
      (fun m => by have := vFrag_fan d (c.recLimit + 1) m; omega) o.sels
    have e : 1 + (fan d (c.recLimit + 1) - 1) = fan d (c.recLimit + 1) := by omega
    rw [e] at hb
    simp only [List.map_cons, List.sum_cons, opsSels]
    rw [Nat.add_mul]
    split <;> omega

theorem dpFrag_fan (d : Doc) (max : Nat) : ∀ k cur n, (dpFrag d max k cur n).1 + 1 ≤ fan d k
  | 0, _, _ => by simp [dpFrag, fan]
  | k + 1, cur, n => by
    have hp := fan_pos d k
    simp only [dpFrag]
    rw [fan_succ]
    split
    · simp only; omega
    · rename_i f heq
      have hb := dpItems_bounded (dpFrag d max k) max (fan d k - 1)
        (fun c m => by have := dpFrag_fan d max k c m; omega) f.sels cur
      have e : 1 + (fan d k - 1) = fan d k := by omega
      rw [e] at hb
      have := Nat.mul_le_mul_right (fan d k) (mem_fragsSels (frag?_mem heq))
      split
      · simp only; omega
      · omega

theorem depthPinned_fan (c : Config) (d : Doc) :
    (depthPinned c d).1 ≤ opsSels d.ops * fan d (c.recLimit + 2) := by
  have hp := fan_pos d (c.recLimit + 2)
  have e : 1 + (fan d (c.recLimit + 2) - 1) = fan d (c.recLimit + 2) := by omega
  have h := seqOps_le (fun o => dpItems (dpFrag d c.recLimit (c.recLimit + 2)) c.recLimit 0 o.sels)
    (fun o => selsSize o.sels * fan d (c.recLimit + 2)) d.ops
    (fun o _ => by
      have hb := dpItems_bounded (dpFrag d c.recLimit (c.recLimit + 2)) c.recLimit (fan d (c.recLimit + 2) - 1)
        (fun cu m => by have := dpFrag_fan d c.recLimit (c.recLimit + 2) cu m; omega) o.sels 0
      rw [e] at hb
      exact hb)
  rw [sum_opsSels_mul] at h
  exact h

theorem mdFrag_fan (d : Doc) (lim : Nat) : ∀ k n, (mdFrag d lim k n).1 + 1 ≤ fan d k
  | 0, _ => by simp [mdFrag, fan]
  | k + 1, n => by
    have hp := fan_pos d k
    simp only [mdFrag]
    rw [fan_succ]
    split
    · simp only; omega
    · rename_i f heq
      have hb := mdSels_bounded (mdFrag d lim k) lim (fan d k - 1)
        (fun m => by have := mdFrag_fan d lim k m; omega) f.sels
      have e : 1 + (fan d k - 1) = fan d k := by omega
      rw [e] at hb
      have := Nat.mul_le_mul_right (fan d k) (mem_fragsSels (frag?_mem heq))
      omega

theorem dirsPinned_fan (c : Config) (lim : Nat) (d : Doc) :
    (dirsPinned c lim d).1 ≤ opsSels d.ops * fan d (c.recLimit + 1) := by
  have hp := fan_pos d (c.recLimit + 1)
  have e : 1 + (fan d (c.recLimit + 1) - 1) = fan d (c.recLimit + 1) := by omega
  have h := seqOps_le (fun o => mdSels (mdFrag d lim (c.recLimit + 1)) lim o.sels)
    (fun o => selsSize o.sels * fan d (c.recLimit + 1)) d.ops
    (fun o _ => by
      have hb := mdSels_bounded (mdFrag d lim (c.recLimit + 1)) lim (fan d (c.recLimit + 1) - 1)
        (fun m => by have := mdFrag_fan d lim (c.recLimit + 1) m; omega) o.sels
      rw [e] at hb
      exact hb)
  rw [sum_opsSels_mul] at h
  exact h

/-- everything is below `size * (1 + size)^(recLimit + 2)` -/
theorem fan_walk_le (c : Config) (d : Doc) {k : Nat} (hk : k ≤ c.recLimit + 2) :
    opsSels d.ops * fan d k ≤ size d * (1 + size d) ^ (c.recLimit + 2) := by
  have h := sels_le_size d
  have h1 : fan d k ≤ (1 + size d) ^ (c.recLimit + 2) :=
    Nat.le_trans (fan_mono d hk) (Nat.pow_le_pow_left (by omega) _)
  exact Nat.mul_le_mul (by omega) h1

-- ------------------------------------------------------------------ pinned walkers, no repeated spread

/-! A document in which no fragment name is spread twice: the pinned (re-walking) walkers are linear.
    Every walker is first bounded by the tree walk `tw` (a recurrence over spread names only); the
    occurrence counting is `tw_budget`, which threads the list of fragment definitions not yet
    entered — as the memoising walkers do in their state — through a walk that does not. -/

/-- sum of `r` over a list of names -/
def sumr (r : String → Nat) (ns : List String) : Nat := (ns.map r).sum

theorem sumr_nil (r : String → Nat) : sumr r [] = 0 := rfl
theorem sumr_cons (r : String → Nat) (n : String) (ns : List String) : sumr r (n :: ns) = r n + sumr r ns := by
  simp [sumr]
theorem sumr_append (r : String → Nat) (a b : List String) : sumr r (a ++ b) = sumr r a + sumr r b := by
  simp [sumr]

mutual
theorem vSel_spreads (rec r : String → Nat) (hr : ∀ n, rec n ≤ r n) :
    ∀ (s : Sel), vSel rec s ≤ selSize s + sumr r (spreadNamesSel s)
  | .field _ name _ _ sub _ => by
    have := vSels_spreads rec r hr sub
    simp only [vSel, selSize, spreadNamesSel]
    split <;> omega
  | .spread n _ _ => by
    have := hr n
    simp only [vSel, selSize, spreadNamesSel, sumr_cons, sumr_nil]
    omega
  | .inline _ _ sub _ => by
    have := vSels_spreads rec r hr sub
    simp only [vSel, selSize, spreadNamesSel]
    omega
theorem vSels_spreads (rec r : String → Nat) (hr : ∀ n, rec n ≤ r n) :
    ∀ (ss : List Sel), vSels rec ss ≤ selsSize ss + sumr r (spreadNames ss)
  | [] => by simp [vSels, selsSize]
  | s :: ss => by
    have := vSel_spreads rec r hr s
    have := vSels_spreads rec r hr ss
    simp only [vSels, selsSize, spreadNames, sumr_append]
    omega
end

mutual
theorem dpSel_spreads (rec : Nat → String → Nat × Bool) (max : Nat) (r : String → Nat)
    (hr : ∀ cur n, (rec cur n).1 ≤ r n) :
    ∀ (s : Sel) (cur : Nat), (dpSel rec max cur s).1 + 1 ≤ selSize s + sumr r (spreadNamesSel s)
  | .field _ _ _ _ sub _, cur => by
    have := dpItems_spreads rec max r hr sub (cur + 1)
    simp only [dpSel, selSize, spreadNamesSel]
    split
    · simp only; omega
    · split
      · simp only; omega
      · omega
  | .spread n _ _, cur => by
    have := hr (cur + 1) n
    simp only [dpSel, selSize, spreadNamesSel, sumr_cons, sumr_nil]
    omega
  | .inline _ _ sub _, cur => by
    have := dpItems_spreads rec max r hr sub (cur + 1)
    simp only [dpSel, selSize, spreadNamesSel]
    split
    · simp only; omega
    · omega
theorem dpItems_spreads (rec : Nat → String → Nat × Bool) (max : Nat) (r : String → Nat)
    (hr : ∀ cur n, (rec cur n).1 ≤ r n) :
    ∀ (ss : List Sel) (cur : Nat), (dpItems rec max cur ss).1 ≤ selsSize ss + sumr r (spreadNames ss)
  | [], _ => by simp [dpItems, selsSize]
  | s :: ss, cur => by
    have := dpSel_spreads rec max r hr s cur
    have := dpItems_spreads rec max r hr ss cur
    simp only [dpItems, selsSize, spreadNames, sumr_append]
    split <;> simp only <;> omega
end

mutual
theorem mdSel_spreads (rec : String → Nat × Bool) (lim : Nat) (r : String → Nat) (hr : ∀ n, (rec n).1 ≤ r n) :
    ∀ (s : Sel), (mdSel rec lim s).1 + 1 ≤ selSize s + sumr r (spreadNamesSel s)
  | .field _ _ _ _ sub _ => by
    have := mdSels_spreads rec lim r hr sub
    simp only [mdSel, selSize, spreadNamesSel]
    split
    · simp only; omega
    · omega
  | .spread n _ _ => by
    have := hr n
    simp only [mdSel, selSize, spreadNamesSel, sumr_cons, sumr_nil]
    omega
  | .inline _ _ sub _ => by
    have := mdSels_spreads rec lim r hr sub
    simp only [mdSel, selSize, spreadNamesSel]
    omega
theorem mdSels_spreads (rec : String → Nat × Bool) (lim : Nat) (r : String → Nat) (hr : ∀ n, (rec n).1 ≤ r n) :
    ∀ (ss : List Sel), (mdSels rec lim ss).1 ≤ selsSize ss + sumr r (spreadNames ss)
  | [] => by simp [mdSels, selsSize]
  | s :: ss => by
    have := mdSel_spreads rec lim r hr s
    have := mdSels_spreads rec lim r hr ss
    simp only [mdSels, selsSize, spreadNames, sumr_append]
    split <;> simp only <;> omega
end

/-- the tree walk: what entering fragment `n` costs a walker that re-walks at every spread, as a
    recurrence over the spread names of the fragment bodies only -/
def tw (d : Doc) : Nat → String → Nat
  | 0, _ => 0
  | k + 1, n =>
    match d.frag? n with
    | some f => selsSize f.sels + sumr (tw d k) (spreadNames f.sels)
    | none => 0

theorem vFrag_le_tw (d : Doc) : ∀ k n, vFrag d k n ≤ tw d k n
  | 0, _ => by simp [vFrag, tw]
  | k + 1, n => by
    cases h : d.frag? n with
    | none => simp [vFrag, tw, h]
    | some f =>
      simp only [vFrag, tw, h]
      exact vSels_spreads _ _ (vFrag_le_tw d k) _

theorem dpFrag_le_tw (d : Doc) (max : Nat) : ∀ k cur n, (dpFrag d max k cur n).1 ≤ tw d k n
  | 0, _, _ => by simp [dpFrag, tw]
  | k + 1, cur, n => by
    cases h : d.frag? n with
    | none => simp [dpFrag, tw, h]
    | some f =>
      simp only [dpFrag, tw, h]
      split
      · simp
      · exact dpItems_spreads _ _ _ (dpFrag_le_tw d max k) _ _

theorem mdFrag_le_tw (d : Doc) (lim : Nat) : ∀ k n, (mdFrag d lim k n).1 ≤ tw d k n
  | 0, _ => by simp [mdFrag, tw]
  | k + 1, n => by
    cases h : d.frag? n with
    | none => simp [mdFrag, tw, h]
    | some f =>
      simp only [mdFrag, tw, h]
      exact mdSels_spreads _ _ _ (mdFrag_le_tw d lim k) _

/-- the names spread in the bodies of a list of fragment definitions, with repetitions -/
def bodies (fs : List FragDef) : List String := fs.flatMap (fun f => spreadNames f.sels)

theorem bodies_split (l1 l2 : List FragDef) (g : FragDef) :
    bodies (l1 ++ g :: l2) = bodies l1 ++ (spreadNames g.sels ++ bodies l2) := by
  simp [bodies]

theorem bodies_append (l1 l2 : List FragDef) : bodies (l1 ++ l2) = bodies l1 ++ bodies l2 := by
  simp [bodies]

theorem fragsSels_append (l1 l2 : List FragDef) : fragsSels (l1 ++ l2) = fragsSels l1 + fragsSels l2 := by
  induction l1 with
  | nil => simp [fragsSels]
  | cons f l1 ih => simp only [List.cons_append, fragsSels, ih]; omega

theorem frag?_name {d : Doc} {n : String} {f : FragDef} (h : d.frag? n = some f) : f.name = n := by
  have := List.find?_some h
  simpa using this

theorem sumr_tw_zero (d : Doc) (ns : List String) : sumr (tw d 0) ns = 0 := by
  induction ns with
  | nil => rfl
  | cons n ns ih => rw [sumr_cons, ih]; simp [tw]

/-- Occurrence counting over the spread forest.  `ns` are names about to be entered, `later` names
    that will be entered afterwards, `avail` the fragment definitions nobody has entered yet.  If no
    name occurs twice among `ns`, `later` and the bodies of `avail`, and every such name that
    denotes a fragment denotes one of `avail`, then entering all of `ns` (re-walking at every
    spread, any depth `k`) is paid for by the bodies of the fragments it uses up, and the same
    situation holds afterwards for `later` and the fragments left over. -/
theorem tw_budget (d : Doc) : ∀ (k : Nat) (ns later : List String) (avail : List FragDef),
    (ns ++ later ++ bodies avail).Nodup →
    (∀ m ∈ ns ++ later ++ bodies avail, ∀ g, d.frag? m = some g → g ∈ avail) →
    ∃ out, (later ++ bodies out).Nodup ∧ (∀ m ∈ later ++ bodies out, ∀ g, d.frag? m = some g → g ∈ out) ∧
      sumr (tw d k) ns + fragsSels out ≤ fragsSels avail := by
  intro k
  induction k with
  | zero =>
    intro ns later avail h1 h2
    refine ⟨avail, ?_, ?_, ?_⟩
    · simp only [List.nodup_append, List.mem_append] at h1 ⊢
      grind
    · intro m hm g hg
      exact h2 m (by simp only [List.mem_append] at hm ⊢; grind) g hg
    · rw [sumr_tw_zero]; omega
  | succ k ih =>
    intro ns
    induction ns with
    | nil =>
      intro later avail h1 h2
      exact ⟨avail, by simpa using h1, by simpa using h2, by simp [sumr_nil]⟩
    | cons n ns ihn =>
      intro later avail h1 h2
      cases hf : d.frag? n with
      | none =>
        obtain ⟨out, o1, o2, o3⟩ := ihn later avail
          (by simp only [List.cons_append, List.nodup_cons] at h1; exact h1.2)
          (fun m hm g hg => h2 m (by simp only [List.cons_append, List.mem_cons]; exact Or.inr hm) g hg)
        refine ⟨out, o1, o2, ?_⟩
        have e : tw d (k + 1) n = 0 := by simp only [tw, hf]
        rw [sumr_cons, e]
        omega
      | some g =>
        have hg : g ∈ avail := h2 n (by simp) g hf
        obtain ⟨l1, l2, rfl⟩ := List.append_of_mem hg
        have hgn := frag?_name hf
        rw [bodies_split] at h1 h2
        -- enter `g`: its body's spreads first, the siblings and `later` afterwards
        obtain ⟨out1, p1, p2, p3⟩ := ih (spreadNames g.sels) (ns ++ later) (l1 ++ l2)
          (by
            rw [bodies_append]
            simp only [List.cons_append, List.nodup_cons, List.nodup_append, List.mem_append] at h1 ⊢
            grind)
          (by
            intro m hm g' hg'
            rw [bodies_append] at hm
            have hmem : m ∈ n :: ns ++ later ++ (bodies l1 ++ (spreadNames g.sels ++ bodies l2)) := by
              simp only [List.cons_append, List.mem_cons, List.mem_append] at hm ⊢
              grind
            have hin := h2 m hmem g' hg'
            have hne : m ≠ n := by
              simp only [List.cons_append, List.nodup_cons, List.mem_append] at h1
              simp only [List.mem_append] at hm
              intro e; subst e
              grind
            have hgg : g' ≠ g := by
              intro e; subst e
              exact hne ((frag?_name hg').symm.trans hgn)
            simp only [List.mem_append, List.mem_cons] at hin ⊢
            grind)
        obtain ⟨out2, q1, q2, q3⟩ := ihn later out1 p1 p2
        refine ⟨out2, q1, q2, ?_⟩
        have e : tw d (k + 1) n = selsSize g.sels + sumr (tw d k) (spreadNames g.sels) := by
          simp only [tw, hf]
        rw [sumr_cons, e]
        rw [fragsSels_append] at p3 ⊢
        simp only [fragsSels]
        omega

/-- no fragment name is spread twice in the whole document (operations and fragment definitions) -/
def NoRepeat (d : Doc) : Prop :=
  ((d.ops.map fun o => spreadNames o.sels) ++ (d.frags.map fun f => spreadNames f.sels)).flatten.Nodup

def opsNames (os : List OpDef) : List String := os.flatMap (fun o => spreadNames o.sels)

theorem noRepeat_iff (d : Doc) : NoRepeat d ↔ (opsNames d.ops ++ bodies d.frags).Nodup := by
  simp [NoRepeat, opsNames, bodies, List.flatMap_def]

/-- with no repeated spread, entering everything the operations spread costs at most the bodies
    of the fragment definitions — each is walked at most once, at every depth `k` -/
theorem tw_ops_le (d : Doc) (h : NoRepeat d) (k : Nat) : sumr (tw d k) (opsNames d.ops) ≤ fragsSels d.frags := by
  obtain ⟨out, _, _, h3⟩ := tw_budget d k (opsNames d.ops) [] d.frags
    (by simpa using (noRepeat_iff d).1 h)
    (fun m _ g hg => frag?_mem hg)
  omega

theorem sum_ops_spreads (r : String → Nat) : ∀ (os : List OpDef),
    (os.map fun o => selsSize o.sels + sumr r (spreadNames o.sels)).sum = opsSels os + sumr r (opsNames os)
  | [] => by simp [opsSels, opsNames, sumr_nil]
  | o :: os => by
    have ih := sum_ops_spreads r os
    simp only [opsNames] at ih ⊢
    simp only [List.map_cons, List.sum_cons, opsSels, List.flatMap_cons, sumr_append, ih]
    omega

theorem inlinePassPinned_norepeat (c : Config) (d : Doc) (h : NoRepeat d) : inlinePassPinned c d ≤ size d := by
  have h1 : inlinePassPinned c d ≤
      (d.ops.map fun o => selsSize o.sels + sumr (tw d (c.recLimit + 1)) (spreadNames o.sels)).sum := by
    simp only [inlinePassPinned]
    apply sum_map_le_of_le
    intro o _
    have := vSels_spreads _ _ (vFrag_le_tw d (c.recLimit + 1)) o.sels
    split <;> omega
  rw [sum_ops_spreads] at h1
  have := tw_ops_le d h (c.recLimit + 1)
  have := sels_le_size d
  omega

theorem depthPinned_norepeat (c : Config) (d : Doc) (h : NoRepeat d) : (depthPinned c d).1 ≤ size d := by
  have h1 := seqOps_le (fun o => dpItems (dpFrag d c.recLimit (c.recLimit + 2)) c.recLimit 0 o.sels)
    (fun o => selsSize o.sels + sumr (tw d (c.recLimit + 2)) (spreadNames o.sels)) d.ops
    (fun o _ => dpItems_spreads _ _ _ (dpFrag_le_tw d c.recLimit (c.recLimit + 2)) o.sels 0)
  rw [sum_ops_spreads] at h1
  have := tw_ops_le d h (c.recLimit + 2)
  have := sels_le_size d
  simp only [depthPinned]
  omega

theorem dirsPinned_norepeat (c : Config) (lim : Nat) (d : Doc) (h : NoRepeat d) : (dirsPinned c lim d).1 ≤ size d := by
  have h1 := seqOps_le (fun o => mdSels (mdFrag d lim (c.recLimit + 1)) lim o.sels)
    (fun o => selsSize o.sels + sumr (tw d (c.recLimit + 1)) (spreadNames o.sels)) d.ops
    (fun o _ => mdSels_spreads _ _ _ (mdFrag_le_tw d lim (c.recLimit + 1)) o.sels)
  rw [sum_ops_spreads] at h1
  have := tw_ops_le d h (c.recLimit + 1)
  have := sels_le_size d
  simp only [dirsPinned]
  omega

end AGV.Lemmas.Cost
