/-
  Lemmas for C05 (`c05_errors_static`): a schedule-free sufficient condition for "no error reaches
  a join".  `Clean r` = the sub-execution delivers a value and no error reached a selection set or a
  list inside it.  `wt` = well-typed resolver values (no null / ill-typed leaf / wrong runtime type
  in a non-null position, list items delivered), relative to a set `I` of object identities;
  `Closed c I` = the world maps every field of every member of `I` to a well-typed value over `I`,
  failures only at nullable fields; `deepT` = the fuel suffices.  `resolveContainerT_clean` lifts
  `c05_fault_at_nullable_is_local` by induction over the execution (type structure inside fuel),
  for every gate function, serial and concurrent joins; `closedB` is a decidable form of `Closed`.
-/
import AGV.Lemmas.Sched

namespace AGV.Lemmas.SchedClean
open AGV.Core AGV.Model AGV.Model.Sched AGV.Lemmas.Sched
open AGV.Spec.Exec (FieldOcc mapIdx selectOp group)
open AGV.Model.ExecStatic (collect toValue fieldRVal prune skipVars)


/-- a sub-execution that delivers a value and inside which no error reached a join -/
def Clean (r : TRes) : Prop := r.val.isSome = true ∧ r.prop = false
def JClean (j : JRes) : Prop := j.vals.isSome = true ∧ j.prop = false

theorem mapIdx_forall_mem {α β} (P : β → Prop) (g : Nat → α → β) (xs : List α) (h : ∀ i, ∀ x ∈ xs, P (g i x)) :
    ∀ i, ∀ y ∈ mapIdx g xs i, P y := by
  induction xs with
  | nil => intro i y hy; simp [mapIdx] at hy
  | cons x xs ih =>
    intro i y hy
    simp only [mapIdx, List.mem_cons] at hy
    rcases hy with rfl | hy
    · exact h i x (by simp)
    · exact ih (fun i x hx => h i x (by simp [hx])) _ y hy

theorem okNow_clean (s : Nat) (v : GValue) : Clean (okNow s v) := by simp [Clean, okNow]

theorem joinPar_clean (s : Nat) (rs : List TRes) (h : ∀ r ∈ rs, Clean r) : JClean (joinPar s rs) := by
  have hnone : firstErr rs = none := (firstErr_none rs).2 (fun r hr => (h r hr).1)
  unfold joinPar
  rw [hnone]
  refine ⟨rfl, ?_⟩
  simp only [List.any_eq_false]
  intro r hr
  simp [(h r hr).2]

theorem joinSer_clean (fs : List (Nat → TRes)) (h : ∀ f ∈ fs, ∀ s, Clean (f s)) : ∀ s, JClean (joinSer s fs) := by
  induction fs with
  | nil => intro s; simp [joinSer, JClean]
  | cons f fs ih =>
    intro s
    have hf := h f (by simp) s
    have ih' := ih (fun g hg => h g (by simp [hg])) (f s).fin
    simp only [joinSer]
    cases hv : (f s).val with
    | none => have := hf.1; rw [hv] at this; simp at this
    | some v =>
      simp only []
      refine ⟨?_, ?_⟩
      · cases hj : (joinSer (f s).fin fs).vals with
        | none => have := ih'.1; rw [hj] at this; simp at this
        | some vs => simp
      · simp [hf.2, ih'.2]

theorem ofJoin_clean (j : JRes) (mk : List GValue → GValue) (h : JClean j) : Clean (ofJoin j mk) := by
  unfold ofJoin
  cases hv : j.vals with
  | none => have := h.1; rw [hv] at this; simp at this
  | some vs => exact ⟨rfl, h.2⟩

theorem capture_clean (opt : Bool) (r : TRes) (h : Clean r) : Clean (capture opt r) := by
  unfold capture
  cases hv : r.val with
  | none => have := h.1; rw [hv] at this; simp at this
  | some v => split <;> exact h

/-- a nullable position: whatever happened below, the value is delivered; nothing reaches the
    parent join -/
theorem capture_true_clean (r : TRes) (h : r.prop = false) : Clean (capture true r) := by
  unfold capture
  simp only [if_true]
  cases hv : r.val with
  | some v => exact ⟨by simp [hv], h⟩
  | none =>
    simp only []
    cases r.up <;> exact ⟨rfl, h⟩

theorem itemWrap_clean (D : ExecStatic.Defects) (p : List PathSeg) (r : TRes) (h : Clean r) : Clean (itemWrap D p r) := by
  unfold itemWrap
  split
  · exact h
  · exact h

/-- WELL-TYPED resolver values: completing `rv` against `t` delivers a value and lets no error reach
    a join.  `opt` = the position is nullable (an error AT this position is captured here);
    `I ty id` = the object `(ty, id)` is one whose selection sets execute without an error reaching a
    join (see `Closed`).  At a nullable named position anything goes; a list needs every item
    delivered; a non-null position needs a non-null, well-typed value. -/
def wt (c : ExecStatic.Ctx) (I : String → Nat → Bool) : Bool → TypeRef → RVal → Bool
  | _, .nonNull t, rv =>
    (match rv with
     | .null => false
     | _ => true) && wt c I false t rv
  | opt, .list t, rv =>
    match rv with
    | .null => true
    | .list xs => xs.all (fun x => wt c I true t x)
    | _ => opt
  | opt, .named n, rv =>
    match rv with
    | .null => true
    | .obj ty id => if (c.S.possibleTypes n).contains ty then I ty id else opt
    | .leaf v =>
      (match toValue c.D c.S n v with
       | some (some _) => true
       | _ => false) || opt
    | _ => opt

theorem failNow_capture_clean (s : Nat) (e : GErr) (opt : Bool) (h : opt = true) : Clean (capture opt (failNow s e)) := by
  subst h
  exact capture_true_clean _ rfl

theorem resolveT_clean (c : ExecStatic.Ctx) (rec : Rec) (I : String → Nat → Bool) (ss : List Sel) :
    ∀ t, (∀ ty id p s, (c.S.possibleTypes t.base).contains ty = true → I ty id = true → Clean (rec t.base ty id ss p s)) →
      ∀ opt rv path pos s, wt c I opt t rv = true → Clean (resolveT c rec opt t rv ss path pos s) := by
  intro t
  induction t with
  | nonNull t ih =>
    intro hrec opt rv path pos s h
    cases rv <;> simp only [wt, Bool.and_eq_true, Bool.false_eq_true, false_and] at h <;> simp only [resolveT] <;>
      exact ih hrec _ _ _ _ _ h.2
  | list t ih =>
    intro hrec opt rv path pos s h
    cases rv with
    | null => simp only [resolveT]; exact okNow_clean _ _
    | list xs =>
      simp only [wt, List.all_eq_true] at h
      simp only [resolveT]
      apply capture_clean; apply ofJoin_clean; apply joinPar_clean
      apply mapIdx_forall_mem (P := Clean)
      intro i x hx
      exact itemWrap_clean _ _ _ (ih hrec _ _ _ _ _ (h x hx))
    | leaf v => simp only [wt] at h; simp only [resolveT]; exact failNow_capture_clean _ _ _ h
    | obj ty id => simp only [wt] at h; simp only [resolveT]; exact failNow_capture_clean _ _ _ h
    | fail m => simp only [wt] at h; simp only [resolveT]; exact failNow_capture_clean _ _ _ h
    | arg a => simp only [wt] at h; simp only [resolveT]; exact failNow_capture_clean _ _ _ h
  | named n =>
    intro hrec opt rv path pos s h
    cases rv with
    | null => simp only [resolveT]; exact okNow_clean _ _
    | list xs => simp only [wt] at h; simp only [resolveT]; exact failNow_capture_clean _ _ _ h
    | fail m => simp only [wt] at h; simp only [resolveT]; exact failNow_capture_clean _ _ _ h
    | arg a => simp only [wt] at h; simp only [resolveT]; exact failNow_capture_clean _ _ _ h
    | leaf v =>
      simp only [wt, Bool.or_eq_true] at h
      simp only [resolveT]
      split
      · exact okNow_clean _ _
      · rename_i hnot
        rcases h with h | h
        · split at h
          · rename_i v' hv'; exact absurd hv' (hnot v')
          · simp at h
        · exact failNow_capture_clean _ _ _ h
    | obj ty id =>
      simp only [wt] at h
      simp only [resolveT]
      split
      · rename_i hp
        rw [if_pos hp] at h
        exact capture_clean _ _ (hrec ty id path s hp h)
      · rename_i hp
        rw [if_neg hp] at h
        exact failNow_capture_clean _ _ _ h


/-- what a field's resolver may return: a failure only where the declared type is nullable,
    otherwise a well-typed value -/
def fieldWT (c : ExecStatic.Ctx) (I : String → Nat → Bool) (fd : FieldDef) (rv : RVal) : Bool :=
  match rv with
  | .fail _ => !fd.ty.isNonNull
  | rv => wt c I true fd.ty rv

/-- `I` is a set of object identities closed under the world: every field of every member returns
    a well-typed value whose object identities are members again (whatever the occurrence's arguments) -/
def Closed (c : ExecStatic.Ctx) (I : String → Nat → Bool) : Prop :=
  ∀ rt id, I rt id = true → ∀ fd occ, c.S.field? rt occ.name = some fd →
    fieldWT c I fd (fieldRVal c id fd occ) = true

theorem completeFieldT_clean (c : ExecStatic.Ctx) (hD : c.D.resolverErrPropagates = false) (rec : Rec)
    (I : String → Nat → Bool) (fd : FieldDef) (rv : RVal) (occ : FieldOcc) (fpath : List PathSeg) (s : Nat)
    (hrec : ∀ ty id p s, (c.S.possibleTypes fd.ty.base).contains ty = true → I ty id = true →
      Clean (rec fd.ty.base ty id occ.sels p s))
    (h : fieldWT c I fd rv = true) : Clean (completeFieldT c rec fd rv occ fpath s) := by
  cases rv with
  | fail m =>
    have hn : fd.ty.isNonNull = false := by simpa [fieldWT] using h
    simp [completeFieldT, hD, hn, Clean]
  | null => exact resolveT_clean c rec I occ.sels fd.ty hrec true _ fpath occ.pos s h
  | leaf v => exact resolveT_clean c rec I occ.sels fd.ty hrec true _ fpath occ.pos s h
  | obj ty id => exact resolveT_clean c rec I occ.sels fd.ty hrec true _ fpath occ.pos s h
  | list xs => exact resolveT_clean c rec I occ.sels fd.ty hrec true _ fpath occ.pos s h
  | arg a => exact resolveT_clean c rec I occ.sels fd.ty hrec true _ fpath occ.pos s h

theorem runFieldT_clean (g : Cfg) (hD : g.c.D.resolverErrPropagates = false) (rec : Rec) (I : String → Nat → Bool)
    (hcl : Closed g.c I) (rt : String) (id : Nat) (hI : I rt id = true) (path : List PathSeg) (occ : FieldOcc) (s : Nat)
    (hrec : ∀ fd, g.c.S.field? rt occ.name = some fd → ∀ ty id p s, (g.c.S.possibleTypes fd.ty.base).contains ty = true →
      I ty id = true → Clean (rec fd.ty.base ty id occ.sels p s)) :
    Clean (runFieldT g rec rt id path occ s) := by
  unfold runFieldT
  split
  · exact okNow_clean _ _
  · split
    · exact okNow_clean _ _
    · rename_i fd hfd
      have h := completeFieldT_clean g.c hD rec I fd (fieldRVal g.c id fd occ) occ (path ++ [PathSeg.key occ.key])
        (s + g.gate path occ.key occ.pos) (hrec fd hfd) (hcl rt id hI fd occ hfd)
      refine ⟨?_, h.2⟩
      have := h.1
      simp only [Option.isSome_map]
      exact this

/-- the selection sets reached from `sels` on runtime type `rt` (through every possible runtime type
    of every composite field) never run out of fuel -/
def deepT (c : ExecStatic.Ctx) (perOcc : Bool) : Nat → String → String → List Sel → Bool
  | 0, _, _, _ => false
  | fuel + 1, st, rt, sels =>
    (if perOcc then collect c rt (fuel + 1) st sels else mergeOccs (collect c rt (fuel + 1) st sels)).all (fun occ =>
      match c.S.field? rt occ.name with
      | none => true
      | some fd => (c.S.possibleTypes fd.ty.base).all (fun ty => deepT c perOcc fuel fd.ty.base ty occ.sels))

theorem deepT_succ (c : ExecStatic.Ctx) (perOcc : Bool) (fuel : Nat) (st rt : String) (sels : List Sel)
    (h : deepT c perOcc (fuel + 1) st rt sels = true) (g : Cfg) (hc : g.c = c) (hp : g.perOccurrence = perOcc) :
    ∀ occ ∈ occsOf g rt (fuel + 1) st sels, ∀ fd, c.S.field? rt occ.name = some fd →
      ∀ ty, (c.S.possibleTypes fd.ty.base).contains ty = true → deepT c perOcc fuel fd.ty.base ty occ.sels = true := by
  subst hc hp
  simp only [deepT, List.all_eq_true] at h
  intro occ hocc fd hfd ty hty
  have := h occ hocc
  rw [hfd] at this
  simp only [List.all_eq_true] at this
  exact this ty (by simpa using hty)

/-- NO ERROR REACHES A JOIN: on a closed set of object identities, with the fault-propagation defect
    repaired and enough fuel, every selection set delivers its object and no error reaches a
    selection set or a list — under every gate function, serial or concurrent joins -/
theorem resolveContainerT_clean (g : Cfg) (hD : g.c.D.resolverErrPropagates = false) (I : String → Nat → Bool)
    (hcl : Closed g.c I) :
    ∀ fuel serial st rt id sels path s, I rt id = true → deepT g.c g.perOccurrence fuel st rt sels = true →
      Clean (resolveContainerT g serial fuel st rt id sels path s) := by
  intro fuel
  induction fuel with
  | zero => intro serial st rt id sels path s _ hd; simp [deepT] at hd
  | succ fuel ih =>
    intro serial st rt id sels path s hI hd
    have hds := deepT_succ g.c g.perOccurrence fuel st rt sels hd g rfl rfl
    have hfield : ∀ occ ∈ occsOf g rt (fuel + 1) st sels, ∀ s',
        Clean (runFieldT g (resolveContainerT g g.nestedSerial fuel) rt id path occ s') := by
      intro occ hocc s'
      apply runFieldT_clean g hD _ I hcl rt id hI path occ s'
      intro fd hfd ty id' p s'' hty hI'
      exact ih _ _ _ _ _ _ _ hI' (hds occ hocc fd hfd ty hty)
    simp only [resolveContainerT]
    apply ofJoin_clean
    split
    · apply joinSer_clean
      intro f hf s'
      simp only [List.mem_map] at hf
      obtain ⟨occ, hocc, rfl⟩ := hf
      exact hfield occ hocc s'
    · apply joinPar_clean
      intro r hr
      simp only [List.mem_map] at hr
      obtain ⟨f, ⟨occ, hocc, rfl⟩, rfl⟩ := hr
      exact hfield occ hocc s


def rootTy (S : Schema) (op : OpDef) : String :=
  match op.ty with
  | .query => S.query
  | .mutation => S.mutation.getD ""
  | .subscription => S.subscription.getD ""

/-- the context in which `runWith` executes operation `op` (fragments pruned by `remove_skipped_selection`) -/
def schedCtx (D : ExecStatic.Defects) (S : Schema) (d : Doc) (op : OpDef) (raw : List (String × GValue)) (w : World)
    (fuel : Nat) : ExecStatic.Ctx :=
  { D := D, S := S,
    d := { ops := d.ops, frags := d.frags.map (fun f => { f with sels := prune (skipVars D op.vars raw) fuel f.sels }) },
    vars := AGV.Spec.Exec.coerceVars op.vars raw, w := w }

/-- the STATIC condition (no gate function in it): a set of object identities containing the root
    value and closed under the world's well-typed field values, and enough fuel for the document -/
def StaticOK (D : ExecStatic.Defects) (perOcc : Bool) (S : Schema) (d : Doc) (op : OpDef) (raw : List (String × GValue))
    (w : World) (fuel : Nat) : Prop :=
  ∃ I : String → Nat → Bool, I (rootTy S op) 0 = true ∧ Closed (schedCtx D S d op raw w fuel) I ∧
    deepT (schedCtx D S d op raw w fuel) perOcc fuel (rootTy S op) (rootTy S op)
      (prune (skipVars D op.vars raw) fuel op.sels) = true

theorem runWith_clean (ns : Bool) (D : ExecStatic.Defects) (hD : D.resolverErrPropagates = false) (perOcc : Bool) (σ : Gate)
    (S : Schema) (d : Doc) (opName : Option String) (raw : List (String × GValue)) (w : World) (fuel : Nat)
    (H : ∀ op, selectOp d opName = some op → StaticOK D perOcc S d op raw w fuel) :
    (runWith ns D perOcc σ S d opName raw w fuel).prop = false := by
  unfold runWith
  cases hop : selectOp d opName with
  | none => rfl
  | some op =>
    obtain ⟨I, hroot, hcl, hdeep⟩ := H op hop
    exact (resolveContainerT_clean
      { c := schedCtx D S d op raw w fuel, perOccurrence := perOcc, gate := σ, nestedSerial := ns } hD I hcl
      fuel (op.ty == .mutation) (rootTy S op) (rootTy S op) 0 _ [] 0 hroot hdeep).2

-- ------------------------------------------------------------------ a decidable form of `Closed`

/-- `ids` is closed: every field of every listed object identity holds a well-typed value whose
    object identities are listed; an argument echo only at a nullable field -/
def closedB (c : ExecStatic.Ctx) (ids : List (String × Nat)) : Bool :=
  ids.all (fun p =>
    match c.S.find? p.1 with
    | none => true
    | some t => t.fields.all (fun fd =>
        match c.w.get p.2 fd.name with
        | .arg _ => !fd.ty.isNonNull
        | rv => fieldWT c (fun ty id => ids.contains (ty, id)) fd rv))

theorem wt_leaf_nullable (c : ExecStatic.Ctx) (I : String → Nat → Bool) (t : TypeRef) (h : t.isNonNull = false) (v : GValue) :
    wt c I true t (.leaf v) = true := by
  cases t with
  | named n => simp [wt]
  | list t => simp [wt]
  | nonNull t => simp [TypeRef.isNonNull] at h

theorem closed_of_closedB (c : ExecStatic.Ctx) (ids : List (String × Nat)) (h : closedB c ids = true) :
    Closed c (fun ty id => ids.contains (ty, id)) := by
  intro rt id hI fd occ hfd
  simp only [closedB, List.all_eq_true] at h
  have hmem : (rt, id) ∈ ids := by simpa using hI
  have h1 := h (rt, id) hmem
  unfold Schema.field? at hfd
  cases hrt : c.S.find? rt with
  | none => simp [hrt] at hfd
  | some t =>
    simp only [hrt] at hfd h1
    have hfm : fd ∈ t.fields := List.mem_of_find?_eq_some hfd
    have hfn : fd.name = occ.name := by simpa using List.find?_some hfd
    simp only [List.all_eq_true] at h1
    have h2 := h1 fd hfm
    rw [hfn] at h2
    unfold fieldRVal
    cases hw : c.w.get id occ.name with
    | arg a =>
      rw [hw] at h2
      simp only [Bool.not_eq_true'] at h2
      exact wt_leaf_nullable c _ fd.ty h2 _
    | null => rw [hw] at h2; exact h2
    | leaf v => rw [hw] at h2; exact h2
    | obj ty i => rw [hw] at h2; exact h2
    | list xs => rw [hw] at h2; exact h2
    | fail m => rw [hw] at h2; exact h2

end AGV.Lemmas.SchedClean
