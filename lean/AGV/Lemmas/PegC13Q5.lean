/-
  Property C13, token level, specification side: `pSelections` unfolded by the shape of the first
  tokens into "one selection, then `}` or more selections".
-/
import AGV.Lemmas.PegC13Q4
namespace AGV.Lemmas.PegX
open AGV.Model.Peg AGV.Model.BuildAst AGV.Spec.Lex AGV.Spec.Parse AGV.Core.PAst AGV.Lemmas.PegC13 AGV.Lemmas.SpecVal

/-- after one selection: the closing brace, or more selections -/
def pCont (f : Nat) (s : PSel) (r : List Tok) : Outc (List PSel) :=
  match closeTok '}' r with
  | some r' => some ([s], r')
  | none => omap (fun xs => s :: xs) (pSelections P' f r)

/-- an optional nested selection set -/
def pOptSet (f : Nat) (r : List Tok) : Outc (List PSel) :=
  match closeTok '{' r with
  | some r' => pSelections P' f r'
  | none => some ([], r)

/-- `Arguments? Directives? SelectionSet?` after a field name -/
def pFieldTail (f : Nat) (al : Option Name) (n : Name) (r : List Tok) : Outc PSel :=
  obind (pOptArgs P' false r) (fun as r1 =>
    obind (pDirs P' false r1) (fun ds r2 =>
      obind (pOptSet f r2) (fun ss r3 => some (.field al n as ds ss, r3))))

/-- `Directives? SelectionSet` of an inline fragment -/
def pInlineTail (f : Nat) (tc : Option Name) (r : List Tok) : Outc PSel :=
  obind (pDirs P' false r) (fun ds r2 =>
    match closeTok '{' r2 with
    | some r3 => obind (pSelections P' f r3) (fun ss r4 => some (.inline tc ds ss, r4))
    | none => none)

def pSpreadTail (n : Name) (r1 : List Tok) : Outc PSel :=
  obind (pDirs P' false r1) (fun ds r2 => some (.spread n ds, r2))

theorem more_eq (f : Nat) (s : PSel) (r : List Tok) :
    (match r with
     | .punct '}' :: r' => some ([s], r')
     | _ => (pSelections P' f r).map (fun x => (s :: x.1, x.2))) = pCont f s r := by
  unfold pCont
  by_cases h : ∃ r', r = .punct '}' :: r'
  · obtain ⟨r', rfl⟩ := h
    simp [closeTok]
  · rw [closeTok_none (fun r' e => h ⟨r', e⟩)]
    split
    · rename_i r'; exact absurd ⟨r', rfl⟩ h
    · rfl

theorem optSet_eq (f : Nat) (r : List Tok) :
    (match r with
     | .punct '{' :: r' => pSelections P' f r'
     | _ => some ([], r)) = pOptSet f r := by
  unfold pOptSet
  by_cases h : ∃ r', r = .punct '{' :: r'
  · obtain ⟨r', rfl⟩ := h
    simp [closeTok]
  · rw [closeTok_none (fun r' e => h ⟨r', e⟩)]
    split
    · rename_i r'; exact absurd ⟨r', rfl⟩ h
    · rfl

theorem pSelections_field (f : Nat) (al : Option Name) (n : Name) (r : List Tok) :
    (match pOptArgs P' false r with
     | some (as, r1) =>
       (match pDirs P' false r1 with
        | some (ds, r2) =>
          (match (match r2 with
                  | .punct '{' :: r' => pSelections P' f r'
                  | _ => some ([], r2)) with
           | some (ss, r3) =>
             (match r3 with
              | .punct '}' :: r' => some ([PSel.field al n as ds ss], r')
              | _ => (pSelections P' f r3).map (fun x => (PSel.field al n as ds ss :: x.1, x.2)))
           | none => none)
        | none => none)
     | none => none) = obind (pFieldTail f al n r) (pCont f) := by
  unfold pFieldTail
  cases pOptArgs P' false r with
  | none => rfl
  | some x =>
    obtain ⟨as, r1⟩ := x
    simp only [obind]
    cases pDirs P' false r1 with
    | none => rfl
    | some y =>
      obtain ⟨ds, r2⟩ := y
      simp only []
      rw [optSet_eq]
      cases pOptSet f r2 with
      | none => rfl
      | some z =>
        obtain ⟨ss, r3⟩ := z
        simp only []
        exact more_eq f _ r3

theorem pSelections_inline (f : Nat) (tc : Option Name) (r : List Tok) :
    (match pDirs P' false r with
     | some (ds, .punct '{' :: r3) =>
       (match pSelections P' f r3 with
        | some (ss, r4) =>
          (match r4 with
           | .punct '}' :: r' => some ([PSel.inline tc ds ss], r')
           | _ => (pSelections P' f r4).map (fun x => (PSel.inline tc ds ss :: x.1, x.2)))
        | none => none)
     | _ => none) = obind (pInlineTail f tc r) (pCont f) := by
  unfold pInlineTail
  cases pDirs P' false r with
  | none => rfl
  | some y =>
    obtain ⟨ds, r2⟩ := y
    simp only [obind]
    by_cases h : ∃ r3, r2 = .punct '{' :: r3
    · obtain ⟨r3, rfl⟩ := h
      simp only [closeTok, if_true]
      cases pSelections P' f r3 with
      | none => rfl
      | some z =>
        obtain ⟨ss, r4⟩ := z
        simp only []
        exact more_eq f _ r4
    · rw [closeTok_none (fun r3 e => h ⟨r3, e⟩)]
      split
      · rename_i ds' r3 e
        cases e
        exact absurd ⟨r3, rfl⟩ h
      · rfl

theorem pSelections_spread (f : Nat) (n : Name) (r1 : List Tok) :
    (match pDirs P' false r1 with
     | some (ds, r2) =>
       (match r2 with
        | .punct '}' :: r' => some ([PSel.spread n ds], r')
        | _ => (pSelections P' f r2).map (fun x => (PSel.spread n ds :: x.1, x.2)))
     | none => none) = obind (pSpreadTail n r1) (pCont f) := by
  unfold pSpreadTail
  cases pDirs P' false r1 with
  | none => rfl
  | some y =>
    obtain ⟨ds, r2⟩ := y
    simp only [obind]
    exact more_eq f _ r2

-- ------------------------------------------------------------------ by the shape of the first tokens

theorem pSel_zero (ts : List Tok) : pSelections P' 0 ts = none := by rw [pSelections]

theorem pSel_F1 (f : Nat) (a n : Name) (r : List Tok) :
    pSelections P' (f + 1) (.name a :: .punct ':' :: .name n :: r) = obind (pFieldTail f (some a) n r) (pCont f) := by
  rw [pSelections]
  exact pSelections_field f (some a) n r

theorem pSel_F2 (f : Nat) (n : Name) (r : List Tok) (h : ∀ n' r', r ≠ .punct ':' :: .name n' :: r') :
    pSelections P' (f + 1) (.name n :: r) = obind (pFieldTail f none n r) (pCont f) := by
  rw [pSelections]
  · exact pSelections_field f none n r
  · intro n' r' e; exact h n' r' e

theorem pSel_I1 (f : Nat) (t : Name) (r2 : List Tok) :
    pSelections P' (f + 1) (.spread :: .name (kw "on") :: .name t :: r2) =
      obind (pInlineTail f (some t) r2) (pCont f) := by
  rw [pSelections, if_pos rfl]
  exact pSelections_inline f (some t) r2

theorem pSel_I2 (f : Nat) (r1 : List Tok) (h : ∀ t r2, r1 ≠ .name t :: r2) :
    pSelections P' (f + 1) (.spread :: .name (kw "on") :: r1) = none := by
  rw [pSelections]
  · rw [if_pos rfl]
  · intro t r2 e; exact h t r2 e

theorem pSel_Sp (f : Nat) (n : Name) (r1 : List Tok) (hn : n ≠ kw "on") :
    pSelections P' (f + 1) (.spread :: .name n :: r1) = obind (pSpreadTail n r1) (pCont f) := by
  by_cases h : ∃ t r2, r1 = .name t :: r2
  · obtain ⟨t, r2, rfl⟩ := h
    rw [pSelections, if_neg hn]
    exact pSelections_spread f n (.name t :: r2)
  · rw [pSelections]
    · rw [if_neg hn]
      exact pSelections_spread f n r1
    · intro t r2 e; exact h ⟨t, r2, e⟩

theorem pSel_I3 (f : Nat) (r : List Tok) (h : ∀ n r1, r ≠ .name n :: r1) :
    pSelections P' (f + 1) (.spread :: r) = obind (pInlineTail f none r) (pCont f) := by
  rw [pSelections]
  · exact pSelections_inline f none r
  · intro n r1 e; exact h n r1 e

theorem pSel_other (f : Nat) (ts : List Tok) (h1 : ∀ r, ts ≠ .spread :: r) (h2 : ∀ n r, ts ≠ .name n :: r) :
    pSelections P' f ts = none := by
  cases f with
  | zero => exact pSel_zero ts
  | succ f =>
    rw [pSelections]
    · intro r e; exact h1 r e
    · intro a n r e; exact h2 a _ e
    · intro n r e; exact h2 n r e
end AGV.Lemmas.PegX
