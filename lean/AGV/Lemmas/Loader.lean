/-
  Helper lemmas for C28 (DataLoader model): set-as-list operations, the state invariant and its
  preservation by every scheduler step.
-/
import AGV.Model.Loader

namespace AGV.Lemmas.Loader
open AGV.Model.Loader

/-! ### sets as duplicate-free lists -/

theorem mem_addKey (s : List Key) (k x : Key) : x ∈ addKey s k ↔ x ∈ s ∨ x = k := by
  unfold addKey
  split
  · constructor
    · intro h; exact Or.inl h
    · rintro (h | h)
      · exact h
      · subst h; assumption
  · simp

theorem nodup_addKey (s : List Key) (k : Key) (h : s.Nodup) : (addKey s k).Nodup := by
  unfold addKey
  split
  · exact h
  · rename_i hk
    rw [List.nodup_append]
    refine ⟨h, by simp, ?_⟩
    intro a ha b hb
    simp at hb
    subst hb
    intro e
    subst e
    exact hk ha

theorem length_addKey_le (s : List Key) (k : Key) : (addKey s k).length ≤ s.length + 1 := by
  unfold addKey
  split <;> simp

theorem mem_addKeys (ks : List Key) : ∀ (s : List Key) (x : Key), x ∈ addKeys s ks ↔ x ∈ s ∨ x ∈ ks := by
  induction ks with
  | nil => intro s x; simp [addKeys]
  | cons k ks ih =>
    intro s x
    have := ih (addKey s k) x
    simp only [addKeys, List.foldl_cons] at this ⊢
    rw [this, mem_addKey]
    simp only [List.mem_cons]
    constructor
    · rintro ((h | h) | h)
      · exact Or.inl h
      · exact Or.inr (Or.inl h)
      · exact Or.inr (Or.inr h)
    · rintro (h | h | h)
      · exact Or.inl (Or.inl h)
      · exact Or.inl (Or.inr h)
      · exact Or.inr h

theorem nodup_addKeys (ks : List Key) : ∀ (s : List Key), s.Nodup → (addKeys s ks).Nodup := by
  induction ks with
  | nil => intro s h; simpa [addKeys] using h
  | cons k ks ih =>
    intro s h
    simpa [addKeys] using ih (addKey s k) (nodup_addKey s k h)

theorem length_addKeys_le (ks : List Key) : ∀ (s : List Key), (addKeys s ks).length ≤ s.length + ks.length := by
  induction ks with
  | nil => intro s; simp [addKeys]
  | cons k ks ih =>
    intro s
    have h1 := ih (addKey s k)
    have h2 := length_addKey_le s k
    simp only [addKeys, List.foldl_cons, List.length_cons] at h1 ⊢
    omega

theorem addKeys_eq_nil (ks s : List Key) (h : addKeys s ks = []) : s = [] ∧ ks = [] := by
  have hm := mem_addKeys ks s
  rw [h] at hm
  constructor
  · cases s with
    | nil => rfl
    | cons a t => exact absurd ((hm a).2 (Or.inl (by simp))) (by simp)
  · cases ks with
    | nil => rfl
    | cons a t => exact absurd ((hm a).2 (Or.inr (by simp))) (by simp)

/-! ### the cache split -/

theorem splitKeys_ok (cache : KV) (ks : List Key) : ∀ (miss : List Key) (hit : KV),
    miss.Nodup → (∀ k ∈ miss, cache.lookup k = none) → (∀ k, cache.lookup k = none → hit.lookup k = none) →
    (splitKeys cache ks (miss, hit)).1.Nodup ∧
    (∀ k ∈ (splitKeys cache ks (miss, hit)).1, cache.lookup k = none) ∧
    (∀ k, cache.lookup k = none → (splitKeys cache ks (miss, hit)).2.lookup k = none) := by
  induction ks with
  | nil => intro miss hit h1 h2 h3; exact ⟨h1, h2, h3⟩
  | cons k ks ih =>
    intro miss hit h1 h2 h3
    simp only [splitKeys]
    split
    · rename_i v hv
      apply ih _ _ h1 h2
      intro k' hk'
      split
      · exact h3 k' hk'
      · rw [List.lookup_append]
        simp [h3 k' hk']
        intro e
        subst e
        rw [hv] at hk'
        cases hk'
    · rename_i hv
      apply ih _ _ (nodup_addKey _ _ h1) _ h3
      intro k' hk'
      rcases (mem_addKey _ _ _).1 hk' with h | h
      · exact h2 k' h
      · subst h; exact hv

theorem split_ok (s : St) (ks : List Key) :
    (split s ks).1.Nodup ∧ ∀ k ∈ (split s ks).1, (split s ks).2.lookup k = none := by
  unfold split
  split
  · exact ⟨nodup_addKeys ks [] (by simp), by simp⟩
  · have := splitKeys_ok s.cache ks [] [] (by simp) (by simp) (by simp)
    exact ⟨this.1, fun k hk => this.2.2 k (this.2.1 k hk)⟩


/-! ### the state invariant -/

/-- a pending entry: non-empty duplicate-free key set, disjoint from the keys served from the cache -/
def PendOK (p : Pend) : Prop :=
  p.keys ≠ [] ∧ p.keys.Nodup ∧ ∀ k ∈ p.keys, p.cached.lookup k = none

/-- a batch: duplicate-free, exactly the union of its waiters' key sets, and not larger than
    `max - 1` plus the key set of one of its waiters -/
def TaskOK (max : Nat) (t : Task) : Prop :=
  t.keys.Nodup ∧ (∀ k, k ∈ t.keys ↔ ∃ p ∈ t.waiters, k ∈ p.keys) ∧ (∀ p ∈ t.waiters, PendOK p) ∧
  (t.keys = [] ∨ ∃ p ∈ t.waiters, t.keys.length ≤ max - 1 + p.keys.length)

structure Inv (s : St) : Prop where
  nodup : s.keys.Nodup
  union : ∀ k, k ∈ s.keys ↔ ∃ p ∈ s.pending, k ∈ p.keys
  pend : ∀ p ∈ s.pending, PendOK p
  bound : s.keys = [] ∨ s.keys.length < s.max
  timer : s.keys ≠ [] → ∃ t ∈ s.tasks, t.fetch = true ∧ (t.phase = .fresh ∨ t.phase = .timer)
  tasks : ∀ t ∈ s.tasks, TaskOK s.max t

/-- the part of the state the invariant talks about -/
def core (s : St) : Nat × List Key × List Pend × List Task := (s.max, s.keys, s.pending, s.tasks)

theorem Inv.congr {s s' : St} (h : core s' = core s) (hi : Inv s) : Inv s' := by
  simp only [core, Prod.mk.injEq] at h
  obtain ⟨h1, h2, h3, h4⟩ := h
  constructor
  · rw [h2]; exact hi.nodup
  · rw [h2, h3]; exact hi.union
  · rw [h3]; exact hi.pend
  · rw [h2, h1]; exact hi.bound
  · rw [h2, h4]; exact hi.timer
  · rw [h4, h1]; exact hi.tasks

theorem pending_nil_of_keys_nil {s : St} (hi : Inv s) (h : s.keys = []) : s.pending = [] := by
  cases hp : s.pending with
  | nil => rfl
  | cons p ps =>
    have hp' : p ∈ s.pending := by rw [hp]; simp
    have hok := hi.pend p hp'
    cases hk : p.keys with
    | nil => exact absurd hk hok.1
    | cons k ks =>
      have : k ∈ s.keys := (hi.union k).2 ⟨p, hp', by rw [hk]; simp⟩
      rw [h] at this; cases this

theorem mem_set_or {α : Type} {l : List α} {i : Nat} {t t' x : α} (hx : x ∈ l) (hi : l[i]? = some t) :
    x ∈ l.set i t' ∨ x = t := by
  obtain ⟨j, hj, rfl⟩ := List.mem_iff_getElem.1 hx
  by_cases hji : i = j
  · subst hji
    right
    have := List.getElem?_eq_getElem hj
    rw [this] at hi
    exact Option.some.inj hi
  · left
    apply List.mem_iff_getElem.2
    refine ⟨j, by simpa using hj, ?_⟩
    simp [hji]

theorem mem_of_getElem? {α : Type} {l : List α} {i : Nat} {t : α} (h : l[i]? = some t) : t ∈ l :=
  List.mem_of_getElem? h

/-- replacing task `i` by a task with the same batch and waiters (any phase) keeps the task part -/
theorem tasks_set_ok {max : Nat} {l : List Task} {i : Nat} {t' : Task}
    (h : ∀ t ∈ l, TaskOK max t) (ht' : TaskOK max t') : ∀ t ∈ l.set i t', TaskOK max t := by
  intro t ht
  rcases List.mem_or_eq_of_mem_set ht with h1 | h1
  · exact h t h1
  · subst h1; exact ht'

theorem enqueue_inv {s : St} (hi : Inv s) (r : Nat) (miss : List Key) (hit : KV)
    (hn : miss.Nodup) (hd : ∀ k ∈ miss, hit.lookup k = none) : Inv (enqueue s r miss hit) := by
  unfold enqueue
  by_cases hne : miss = []
  · rw [if_pos hne]
    exact Inv.congr (s := s) (by rfl) hi
  · rw [if_neg hne]
    have hpn : PendOK { rid := r, keys := miss, cached := hit } := ⟨hne, hn, hd⟩
    have hlast : ({ rid := r, keys := miss, cached := hit } : Pend) ∈
        s.pending ++ [{ rid := r, keys := miss, cached := hit }] :=
      List.mem_append.2 (Or.inr (List.mem_singleton.2 rfl))
    have hpend : ∀ p ∈ s.pending ++ [{ rid := r, keys := miss, cached := hit }], PendOK p := by
      intro p hp
      rcases List.mem_append.1 hp with h | h
      · exact hi.pend p h
      · rw [List.mem_singleton.1 h]; exact hpn
    have hunion : ∀ k, k ∈ addKeys s.keys miss ↔
        ∃ p ∈ s.pending ++ [{ rid := r, keys := miss, cached := hit }], k ∈ p.keys := by
      intro k
      rw [mem_addKeys, hi.union k]
      constructor
      · rintro (⟨p, hp, hk⟩ | h)
        · exact ⟨p, List.mem_append.2 (Or.inl hp), hk⟩
        · exact ⟨_, hlast, h⟩
      · rintro ⟨p, hp, hk⟩
        rcases List.mem_append.1 hp with h | h
        · exact Or.inl ⟨p, h, hk⟩
        · rw [List.mem_singleton.1 h] at hk; exact Or.inr hk
    have hnod := nodup_addKeys miss s.keys hi.nodup
    have hlen := length_addKeys_le miss s.keys
    dsimp only
    by_cases hge : (addKeys s.keys miss).length ≥ s.max
    · -- ImmediateLoad
      rw [if_pos hge]
      refine ⟨List.nodup_nil, by simp, by simp, Or.inl rfl, by simp, ?_⟩
      intro t ht
      rcases List.mem_append.1 ht with h | h
      · exact hi.tasks t h
      · rw [List.mem_singleton.1 h]
        refine ⟨hnod, hunion, hpend, Or.inr ⟨_, hlast, ?_⟩⟩
        rcases hi.bound with hb | hb
        · have h0 : s.keys.length = 0 := by rw [hb]; rfl
          simp only; omega
        · simp only; omega
    · rw [if_neg hge]
      have hlt' : (addKeys s.keys miss).length < s.max := by omega
      have htask : ∀ t ∈ s.tasks ++ [({ fetch := true, dis := s.disAll, phase := .fresh, keys := [], waiters := [] } : Task)],
          TaskOK s.max t := by
        intro t ht
        rcases List.mem_append.1 ht with h | h
        · exact hi.tasks t h
        · rw [List.mem_singleton.1 h]
          exact ⟨List.nodup_nil, by simp, by simp, Or.inl rfl⟩
      by_cases hprev : s.keys.length = 0
      · -- StartFetch
        rw [if_pos hprev]
        exact ⟨hnod, hunion, hpend, Or.inr hlt',
          fun _ => ⟨_, List.mem_append.2 (Or.inr (List.mem_singleton.2 rfl)), rfl, Or.inl rfl⟩, htask⟩
      · -- Delay
        rw [if_neg hprev]
        refine ⟨hnod, hunion, hpend, Or.inr hlt', fun _ => hi.timer ?_, hi.tasks⟩
        intro h0; rw [h0] at hprev; exact hprev rfl

theorem loadStep_inv {s : St} (hi : Inv s) (r : Nat) (ks : List Key) : Inv (loadStep s r ks) := by
  unfold loadStep
  split
  · exact hi
  · exact enqueue_inv hi r _ _ (split_ok s ks).1 (split_ok s ks).2

theorem lt_of_getElem? {α : Type} {l : List α} {i : Nat} {t : α} (h : l[i]? = some t) : i < l.length := by
  obtain ⟨h', _⟩ := List.getElem?_eq_some_iff.1 h
  exact h'

theorem runStep_inv {s : St} (hi : Inv s) (i : Nat) : Inv (runStep s i) := by
  unfold runStep
  split
  · rename_i t ht
    have htm := mem_of_getElem? ht
    have key : ∀ ph : Phase, (ph = .timer ∧ t.fetch = true ∨ t.fetch = false) →
        Inv { s with tasks := s.tasks.set i { t with phase := ph } } := by
      intro ph hph'
      refine ⟨hi.nodup, hi.union, hi.pend, hi.bound, ?_, tasks_set_ok hi.tasks (hi.tasks t htm)⟩
      intro hk
      obtain ⟨tw, htw, hf, hp⟩ := hi.timer hk
      rcases mem_set_or (t' := { t with phase := ph }) htw ht with h | h
      · exact ⟨tw, h, hf, hp⟩
      · subst h
        rcases hph' with h' | h'
        · exact ⟨_, List.mem_set (lt_of_getElem? ht) _, hf, Or.inr h'.1⟩
        · rw [h'] at hf; cases hf
    by_cases hph : t.phase = .fresh
    · rw [if_pos hph]
      by_cases hf : t.fetch = true
      · rw [if_pos hf]
        exact Inv.congr (by rfl) (key .timer (Or.inl ⟨rfl, hf⟩))
      · rw [if_neg hf]
        exact Inv.congr (by rfl) (key .flight (Or.inr (by simpa using hf)))
    · rw [if_neg hph]; exact hi
  · exact hi

theorem fireStep_inv {s : St} (hi : Inv s) (i : Nat) : Inv (fireStep s i) := by
  unfold fireStep
  split
  · rename_i t ht
    have htm := mem_of_getElem? ht
    by_cases hph : t.phase = .timer
    · rw [if_pos hph]
      by_cases hk : s.keys = []
      · rw [if_pos hk]
        exact ⟨List.nodup_nil, by simp, by simp, Or.inl rfl, by simp,
          tasks_set_ok hi.tasks (hi.tasks t htm)⟩
      · rw [if_neg hk]
        have hT : TaskOK s.max { t with phase := .flight, keys := s.keys, waiters := s.pending } := by
          refine ⟨hi.nodup, hi.union, hi.pend, Or.inr ?_⟩
          cases hks : s.keys with
          | nil => exact absurd hks hk
          | cons k ks =>
            obtain ⟨p, hp, _⟩ := (hi.union k).1 (by rw [hks]; simp)
            refine ⟨p, hp, ?_⟩
            rcases hi.bound with hb | hb
            · exact absurd hb hk
            · rw [hks] at hb; simp only at hb ⊢; omega
        have h2 : Inv ({ s with keys := [], pending := [], tasks := s.tasks.set i { t with phase := .flight, keys := s.keys, waiters := s.pending } } : St) :=
          ⟨List.nodup_nil, by simp, by simp, Or.inl rfl, by simp, tasks_set_ok hi.tasks hT⟩
        exact Inv.congr (by rfl) h2
    · rw [if_neg hph]; exact hi
  · exact hi

theorem deliver_core (s : St) (p : Pend) (res : Except Nat KV) : core (deliver s p res) = core s := by
  unfold deliver
  split <;> rfl

theorem foldl_core {α : Type} (f : St → α → St) (hf : ∀ s a, core (f s a) = core s) (l : List α) :
    ∀ s, core (l.foldl f s) = core s := by
  induction l with
  | nil => intro s; rfl
  | cons a l ih => intro s; rw [List.foldl_cons, ih, hf]

theorem doneStep_inv {s : St} (hi : Inv s) (i : Nat) (resp : Resp) : Inv (doneStep s i resp) := by
  unfold doneStep
  split
  · rename_i t ht
    have htm := mem_of_getElem? ht
    by_cases hph : t.phase = .flight
    · rw [if_pos hph]
      have h1 : Inv { s with tasks := s.tasks.set i { t with phase := .fin } } :=
        ⟨hi.nodup, hi.union, hi.pend, hi.bound, (by
          intro hk
          obtain ⟨tw, htw, hf, hp⟩ := hi.timer hk
          rcases mem_set_or (t' := { t with phase := .fin }) htw ht with h | h
          · exact ⟨tw, h, hf, hp⟩
          · subst h; rw [hph] at hp; rcases hp with hp | hp <;> cases hp),
         tasks_set_ok hi.tasks (hi.tasks t htm)⟩
      dsimp only
      split
      · refine Inv.congr ?_ h1
        rw [foldl_core _ (fun s p => deliver_core s p _)]
        split
        · rfl
        · unfold St.fill; split <;> rfl
      · refine Inv.congr ?_ h1
        rw [foldl_core _ (fun s p => deliver_core s p _)]
    · rw [if_neg hph]; exact hi
  · exact hi

theorem foldl_inv {α : Type} (f : St → α → St) (hf : ∀ s a, Inv s → Inv (f s a)) (l : List α) :
    ∀ s, Inv s → Inv (l.foldl f s) := by
  induction l with
  | nil => intro s h; exact h
  | cons a l ih => intro s h; exact ih _ (hf s a h)

theorem apply_inv {s : St} (hi : Inv s) (a : Act) : Inv (apply s a) := by
  cases a with
  | load r ks => exact loadStep_inv hi r ks
  | run i => exact runStep_inv hi i
  | fire i => exact fireStep_inv hi i
  | done i resp => exact doneStep_inv hi i resp
  | cancel r =>
    simp only [apply, cancelStep]
    split
    · exact Inv.congr (by rfl) hi
    · exact hi
  | enall b => exact Inv.congr (by rfl) hi
  | entype b => exact Inv.congr (by rfl) hi
  | feed kv =>
    simp only [apply, St.fill]
    split
    · exact Inv.congr (by rfl) hi
    · exact hi
  | clear => exact Inv.congr (by rfl) hi
  | drain =>
    simp only [apply, drainStep]
    apply foldl_inv _ (fun s i h => doneStep_inv h i _)
    apply foldl_inv _ (fun s i h => fireStep_inv h i)
    apply foldl_inv _ (fun s i h => runStep_inv h i)
    exact hi

theorem step_inv {s : St} (hi : Inv s) (a : Act) : Inv (step s a) :=
  apply_inv (Inv.congr (by rfl) hi) a

theorem init_inv (max delay : Nat) (hasCache : Bool) (feed : KV) : Inv (init max delay hasCache feed) := by
  have h0 : Inv ({ max := max, delay := delay, hasCache := hasCache } : St) :=
    ⟨List.nodup_nil, by simp, by simp, Or.inl rfl, by simp, by simp⟩
  unfold init St.fill
  split
  · exact Inv.congr (by rfl) h0
  · exact h0

theorem runAll_inv (acts : List Act) : ∀ s, Inv s → Inv (runAll s acts) :=
  foldl_inv step (fun _ a h => step_inv h a) acts

/-! ### `max` is a constant of the run -/

theorem foldl_max {α : Type} (f : St → α → St) (hf : ∀ s a, (f s a).max = s.max) (l : List α) :
    ∀ s, (l.foldl f s).max = s.max := by
  induction l with
  | nil => intro s; rfl
  | cons a l ih => intro s; rw [List.foldl_cons, ih, hf]

theorem runStep_max (s : St) (i : Nat) : (runStep s i).max = s.max := by
  unfold runStep; repeat' split
  all_goals rfl

theorem fireStep_max (s : St) (i : Nat) : (fireStep s i).max = s.max := by
  unfold fireStep; repeat' split
  all_goals rfl

theorem deliver_max (s : St) (p : Pend) (res : Except Nat KV) : (deliver s p res).max = s.max :=
  congrArg Prod.fst (deliver_core s p res)

theorem doneStep_max (s : St) (i : Nat) (resp : Resp) : (doneStep s i resp).max = s.max := by
  unfold doneStep
  split
  · split
    · dsimp only
      split
      · rw [foldl_max _ (fun s p => deliver_max s p _)]
        split
        · rfl
        · unfold St.fill; split <;> rfl
      · rw [foldl_max _ (fun s p => deliver_max s p _)]
    · rfl
  · rfl

theorem loadStep_max (s : St) (r : Nat) (ks : List Key) : (loadStep s r ks).max = s.max := by
  unfold loadStep enqueue
  split
  · rfl
  · split
    · rfl
    · dsimp only
      repeat' split
      all_goals rfl

theorem apply_max (s : St) (a : Act) : (apply s a).max = s.max := by
  cases a with
  | load r ks => exact loadStep_max s r ks
  | run i => exact runStep_max s i
  | fire i => exact fireStep_max s i
  | done i resp => exact doneStep_max s i resp
  | cancel r => simp only [apply, cancelStep]; split <;> rfl
  | enall b => rfl
  | entype b => rfl
  | feed kv => simp only [apply, St.fill]; split <;> rfl
  | clear => rfl
  | drain =>
    simp only [apply, drainStep]
    rw [foldl_max _ (fun s i => doneStep_max s i _), foldl_max _ fireStep_max, foldl_max _ runStep_max]

theorem runAll_max (acts : List Act) (s : St) : (runAll s acts).max = s.max :=
  foldl_max step (fun _ a => apply_max _ a) acts s

theorem init_max (max delay : Nat) (hasCache : Bool) (feed : KV) : (init max delay hasCache feed).max = max := by
  unfold init St.fill; split <;> rfl

/-! ### fan-out -/

theorem lookup_fm (values : KV) (k : Key) : ∀ ks : List Key,
    List.lookup k (ks.filterMap (fun k' => (values.lookup k').map (fun v => (k', v)))) =
      if k ∈ ks then values.lookup k else none := by
  intro ks
  induction ks with
  | nil => simp
  | cons k' t ih =>
    rw [List.filterMap_cons]
    cases hv : List.lookup k' values with
    | none =>
      simp only [Option.map_none]
      rw [ih]
      by_cases hkk : k = k'
      · subst hkk; simp [hv]
      · simp [hkk]
    | some v =>
      simp only [Option.map_some]
      rw [List.lookup_cons]
      by_cases hkk : k = k'
      · subst hkk; simp [hv]
      · have : (k == k') = false := by simpa using hkk
        rw [this, ih]; simp [hkk]

/-- what a waiter receives: the loader's value for each of its (uncached) keys — nothing when the
    loader returned nothing for it — and the cached value for every other key -/
theorem waiterResult_lookup (values : KV) (p : Pend) (hp : PendOK p) (k : Key) :
    (waiterResult values p).lookup k = if k ∈ p.keys then values.lookup k else p.cached.lookup k := by
  unfold waiterResult
  rw [List.lookup_append, lookup_fm]
  by_cases hk : k ∈ p.keys
  · simp [hk, hp.2.2 k hk]
  · simp [hk]

def evOf (p : Pend) (res : Except Nat KV) : Ev :=
  match res with
  | .ok m => .ok p.rid m
  | .error e => .err p.rid e

theorem deliver_out (s : St) (p : Pend) (res : Except Nat KV) (e : Ev) (h : e ∈ (deliver s p res).out) :
    e ∈ s.out ∨ e = evOf p res := by
  unfold deliver at h
  split at h
  · simp only [St.emit, St.setStatus, List.mem_append, List.mem_singleton] at h
    rcases h with h | h
    · exact Or.inl h
    · right; rw [h]; unfold evOf; cases res <;> rfl
  · exact Or.inl h

theorem foldl_deliver_out (g : Pend → Except Nat KV) (e : Ev) : ∀ (l : List Pend) (s0 : St),
    e ∈ (l.foldl (fun acc p => deliver acc p (g p)) s0).out → e ∈ s0.out ∨ ∃ p ∈ l, e = evOf p (g p) := by
  intro l
  induction l with
  | nil => intro s0 h; exact Or.inl h
  | cons p l ih =>
    intro s0 h
    rw [List.foldl_cons] at h
    rcases ih _ h with h1 | ⟨q, hq, he⟩
    · rcases deliver_out _ _ _ _ h1 with h2 | h2
      · exact Or.inl h2
      · exact Or.inr ⟨p, by simp, h2⟩
    · exact Or.inr ⟨q, by simp [hq], he⟩

/-- every event of a `done` step is a delivery to one of the waiters of that batch -/
theorem doneStep_out (s : St) (i : Nat) (resp : Resp) (e : Ev) (h : e ∈ (doneStep s i resp).out) :
    e ∈ s.out ∨ ∃ t, s.tasks[i]? = some t ∧ t.phase = .flight ∧ ∃ p ∈ t.waiters,
      e = evOf p (match resp.values t.keys with
        | .ok vals => .ok (waiterResult vals p)
        | .error er => .error er) := by
  unfold doneStep at h
  split at h
  · rename_i t ht
    by_cases hph : t.phase = .flight
    · rw [if_pos hph] at h
      dsimp only at h
      split at h
      · rename_i vals hv
        rcases foldl_deliver_out (fun p => .ok (waiterResult vals p)) e _ _ h with h1 | ⟨p, hp, he⟩
        · left
          split at h1
          · exact h1
          · unfold St.fill at h1; split at h1 <;> exact h1
        · exact Or.inr ⟨t, ht, hph, p, hp, by rw [hv]; exact he⟩
      · rename_i er hv
        rcases foldl_deliver_out (fun _ => .error er) e _ _ h with h1 | ⟨p, hp, he⟩
        · exact Or.inl h1
        · exact Or.inr ⟨t, ht, hph, p, hp, by rw [hv]; exact he⟩
    · rw [if_neg hph] at h; exact Or.inl h
  · exact Or.inl h

/-! ### completeness of the cache split -/

theorem splitKeys_mono (cache : KV) (ks : List Key) : ∀ (miss : List Key) (hit : KV),
    (∀ k ∈ miss, k ∈ (splitKeys cache ks (miss, hit)).1) ∧
    (∀ k v, hit.lookup k = some v → (splitKeys cache ks (miss, hit)).2.lookup k = some v) := by
  induction ks with
  | nil => intro miss hit; exact ⟨fun _ h => h, fun _ _ h => h⟩
  | cons k0 t ih =>
    intro miss hit
    simp only [splitKeys]
    split
    · rename_i v0 hv0
      refine ⟨(ih _ _).1, fun k v h => (ih _ _).2 k v ?_⟩
      split
      · exact h
      · rw [List.lookup_append, h]; rfl
    · exact ⟨fun k h => (ih _ _).1 k ((mem_addKey _ _ _).2 (Or.inl h)), (ih _ _).2⟩

theorem splitKeys_complete (cache : KV) (ks : List Key) : ∀ (miss : List Key) (hit : KV),
    (∀ k v, hit.lookup k = some v → cache.lookup k = some v) →
    ∀ k ∈ ks, (cache.lookup k = none ∧ k ∈ (splitKeys cache ks (miss, hit)).1) ∨
      (∃ v, cache.lookup k = some v ∧ (splitKeys cache ks (miss, hit)).2.lookup k = some v) := by
  induction ks with
  | nil => intro _ _ _ k hk; cases hk
  | cons k0 t ih =>
    intro miss hit hc k hk
    simp only [splitKeys]
    split
    · rename_i v0 hv0
      have hc2 : ∀ k v, (if (hit.lookup k0).isSome then hit else hit ++ [(k0, v0)]).lookup k = some v →
          cache.lookup k = some v := by
        intro k v h
        split at h
        · exact hc k v h
        · rw [List.lookup_append] at h
          cases hh : hit.lookup k with
          | some v' => rw [hh] at h; simp at h; subst h; exact hc k _ hh
          | none =>
            rw [hh] at h
            simp only [Option.none_or, List.lookup_cons, List.lookup_nil] at h
            by_cases hkk : k = k0
            · subst hkk; simp at h; subst h; exact hv0
            · have : (k == k0) = false := by simpa using hkk
              rw [this] at h; cases h
      rcases List.mem_cons.1 hk with h | h
      · subst h
        right
        refine ⟨v0, hv0, (splitKeys_mono cache t _ _).2 k v0 ?_⟩
        split
        · rename_i hs
          cases hh : hit.lookup k with
          | some v' =>
            have := hc k v' hh
            rw [hv0] at this; cases this; rfl
          | none => rw [hh] at hs; cases hs
        · rename_i hs
          rw [List.lookup_append]
          cases hh : hit.lookup k with
          | some v' => rw [hh] at hs; simp at hs
          | none => simp
      · exact ih _ _ hc2 k h
    · rename_i hv0
      rcases List.mem_cons.1 hk with h | h
      · subst h
        left
        exact ⟨hv0, (splitKeys_mono cache t _ _).1 k ((mem_addKey _ _ _).2 (Or.inr rfl))⟩
      · exact ih _ _ hc k h

theorem split_complete (s : St) (ks : List Key) (k : Key) (hk : k ∈ ks) :
    (k ∈ (split s ks).1 ∧ (s.disType = false ∧ s.disAll = false → s.cache.lookup k = none)) ∨
    (k ∉ (split s ks).1 ∧ s.disType = false ∧ s.disAll = false ∧
      (s.cache.lookup k).isSome ∧ (split s ks).2.lookup k = s.cache.lookup k) := by
  unfold split
  by_cases hf : (s.disType || s.disAll) = true
  · rw [if_pos hf]
    left
    refine ⟨(mem_addKeys ks [] k).2 (Or.inr hk), ?_⟩
    rintro ⟨h1, h2⟩
    rw [h1, h2] at hf; cases hf
  · rw [if_neg hf]
    have hf' : s.disType = false ∧ s.disAll = false := by
      cases h1 : s.disType <;> cases h2 : s.disAll <;> simp [h1, h2] at hf ⊢
    have hok := splitKeys_ok s.cache ks [] [] List.nodup_nil (by simp) (by simp)
    rcases splitKeys_complete s.cache ks [] [] (by simp) k hk with ⟨h1, h2⟩ | ⟨v, h1, h2⟩
    · exact Or.inl ⟨h2, fun _ => h1⟩
    · right
      refine ⟨?_, hf'.1, hf'.2, by rw [h1]; rfl, by rw [h1, h2]⟩
      intro hm
      have := hok.2.1 k hm
      rw [h1] at this; cases this

/-! ### liveness of `drain` -/

/-- a task that will still answer its waiters: its batch is in flight, or it is an
    `ImmediateLoad` that has not been polled yet -/
def Live (t : Task) : Prop := t.phase = .flight ∨ (t.fetch = false ∧ t.phase = .fresh)

/-- request ids are used once, and every waiting request sits in the pending queue or among the
    waiters of a task that will still answer -/
structure Inv2 (s : St) : Prop where
  uniq : (s.reqs.map (·.1)).Nodup
  wait : ∀ r, (r, RSt.waiting) ∈ s.reqs →
    (∃ p ∈ s.pending, p.rid = r) ∨ ∃ t ∈ s.tasks, Live t ∧ ∃ p ∈ t.waiters, p.rid = r

def core2 (s : St) : List Pend × List Task × List (Nat × RSt) := (s.pending, s.tasks, s.reqs)

theorem Inv2.congr {s s' : St} (h : core2 s' = core2 s) (hi : Inv2 s) : Inv2 s' := by
  simp only [core2, Prod.mk.injEq] at h
  obtain ⟨h1, h2, h3⟩ := h
  constructor
  · rw [h3]; exact hi.uniq
  · rw [h1, h2, h3]; exact hi.wait

theorem lookup_of_mem : ∀ {l : List (Nat × RSt)} {r : Nat} {x : RSt},
    (l.map (·.1)).Nodup → (r, x) ∈ l → l.lookup r = some x := by
  intro l
  induction l with
  | nil => intro r x _ h; cases h
  | cons a l ih =>
    intro r x hn hm
    obtain ⟨a1, a2⟩ := a
    simp only [List.map_cons, List.nodup_cons] at hn
    rw [List.lookup_cons]
    rcases List.mem_cons.1 hm with h | h
    · cases h; simp
    · have hne : r ≠ a1 := by
        intro e; subst e
        exact hn.1 (List.mem_map.2 ⟨(r, x), h, rfl⟩)
      have : (r == a1) = false := by simpa using hne
      rw [this]; exact ih hn.2 h

theorem not_mem_of_lookup_none : ∀ {l : List (Nat × RSt)} {r : Nat},
    l.lookup r = none → r ∉ l.map (·.1) := by
  intro l
  induction l with
  | nil => intro r _ h; cases h
  | cons a l ih =>
    intro r h hm
    obtain ⟨a1, a2⟩ := a
    rw [List.lookup_cons] at h
    by_cases e : r = a1
    · subst e; simp at h
    · have : (r == a1) = false := by simpa using e
      rw [this] at h
      simp only [List.map_cons, List.mem_cons] at hm
      rcases hm with hm | hm
      · exact e hm
      · exact ih h hm

theorem map_fst_setStatus (l : List (Nat × RSt)) (r : Nat) (x : RSt) :
    (l.map (fun p => if p.1 = r then (p.1, x) else p)).map (·.1) = l.map (·.1) := by
  rw [List.map_map]
  apply List.map_congr_left
  intro p _
  simp only [Function.comp]
  split <;> rfl

theorem mem_setStatus {l : List (Nat × RSt)} {r r' : Nat} {x : RSt} (hx : x ≠ .waiting)
    (h : (r', RSt.waiting) ∈ l.map (fun p => if p.1 = r then (p.1, x) else p)) :
    (r', RSt.waiting) ∈ l ∧ r' ≠ r := by
  obtain ⟨p, hp, he⟩ := List.mem_map.1 h
  split at he
  · simp only [Prod.mk.injEq] at he
    exact absurd he.2 hx
  · rename_i hne
    subst he
    exact ⟨hp, hne⟩

theorem deliver_uniq (s : St) (p : Pend) (res : Except Nat KV) :
    (deliver s p res).reqs.map (·.1) = s.reqs.map (·.1) := by
  unfold deliver
  split
  · exact map_fst_setStatus _ _ _
  · rfl

theorem deliver_waiting {s : St} (hu : (s.reqs.map (·.1)).Nodup) (p : Pend) (res : Except Nat KV)
    {r : Nat} (h : (r, RSt.waiting) ∈ (deliver s p res).reqs) :
    (r, RSt.waiting) ∈ s.reqs ∧ r ≠ p.rid := by
  unfold deliver at h
  split at h
  · exact mem_setStatus (by decide) h
  · rename_i hs
    refine ⟨h, ?_⟩
    intro e; subst e
    exact hs (lookup_of_mem hu h)

theorem foldl_deliver_waiting (g : Pend → Except Nat KV) : ∀ (l : List Pend) (s : St),
    (s.reqs.map (·.1)).Nodup →
    ((l.foldl (fun acc p => deliver acc p (g p)) s).reqs.map (·.1) = s.reqs.map (·.1)) ∧
    ∀ r, (r, RSt.waiting) ∈ (l.foldl (fun acc p => deliver acc p (g p)) s).reqs →
      (r, RSt.waiting) ∈ s.reqs ∧ ∀ p ∈ l, r ≠ p.rid := by
  intro l
  induction l with
  | nil => intro s _; exact ⟨rfl, fun r h => ⟨h, by simp⟩⟩
  | cons q l ih =>
    intro s hu
    rw [List.foldl_cons]
    have hu' : ((deliver s q (g q)).reqs.map (·.1)).Nodup := by rw [deliver_uniq]; exact hu
    obtain ⟨h1, h2⟩ := ih _ hu'
    refine ⟨by rw [h1, deliver_uniq], ?_⟩
    intro r hr
    obtain ⟨h3, h4⟩ := h2 r hr
    obtain ⟨h5, h6⟩ := deliver_waiting hu q (g q) h3
    refine ⟨h5, ?_⟩
    intro p hp
    rcases List.mem_cons.1 hp with e | e
    · subst e; exact h6
    · exact h4 p e

theorem live_mem_set {l : List Task} {i : Nat} {t t' x : Task} (hx : x ∈ l) (hi : l[i]? = some t)
    (hl : Live x) (hnl : ¬ Live t) : x ∈ l.set i t' := by
  rcases mem_set_or (t' := t') hx hi with h | h
  · exact h
  · subst h; exact absurd hl hnl

theorem enqueue_inv2 {s : St} (hi : Inv2 s) (r : Nat) (hr : s.status r = none) (miss : List Key) (hit : KV) :
    Inv2 (enqueue s r miss hit) := by
  have hnm := not_mem_of_lookup_none hr
  have hu : ∀ x : RSt, ((s.reqs ++ [(r, x)]).map (·.1)).Nodup := by
    intro x
    rw [List.map_append, List.nodup_append]
    refine ⟨hi.uniq, by simp, ?_⟩
    intro a ha b hb
    simp at hb
    subst hb
    intro e; subst e; exact hnm ha
  unfold enqueue
  by_cases hne : miss = []
  · rw [if_pos hne]
    refine ⟨hu _, ?_⟩
    intro r' h'
    simp only [St.emit, List.mem_append, List.mem_singleton, Prod.mk.injEq] at h'
    rcases h' with h' | h'
    · exact hi.wait r' h'
    · exact absurd h'.2 (by decide)
  · rw [if_neg hne]
    dsimp only
    have hw : ∀ r', (r', RSt.waiting) ∈ s.reqs ++ [(r, RSt.waiting)] →
        (∃ p ∈ s.pending ++ [({ rid := r, keys := miss, cached := hit } : Pend)], p.rid = r') ∨
        ∃ t ∈ s.tasks, Live t ∧ ∃ p ∈ t.waiters, p.rid = r' := by
      intro r' h'
      rcases List.mem_append.1 h' with h' | h'
      · rcases hi.wait r' h' with ⟨p, hp, e⟩ | h
        · exact Or.inl ⟨p, List.mem_append.2 (Or.inl hp), e⟩
        · exact Or.inr h
      · simp only [List.mem_singleton, Prod.mk.injEq] at h'
        exact Or.inl ⟨_, List.mem_append.2 (Or.inr (List.mem_singleton.2 rfl)), h'.1.symm⟩
    split
    · refine ⟨hu _, ?_⟩
      intro r' h'
      right
      rcases hw r' h' with ⟨p, hp, e⟩ | ⟨t, ht, hl, h⟩
      · exact ⟨_, List.mem_append.2 (Or.inr (List.mem_singleton.2 rfl)), Or.inr ⟨rfl, rfl⟩, p, hp, e⟩
      · exact ⟨t, List.mem_append.2 (Or.inl ht), hl, h⟩
    · split
      · refine ⟨hu _, ?_⟩
        intro r' h'
        rcases hw r' h' with h | ⟨t, ht, hl, h⟩
        · exact Or.inl h
        · exact Or.inr ⟨t, List.mem_append.2 (Or.inl ht), hl, h⟩
      · exact ⟨hu _, hw⟩

theorem loadStep_inv2 {s : St} (hi : Inv2 s) (r : Nat) (ks : List Key) : Inv2 (loadStep s r ks) := by
  unfold loadStep
  split
  · exact hi
  · rename_i h
    apply enqueue_inv2 hi
    cases hs : s.status r with
    | none => rfl
    | some x => rw [hs] at h; simp at h

theorem runStep_inv2 {s : St} (hi : Inv2 s) (i : Nat) : Inv2 (runStep s i) := by
  unfold runStep
  split
  · rename_i t ht
    by_cases hph : t.phase = .fresh
    · rw [if_pos hph]
      have key : ∀ ph : Phase, (t.fetch = false → ph = .flight) →
          Inv2 { s with tasks := s.tasks.set i { t with phase := ph } } := by
        intro ph hph'
        refine ⟨hi.uniq, ?_⟩
        intro r hr
        rcases hi.wait r hr with h | ⟨x, hx, hl, h⟩
        · exact Or.inl h
        · right
          rcases mem_set_or (t' := { t with phase := ph }) hx ht with h1 | h1
          · exact ⟨x, h1, hl, h⟩
          · subst h1
            refine ⟨_, List.mem_set (lt_of_getElem? ht) _, ?_, h⟩
            rcases hl with hl | hl
            · rw [hph] at hl; cases hl
            · exact Or.inl (hph' hl.1)
      by_cases hf : t.fetch = true
      · rw [if_pos hf]
        exact Inv2.congr (by rfl) (key .timer (by rw [hf]; intro h; cases h))
      · rw [if_neg hf]
        exact Inv2.congr (by rfl) (key .flight (fun _ => rfl))
    · rw [if_neg hph]; exact hi
  · exact hi

theorem fireStep_inv2 {s : St} (h1 : Inv s) (hi : Inv2 s) (i : Nat) : Inv2 (fireStep s i) := by
  unfold fireStep
  split
  · rename_i t ht
    by_cases hph : t.phase = .timer
    · rw [if_pos hph]
      have hnl : ¬ Live t := by
        rintro (h | h)
        · rw [hph] at h; cases h
        · rw [hph] at h; cases h.2
      by_cases hk : s.keys = []
      · rw [if_pos hk]
        refine ⟨hi.uniq, ?_⟩
        intro r hr
        rcases hi.wait r hr with ⟨p, hp, _⟩ | ⟨x, hx, hl, h⟩
        · rw [pending_nil_of_keys_nil h1 hk] at hp; cases hp
        · exact Or.inr ⟨x, live_mem_set hx ht hl hnl, hl, h⟩
      · rw [if_neg hk]
        refine Inv2.congr (s := { s with keys := [], pending := [], tasks := s.tasks.set i { t with phase := .flight, keys := s.keys, waiters := s.pending } }) (by rfl) ⟨hi.uniq, ?_⟩
        intro r hr
        right
        rcases hi.wait r hr with h | ⟨x, hx, hl, h⟩
        · exact ⟨_, List.mem_set (lt_of_getElem? ht) _, Or.inl rfl, h⟩
        · exact ⟨x, live_mem_set hx ht hl hnl, hl, h⟩
    · rw [if_neg hph]; exact hi
  · exact hi

theorem doneStep_inv2 {s : St} (hi : Inv2 s) (i : Nat) (resp : Resp) : Inv2 (doneStep s i resp) := by
  unfold doneStep
  split
  · rename_i t ht
    by_cases hph : t.phase = .flight
    · rw [if_pos hph]
      dsimp only
      have main : ∀ (g : Pend → Except Nat KV) (s2 : St), core2 s2 = core2 { s with tasks := s.tasks.set i { t with phase := .fin } } →
          Inv2 (t.waiters.foldl (fun acc p => deliver acc p (g p)) s2) := by
        intro g s2 hc
        simp only [core2, Prod.mk.injEq] at hc
        obtain ⟨c1, c2, c3⟩ := hc
        have hu2 : (s2.reqs.map (·.1)).Nodup := by rw [c3]; exact hi.uniq
        obtain ⟨f1, f2⟩ := foldl_deliver_waiting g t.waiters s2 hu2
        have fc := foldl_core _ (fun s p => deliver_core s p (g p)) t.waiters s2
        simp only [core, Prod.mk.injEq] at fc
        refine ⟨by rw [f1]; exact hu2, ?_⟩
        intro r hr
        obtain ⟨g1, g2⟩ := f2 r hr
        rw [c3] at g1
        rw [fc.2.2.1, fc.2.2.2, c1, c2]
        rcases hi.wait r g1 with h | ⟨x, hx, hl, p, hp, e⟩
        · exact Or.inl h
        · right
          rcases mem_set_or (t' := { t with phase := .fin }) hx ht with h1 | h1
          · exact ⟨x, h1, hl, p, hp, e⟩
          · subst h1
            exact absurd e.symm (g2 p hp)
      split
      · apply main (fun p => .ok (waiterResult _ p))
        split
        · rfl
        · unfold St.fill; split <;> rfl
      · exact main (fun _ => .error _) _ rfl
    · rw [if_neg hph]; exact hi
  · exact hi

theorem foldl_inv12 {α : Type} (f : St → α → St) (hf : ∀ s a, Inv s ∧ Inv2 s → Inv (f s a) ∧ Inv2 (f s a))
    (l : List α) : ∀ s, Inv s ∧ Inv2 s → Inv (l.foldl f s) ∧ Inv2 (l.foldl f s) := by
  induction l with
  | nil => intro s h; exact h
  | cons a l ih => intro s h; exact ih _ (hf s a h)

theorem drainStep_inv2 {s : St} (h1 : Inv s) (hi : Inv2 s) : Inv2 (drainStep s) := by
  simp only [drainStep]
  refine (foldl_inv12 _ (fun s i h => ⟨doneStep_inv h.1 i _, doneStep_inv2 h.2 i _⟩) _ _ ?_).2
  refine foldl_inv12 _ (fun s i h => ⟨fireStep_inv h.1 i, fireStep_inv2 h.1 h.2 i⟩) _ _ ?_
  exact foldl_inv12 _ (fun s i h => ⟨runStep_inv h.1 i, runStep_inv2 h.2 i⟩) _ _ ⟨h1, hi⟩

theorem apply_inv2 {s : St} (h1 : Inv s) (hi : Inv2 s) (a : Act) : Inv2 (apply s a) := by
  cases a with
  | load r ks => exact loadStep_inv2 hi r ks
  | run i => exact runStep_inv2 hi i
  | fire i => exact fireStep_inv2 h1 hi i
  | done i resp => exact doneStep_inv2 hi i resp
  | cancel r =>
    simp only [apply, cancelStep]
    split
    · refine ⟨by simp only [St.setStatus]; rw [map_fst_setStatus]; exact hi.uniq, ?_⟩
      intro r' hr'
      exact hi.wait r' (mem_setStatus (by decide) hr').1
    · exact hi
  | enall b => exact Inv2.congr (by rfl) hi
  | entype b => exact Inv2.congr (by rfl) hi
  | feed kv =>
    simp only [apply, St.fill]
    split
    · exact Inv2.congr (by rfl) hi
    · exact hi
  | clear => exact Inv2.congr (by rfl) hi
  | drain => exact drainStep_inv2 h1 hi

theorem step_inv2 {s : St} (h1 : Inv s) (hi : Inv2 s) (a : Act) : Inv2 (step s a) :=
  apply_inv2 (Inv.congr (by rfl) h1) (Inv2.congr (by rfl) hi) a

theorem init_inv2 (max delay : Nat) (hasCache : Bool) (feed : KV) : Inv2 (init max delay hasCache feed) := by
  have h0 : Inv2 ({ max := max, delay := delay, hasCache := hasCache } : St) :=
    ⟨by simp, by simp⟩
  unfold init St.fill
  split
  · exact Inv2.congr (by rfl) h0
  · exact h0

theorem runAll_inv2 (acts : List Act) : ∀ s, Inv s → Inv2 s → Inv2 (runAll s acts) := by
  intro s h1 h2
  exact (foldl_inv12 step (fun _ a h => ⟨step_inv h.1 a, step_inv2 h.1 h.2 a⟩) acts s ⟨h1, h2⟩).2


/-! ### the three folds of `drain` -/

/-- task `j` (if there is one) is not in phase `ph` -/
def NotPh (ph : Phase) (j : Nat) (s : St) : Prop := ∀ t, s.tasks[j]? = some t → t.phase ≠ ph

/-- from `s` to `s'` only task `i` may have changed its phase, and only from `A` to a phase in `B` -/
def Trans (A : Phase) (B : Phase → Prop) (i : Nat) (s s' : St) : Prop :=
  ∀ j x, s'.tasks[j]? = some x → ∃ t, s.tasks[j]? = some t ∧
    ((x.phase = t.phase ∧ (j = i → t.phase ≠ A)) ∨ (t.phase = A ∧ B x.phase))

theorem Trans.refl_of {A : Phase} {B : Phase → Prop} {i : Nat} {s s' : St} (h : s'.tasks = s.tasks)
    (hA : ∀ t, s.tasks[i]? = some t → t.phase ≠ A) : Trans A B i s s' := by
  intro j x hx
  rw [h] at hx
  exact ⟨x, hx, Or.inl ⟨rfl, fun e => hA x (e ▸ hx)⟩⟩

theorem Trans.of_set {A : Phase} {B : Phase → Prop} {i : Nat} {s s' : St} {t t' : Task}
    (ht : s.tasks[i]? = some t) (hA : t.phase = A) (hB : B t'.phase)
    (h : s'.tasks = s.tasks.set i t') : Trans A B i s s' := by
  intro j x hx
  rw [h, List.getElem?_set] at hx
  by_cases e : i = j
  · subst e
    rw [if_pos rfl] at hx
    split at hx
    · cases hx
      exact ⟨t, ht, Or.inr ⟨hA, hB⟩⟩
    · cases hx
  · rw [if_neg e] at hx
    exact ⟨x, hx, Or.inl ⟨rfl, fun e' => absurd e'.symm e⟩⟩

theorem Trans.self {A : Phase} {B : Phase → Prop} {i : Nat} {s s' : St} (h : Trans A B i s s')
    (hB : ¬ B A) : NotPh A i s' := by
  intro x hx hp
  obtain ⟨t, _, h1 | h1⟩ := h i x hx
  · exact h1.2 rfl (h1.1 ▸ hp)
  · exact hB (hp ▸ h1.2)

theorem Trans.pres {A C : Phase} {B : Phase → Prop} {i j : Nat} {s s' : St} (h : Trans A B i s s')
    (hB : ¬ B C) (hs : NotPh C j s) : NotPh C j s' := by
  intro x hx hp
  obtain ⟨t, ht, h1 | h1⟩ := h j x hx
  · exact hs t ht (h1.1 ▸ hp)
  · exact hB (hp ▸ h1.2)

theorem runStep_trans (s : St) (i : Nat) :
    Trans .fresh (fun p => p = .timer ∨ p = .flight) i s (runStep s i) := by
  unfold runStep
  split
  · rename_i t ht
    by_cases hph : t.phase = .fresh
    · rw [if_pos hph]
      by_cases hf : t.fetch = true
      · rw [if_pos hf]
        exact Trans.of_set (t' := { t with phase := .timer }) ht hph (Or.inl rfl) rfl
      · rw [if_neg hf]
        exact Trans.of_set (t' := { t with phase := .flight }) ht hph (Or.inr rfl) rfl
    · rw [if_neg hph]
      exact Trans.refl_of rfl (fun x hx => by rw [ht] at hx; cases hx; exact hph)
  · rename_i hn
    exact Trans.refl_of rfl (fun x hx => by rw [hn] at hx; cases hx)

theorem fireStep_trans (s : St) (i : Nat) :
    Trans .timer (fun p => p = .fin ∨ p = .flight) i s (fireStep s i) := by
  unfold fireStep
  split
  · rename_i t ht
    by_cases hph : t.phase = .timer
    · rw [if_pos hph]
      by_cases hk : s.keys = []
      · rw [if_pos hk]
        exact Trans.of_set (t' := { t with phase := .fin }) ht hph (Or.inl rfl) rfl
      · rw [if_neg hk]
        exact Trans.of_set (t' := { t with phase := .flight, keys := s.keys, waiters := s.pending }) ht hph (Or.inr rfl) rfl
    · rw [if_neg hph]
      exact Trans.refl_of rfl (fun x hx => by rw [ht] at hx; cases hx; exact hph)
  · rename_i hn
    exact Trans.refl_of rfl (fun x hx => by rw [hn] at hx; cases hx)

theorem foldl_deliver_tasks (g : Pend → Except Nat KV) (l : List Pend) (s : St) :
    (l.foldl (fun acc p => deliver acc p (g p)) s).tasks = s.tasks := by
  have fc := foldl_core _ (fun s p => deliver_core s p (g p)) l s
  simp only [core, Prod.mk.injEq] at fc
  exact fc.2.2.2

theorem doneStep_trans (s : St) (i : Nat) (resp : Resp) :
    Trans .flight (fun p => p = .fin) i s (doneStep s i resp) := by
  unfold doneStep
  split
  · rename_i t ht
    by_cases hph : t.phase = .flight
    · rw [if_pos hph]
      dsimp only
      split
      · rename_i vals _
        refine Trans.of_set (B := fun p => p = Phase.fin) (t' := { t with phase := .fin }) ht hph rfl ?_
        rw [foldl_deliver_tasks (fun p => .ok (waiterResult vals p))]
        split
        · rfl
        · unfold St.fill; split <;> rfl
      · rename_i er _
        refine Trans.of_set (B := fun p => p = Phase.fin) (t' := { t with phase := .fin }) ht hph rfl ?_
        rw [foldl_deliver_tasks (fun _ => .error er)]
    · rw [if_neg hph]
      exact Trans.refl_of rfl (fun x hx => by rw [ht] at hx; cases hx; exact hph)
  · rename_i hn
    exact Trans.refl_of rfl (fun x hx => by rw [hn] at hx; cases hx)


theorem Trans.len {A : Phase} {B : Phase → Prop} {i : Nat} {s s' : St} (h : Trans A B i s s') :
    s'.tasks.length ≤ s.tasks.length := by
  apply Nat.le_of_not_lt
  intro hlt
  obtain ⟨t, ht, _⟩ := h s.tasks.length _ (List.getElem?_eq_getElem hlt)
  have := lt_of_getElem? ht
  omega

theorem foldl_range_establish (Q : Nat → St → Prop) (f : St → Nat → St)
    (hpres : ∀ s i j, Q j s → Q j (f s i)) (hest : ∀ s i, Q i (f s i)) :
    ∀ n s, ∀ j < n, Q j ((List.range n).foldl f s) := by
  intro n
  induction n with
  | zero => intro s j hj; omega
  | succ n ih =>
    intro s j hj
    rw [List.range_succ, List.foldl_append]
    simp only [List.foldl_cons, List.foldl_nil]
    by_cases e : j = n
    · subst e; exact hest _ _
    · exact hpres _ _ _ (ih s j (by omega))

theorem foldl_pres {α : Type} (R : St → Prop) (f : St → α → St) (hf : ∀ s a, R s → R (f s a)) (l : List α) :
    ∀ s, R s → R (l.foldl f s) := by
  induction l with
  | nil => intro s h; exact h
  | cons a l ih => intro s h; exact ih _ (hf s a h)

/-- after the three folds of `drain` every task has finished -/
theorem drainStep_all_fin (s : St) : ∀ t ∈ (drainStep s).tasks, t.phase = .fin := by
  intro t ht
  obtain ⟨j, hj, hjt⟩ := List.mem_iff_getElem.1 ht
  have hget : (drainStep s).tasks[j]? = some t := by rw [List.getElem?_eq_getElem hj, hjt]
  have hj' : j < (drainStep s).tasks.length := hj
  clear hjt ht
  replace hj := hj'
  clear hj'
  simp only [drainStep] at hj hget
  generalize hn : s.tasks.length = n at hj hget
  -- lengths
  have l1 : ((List.range n).foldl runStep s).tasks.length ≤ n :=
    foldl_pres (fun x => x.tasks.length ≤ n) _ (fun x i h => Nat.le_trans (runStep_trans x i).len h) _ s (by omega)
  have l2 := foldl_pres (fun x => x.tasks.length ≤ n) _ (fun x i h => Nat.le_trans (fireStep_trans x i).len h)
    (List.range n) _ l1
  have l3 := foldl_pres (fun x => x.tasks.length ≤ n) _
    (fun x i h => Nat.le_trans (doneStep_trans x i (.okall 1000)).len h) (List.range n) _ l2
  have hjn : j < n := Nat.lt_of_lt_of_le hj l3
  -- not fresh
  have a1 := foldl_range_establish (NotPh .fresh) runStep
    (fun x i j h => (runStep_trans x i).pres (by simp) h) (fun x i => (runStep_trans x i).self (by simp)) n s j hjn
  have a2 := foldl_pres (NotPh .fresh j) _ (fun x i h => (fireStep_trans x i).pres (by simp) h) (List.range n) _ a1
  have a3 := foldl_pres (NotPh .fresh j) _ (fun x i h => (doneStep_trans x i (.okall 1000)).pres (by simp) h)
    (List.range n) _ a2
  -- not waiting for the timer
  have b2 := foldl_range_establish (NotPh .timer) fireStep
    (fun x i j h => (fireStep_trans x i).pres (by simp) h) (fun x i => (fireStep_trans x i).self (by simp)) n ((List.range n).foldl runStep s) j hjn
  have b3 := foldl_pres (NotPh .timer j) _ (fun x i h => (doneStep_trans x i (.okall 1000)).pres (by simp) h)
    (List.range n) _ (b2)
  -- not in flight
  have c3 := foldl_range_establish (NotPh .flight) (fun acc i => doneStep acc i (.okall 1000))
    (fun x i j h => (doneStep_trans x i _).pres (by simp) h) (fun x i => (doneStep_trans x i _).self (by simp)) n
    ((List.range n).foldl fireStep ((List.range n).foldl runStep s)) j hjn
  have e1 := a3 t hget
  have e2 := b3 t hget
  have e3 := c3 t hget
  cases hp : t.phase <;> simp_all

/-- `drain` leaves no request waiting -/
theorem drainStep_no_waiting {s : St} (h1 : Inv s) (h2 : Inv2 s) : (drainStep s).waitingReqs = [] := by
  have i1 : Inv (drainStep s) := apply_inv h1 .drain
  have i2 : Inv2 (drainStep s) := drainStep_inv2 h1 h2
  have hfin := drainStep_all_fin s
  have hk : (drainStep s).keys = [] := by
    apply Classical.byContradiction
    intro hne
    obtain ⟨t, ht, _, hp⟩ := i1.timer hne
    rw [hfin t ht] at hp
    rcases hp with hp | hp <;> cases hp
  have hp := pending_nil_of_keys_nil i1 hk
  unfold St.waitingReqs
  rw [List.map_eq_nil_iff, List.filter_eq_nil_iff]
  intro p hp' hw
  obtain ⟨r, x⟩ := p
  simp only [decide_eq_true_eq] at hw
  subst hw
  rcases i2.wait r hp' with ⟨q, hq, _⟩ | ⟨t, ht, hl, _⟩
  · rw [hp] at hq; cases hq
  · rw [Live, hfin t ht] at hl
    rcases hl with hl | hl
    · cases hl
    · cases hl.2


end AGV.Lemmas.Loader
