/-
  Property C13: `selection_set`, `selection`, `field`, `inline_fragment`, `fragment_spread` read by
  the interpreter, as token-level PEGs (`qSelSet`), and `parse_selection_set` on the emitted pairs.
-/
import AGV.Lemmas.PegC13Sel2
namespace AGV.Lemmas.PegX
open AGV.Model.Peg AGV.Model.BuildAst AGV.Spec.Lex AGV.Spec.Parse AGV.Core.PAst AGV.Lemmas.PegC13 AGV.Lemmas.SpecVal
open AGV.Lemmas.ParseC13 (selElemK kOf buildSelSet_succ)

def selSetRule : Rule := ⟨"selection_set", .normal, .seq (.str ['{']) (.seq (.rep1 (.ident "selection")) (.str ['}']))⟩
def selectionRule : Rule := ⟨"selection", .normal,
  .choice (.ident "field") (.choice (.ident "inline_fragment") (.ident "fragment_spread"))⟩
def fieldRule : Rule := ⟨"field", .normal,
  .seq (.opt (.ident "alias")) (.seq (.ident "name") (.seq (.opt (.ident "arguments"))
    (.seq (.opt (.ident "directives")) (.opt (.ident "selection_set")))))⟩
def spreadRule : Rule := ⟨"fragment_spread", .normal,
  .seq (.str ['.', '.', '.']) (.seq (.neg (.ident "type_condition")) (.seq (.neg (.ident "kw_on_only"))
    (.seq (.ident "name") (.opt (.ident "directives")))))⟩
def inlineRule : Rule := ⟨"inline_fragment", .normal,
  .seq (.str ['.', '.', '.']) (.seq (.opt (.ident "type_condition")) (.seq (.opt (.ident "directives"))
    (.ident "selection_set")))⟩

theorem sel_rules : RuleOk "selection_set" selSetRule ∧ RuleOk "selection" selectionRule ∧ RuleOk "field" fieldRule ∧
    RuleOk "fragment_spread" spreadRule ∧ RuleOk "inline_fragment" inlineRule :=
  ⟨⟨by rfl, by decide, by decide, by rfl, rfl, by decide⟩, ⟨by rfl, by decide, by decide, by rfl, rfl, by decide⟩,
   ⟨by rfl, by decide, by decide, by rfl, rfl, by decide⟩, ⟨by rfl, by decide, by decide, by rfl, rfl, by decide⟩,
   ⟨by rfl, by decide, by decide, by rfl, rfl, by decide⟩⟩

-- ------------------------------------------------------------------ the token-level readers

def mkField (x : Option Name × Name × Option (List (Name × PValue)) × Option (List PDirective) × Option (List PSel)) :
    PSel :=
  .field x.1 x.2.1 (x.2.2.1.getD []) (x.2.2.2.1.getD []) (x.2.2.2.2.getD [])

/-- `alias? name arguments? directives? selection_set?` as the PEG reads it -/
def qField (ss : Sim (List PSel)) : Sim PSel :=
  tMap mkField (tSeq (tOpt qAlias) (tSeq pName (tSeq (tOpt (pArgsV false)) (tSeq (tOpt (qDirectives false)) (tOpt ss)))))

def mkSpread (x : Unit × Unit × Unit × Name × Option (List PDirective)) : PSel :=
  .spread x.2.2.2.1 (x.2.2.2.2.getD [])

/-- `... !type_condition !on name directives?` -/
def qSpread : Sim PSel :=
  tMap mkSpread (tSeq tSpread (tSeq (tNot qTypeCond) (tSeq (tNot (tKw onKw)) (tSeq pName (tOpt (qDirectives false))))))

def mkInline (x : Unit × Option Name × Option (List PDirective) × List PSel) : PSel :=
  .inline x.2.1 (x.2.2.1.getD []) x.2.2.2

/-- `... type_condition? directives? selection_set` -/
def qInline (ss : Sim (List PSel)) : Sim PSel :=
  tMap mkInline (tSeq tSpread (tSeq (tOpt qTypeCond) (tSeq (tOpt (qDirectives false)) ss)))

def qSelection (ss : Sim (List PSel)) : Sim PSel := tOr (qField ss) (tOr (qInline ss) qSpread)

def qSelSetBody (ss : Sim (List PSel)) : Sim (List PSel) :=
  tMap (fun x => x.2.1) (tSeq (tPunct '{') (tSeq (tRep1 (qSelection ss)) (tPunct '}')))

/-- `{ selection+ }`; the number bounds the nesting -/
def qSelSet : Nat → Sim (List PSel)
  | 0 => fun _ => none
  | n + 1 => qSelSetBody (qSelSet n)

-- ------------------------------------------------------------------ what the builder makes of the pairs

def bSel : Bld PSel := fun s₀ ps s =>
  ∃ pr, ps = [pr] ∧ pr.rule = "selection" ∧
    ∀ f lim, dSel s ≤ f →
      Exp (selElemK (envOf s₀) (kOf (envOf s₀) f lim) pr) (finSel s && decide (dSel s ≤ lim)) (normSel s)

def bSelSet : Bld (List PSel) := fun s₀ ps ss =>
  ∃ pr, ps = [pr] ∧ pr.rule = "selection_set" ∧ ss ≠ [] ∧
    ∀ f lim, dSels ss < f →
      Exp (buildSelSet (envOf s₀) f lim pr) (finSels ss && decide (dSels ss ≤ lim)) (normSels ss)

theorem strict_qField (ss : Sim (List PSel)) (hs : Mono ss) : Strict (qField ss) :=
  strict_map (strict_seq_r (mono_opt strict_qAlias.mono) (strict_seq strict_pName
    (mono_seq (mono_opt (strict_pArgsV false).mono) (mono_seq (mono_opt (strict_rep1 (strict_qDirective false)).mono)
      (mono_opt hs)))))

theorem strict_qSpread : Strict qSpread :=
  strict_map (strict_seq strict_spread (mono_seq (mono_not _) (mono_seq (mono_not _) (mono_seq strict_pName.mono
    (mono_opt (strict_rep1 (strict_qDirective false)).mono)))))

theorem strict_qInline (ss : Sim (List PSel)) (hs : Mono ss) : Strict (qInline ss) :=
  strict_map (strict_seq strict_spread (mono_seq (mono_opt strict_qTypeCond.mono)
    (mono_seq (mono_opt (strict_rep1 (strict_qDirective false)).mono) hs)))

theorem strict_qSelection (ss : Sim (List PSel)) (hs : Mono ss) : Strict (qSelection ss) :=
  strict_or (strict_qField ss hs) (strict_or (strict_qInline ss hs) strict_qSpread)

theorem strict_qSelSetBody (ss : Sim (List PSel)) (hs : Mono ss) : Strict (qSelSetBody ss) :=
  strict_map (strict_seq (strict_punct '{') (mono_seq (strict_rep1 (strict_qSelection ss hs)).mono (strict_punct '}').mono))

theorem strict_qSelSet : ∀ n, Strict (qSelSet n) := by
  intro n
  induction n with
  | zero => intro ts a r h; cases h
  | succ n ih => exact strict_qSelSetBody _ ih.mono

/-- a successful `selection+` is not empty -/
theorem tRep1_ne_nil {α : Type} {q : Sim α} {ts r : List Tok} {xs : List α} (h : tRep1 q ts = some (xs, r)) : xs ≠ [] := by
  simp only [tRep1] at h
  cases hq : q ts with
  | none => simp [hq] at h
  | some x => simp [hq] at h; obtain ⟨rfl, -⟩ := h; simp

/-- the pair inside a `selection` pair -/
def bSelAlt : Bld PSel := fun s₀ ps s =>
  ∃ c, ps = [c] ∧ ∀ p p1 f lim, dSel s ≤ f →
    Exp (selElemK (envOf s₀) (kOf (envOf s₀) f lim) (Pair.mk "selection" p p1 [c]))
      (finSel s && decide (dSel s ≤ lim)) (normSel s)

/-- the continuation of `parse_selection_set` on a nested set: one level of the limit is spent -/
theorem kOf_exp {s₀ : List Char} {pr : Pair} {ss : List PSel} {f lim : Nat}
    (hb : ∀ f lim, dSels ss < f →
      Exp (buildSelSet (envOf s₀) f lim pr) (finSels ss && decide (dSels ss ≤ lim)) (normSels ss))
    (hf : dSels ss < f) :
    Exp (kOf (envOf s₀) f lim pr) (finSels ss && decide (dSels ss + 1 ≤ lim)) (normSels ss) := by
  cases lim with
  | zero =>
    have : (finSels ss && decide (dSels ss + 1 ≤ 0)) = false := by simp
    rw [this]
    exact exp_false.2 ⟨.depth, by simp [kOf]⟩
  | succ l =>
    have h := hb f l hf
    have e : decide (dSels ss + 1 ≤ l + 1) = decide (dSels ss ≤ l) := by simp
    rw [e]
    simpa [kOf] using h

theorem reads_fragment_spread (L : Nat) : Reads L (.ident "fragment_spread") 60 qSpread bSelAlt := by
  have hbody := Reads.seq (Reads.spread L 1 (Nat.le_refl _)) (Reads.seq (reads_notTC L) (Reads.seq (reads_notOn L)
    (Reads.seq (Reads.name L 8 (Nat.le_refl _)) (Reads.opt (reads_directives famV (Or.inl rfl) L) (K := 53) (by omega))
      (K := 54) (by omega) (by omega) (by omega)) (K := 55) (by omega) (by omega) (by omega))
      (K := 56) (by omega) (by omega) (by omega)) (K := 57) (by omega) (by omega) (by omega)
  have hrule := Reads.rule sel_rules.2.2.2.1 (r := spreadRule) hbody (K := 60) (by omega)
  refine Reads.map mkSpread hrule ?_
  rintro s₀ ps ⟨⟨⟩, ⟨⟩, ⟨⟩, n, ods⟩ ⟨p, p1, inner, rfl, ps1, ps2, rfl, h1, ps3, ps4, rfl, h3, ps5, ps6, rfl, h5, ps7, ps8, rfl,
    ⟨a, b, rfl, hn⟩, h8⟩
  simp only [bNil] at h1 h3 h5
  subst h1 h3 h5
  refine ⟨_, rfl, fun p' p1' f lim _ => ?_⟩
  simp only [List.nil_append, List.cons_append, mkSpread, normSel]
  refine (spread_build s₀ _ p' p1' p p1 a b ps8 n ods hn h8).cast ?_ rfl
  simp [finSel, dSel]

theorem reads_field {L : Nat} (ih : Reads L (.ident "selection_set") 100 (qSelSet L) bSelSet) :
    Reads (L + 1) (.ident "field") 85 (qField (qSelSet L)) bSelAlt := by
  have hrest : Reads L (.seq (.opt (.ident "arguments")) (.seq (.opt (.ident "directives")) (.opt (.ident "selection_set"))))
      103 _ _ :=
    Reads.seq (Reads.opt (reads_args famV (Or.inl rfl) L) (K := 41) (by omega))
      (Reads.seq (Reads.opt (reads_directives famV (Or.inl rfl) L) (K := 53) (by omega))
        (Reads.opt ih (K := 101) (by omega)) (K := 102) (by omega) (by omega) (by omega))
      (K := 103) (by omega) (by omega) (by omega)
  have hbody := Reads.seq (Reads.opt (reads_alias (L + 1)) (K := 21) (by omega))
    (Reads.seqS (Reads.name (L + 1) 8 (Nat.le_refl _)) strict_pName hrest (Nat.le_refl _) (K := 80) (by omega) (by omega)
      (by omega)) (K := 81) (by omega) (by omega) (by omega)
  have hrule := Reads.rule sel_rules.2.2.1 (r := fieldRule) hbody (K := 85) (by omega)
  refine Reads.map mkField hrule ?_
  rintro s₀ ps ⟨oal, n, oas, ods, oss⟩ ⟨p, p1, inner, rfl, ps1, ps2, rfl, h1, ps3, ps4, rfl, ⟨a, b, rfl, hn⟩, ps5, ps6, rfl, h5,
    ps7, ps8, rfl, h7, h8⟩
  refine ⟨_, rfl, fun p' p1' f lim hd1 => ?_⟩
  simp only [mkField, normSel]
  cases oss with
  | none =>
    have hS : optSS (kOf (envOf s₀) f lim) ps8 none true := ⟨h8, rfl⟩
    refine (field_build s₀ _ p' p1' p p1 a b ps1 ps5 ps7 ps8 oal n oas ods none true h1 hn h5 h7 hS).cast ?_ rfl
    simp [finSel, dSel, finSels]
  | some ss =>
    obtain ⟨pr, rfl, hr, hne, hb⟩ := h8
    have hemp : ss.isEmpty = false := by cases ss with
      | nil => exact absurd rfl hne
      | cons _ _ => rfl
    have hd1' : dSels ss + 1 ≤ f := by
      simpa [mkField, dSel, hemp] using hd1
    have hS : optSS (kOf (envOf s₀) f lim) [pr] (some ss) (finSels ss && decide (dSels ss + 1 ≤ lim)) :=
      ⟨pr, rfl, hr, kOf_exp hb (by omega)⟩
    refine (field_build s₀ _ p' p1' p p1 a b ps1 ps5 ps7 [pr] oal n oas ods (some ss) _ h1 hn h5 h7 hS).cast ?_ rfl
    simp [finSel, dSel, hemp, Bool.and_assoc]
end AGV.Lemmas.PegX
