/-
  C09 — lemmas about the walker of Model/Validate.lean (toggle-free): the walk is a structural fold.
  An event belongs to `events S {} d` iff it is a local event of the document, of an operation, of a
  fragment or of a visited selection; `visitsSel` lists the visited selections with their type stacks.
-/
import AGV.Model.Validate
import AGV.Spec.Validate
namespace AGV.Lemmas.ValidateWalk
open AGV.Core AGV.Model.Validate

/-- the type the walker pushes for a field -/
def fieldTy (S : VSchema) (st : Stack) (n : String) : Option String :=
  if n = "__typename" then (if S.exists? "String" then some "String" else none)
  else ((Stack.cur st).bind (fun t => S.field? t n)).bind (fun f => S.concrete f.ty)

def fieldDefs (S : VSchema) (st : Stack) (n : String) : Option (List ArgDef) :=
  ((Stack.cur st).bind (fun t => S.field? t n)).map (·.args)

def inlineSt (S : VSchema) (st : Stack) : Option String → Stack
  | some t => (if S.exists? t then some t else none) :: st
  | none => st

theorem walkSel_field (S : VSchema) (st : Stack) al n args ds ss p :
    walkSel S {} st (.field al n args ds ss p) =
      mk st .enterSel :: mk (fieldTy S st n :: st) (.enterField al n args ds ss) ::
        (walkArgs S {} (fieldTy S st n :: st) (fieldDefs S st n) args
         ++ walkDirs S {} (fieldTy S st n :: st) ds
         ++ walkSet S {} (fieldTy S st n :: st) ss
         ++ [mk (fieldTy S st n :: st) .exitField, mk st .exitSel]) := by
  cases ss <;> simp [walkSel, walkSet, fieldTy, fieldDefs]

theorem walkSel_spread (S : VSchema) (st : Stack) n ds p :
    walkSel S {} st (.spread n ds p) =
      mk st .enterSel :: mk st (.enterSpread n ds) :: (walkDirs S {} st ds ++ [mk st .exitSpread, mk st .exitSel]) := by
  simp [walkSel]

theorem walkSel_inline (S : VSchema) (st : Stack) c ds ss p :
    walkSel S {} st (.inline c ds ss p) =
      mk st .enterSel :: mk (inlineSt S st c) (.enterInline c ds ss) ::
        (walkDirs S {} (inlineSt S st c) ds ++ walkSet S {} (inlineSt S st c) ss
         ++ [mk (inlineSt S st c) .exitInline, mk st .exitSel]) := by
  cases ss <;> cases c <;> simp [walkSel, walkSet, inlineSt]


-- ------------------------------------------------------------------ walk = structural fold

mutual
/-- every selection the walker visits, with the type stack it is visited under (pre-order) -/
def visitsSel (S : VSchema) (st : Stack) : Sel → List (Stack × Sel)
  | .field al n args ds ss p => (st, .field al n args ds ss p) :: visitsSels S (fieldTy S st n :: st) ss
  | .spread n ds p => [(st, .spread n ds p)]
  | .inline c ds ss p => (st, .inline c ds ss p) :: visitsSels S (inlineSt S st c) ss
def visitsSels (S : VSchema) (st : Stack) : List Sel → List (Stack × Sel)
  | [] => []
  | s :: ss => visitsSel S st s ++ visitsSels S st ss
end

/-- `enter_selection_set` / `exit_selection_set` around a non-empty set -/
def setEvents (st : Stack) (ss : List Sel) : List Evt :=
  match ss with
  | [] => []
  | _ => [mk st (.enterSet ss), mk st .exitSet]

/-- the callbacks emitted for one selection, without those of its sub-selections -/
def localEvents (S : VSchema) (st : Stack) : Sel → List Evt
  | .field al n args ds ss _ =>
    mk st .enterSel :: mk (fieldTy S st n :: st) (.enterField al n args ds ss) ::
      (walkArgs S {} (fieldTy S st n :: st) (fieldDefs S st n) args
       ++ walkDirs S {} (fieldTy S st n :: st) ds
       ++ setEvents (fieldTy S st n :: st) ss
       ++ [mk (fieldTy S st n :: st) .exitField, mk st .exitSel])
  | .spread n ds _ =>
    mk st .enterSel :: mk st (.enterSpread n ds) :: (walkDirs S {} st ds ++ [mk st .exitSpread, mk st .exitSel])
  | .inline c ds ss _ =>
    mk st .enterSel :: mk (inlineSt S st c) (.enterInline c ds ss) ::
      (walkDirs S {} (inlineSt S st c) ds ++ setEvents (inlineSt S st c) ss
       ++ [mk (inlineSt S st c) .exitInline, mk st .exitSel])

theorem mem_walkSet (S : VSchema) (st : Stack) (ss : List Sel) (e : Evt) :
    e ∈ walkSet S {} st ss ↔ e ∈ setEvents st ss ∨ e ∈ walkSels S {} st ss := by
  cases ss with
  | nil => simp [walkSet, setEvents, walkSels]
  | cons s ss => simp [walkSet, setEvents]; grind

mutual
/-- The walker visits every selection exactly once, under the stack `visitsSel` assigns to it:
    an event belongs to the walk iff it is a local event of a visited selection. -/
theorem mem_walkSel (S : VSchema) (st : Stack) (e : Evt) : (s : Sel) →
    (e ∈ walkSel S {} st s ↔ ∃ v ∈ visitsSel S st s, e ∈ localEvents S v.1 v.2)
  | .field al n args ds ss p => by
    rw [walkSel_field]
    simp only [visitsSel, List.mem_cons, List.mem_append, mem_walkSet, mem_walkSels S _ e ss, localEvents,
      exists_eq_or_imp]
    grind
  | .spread n ds p => by
    rw [walkSel_spread]; simp [visitsSel, localEvents]
  | .inline c ds ss p => by
    rw [walkSel_inline]
    simp only [visitsSel, List.mem_cons, List.mem_append, mem_walkSet, mem_walkSels S _ e ss, localEvents,
      exists_eq_or_imp]
    grind
theorem mem_walkSels (S : VSchema) (st : Stack) (e : Evt) : (ss : List Sel) →
    (e ∈ walkSels S {} st ss ↔ ∃ v ∈ visitsSels S st ss, e ∈ localEvents S v.1 v.2)
  | [] => by simp [walkSels, visitsSels]
  | s :: ss => by
    simp only [walkSels, visitsSels, List.mem_append, mem_walkSel S st e s, mem_walkSels S st e ss]
    constructor
    · rintro (⟨v, hv, h⟩ | ⟨v, hv, h⟩)
      · exact ⟨v, Or.inl hv, h⟩
      · exact ⟨v, Or.inr hv, h⟩
    · rintro ⟨v, hv | hv, h⟩
      · exact Or.inl ⟨v, hv, h⟩
      · exact Or.inr ⟨v, hv, h⟩
end


-- ------------------------------------------------------------------ arguments and directives

theorem mem_walkArgs (S : VSchema) (st : Stack) (defs : Option (List ArgDef)) (args : List (String × DValue)) (e : Evt) :
    e ∈ walkArgs S {} st defs args ↔
      ∃ a ∈ args, e = mk st (.enterArg a.1 a.2)
        ∨ e = mk st (.inputVars (inputUsages S valueFuel ((defs.bind (fun ds => ds.find? (·.name = a.1))).map (·.ty))
              (((defs.bind (fun ds => ds.find? (·.name = a.1))).map (·.default.isSome)).getD false) a.2))
        ∨ e = mk st (.exitArg a.1) := by
  simp [walkArgs, List.mem_flatMap]

theorem mem_walkDirs (S : VSchema) (st : Stack) (ds : List Dir) (e : Evt) :
    e ∈ walkDirs S {} st ds ↔
      ∃ dr ∈ ds, e = mk st (.enterDir dr) ∨ e ∈ walkArgs S {} st ((S.dir? dr.name).map (·.args)) dr.args ∨ e = mk st (.exitDir dr) := by
  simp [walkDirs, List.mem_flatMap]

-- ------------------------------------------------------------------ the whole document

def fragSt (S : VSchema) (f : FragDef) : Stack := [if S.exists? f.cond then some f.cond else none]
def opSt (S : VSchema) (r : String) : Stack := [if S.exists? r then some r else none]

def fragLocal (S : VSchema) (f : FragDef) : List Evt :=
  mk (fragSt S f) (.enterFrag f) :: (walkDirs S {} (fragSt S f) f.dirs ++ setEvents (fragSt S f) f.sels ++ [mk (fragSt S f) (.exitFrag f)])

def opLocal (S : VSchema) (o : OpDef) : List Evt :=
  mk [] (.enterOp o) ::
    ((match rootOf S o.ty with
      | some r => o.vars.flatMap (fun v => [mk (opSt S r) (.enterVar v), mk (opSt S r) (.exitVar v)])
          ++ walkDirs S {} (opSt S r) o.dirs ++ setEvents (opSt S r) o.sels
      | none => [mk [] (.report .notConfigured)])
     ++ [mk [] (.exitOp o)])

def opVisits (S : VSchema) (o : OpDef) : List (Stack × Sel) :=
  match rootOf S o.ty with
  | some r => visitsSels S (opSt S r) o.sels
  | none => []

/-- all selections of the document the walker visits -/
def docVisits (S : VSchema) (d : Doc) : List (Stack × Sel) :=
  d.frags.flatMap (fun f => visitsSels S (fragSt S f) f.sels) ++ d.ops.flatMap (opVisits S)

theorem mem_walkFrag (S : VSchema) (f : FragDef) (e : Evt) :
    e ∈ walkFrag S {} f ↔ e ∈ fragLocal S f ∨ ∃ v ∈ visitsSels S (fragSt S f) f.sels, e ∈ localEvents S v.1 v.2 := by
  simp only [walkFrag, fragLocal, fragSt, List.mem_append, List.mem_cons, mem_walkSet, mem_walkSels]
  grind

theorem mem_walkOp (S : VSchema) (o : OpDef) (e : Evt) :
    e ∈ walkOp S {} o ↔ e ∈ opLocal S o ∨ ∃ v ∈ opVisits S o, e ∈ localEvents S v.1 v.2 := by
  unfold walkOp opLocal opVisits
  cases h : rootOf S o.ty with
  | none => simp
  | some r =>
    simp only [opSt, List.mem_append, List.mem_cons, mem_walkSet, mem_walkSels]
    grind

theorem mem_events (S : VSchema) (d : Doc) (e : Evt) :
    e ∈ events S {} d ↔
      e = mk [] .enterDoc ∨ e = mk [] .exitDoc ∨ (∃ f ∈ d.frags, e ∈ fragLocal S f) ∨ (∃ o ∈ d.ops, e ∈ opLocal S o)
        ∨ ∃ v ∈ docVisits S d, e ∈ localEvents S v.1 v.2 := by
  simp only [events, docVisits, List.mem_append, List.mem_cons, List.mem_flatMap, mem_walkFrag, mem_walkOp]
  grind


-- ------------------------------------------------------------------ the syntactic skeleton

mutual
/-- a selection and all selections below it, pre-order -/
def flatSel : Sel → List Sel
  | .field al n args ds ss p => .field al n args ds ss p :: flatSels ss
  | .spread n ds p => [.spread n ds p]
  | .inline c ds ss p => .inline c ds ss p :: flatSels ss
def flatSels : List Sel → List Sel
  | [] => []
  | s :: ss => flatSel s ++ flatSels ss
end

mutual
theorem visitsSel_snd (S : VSchema) (st : Stack) : (s : Sel) → (visitsSel S st s).map Prod.snd = flatSel s
  | .field al n args ds ss p => by simp [visitsSel, flatSel, visitsSels_snd S _ ss]
  | .spread n ds p => by simp [visitsSel, flatSel]
  | .inline c ds ss p => by simp [visitsSel, flatSel, visitsSels_snd S _ ss]
theorem visitsSels_snd (S : VSchema) (st : Stack) : (ss : List Sel) → (visitsSels S st ss).map Prod.snd = flatSels ss
  | [] => by simp [visitsSels, flatSels]
  | s :: ss => by simp [visitsSels, flatSels, visitsSel_snd S st s, visitsSels_snd S st ss]
end

/-- the selections of all served operations and of all fragments -/
def docSels (S : VSchema) (d : Doc) : List Sel :=
  d.frags.flatMap (fun f => flatSels f.sels)
  ++ d.ops.flatMap (fun o => match rootOf S o.ty with | some _ => flatSels o.sels | none => [])

theorem opVisits_snd (S : VSchema) (o : OpDef) :
    (opVisits S o).map Prod.snd = (match rootOf S o.ty with | some _ => flatSels o.sels | none => []) := by
  unfold opVisits
  cases rootOf S o.ty <;> simp [visitsSels_snd]

theorem docVisits_snd (S : VSchema) (d : Doc) : (docVisits S d).map Prod.snd = docSels S d := by
  simp only [docVisits, docSels, List.map_append, List.map_flatMap, visitsSels_snd, opVisits_snd]

mutual
theorem mem_spreadsOf (n : String) : (s : Sel) →
    (n ∈ Spec.Validate.spreadsOf s ↔ ∃ ds p, Sel.spread n ds p ∈ flatSel s)
  | .field al m args ds ss p => by simp [Spec.Validate.spreadsOf, flatSel, mem_spreadsOfL n ss]
  | .spread m ds p => by
    simp [Spec.Validate.spreadsOf, flatSel]
  | .inline c ds ss p => by simp [Spec.Validate.spreadsOf, flatSel, mem_spreadsOfL n ss]
theorem mem_spreadsOfL (n : String) : (ss : List Sel) →
    (n ∈ Spec.Validate.spreadsOfL ss ↔ ∃ ds p, Sel.spread n ds p ∈ flatSels ss)
  | [] => by simp [Spec.Validate.spreadsOfL, flatSels]
  | s :: ss => by
    simp only [Spec.Validate.spreadsOfL, flatSels, List.mem_append, mem_spreadsOf n s, mem_spreadsOfL n ss]
    grind
end

end AGV.Lemmas.ValidateWalk
