/-
  C17 — type definitions at token level (names, kinds, descriptions, fields, argument lists, type
  references, implements, union members, enum values, input fields, default values, deprecations
  and directive applications on every item): the reference parser `Spec/SdlParse.lean` reads the
  token sequence of an exported type as the definition `describe` requires.
-/
import AGV.Model.Sdl
import AGV.Spec.SdlParse
import AGV.Lemmas.SdlValueLex
namespace AGV.Lemmas.SdlSkeleton
open AGV.Core AGV.Core.PAst AGV.Core.Sdl AGV.Model.Sdl AGV.Spec.Literal AGV.Spec.Lex AGV.Spec.Parse AGV.Spec.SdlParse AGV.Lemmas.SdlLex AGV.Lemmas.SdlValue

-- ------------------------------------------------------------------ tokens of the skeleton

def typeToks : PType → List Tok
  | .named n nl => .name n :: (if nl then [] else [.punct '!'])
  | .listOf t nl => .punct '[' :: typeToks t ++ .punct ']' :: (if nl then [] else [.punct '!'])

def typeDepth : PType → Nat
  | .named _ _ => 0
  | .listOf t _ => typeDepth t + 1

/-- `Description?` -/
def descToks : Option Text → List Tok
  | none => []
  | some d => [.str d]

/-- what follows an item in the token stream of an exported skeleton: nothing, a description, a
    Name, `)`, `}` or `]` -/
inductive TokEnd : List Tok → Prop
  | nil : TokEnd []
  | name (n r) : TokEnd (.name n :: r)
  | str (v r) : TokEnd (.str v :: r)
  | rpar (r) : TokEnd (.punct ')' :: r)
  | rbrace (r) : TokEnd (.punct '}' :: r)
  | rbrack (r) : TokEnd (.punct ']' :: r)

theorem TokEnd.noBang {ts : List Tok} (h : TokEnd ts) : ∀ r, ts ≠ .punct '!' :: r := by
  intro r e; cases h <;> cases e

theorem TokEnd.dirEnd {ts : List Tok} (h : TokEnd ts) : DirEnd ts := by
  intro r; constructor <;> (intro e; cases h <;> cases e)

theorem TokEnd.noEq {ts : List Tok} (h : TokEnd ts) : ∀ r, ts ≠ .punct '=' :: r := by
  intro r e; cases h <;> cases e

theorem pType_toks (t : PType) : ∀ (f : Nat) (rest : List Tok), typeDepth t < f → (∀ r, rest ≠ .punct '!' :: r) →
    pType f (typeToks t ++ rest) = some (t, rest) := by
  induction t with
  | named n nl =>
    intro f rest hf h
    cases f with
    | zero => omega
    | succ f =>
      cases nl
      · simp [typeToks, pType]
      · simp only [typeToks, pType, if_true, List.cons_append, List.nil_append]
  | listOf t nl ih =>
    intro f rest hf h
    cases f with
    | zero => omega
    | succ f =>
      have := ih f (.punct ']' :: ((if nl then [] else [Tok.punct '!']) ++ rest)) (by simp [typeDepth] at hf; omega)
        (by intro r e; cases e)
      simp only [typeToks, List.cons_append, List.append_assoc, pType, this]
      cases nl
      · simp
      · simp only [if_true, List.nil_append]

theorem typeDepth_lt (t : PType) : typeDepth t < (typeToks t).length := by
  induction t with
  | named n nl => simp [typeDepth, typeToks]
  | listOf t nl ih => simp [typeDepth, typeToks]; omega

-- ------------------------------------------------------------------ the skeleton

/-- the directive applications of an item are well-formed (Names, printable argument values);
    any description, any deprecation -/
structure WfAttrs (a : Attrs) : Prop where
  dirs : ∀ d ∈ a.dirs, dirWf d = true

/-- the federation attributes of an item as directive applications (federation exports only) -/
def fedApps (o : Opts) (a : Attrs) : List DirApp :=
  if o.federation then
    (if a.inacc then [⟨kwT "inaccessible", []⟩] else []) ++ a.tags.map (fun t => ⟨kwT "tag", [(kwT "name", .str t)]⟩)
  else []

theorem fedApps_dDir (o : Opts) (a : Attrs) : (fedApps o a).map dDir = dFed o a := by
  unfold fedApps dFed
  split
  · cases a.inacc <;> simp [dDir, SValue.toP, Function.comp_def]
  · rfl

theorem fedApps_wf (o : Opts) (a : Attrs) : ∀ d ∈ fedApps o a, dirWf d = true := by
  intro d hd
  unfold fedApps at hd
  split at hd
  · rcases List.mem_append.mp hd with hd | hd
    · cases hi : a.inacc
      · rw [hi] at hd; cases hd
      · rw [hi] at hd; simp only [if_true, List.mem_singleton] at hd; subst hd; decide
    · obtain ⟨t, _, rfl⟩ := List.mem_map.mp hd
      simp only [dirWf, sfWf, svWf, Bool.and_true]; decide
  · cases hd

/-- all directive applications of an item, in the order `describe` lists them (and the exporter
    writes them on arguments, input fields and enum values): the deprecation, the federation
    attributes, the custom directives -/
def itemApps (o : Opts) (a : Attrs) : List DirApp := depApps a.dep ++ (fedApps o a ++ a.dirs)

/-- … in the order the exporter writes them on a field: the custom directives come before the
    federation attributes -/
def fieldApps (o : Opts) (a : Attrs) : List DirApp := depApps a.dep ++ (a.dirs ++ fedApps o a)

theorem itemApps_wf (o : Opts) (a : Attrs) (h : WfAttrs a) : ∀ d ∈ itemApps o a, dirWf d = true := by
  intro d hd
  rcases List.mem_append.mp hd with hd | hd
  · exact depApps_wf _ d hd
  · rcases List.mem_append.mp hd with hd | hd
    · exact fedApps_wf o a d hd
    · exact h.dirs d hd

theorem fieldApps_wf (o : Opts) (a : Attrs) (h : WfAttrs a) : ∀ d ∈ fieldApps o a, dirWf d = true := by
  intro d hd
  rcases List.mem_append.mp hd with hd | hd
  · exact depApps_wf _ d hd
  · rcases List.mem_append.mp hd with hd | hd
    · exact h.dirs d hd
    · exact fedApps_wf o a d hd

def WfType : PType → Prop
  | .named n _ => isName n = true
  | .listOf t _ => WfType t

structure SkelIv (x : InputVal) : Prop where
  name : isName x.name = true
  ty : WfType x.ty
  default : ∀ v, x.default = some v → svWf v = true
  attrs : WfAttrs x.a

/-- `DefaultValue?` -/
def defaultToks : Option SValue → List Tok
  | none => []
  | some v => .punct '=' :: svToks v

def ivCore (o : Opts) (x : InputVal) : List Tok :=
  .name x.name :: .punct ':' :: (typeToks x.ty ++ (defaultToks x.default ++ dirsToks (itemApps o x.a)))
def ivToks (o : Opts) (x : InputVal) : List Tok := descToks x.a.desc ++ ivCore o x

theorem dDirs_apps (o : Opts) (a : Attrs) : dDirs o a = (itemApps o a).map dDir := by
  simp [dDirs, itemApps, depApps_dDir, fedApps_dDir]

theorem constDirs_noAt (ts : List Tok) (h : ∀ r, ts ≠ .punct '@' :: r) : constDirs ts = some ([], ts) := by
  unfold constDirs pDirs
  unfold pDirectives
  split
  · rename_i n r; exact absurd rfl (h _)
  · rename_i r _; exact absurd rfl (h _)
  · rfl

theorem TokEnd.noAt {ts : List Tok} (h : TokEnd ts) : ∀ r, ts ≠ .punct '@' :: r := by
  intro r e; cases h <;> cases e

/-- `pDesc` on an optional description followed by a Name -/
theorem pDesc_descToks (d : Option Text) (n : Text) (r : List Tok) :
    pDesc (descToks d ++ .name n :: r) = (d, .name n :: r) := by
  cases d <;> rfl

theorem dirsToks_noBang (ds : List DirApp) (rest : List Tok) (h : ∀ r, rest ≠ .punct '!' :: r) :
    ∀ r, dirsToks ds ++ rest ≠ .punct '!' :: r := by
  cases ds with
  | nil => simpa [dirsToks] using h
  | cons d ds => intro r; simp [dirsToks, dirToks]

theorem dirsToks_noEq (ds : List DirApp) (rest : List Tok) (h : ∀ r, rest ≠ .punct '=' :: r) :
    ∀ r, dirsToks ds ++ rest ≠ .punct '=' :: r := by
  cases ds with
  | nil => simpa [dirsToks] using h
  | cons d ds => intro r; simp [dirsToks, dirToks]

theorem pInputValue_toks (o : Opts) (x : InputVal) (hx : SkelIv x) (rest : List Tok)
    (h : TokEnd rest) : pInputValue (ivToks o x ++ rest) = some (dIv o x, rest) := by
  have hd := constDirs_toks (itemApps o x.a) (itemApps_wf o _ hx.attrs) rest h.dirEnd
  have hdd := dDirs_apps o x.a
  cases hdf : x.default with
  | none =>
    have ht := pType_toks x.ty ((typeToks x.ty ++ (dirsToks (itemApps o x.a) ++ rest)).length + 1) (dirsToks (itemApps o x.a) ++ rest)
      (by have := typeDepth_lt x.ty; simp; omega) (dirsToks_noBang _ _ h.noBang)
    have hne := dirsToks_noEq (itemApps o x.a) rest h.noEq
    simp only [pInputValue, ivToks, ivCore, hdf, defaultToks, List.nil_append, List.append_assoc, List.cons_append,
      pDesc_descToks, ht]
    generalize dirsToks (itemApps o x.a) ++ rest = T at hd hne ⊢
    simp [hd, dIv, hdf, hdd]
  | some v =>
    have hv := hx.default v hdf
    have ht := pType_toks x.ty ((typeToks x.ty ++ (.punct '=' :: (svToks v ++ (dirsToks (itemApps o x.a) ++ rest)))).length + 1)
      (.punct '=' :: (svToks v ++ (dirsToks (itemApps o x.a) ++ rest)))
      (by have := typeDepth_lt x.ty; simp; omega) (by intro r e; cases e)
    have hpv := pValue_toks v hv (valueFuel (svToks v ++ (dirsToks (itemApps o x.a) ++ rest))) (dirsToks (itemApps o x.a) ++ rest)
      (by simp [valueFuel]; omega)
    simp only [pInputValue, ivToks, ivCore, hdf, defaultToks, List.append_assoc, List.cons_append,
      pDesc_descToks, ht, hpv, Option.map_some, hd]
    simp [dIv, hdf, hdd]

def ivsToks (o : Opts) (xs : List InputVal) : List Tok := xs.flatMap (ivToks o)

/-- an item starts with a description or a Name -/
inductive ItemHead : List Tok → Prop
  | name (n r) : ItemHead (.name n :: r)
  | str (v r) : ItemHead (.str v :: r)

theorem ItemHead.tokEnd {ts} (h : ItemHead ts) : TokEnd ts := by cases h <;> constructor

theorem descToks_head (d : Option Text) (n : Text) (r : List Tok) : ItemHead (descToks d ++ .name n :: r) := by
  cases d <;> constructor

theorem ivToks_head (o : Opts) (x : InputVal) (r : List Tok) : ItemHead (ivToks o x ++ r) := by
  simp only [ivToks, ivCore, List.append_assoc, List.cons_append]; exact descToks_head _ _ _

theorem ivsToks_end (o : Opts) (xs : List InputVal) (r : List Tok) (h : TokEnd r) : TokEnd (ivsToks o xs ++ r) := by
  cases xs with
  | nil => simpa [ivsToks] using h
  | cons x xs => simp only [ivsToks, List.flatMap_cons, List.append_assoc]; exact (ivToks_head o _ _).tokEnd

/-- `InputValueDefinition+` followed by the closing token -/
theorem pInputValues_toks (o : Opts) (close : Char) (hc : close = ')' ∨ close = '}')
    (xs : List InputVal) (hne : xs ≠ []) (hxs : ∀ x ∈ xs, SkelIv x) (rest : List Tok) :
    ∀ g, xs.length ≤ g →
      pInputValues close g (ivsToks o xs ++ .punct close :: rest) = some (xs.map (dIv o), rest) := by
  induction xs with
  | nil => exact absurd rfl hne
  | cons x xs ih =>
    intro g hg
    cases g with
    | zero => simp at hg
    | succ g =>
      have hcl : TokEnd (.punct close :: rest) := by
        rcases hc with rfl | rfl
        · exact TokEnd.rpar _
        · exact TokEnd.rbrace _
      have hiv := pInputValue_toks o x (hxs x List.mem_cons_self) (ivsToks o xs ++ .punct close :: rest)
        (ivsToks_end o xs _ hcl)
      simp only [ivsToks, List.flatMap_cons, List.append_assoc] at hiv ⊢
      rw [pInputValues, hiv]
      cases xs with
      | nil => simp
      | cons y ys =>
        have := ih (by simp) (fun z hz => hxs z (List.mem_cons_of_mem _ hz)) g (by simp at hg ⊢; omega)
        simp only [ivsToks, List.flatMap_cons, List.append_assoc, List.map_cons] at this ⊢
        have hh := ivToks_head o y (List.flatMap (ivToks o) ys ++ .punct close :: rest)
        generalize ivToks o y ++ (List.flatMap (ivToks o) ys ++ .punct close :: rest) = T at this hh ⊢
        cases hh <;> simp [this]

theorem ivsToks_length (o : Opts) (xs : List InputVal) : xs.length ≤ (ivsToks o xs).length := by
  induction xs with
  | nil => simp
  | cons x xs ih => simp [ivsToks, ivToks, ivCore] at ih ⊢; omega

-- ------------------------------------------------------------------ fields

structure SkelField (f : FieldDef) : Prop where
  name : isName f.name = true
  ty : WfType f.ty
  attrs : WfAttrs f.a
  args : ∀ a ∈ f.args, SkelIv a

def fieldCore (o : Opts) (f : FieldDef) : List Tok :=
  .name f.name ::
    (if f.args.isEmpty then [] else .punct '(' :: ivsToks o (sorted o.sortedArgs (·.name) f.args) ++ [.punct ')']) ++
    .punct ':' :: (typeToks f.ty ++ dirsToks (fieldApps o f.a))

def fieldToks (o : Opts) (f : FieldDef) : List Tok := descToks f.a.desc ++ fieldCore o f

/-- the field definition the exported text denotes: `dField` with the directive applications in
    the exporter's order (equal to `dField` for a plain export, equal up to `normDirs` always) -/
def xField (o : Opts) (f : FieldDef) : SField :=
  ⟨f.name, f.a.desc, (sorted o.sortedArgs (·.name) f.args).map (dIv o), f.ty, (fieldApps o f.a).map dDir⟩

theorem sorted_mem {α : Type} (on : Bool) (nm : α → Text) (xs : List α) (x : α) : x ∈ sorted on nm xs ↔ x ∈ xs := by
  unfold sorted; split <;> simp [List.mem_mergeSort]

theorem sorted_length {α : Type} (on : Bool) (nm : α → Text) (xs : List α) : (sorted on nm xs).length = xs.length := by
  unfold sorted; split <;> simp [List.length_mergeSort]

theorem sorted_ne_nil {α : Type} (on : Bool) (nm : α → Text) (xs : List α) (h : xs ≠ []) : sorted on nm xs ≠ [] := by
  intro e
  have := sorted_length on nm xs
  rw [e] at this
  exact h (List.length_eq_zero_iff.mp this.symm)

theorem pField_toks (o : Opts) (f : FieldDef) (hf : SkelField f) (rest : List Tok)
    (h : TokEnd rest) : pField (fieldToks o f ++ rest) = some (xField o f, rest) := by
  have ht := fun g hg => pType_toks f.ty g (dirsToks (fieldApps o f.a) ++ rest) hg (dirsToks_noBang _ _ h.noBang)
  have hd := constDirs_toks (fieldApps o f.a) (fieldApps_wf o _ hf.attrs) rest h.dirEnd
  have hdd := dDirs_apps o f.a
  have hdep := typeDepth_lt f.ty
  by_cases he : f.args = []
  · have hA : pArgsDef (.punct ':' :: (typeToks f.ty ++ (dirsToks (fieldApps o f.a) ++ rest))) =
        some ([], .punct ':' :: (typeToks f.ty ++ (dirsToks (fieldApps o f.a) ++ rest))) := rfl
    simp only [pField, fieldToks, fieldCore, he, List.isEmpty_nil, if_true, List.nil_append, List.cons_append,
      List.append_assoc, pDesc_descToks, hA]
    rw [ht _ (by simp; omega)]
    simp [hd, xField, sorted, he]
  · have hne : f.args.isEmpty = false := by simpa using he
    have hargs := pInputValues_toks o ')' (Or.inl rfl) (sorted o.sortedArgs (·.name) f.args)
      (sorted_ne_nil _ _ _ he) (fun x hx => hf.args x ((sorted_mem _ _ _ _).mp hx))
      (.punct ':' :: (typeToks f.ty ++ (dirsToks (fieldApps o f.a) ++ rest)))
    have hlen := ivsToks_length o (sorted o.sortedArgs (·.name) f.args)
    simp only [pField, fieldToks, fieldCore, hne, Bool.false_eq_true, if_false, List.cons_append, List.append_assoc,
      List.nil_append, pDesc_descToks, pArgsDef]
    rw [hargs _ (by simp; omega)]
    simp only []
    rw [ht _ (by simp; omega)]
    simp [hd, xField]

def fieldsToks (o : Opts) (fs : List FieldDef) : List Tok := fs.flatMap (fieldToks o)

theorem fieldToks_head (o : Opts) (f : FieldDef) (r : List Tok) : ItemHead (fieldToks o f ++ r) := by
  simp only [fieldToks, fieldCore, List.append_assoc, List.cons_append]; exact descToks_head _ _ _

theorem fieldsToks_end (o : Opts) (fs : List FieldDef) (r : List Tok) (h : TokEnd r) : TokEnd (fieldsToks o fs ++ r) := by
  cases fs with
  | nil => simpa [fieldsToks] using h
  | cons x xs => simp only [fieldsToks, List.flatMap_cons, List.append_assoc]; exact (fieldToks_head _ _ _).tokEnd

theorem pFields_toks (o : Opts) (fs : List FieldDef) (hne : fs ≠ [])
    (hfs : ∀ f ∈ fs, SkelField f) (rest : List Tok) :
    ∀ g, fs.length ≤ g →
      pFields g (fieldsToks o fs ++ .punct '}' :: rest) = some (fs.map (xField o), rest) := by
  induction fs with
  | nil => exact absurd rfl hne
  | cons x xs ih =>
    intro g hg
    cases g with
    | zero => simp at hg
    | succ g =>
      have hf := pField_toks o x (hfs x List.mem_cons_self) (fieldsToks o xs ++ .punct '}' :: rest)
        (fieldsToks_end o xs _ (TokEnd.rbrace _))
      simp only [fieldsToks, List.flatMap_cons, List.append_assoc] at hf ⊢
      rw [pFields, hf]
      cases xs with
      | nil => simp
      | cons y ys =>
        have := ih (by simp) (fun z hz => hfs z (List.mem_cons_of_mem _ hz)) g (by simp at hg ⊢; omega)
        simp only [fieldsToks, List.flatMap_cons, List.append_assoc, List.map_cons] at this ⊢
        have hh := fieldToks_head o y (List.flatMap (fieldToks o) ys ++ .punct '}' :: rest)
        generalize fieldToks o y ++ (List.flatMap (fieldToks o) ys ++ .punct '}' :: rest) = T at this hh ⊢
        cases hh <;> simp [this]

theorem fieldsToks_length (o : Opts) (fs : List FieldDef) : fs.length ≤ (fieldsToks o fs).length := by
  induction fs with
  | nil => simp
  | cons x xs ih => simp [fieldsToks, fieldToks, fieldCore] at ih ⊢; omega

-- ------------------------------------------------------------------ separated names

def sepToks (sep : Char) : List Text → List Tok
  | [] => []
  | [n] => [.name n]
  | n :: m :: r => .name n :: .punct sep :: sepToks sep (m :: r)

theorem pSepNames_toks (sep : Char) (ns : List Text) (hne : ns ≠ []) (rest : List Tok)
    (hr : ∀ r, rest ≠ .punct sep :: r) :
    ∀ g, ns.length ≤ g → pSepNames sep g (sepToks sep ns ++ rest) = some (ns, rest) := by
  induction ns with
  | nil => exact absurd rfl hne
  | cons n ns ih =>
    intro g hg
    cases g with
    | zero => simp at hg
    | succ g =>
      cases ns with
      | nil =>
        rcases rest with _ | ⟨t, r⟩
        · simp [sepToks, pSepNames]
        · cases t with
          | punct c =>
            have : c ≠ sep := fun e => hr r (by rw [e])
            simp [sepToks, pSepNames, this]
          | _ => simp [sepToks, pSepNames]
      | cons m ms =>
        have := ih (by simp) g (by simp at hg ⊢; omega)
        simp only [sepToks, List.cons_append] at this ⊢
        simp [pSepNames, this]

theorem sepToks_length (sep : Char) (ns : List Text) : ns.length ≤ (sepToks sep ns).length := by
  induction ns with
  | nil => simp
  | cons n ns ih =>
    cases ns with
    | nil => simp [sepToks]
    | cons m ms => simp [sepToks] at ih ⊢; omega

theorem sepToks_head (sep : Char) (n : Text) (ns : List Text) : ∃ tl, sepToks sep (n :: ns) = .name n :: tl := by
  cases ns with
  | nil => exact ⟨[], rfl⟩
  | cons m ms => exact ⟨_, rfl⟩

theorem pNamesAfter_toks (sep : Char) (ns : List Text) (hne : ns ≠ []) (rest : List Tok)
    (hr : ∀ r, rest ≠ .punct sep :: r) : pNamesAfter sep (sepToks sep ns ++ rest) = some (ns, rest) := by
  cases ns with
  | nil => exact absurd rfl hne
  | cons n ns =>
    obtain ⟨tl, htl⟩ := sepToks_head sep n ns
    have := pSepNames_toks sep (n :: ns) hne rest hr ((sepToks sep (n :: ns) ++ rest).length + 1)
      (by have := sepToks_length sep (n :: ns); simp at this ⊢; omega)
    rw [htl] at this ⊢
    simp only [pNamesAfter, List.cons_append]
    exact this

def implToks (impls : List Text) : List Tok :=
  if impls.isEmpty then [] else .name (kw "implements") :: sepToks '&' impls

theorem pImplements_toks (impls : List Text) (rest : List Tok) (hn : ∀ n r, rest ≠ .name n :: r)
    (ha : ∀ r, rest ≠ .punct '&' :: r) : pImplements (implToks impls ++ rest) = some (impls, rest) := by
  by_cases he : impls = []
  · subst he
    simp only [implToks, List.isEmpty_nil, if_true, List.nil_append]
    unfold pImplements
    split
    · rename_i k r; exact absurd rfl (hn k r)
    · rfl
  · have hne : impls.isEmpty = false := by simpa using he
    simp only [implToks, hne, Bool.false_eq_true, if_false, List.cons_append, pImplements, if_true]
    exact pNamesAfter_toks '&' impls he _ ha

-- ------------------------------------------------------------------ enum values

structure SkelEnumVal (v : Text × Attrs) : Prop where
  name : isName v.1 = true
  notLit : v.1 ≠ kw "true" ∧ v.1 ≠ kw "false" ∧ v.1 ≠ kw "null"
  attrs : WfAttrs v.2

def enumValToks (o : Opts) (v : Text × Attrs) : List Tok := descToks v.2.desc ++ (Tok.name v.1 :: dirsToks (itemApps o v.2))
def enumToks (o : Opts) (vs : List (Text × Attrs)) : List Tok := vs.flatMap (enumValToks o)

theorem enumValToks_head (o : Opts) (v : Text × Attrs) (r : List Tok) : ItemHead (enumValToks o v ++ r) := by
  simp only [enumValToks, List.append_assoc, List.cons_append, List.nil_append]; exact descToks_head _ _ _

theorem pEnumValues_toks (o : Opts) (vs : List (Text × Attrs)) (hne : vs ≠ [])
    (hvs : ∀ v ∈ vs, SkelEnumVal v) (rest : List Tok) :
    ∀ g, vs.length ≤ g →
      pEnumValues g (enumToks o vs ++ .punct '}' :: rest) =
        some (vs.map (fun v => (⟨v.1, v.2.desc, dDirs o v.2⟩ : SEnumVal)), rest) := by
  induction vs with
  | nil => exact absurd rfl hne
  | cons v vs ih =>
    intro g hg
    cases g with
    | zero => simp at hg
    | succ g =>
      have hv := hvs v List.mem_cons_self
      have hdd := dDirs_apps o v.2
      cases vs with
      | nil =>
        have hd := constDirs_toks (itemApps o v.2) (itemApps_wf o _ hv.attrs) (.punct '}' :: rest) (TokEnd.rbrace _).dirEnd
        simp only [enumToks, List.flatMap_cons, List.flatMap_nil, List.append_nil, enumValToks, List.append_assoc,
          List.cons_append, List.nil_append, pEnumValues, pDesc_descToks]
        simp [hv.notLit.1, hv.notLit.2.1, hv.notLit.2.2, hd, hdd]
      | cons w ws =>
        have := ih (by simp) (fun z hz => hvs z (List.mem_cons_of_mem _ hz)) g (by simp at hg ⊢; omega)
        have hh := enumValToks_head o w (enumToks o ws ++ .punct '}' :: rest)
        have hd := constDirs_toks (itemApps o v.2) (itemApps_wf o _ hv.attrs) (enumValToks o w ++ (enumToks o ws ++ .punct '}' :: rest))
          hh.tokEnd.dirEnd
        simp only [enumToks, List.flatMap_cons, List.append_assoc, List.map_cons] at this hd hh ⊢
        generalize enumValToks o w ++ (List.flatMap (enumValToks o) ws ++ .punct '}' :: rest) = T at this hd hh ⊢
        simp only [enumValToks, List.append_assoc, List.cons_append, List.nil_append, pEnumValues, pDesc_descToks]
        cases hh <;> simp [hv.notLit.1, hv.notLit.2.1, hv.notLit.2.2, hd, hdd, this]

theorem enumToks_length (o : Opts) (vs : List (Text × Attrs)) : vs.length ≤ (enumToks o vs).length := by
  induction vs with
  | nil => simp
  | cons x xs ih => simp [enumToks, enumValToks] at ih ⊢; omega

end AGV.Lemmas.SdlSkeleton
