/-
  Fuel monotonicity of the pest interpreter `Model/Peg.lean` (any grammar): fuel only bounds the
  recursion depth, so a run that is not cut off keeps its result with more fuel, and a run that is
  cut off stays cut off with less.  Core only.
-/
import AGV.Model.Peg
namespace AGV.Lemmas.PegMono
open AGV.Model.Peg

theorem eval_mono_step (g : Grammar) (f F : Nat)
    (ih : ∀ c e p s, eval g f c e p s ≠ .oof → eval g F c e p s = eval g f c e p s) :
    ∀ c e p s, eval g (f + 1) c e p s ≠ .oof → eval g (F + 1) c e p s = eval g (f + 1) c e p s := by
  intro c e p s h
  cases e with
  | seq a b =>
    simp only [eval] at h ⊢
    by_cases hc : c.atom = .non
    · simp only [hc, if_true] at h ⊢
      repeat' split at h
      all_goals simp_all
    · simp only [hc, if_false] at h ⊢
      repeat' split at h
      all_goals simp_all
  | repTail a =>
    simp only [eval] at h ⊢
    by_cases hc : c.atom = .non
    · simp only [hc, if_true] at h ⊢
      repeat' split at h
      all_goals simp_all
    · simp only [hc, if_false] at h ⊢
      repeat' split at h
      all_goals simp_all
  | _ =>
    simp only [eval] at h ⊢
    repeat' split at h
    all_goals simp_all

/-- one more unit of depth does not change a result that was not cut off -/
theorem eval_succ (g : Grammar) : ∀ (f : Nat) (c : Ctx) (e : Expr) (p : Nat) (s : List Char),
    eval g f c e p s ≠ .oof → eval g (f + 1) c e p s = eval g f c e p s := by
  intro f
  induction f with
  | zero => intro c e p s h; exact absurd (by simp [eval]) h
  | succ f ih => exact eval_mono_step g f (f + 1) ih

theorem eval_mono (g : Grammar) {f f' : Nat} (hle : f ≤ f') (c : Ctx) (e : Expr) (p : Nat) (s : List Char)
    (h : eval g f c e p s ≠ .oof) : eval g f' c e p s = eval g f c e p s := by
  induction hle with
  | refl => rfl
  | step _ ih => rw [eval_succ g _ c e p s (by rw [ih]; exact h), ih]

/-- cut off at some depth ⇒ cut off at every smaller depth -/
theorem eval_oof_of_le (g : Grammar) {f f' : Nat} (hle : f ≤ f') (c : Ctx) (e : Expr) (p : Nat) (s : List Char)
    (h : eval g f' c e p s = .oof) : eval g f c e p s = .oof := by
  cases hf : eval g f c e p s with
  | oof => rfl
  | fail => rw [eval_mono g hle c e p s (by simp [hf]), hf] at h; cases h
  | ok _ _ _ => rw [eval_mono g hle c e p s (by simp [hf]), hf] at h; cases h

/-- one run that is not cut off decides the outcome at EVERY depth: cut off, or that result -/
theorem eval_decided (g : Grammar) {F : Nat} {c : Ctx} {e : Expr} {p : Nat} {s : List Char} {r : Res}
    (h : eval g F c e p s = r) (hr : r ≠ .oof) (f : Nat) :
    eval g f c e p s = .oof ∨ eval g f c e p s = r := by
  by_cases hf : eval g f c e p s = .oof
  · exact Or.inl hf
  · right
    rcases Nat.le_total f F with hle | hle
    · rw [← h, eval_mono g hle c e p s hf]
    · rw [eval_mono g hle c e p s (by rw [h]; exact hr), h]

end AGV.Lemmas.PegMono
