/-
  Lemmas about the scheduler model (Model/Sched.lean): event merging is a permutation, every
  event of a sub-execution lies between its start round and its completion round, the serial
  join is a concatenation of consecutive blocks, values do not depend on the schedule.
-/
import AGV.Model.Sched

namespace AGV.Lemmas.Sched
open AGV.Core AGV.Model AGV.Model.Sched
open AGV.Spec.Exec (FieldOcc mapIdx)

-- ------------------------------------------------------------------ sortEvs

theorem insEv_perm (e : Nat × Ev) : ∀ l, (insEv e l).Perm (e :: l)
  | [] => .refl _
  | x :: xs => by
    simp only [insEv]
    split
    · exact .refl _
    · exact ((insEv_perm e xs).cons x).trans (List.Perm.swap e x xs)

theorem foldl_insEv_perm (l : List (Nat × Ev)) : ∀ acc, (l.foldl (fun acc e => insEv e acc) acc).Perm (acc ++ l) := by
  induction l with
  | nil => intro acc; simp
  | cons e l ih =>
    intro acc
    simp only [List.foldl_cons]
    refine (ih (insEv e acc)).trans ?_
    refine ((insEv_perm e acc).append_right l).trans ?_
    exact (List.perm_middle (l₁ := acc) (a := e) (l₂ := l)).symm

theorem sortEvs_perm (l : List (Nat × Ev)) : (sortEvs l).Perm l := by
  simpa [sortEvs] using foldl_insEv_perm l []

theorem mem_sortEvs {l : List (Nat × Ev)} {e : Nat × Ev} : e ∈ sortEvs l ↔ e ∈ l := (sortEvs_perm l).mem_iff

-- ------------------------------------------------------------------ firstErr

theorem firstErrAux_none (rs : List TRes) : ∀ i best, firstErrAux rs i best = none ↔ (best = none ∧ ∀ r ∈ rs, r.val.isSome = true) := by
  induction rs with
  | nil => intro i best; simp [firstErrAux]
  | cons r rs ih =>
    intro i best
    simp only [firstErrAux, ih]
    cases hv : r.val with
    | some v => simp [hv]
    | none =>
      cases best with
      | none => simp [hv]
      | some b =>
        obtain ⟨f, j⟩ := b
        simp only []
        split <;> simp

theorem firstErr_none (rs : List TRes) : firstErr rs = none ↔ ∀ r ∈ rs, r.val.isSome = true := by
  simp [firstErr, firstErrAux_none]

/-- the child that ends the join exists, failed, and finished in the reported round -/
theorem firstErrAux_some (rs : List TRes) : ∀ i best f j, firstErrAux rs i best = some (f, j) →
    best = some (f, j) ∨ ∃ r, rs[j - i]? = some r ∧ i ≤ j ∧ r.fin = f ∧ r.val = none := by
  induction rs with
  | nil => intro i best f j h; left; simpa [firstErrAux] using h
  | cons r rs ih =>
    intro i best f j h
    simp only [firstErrAux] at h
    rcases ih _ _ f j h with hb | ⟨r', hr', hij, hf, hv⟩
    · cases hv : r.val with
      | some v => rw [hv] at hb; left; simpa using hb
      | none =>
        rw [hv] at hb
        cases best with
        | none =>
          simp only [Option.some.injEq, Prod.mk.injEq] at hb
          right; exact ⟨r, by simp [← hb.2], by omega, hb.1, hv⟩
        | some b =>
          obtain ⟨f', j'⟩ := b
          simp only [] at hb
          split at hb
          · simp only [Option.some.injEq, Prod.mk.injEq] at hb
            right; exact ⟨r, by simp [← hb.2], by omega, hb.1, hv⟩
          · left; exact hb
    · right
      refine ⟨r', ?_, by omega, hf, hv⟩
      have : j - i = (j - (i + 1)) + 1 := by omega
      rw [this, List.getElem?_cons_succ]; exact hr'

theorem firstErr_some (rs : List TRes) (f j : Nat) (h : firstErr rs = some (f, j)) :
    ∃ r, rs[j]? = some r ∧ r.fin = f ∧ r.val = none := by
  rcases firstErrAux_some rs 0 none f j h with hb | ⟨r, hr, _, hf, hv⟩
  · simp at hb
  · exact ⟨r, by simpa using hr, hf, hv⟩

-- ------------------------------------------------------------------ bounds

/-- every event lies between the start round and the completion round -/
def Bnd (s : Nat) (r : TRes) : Prop := s ≤ r.fin ∧ ∀ e ∈ r.evs, s ≤ e.1 ∧ e.1 ≤ r.fin
def JBnd (s : Nat) (j : JRes) : Prop := s ≤ j.fin ∧ ∀ e ∈ j.evs, s ≤ e.1 ∧ e.1 ≤ j.fin

theorem le_maxFin (s : Nat) (rs : List TRes) : s ≤ maxFin s rs ∧ ∀ r ∈ rs, r.fin ≤ maxFin s rs := by
  unfold maxFin
  induction rs generalizing s with
  | nil => simp
  | cons r rs ih =>
    simp only [List.foldl_cons, List.mem_cons, forall_eq_or_imp]
    have := ih (max s r.fin)
    refine ⟨by omega, by omega, this.2⟩

theorem mapIdx_mem_filter {α} (p : Nat → α → List (Nat × Ev)) (xs : List α) :
    ∀ i e, e ∈ (mapIdx p xs i).flatten → ∃ j x, x ∈ xs ∧ e ∈ p j x := by
  induction xs with
  | nil => intro i e h; simp [mapIdx] at h
  | cons x xs ih =>
    intro i e h
    simp only [mapIdx, List.flatten_cons, List.mem_append] at h
    rcases h with h | h
    · exact ⟨i, x, by simp, h⟩
    · obtain ⟨j, y, hy, he⟩ := ih _ _ h
      exact ⟨j, y, by simp [hy], he⟩

theorem joinPar_bnd (s : Nat) (rs : List TRes) (h : ∀ r ∈ rs, Bnd s r) : JBnd s (joinPar s rs) := by
  unfold joinPar
  split
  · refine ⟨(le_maxFin s rs).1, ?_⟩
    intro e he
    simp only [mem_sortEvs, List.mem_flatten, List.mem_map] at he
    obtain ⟨l, ⟨r, hr, rfl⟩, hel⟩ := he
    have := (h r hr).2 e hel
    have := (le_maxFin s rs).2 r hr
    exact ⟨by omega, by show e.1 ≤ maxFin s rs; omega⟩
  · rename_i f i hfe
    obtain ⟨r0, hr0, hf, _⟩ := firstErr_some rs f i hfe
    have hm : r0 ∈ rs := List.mem_of_getElem? hr0
    refine ⟨by have := (h r0 hm).1; simp only []; omega, ?_⟩
    intro e he
    simp only [mem_sortEvs] at he
    obtain ⟨j, r, hr, her⟩ := mapIdx_mem_filter _ rs 0 e he
    simp only [List.mem_filter] at her
    have := (h r hr).2 e her.1
    have h2 := her.2
    simp only []
    split at h2 <;> simp at h2 <;> omega

theorem joinSer_bnd (fs : List (Nat → TRes)) (h : ∀ f ∈ fs, ∀ s, Bnd s (f s)) : ∀ s, JBnd s (joinSer s fs) := by
  induction fs with
  | nil => intro s; simp [joinSer, JBnd]
  | cons f fs ih =>
    intro s
    have hf := h f (by simp) s
    have ih' := ih (fun g hg => h g (by simp [hg])) (f s).fin
    simp only [joinSer]
    split
    · exact ⟨hf.1, hf.2⟩
    · refine ⟨by have := ih'.1; have := hf.1; simp only []; omega, ?_⟩
      intro e he
      simp only [List.mem_append] at he
      rcases he with he | he
      · have := hf.2 e he; have := ih'.1; simp only []; omega
      · have := ih'.2 e he; have := hf.1; simp only []; omega

theorem capture_bnd (opt : Bool) (s : Nat) (r : TRes) (h : Bnd s r) : Bnd s (capture opt r) := by
  unfold capture
  split
  · split
    · exact h
    · split
      · refine ⟨h.1, ?_⟩
        intro e he
        simp only [List.mem_append, List.mem_singleton] at he
        rcases he with he | rfl
        · exact h.2 e he
        · exact ⟨h.1, Nat.le_refl _⟩
      · exact h
  · exact h

theorem itemWrap_bnd (D : ExecStatic.Defects) (p : List PathSeg) (s : Nat) (r : TRes) (h : Bnd s r) : Bnd s (itemWrap D p r) := by
  unfold itemWrap; split <;> exact h

theorem ofJoin_bnd (s : Nat) (j : JRes) (mk : List GValue → GValue) (h : JBnd s j) : Bnd s (ofJoin j mk) := by
  unfold ofJoin; split <;> exact h

theorem okNow_bnd (s : Nat) (v : GValue) : Bnd s (okNow s v) := by simp [Bnd, okNow]
theorem failNow_bnd (s : Nat) (e : GErr) : Bnd s (failNow s e) := by simp [Bnd, failNow]

theorem mapIdx_forall {α β} (P : β → Prop) (g : Nat → α → β) (xs : List α) (h : ∀ i x, P (g i x)) :
    ∀ i, ∀ y ∈ mapIdx g xs i, P y := by
  induction xs with
  | nil => intro i y hy; simp [mapIdx] at hy
  | cons x xs ih =>
    intro i y hy
    simp only [mapIdx, List.mem_cons] at hy
    rcases hy with rfl | hy
    · exact h i x
    · exact ih _ y hy

abbrev Rec := String → String → Nat → List Sel → List PathSeg → Nat → TRes

theorem resolveT_bnd (c : ExecStatic.Ctx) (rec : Rec) (hrec : ∀ a b i ss p s, Bnd s (rec a b i ss p s)) :
    ∀ t opt rv ss path pos s, Bnd s (resolveT c rec opt t rv ss path pos s) := by
  intro t
  induction t with
  | nonNull t ih =>
    intro opt rv ss path pos s
    cases rv <;> simp only [resolveT] <;> first | exact failNow_bnd _ _ | exact ih _ _ _ _ _ _
  | list t ih =>
    intro opt rv ss path pos s
    cases rv <;> simp only [resolveT] <;> first | exact okNow_bnd _ _ | (apply capture_bnd; exact failNow_bnd _ _) | skip
    apply capture_bnd; apply ofJoin_bnd; apply joinPar_bnd
    apply mapIdx_forall (P := Bnd s)
    intro i x
    exact itemWrap_bnd _ _ _ _ (ih _ _ _ _ _ _)
  | named n =>
    intro opt rv ss path pos s
    cases rv <;> simp only [resolveT] <;> first | exact okNow_bnd _ _ | (apply capture_bnd; exact failNow_bnd _ _) | skip
    · split
      · exact okNow_bnd _ _
      · apply capture_bnd; exact failNow_bnd _ _
    · split
      · apply capture_bnd; exact hrec _ _ _ _ _ _
      · apply capture_bnd; exact failNow_bnd _ _

theorem completeFieldT_bnd (c : ExecStatic.Ctx) (rec : Rec) (hrec : ∀ a b i ss p s, Bnd s (rec a b i ss p s))
    (fd : FieldDef) (rv : RVal) (occ : FieldOcc) (fpath : List PathSeg) (s : Nat) :
    Bnd s (completeFieldT c rec fd rv occ fpath s) := by
  unfold completeFieldT
  split
  · simp only []
    split
    · exact failNow_bnd _ _
    · simp [Bnd]
  · exact resolveT_bnd c rec hrec _ _ _ _ _ _ _

theorem runFieldT_bnd (g : Cfg) (rec : Rec) (hrec : ∀ a b i ss p s, Bnd s (rec a b i ss p s))
    (rt : String) (id : Nat) (path : List PathSeg) (occ : FieldOcc) (s : Nat) :
    Bnd s (runFieldT g rec rt id path occ s) := by
  unfold runFieldT
  split
  · exact okNow_bnd _ _
  · split
    · exact okNow_bnd _ _
    · rename_i fd _
      have h := completeFieldT_bnd g.c rec hrec fd (ExecStatic.fieldRVal g.c id fd occ) occ (path ++ [PathSeg.key occ.key])
        (s + g.gate path occ.key occ.pos)
      refine ⟨by have := h.1; simp only []; omega, ?_⟩
      intro e he
      simp only [List.mem_cons] at he
      have h1 := h.1
      rcases he with rfl | rfl | he
      · simp only []; omega
      · simp only []; omega
      · have := h.2 e he; simp only []; omega

theorem resolveContainerT_bnd (g : Cfg) : ∀ fuel serial st rt id sels path s,
    Bnd s (resolveContainerT g serial fuel st rt id sels path s) := by
  intro fuel
  induction fuel with
  | zero => intro serial st rt id sels path s; simp only [resolveContainerT]; exact failNow_bnd _ _
  | succ fuel ih =>
    intro serial st rt id sels path s
    simp only [resolveContainerT]
    apply ofJoin_bnd
    have hrec : ∀ a b i ss p s, Bnd s (resolveContainerT g g.nestedSerial fuel a b i ss p s) := fun a b i ss p s => ih _ a b i ss p s
    split
    · apply joinSer_bnd
      intro f hf s'
      simp only [List.mem_map] at hf
      obtain ⟨occ, _, rfl⟩ := hf
      exact runFieldT_bnd g _ hrec _ _ _ _ _
    · apply joinPar_bnd
      intro r hr
      simp only [List.mem_map] at hr
      obtain ⟨f, ⟨occ, _, rfl⟩, rfl⟩ := hr
      exact runFieldT_bnd g _ hrec _ _ _ _ _

-- ------------------------------------------------------------------ the serial join as consecutive blocks

/-- the children of a serial join that really run: each one is started in the round in which
    its predecessor completed; nothing is started after the first failure -/
def serialRuns : Nat → List (Nat → TRes) → List TRes
  | _, [] => []
  | s, f :: fs =>
    match (f s).val with
    | none => [f s]
    | some _ => f s :: serialRuns (f s).fin fs

theorem joinSer_evs (fs : List (Nat → TRes)) : ∀ s, (joinSer s fs).evs = ((serialRuns s fs).map (·.evs)).flatten := by
  induction fs with
  | nil => intro s; simp [joinSer, serialRuns]
  | cons f fs ih =>
    intro s
    simp only [joinSer, serialRuns]
    split <;> simp_all

/-- every run of `serialRuns s fs` starts at or after `s` -/
theorem serialRuns_ge (fs : List (Nat → TRes)) (h : ∀ f ∈ fs, ∀ s, Bnd s (f s)) :
    ∀ s, ∀ r ∈ serialRuns s fs, s ≤ r.fin ∧ ∀ e ∈ r.evs, s ≤ e.1 := by
  induction fs with
  | nil => intro s r hr; simp [serialRuns] at hr
  | cons f fs ih =>
    intro s r hr
    have hf := h f (by simp) s
    simp only [serialRuns] at hr
    split at hr
    · simp only [List.mem_singleton] at hr; subst hr
      exact ⟨hf.1, fun e he => (hf.2 e he).1⟩
    · simp only [List.mem_cons] at hr
      rcases hr with rfl | hr
      · exact ⟨hf.1, fun e he => (hf.2 e he).1⟩
      · have := ih (fun g hg => h g (by simp [hg])) (f s).fin r hr
        exact ⟨by have := hf.1; omega, fun e he => by have := this.2 e he; have := hf.1; omega⟩

/-- in the serial join every event of an earlier child happens no later than the round in which
    that child completes, and every event of a later child no earlier -/
theorem serialRuns_pairwise (fs : List (Nat → TRes)) (h : ∀ f ∈ fs, ∀ s, Bnd s (f s)) :
    ∀ s, (serialRuns s fs).Pairwise (fun a b => ∀ x ∈ a.evs, ∀ y ∈ b.evs, x.1 ≤ a.fin ∧ a.fin ≤ y.1) := by
  induction fs with
  | nil => intro s; simp [serialRuns]
  | cons f fs ih =>
    intro s
    have hf := h f (by simp) s
    simp only [serialRuns]
    split
    · simp
    · rw [List.pairwise_cons]
      refine ⟨?_, ih (fun g hg => h g (by simp [hg])) _⟩
      intro b hb x hx y hy
      have := serialRuns_ge fs (fun g hg => h g (by simp [hg])) (f s).fin b hb
      exact ⟨(hf.2 x hx).2, this.2 y hy⟩

-- ------------------------------------------------------------------ values do not depend on the schedule

/-- the value of a join as a function of the children's values -/
def valsOf (vs : List (Option GValue)) : Option (List GValue) :=
  if vs.all (·.isSome) then some (vs.filterMap id) else none

theorem joinPar_vals (s : Nat) (rs : List TRes) : (joinPar s rs).vals = valsOf (rs.map (·.val)) := by
  unfold joinPar valsOf
  split
  · rename_i h
    rw [firstErr_none] at h
    have : (rs.map (·.val)).all (·.isSome) = true := by simpa using h
    simp [this, List.filterMap_map]
  · rename_i f i h
    obtain ⟨r, hr, _, hv⟩ := firstErr_some rs f i h
    have hm : r ∈ rs := List.mem_of_getElem? hr
    have : (rs.map (·.val)).all (·.isSome) = false := by
      rw [List.all_eq_false]
      exact ⟨r.val, List.mem_map.2 ⟨r, hm, rfl⟩, by simp [hv]⟩
    simp [this]

theorem joinSer_vals (fs : List (Nat → TRes)) (h : ∀ f ∈ fs, ∀ s s', (f s).val = (f s').val) :
    ∀ s, (joinSer s fs).vals = valsOf (fs.map (fun f => (f 0).val)) := by
  induction fs with
  | nil => intro s; simp [joinSer, valsOf]
  | cons f fs ih =>
    intro s
    simp only [joinSer, List.map_cons]
    have hf := h f (by simp) s 0
    have ih' := ih (fun g hg => h g (by simp [hg]))
    split
    · rename_i hn
      rw [hn] at hf
      simp [valsOf, ← hf]
    · rename_i x hx
      rw [hx] at hf
      rw [ih', ← hf]
      unfold valsOf
      simp only [List.all_cons, Option.isSome_some, Bool.true_and, List.filterMap_cons, id]
      split <;> simp

-- ------------------------------------------------------------------ schedule independence

/-- two results of the same sub-execution under different schedules / start rounds: same value,
    same "an error reached a join" flag, and — when no error reached a join — the same travelling
    error and the same captured errors up to order -/
def Sim (r₁ r₂ : TRes) : Prop :=
  r₁.val = r₂.val ∧ r₁.prop = r₂.prop ∧
  (r₁.prop = false → r₁.up = r₂.up ∧ (r₁.evs.filterMap errOf).Perm (r₂.evs.filterMap errOf))

def JSim (j₁ j₂ : JRes) : Prop :=
  j₁.vals = j₂.vals ∧ j₁.prop = j₂.prop ∧
  (j₁.prop = false → j₁.up = j₂.up ∧ (j₁.evs.filterMap errOf).Perm (j₂.evs.filterMap errOf))

theorem Sim.rfl' (r : TRes) : Sim r r := ⟨rfl, rfl, fun _ => ⟨rfl, .refl _⟩⟩

theorem flatten_errs_perm {α} (xs : List α) (f₁ f₂ : α → TRes)
    (h : ∀ x ∈ xs, ((f₁ x).evs.filterMap errOf).Perm ((f₂ x).evs.filterMap errOf)) :
    (((xs.map f₁).map (·.evs)).flatten.filterMap errOf).Perm (((xs.map f₂).map (·.evs)).flatten.filterMap errOf) := by
  induction xs with
  | nil => simp
  | cons x xs ih =>
    simp only [List.map_cons, List.flatten_cons, List.filterMap_append]
    exact (h x (by simp)).append (ih (fun y hy => h y (by simp [hy])))

theorem any_map_congr {α β} (xs : List α) (f₁ f₂ : α → β) (p : β → Bool) (h : ∀ x ∈ xs, p (f₁ x) = p (f₂ x)) :
    (xs.map f₁).any p = (xs.map f₂).any p := by
  induction xs with
  | nil => rfl
  | cons x xs ih =>
    simp only [List.map_cons, List.any_cons]
    rw [h x (by simp), ih (fun y hy => h y (by simp [hy]))]

theorem joinPar_sim {α} (xs : List α) (f₁ f₂ : α → TRes) (s₁ s₂ : Nat) (h : ∀ x ∈ xs, Sim (f₁ x) (f₂ x)) :
    JSim (joinPar s₁ (xs.map f₁)) (joinPar s₂ (xs.map f₂)) := by
  have hv : (xs.map f₁).map (·.val) = (xs.map f₂).map (·.val) := by
    simp only [List.map_map, List.map_inj_left]
    intro x hx; exact (h x hx).1
  by_cases hall : ∀ r ∈ xs.map f₁, r.val.isSome = true
  · have hall2 : ∀ r ∈ xs.map f₂, r.val.isSome = true := by
      intro r hr
      obtain ⟨x, hx, rfl⟩ := List.mem_map.1 hr
      rw [← (h x hx).1]; exact hall _ (List.mem_map.2 ⟨x, hx, rfl⟩)
    have e1 := (firstErr_none _).2 hall
    have e2 := (firstErr_none _).2 hall2
    have hany : ∀ x ∈ xs, (f₁ x).prop = false → True := fun _ _ _ => trivial
    refine ⟨by rw [joinPar_vals, joinPar_vals, hv], ?_, ?_⟩
    · simp only [joinPar, e1, e2]
      exact any_map_congr xs f₁ f₂ (·.prop) (fun x hx => (h x hx).2.1)
    · intro hp
      simp only [joinPar, e1, e2] at hp ⊢
      refine ⟨by first | rfl | trivial, ?_⟩
      refine ((sortEvs_perm _).filterMap _).trans (.trans ?_ ((sortEvs_perm _).filterMap _).symm)
      apply flatten_errs_perm
      intro x hx
      have : (f₁ x).prop = false := by
        have := List.any_eq_false.1 hp (f₁ x) (List.mem_map.2 ⟨x, hx, rfl⟩)
        simpa using this
      exact ((h x hx).2.2 this).2
  · have hall2 : ¬ ∀ r ∈ xs.map f₂, r.val.isSome = true := by
      intro h2; apply hall
      intro r hr
      obtain ⟨x, hx, rfl⟩ := List.mem_map.1 hr
      rw [(h x hx).1]; exact h2 _ (List.mem_map.2 ⟨x, hx, rfl⟩)
    have e1 : firstErr (xs.map f₁) ≠ none := fun e => hall ((firstErr_none _).1 e)
    have e2 : firstErr (xs.map f₂) ≠ none := fun e => hall2 ((firstErr_none _).1 e)
    obtain ⟨⟨a1, b1⟩, e1⟩ := Option.ne_none_iff_exists'.1 e1
    obtain ⟨⟨a2, b2⟩, e2⟩ := Option.ne_none_iff_exists'.1 e2
    simp [JSim, joinPar, e1, e2]

theorem joinSer_sim {α} (xs : List α) (f₁ f₂ : α → Nat → TRes) (h : ∀ x ∈ xs, ∀ s₁ s₂, Sim (f₁ x s₁) (f₂ x s₂)) :
    ∀ s₁ s₂, JSim (joinSer s₁ (xs.map f₁)) (joinSer s₂ (xs.map f₂)) := by
  induction xs with
  | nil => intro s₁ s₂; simp [joinSer, JSim]
  | cons x xs ih =>
    intro s₁ s₂
    have hx := h x (by simp) s₁ s₂
    have ih' := ih (fun y hy => h y (by simp [hy])) (f₁ x s₁).fin (f₂ x s₂).fin
    simp only [List.map_cons, joinSer]
    cases h1 : (f₁ x s₁).val with
    | none =>
      have h2 : (f₂ x s₂).val = none := by rw [← hx.1]; exact h1
      simp [h2, JSim]
    | some v =>
      have h2 : (f₂ x s₂).val = some v := by rw [← hx.1]; exact h1
      simp only [h2]
      refine ⟨by simp only []; rw [ih'.1], by simp only []; rw [hx.2.1, ih'.2.1], ?_⟩
      intro hp
      simp only [Bool.or_eq_false_iff] at hp
      have a := hx.2.2 hp.1
      have b := ih'.2.2 hp.2
      refine ⟨b.1, ?_⟩
      simp only [List.filterMap_append]
      exact a.2.append b.2

theorem capture_sim (opt : Bool) (r₁ r₂ : TRes) (h : Sim r₁ r₂) : Sim (capture opt r₁) (capture opt r₂) := by
  unfold capture
  cases opt with
  | false => simpa using h
  | true =>
    simp only [if_true]
    cases h1 : r₁.val with
    | some v =>
      have h2 : r₂.val = some v := by rw [← h.1]; exact h1
      simp only [h2]; exact h
    | none =>
      have h2 : r₂.val = none := by rw [← h.1]; exact h1
      simp only [h2]
      by_cases hp : r₁.prop = false
      · have hu := (h.2.2 hp).1
        have hp2 : r₂.prop = false := by rw [← h.2.1]; exact hp
        cases hu1 : r₁.up with
        | none =>
          have hu2 : r₂.up = none := by rw [← hu]; exact hu1
          simp only [hu2]
          exact ⟨rfl, h.2.1, fun _ => ⟨rfl, (h.2.2 hp).2⟩⟩
        | some e =>
          have hu2 : r₂.up = some e := by rw [← hu]; exact hu1
          simp only [hu2]
          refine ⟨rfl, h.2.1, fun _ => ⟨rfl, ?_⟩⟩
          simp only [List.filterMap_append]
          exact ((h.2.2 hp).2).append (by simp [errOf])
      · have hp1 : r₁.prop = true := by simpa using hp
        have hp2 : r₂.prop = true := by rw [← h.2.1]; exact hp1
        cases r₁.up <;> cases r₂.up <;> simp [Sim, hp1, hp2]

theorem itemWrap_sim (D : ExecStatic.Defects) (p : List PathSeg) (r₁ r₂ : TRes) (h : Sim r₁ r₂) :
    Sim (itemWrap D p r₁) (itemWrap D p r₂) := by
  unfold itemWrap
  rw [← h.1]
  split
  · refine ⟨rfl, h.2.1, fun hp => ?_⟩
    have := h.2.2 hp
    exact ⟨by simp only []; rw [this.1], this.2⟩
  · exact h

theorem ofJoin_sim (j₁ j₂ : JRes) (mk : List GValue → GValue) (h : JSim j₁ j₂) : Sim (ofJoin j₁ mk) (ofJoin j₂ mk) := by
  unfold ofJoin
  rw [← h.1]
  split
  · exact ⟨rfl, h.2.1, fun hp => ⟨rfl, (h.2.2 hp).2⟩⟩
  · exact ⟨rfl, h.2.1, fun hp => h.2.2 hp⟩

theorem mapIdx_eq_map {α β} (g : Nat → α → β) (xs : List α) : ∀ i, mapIdx g xs i = (xs.zipIdx i).map (fun p => g p.2 p.1) := by
  induction xs with
  | nil => intro i; simp [mapIdx]
  | cons x xs ih => intro i; simp [mapIdx, ih]

theorem resolveT_sim (c : ExecStatic.Ctx) (rec₁ rec₂ : Rec)
    (hrec : ∀ a b i ss p s₁ s₂, Sim (rec₁ a b i ss p s₁) (rec₂ a b i ss p s₂)) :
    ∀ t opt rv ss path pos s₁ s₂, Sim (resolveT c rec₁ opt t rv ss path pos s₁) (resolveT c rec₂ opt t rv ss path pos s₂) := by
  intro t
  induction t with
  | nonNull t ih =>
    intro opt rv ss path pos s₁ s₂
    cases rv <;> simp only [resolveT] <;> first | exact ih _ _ _ _ _ _ _ | (simp [Sim, failNow]; done)
  | list t ih =>
    intro opt rv ss path pos s₁ s₂
    cases rv <;> simp only [resolveT] <;>
      first | (apply capture_sim; simp [Sim, failNow]; done) | (simp [Sim, okNow]; done) | skip
    apply capture_sim; apply ofJoin_sim
    rw [mapIdx_eq_map, mapIdx_eq_map]
    apply joinPar_sim
    intro x _
    exact itemWrap_sim _ _ _ _ (ih _ _ _ _ _ _ _)
  | named n =>
    intro opt rv ss path pos s₁ s₂
    cases rv <;> simp only [resolveT] <;>
      first | (apply capture_sim; simp [Sim, failNow]; done) | (simp [Sim, okNow]; done) | skip
    · split
      · simp [Sim, okNow]
      · apply capture_sim; simp [Sim, failNow]
    · split
      · apply capture_sim; exact hrec _ _ _ _ _ _ _
      · apply capture_sim; simp [Sim, failNow]

theorem completeFieldT_sim (c : ExecStatic.Ctx) (rec₁ rec₂ : Rec)
    (hrec : ∀ a b i ss p s₁ s₂, Sim (rec₁ a b i ss p s₁) (rec₂ a b i ss p s₂))
    (fd : FieldDef) (rv : RVal) (occ : FieldOcc) (fpath : List PathSeg) (s₁ s₂ : Nat) :
    Sim (completeFieldT c rec₁ fd rv occ fpath s₁) (completeFieldT c rec₂ fd rv occ fpath s₂) := by
  unfold completeFieldT
  split
  · simp only []
    split
    · simp [Sim, failNow]
    · simp [Sim, errOf]
  · exact resolveT_sim c rec₁ rec₂ hrec _ _ _ _ _ _ _ _

theorem runFieldT_sim (g₁ g₂ : Cfg) (hc : g₁.c = g₂.c) (rec₁ rec₂ : Rec)
    (hrec : ∀ a b i ss p s₁ s₂, Sim (rec₁ a b i ss p s₁) (rec₂ a b i ss p s₂))
    (rt : String) (id : Nat) (path : List PathSeg) (occ : FieldOcc) (s₁ s₂ : Nat) :
    Sim (runFieldT g₁ rec₁ rt id path occ s₁) (runFieldT g₂ rec₂ rt id path occ s₂) := by
  unfold runFieldT
  rw [← hc]
  split
  · simp [Sim, okNow]
  · split
    · simp [Sim, okNow]
    · rename_i fd _
      have h := completeFieldT_sim g₁.c rec₁ rec₂ hrec fd (ExecStatic.fieldRVal g₁.c id fd occ) occ
        (path ++ [PathSeg.key occ.key]) (s₁ + g₁.gate path occ.key occ.pos) (s₂ + g₂.gate path occ.key occ.pos)
      refine ⟨by simp only []; rw [h.1], h.2.1, fun hp => ?_⟩
      have := h.2.2 hp
      refine ⟨this.1, ?_⟩
      simpa [List.filterMap_cons, errOf] using this.2

theorem resolveContainerT_sim (g₁ g₂ : Cfg) (hc : g₁.c = g₂.c) (hp : g₁.perOccurrence = g₂.perOccurrence)
    (hn : g₁.nestedSerial = g₂.nestedSerial) :
    ∀ fuel serial st rt id sels path s₁ s₂,
      Sim (resolveContainerT g₁ serial fuel st rt id sels path s₁) (resolveContainerT g₂ serial fuel st rt id sels path s₂) := by
  intro fuel
  induction fuel with
  | zero => intro serial st rt id sels path s₁ s₂; simp [resolveContainerT, Sim, failNow]
  | succ fuel ih =>
    intro serial st rt id sels path s₁ s₂
    simp only [resolveContainerT]
    have hD : g₁.c.D = g₂.c.D := by rw [hc]
    rw [hD]
    apply ofJoin_sim
    have ho : occsOf g₁ rt (fuel + 1) st sels = occsOf g₂ rt (fuel + 1) st sels := by
      simp only [occsOf, hc, hp]
    rw [ho]
    have hrec : ∀ a b i ss p s₁ s₂, Sim (resolveContainerT g₁ g₁.nestedSerial fuel a b i ss p s₁) (resolveContainerT g₂ g₂.nestedSerial fuel a b i ss p s₂) :=
      fun a b i ss p s₁ s₂ => hn ▸ ih _ a b i ss p s₁ s₂
    cases serial with
    | true =>
      simp only [if_true]
      exact joinSer_sim _ _ _ (fun occ _ t₁ t₂ => runFieldT_sim g₁ g₂ hc _ _ hrec rt id path occ t₁ t₂) s₁ s₂
    | false =>
      simp only [Bool.false_eq_true, if_false, List.map_map]
      exact joinPar_sim _ _ _ s₁ s₂ (fun occ _ => runFieldT_sim g₁ g₂ hc _ _ hrec rt id path occ s₁ s₂)

end AGV.Lemmas.Sched
