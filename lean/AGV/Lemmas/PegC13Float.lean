/-
  Property C13: float literals — the text of a FloatValue token in terms of its parts, what
  `parse::<Number>()` (correctly rounded, the repaired tree) makes of it, and the agreement with the
  double the specification assigns (`floatBits`), infinite results being rejected by the parser.
-/
import AGV.Lemmas.PegC13Val2
namespace AGV.Lemmas.PegX
open AGV.Model.Peg AGV.Model.BuildAst AGV.Spec.Lex AGV.Spec.Parse AGV.Core.PAst AGV.Lemmas.PegC13

theorem spanDigits_append (ds r : List Char) (hd : ∀ c ∈ ds, isDig c = true)
    (hr : ∀ c r', r = c :: r' → isDig c = false) : spanDigits (ds ++ r) = (ds, r) := by
  induction ds with
  | nil =>
    cases r with
    | nil => rfl
    | cons c r' =>
      have : isDigitC c = false := hr c r' rfl
      simp [spanDigits, this]
  | cons c t ih =>
    have hc : isDigitC c = true := hd c (by simp)
    have := ih (fun d hd' => hd d (by simp [hd']))
    simp [spanDigits, hc, this]

/-- the model's value of a float token from its parts (correctly rounded path) -/
def modelFloat (neg : Bool) (ip fr : List Char) (exNeg : Bool) (ex : List Char) : Except PErr PValue :=
  let exv : Int := if exNeg then -(natOf ex : Int) else natOf ex
  let m := natOf (ip ++ fr)
  let e : Int := exv - fr.length
  let b := if e < -400 - ((ip.length + fr.length : Nat) : Int) then 0
    else if e > 400 && m ≠ 0 then AGV.F64.infBits else AGV.F64.ofDecimal m e
  if b ≥ AGV.F64.infBits then .error .number else .ok (.float (if neg then AGV.F64.neg b else b))

/-- fraction and exponent part of a float token's text -/
def fracTxt (hasFr : Bool) (fr : List Char) : List Char := if hasFr then '.' :: fr else []
inductive ExpShape : List Char → Bool → List Char → Prop
  | none : ExpShape [] false []
  | plain (ec : Char) (ex : List Char) : (ec = 'e' ∨ ec = 'E') → ex ≠ [] → (∀ c ∈ ex, isDig c = true) →
      ExpShape (ec :: ex) false ex
  | plus (ec : Char) (ex : List Char) : (ec = 'e' ∨ ec = 'E') → ex ≠ [] → (∀ c ∈ ex, isDig c = true) →
      ExpShape (ec :: '+' :: ex) false ex
  | minus (ec : Char) (ex : List Char) : (ec = 'e' ∨ ec = 'E') → ex ≠ [] → (∀ c ∈ ex, isDig c = true) →
      ExpShape (ec :: '-' :: ex) true ex

theorem dig_ne {d : Char} (h : isDig d = true) : d ≠ '-' ∧ d ≠ '+' ∧ d ≠ '.' ∧ d ≠ 'e' ∧ d ≠ 'E' := by
  refine ⟨?_, ?_, ?_, ?_, ?_⟩ <;> (intro e; subst e; revert h; decide)

theorem exp_head {ex : List Char} (hne : ex ≠ []) (hd : ∀ c ∈ ex, isDig c = true) :
    ∃ x xs, ex = x :: xs ∧ x ≠ '+' ∧ x ≠ '-' := by
  obtain ⟨x, xs, rfl⟩ := List.exists_cons_of_ne_nil hne
  have := dig_ne (hd x (by simp))
  exact ⟨x, xs, rfl, this.2.1, this.1⟩

theorem parseNumber_float_text (neg : Bool) (ip fr : List Char) (hasFr : Bool) (et : List Char) (exNeg : Bool)
    (ex : List Char) (hip : ip ≠ []) (hd : ∀ c ∈ ip, isDig c = true)
    (hfr : if hasFr then fr ≠ [] ∧ ∀ c ∈ fr, isDig c = true else fr = [])
    (hex : ExpShape et exNeg ex) (hfl : hasFr = true ∨ et ≠ []) :
    parseNumber Defects.none ((if neg then ['-'] else []) ++ (ip ++ (fracTxt hasFr fr ++ et))) =
      modelFloat neg ip fr exNeg ex := by
  obtain ⟨d, r, rfl⟩ := List.exists_cons_of_ne_nil hip
  have hd0 : isDig d = true := hd d (by simp)
  obtain ⟨hdm, -, -, -, -⟩ := dig_ne hd0
  have hsp : ∀ tl, (∀ c r', tl = c :: r' → isDig c = false) → spanDigits (d :: (r ++ tl)) = (d :: r, tl) :=
    fun tl h => spanDigits_append (d :: r) tl hd h
  have hE : isDig 'E' = false := by decide
  have he : isDig 'e' = false := by decide
  have hdot : isDig '.' = false := by decide
  have hnil : spanDigits ([] : List Char) = ([], []) := rfl
  cases hasFr with
  | true =>
    simp only [if_true] at hfr
    obtain ⟨hfrne, hfrd⟩ := hfr
    have hfsp : ∀ tl, (∀ c r', tl = c :: r' → isDig c = false) → spanDigits (fr ++ tl) = (fr, tl) :=
      fun tl h => spanDigits_append fr tl hfrd h
    cases hex with
    | none =>
      have h1 := hsp ('.' :: fr) (by intro c r' e; cases e; exact hdot)
      have h2 : spanDigits fr = (fr, []) := by simpa using hfsp [] (by intro c r' e; cases e)
      cases neg <;> simp [parseNumber, fracTxt, hdm, h1, h2, Defects.none, modelFloat, decimalOf, natOf]
    | plain ec ex hec hexne hexd =>
      obtain ⟨x, xs, rfl, hx1, hx2⟩ := exp_head hexne hexd
      have h1 := hsp ('.' :: (fr ++ ec :: x :: xs)) (by intro c r' e; cases e; exact hdot)
      have h2 := hfsp (ec :: x :: xs) (by intro c r' e; cases e; rcases hec with rfl | rfl <;> assumption)
      rcases hec with rfl | rfl <;> cases neg <;>
        simp [parseNumber, fracTxt, hdm, h1, h2, Defects.none, modelFloat, decimalOf, natOf, hx1, hx2]
    | plus ec ex hec hexne hexd =>
      have h1 := hsp ('.' :: (fr ++ ec :: '+' :: ex)) (by intro c r' e; cases e; exact hdot)
      have h2 := hfsp (ec :: '+' :: ex) (by intro c r' e; cases e; rcases hec with rfl | rfl <;> assumption)
      rcases hec with rfl | rfl <;> cases neg <;>
        simp [parseNumber, fracTxt, hdm, h1, h2, Defects.none, modelFloat, decimalOf, natOf]
    | minus ec ex hec hexne hexd =>
      have h1 := hsp ('.' :: (fr ++ ec :: '-' :: ex)) (by intro c r' e; cases e; exact hdot)
      have h2 := hfsp (ec :: '-' :: ex) (by intro c r' e; cases e; rcases hec with rfl | rfl <;> assumption)
      rcases hec with rfl | rfl <;> cases neg <;>
        simp [parseNumber, fracTxt, hdm, h1, h2, Defects.none, modelFloat, decimalOf, natOf]
  | false =>
    simp only [Bool.false_eq_true, if_false] at hfr
    subst hfr
    cases hex with
    | none => simp at hfl
    | plain ec ex hec hexne hexd =>
      obtain ⟨x, xs, rfl, hx1, hx2⟩ := exp_head hexne hexd
      have h1 := hsp (ec :: x :: xs) (by intro c r' e; cases e; rcases hec with rfl | rfl <;> assumption)
      rcases hec with rfl | rfl <;> cases neg <;>
        simp [parseNumber, fracTxt, hdm, h1, Defects.none, modelFloat, decimalOf, natOf, hx1, hx2]
    | plus ec ex hec hexne hexd =>
      have h1 := hsp (ec :: '+' :: ex) (by intro c r' e; cases e; rcases hec with rfl | rfl <;> assumption)
      rcases hec with rfl | rfl <;> cases neg <;>
        simp [parseNumber, fracTxt, hdm, h1, Defects.none, modelFloat, decimalOf, natOf]
    | minus ec ex hec hexne hexd =>
      have h1 := hsp (ec :: '-' :: ex) (by intro c r' e; cases e; rcases hec with rfl | rfl <;> assumption)
      rcases hec with rfl | rfl <;> cases neg <;>
        simp [parseNumber, fracTxt, hdm, h1, Defects.none, modelFloat, decimalOf, natOf]

-- ------------------------------------------------------------------ the token text

theorem fracT_shape (r1 : List Char) :
    r1 = fracTxt (fracT r1).2.2 (fracT r1).1 ++ (fracT r1).2.1 ∧
    (if (fracT r1).2.2 then (fracT r1).1 ≠ [] ∧ ∀ c ∈ (fracT r1).1, isDig c = true else (fracT r1).1 = []) := by
  unfold fracT
  split
  · rename_i r
    split
    · simp [fracTxt]
    · rename_i hne
      have hs := digitsOf_split r
      refine ⟨?_, ?_⟩
      · simp only [fracTxt, if_true, List.cons_append]
        rw [← hs.1]
      · simp only [if_true]
        exact ⟨by intro e; simp [e] at hne, hs.2⟩
  · simp [fracTxt]

theorem expT_shape (r2 : List Char) :
    ∃ et, r2 = et ++ (expT r2).2.2.1 ∧ ExpShape et (expT r2).1 (expT r2).2.1 ∧ ((expT r2).2.2.2 = true ↔ et ≠ []) := by
  unfold expT
  split
  · rename_i c r
    split
    · rename_i hc
      have hec : c = 'e' ∨ c = 'E' := by simpa using hc
      split
      · rename_i r'
        split
        · exact ⟨[], rfl, .none, by simp⟩
        · rename_i hne
          have hs := digitsOf_split r'
          refine ⟨c :: '+' :: (digitsOf r').1, ?_, .plus c _ hec (by intro e; simp [e] at hne) hs.2, by simp⟩
          simp only [List.cons_append]; rw [← hs.1]
      · rename_i r'
        split
        · exact ⟨[], rfl, .none, by simp⟩
        · rename_i hne
          have hs := digitsOf_split r'
          refine ⟨c :: '-' :: (digitsOf r').1, ?_, .minus c _ hec (by intro e; simp [e] at hne) hs.2, by simp⟩
          simp only [List.cons_append]; rw [← hs.1]
      · split
        · exact ⟨[], rfl, .none, by simp⟩
        · rename_i hne
          have hs := digitsOf_split r
          refine ⟨c :: (digitsOf r).1, ?_, .plain c _ hec (by intro e; simp [e] at hne) hs.2, by simp⟩
          simp only [List.cons_append]; rw [← hs.1]
    · exact ⟨[], rfl, .none, by simp⟩
  · exact ⟨[], rfl, .none, by simp⟩

theorem lexNumber_float_text {s rest ip fr ex : List Char} {neg exNeg : Bool}
    (h : lexNumber s = some (.float neg ip fr exNeg ex, rest)) :
    ∃ hasFr et, s = ((if neg then ['-'] else []) ++ (ip ++ (fracTxt hasFr fr ++ et))) ++ rest ∧
      ip ≠ [] ∧ (∀ c ∈ ip, isDig c = true) ∧
      (if hasFr then fr ≠ [] ∧ ∀ c ∈ fr, isDig c = true else fr = []) ∧ ExpShape et exNeg ex ∧
      (hasFr = true ∨ et ≠ []) := by
  rw [lexNumber_eq] at h
  simp only [lexNumber'] at h
  have hs : s = (if decide (s.head? = some '-') then ['-'] else []) ++ (if s.head? = some '-' then s.tail else s) := by
    cases s with
    | nil => rfl
    | cons c r =>
      by_cases hc : c = '-'
      · subst hc; simp
      · simp [hc]
  generalize (if s.head? = some '-' then s.tail else s) = b at h hs
  have hb := digitsOf_split b
  by_cases hbad : ((digitsOf b).fst.isEmpty || decide ((digitsOf b).fst.head? = some '0') && decide ((digitsOf b).fst.length > 1)) = true
  · simp only [hbad, if_true] at h; cases h
  · simp only [hbad, if_false, Bool.false_eq_true] at h
    split at h
    · cases h
    · split at h
      · rename_i hfl
        simp only [Option.some.injEq, Prod.mk.injEq, Tok.float.injEq] at h
        obtain ⟨⟨h1, h2, h3, h4, h5⟩, h6⟩ := h
        obtain ⟨f1, f2⟩ := fracT_shape (digitsOf b).2
        obtain ⟨et, e1, e2, e3⟩ := expT_shape (fracT (digitsOf b).2).2.1
        subst h1 h2 h3 h4 h5 h6
        refine ⟨(fracT (digitsOf b).2).2.2, et, ?_, ?_, hb.2, f2, e2, ?_⟩
        · conv => lhs; rw [hs, hb.1, f1, e1]
          simp [List.append_assoc]
        · intro he; simp [he] at hbad
        · simp only [Bool.or_eq_true] at hfl
          rcases hfl with hfl | hfl
          · exact Or.inl hfl
          · exact Or.inr (e3.1 hfl)
      · cases h

-- ------------------------------------------------------------------ the value

theorem min_form (x I : Nat) : (if x ≥ I then I else x) ≤ I := by
  split
  · exact Nat.le_refl _
  · rename_i h; exact Nat.le_of_lt (Nat.lt_of_not_ge h)

theorem roundBits_le (n d : Nat) : AGV.F64.roundBits n d ≤ AGV.F64.infBits := by
  unfold AGV.F64.roundBits
  by_cases h : (n = 0 || d = 0) = true
  · rw [if_pos h]; exact Nat.zero_le _
  · rw [if_neg h]; exact min_form _ _

theorem ofDecimal_le (m : Nat) (e : Int) : AGV.F64.ofDecimal m e ≤ AGV.F64.infBits := by
  unfold AGV.F64.ofDecimal; split <;> exact roundBits_le _ _

theorem ofDecimal_zero (e : Int) : AGV.F64.ofDecimal 0 e = 0 := by
  unfold AGV.F64.ofDecimal AGV.F64.roundBits; split <;> simp

/-- what the parser makes of a float token is the double the specification assigns, unless that is
    infinite (then the parser reports a number error) -/
theorem modelFloat_spec (neg : Bool) (ip fr : List Char) (exNeg : Bool) (ex : List Char) :
    modelFloat neg ip fr exNeg ex =
      if floatBits neg ip fr exNeg ex = AGV.F64.infBits then .error .number
      else .ok (.float (floatBits neg ip fr exNeg ex)) := by
  unfold modelFloat floatBits
  simp only []
  generalize hm : natOf (ip ++ fr) = m
  generalize he : ((if exNeg = true then -(natOf ex : Int) else (natOf ex : Int)) - (fr.length : Int)) = e
  have hsign : AGV.F64.infBits < AGV.F64.signBit := by decide
  have key : (if e < -400 - ((ip.length + fr.length : Nat) : Int) then 0
      else if (decide (e > 400) && decide (m ≠ 0)) = true then AGV.F64.infBits else AGV.F64.ofDecimal m e) =
      (if m = 0 then 0 else if e > 400 then AGV.F64.infBits
        else if e < -400 - ((ip.length + fr.length : Nat) : Int) then 0 else AGV.F64.ofDecimal m e) := by
    by_cases hm0 : m = 0
    · subst hm0
      simp only [ne_eq, not_true_eq_false, decide_false, Bool.and_false, Bool.false_eq_true, if_false, if_true,
        ofDecimal_zero]
      split <;> rfl
    · simp only [hm0, ne_eq, not_false_eq_true, decide_true, Bool.and_true, decide_eq_true_eq, if_false]
      by_cases h1 : e < -400 - ((ip.length + fr.length : Nat) : Int)
      · have h2 : ¬ e > 400 := by omega
        simp [h1, h2]
      · have h1' : ¬ e < -400 - ((ip.length : Int) + (fr.length : Int)) := by
          intro h; apply h1; push_cast; exact h
        simp [h1, h1']
  rw [key]
  have hble : (if m = 0 then 0 else if e > 400 then AGV.F64.infBits
        else if e < -400 - ((ip.length + fr.length : Nat) : Int) then 0 else AGV.F64.ofDecimal m e) ≤ AGV.F64.infBits := by
    split
    · exact Nat.zero_le _
    · split
      · exact Nat.le_refl _
      · split
        · exact Nat.zero_le _
        · exact ofDecimal_le _ _
  generalize (if m = 0 then 0 else if e > 400 then AGV.F64.infBits
        else if e < -400 - ((ip.length + fr.length : Nat) : Int) then 0 else AGV.F64.ofDecimal m e) = b at *
  generalize AGV.F64.infBits = I at *
  by_cases hb : b ≥ I
  · have hbe : b = I := Nat.le_antisymm hble hb
    subst hbe
    simp
  · have hlt : b < I := Nat.lt_of_not_ge hb
    simp only [hb, if_false, hlt, decide_true, Bool.and_true]
    cases neg with
    | true =>
      simp only [if_true]
      have : AGV.F64.neg b ≠ I := by unfold AGV.F64.neg; omega
      simp [this]
    | false =>
      simp only [Bool.false_eq_true, if_false]
      have : b ≠ I := by omega
      simp [this]

theorem build_float (s₀ : List Char) (vn : String) (q : Nat) (t rest ip fr ex : List Char) (neg exNeg : Bool)
    (h : At s₀ q t) (hl : lexNumber t = some (.float neg ip fr exNeg ex, rest)) :
    Builds s₀ (Pair.mk vn q (q + (t.length - rest.length)) [Pair.mk "number" q (q + (t.length - rest.length)) []])
      (.float (floatBits neg ip fr exNeg ex)) := by
  obtain ⟨hasFr, et, e1, e2, e3, e4, e5, e6⟩ := lexNumber_float_text hl
  intro bf hbf
  obtain ⟨bf, rfl⟩ : ∃ b, bf = b + 1 := ⟨bf - 1, by omega⟩
  have ha := asStr_at h (t.length - rest.length) "number" []
  have hk : t.take (t.length - rest.length) =
      (if neg then ['-'] else []) ++ (ip ++ (fracTxt hasFr fr ++ et)) := by
    generalize hsg : ((if neg then ['-'] else []) ++ (ip ++ (fracTxt hasFr fr ++ et))) = tx at e1 ⊢
    have hl2 : t.length - rest.length = tx.length := by rw [e1]; simp
    rw [hl2, e1, List.take_left']
    rfl
  rw [hk] at ha
  simp [buildValue, Pair.inner, Pair.rule, envOf] at ha ⊢
  rw [ha, parseNumber_float_text neg ip fr hasFr et exNeg ex e2 e3 e4 e5 e6, modelFloat_spec]
  by_cases hfin : floatBits neg ip fr exNeg ex = AGV.F64.infBits
  · rw [if_pos hfin, expV_inf (by simp [finV, hfin])]
  · rw [if_neg hfin, expV_fin (by simp [finV, hfin])]; rfl
end AGV.Lemmas.PegX
