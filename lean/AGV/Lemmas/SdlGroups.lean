/-
  C17 — the compose groups: the exporter's grouping loop (`composeGroups`, a fold with a map keyed
  by URL) yields exactly the link groups the specification asks for (`linkGroups`: one per distinct
  URL in order of first appearance, each importing every directive registered with that URL).
-/
import AGV.Lemmas.SdlDocument
namespace AGV.Lemmas.SdlSkeleton
open AGV.Core AGV.Core.PAst AGV.Core.Sdl AGV.Model.Sdl AGV.Spec.SdlParse

theorem eraseDups_filter {α : Type} [BEq α] [LawfulBEq α] (p : α → Bool) :
    ∀ (n : Nat) (l : List α), l.length ≤ n → (l.filter p).eraseDups = l.eraseDups.filter p
  | _, [], _ => by simp
  | 0, a :: as, h => by simp at h
  | n + 1, a :: as, h => by
    have hlen : (as.filter (fun b => !b == a)).length ≤ n :=
      Nat.le_trans (List.length_filter_le _ _) (by simpa using h)
    have ih := eraseDups_filter p n (as.filter (fun b => !b == a)) hlen
    rw [List.eraseDups_cons (a := a) (as := as)]
    cases hp : p a
    · have ih2 := eraseDups_filter p n as (by simpa using h)
      simp only [List.filter_cons, hp, Bool.false_eq_true, if_false]
      rw [← ih]
      congr 1
      rw [List.filter_filter]
      apply List.filter_congr
      intro x _
      by_cases hx : x = a
      · subst hx; simp [hp]
      · simp [hx]
    · simp only [List.filter_cons, hp, if_true]
      rw [List.eraseDups_cons, ← ih, List.filter_filter, List.filter_filter]
      congr 2
      apply List.filter_congr
      intro x _
      exact Bool.and_comm _ _

def namesOf (ds : List DirDef) (u : Text) : List Text := (ds.filter (fun d => d.composable = some u)).map importName
def urlsOf (ds : List DirDef) : List Text := ds.filterMap (·.composable)

theorem linkGroups_eq (ds : List DirDef) : linkGroups ds = (urlsOf ds).eraseDups.map (fun u => (u, namesOf ds u)) := rfl

/-- any step function with the three behaviours of the exporter's loop computes the link groups -/
theorem groups_char (f : List (Text × List Text) → DirDef → List (Text × List Text))
    (h0 : ∀ acc d, d.composable = none → f acc d = acc)
    (h1 : ∀ acc d u, d.composable = some u → acc.any (fun g => g.1 = u) = true →
      f acc d = acc.map (fun g => if g.1 = u then (g.1, g.2 ++ ['@' :: d.name]) else g))
    (h2 : ∀ acc d u, d.composable = some u → acc.any (fun g => g.1 = u) = false → f acc d = acc ++ [(u, ['@' :: d.name])]) :
    ∀ (ds : List DirDef) (acc : List (Text × List Text)),
      ds.foldl f acc = acc.map (fun g => (g.1, g.2 ++ namesOf ds g.1)) ++
        (((urlsOf ds).eraseDups.filter (fun u => !acc.any (fun g => g.1 = u))).map (fun u => (u, namesOf ds u)))
  | [], acc => by simp [namesOf, urlsOf]
  | d :: ds, acc => by
    rw [List.foldl_cons, groups_char f h0 h1 h2 ds]
    cases hc : d.composable with
    | none =>
      rw [h0 acc d hc]
      have e1 : ∀ u, namesOf (d :: ds) u = namesOf ds u := by intro u; simp [namesOf, List.filter_cons, hc]
      have e2 : urlsOf (d :: ds) = urlsOf ds := by simp [urlsOf, List.filterMap_cons, hc]
      simp only [e1, e2]
    | some u =>
      have e1 : ∀ v, namesOf (d :: ds) v = if u = v then ('@' :: d.name) :: namesOf ds v else namesOf ds v := by
        intro v
        by_cases huv : u = v
        · subst huv; simp [namesOf, List.filter_cons, hc, importName]
        · simp [namesOf, List.filter_cons, hc, huv]
      have e2 : urlsOf (d :: ds) = u :: urlsOf ds := by simp [urlsOf, List.filterMap_cons, hc]
      have e3 : (urlsOf (d :: ds)).eraseDups = u :: ((urlsOf ds).eraseDups.filter (fun b => !b == u)) := by
        rw [e2, List.eraseDups_cons, eraseDups_filter _ _ _ (Nat.le_refl _)]
      rw [e3]
      cases hin : acc.any (fun g => g.1 = u)
      · -- a new group
        rw [h2 acc d u hc hin]
        have hnot : ∀ g ∈ acc, ¬ g.1 = u := by
          intro g hg e
          have : acc.any (fun g => g.1 = u) = true := List.any_eq_true.mpr ⟨g, hg, by simpa using e⟩
          rw [hin] at this; cases this
        have hA : acc.map (fun g => (g.1, g.2 ++ namesOf ds g.1)) = acc.map (fun g => (g.1, g.2 ++ namesOf (d :: ds) g.1)) := by
          apply List.map_congr_left
          intro g hg
          rw [e1, if_neg (fun e => hnot g hg e.symm)]
        have hB : ((urlsOf ds).eraseDups.filter (fun v => !(acc ++ [(u, ['@' :: d.name])]).any (fun g => g.1 = v))).map (fun v => (v, namesOf ds v)) =
            (((urlsOf ds).eraseDups.filter (fun b => !b == u)).filter (fun v => !acc.any (fun g => g.1 = v))).map (fun v => (v, namesOf (d :: ds) v)) := by
          rw [List.filter_filter]
          have hf : ∀ v, (!(acc ++ [(u, ['@' :: d.name])]).any (fun g => g.1 = v)) = ((!acc.any (fun g => g.1 = v)) && (!v == u)) := by
            intro v
            simp only [List.any_append, List.any_cons, List.any_nil, Bool.or_false, Bool.not_or]
            congr 1
            by_cases hvu : v = u
            · subst hvu; simp
            · have : ¬ u = v := fun e => hvu e.symm
              simp [hvu, this]
          simp only [hf]
          apply List.map_congr_left
          intro v hv
          have hvu : (!v == u) = true := by
            have := (List.mem_filter.mp hv).2
            simp only [Bool.and_eq_true] at this
            exact this.2
          have : ¬ u = v := by intro e; subst e; simp at hvu
          rw [e1, if_neg this]
        simp only [List.map_append, List.map_cons, List.map_nil, List.filter_cons, hin, Bool.not_false, if_true, List.append_assoc,
          List.cons_append, List.nil_append]
        rw [hA, hB, e1 u, if_pos rfl]
      · -- the group exists
        rw [h1 acc d u hc hin]
        have hA : (acc.map (fun g => if g.1 = u then (g.1, g.2 ++ ['@' :: d.name]) else g)).map (fun g => (g.1, g.2 ++ namesOf ds g.1)) =
            acc.map (fun g => (g.1, g.2 ++ namesOf (d :: ds) g.1)) := by
          rw [List.map_map]
          apply List.map_congr_left
          intro g _
          by_cases hg : g.1 = u
          · simp [hg, e1, List.append_assoc]
          · have : ¬ u = g.1 := fun e => hg e.symm
            simp [hg, e1, this]
        have hany : ∀ v, (acc.map (fun g => if g.1 = u then (g.1, g.2 ++ ['@' :: d.name]) else g)).any (fun g => g.1 = v) =
            acc.any (fun g => g.1 = v) := by
          intro v
          rw [List.any_map]
          congr 1
          funext g
          by_cases hg : g.1 = u <;> simp [hg]
        have hB : ((urlsOf ds).eraseDups.filter (fun v => !acc.any (fun g => g.1 = v))).map (fun v => (v, namesOf ds v)) =
            (((urlsOf ds).eraseDups.filter (fun b => !b == u)).filter (fun v => !acc.any (fun g => g.1 = v))).map (fun v => (v, namesOf (d :: ds) v)) := by
          rw [List.filter_filter]
          have hf : ∀ v, (!acc.any (fun g => g.1 = v)) = ((!acc.any (fun g => g.1 = v)) && (!v == u)) := by
            intro v
            by_cases hvu : v = u
            · subst hvu; simp [hin]
            · simp [hvu]
          have hflt : (urlsOf ds).eraseDups.filter (fun v => !acc.any (fun g => g.1 = v)) =
              (urlsOf ds).eraseDups.filter (fun v => (!acc.any (fun g => g.1 = v)) && (!v == u)) := by
            apply List.filter_congr
            intro v _
            exact hf v
          rw [hflt]
          apply List.map_congr_left
          intro v hv
          have hvu : (!v == u) = true := by
            have := (List.mem_filter.mp hv).2
            simp only [Bool.and_eq_true] at this
            exact this.2
          have : ¬ u = v := by intro e; subst e; simp at hvu
          rw [e1, if_neg this]
        simp only [hany, List.filter_cons, hin, Bool.not_true, Bool.false_eq_true, if_false]
        rw [hA, hB]

/-- the exporter's grouping loop computes the specification's link groups -/
theorem composeGroups_linkGroups (ds : List DirDef) : composeGroups ds = linkGroups ds := by
  unfold composeGroups
  rw [groups_char _ (by intro acc d h; simp only [h]) (by intro acc d u h hin; simp only [h, hin, if_true])
    (by intro acc d u h hin; simp only [h, hin, Bool.false_eq_true, if_false]) ds [], linkGroups_eq]
  have : ∀ l : List Text, l.filter (fun _ => true) = l := fun l => List.filter_eq_self.mpr (fun _ _ => rfl)
  simp [this]

end AGV.Lemmas.SdlSkeleton
