/-
  Property C13: `operation_type` read by the interpreter (the pair's text is the keyword), and the
  end of input.
-/
import AGV.Lemmas.PegC13SelDepth
namespace AGV.Lemmas.PegX
open AGV.Model.Peg AGV.Model.BuildAst AGV.Spec.Lex AGV.Core.PAst AGV.Lemmas.PegC13 AGV.Lemmas.SpecVal

def kwQuery : List Char := "query".toList
def kwMutation : List Char := "mutation".toList
def kwSubscription : List Char := "subscription".toList
theorem kwQuery_mem : kwQuery ∈ kwList := by decide
theorem kwMutation_mem : kwMutation ∈ kwList := by decide
theorem kwSubscription_mem : kwSubscription ∈ kwList := by decide

def opTypeRule : Rule := ⟨"operation_type", .normal, .choice (kwLit kwQuery) (.choice (kwLit kwMutation) (kwLit kwSubscription))⟩
set_option maxRecDepth 8000 in
theorem opType_ok : RuleOk "operation_type" opTypeRule := ⟨by rfl, by decide, by decide, by rfl, rfl, by decide⟩

/-- `query` | `mutation` | `subscription` -/
def qOpType : Sim OpType := fun ts =>
  match ts with
  | .name n :: r => (AGV.Spec.Parse.opTypeOf n).map (fun ty => (ty, r))
  | _ => none

theorem strict_qOpType : Strict qOpType := by
  intro ts a r h
  unfold qOpType at h
  split at h
  · rename_i n r'
    cases ho : AGV.Spec.Parse.opTypeOf n with
    | none => simp [ho] at h
    | some ty => simp [ho] at h; obtain ⟨-, rfl⟩ := h; simp
  · cases h

def bOpType : Bld OpType := fun s₀ ps ty =>
  ∃ pr, ps = [pr] ∧ pr.rule = "operation_type" ∧ opTypeOf (Env.asStr (envOf s₀) pr) = ty

theorem tKw_inv {x : List Char} {ts r : List Tok} (h : tKw x ts = some ((), r)) : ts = .name x :: r := by
  unfold tKw at h
  split at h
  · split at h
    · rename_i e; cases h; rw [e]
    · cases h
  · cases h

theorem tKw_none_inv {x : List Char} {ts : List Tok} (h : tKw x ts = none) : ∀ r, ts ≠ .name x :: r := by
  intro r e
  subst e
  simp [tKw] at h

theorem reads_opType (L : Nat) : Reads L (.ident "operation_type") 24 qOpType bOpType := by
  intro q t _ ht
  have h1 := kwLit_skip kwQuery kwQuery_mem q t ht
  have h2 := kwLit_skip kwMutation kwMutation_mem q t ht
  have h3 := kwLit_skip kwSubscription kwSubscription_mem q t ht
  have k1 := kwTok_toks kwQuery t ht
  have k2 := kwTok_toks kwMutation t ht
  have k3 := kwTok_toks kwSubscription t ht
  -- a keyword that matches
  have hit : ∀ (x : List Char) (ty : OpType) (r : List Char), x ∈ kwList → kwTok x t = some r →
      AGV.Spec.Parse.opTypeOf x = some ty → opTypeOf x = ty →
      EvR G0 c0 opTypeRule.expr q t (2 * t.length + 21) (.ok (q + x.length) r []) →
      ∃ res, EvR G0 c0 (.ident "operation_type") q t (24 * t.length + 24) res ∧
        ∀ s₀, At s₀ q t → Out qOpType bOpType s₀ q t res := by
    intro x ty r hx hk ho ho' hb
    have hev := ev_ruleOk opType_ok (r := opTypeRule) hb (K := 24 * t.length + 24) (by omega)
    have htxt := kwTok_text hx hk
    have hkt := kwTok_toks x t ht
    rw [hk] at hkt
    have htoks := tKw_inv hkt
    refine ⟨_, hev, fun s₀ hat => ?_⟩
    have hlen := congrArg List.length htxt
    simp only [List.length_append] at hlen
    refine Out.mk_some (a := ty) (ts' := toks r) (by rw [htoks]; simp [qOpType, ho]) (by omega) rfl ⟨x, htxt⟩
      ⟨_, rfl, rfl, ?_⟩
    have ha := asStr_at hat x.length "operation_type" []
    rw [htxt, List.take_left'] at ha
    · simp only [envOf] at ha ⊢; rw [ha]; exact ho'
    · rfl
  cases c1 : kwTok kwQuery t with
  | some r =>
    rw [c1] at h1
    exact hit kwQuery .query r kwQuery_mem c1 (by decide) (by decide) ((EvR.choice_l h1 (K := 2 * t.length + 20) (by omega)).mono (by omega))
  | none =>
    rw [c1] at h1 k1
    cases c2 : kwTok kwMutation t with
    | some r =>
      rw [c2] at h2
      exact hit kwMutation .mutation r kwMutation_mem c2 (by decide) (by decide)
        (EvR.choice_r h1 (EvR.choice_l h2 (Nat.lt_succ_self _)) (Nat.lt_succ_of_lt (Nat.lt_succ_self _)) (Nat.lt_succ_self _))
    | none =>
      rw [c2] at h2 k2
      cases c3 : kwTok kwSubscription t with
      | some r =>
        rw [c3] at h3
        exact hit kwSubscription .subscription r kwSubscription_mem c3 (by decide) (by decide)
          (EvR.choice_r h1 (EvR.choice_r h2 h3 (Nat.lt_succ_self _) (Nat.lt_succ_self _))
            (Nat.lt_succ_of_lt (Nat.lt_succ_self _)) (Nat.lt_succ_self _))
      | none =>
        rw [c3] at h3 k3
        have hb : EvR G0 c0 opTypeRule.expr q t (2 * t.length + 21) .fail :=
          EvR.choice_r h1 (EvR.choice_r h2 h3 (Nat.lt_succ_self _) (Nat.lt_succ_self _))
            (Nat.lt_succ_of_lt (Nat.lt_succ_self _)) (Nat.lt_succ_self _)
        have hev := ev_ruleOk opType_ok (r := opTypeRule) hb (K := 24 * t.length + 24) (by omega)
        rw [wrapN_fail] at hev
        refine ⟨.fail, hev, fun s₀ _ => Out.mk_none ?_⟩
        unfold qOpType
        split
        · rename_i n r e
          have n1 := tKw_none_inv k1 r
          have n2 := tKw_none_inv k2 r
          have n3 := tKw_none_inv k3 r
          rw [e] at n1 n2 n3
          have : AGV.Spec.Parse.opTypeOf n = none := by
            have e1 : ¬ n = AGV.Spec.Parse.kw "query" := fun e => n1 (by rw [e]; rfl)
            have e2 : ¬ n = AGV.Spec.Parse.kw "mutation" := fun e => n2 (by rw [e]; rfl)
            have e3 : ¬ n = AGV.Spec.Parse.kw "subscription" := fun e => n3 (by rw [e]; rfl)
            unfold AGV.Spec.Parse.opTypeOf
            rw [if_neg e1, if_neg e2, if_neg e3]
          rw [this]; rfl
        · rfl

-- ------------------------------------------------------------------ end of input

def tEOI : Sim Unit := fun ts =>
  match ts with
  | [] => some ((), [])
  | _ :: _ => none

def bEOI : Bld Unit := fun _ ps _ => ∃ p, ps = [Pair.mk "EOI" p p []]

theorem reads_eoi (L : Nat) (B : Nat) (hB : 1 ≤ B) : Reads L (.ident "EOI") B tEOI bEOI := by
  intro q t _ ht
  have hE : EvR G0 c0 (.ident "EOI") q t (24 * t.length + B) (eoiRes c0 q t) := EvR.eoi.mono (by omega)
  refine ⟨_, hE, fun s₀ _ => ?_⟩
  rcases toks_head t ht with ⟨rfl, h⟩ | ⟨hne, -, h⟩ | ⟨tok, rest, -, h, -⟩
  · exact Out.mk_some (a := ()) (ts' := toks []) (by rw [h]; rfl) (by simp) rfl ⟨[], rfl⟩ ⟨q, rfl⟩
  · obtain ⟨c, r, rfl⟩ := List.exists_cons_of_ne_nil hne
    exact Out.mk_none (by rw [h]; rfl)
  · have : t ≠ [] := by
      intro e; subst e
      have := toks_nil (s := []) rfl
      rw [this] at h; cases h
    obtain ⟨c, r, rfl⟩ := List.exists_cons_of_ne_nil this
    exact Out.mk_none (by rw [h]; rfl)
end AGV.Lemmas.PegX
