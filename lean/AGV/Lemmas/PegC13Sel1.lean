/-
  Property C13: the non-recursive parts of selections — the two lookaheads of `fragment_spread`
  (`!type_condition`, `!kw_on_only`), `type_condition`, `alias`, `fragment_spread`.
-/
import AGV.Lemmas.PegC13VarDefs
namespace AGV.Lemmas.PegX
open AGV.Model.Peg AGV.Model.BuildAst AGV.Spec.Lex AGV.Spec.Parse AGV.Core.PAst AGV.Lemmas.PegC13 AGV.Lemmas.SpecVal

/-- the reader succeeds without consuming iff `q` fails -/
def tNot {α : Type} (q : Sim α) : Sim Unit := fun ts =>
  match q ts with
  | some _ => none
  | none => some ((), ts)

theorem mono_not {α : Type} (q : Sim α) : Mono (tNot q) := by
  intro ts a r h
  simp only [tNot] at h
  cases hq : q ts with
  | none => simp [hq] at h; subst h; exact Nat.le_refl _
  | some x => simp [hq] at h

/-- a lookahead whose outcome is decided by the tokens -/
theorem reads_neg {α : Type} {L : Nat} {e : Expr} {B K : Nat} {qf : Sim α}
    (h : ∀ q t, TokStart t →
      (qf (toks t) = none ∧ EvR G0 { c0 with look := true } e q t (24 * t.length + B) .fail) ∨
      (∃ x p1 s1 ps1, qf (toks t) = some x ∧ EvR G0 { c0 with look := true } e q t (24 * t.length + B) (.ok p1 s1 ps1)))
    (hK : B < K) : Reads L (.neg e) K (tNot qf) bNil := by
  intro q t _ ht
  rcases h q t ht with ⟨h1, h2⟩ | ⟨x, p1, s1, ps1, h1, h2⟩
  · refine ⟨.ok q t [], EvR.neg_fail h2 (by omega), fun s₀ _ => ?_⟩
    exact Out.mk_some (a := ()) (ts' := toks t) (by simp [tNot, h1]) (by simp) rfl ⟨[], rfl⟩ rfl
  · exact ⟨.fail, EvR.neg_ok h2 (by omega), fun s₀ _ => Out.mk_none (by simp [tNot, h1])⟩

-- ------------------------------------------------------------------ `!kw_on_only`

def onOnlyRule : Rule := ⟨"kw_on_only", .atomic, .seq (kwLit onKw) (.neg nameContinue)⟩
set_option maxRecDepth 8000 in
theorem onOnly0 : findRule G0 "kw_on_only" = some onOnlyRule := by rfl

theorem onKw_mem : onKw ∈ kwList := by decide

theorem kwMatch_follow {x s r : List Char} (h : kwMatch x s = some r) : classStep pestNameCont r = none := by
  unfold kwMatch at h
  cases hm : matchStr x s with
  | none => simp [hm, bindE] at h
  | some t =>
    simp only [hm, bindE] at h
    cases hc : classStep pestNameCont t with
    | none => simp [hc, negOut] at h; rw [← h]; exact hc
    | some y => simp [hc, negOut] at h

theorem kwTok_follow {x t r : List Char} (hx : x ∈ kwList) (h : kwTok x t = some r) : classStep pestNameCont r = none := by
  obtain ⟨x0, xs, rfl, h0, hall⟩ := kwList_shape x hx
  rw [← kwMatch_lex x0 xs h0 hall] at h
  exact kwMatch_follow h

theorem ev_onOnly_look (q : Nat) (t : List Char) :
    EvR G0 { c0 with look := true } (.ident "kw_on_only") q t 16 (resOf (q + 2) (kwTok onKw t)) := by
  have hca : (bodyCtx { c0 with look := true } onOnlyRule).atom ≠ .non := by simp [bodyCtx, onOnlyRule]
  have hkw := kwLit_tight onKw onKw_mem (bodyCtx { c0 with look := true } onOnlyRule) hca q t
  have hlen : onKw.length = 2 := rfl
  rw [hlen] at hkw
  refine ev_rule_look rfl (by decide) (by decide) (by rfl) onOnly0 (N := 15) ?_ (by omega)
  cases hk : kwTok onKw t with
  | none =>
    rw [hk] at hkw
    exact EvR.seq_fail hkw (by omega)
  | some r =>
    rw [hk] at hkw
    have hf := kwTok_follow onKw_mem hk
    have hnc := ev_nameContE G0 { bodyCtx { c0 with look := true } onOnlyRule with look := true } r
    rw [hf] at hnc
    have hneg : EvR G0 (bodyCtx { c0 with look := true } onOnlyRule) (.neg nameContinue) (q + 2) r 4 (.ok (q + 2) r []) :=
      EvR.neg_fail (EvR.ofEv_fail hnc (q + 2)) (by omega)
    exact (EvR.seq_tight hca hkw hneg (by omega) (by omega)).cast rfl

theorem reads_notOn (L : Nat) : Reads L (.neg (.ident "kw_on_only")) 18 (tNot (tKw onKw)) bNil := by
  refine reads_neg (B := 16) (fun q t ht => ?_) (by omega)
  have h := (ev_onOnly_look q t).mono (show 16 ≤ 24 * t.length + 16 by omega)
  have hk := kwTok_toks onKw t ht
  cases hc : kwTok onKw t with
  | none => rw [hc] at h hk; exact Or.inl ⟨by rw [hk]; rfl, h⟩
  | some r => rw [hc] at h hk; exact Or.inr ⟨_, _, _, _, by rw [hk]; rfl, h⟩

-- ------------------------------------------------------------------ `type_condition`

def tcRule : Rule := ⟨"type_condition", .normal, .seq (kwLit onKw) (.ident "name")⟩
set_option maxRecDepth 8000 in
theorem tc_ok : RuleOk "type_condition" tcRule := ⟨by rfl, by decide, by decide, by rfl, rfl, by decide⟩

/-- `on Name` -/
def qTypeCond : Sim Name := tMap (fun x => x.2) (tSeq (tKw onKw) pName)

theorem strict_qTypeCond : Strict qTypeCond := strict_map (strict_seq (strict_kw onKw) strict_pName.mono)

def bTypeCond : Bld Name := fun s₀ ps n =>
  ∃ pr, ps = [pr] ∧ pr.rule = "type_condition" ∧ innerName (envOf s₀) pr = .ok n

theorem reads_typeCond (L : Nat) : Reads L (.ident "type_condition") 22 qTypeCond bTypeCond := by
  refine Reads.map _ (Reads.rule tc_ok (r := tcRule)
    (Reads.seq (Reads.kw L onKw onKw_mem 19 (Nat.le_refl _)) (Reads.name L 8 (Nat.le_refl _)) (K := 20)
      (by omega) (by omega) (by omega)) (K := 22) (by omega)) ?_
  rintro s₀ ps ⟨⟨⟩, n⟩ ⟨p, p1, inner, rfl, ps1, ps2, rfl, h1, a, b, rfl, hn⟩
  simp only [bNil] at h1
  subst h1
  exact ⟨_, rfl, rfl, by simp [innerName, inner_mk, hn]⟩

/-- `type_condition` inside a lookahead -/
theorem ev_tc_look (q : Nat) (t : List Char) (ht : TokStart t) :
    (qTypeCond (toks t) = none ∧
      EvR G0 { c0 with look := true } (.ident "type_condition") q t (24 * t.length + 22) .fail) ∨
    (∃ x p1 s1 ps1, qTypeCond (toks t) = some x ∧
      EvR G0 { c0 with look := true } (.ident "type_condition") q t (24 * t.length + 22) (.ok p1 s1 ps1)) := by
  have hkw : EvR G0 { c0 with look := true } (kwLit onKw) q t (2 * t.length + 19) (resOf (q + 2) (kwTok onKw t)) :=
    fun f hf => keyword_spec onKw onKw_mem { c0 with look := true } rfl q t ht f hf
  have hk := kwTok_toks onKw t ht
  have hbc : bodyCtx { c0 with look := true } tcRule = { c0 with look := true } := rfl
  cases hc : kwTok onKw t with
  | none =>
    rw [hc] at hkw hk
    left
    refine ⟨?_, ?_⟩
    · simp only [qTypeCond, tMap, tSeq]
      have : tKw onKw (toks t) = none := by rw [hk]; rfl
      rw [this]; rfl
    · refine ev_rule_look rfl (by decide) (by decide) (by rfl) tc_ok.find (N := 2 * t.length + 20) ?_ (by omega)
      rw [hbc]
      exact EvR.seq_fail hkw (by omega)
  | some r1 =>
    rw [hc] at hkw hk
    have hkw' : EvR G0 { c0 with look := true } (kwLit onKw) q t (2 * t.length + 19) (.ok (q + 2) r1 []) := hkw
    have hl1 : r1.length ≤ t.length := hkw'.consumes.len.1
    have hsl := skipI_len r1
    have hsk := ev_skipR tokRules0 { ({ c0 with look := true } : Ctx) with atom := .atomic } rfl (q + 2) r1
    have hname := ev_nameR tokRules0 { c0 with look := true } (q + 2 + (r1.length - (skipI r1).length)) (skipI r1)
    rw [nameRes_tok] at hname
    have hpn := pName_toks (skipI r1) (tokStart_skipI r1)
    rw [toks_skipI] at hpn
    have hkt : tKw onKw (toks t) = some ((), toks r1) := by rw [hk]; rfl
    cases hn : nameTok (skipI r1) with
    | none =>
      rw [hn] at hname hpn
      left
      refine ⟨?_, ?_⟩
      · simp only [qTypeCond, tMap, tSeq, hkt]
        have : pName (toks r1) = none := by rw [hpn]; rfl
        rw [this]; rfl
      · refine ev_rule_look rfl (by decide) (by decide) (by rfl) tc_ok.find (N := 2 * t.length + 20) ?_ (by omega)
        rw [hbc]
        exact (EvR.seq_skip rfl hkw' hsk hname (by omega) (by omega) (by omega)).cast rfl
    | some x =>
      obtain ⟨n, r2⟩ := x
      rw [hn] at hname hpn
      right
      have hname' : EvR G0 { c0 with look := true } (.ident "name") (q + 2 + (r1.length - (skipI r1).length)) (skipI r1)
          ((skipI r1).length + 8) (.ok (q + 2 + (r1.length - (skipI r1).length) + n.length) r2 []) :=
        hname.cast (by simp [emits])
      have hq : qTypeCond (toks t) = some (n, toks r2) := by
        simp only [qTypeCond, tMap, tSeq, hkt]
        have : pName (toks r1) = some (n, toks r2) := by rw [hpn]; rfl
        rw [this]; rfl
      have hev : EvR G0 { c0 with look := true } (.ident "type_condition") q t (24 * t.length + 22)
          (.ok (q + 2 + (r1.length - (skipI r1).length) + n.length) r2 []) := by
        refine ev_rule_look rfl (by decide) (by decide) (by rfl) tc_ok.find (N := 2 * t.length + 20) ?_ (by omega)
        rw [hbc]
        exact (EvR.seq_skip rfl hkw' hsk hname' (by omega) (by omega) (by omega)).cast rfl
      exact ⟨_, _, _, _, hq, hev⟩

theorem reads_notTC (L : Nat) : Reads L (.neg (.ident "type_condition")) 24 (tNot qTypeCond) bNil :=
  reads_neg (B := 22) (fun q t ht => ev_tc_look q t ht) (by omega)

-- ------------------------------------------------------------------ alias

def aliasRule : Rule := ⟨"alias", .normal, .seq (.ident "name") (.str [':'])⟩
theorem alias_ok : RuleOk "alias" aliasRule := ⟨by rfl, by decide, by decide, by rfl, rfl, by decide⟩

def qAlias : Sim Name := tMap (fun x => x.1) (tSeq pName (tPunct ':'))

theorem strict_qAlias : Strict qAlias := strict_map (strict_seq strict_pName (strict_punct ':').mono)

def bAlias : Bld Name := fun s₀ ps n => ∃ pr, ps = [pr] ∧ pr.rule = "alias" ∧ innerName (envOf s₀) pr = .ok n

theorem reads_alias (L : Nat) : Reads L (.ident "alias") 20 qAlias bAlias := by
  refine Reads.map _ (Reads.rule alias_ok (r := aliasRule)
    (Reads.seq (Reads.name L 8 (Nat.le_refl _)) (Reads.punct L ':' (by decide) 1 (Nat.le_refl _)) (K := 18)
      (by omega) (by omega) (by omega)) (K := 20) (by omega)) ?_
  rintro s₀ ps ⟨n, ⟨⟩⟩ ⟨p, p1, inner, rfl, ps1, ps2, rfl, ⟨a, b, rfl, hn⟩, h2⟩
  simp only [bNil] at h2
  subst h2
  exact ⟨_, rfl, rfl, by simp [innerName, inner_mk, hn]⟩
end AGV.Lemmas.PegX
