/-
  Property C13, token level: the induction that closes selection sets, then definitions and the
  document: `qDocument` is the specification's `pDefinitions`.
-/
import AGV.Lemmas.PegC13Q7
namespace AGV.Lemmas.PegX
open AGV.Model.Peg AGV.Model.BuildAst AGV.Spec.Lex AGV.Spec.Parse AGV.Core.PAst AGV.Lemmas.PegC13 AGV.Lemmas.SpecVal

theorem sel_finish {n : Nat} (ih : SelIH n) {ts : List Tok} (hts : ts.length ≤ n + 1) {L f : Nat} (hL : ts.length < L)
    (hf : ts.length < f + 1) {Xp : Outc PSel} (ha : Agree S4 (qSelection (qSelSet L) ts) Xp) :
    obind (qSelection (qSelSet L) ts) (qCont L) = obind Xp (pCont f) := by
  refine Agree.bind_eq' ha ?_ ?_ ?_
  · intro a r e1 _
    have hl := strict_qSelection _ (strict_qSelSet L).mono _ _ _ e1
    exact cont_eq ih L f a r (by omega) (by omega) (by omega)
  · intro a r _ hs; exact cont_stuck_q L a r hs
  · intro a r _ hs; exact cont_stuck_p f a r hs

theorem pSel_colon (f : Nat) (a : Name) (r' : List Tok) (h : ∀ n r'', r' ≠ .name n :: r'') :
    pSelections P' (f + 1) (.name a :: .punct ':' :: r') = none := by
  rw [pSel_F2 f a _ (fun n' r'' e => by cases e; exact h _ _ rfl)]
  unfold pFieldTail
  rw [pOptArgs_skip false _ (fun r e => by cases e)]
  simp only [obind]
  rw [pDirs_skip false _ (fun r e => by cases e)]
  simp only []
  rw [pOptSet_skip f _ (fun r e => by cases e)]
  simp only []
  unfold pCont
  rw [closeTok_none (fun r e => by cases e), pSel_other f _ (fun r e => by cases e) (fun n r e => by cases e)]
  rfl

theorem sel_main : ∀ n, SelIH n := by
  intro n
  induction n using Nat.strongRecOn with
  | _ n ih =>
    intro ts hn L f hL hf
    obtain ⟨f, rfl⟩ : ∃ k, f = k + 1 := ⟨f - 1, by omega⟩
    rw [sel_unfold]
    by_cases hnil : ts = []
    · subst hnil
      rw [qSel_other _ _ (fun r e => by cases e) (fun n r e => by cases e),
        pSel_other _ _ (fun r e => by cases e) (fun n r e => by cases e)]
      rfl
    have hpos : 0 < ts.length := List.length_pos_iff.2 hnil
    have ih' : SelIH (ts.length - 1) := ih (ts.length - 1) (by omega)
    have hts : ts.length ≤ (ts.length - 1) + 1 := by omega
    by_cases hsp : ∃ r, ts = .spread :: r
    · obtain ⟨r, rfl⟩ := hsp
      simp only [List.length_cons] at hn hL hf hts ih'
      by_cases hnm : ∃ nm r1, r = .name nm :: r1
      · obtain ⟨nm, r1, rfl⟩ := hnm
        simp only [List.length_cons] at hn hL hf hts ih'
        by_cases hon : nm = onKw
        · subst hon
          by_cases ht : ∃ t r2, r1 = .name t :: r2
          · obtain ⟨t, r2, rfl⟩ := ht
            simp only [List.length_cons] at hn hL hf hts ih'
            have hp := pSel_I1 f t r2
            rw [← onKw_eq] at hp
            rw [hp]
            refine sel_finish ih' (by simp only [List.length_cons]; omega) (by simp only [List.length_cons]; omega)
              (by simp only [List.length_cons]; omega) ?_
            rw [qSel_I1]
            exact Agree.of_eq (inlineTail_agree ih' (some t) r2 (by omega) (by omega) (by omega))
          · have hne : ∀ t r2, r1 ≠ .name t :: r2 := fun t r2 e => ht ⟨t, r2, e⟩
            have hp := pSel_I2 f r1 hne
            rw [← onKw_eq] at hp
            rw [hp, qSel_I2 _ (qSelSet_needs L) r1 hne]
            rfl
        · have hon' : nm ≠ kw "on" := hon
          rw [pSel_Sp f nm r1 hon']
          refine sel_finish ih' (by simp only [List.length_cons]; omega) (by simp only [List.length_cons]; omega)
            (by simp only [List.length_cons]; omega) ?_
          rw [qSel_Sp _ (qSelSet_needs L) nm r1 hon]
          exact spreadTail_agree nm r1
      · have hne : ∀ nm r1, r ≠ .name nm :: r1 := fun nm r1 e => hnm ⟨nm, r1, e⟩
        rw [pSel_I3 f r hne]
        refine sel_finish ih' (by simp only [List.length_cons]; omega) (by simp only [List.length_cons]; omega)
          (by simp only [List.length_cons]; omega) ?_
        rw [qSel_I3 _ r hne]
        exact Agree.of_eq (inlineTail_agree ih' none r (by omega) (by omega) (by omega))
    · by_cases hname : ∃ a r, ts = .name a :: r
      · obtain ⟨a, r, rfl⟩ := hname
        simp only [List.length_cons] at hn hL hf hts ih'
        by_cases hcol : ∃ r', r = .punct ':' :: r'
        · obtain ⟨r', rfl⟩ := hcol
          simp only [List.length_cons] at hn hL hf hts ih'
          by_cases hn2 : ∃ nm r'', r' = .name nm :: r''
          · obtain ⟨nm, r'', rfl⟩ := hn2
            simp only [List.length_cons] at hn hL hf hts ih'
            rw [pSel_F1]
            refine sel_finish ih' (by simp only [List.length_cons]; omega) (by simp only [List.length_cons]; omega)
              (by simp only [List.length_cons]; omega) ?_
            rw [qSelection_name, qField_F1]
            exact fieldTail_agree ih' (some a) nm r'' (by omega) (by omega) (by omega)
          · have hne : ∀ nm r'', r' ≠ .name nm :: r'' := fun nm r'' e => hn2 ⟨nm, r'', e⟩
            rw [pSel_colon f a r' hne, qSelection_name, qField_F3 _ a r' hne]
            rfl
        · have hne : ∀ r', r ≠ .punct ':' :: r' := fun r' e => hcol ⟨r', e⟩
          rw [pSel_F2 f a r (fun n' r' e => hne _ e)]
          refine sel_finish ih' (by simp only [List.length_cons]; omega) (by simp only [List.length_cons]; omega)
            (by simp only [List.length_cons]; omega) ?_
          rw [qSelection_name, qField_F2 _ a r hne]
          exact fieldTail_agree ih' none a r (by omega) (by omega) (by omega)
      · have h1 : ∀ r, ts ≠ .spread :: r := fun r e => hsp ⟨r, e⟩
        have h2 : ∀ a r, ts ≠ .name a :: r := fun a r e => hname ⟨a, r, e⟩
        rw [qSel_other _ ts h1 h2, pSel_other _ ts h1 h2]
        rfl

/-- the `selection_set` reader is the specification's `pSelectionSet` -/
theorem selSet_agree (L : Nat) (ts : List Tok) (hL : ts.length < L) : qSelSet L ts = pSelectionSet P' ts := by
  by_cases h : ∃ r, ts = .punct '{' :: r
  · obtain ⟨r, rfl⟩ := h
    simp only [List.length_cons] at hL
    rw [selSet_of_IH (sel_main r.length) (Nat.le_refl _) (L := L) (f := r.length + 1) (by omega) (by omega)]
    rfl
  · rw [qSelSet_needs L ts (fun r e => h ⟨r, e⟩)]
    unfold pSelectionSet
    split
    · rename_i r; exact absurd ⟨r, rfl⟩ h
    · rfl
end AGV.Lemmas.PegX
