/-
  C26: the compact JSON text of the serde_json model (`Model/Json.lean`, shared with C15) contains
  no raw carriage return, hence meets RFC 2046's condition on part bodies.  Core only.
-/
import AGV.Model.Json
import AGV.Lemmas.Multipart

namespace AGV.Lemmas.MultipartJson
open AGV.Model.Json AGV.Digits AGV.Model.Print

/-- float tokens (opaque in the JSON model) contain no raw carriage return -/
def floatsOk : Json → Prop
  | .float t => '\r' ∉ t
  | .arr xs => ∀ x ∈ xs, floatsOk x
  | .obj fs => ∀ kv ∈ fs, floatsOk kv.2
  | _ => True
termination_by x => sizeOf x
decreasing_by
  · have := List.sizeOf_lt_of_mem ‹_ ∈ xs›; simp; omega
  · rename_i h
    have := List.sizeOf_lt_of_mem h
    have : sizeOf kv.2 < sizeOf kv := by cases kv; simp; omega
    simp; omega

theorem lowerDigit_ne_cr : ∀ d, d < 16 → lowerDigit d ≠ '\r' := by decide

theorem esc_no_cr (c : Char) : '\r' ∉ jsonEscChar c := by
  unfold jsonEscChar
  repeat' split
  all_goals simp only [List.mem_cons, List.mem_nil_iff, or_false, not_or]
  all_goals try decide
  · rename_i h
    have h1 : c.toNat / 16 < 16 := by omega
    have h2 : c.toNat % 16 < 16 := by omega
    exact ⟨by decide, by decide, by decide, by decide,
      fun e => lowerDigit_ne_cr _ h1 e.symm, fun e => lowerDigit_ne_cr _ h2 e.symm⟩
  · rename_i h _ _; exact fun e => h e.symm

theorem jsonStr_no_cr (s : List Char) : '\r' ∉ jsonStr s := by
  unfold jsonStr
  intro h
  simp only [List.mem_cons, List.mem_append, List.mem_flatten, List.mem_map, List.mem_nil_iff, or_false] at h
  rcases h with (h | h) | h
  · exact absurd h (by decide)
  · obtain ⟨l, ⟨c, _, rfl⟩, h⟩ := h
    exact esc_no_cr c h
  · exact absurd h (by decide)

theorem joinComma_no_cr : ∀ xs : List (List Char), (∀ x ∈ xs, '\r' ∉ x) → '\r' ∉ joinComma xs
  | [], _ => by simp [joinComma]
  | [a], h => by simpa [joinComma] using h
  | a :: b :: r, h => by
    have ih := joinComma_no_cr (b :: r) (fun x hx => h x (List.mem_cons_of_mem _ hx))
    have ha := h a (List.mem_cons_self ..)
    simp only [joinComma, List.mem_append, List.mem_cons, List.mem_nil_iff, or_false, not_or]
    exact ⟨⟨ha, by decide⟩, ih⟩

theorem isDigit_ne_cr (c : Char) (h : isDigit c = true) : c ≠ '\r' := by
  intro e; subst e; simp [isDigit] at h

theorem intDigits_no_cr (i : Int) : '\r' ∉ intDigits i := by
  unfold intDigits
  split
  · simp only [List.mem_cons, not_or]
    exact ⟨by decide, fun h => isDigit_ne_cr _ (natDigits_all_digit _ _ h) rfl⟩
  · intro h; exact isDigit_ne_cr _ (natDigits_all_digit _ _ h) rfl

theorem jsonText_no_cr (x : Json) (hf : floatsOk x) : '\r' ∉ jsonText x := by
  fun_induction jsonText x
  · decide
  · decide
  · decide
  · exact intDigits_no_cr _
  · simpa [floatsOk] using hf
  · exact jsonStr_no_cr _
  · rename_i xs ih
    rw [floatsOk] at hf
    have := joinComma_no_cr (xs.map jsonText) (by
      intro t ht
      obtain ⟨x, hx, rfl⟩ := List.mem_map.1 ht
      exact ih x hx (hf x hx))
    intro h
    simp only [List.mem_cons, List.mem_append, List.mem_nil_iff, or_false] at h
    rcases h with (h | h) | h
    · exact absurd h (by decide)
    · exact this h
    · exact absurd h (by decide)
  · rename_i fs ih
    rw [floatsOk] at hf
    have := joinComma_no_cr (fs.map (fun kv => jsonStr kv.1 ++ [':'] ++ jsonText kv.2)) (by
      intro t ht
      obtain ⟨kv, hx, rfl⟩ := List.mem_map.1 ht
      intro h
      simp only [List.mem_cons, List.mem_append, List.mem_nil_iff, or_false] at h
      rcases h with (h | h) | h
      · exact jsonStr_no_cr _ h
      · exact absurd h (by decide)
      · exact ih kv hx (hf kv hx) h)
    intro h
    simp only [List.mem_cons, List.mem_append, List.mem_nil_iff, or_false] at h
    rcases h with (h | h) | h
    · exact absurd h (by decide)
    · exact this h
    · exact absurd h (by decide)

/-- the serde_json text of a JSON object (what a `Response` serialises to) meets RFC 2046's
    condition on part bodies -/
theorem jsonObject_safe (fs : List (List Char × Json)) (hf : floatsOk (.obj fs)) :
    AGV.Spec.Multipart.Safe (jsonText (.obj fs)) := by
  apply AGV.Lemmas.Multipart.safe_of_no_cr _ (jsonText_no_cr _ hf)
  rw [jsonText]
  simp [AGV.Lemmas.Multipart.dashBoundary_eq, List.isPrefixOf]

end AGV.Lemmas.MultipartJson
