/-
  Helper lemmas for C26: text search (`occurs`, `splitFirst`), the shape of the model's output,
  and the reader of `Spec/Multipart.lean` run on it.  Core only.
-/
import AGV.Model.MultipartObs

namespace AGV.Lemmas.Multipart
open AGV.Spec.Multipart AGV.Model.Multipart

-- ------------------------------------------------------------------ constants as literals

theorem dashBoundary_eq : dashBoundary = ['-','-','g','r','a','p','h','q','l'] := by decide
theorem delimiter_eq : delimiter = '\r' :: ['\n','-','-','g','r','a','p','h','q','l'] := by decide
theorem jsonHeaders_eq : jsonHeaders =
    ['C','o','n','t','e','n','t','-','T','y','p','e',':',' ','a','p','p','l','i','c','a','t','i','o','n','/','j','s','o','n'] := by
  decide

-- ------------------------------------------------------------------ searching

/-- a pattern that does not contain `p0` cannot reach across a `p0` -/
theorem isPrefixOf_stop (p0 : Char) : ∀ (q a rest : List Char), p0 ∉ q →
    q.isPrefixOf (a ++ p0 :: rest) = true → q.isPrefixOf a = true
  | [], _, _, _, _ => by simp [List.isPrefixOf]
  | x :: q, [], rest, hq, h => by
    simp only [List.nil_append, List.isPrefixOf, Bool.and_eq_true, beq_iff_eq] at h
    simp only [List.mem_cons, not_or] at hq
    exact absurd h.1.symm hq.1
  | x :: q, y :: a, rest, hq, h => by
    simp only [List.cons_append, List.isPrefixOf, Bool.and_eq_true, beq_iff_eq] at h ⊢
    simp only [List.mem_cons, not_or] at hq
    exact ⟨h.1, isPrefixOf_stop p0 q a rest hq.2 h.2⟩

theorem occurs_cons (pat : List Char) (c : Char) (t : List Char) :
    occurs pat (c :: t) = (pat.isPrefixOf (c :: t) || occurs pat t) := rfl

/-- if the first character of the pattern does not occur again in it and the pattern does not
    occur in `a`, the first occurrence in `a ++ pat ++ rest` is the one after `a` -/
theorem splitFirst_at (p0 : Char) (ps : List Char) (hp : p0 ∉ ps) (rest : List Char) :
    ∀ a : List Char, occurs (p0 :: ps) a = false →
      splitFirst (p0 :: ps) (a ++ (p0 :: ps) ++ rest) = some (a, rest)
  | [], _ => by
    simp [splitFirst, List.isPrefixOf]
  | c :: t, h => by
    rw [occurs_cons] at h
    simp only [Bool.or_eq_false_iff] at h
    have hno : (p0 :: ps).isPrefixOf (c :: t ++ (p0 :: ps) ++ rest) = false := by
      cases hh : (p0 :: ps).isPrefixOf (c :: t ++ (p0 :: ps) ++ rest) with
      | false => rfl
      | true =>
        exfalso
        simp [List.isPrefixOf] at hh
        have h2 : ps.isPrefixOf t = true := by
          apply isPrefixOf_stop p0 ps t (ps ++ rest) hp
          simpa using hh.2
        have h1 := h.1
        simp [List.isPrefixOf, hh.1, h2] at h1
    have ih := splitFirst_at p0 ps hp rest t h.2
    have e : c :: t ++ (p0 :: ps) ++ rest = c :: (t ++ (p0 :: ps) ++ rest) := by simp
    rw [e] at hno ⊢
    simp only [splitFirst, hno, ih]
    simp

theorem splitFirst_none (pat : List Char) : ∀ s : List Char, occurs pat s = false → splitFirst pat s = none
  | [], h => by simp [occurs] at h; simp [splitFirst, h]
  | c :: t, h => by
    rw [occurs_cons] at h
    simp only [Bool.or_eq_false_iff] at h
    simp [splitFirst, h.1, splitFirst_none pat t h.2]

-- ------------------------------------------------------------------ the model's output

theorem emit_resp (j : List Char) (r : List Ev) :
    emit (.resp j :: r) = dashBoundary ++ (crlf ++ (jsonHeaders ++ crlf ++ crlf ++ j) ++ crlf ++ emit r) := by
  simp [emit, pieces, piece, AGV.Gen.MultipartWire.onResponse, AGV.Gen.MultipartWire.partHeader,
    AGV.Gen.MultipartWire.crlf, dashBoundary_eq, jsonHeaders_eq, crlf]

theorem emit_tick (r : List Ev) : emit (.tick :: r) = emit (.resp ['{', '}'] :: r) := by
  simp [emit, pieces, piece, AGV.Gen.MultipartWire.onResponse, AGV.Gen.MultipartWire.onTick,
    AGV.Gen.MultipartWire.partHeader, AGV.Gen.MultipartWire.heartbeat, AGV.Gen.MultipartWire.crlf]

theorem emit_fin (r : List Ev) : emit (.fin :: r) = dashBoundary ++ ['-', '-', '\r', '\n'] := by
  simp [emit, pieces, piece, AGV.Gen.MultipartWire.onEnd, AGV.Gen.MultipartWire.eof, dashBoundary_eq]

theorem items_le_emit : ∀ evs : List Ev, (itemsOf evs).length ≤ (emit evs).length
  | [] => by simp [itemsOf]
  | .resp j :: r => by
    have := items_le_emit r
    rw [emit_resp]; simp [itemsOf, dashBoundary_eq]; omega
  | .tick :: r => by
    have := items_le_emit r
    rw [emit_tick, emit_resp]; simp [itemsOf, dashBoundary_eq]; omega
  | .fin :: r => by simp [itemsOf]

-- ------------------------------------------------------------------ the reader on one part

theorem occurs_hdr (b : List Char) :
    occurs delimiter (jsonHeaders ++ crlf ++ crlf ++ b) = occurs delimiter (crlf ++ b) := by
  simp [jsonHeaders_eq, crlf, delimiter_eq, occurs, List.isPrefixOf]

theorem mkPart_hdr (b : List Char) :
    mkPart (jsonHeaders ++ crlf ++ crlf ++ b) = { headers := jsonHeaders, body := b } := by
  simp [mkPart, jsonHeaders_eq, crlf, splitFirst, List.isPrefixOf]

theorem safe_heartbeat : Safe ['{', '}'] := by decide

theorem afterBoundary_step (fuel : Nat) (a t : List Char)
    (h : splitFirst delimiter (a ++ delimiter ++ t) = some (a, t)) :
    afterBoundary (fuel + 1) ('\r' :: '\n' :: (a ++ delimiter ++ t))
      = (mkPart a :: (afterBoundary fuel t).1, (afterBoundary fuel t).2.1, (afterBoundary fuel t).2.2) := by
  have c1 : ['-', '-'].isPrefixOf ('\r' :: '\n' :: (a ++ delimiter ++ t)) = false := by
    simp [List.isPrefixOf]
  have c2 : crlf.isPrefixOf ('\r' :: '\n' :: (a ++ delimiter ++ t)) = true := by
    simp [crlf, List.isPrefixOf]
  have c3 : ('\r' :: '\n' :: (a ++ delimiter ++ t)).drop 2 = a ++ delimiter ++ t := rfl
  rw [afterBoundary]
  simp only [c1, c2, c3, h]
  simp

/-- one complete part followed by a dash-boundary -/
theorem afterBoundary_part (fuel : Nat) (b t : List Char) (hb : Safe b) :
    afterBoundary (fuel + 1) (crlf ++ (jsonHeaders ++ crlf ++ crlf ++ b) ++ crlf ++ (dashBoundary ++ t))
      = ({ headers := jsonHeaders, body := b } :: (afterBoundary fuel t).1,
          (afterBoundary fuel t).2.1, (afterBoundary fuel t).2.2) := by
  have hsplit : splitFirst delimiter ((jsonHeaders ++ crlf ++ crlf ++ b) ++ delimiter ++ t)
      = some (jsonHeaders ++ crlf ++ crlf ++ b, t) := by
    rw [delimiter_eq]
    apply splitFirst_at
    · decide
    · rw [← delimiter_eq, occurs_hdr]; exact hb
  have e : crlf ++ (jsonHeaders ++ crlf ++ crlf ++ b) ++ crlf ++ (dashBoundary ++ t)
      = '\r' :: '\n' :: ((jsonHeaders ++ crlf ++ crlf ++ b) ++ delimiter ++ t) := by
    simp [crlf, delimiter]
  rw [e, afterBoundary_step fuel _ t hsplit, mkPart_hdr]

-- ------------------------------------------------------------------ the reader on the whole output

/-- ended stream: the output is a dash-boundary followed by text the reader turns into exactly
    the served items, closed, with nothing behind -/
theorem after_closed : ∀ evs : List Ev, ended evs = true → PayloadsSafe evs →
    ∀ fuel, (itemsOf evs).length < fuel →
      ∃ t, emit evs = dashBoundary ++ t ∧ afterBoundary fuel t = ((itemsOf evs).map partOf, true, [])
  | [], h, _, _, _ => by simp [ended] at h
  | .fin :: r, _, _, fuel, hf => by
    refine ⟨['-', '-', '\r', '\n'], emit_fin r, ?_⟩
    cases fuel with
    | zero => omega
    | succ f => simp [afterBoundary, itemsOf, crlf, List.isPrefixOf]
  | .resp j :: r, h, hs, fuel, hf => by
    cases fuel with
    | zero => omega
    | succ f =>
      have hf' : (itemsOf r).length < f := by simp [itemsOf] at hf; omega
      obtain ⟨t, ht, hr⟩ := after_closed r (by simpa [ended] using h) hs.2 f hf'
      refine ⟨_, by rw [emit_resp, ht], ?_⟩
      rw [afterBoundary_part f j t hs.1, hr]
      simp [itemsOf, partOf]
  | .tick :: r, h, hs, fuel, hf => by
    cases fuel with
    | zero => omega
    | succ f =>
      have hf' : (itemsOf r).length < f := by simp [itemsOf] at hf; omega
      obtain ⟨t, ht, hr⟩ := after_closed r (by simpa [ended] using h) hs f hf'
      refine ⟨_, by rw [emit_tick, emit_resp, ht], ?_⟩
      rw [afterBoundary_part f _ t safe_heartbeat, hr]
      simp [itemsOf, partOf]

theorem parseMixed_dash (t : List Char) :
    parseMixed (dashBoundary ++ t) =
      { preamble := [], parts := (afterBoundary ((dashBoundary ++ t).length + 1) t).1,
        closed := (afterBoundary ((dashBoundary ++ t).length + 1) t).2.1,
        rest := (afterBoundary ((dashBoundary ++ t).length + 1) t).2.2 } := by
  have c1 : dashBoundary.isPrefixOf (dashBoundary ++ t) = true := by
    simp [dashBoundary_eq, List.isPrefixOf]
  have c2 : (dashBoundary ++ t).drop dashBoundary.length = t := by simp
  simp only [parseMixed, c1, c2, if_true]

-- ------------------------------------------------------------------ a stream that has not ended

theorem occurs_append_stop (p0 : Char) (ps : List Char) (hp : p0 ∉ ps) (b : List Char)
    (hb : occurs (p0 :: ps) (p0 :: b) = false) :
    ∀ a : List Char, occurs (p0 :: ps) a = false → occurs (p0 :: ps) (a ++ p0 :: b) = false
  | [], _ => by simpa using hb
  | c :: t, h => by
    rw [occurs_cons] at h
    simp only [Bool.or_eq_false_iff] at h
    rw [List.cons_append, occurs_cons, occurs_append_stop p0 ps hp b hb t h.2, Bool.or_false]
    cases hh : (p0 :: ps).isPrefixOf (c :: (t ++ p0 :: b)) with
    | false => rfl
    | true =>
      exfalso
      simp only [List.isPrefixOf, Bool.and_eq_true, beq_iff_eq] at hh
      have h2 := isPrefixOf_stop p0 ps t b hp hh.2
      have h1 := h.1
      simp [List.isPrefixOf, hh.1, h2] at h1

/-- the text of the part that is still open -/
def openRest (ps : List Part) : List Char :=
  match ps.getLast? with
  | none => []
  | some p => crlf ++ p.headers ++ crlf ++ crlf ++ p.body ++ crlf

/-- the last part written so far has no delimiter behind it -/
theorem afterBoundary_last (fuel : Nat) (b : List Char) (hb : Safe b) :
    afterBoundary (fuel + 1) (crlf ++ (jsonHeaders ++ crlf ++ crlf ++ b) ++ crlf)
      = ([], false, crlf ++ (jsonHeaders ++ crlf ++ crlf ++ b) ++ crlf) := by
  have hocc : occurs delimiter ((jsonHeaders ++ crlf ++ crlf ++ b) ++ crlf) = false := by
    rw [delimiter_eq]
    apply occurs_append_stop
    · decide
    · decide
    · rw [← delimiter_eq, occurs_hdr]; exact hb
  have hnone := splitFirst_none _ _ hocc
  have e : crlf ++ (jsonHeaders ++ crlf ++ crlf ++ b) ++ crlf
      = '\r' :: '\n' :: ((jsonHeaders ++ crlf ++ crlf ++ b) ++ crlf) := by simp [crlf]
  rw [e]
  generalize (jsonHeaders ++ crlf ++ crlf ++ b) ++ crlf = a at hnone
  have c1 : ['-', '-'].isPrefixOf ('\r' :: '\n' :: a) = false := by simp [List.isPrefixOf]
  have c2 : crlf.isPrefixOf ('\r' :: '\n' :: a) = true := by simp [crlf, List.isPrefixOf]
  have c3 : ('\r' :: '\n' :: a).drop 2 = a := rfl
  rw [afterBoundary]
  simp only [c1, c2, c3, hnone]
  simp

theorem itemsOf_ne_nil : ∀ evs : List Ev, ended evs = false → evs ≠ [] → itemsOf evs ≠ []
  | [], _, h => absurd rfl h
  | .resp _ :: _, _, _ => by simp [itemsOf]
  | .tick :: _, _, _ => by simp [itemsOf]
  | .fin :: _, h, _ => by simp [ended] at h

theorem after_open : ∀ evs : List Ev, ended evs = false → PayloadsSafe evs → evs ≠ [] →
    ∀ fuel, (itemsOf evs).length < fuel →
      ∃ t, emit evs = dashBoundary ++ t ∧
        afterBoundary fuel t = (((itemsOf evs).map partOf).dropLast, false, openRest ((itemsOf evs).map partOf))
  | [], _, _, h, _, _ => absurd rfl h
  | .fin :: r, h, _, _, _, _ => by simp [ended] at h
  | .resp j :: r, h, hs, _, fuel, hf => by
    cases fuel with
    | zero => omega
    | succ f =>
      by_cases hr : r = []
      · subst hr
        refine ⟨_, by rw [emit_resp], ?_⟩
        simp only [emit, List.append_nil]
        rw [afterBoundary_last f j hs.1]
        simp [itemsOf, partOf, openRest]
      · have hf' : (itemsOf r).length < f := by simp [itemsOf] at hf; omega
        have he : ended r = false := by simpa [ended] using h
        obtain ⟨t, ht, hr'⟩ := after_open r he hs.2 hr f hf'
        have hne := itemsOf_ne_nil r he hr
        refine ⟨_, by rw [emit_resp, ht], ?_⟩
        rw [afterBoundary_part f j t hs.1, hr']
        have hne' : (itemsOf r).map partOf ≠ [] := by simpa using hne
        simp [itemsOf, openRest, List.dropLast_cons_of_ne_nil hne', List.getLast?_cons_of_ne_nil hne', partOf]
  | .tick :: r, h, hs, _, fuel, hf => by
    cases fuel with
    | zero => omega
    | succ f =>
      by_cases hr : r = []
      · subst hr
        refine ⟨_, by rw [emit_tick, emit_resp], ?_⟩
        simp only [emit, List.append_nil]
        rw [afterBoundary_last f _ safe_heartbeat]
        simp [itemsOf, partOf, openRest]
      · have hf' : (itemsOf r).length < f := by simp [itemsOf] at hf; omega
        have he : ended r = false := by simpa [ended] using h
        obtain ⟨t, ht, hr'⟩ := after_open r he hs hr f hf'
        have hne := itemsOf_ne_nil r he hr
        refine ⟨_, by rw [emit_tick, emit_resp, ht], ?_⟩
        rw [afterBoundary_part f _ t safe_heartbeat, hr']
        have hne' : (itemsOf r).map partOf ≠ [] := by simpa using hne
        simp [itemsOf, openRest, List.dropLast_cons_of_ne_nil hne', List.getLast?_cons_of_ne_nil hne', partOf]

-- ------------------------------------------------------------------ sufficient conditions for `Safe`

theorem occurs_no_head (p0 : Char) (ps : List Char) : ∀ s : List Char, p0 ∉ s → occurs (p0 :: ps) s = false
  | [], _ => by simp [occurs, List.isPrefixOf]
  | c :: t, h => by
    simp only [List.mem_cons, not_or] at h
    rw [occurs_cons, occurs_no_head p0 ps t h.2]
    have : (p0 == c) = false := by simpa using h.1
    simp [List.isPrefixOf, this]

/-- text without a raw carriage return that does not itself begin with the dash-boundary -/
theorem safe_of_no_cr (j : List Char) (hcr : '\r' ∉ j) (hstart : dashBoundary.isPrefixOf j = false) : Safe j := by
  unfold Safe
  have h2 : occurs delimiter ('\n' :: j) = false := by
    rw [delimiter_eq]; apply occurs_no_head
    simp only [List.mem_cons, not_or]; exact ⟨by decide, hcr⟩
  have e : crlf ++ j = '\r' :: '\n' :: j := rfl
  rw [e, occurs_cons, h2, Bool.or_false]
  have : delimiter.isPrefixOf ('\r' :: '\n' :: j) = dashBoundary.isPrefixOf j := by
    simp [delimiter, crlf, List.isPrefixOf]
  rw [this, hstart]

-- ------------------------------------------------------------------ the reader's fuel is enough

theorem splitFirst_length (pat : List Char) : ∀ (s a b : List Char), splitFirst pat s = some (a, b) → b.length ≤ s.length
  | [], a, b, h => by
    simp only [splitFirst] at h
    split at h <;> simp at h
    simp [h.2]
  | c :: t, a, b, h => by
    simp only [splitFirst] at h
    split at h
    · simp only [Option.some.injEq, Prod.mk.injEq] at h
      rw [← h.2]; simp
    · cases hh : splitFirst pat t with
      | none => simp [hh] at h
      | some ab =>
        obtain ⟨a', b'⟩ := ab
        simp only [hh, Option.some.injEq, Prod.mk.injEq] at h
        have := splitFirst_length pat t a' b' hh
        rw [← h.2]; simp; omega

/-- more fuel than characters never changes what the reader returns (`parseMixed` supplies
    `length + 1`) -/
theorem afterBoundary_fuel : ∀ (fuel : Nat) (s : List Char), s.length < fuel →
    afterBoundary (fuel + 1) s = afterBoundary fuel s
  | 0, _, h => by omega
  | f + 1, s, h => by
    rw [afterBoundary, afterBoundary.eq_def (f + 1)]
    simp only
    split
    · rfl
    · split
      · rename_i hc
        cases hs : splitFirst delimiter (s.drop 2) with
        | none => rfl
        | some pr =>
          obtain ⟨p, r⟩ := pr
          have hl := splitFirst_length _ _ _ _ hs
          have h2 : 2 ≤ s.length := by
            match s, hc with
            | _ :: _ :: _, _ => simp
          have : r.length < f := by simp at hl; omega
          simp only [afterBoundary_fuel f r this]
      · rfl

end AGV.Lemmas.Multipart
