/-
  C09 — the two value rules against §5.6 Values Of Correct Type: DefaultValuesOfCorrectType = its
  default-value half (relative to `DefaultsAgree`), ArgumentsOfCorrectType (repaired: it judges the
  argument as written, variables being acceptable anywhere; the pinned behaviour is the toggle
  `argsJudgedAfterSubstitution`) = its argument half, relative to `ArgLiteralsAgree`:
  `is_valid_input_value` over literals and §5.6.1 agree on the arguments that occur.
-/
import AGV.Lemmas.ValidateKnownArgs
set_option linter.unusedSectionVars false
set_option linter.unusedSimpArgs false
namespace AGV.Lemmas.ValidateRules
open AGV.Core AGV.Model.Validate AGV.Lemmas.ValidateWalk AGV.Lemmas.ValidateMachine AGV.Lemmas.ValidateSpecNodes
open AGV.Spec.Validate (tyDef litOk litOf violates_ValuesOfCorrectType argSites)

/-- §5.6 at one argument site: some given argument is not a literal of the declared type -/
def siteBadValue (S : VSchema) (s : Option (List ArgDef) × List (String × DValue)) : Bool :=
  match s.1 with
  | some defs => s.2.any (fun a => match defs.find? (·.name = a.1) with
      | some ad => !(litOk S Spec.Validate.valueFuel ad.ty a.2)
      | none => false)
  | none => false

/-- §5.6 for the default value of one variable definition -/
def varBadDefault (S : VSchema) (v : VarDef) : Bool :=
  match v.default with
  | some dv => (tyDef S v.ty.base).isSome && !(litOk S Spec.Validate.valueFuel v.ty (litOf dv))
  | none => false

/-- §5.6 Values Of Correct Type = its argument half or its default-value half -/
theorem valuesOfCorrectType_eq (S : VSchema) (d : Doc) :
    violates_ValuesOfCorrectType S d =
      ((argSites S d).any (siteBadValue S) || d.ops.any (fun o => o.vars.any (varBadDefault S))) := by
  rfl

/-- the implementation's `is_valid_input_value` and §5.6.1 agree on the default values of the document -/
def DefaultsAgree (S : VSchema) (d : Doc) : Prop :=
  ∀ o ∈ d.ops, ∀ v ∈ o.vars, ∀ dv, v.default = some dv →
    validInput S {} Model.Validate.valueFuel v.ty dv = litOk S Spec.Validate.valueFuel v.ty (litOf dv)

theorem base_of_nullable_named (t : TypeRef) (n : String) (h : t.nullable = .named n) : t.base = n := by
  cases t with
  | named m => simp_all [TypeRef.nullable, TypeRef.base]
  | list t => simp_all [TypeRef.nullable]
  | nonNull t => cases t <;> simp_all [TypeRef.nullable, TypeRef.base]

/-- DefaultValuesOfCorrectType = the default-value half of §5.6 Values Of Correct Type, up to
    variables whose type does not exist (reported by KnownTypeNames / §5.8.2) -/
theorem rule_default_values (S : VSchema) (d : Doc) (hs : Served S d) (hD : DefaultsAgree S d) :
    (Kind.invalidDefault ∈ (events S {} d).flatMap (stateless S {} d) ∨ varTypeUnknown S d) ↔
      (d.ops.any (fun o => o.vars.any (varBadDefault S)) = true ∨ varTypeUnknown S d) := by
  rw [mem_stateless_events]
  have h1 : ∀ f, Kind.invalidDefault ∉ fragOut S d f := by
    intro f; simp [fragOut, dirsOut, mem_stateless_enterFrag, mem_stateless_enterDir]
  have h3 : ∀ st s, Kind.invalidDefault ∉ nodeOut S d st s := by
    intro st s
    cases s <;> simp [nodeOut, dirsOut, mem_stateless_enterField, mem_stateless_enterSpread, mem_stateless_enterInline, mem_stateless_enterDir]
  simp only [h1, h3, and_false, exists_false, false_or, or_false]
  have hop : ∀ o ∈ d.ops, (Kind.invalidDefault ∈ opOut S d o ↔
      ∃ v ∈ o.vars, (¬ ∃ n, v.ty.nullable = .named n ∧ S.exists? n = false)
          ∧ ∃ dv, v.default = some dv ∧ validInput S {} Model.Validate.valueFuel v.ty dv = false) := by
    intro o ho
    have := hs o ho
    unfold opOut
    cases hr : rootOf S o.ty with
    | none => simp_all
    | some r =>
      simp only [List.mem_append, List.mem_flatMap, dirsOut, mem_stateless_enterOp, mem_stateless_enterVar, mem_stateless_enterDir]
      simp only [reduceCtorEq, false_and, or_false, false_or, exists_false, and_false, true_and]
  constructor
  · rintro (⟨o, ho, h⟩ | h)
    · obtain ⟨v, hv, hno, dv, hdv, hbad⟩ := (hop o ho).mp h
      by_cases hex : S.exists? v.ty.base = true
      · left
        simp only [List.any_eq_true]
        refine ⟨o, ho, v, hv, ?_⟩
        have hx : (tyDef S v.ty.base).isSome = true := hex
        simp [varBadDefault, hdv, hx, ← hD o ho v hv dv hdv, hbad]
      · right
        exact ⟨o, ho, v, hv, by simpa using hex⟩
    · exact Or.inr h
  · rintro (h | h)
    · simp only [List.any_eq_true] at h
      obtain ⟨o, ho, v, hv, hb⟩ := h
      unfold varBadDefault at hb
      cases hdv : v.default with
      | none => simp [hdv] at hb
      | some dv =>
        simp only [hdv, Bool.and_eq_true, Bool.not_eq_true'] at hb
        left
        refine ⟨o, ho, (hop o ho).mpr ⟨v, hv, ?_, dv, hdv, by rw [hD o ho v hv dv hdv]; exact hb.2⟩⟩
        rintro ⟨n, hn, hex⟩
        have := base_of_nullable_named _ _ hn
        rw [this] at hb
        have hx : (tyDef S n).isSome = false := hex
        simp [hx] at hb
    · exact Or.inr h

end AGV.Lemmas.ValidateRules

namespace AGV.Lemmas.ValidateRules
open AGV.Core AGV.Model.Validate AGV.Lemmas.ValidateWalk AGV.Lemmas.ValidateMachine AGV.Lemmas.ValidateSpecNodes
open AGV.Spec.Validate (tyDef fieldType litOk litOf litOfL litOfF varsIn varsInL varsInF argSites)

-- ------------------------------------------------------------------ variable-free literals

mutual
/-- the constant a variable-free literal denotes (`null` at a variable) -/
def constOf : DValue → GValue
  | .var _ => .null
  | .null => .null
  | .int i => .int i
  | .float t => .float t
  | .str s => .str s
  | .bool b => .bool b
  | .enum e => .enum e
  | .list xs => .list (constOfL xs)
  | .obj fs => .obj (constOfF fs)
def constOfL : List DValue → List GValue
  | [] => []
  | x :: xs => constOf x :: constOfL xs
def constOfF : List (String × DValue) → List (String × GValue)
  | [] => []
  | (k, x) :: xs => (k, constOf x) :: constOfF xs
end

mutual
/-- without variables, `into_const_with` returns the constant whatever the supplied variables are -/
theorem substVars_varFree (vars : List (String × GValue)) : (v : DValue) → varsIn v = [] →
    substVars vars v = some (constOf v) ∧ litOf (constOf v) = v
  | .var n => by simp [varsIn]
  | .null => by simp [substVars, constOf, litOf]
  | .int _ => by simp [substVars, constOf, litOf]
  | .float _ => by simp [substVars, constOf, litOf]
  | .str _ => by simp [substVars, constOf, litOf]
  | .bool _ => by simp [substVars, constOf, litOf]
  | .enum _ => by simp [substVars, constOf, litOf]
  | .list xs => by
    intro h
    have := substList_varFree vars xs (by simpa [varsIn] using h)
    simp [substVars, constOf, litOf, this.1, this.2]
  | .obj fs => by
    intro h
    have := substFields_varFree vars fs (by simpa [varsIn] using h)
    simp [substVars, constOf, litOf, this.1, this.2]
theorem substList_varFree (vars : List (String × GValue)) : (xs : List DValue) → varsInL xs = [] →
    substList vars xs = some (constOfL xs) ∧ litOfL (constOfL xs) = xs
  | [] => by simp [substList, constOfL, litOfL]
  | x :: xs => by
    intro h
    simp only [varsInL, List.append_eq_nil_iff] at h
    have h1 := substVars_varFree vars x h.1
    have h2 := substList_varFree vars xs h.2
    simp [substList, constOfL, litOfL, h1.1, h1.2, h2.1, h2.2]
theorem substFields_varFree (vars : List (String × GValue)) : (fs : List (String × DValue)) → varsInF fs = [] →
    substFields vars fs = some (constOfF fs) ∧ litOfF (constOfF fs) = fs
  | [] => by simp [substFields, constOfF, litOfF]
  | (k, x) :: fs => by
    intro h
    simp only [varsInF, List.append_eq_nil_iff] at h
    have h1 := substVars_varFree vars x h.1
    have h2 := substFields_varFree vars fs h.2
    simp [substFields, constOfF, litOfF, h1.1, h1.2, h2.1, h2.2]
end

def argsVarFree (args : List (String × DValue)) : Prop := ∀ a ∈ args, varsIn a.2 = []
def dirsVarFree (ds : List Dir) : Prop := ∀ dr ∈ ds, argsVarFree dr.args

/-- the arguments of the selection itself (not of its sub-selections) contain no variables -/
def selVarFree : Sel → Prop
  | .field _ _ args ds _ _ => argsVarFree args ∧ dirsVarFree ds
  | .spread _ ds _ => dirsVarFree ds
  | .inline _ ds _ _ => dirsVarFree ds

-- ------------------------------------------------------------------ the rule as a machine

abbrev ACState := Option (List ArgDef) × Bool

def acM (S : VSchema) (vars : List (String × GValue)) (opName : Option String) : Machine ACState where
  step st e := match e.ev with
    | .enterOp o => ((st.1, match opName, o.name with | some a, some b => a != b | _, _ => false), [])
    | .enterDir dr => (((S.dir? dr.name).map (·.args), st.2), [])
    | .exitDir _ => ((none, st.2), [])
    | .enterField _ n _ _ _ => (((e.par.bind (fun p => S.field? p n)).map (·.args), st.2), [])
    | .exitField => ((none, st.2), [])
    | .enterArg n v =>
      (st, match st.1.bind (fun ds => ds.find? (·.name = n)) with
        | some a => if validLit S {} Model.Validate.valueFuel a.ty v then [] else [Kind.argInvalid]
        | none => [])
    | _ => (st, [])

theorem ruleArgsCorrect_eq (S : VSchema) (vars opName) (cur unsel evs) :
    ruleArgsCorrect S {} vars opName cur unsel evs = (acM S vars opName).run (cur, unsel) evs := by
  induction evs generalizing cur unsel with
  | nil => simp [ruleArgsCorrect, Machine.run]
  | cons e es ih =>
    rcases e with ⟨ev, c, p⟩
    cases ev with
    | enterOp o =>
      simp only [ruleArgsCorrect, Machine.run_cons, ih]
      cases opName <;> cases h : o.name <;> simp [acM, h]
    | enterArg n v =>
      simp only [ruleArgsCorrect, Machine.run_cons, ih]
      cases h1 : cur.bind (fun ds => ds.find? (·.name = n)) with
      | none => simp [acM, h1]
      | some a => simp [acM, h1]
    | _ => simp [ruleArgsCorrect, Machine.run_cons, acM, ih]

/-- the verdict on the literal arguments of one site -/
def judgeVals (S : VSchema) (defs : Option (List ArgDef)) (args : List (String × DValue)) : List Model.Validate.Kind :=
  args.flatMap (fun a => match defs.bind (fun ds => ds.find? (·.name = a.1)) with
    | some ad => if validLit S {} Model.Validate.valueFuel ad.ty a.2 then [] else [Kind.argInvalid]
    | none => [])

theorem acM_args (S : VSchema) (vars opName) (st defs) (cur : Option (List ArgDef)) (u : Bool) (args : List (String × DValue)) :
    (acM S vars opName).run (cur, u) (walkArgs S {} st defs args) = judgeVals S cur args
    ∧ (acM S vars opName).final (cur, u) (walkArgs S {} st defs args) = (cur, u) := by
  induction args with
  | nil => exact ⟨rfl, rfl⟩
  | cons a as ih =>
    rw [walkArgs_cons]
    simp only [Machine.run_cons, Machine.final]
    have h1 : (acM S vars opName).step (cur, u) (mk st (.enterArg a.1 a.2)) =
        ((cur, u), match cur.bind (fun ds => ds.find? (·.name = a.1)) with
          | some ad => if validLit S {} Model.Validate.valueFuel ad.ty a.2 then [] else [Kind.argInvalid]
          | none => []) := by
      simp only [acM, mk]
    rw [h1]
    simp only []
    rw [show ∀ x, (acM S vars opName).step (cur, u) (mk st (.inputVars x)) = ((cur, u), []) from fun _ => rfl,
      show (acM S vars opName).step (cur, u) (mk st (.exitArg a.1)) = ((cur, u), []) from rfl]
    simp [ih.1, ih.2, judgeVals]

def dirsAC (S : VSchema) (ds : List Dir) : List Model.Validate.Kind :=
  ds.flatMap (fun dr => judgeVals S ((S.dir? dr.name).map (·.args)) dr.args)

theorem acM_dirs (S : VSchema) (vars opName) (st) (cur : Option (List ArgDef)) (u : Bool) (ds : List Dir) :
    (acM S vars opName).run (cur, u) (walkDirs S {} st ds) = dirsAC S ds
    ∧ ((acM S vars opName).final (cur, u) (walkDirs S {} st ds)).2 = u := by
  induction ds generalizing cur with
  | nil => exact ⟨rfl, rfl⟩
  | cons dr ds ih =>
    have ha := acM_args S vars opName st ((S.dir? dr.name).map (·.args)) ((S.dir? dr.name).map (·.args)) u dr.args
    rw [walkDirs_cons]
    simp only [Machine.run_cons, Machine.run_append, Machine.final, Machine.final_append, dirsAC, List.flatMap_cons]
    rw [show (acM S vars opName).step (cur, u) (mk st (.enterDir dr)) = (((S.dir? dr.name).map (·.args), u), []) from rfl]
    simp only [List.nil_append, ha.1, ha.2]
    rw [show (acM S vars opName).step ((S.dir? dr.name).map (·.args), u) (mk st (.exitDir dr)) = ((none, u), []) from rfl]
    simp only [List.nil_append]
    exact ⟨by rw [(ih none).1]; rfl, (ih none).2⟩


instance : DecidablePred argsVarFree := fun a => by unfold argsVarFree; infer_instance
instance : DecidablePred dirsVarFree := fun a => by unfold dirsVarFree; infer_instance
instance : DecidablePred selVarFree := fun s => by
  cases s <;> (unfold selVarFree; infer_instance)

end AGV.Lemmas.ValidateRules

namespace AGV.Lemmas.ValidateRules
open AGV.Core AGV.Model.Validate AGV.Lemmas.ValidateWalk AGV.Lemmas.ValidateMachine AGV.Lemmas.ValidateSpecNodes
open AGV.Spec.Validate (tyDef fieldType litOk litOf varsIn argSites)

def notACEv (e : Evt) : Bool := match e.ev with | .enterArg .. => false | _ => true
theorem acM_silent (S : VSchema) (vars opName) (s e) (h : notACEv e = true) : ((acM S vars opName).step s e).2 = [] := by
  rcases e with ⟨ev, c, p⟩
  cases ev <;> simp_all [acM, notACEv]

theorem notACEv_enterSet (st ss) : (enterSetEv st ss).all notACEv = true := by
  cases ss <;> simp [enterSetEv, notACEv, mk]
theorem notACEv_exitSet (st ss) : (exitSetEv st ss).all notACEv = true := by
  cases ss <;> simp [exitSetEv, notACEv, mk]
theorem notACEv_post (S : VSchema) (st sel) : (postEvents S st sel).all notACEv = true := by
  cases sel <;> simp [postEvents, notACEv_exitSet] <;> simp [notACEv, mk]

/-- what `ArgumentsOfCorrectType` reports at one selection whose own arguments are literals -/
def nodeAC (S : VSchema) (st : Stack) : Sel → List Model.Validate.Kind
  | .field _ n args ds _ _ => judgeVals S (fieldDefs S st n) args ++ dirsAC S ds
  | .spread _ ds _ => dirsAC S ds
  | .inline _ ds _ _ => dirsAC S ds

theorem acM_pre (S : VSchema) (vars opName) (s : ACState) (st sel) :
    (acM S vars opName).run s (preEvents S st sel) = nodeAC S st sel := by
  obtain ⟨c, u⟩ := s
  cases sel with
  | field al n args ds ss p =>
    simp only [preEvents, Machine.run_cons, Machine.run_append, nodeAC]
    rw [show (acM S vars opName).step (c, u) (mk st .enterSel) = ((c, u), []) from rfl]
    simp only [List.nil_append]
    rw [Machine.silent (acM S vars opName) notACEv (acM_silent S vars opName) _ (notACEv_enterSet _ _)]
    have hstep : (acM S vars opName).step (c, u) (mk (fieldTy S st n :: st) (.enterField al n args ds ss)) =
        ((fieldDefs S st n, u), []) := by
      simp only [acM, mk, par_cons, fieldDefs]
    rw [hstep]
    have ha := acM_args S vars opName (fieldTy S st n :: st) (fieldDefs S st n) (fieldDefs S st n) u args
    simp only [List.nil_append, ha.1, ha.2, List.append_nil]
    rw [(acM_dirs S vars opName _ _ u ds).1]
  | spread n ds p =>
    simp only [preEvents, Machine.run_cons, Machine.run_append, nodeAC, Machine.run_nil]
    rw [show (acM S vars opName).step (c, u) (mk st .enterSel) = ((c, u), []) from rfl]
    simp only [List.nil_append]
    rw [show (acM S vars opName).step (c, u) (mk st (.enterSpread n ds)) = ((c, u), []) from rfl]
    simp only [List.nil_append, (acM_dirs S vars opName _ _ u ds).1]
    simp [acM, mk]
  | inline cnd ds ss p =>
    simp only [preEvents, Machine.run_cons, Machine.run_append, nodeAC,
      Machine.silent (acM S vars opName) notACEv (acM_silent S vars opName) _ (notACEv_enterSet _ _)]
    rw [show (acM S vars opName).step (c, u) (mk st .enterSel) = ((c, u), []) from rfl]
    simp only [List.nil_append]
    rw [show (acM S vars opName).step (c, u) (mk (inlineSt S st cnd) (.enterInline cnd ds ss)) = ((c, u), []) from rfl]
    simp only [List.nil_append, (acM_dirs S vars opName _ _ u ds).1, List.append_nil]

/-- the arguments of the document (fields, directives everywhere) contain no variables -/
structure DocVarFree (d : Doc) : Prop where
  sels : ∀ s ∈ allSels d, selVarFree s
  frags : ∀ f ∈ d.frags, dirsVarFree f.dirs
  ops : ∀ o ∈ d.ops, dirsVarFree o.dirs

def opAC (S : VSchema) (o : OpDef) : List Model.Validate.Kind :=
  match rootOf S o.ty with
  | some _ => dirsAC S o.dirs
  | none => []

theorem ruleArgsCorrect_events (S : VSchema) (d : Doc) (vars opName) :
    ruleArgsCorrect S {} vars opName none false (events S {} d) =
      d.frags.flatMap (fun f => dirsAC S f.dirs ++ (visitsSels S (fragSt S f) f.sels).flatMap (fun v => nodeAC S v.1 v.2))
      ++ d.ops.flatMap (fun o => opAC S o ++ (opVisits S o).flatMap (fun v => nodeAC S v.1 v.2)) := by
  rw [ruleArgsCorrect_eq,
    Machine.run_events_on (acM S vars opName) S d (fun _ _ => True) (nodeAC S) (fun f => dirsAC S f.dirs) (opAC S)
      (fun s st sel _ => acM_pre S vars opName s st sel)
      (fun s st sel => Machine.silent (acM S vars opName) notACEv (acM_silent S vars opName) _ (notACEv_post S st sel) s)]
  · intro s f hf
    obtain ⟨c, u⟩ := s
    simp only [fragPre, Machine.run_cons, Machine.run_append,
      Machine.silent (acM S vars opName) notACEv (acM_silent S vars opName) _ (notACEv_enterSet _ _)]
    rw [show (acM S vars opName).step (c, u) (mk (fragSt S f) (.enterFrag f)) = ((c, u), []) from rfl]
    simp only [List.nil_append, (acM_dirs S vars opName _ _ u f.dirs).1, List.append_nil]
  · intro s f
    exact Machine.silent (acM S vars opName) notACEv (acM_silent S vars opName) _ (by simp [fragPost, notACEv_exitSet]; simp [notACEv, mk]) s
  · intro s o ho
    obtain ⟨c, u⟩ := s
    unfold opPre opAC
    cases rootOf S o.ty with
    | none => simp [acM, mk]
    | some r =>
      simp only [Machine.run_cons, Machine.run_append, Machine.final_append,
        Machine.silent (acM S vars opName) notACEv (acM_silent S vars opName) _ (notACEv_enterSet _ _)]
      rw [Machine.silent (acM S vars opName) notACEv (acM_silent S vars opName) (varEvents _ _) (by simp [varEvents, List.all_flatMap, notACEv, mk])]
      have hst : ∃ c' u', (acM S vars opName).final ((acM S vars opName).step (c, u) (mk [] (.enterOp o))).1 (varEvents (opSt S r) o.vars) = (c', u') :=
        ⟨_, _, rfl⟩
      obtain ⟨c', u', hst⟩ := hst
      rw [hst, (acM_dirs S vars opName _ _ u' o.dirs).1]
      simp [acM, mk]
  · intro s o
    exact Machine.silent (acM S vars opName) notACEv (acM_silent S vars opName) _ (by unfold opPost; cases rootOf S o.ty <;> simp [notACEv_exitSet] <;> simp [notACEv, mk]) s
  · intro s; simp [acM, mk]
  · intro _ _; trivial

end AGV.Lemmas.ValidateRules

namespace AGV.Lemmas.ValidateRules
open AGV.Core AGV.Model.Validate AGV.Lemmas.ValidateWalk AGV.Lemmas.ValidateMachine AGV.Lemmas.ValidateSpecNodes
open AGV.Spec.Validate (tyDef fieldType litOk litOf varsIn argSites)

/-- at this argument site `is_valid_input_value` over literals and §5.6.1 agree on the arguments given -/
def SiteAgree (S : VSchema) (s : Option (List ArgDef) × List (String × DValue)) : Prop :=
  ∀ a ∈ s.2, ∀ ad, s.1.bind (fun ds => ds.find? (·.name = a.1)) = some ad →
    validLit S {} Model.Validate.valueFuel ad.ty a.2 = litOk S Spec.Validate.valueFuel ad.ty a.2

theorem site_iff (S : VSchema) (defs : Option (List ArgDef)) (args : List (String × DValue)) (hA : SiteAgree S (defs, args)) :
    Kind.argInvalid ∈ judgeVals S defs args ↔ siteBadValue S (defs, args) = true := by
  simp only [judgeVals, List.mem_flatMap, siteBadValue]
  cases defs with
  | none => simp
  | some ds =>
    simp only [Option.bind_some, List.any_eq_true]
    constructor
    · rintro ⟨a, ha, h⟩
      refine ⟨a, ha, ?_⟩
      cases hf : ds.find? (·.name = a.1) with
      | none => simp [hf] at h
      | some ad =>
        simp only [hf] at h ⊢
        have := hA a ha ad (by simpa using hf)
        split at h
        · cases h
        · simp_all
    · rintro ⟨a, ha, h⟩
      refine ⟨a, ha, ?_⟩
      cases hf : ds.find? (·.name = a.1) with
      | none => simp [hf] at h
      | some ad =>
        simp only [hf] at h ⊢
        have := hA a ha ad (by simpa using hf)
        simp_all

theorem dirsAC_iff (S : VSchema) (ds : List Dir) (hA : ∀ s ∈ dirSites S ds, SiteAgree S s) :
    Kind.argInvalid ∈ dirsAC S ds ↔ (dirSites S ds).any (siteBadValue S) = true := by
  simp only [dirsAC, List.mem_flatMap, dirSites, List.any_map, List.any_eq_true, Function.comp]
  constructor
  · rintro ⟨dr, hdr, h⟩
    exact ⟨dr, hdr, (site_iff S _ _ (hA _ (by simp only [dirSites, List.mem_map]; exact ⟨dr, hdr, rfl⟩))).mp h⟩
  · rintro ⟨dr, hdr, h⟩
    exact ⟨dr, hdr, (site_iff S _ _ (hA _ (by simp only [dirSites, List.mem_map]; exact ⟨dr, hdr, rfl⟩))).mpr h⟩

theorem siteBadValue_nil (S : VSchema) (args) : siteBadValue S (some [], args) = false := by
  simp [siteBadValue]

theorem ac_agree (S : VSchema) (hT : TypedSchema S) (st : Stack) (parent : Option String) (s : Sel)
    (h : TyRel (Stack.cur st) parent) (hA : ∀ x ∈ selSites S (parent, s), SiteAgree S x) :
    Kind.argInvalid ∈ nodeAC S st s ↔ (selSites S (parent, s)).any (siteBadValue S) = true := by
  cases s with
  | spread n ds p => simp only [nodeAC, selSites] at hA ⊢; exact dirsAC_iff S ds hA
  | inline c ds ss p => simp only [nodeAC, selSites] at hA ⊢; exact dirsAC_iff S ds hA
  | field al n args ds ss p =>
    simp only [nodeAC, selSites, List.any_cons, Bool.or_eq_true, List.mem_append] at hA ⊢
    rw [dirsAC_iff S ds (fun x hx => hA x (List.mem_cons_of_mem _ hx))]
    apply or_congr_left
    have hA0 := hA _ List.mem_cons_self
    simp only [fieldDefs]
    by_cases hn' : n = "__typename"
    · subst hn'
      have h1 : ∀ c : Option String, c.bind (fun p => S.field? p "__typename") = none := by
        intro c; cases c <;> simp [hT.noTypenameField]
      rw [h1]
      cases parent with
      | none => simp [judgeVals, siteBadValue]
      | some p =>
        simp only [Option.bind_some, fieldType, if_true]
        by_cases hc : Spec.Validate.composite S p = true
        · simp [hc, judgeVals, siteBadValue]
        · simp [hc, judgeVals, siteBadValue]
    · rcases h with h | ⟨h1, h2⟩
      · rw [h]
        have hdefs : (parent.bind fun t => S.field? t n).map (·.args) = (parent.bind fun p => fieldType S p n).map (·.2) := by
          cases parent with
          | none => simp
          | some p =>
            simp only [Option.bind_some, ← field?_eq_fieldType S p n hn']
            cases S.field? p n <;> simp
        rw [hdefs]
        exact site_iff S _ _ hA0
      · rw [h1, h2]
        simp [hT.stringNoFields n, judgeVals, siteBadValue]

/-- `typed_exists_sels` with a correspondence that only holds at the selections of the list -/
theorem typed_exists_sels_mem (S : VSchema) (hT : TypedSchema S) (P : Stack × Sel → Prop) (Q : Option String × Sel → Prop)
    (st : Stack) (parent : Option String) (h : TyRel (Stack.cur st) parent) (ss : List Sel)
    (hPQ : ∀ st' parent' s, TyRel (Stack.cur st') parent' → (parent', s) ∈ specVisitsSels S parent ss → (P (st', s) ↔ Q (parent', s))) :
    (∃ v ∈ visitsSels S st ss, P v) ↔ (∃ w ∈ specVisitsSels S parent ss, Q w) := by
  have hmem : ∀ x ∈ pairSels S st parent ss, (x.2.1, x.2.2) ∈ specVisitsSels S parent ss := by
    intro x hx
    rw [← pairSels_right S st parent ss]
    exact List.mem_map_of_mem (f := fun x => x.2) hx
  rw [← pairSels_left S st parent ss, ← pairSels_right S st parent ss]
  simp only [List.mem_map]
  constructor
  · rintro ⟨v, ⟨x, hx, rfl⟩, hp⟩
    exact ⟨x.2, ⟨x, hx, rfl⟩, (hPQ x.1 x.2.1 x.2.2 (tyRel_pairSels S hT st parent h ss x hx) (hmem x hx)).mp hp⟩
  · rintro ⟨w, ⟨x, hx, rfl⟩, hq⟩
    exact ⟨(x.1, x.2.2), ⟨x, hx, rfl⟩, (hPQ x.1 x.2.1 x.2.2 (tyRel_pairSels S hT st parent h ss x hx) (hmem x hx)).mpr hq⟩

/-- `typed_exists` with a correspondence that only holds at the selections of the document -/
theorem typed_exists_mem (S : VSchema) (d : Doc) (hT : TypedSchema S) (hs : Served S d) (hr : RootsExist S d)
    (P : Stack × Sel → Prop) (Q : Option String × Sel → Prop)
    (hPQ : ∀ st parent s, TyRel (Stack.cur st) parent → (parent, s) ∈ specDocVisits S d → (P (st, s) ↔ Q (parent, s))) :
    (∃ v ∈ docVisits S d, P v) ↔ (∃ w ∈ specDocVisits S d, Q w) := by
  have hf : ∀ f ∈ d.frags, ((∃ v ∈ visitsSels S (fragSt S f) f.sels, P v) ↔
      (∃ w ∈ specVisitsSels S (if (tyDef S f.cond).isSome then some f.cond else none) f.sels, Q w)) := by
    intro f hfm
    apply typed_exists_sels_mem S hT P Q
    · left
      simp only [fragSt, Stack.cur, exists_eq_tyDef]
      by_cases hx : (tyDef S f.cond).isSome = true <;> simp [hx]
    · intro st' parent' s hty hm
      exact hPQ st' parent' s hty (by
        simp only [specDocVisits, List.mem_append, List.mem_flatMap]; exact Or.inr ⟨f, hfm, hm⟩)
  have ho : ∀ o ∈ d.ops, ((∃ v ∈ opVisits S o, P v) ↔ (∃ w ∈ specVisitsSels S (Spec.Validate.rootType S o.ty) o.sels, Q w)) := by
    intro o hom
    have h1 := hs o hom
    unfold opVisits
    cases hroot : rootOf S o.ty with
    | none => simp [hroot] at h1
    | some r =>
      simp only []
      apply typed_exists_sels_mem S hT P Q
      · left
        rw [← rootOf_eq, hroot]
        simp [opSt, Stack.cur, hr o hom r hroot]
      · intro st' parent' s hty hm
        exact hPQ st' parent' s hty (by
          simp only [specDocVisits, List.mem_append, List.mem_flatMap]; exact Or.inl ⟨o, hom, hm⟩)
  simp only [docVisits, specDocVisits, List.mem_append, List.mem_flatMap]
  constructor
  · rintro ⟨v, (⟨f, hf', hv⟩ | ⟨o, ho', hv⟩), hp⟩
    · obtain ⟨w, hw, hq⟩ := (hf f hf').mp ⟨v, hv, hp⟩
      exact ⟨w, Or.inr ⟨f, hf', hw⟩, hq⟩
    · obtain ⟨w, hw, hq⟩ := (ho o ho').mp ⟨v, hv, hp⟩
      exact ⟨w, Or.inl ⟨o, ho', hw⟩, hq⟩
  · rintro ⟨w, (⟨o, ho', hw⟩ | ⟨f, hf', hw⟩), hq⟩
    · obtain ⟨v, hv, hp⟩ := (ho o ho').mpr ⟨w, hw, hq⟩
      exact ⟨v, Or.inr ⟨o, ho', hv⟩, hp⟩
    · obtain ⟨v, hv, hp⟩ := (hf f hf').mpr ⟨w, hw, hq⟩
      exact ⟨v, Or.inl ⟨f, hf', hv⟩, hp⟩

/-- `is_valid_input_value` and §5.6.1 agree on every literal argument of the document -/
def ArgLiteralsAgree (S : VSchema) (d : Doc) : Prop := ∀ s ∈ argSites S d, SiteAgree S s

/-- ArgumentsOfCorrectType (repaired) = the argument half of §5.6 Values Of Correct Type -/
theorem rule_arguments_of_correct_type (S : VSchema) (d : Doc) (vars opName) (hT : TypedSchema S) (hs : Served S d)
    (hr : RootsExist S d) (hA : ArgLiteralsAgree S d) :
    Kind.argInvalid ∈ ruleArgsCorrect S {} vars opName none false (events S {} d) ↔
      (argSites S d).any (siteBadValue S) = true := by
  have hAsel : ∀ w ∈ specDocVisits S d, ∀ x ∈ selSites S w, SiteAgree S x := by
    intro w hw x hx
    apply hA
    rw [argSites_eq]
    simp only [List.mem_append, List.mem_flatMap]
    exact Or.inl (Or.inl ⟨w, hw, hx⟩)
  have hAop : ∀ o ∈ d.ops, ∀ x ∈ dirSites S o.dirs, SiteAgree S x := by
    intro o ho x hx
    apply hA; rw [argSites_eq]; simp only [List.mem_append, List.mem_flatMap]
    exact Or.inl (Or.inr ⟨o, ho, hx⟩)
  have hAfr : ∀ f ∈ d.frags, ∀ x ∈ dirSites S f.dirs, SiteAgree S x := by
    intro f hf x hx
    apply hA; rw [argSites_eq]; simp only [List.mem_append, List.mem_flatMap]
    exact Or.inr ⟨f, hf, hx⟩
  have hspec : (argSites S d).any (siteBadValue S) = true ↔
      (∃ w ∈ specDocVisits S d, (selSites S w).any (siteBadValue S) = true)
        ∨ (∃ o ∈ d.ops, (dirSites S o.dirs).any (siteBadValue S) = true)
        ∨ (∃ f ∈ d.frags, (dirSites S f.dirs).any (siteBadValue S) = true) := by
    simp only [argSites_eq, List.any_append, List.any_flatMap, Bool.or_eq_true, List.any_eq_true, or_assoc]
  rw [hspec, ← typed_exists_mem S d hT hs hr (fun v => Kind.argInvalid ∈ nodeAC S v.1 v.2)
    (fun w => (selSites S w).any (siteBadValue S) = true)
    (fun st parent s h hm => ac_agree S hT st parent s h (hAsel _ hm))]
  rw [ruleArgsCorrect_events S d vars opName, mem_folded (S := S) (d := d) (nodeAC S) (fun f => dirsAC S f.dirs) (opAC S)]
  have hop : ∀ o ∈ d.ops, opAC S o = dirsAC S o.dirs := by
    intro o ho
    have := hs o ho
    unfold opAC; cases hroot : rootOf S o.ty <;> simp_all
  constructor
  · rintro (⟨f, hf, h⟩ | ⟨o, ho, h⟩ | ⟨v, hv, h⟩)
    · exact Or.inr (Or.inr ⟨f, hf, (dirsAC_iff S f.dirs (hAfr f hf)).mp h⟩)
    · exact Or.inr (Or.inl ⟨o, ho, (dirsAC_iff S o.dirs (hAop o ho)).mp (hop o ho ▸ h)⟩)
    · exact Or.inl ⟨v, hv, h⟩
  · rintro (⟨v, hv, h⟩ | ⟨o, ho, h⟩ | ⟨f, hf, h⟩)
    · exact Or.inr (Or.inr ⟨v, hv, h⟩)
    · exact Or.inr (Or.inl ⟨o, ho, hop o ho ▸ (dirsAC_iff S o.dirs (hAop o ho)).mpr h⟩)
    · exact Or.inl ⟨f, hf, (dirsAC_iff S f.dirs (hAfr f hf)).mpr h⟩


/-- `SiteAgree` as a check -/
def siteAgreeB (S : VSchema) (s : Option (List ArgDef) × List (String × DValue)) : Bool :=
  s.2.all (fun a => match s.1.bind (fun ds => ds.find? (·.name = a.1)) with
    | some ad => validLit S {} Model.Validate.valueFuel ad.ty a.2 == litOk S Spec.Validate.valueFuel ad.ty a.2
    | none => true)

theorem siteAgreeB_iff (S : VSchema) (s : Option (List ArgDef) × List (String × DValue)) :
    siteAgreeB S s = true ↔ SiteAgree S s := by
  simp only [siteAgreeB, SiteAgree, List.all_eq_true]
  constructor
  · intro h a ha ad had
    have := h a ha
    simp only [had, beq_iff_eq] at this
    exact this
  · intro h a ha
    cases had : s.1.bind (fun ds => ds.find? (·.name = a.1)) with
    | none => rfl
    | some ad => simp only [beq_iff_eq]; exact h a ha ad had

instance (S : VSchema) (s : Option (List ArgDef) × List (String × DValue)) : Decidable (SiteAgree S s) :=
  decidable_of_iff _ (siteAgreeB_iff S s)
instance (S : VSchema) (d : Doc) : Decidable (ArgLiteralsAgree S d) := by unfold ArgLiteralsAgree; infer_instance

end AGV.Lemmas.ValidateRules

namespace AGV.Lemmas.ValidateRules
open AGV.Core AGV.Spec.Validate

section viol
variable (P : Params) (S : VSchema) (d : Doc) (vars : List (String × GValue)) (o : Option String)

theorem v_opNames (h : violates_OperationNameUniqueness d = true) : "5.2.1.1 Operation Name Uniqueness" ∈ violations P S d vars o :=
  (mem_violations ..).mpr (Or.inl ⟨rfl, h⟩)
theorem v_loneAnonymous (h : violates_LoneAnonymousOperation d = true) : "5.2.2.1 Lone Anonymous Operation" ∈ violations P S d vars o :=
  (mem_violations ..).mpr (Or.inr (Or.inl ⟨rfl, h⟩))
theorem v_singleRoot (h : violates_SingleRootField d (closureFuel d) = true) : "5.2.3.1 Single Root Field" ∈ violations P S d vars o :=
  (mem_violations ..).mpr (Or.inr (Or.inr (Or.inl ⟨rfl, h⟩)))
theorem v_merging (h : violates_FieldSelectionMerging S d = true) : "5.3.2 Field Selection Merging" ∈ violations P S d vars o :=
  (mem_violations ..).mpr (Or.inr (Or.inr (Or.inr (Or.inr (Or.inl ⟨rfl, h⟩)))))
theorem v_argNames (h : violates_ArgumentNames S d = true) : "5.4.1 Argument Names" ∈ violations P S d vars o :=
  (mem_violations ..).mpr (Or.inr (Or.inr (Or.inr (Or.inr (Or.inr (Or.inr (Or.inl ⟨rfl, h⟩)))))))
theorem v_fragNames (h : violates_FragmentNameUniqueness d = true) : "5.5.1.1 Fragment Name Uniqueness" ∈ violations P S d vars o :=
  (mem_violations ..).mpr (Or.inr (Or.inr (Or.inr (Or.inr (Or.inr (Or.inr (Or.inr (Or.inr (Or.inr (Or.inl ⟨rfl, h⟩))))))))))
theorem v_fragsUsed (h : violates_FragmentsMustBeUsed d = true) : "5.5.1.4 Fragments Must Be Used" ∈ violations P S d vars o :=
  (mem_violations ..).mpr (Or.inr (Or.inr (Or.inr (Or.inr (Or.inr (Or.inr (Or.inr (Or.inr (Or.inr (Or.inr (Or.inr (Or.inr (Or.inl ⟨rfl, h⟩)))))))))))))
theorem v_cycles (h : violates_FragmentSpreadsMustNotFormCycles d = true) :
    "5.5.2.2 Fragment Spreads Must Not Form Cycles" ∈ violations P S d vars o :=
  (mem_violations ..).mpr (Or.inr (Or.inr (Or.inr (Or.inr (Or.inr (Or.inr (Or.inr (Or.inr (Or.inr (Or.inr (Or.inr (Or.inr (Or.inr (Or.inr (Or.inl ⟨rfl, h⟩)))))))))))))))
theorem v_values (h : violates_ValuesOfCorrectType S d = true) : "5.6 Values Of Correct Type" ∈ violations P S d vars o :=
  (mem_violations ..).mpr (Or.inr (Or.inr (Or.inr (Or.inr (Or.inr (Or.inr (Or.inr (Or.inr (Or.inr (Or.inr (Or.inr (Or.inr (Or.inr (Or.inr (Or.inr (Or.inr (Or.inl ⟨rfl, h⟩)))))))))))))))))
theorem v_varsInput (h : violates_VariablesAreInputTypes S d = true) : "5.8.2 Variables Are Input Types" ∈ violations P S d vars o :=
  (mem_violations ..).mpr (Or.inr (Or.inr (Or.inr (Or.inr (Or.inr (Or.inr (Or.inr (Or.inr (Or.inr (Or.inr (Or.inr (Or.inr (Or.inr (Or.inr (Or.inr (Or.inr (Or.inr (Or.inr (Or.inr (Or.inr (Or.inr (Or.inl ⟨rfl, h⟩))))))))))))))))))))))
theorem v_usesDefined (h : violates_AllVariableUsesDefined d = true) : "5.8.3 All Variable Uses Defined" ∈ violations P S d vars o :=
  (mem_violations ..).mpr (Or.inr (Or.inr (Or.inr (Or.inr (Or.inr (Or.inr (Or.inr (Or.inr (Or.inr (Or.inr (Or.inr (Or.inr (Or.inr (Or.inr (Or.inr (Or.inr (Or.inr (Or.inr (Or.inr (Or.inr (Or.inr (Or.inr (Or.inl ⟨rfl, h⟩)))))))))))))))))))))))
theorem v_varsUsed (h : violates_AllVariablesUsed d = true) : "5.8.4 All Variables Used" ∈ violations P S d vars o :=
  (mem_violations ..).mpr (Or.inr (Or.inr (Or.inr (Or.inr (Or.inr (Or.inr (Or.inr (Or.inr (Or.inr (Or.inr (Or.inr (Or.inr (Or.inr (Or.inr (Or.inr (Or.inr (Or.inr (Or.inr (Or.inr (Or.inr (Or.inr (Or.inr (Or.inr (Or.inl ⟨rfl, h⟩))))))))))))))))))))))))
theorem v_usagesAllowed (h : violates_AllVariableUsagesAllowed S d = true) :
    "5.8.5 All Variable Usages Are Allowed" ∈ violations P S d vars o :=
  (mem_violations ..).mpr (Or.inr (Or.inr (Or.inr (Or.inr (Or.inr (Or.inr (Or.inr (Or.inr (Or.inr (Or.inr (Or.inr (Or.inr (Or.inr (Or.inr (Or.inr (Or.inr (Or.inr (Or.inr (Or.inr (Or.inr (Or.inr (Or.inr (Or.inr (Or.inr (Or.inl ⟨rfl, h⟩)))))))))))))))))))))))))
theorem v_varValues (h : violates_VariableValues S d vars o = true) : "6.1.2 Coercing Variable Values" ∈ violations P S d vars o :=
  (mem_violations ..).mpr (Or.inr (Or.inr (Or.inr (Or.inr (Or.inr (Or.inr (Or.inr (Or.inr (Or.inr (Or.inr (Or.inr (Or.inr (Or.inr (Or.inr (Or.inr (Or.inr (Or.inr (Or.inr (Or.inr (Or.inr (Or.inr (Or.inr (Or.inr (Or.inr (Or.inr (Or.inr (Or.inl ⟨rfl, h⟩)))))))))))))))))))))))))))
theorem v_notServed (h : violates_OperationTypeExists S d = true) : "operation type not served" ∈ violations P S d vars o :=
  (mem_violations ..).mpr (Or.inr (Or.inr (Or.inr (Or.inr (Or.inr (Or.inr (Or.inr (Or.inr (Or.inr (Or.inr (Or.inr (Or.inr (Or.inr (Or.inr (Or.inr (Or.inr (Or.inr (Or.inr (Or.inr (Or.inr (Or.inr (Or.inr (Or.inr (Or.inr (Or.inr (Or.inr (Or.inr (⟨rfl, h⟩))))))))))))))))))))))))))))

end viol
end AGV.Lemmas.ValidateRules

