/-
  Property C13: the grammar's `string` rule (block strings and quoted strings, with the repair of
  the empty-string-before-quote defect) against the specification's `lexBlock` / `lexString`:
  same acceptance, same rest, and the content pair spans exactly the raw content.
-/
import AGV.Lemmas.PegC13Tok2
import AGV.Lemmas.Literal
import AGV.Lemmas.ParseC13Block
namespace AGV.Lemmas.PegX
open AGV.Model.Peg AGV.Model.BuildAst AGV.Spec.Lex AGV.Spec.Literal AGV.Lemmas.PegC13 AGV.Model.Print

-- ------------------------------------------------------------------ more `Ev` combinators

theorem Ev.insens (g c l s) : Ev g c (.insens l) s 1 (matchInsens l s) := by
  intro f hf p
  obtain ⟨f, rfl⟩ : ∃ k, f = k + 1 := ⟨f - 1, by omega⟩
  simp only [eval]
  cases matchInsens l s <;> rfl

theorem Ev.range (g c lo hi s) :
    Ev g c (.range lo hi) s 1 (classStep (fun ch => lo.toNat ≤ ch.toNat && ch.toNat ≤ hi.toNat) s) := by
  intro f hf p
  obtain ⟨f, rfl⟩ : ∃ k, f = k + 1 := ⟨f - 1, by omega⟩
  simp only [eval]
  cases s with
  | nil => rfl
  | cons ch r => simp only [classStep]; split <;> rfl

theorem Ev.repN_one {g c a s N K X} (ha : Ev g c a s N X) (hN : N < K) : Ev g c (.repN 1 a) s K X := by
  intro f hf p
  obtain ⟨f, rfl⟩ : ∃ k, f = k + 1 := ⟨f - 1, by omega⟩
  simp only [eval]
  exact ha f (by omega) p

theorem Ev.repN_succ {g c a s N K X} (k : Nat) (ha : Ev g c (.seq a (.repN (k + 1) a)) s N X) (hN : N < K) :
    Ev g c (.repN (k + 2) a) s K X := by
  intro f hf p
  obtain ⟨f, rfl⟩ : ∃ k, f = k + 1 := ⟨f - 1, by omega⟩
  simp only [eval]
  exact ha f (by omega) p

theorem ev_hex (g : Grammar) (c : Ctx) (s : List Char) :
    Ev g c (.ident "ASCII_HEX_DIGIT") s 1 (classStep isAsciiHex s) :=
  Ev.cls g c _ _ s (by decide) (by decide) (by rfl)

theorem ev_any (g : Grammar) (c : Ctx) (s : List Char) :
    Ev g c (.ident "ANY") s 1 (classStep (fun _ => true) s) :=
  Ev.cls g c _ _ s (by decide) (by decide) (by rfl)

def hex4Step (s : List Char) : Option (List Char) :=
  bindE (classStep isAsciiHex s) (fun r1 => bindE (classStep isAsciiHex r1) (fun r2 =>
    bindE (classStep isAsciiHex r2) (fun r3 => classStep isAsciiHex r3)))

theorem ev_hex4 (g : Grammar) (c : Ctx) (hc : c.atom = .atomic) (s : List Char) :
    Ev g c (.repN 4 (.ident "ASCII_HEX_DIGIT")) s 8 (hex4Step s) := by
  have e1 : ∀ r3, Ev g c (.repN 1 (.ident "ASCII_HEX_DIGIT")) r3 2 (classStep isAsciiHex r3) :=
    fun r3 => Ev.repN_one (ev_hex g c r3) (by omega)
  have e2 : ∀ r2, Ev g c (.repN 2 (.ident "ASCII_HEX_DIGIT")) r2 4
      (bindE (classStep isAsciiHex r2) (fun r3 => classStep isAsciiHex r3)) :=
    fun r2 => Ev.repN_succ 0 (N := 3) (Ev.seq_bind hc (ev_hex g c r2) (fun r3 _ => e1 r3) (by omega) (by omega)) (by omega)
  have e3 : ∀ r1, Ev g c (.repN 3 (.ident "ASCII_HEX_DIGIT")) r1 6
      (bindE (classStep isAsciiHex r1) (fun r2 => bindE (classStep isAsciiHex r2) (fun r3 => classStep isAsciiHex r3))) :=
    fun r1 => Ev.repN_succ 1 (N := 5) (Ev.seq_bind hc (ev_hex g c r1) (fun r2 _ => e2 r2) (by omega) (by omega)) (by omega)
  exact Ev.repN_succ 2 (N := 7) (Ev.seq_bind hc (ev_hex g c s) (fun r1 _ => e3 r1) (by omega) (by omega)) (by omega)

-- ------------------------------------------------------------------ block strings

structure StrRules (g : Grammar) : Prop where
  bsContent : findRule g "block_string_content" = some AGV.Gen.Grammar.r_block_string_content
  bsChar : findRule g "block_string_character" = some AGV.Gen.Grammar.r_block_string_character
  content : findRule g "string_content" = some AGV.Gen.Grammar.r_string_content
  char : findRule g "string_character" = some AGV.Gen.Grammar.r_string_character
  ush : findRule g "unicode_scalar_value_hex" = some AGV.Gen.Grammar.r_unicode_scalar_value_hex

def tq : List Char := ['"', '"', '"']
def etq : List Char := ['\\', '"', '"', '"']

/-- one `block_string_character` -/
def bsStep (s : List Char) : Option (List Char) :=
  orE (bindE (negOut s (orE (matchStr tq s) (matchStr etq s))) (classStep (fun _ => true))) (matchStr etq s)

theorem ev_bsChar {g : Grammar} (S : StrRules g) (c : Ctx) (hc : c.atom = .atomic) (s : List Char) :
    Ev g c (.ident "block_string_character") s 6 (bsStep s) := by
  refine Ev.rule (by decide) (by decide) (by rfl) S.bsChar ?_ (Nat.lt_succ_self 5)
  have hb : bodyCtx c AGV.Gen.Grammar.r_block_string_character = c := rfl
  rw [hb]
  exact Ev.choice_or
    (Ev.seq_bind hc (Ev.neg (Ev.choice_or (Ev.str _ _ _ _) (Ev.str _ _ _ _) (Nat.lt_succ_self 1) (Nat.lt_succ_self 1))
      (Nat.lt_succ_self 2)) (fun r _ => ev_any g c r) (Nat.lt_succ_self 3) (by omega))
    (Ev.str _ _ _ _) (Nat.lt_succ_self 4) (by omega)

/-- raw content of a block string (escapes kept) and the text after the closing quotes -/
def splitBlock : List Char → Option (List Char × List Char)
  | [] => none
  | '"' :: '"' :: '"' :: r => some ([], r)
  | '\\' :: '"' :: '"' :: '"' :: r =>
    match splitBlock r with
    | some (v, rest) => some ('\\' :: '"' :: '"' :: '"' :: v, rest)
    | none => none
  | c :: r =>
    match splitBlock r with
    | some (v, rest) => some (c :: v, rest)
    | none => none

theorem matchStr_none_of {l s : List Char} (h : ∀ r, s ≠ l ++ r) : matchStr l s = none := by
  cases hm : matchStr l s with
  | none => rfl
  | some r => exact absurd (matchStr_append _ _ _ hm) (h r)

theorem bsStep_tq (r : List Char) : bsStep (tq ++ r) = none := by
  simp [bsStep, tq, etq, matchStr, orE, negOut, bindE]

theorem bsStep_etq (r : List Char) : bsStep (etq ++ r) = some r := by
  simp [bsStep, tq, etq, matchStr, orE, negOut, bindE]

theorem bsStep_other (c : Char) (r : List Char) (h1 : matchStr tq (c :: r) = none)
    (h2 : matchStr etq (c :: r) = none) : bsStep (c :: r) = some r := by
  simp [bsStep, h1, h2, orE, negOut, bindE, classStep]

theorem bsStep_nil : bsStep [] = none := by
  simp [bsStep, tq, etq, matchStr, orE, negOut, bindE, classStep]

theorem bsStep_lt (s r : List Char) (h : bsStep s = some r) : r.length < s.length := by
  cases s with
  | nil => rw [bsStep_nil] at h; cases h
  | cons c t =>
    cases h1 : matchStr tq (c :: t) with
    | some x => rw [matchStr_append _ _ _ h1, bsStep_tq] at h; cases h
    | none =>
      cases h2 : matchStr etq (c :: t) with
      | some x =>
        rw [matchStr_append _ _ _ h2, bsStep_etq] at h; cases h
        rw [matchStr_append _ _ _ h2]; simp [etq]; omega
      | none => rw [bsStep_other c t h1 h2] at h; cases h; simp

theorem splitBlock_cases (s : List Char) :
    (∃ r, s = tq ++ r ∧ splitBlock s = some ([], r)) ∨
    (∃ r, s = etq ++ r ∧ splitBlock s = (splitBlock r).map (fun x => (etq ++ x.1, x.2))) ∨
    (∃ c r, s = c :: r ∧ matchStr tq s = none ∧ matchStr etq s = none ∧
      splitBlock s = (splitBlock r).map (fun x => (c :: x.1, x.2))) ∨
    (s = [] ∧ splitBlock s = none) := by
  generalize hs : splitBlock s = X
  unfold splitBlock at hs
  split at hs
  · exact Or.inr (Or.inr (Or.inr ⟨rfl, hs.symm⟩))
  · exact Or.inl ⟨_, rfl, hs.symm⟩
  · refine Or.inr (Or.inl ⟨_, rfl, ?_⟩)
    rw [← hs]
    cases splitBlock _ with
    | none => rfl
    | some x => rfl
  · rename_i c r h1 h2
    refine Or.inr (Or.inr (Or.inl ⟨c, r, rfl, ?_, ?_, ?_⟩))
    · exact matchStr_none_of (fun r' e => by simp [tq] at e; exact h1 r' e.1 e.2)
    · exact matchStr_none_of (fun r' e => by simp [etq] at e; exact h2 r' e.1 e.2)
    · rw [← hs]
      cases splitBlock r with
      | none => rfl
      | some x => rfl

/-- scanning `block_string_character*` stops exactly at the closing quotes `splitBlock` finds, and
    where there are none the closing `"""` cannot match -/
theorem blockScan (n : Nat) (s : List Char) (hn : s.length ≤ n) :
    (∀ raw rest, splitBlock s = some (raw, rest) → iter bsStep n s = tq ++ rest ∧ s = raw ++ tq ++ rest) ∧
    (splitBlock s = none → matchStr tq (iter bsStep n s) = none) := by
  induction n generalizing s with
  | zero =>
    cases s with
    | nil => simp [splitBlock, iter, tq, matchStr]
    | cons _ _ => simp at hn
  | succ n ih =>
    rcases splitBlock_cases s with ⟨r, rfl, hs⟩ | ⟨r, rfl, hs⟩ | ⟨c, r, rfl, h1, h2, hs⟩ | ⟨rfl, hs⟩
    · rw [hs]; simp [iter, bsStep_tq]
    · have hl : r.length ≤ n := by simp [etq] at hn; omega
      obtain ⟨i1, i2⟩ := ih r hl
      rw [hs]
      simp only [iter, bsStep_etq]
      constructor
      · intro raw rest h
        cases hr : splitBlock r with
        | none => simp [hr] at h
        | some x =>
          obtain ⟨raw', rest'⟩ := x
          simp [hr] at h
          obtain ⟨rfl, rfl⟩ := h
          obtain ⟨j1, j2⟩ := i1 _ _ hr
          exact ⟨j1, by rw [j2]; simp⟩
      · intro h
        cases hr : splitBlock r with
        | none => exact i2 hr
        | some x => simp [hr] at h
    · have hl : r.length ≤ n := by simp at hn; omega
      obtain ⟨i1, i2⟩ := ih r hl
      rw [hs]
      simp only [iter, bsStep_other c r h1 h2]
      constructor
      · intro raw rest h
        cases hr : splitBlock r with
        | none => simp [hr] at h
        | some x =>
          obtain ⟨raw', rest'⟩ := x
          simp [hr] at h
          obtain ⟨rfl, rfl⟩ := h
          obtain ⟨j1, j2⟩ := i1 _ _ hr
          exact ⟨j1, by rw [j2]; simp⟩
      · intro h
        cases hr : splitBlock r with
        | none => exact i2 hr
        | some x => simp [hr] at h
    · rw [hs]; simp [iter, bsStep_nil, tq, matchStr]

theorem lexBlock_tq (r : List Char) : lexBlock (tq ++ r) = some ([], r) := by
  simp [tq, lexBlock]

theorem lexBlock_etq (r : List Char) :
    lexBlock (etq ++ r) = (lexBlock r).map (fun x => ('"' :: '"' :: '"' :: x.1, x.2)) := by
  simp only [etq, List.cons_append, List.nil_append, lexBlock]
  cases lexBlock r with
  | none => rfl
  | some x => rfl

theorem lexBlock_other (c : Char) (r : List Char) (h1 : matchStr tq (c :: r) = none)
    (h2 : matchStr etq (c :: r) = none) : lexBlock (c :: r) = (lexBlock r).map (fun x => (c :: x.1, x.2)) := by
  have e1 : ∀ r', c :: r ≠ '"' :: '"' :: '"' :: r' := fun r' e => by
    rw [(matchStr_iff tq _ r').2 (by simpa [tq] using e)] at h1; cases h1
  have e2 : ∀ r', c :: r ≠ '\\' :: '"' :: '"' :: '"' :: r' := fun r' e => by
    rw [(matchStr_iff etq _ r').2 (by simpa [etq] using e)] at h2; cases h2
  rw [lexBlock.eq_def]
  split
  · rename_i e; cases e
  · rename_i e; exact absurd e (e1 _)
  · rename_i e; exact absurd e (e2 _)
  · rename_i c' r' _ _ e
    cases e
    cases lexBlock r with
    | none => rfl
    | some x => rfl

theorem matchStr_prefix_none (l a b : List Char) (hl : l.length ≤ a.length) (h : matchStr l (a ++ b) = none) :
    matchStr l a = none := by
  induction l generalizing a with
  | nil => simp [matchStr] at h
  | cons x l ih =>
    cases a with
    | nil => simp at hl
    | cons y a =>
      simp only [List.cons_append, matchStr] at h ⊢
      split
      · rename_i e; rw [if_pos e] at h; exact ih a (by simp at hl; omega) h
      · rfl

/-- the specification's `lexBlock` finds the same closing quotes, and reads the raw content alone
    (followed by the closing quotes) to the same value -/
theorem lexBlock_raw (s : List Char) :
    (∀ raw rest, splitBlock s = some (raw, rest) →
      ∃ v, lexBlock s = some (v, rest) ∧ lexBlock (raw ++ tq) = some (v, [])) ∧
    (splitBlock s = none → lexBlock s = none) := by
  induction hn : s.length using Nat.strongRecOn generalizing s with
  | _ n ih =>
    rcases splitBlock_cases s with ⟨r, rfl, hs⟩ | ⟨r, rfl, hs⟩ | ⟨c, r, rfl, h1, h2, hs⟩ | ⟨rfl, hs⟩
    · rw [hs]
      refine ⟨fun raw rest h => ?_, fun h => by cases h⟩
      cases h
      exact ⟨[], lexBlock_tq _, by simpa using lexBlock_tq []⟩
    · obtain ⟨i1, i2⟩ := ih r.length (by subst hn; simp [etq]; omega) r rfl
      rw [hs, lexBlock_etq]
      constructor
      · intro raw rest h
        cases hr : splitBlock r with
        | none => simp [hr] at h
        | some x =>
          obtain ⟨raw', rest'⟩ := x
          simp [hr] at h
          obtain ⟨rfl, rfl⟩ := h
          obtain ⟨v, j1, j2⟩ := i1 _ _ hr
          refine ⟨'"' :: '"' :: '"' :: v, by rw [j1]; rfl, ?_⟩
          rw [List.append_assoc, lexBlock_etq, j2]; rfl
      · intro h
        cases hr : splitBlock r with
        | none => rw [i2 hr]; rfl
        | some x => simp [hr] at h
    · obtain ⟨i1, i2⟩ := ih r.length (by subst hn; simp) r rfl
      rw [hs, lexBlock_other c r h1 h2]
      constructor
      · intro raw rest h
        cases hr : splitBlock r with
        | none => simp [hr] at h
        | some x =>
          obtain ⟨raw', rest'⟩ := x
          simp [hr] at h
          obtain ⟨rfl, rfl⟩ := h
          obtain ⟨v, j1, j2⟩ := i1 _ _ hr
          obtain ⟨-, k2⟩ := (blockScan r.length r (Nat.le_refl _)).1 _ _ hr
          refine ⟨c :: v, by rw [j1]; rfl, ?_⟩
          have e : c :: r = (c :: (raw' ++ tq)) ++ rest' := by rw [k2]; simp
          rw [e] at h1 h2
          have g1 := matchStr_prefix_none tq _ _ (by simp [tq]) h1
          have g2 := matchStr_prefix_none etq _ _ (by simp [etq, tq]) h2
          rw [List.cons_append, lexBlock_other c _ g1 g2, j2]; rfl
      · intro h
        cases hr : splitBlock r with
        | none => rw [i2 hr]; rfl
        | some x => simp [hr] at h
    · rw [hs]
      refine ⟨?_, fun _ => rfl⟩
      intro raw rest h
      cases h

-- ------------------------------------------------------------------ quoted strings

theorem lower_d (h : Char) : (lowerAscii 'd' = lowerAscii h) ↔ (h = 'd' ∨ h = 'D') := by
  have e0 : lowerAscii 'd' = 'd' := by decide
  have key : ∀ k, k < 26 → (Char.ofNat (k + 65 + 32)).toNat = k + 65 + 32 := by decide
  have e1 : 'd'.toNat = 100 := by decide
  have e2 : 'D'.toNat = 68 := by decide
  rw [e0]
  unfold lowerAscii
  split
  · rename_i hu
    simp only [Bool.and_eq_true, decide_eq_true_eq] at hu
    have hk := key (h.toNat - 65) (by omega)
    have e : h.toNat - 65 + 65 = h.toNat := by omega
    rw [e] at hk
    rw [AGV.Lemmas.Literal.char_eq_iff, AGV.Lemmas.Literal.char_eq_iff h, AGV.Lemmas.Literal.char_eq_iff h, hk, e1, e2]
    omega
  · rename_i hu
    simp only [Bool.and_eq_true, decide_eq_true_eq] at hu
    rw [AGV.Lemmas.Literal.char_eq_iff, AGV.Lemmas.Literal.char_eq_iff h, AGV.Lemmas.Literal.char_eq_iff h, e1, e2]
    omega

def escStep (r : List Char) : Option (List Char) :=
  orE (matchStr ['"'] r) (orE (matchStr ['\\'] r) (orE (matchStr ['/'] r) (orE (matchStr ['b'] r)
    (orE (matchStr ['f'] r) (orE (matchStr ['n'] r) (orE (matchStr ['r'] r) (matchStr ['t'] r)))))))

def hiStep (r1 : List Char) : Option (List Char) :=
  orE (classStep (fun ch => '8'.toNat ≤ ch.toNat && ch.toNat ≤ '9'.toNat) r1)
    (orE (classStep (fun ch => 'a'.toNat ≤ ch.toNat && ch.toNat ≤ 'f'.toNat) r1)
      (classStep (fun ch => 'A'.toNat ≤ ch.toNat && ch.toNat ≤ 'F'.toNat) r1))

def surStep (r : List Char) : Option (List Char) := bindE (matchInsens ['d'] r) hiStep

def ushStep (r : List Char) : Option (List Char) := bindE (negOut r (surStep r)) hex4Step

/-- one `string_character` -/
def scStep (s : List Char) : Option (List Char) :=
  orE (bindE (negOut s (orE (matchStr ['"'] s) (orE (matchStr ['\\'] s) (ltStep s)))) (classStep (fun _ => true)))
    (orE (bindE (matchStr ['\\'] s) escStep) (bindE (matchStr ['\\', 'u'] s) ushStep))

theorem ev_ush {g : Grammar} (S : StrRules g) (c : Ctx) (hc : c.atom = .atomic) (s : List Char) :
    Ev g c (.ident "unicode_scalar_value_hex") s 10 (ushStep s) := by
  refine Ev.rule (by decide) (by decide) (by rfl) S.ush ?_ (Nat.lt_succ_self 9)
  have hb : bodyCtx c AGV.Gen.Grammar.r_unicode_scalar_value_hex = c := rfl
  rw [hb]
  have hcl : ({ c with look := true } : Ctx).atom = .atomic := hc
  refine Ev.seq_bind hc (N := 5) (M := 8) (Ev.neg (N := 4) ?_ (by omega)) (fun r _ => ev_hex4 g c hc r) (by omega) (by omega)
  exact Ev.seq_bind hcl (Ev.insens _ _ _ _) (fun r1 _ =>
    Ev.choice_or (Ev.range _ _ _ _ _) (Ev.choice_or (Ev.range _ _ _ _ _) (Ev.range _ _ _ _ _)
      (Nat.lt_succ_self 1) (Nat.lt_succ_self 1)) (by omega) (Nat.lt_succ_self 2)) (by omega) (by omega)

theorem ev_scChar {g : Grammar} (T : TokRules g) (S : StrRules g) (c : Ctx) (hc : c.atom = .atomic) (s : List Char) :
    Ev g c (.ident "string_character") s 15 (scStep s) := by
  refine Ev.rule (by decide) (by decide) (by rfl) S.char ?_ (Nat.lt_succ_self 14)
  have hb : bodyCtx c AGV.Gen.Grammar.r_string_character = c := rfl
  rw [hb]
  have hA : Ev g c (.seq (.neg (.choice (.str ['"']) (.choice (.str ['\\']) (.ident "line_terminator")))) (.ident "ANY")) s 8
      (bindE (negOut s (orE (matchStr ['"'] s) (orE (matchStr ['\\'] s) (ltStep s)))) (classStep (fun _ => true))) :=
    Ev.seq_bind hc (N := 7) (Ev.neg (N := 6) (Ev.choice_or (Ev.str _ _ _ _) (Ev.choice_or (Ev.str _ _ _ _) (ev_lt T _ s)
      (by omega) (Nat.lt_succ_self 4)) (by omega) (Nat.lt_succ_self 5)) (by omega)) (fun r _ => ev_any g c r) (by omega) (by omega)
  have hB : Ev g c (.seq (.str ['\\']) (.choice (.str ['"']) (.choice (.str ['\\']) (.choice (.str ['/'])
      (.choice (.str ['b']) (.choice (.str ['f']) (.choice (.str ['n']) (.choice (.str ['r']) (.str ['t']))))))))) s 10
      (bindE (matchStr ['\\'] s) escStep) :=
    Ev.seq_bind hc (M := 8) (Ev.str _ _ _ _) (fun r _ =>
      Ev.choice_or (Ev.str _ _ _ _) (Ev.choice_or (Ev.str _ _ _ _) (Ev.choice_or (Ev.str _ _ _ _)
        (Ev.choice_or (Ev.str _ _ _ _) (Ev.choice_or (Ev.str _ _ _ _) (Ev.choice_or (Ev.str _ _ _ _)
          (Ev.choice_or (Ev.str _ _ _ _) (Ev.str _ _ _ _) (Nat.lt_succ_self 1) (Nat.lt_succ_self 1))
          (by omega) (Nat.lt_succ_self 2)) (by omega) (Nat.lt_succ_self 3)) (by omega) (Nat.lt_succ_self 4))
        (by omega) (Nat.lt_succ_self 5)) (by omega) (Nat.lt_succ_self 6)) (by omega) (Nat.lt_succ_self 7))
      (by omega) (by omega)
  have hC : Ev g c (.seq (.str ['\\', 'u']) (.ident "unicode_scalar_value_hex")) s 11
      (bindE (matchStr ['\\', 'u'] s) ushStep) :=
    Ev.seq_bind hc (Ev.str _ _ _ _) (fun r _ => ev_ush S c hc r) (by omega) (by omega)
  exact Ev.choice_or hA (Ev.choice_or hB hC (K := 12) (by omega) (by omega)) (by omega) (by omega)

theorem scStep_nil : scStep [] = none := by
  simp [scStep, matchStr, ltStep, orE, negOut, bindE, classStep]

theorem scStep_quote (r : List Char) : scStep ('"' :: r) = none := by
  simp [scStep, matchStr, orE, negOut, bindE]

theorem ltStep_some (c : Char) (r : List Char) (h : c = '\n' ∨ c = '\r') : ∃ x, ltStep (c :: r) = some x := by
  rcases h with rfl | rfl
  · exact ⟨r, by simp [ltStep, matchStr, orE]⟩
  · cases r with
    | nil => exact ⟨[], by simp [ltStep, matchStr, orE]⟩
    | cons d r' =>
      by_cases hd : d = '\n'
      · subst hd; exact ⟨r', by simp [ltStep, matchStr, orE]⟩
      · have hd' : ¬ '\n' = d := fun e => hd e.symm
        exact ⟨d :: r', by simp [ltStep, matchStr, orE, hd']⟩

theorem ltStep_none (c : Char) (r : List Char) (h1 : c ≠ '\n') (h2 : c ≠ '\r') : ltStep (c :: r) = none := by
  simp [ltStep, matchStr, orE, Ne.symm h1, Ne.symm h2]

theorem scStep_lt (c : Char) (r : List Char) (h : c = '\n' ∨ c = '\r') : scStep (c :: r) = none := by
  obtain ⟨x, hx⟩ := ltStep_some c r h
  have h1 : ¬ '"' = c := by rcases h with rfl | rfl <;> decide
  have h2 : ¬ '\\' = c := by rcases h with rfl | rfl <;> decide
  simp [scStep, matchStr, orE, negOut, bindE, hx, h1, h2]

theorem scStep_plain (c : Char) (r : List Char) (h1 : c ≠ '"') (h2 : c ≠ '\\') (h3 : c ≠ '\n') (h4 : c ≠ '\r') :
    scStep (c :: r) = some r := by
  simp [scStep, matchStr, orE, negOut, bindE, ltStep_none c r h3 h4, Ne.symm h1, Ne.symm h2, classStep]

theorem escStep_cons (e : Char) (r : List Char) : escStep (e :: r) = if isSimpleEsc e then some r else none := by
  simp only [escStep, matchStr, isSimpleEsc]
  by_cases a1 : e = '"'; · subst a1; rfl
  by_cases a2 : e = '\\'; · subst a2; rfl
  by_cases a3 : e = '/'; · subst a3; rfl
  by_cases a4 : e = 'b'; · subst a4; rfl
  by_cases a5 : e = 'f'; · subst a5; rfl
  by_cases a6 : e = 'n'; · subst a6; rfl
  by_cases a7 : e = 'r'; · subst a7; rfl
  by_cases a8 : e = 't'; · subst a8; rfl
  simp [orE, a1, a2, a3, a4, a5, a6, a7, a8, Ne.symm a1, Ne.symm a2, Ne.symm a3, Ne.symm a4, Ne.symm a5,
    Ne.symm a6, Ne.symm a7, Ne.symm a8]

theorem scStep_bs (r : List Char) :
    scStep ('\\' :: r) = orE (escStep r) (bindE (matchStr ['u'] r) ushStep) := by
  simp [scStep, matchStr, orE, negOut, bindE]

theorem isAsciiHex_eq (c : Char) : isAsciiHex c = isHex c := by
  simp only [isAsciiHex, isAsciiDigit, isHex]
  cases (decide (48 ≤ c.toNat) && decide (c.toNat ≤ 57)) <;> cases (decide (65 ≤ c.toNat) && decide (c.toNat ≤ 70)) <;>
    cases (decide (97 ≤ c.toNat) && decide (c.toNat ≤ 102)) <;> rfl

def hex4B (s : List Char) : Option (List Char) :=
  match s with
  | h1 :: h2 :: h3 :: h4 :: r => if isHex h1 && isHex h2 && isHex h3 && isHex h4 then some r else none
  | _ => none

theorem hex4Step_eq (s : List Char) : hex4Step s = hex4B s := by
  unfold hex4Step hex4B
  rcases s with _ | ⟨h1, _ | ⟨h2, _ | ⟨h3, _ | ⟨h4, r⟩⟩⟩⟩ <;>
    simp only [classStep, isAsciiHex_eq, bindE]
  · cases a1 : isHex h1 <;> simp
  · cases a1 : isHex h1 <;> cases a2 : isHex h2 <;> simp [a2]
  · cases a1 : isHex h1 <;> cases a2 : isHex h2 <;> cases a3 : isHex h3 <;> simp [a2, a3]
  · cases a1 : isHex h1 <;> cases a2 : isHex h2 <;> cases a3 : isHex h3 <;> cases a4 : isHex h4 <;> simp [a2, a3, a4]

def hiB (h2 : Char) : Bool :=
  h2 = '8' || h2 = '9' || (97 ≤ h2.toNat && h2.toNat ≤ 102) || (65 ≤ h2.toNat && h2.toNat ≤ 70)

def surB (h1 h2 : Char) : Bool := (h1 = 'd' || h1 = 'D') && hiB h2

theorem hiStep_cons (h2 : Char) (t : List Char) : hiStep (h2 :: t) = if hiB h2 then some t else none := by
  have e8 : '8'.toNat = 56 := by decide
  have e9 : '9'.toNat = 57 := by decide
  have ea : 'a'.toNat = 97 := by decide
  have ef : 'f'.toNat = 102 := by decide
  have eA : 'A'.toNat = 65 := by decide
  have eF : 'F'.toNat = 70 := by decide
  simp only [hiStep, classStep, e8, e9, ea, ef, eA, eF, hiB]
  have k : (decide (h2 = '8') || decide (h2 = '9')) = (decide (56 ≤ h2.toNat) && decide (h2.toNat ≤ 57)) := by
    rw [Bool.eq_iff_iff]
    simp only [Bool.or_eq_true, Bool.and_eq_true, decide_eq_true_eq, AGV.Lemmas.Literal.char_eq_iff, e8, e9]
    omega
  simp only [k]
  cases b1 : (decide (56 ≤ h2.toNat) && decide (h2.toNat ≤ 57)) <;>
    cases b2 : (decide (97 ≤ h2.toNat) && decide (h2.toNat ≤ 102)) <;>
    cases b3 : (decide (65 ≤ h2.toNat) && decide (h2.toNat ≤ 70)) <;> simp [orE]

theorem surStep_2 (h1 h2 : Char) (t : List Char) :
    surStep (h1 :: h2 :: t) = if surB h1 h2 then some t else none := by
  simp only [surStep, matchInsens, surB]
  by_cases hd : h1 = 'd' ∨ h1 = 'D'
  · have : lowerAscii 'd' = lowerAscii h1 := (lower_d h1).2 hd
    have hb : (decide (h1 = 'd') || decide (h1 = 'D')) = true := by simpa using hd
    simp only [this, if_true, bindE, hb, Bool.true_and, hiStep_cons]
  · have : ¬ lowerAscii 'd' = lowerAscii h1 := fun e => hd ((lower_d h1).1 e)
    have hb : (decide (h1 = 'd') || decide (h1 = 'D')) = false := by simpa using hd
    simp only [this, if_false, bindE, hb, Bool.false_and, Bool.false_eq_true]

theorem hex4ok_eq (h1 h2 h3 h4 : Char) :
    hex4ok h1 h2 h3 h4 = (!surB h1 h2 && isHex h1 && isHex h2 && isHex h3 && isHex h4) := rfl

def ushB (s : List Char) : Option (List Char) :=
  match s with
  | h1 :: h2 :: h3 :: h4 :: r => if hex4ok h1 h2 h3 h4 then some r else none
  | _ => none

theorem negOut_bind_hex (r : List Char) (X : Option (List Char)) (h : hex4B r = none) :
    bindE (negOut r X) hex4Step = none := by
  cases X with
  | none => simp only [negOut, bindE, hex4Step_eq, h]
  | some x => rfl

theorem ushStep_eq (s : List Char) : ushStep s = ushB s := by
  unfold ushStep
  rcases s with _ | ⟨h1, _ | ⟨h2, _ | ⟨h3, _ | ⟨h4, r⟩⟩⟩⟩
  · exact negOut_bind_hex _ _ rfl
  · exact negOut_bind_hex _ _ rfl
  · exact negOut_bind_hex _ _ rfl
  · exact negOut_bind_hex _ _ rfl
  · rw [surStep_2]
    simp only [ushB, hex4ok_eq]
    by_cases hs : surB h1 h2 = true
    · simp only [hs, if_true, negOut, bindE, Bool.not_true, Bool.false_and, Bool.false_eq_true, if_false]
    · have hs' : surB h1 h2 = false := by simpa using hs
      simp only [hs', Bool.false_eq_true, if_false, negOut, bindE, hex4Step_eq, hex4B, Bool.not_false, Bool.true_and]

theorem scStep_lt' (s r : List Char) (h : scStep s = some r) : r.length < s.length := by
  cases s with
  | nil => rw [scStep_nil] at h; cases h
  | cons c t =>
    by_cases h1 : c = '"'
    · subst h1; rw [scStep_quote] at h; cases h
    by_cases h2 : c = '\\'
    · subst h2
      rw [scStep_bs] at h
      cases t with
      | nil => simp [escStep, matchStr, orE, bindE] at h
      | cons e r' =>
        rw [escStep_cons] at h
        by_cases hs : isSimpleEsc e = true
        · simp [hs, orE] at h; subst h; simp; omega
        · simp only [hs, Bool.false_eq_true, if_false, orE, matchStr] at h
          by_cases hu : 'u' = e
          · simp only [hu, if_true, bindE, ushStep_eq] at h
            unfold ushB at h
            split at h
            · split at h <;> simp at h; subst h; simp; omega
            · cases h
          · simp [hu, bindE] at h
    by_cases h3 : c = '\n' ∨ c = '\r'
    · rw [scStep_lt c t h3] at h; cases h
    · simp only [not_or] at h3
      rw [scStep_plain c t h1 h2 h3.1 h3.2] at h; cases h; simp

/-- scanning `string_character*` stops exactly at the closing quote `scanStr` finds, and where there
    is none the closing quote cannot match -/
theorem strScan (n : Nat) (s : List Char) (hn : s.length ≤ n) :
    (∀ raw rest, scanStr s = some (raw, rest) → iter scStep n s = '"' :: rest ∧ s = raw ++ '"' :: rest) ∧
    (scanStr s = none → matchStr ['"'] (iter scStep n s) = none) := by
  induction n generalizing s with
  | zero =>
    cases s with
    | nil => simp [scanStr, iter, matchStr]
    | cons _ _ => simp at hn
  | succ n ih =>
    cases s with
    | nil => simp [scanStr, iter, scStep_nil, matchStr]
    | cons c t =>
      simp only [List.length_cons] at hn
      by_cases h1 : c = '"'
      · subst h1
        have hsc : scanStr ('"' :: t) = some ([], t) := by rw [scanStr.eq_def]; simp
        simp [hsc, iter, scStep_quote]
      by_cases h2 : c = '\\'
      · subst h2
        cases t with
        | nil => simp [scanStr, iter, scStep_bs, escStep, matchStr, orE, bindE]
        | cons e r' =>
          simp only [List.length_cons] at hn
          by_cases hs : isSimpleEsc e = true
          · have hstep : scStep ('\\' :: e :: r') = some r' := by simp [scStep_bs, escStep_cons, hs, orE]
            obtain ⟨i1, i2⟩ := ih r' (by omega)
            have hsc : scanStr ('\\' :: e :: r') = (scanStr r').map (fun x => ('\\' :: e :: x.1, x.2)) := by
              rw [scanStr.eq_def]; simp [hs]; cases scanStr r' <;> rfl
            rw [hsc]
            simp only [iter, hstep]
            constructor
            · intro raw rest h
              cases hr : scanStr r' with
              | none => simp [hr] at h
              | some x =>
                obtain ⟨raw', rest'⟩ := x
                simp [hr] at h
                obtain ⟨rfl, rfl⟩ := h
                obtain ⟨j1, j2⟩ := i1 _ _ hr
                exact ⟨j1, by rw [j2]; simp⟩
            · intro h
              cases hr : scanStr r' with
              | none => exact i2 hr
              | some x => simp [hr] at h
          · by_cases hu : e = 'u'
            · subst hu
              have hstep : scStep ('\\' :: 'u' :: r') = ushB r' := by
                simp [scStep_bs, escStep_cons, hs, orE, matchStr, bindE, ushStep_eq]
              rcases r' with _ | ⟨h1, _ | ⟨h2, _ | ⟨h3, _ | ⟨h4, r''⟩⟩⟩⟩
              · simp [scanStr, hs, iter, hstep, ushB, matchStr]
              · simp [scanStr, hs, iter, hstep, ushB, matchStr]
              · simp [scanStr, hs, iter, hstep, ushB, matchStr]
              · simp [scanStr, hs, iter, hstep, ushB, matchStr]
              · simp only [List.length_cons] at hn
                by_cases hok : hex4ok h1 h2 h3 h4 = true
                · obtain ⟨i1, i2⟩ := ih r'' (by omega)
                  have hsc : scanStr ('\\' :: 'u' :: h1 :: h2 :: h3 :: h4 :: r'') =
                      (scanStr r'').map (fun x => ('\\' :: 'u' :: h1 :: h2 :: h3 :: h4 :: x.1, x.2)) := by
                    rw [scanStr.eq_def]; simp [hs, hok]; cases scanStr r'' <;> rfl
                  rw [hsc]
                  simp only [iter, hstep, ushB, hok, if_true]
                  constructor
                  · intro raw rest h
                    cases hr : scanStr r'' with
                    | none => simp [hr] at h
                    | some x =>
                      obtain ⟨raw', rest'⟩ := x
                      simp [hr] at h
                      obtain ⟨rfl, rfl⟩ := h
                      obtain ⟨j1, j2⟩ := i1 _ _ hr
                      exact ⟨j1, by rw [j2]; simp⟩
                  · intro h
                    cases hr : scanStr r'' with
                    | none => exact i2 hr
                    | some x => simp [hr] at h
                · simp [scanStr, hs, hok, iter, hstep, ushB, matchStr]
            · have hu' : ¬ 'u' = e := fun x => hu x.symm
              have hstep : scStep ('\\' :: e :: r') = none := by
                simp [scStep_bs, escStep_cons, hs, orE, matchStr, bindE, hu']
              have hsc : scanStr ('\\' :: e :: r') = none := by rw [scanStr.eq_def]; simp [hs, hu]
              simp [hsc, iter, hstep, matchStr]
      by_cases h3 : c = '\n' ∨ c = '\r'
      · have hstep := scStep_lt c t h3
        have hsc : scanStr (c :: t) = none := by
          rw [scanStr.eq_def]; simp only [h1, h2, if_false]
          rcases h3 with rfl | rfl <;> simp
        have hq : ¬ '"' = c := fun x => h1 x.symm
        simp [hsc, iter, hstep, matchStr, hq]
      · simp only [not_or] at h3
        have hstep := scStep_plain c t h1 h2 h3.1 h3.2
        obtain ⟨i1, i2⟩ := ih t (by omega)
        have hsc : scanStr (c :: t) = (scanStr t).map (fun x => (c :: x.1, x.2)) := by
          rw [scanStr.eq_def]; simp [h1, h2, h3.1, h3.2]; cases scanStr t <;> rfl
        rw [hsc]
        simp only [iter, hstep]
        constructor
        · intro raw rest h
          cases hr : scanStr t with
          | none => simp [hr] at h
          | some x =>
            obtain ⟨raw', rest'⟩ := x
            simp [hr] at h
            obtain ⟨rfl, rfl⟩ := h
            obtain ⟨j1, j2⟩ := i1 _ _ hr
            exact ⟨j1, by rw [j2]; simp⟩
        · intro h
          cases hr : scanStr t with
          | none => exact i2 hr
          | some x => simp [hr] at h

/-- `string_value` never fails on a content the grammar accepted -/
theorem stringValue_total (n : Nat) (s raw rest : List Char) (hn : s.length ≤ n)
    (h : scanStr s = some (raw, rest)) : ∃ v, stringValue raw = some v := by
  induction n generalizing s raw with
  | zero =>
    cases s with
    | nil => simp [scanStr] at h
    | cons _ _ => simp at hn
  | succ n ih =>
    cases s with
    | nil => simp [scanStr] at h
    | cons c t =>
      simp only [List.length_cons] at hn
      rw [scanStr.eq_def] at h
      by_cases h1 : c = '"'
      · subst h1; simp at h; obtain ⟨rfl, -⟩ := h; exact ⟨[], rfl⟩
      by_cases h2 : c = '\\'
      · subst h2
        cases t with
        | nil => simp at h
        | cons e r' =>
          simp only [List.length_cons] at hn
          by_cases hs : isSimpleEsc e = true
          · simp only [h1, if_false, if_true, hs] at h
            cases hr : scanStr r' with
            | none => simp [hr] at h
            | some x =>
              obtain ⟨raw', rest'⟩ := x
              simp [hr] at h
              obtain ⟨rfl, rfl⟩ := h
              obtain ⟨v, hv⟩ := ih r' raw' (by omega) hr
              have hx : (escaped e).isSome = true := by rw [← AGV.Lemmas.Literal.isSimpleEsc_escaped]; exact hs
              obtain ⟨x, hx⟩ := Option.isSome_iff_exists.1 hx
              exact ⟨x :: v, by rw [AGV.Lemmas.Literal.sv_simple e x raw' hx, hv]; rfl⟩
          · by_cases hu : e = 'u'
            · subst hu
              simp only [h1, if_false, if_true, hs, Bool.false_eq_true] at h
              rcases r' with _ | ⟨h1', _ | ⟨h2', _ | ⟨h3', _ | ⟨h4', r''⟩⟩⟩⟩
              · simp at h
              · simp at h
              · simp at h
              · simp at h
              · simp only [List.length_cons] at hn
                by_cases hok : hex4ok h1' h2' h3' h4' = true
                · simp only [hok, if_true] at h
                  cases hr : scanStr r'' with
                  | none => simp [hr] at h
                  | some x =>
                    obtain ⟨raw', rest'⟩ := x
                    simp [hr] at h
                    obtain ⟨rfl, rfl⟩ := h
                    obtain ⟨v, hv⟩ := ih r'' raw' (by omega) hr
                    have hk := hok
                    rw [hex4ok_eq] at hk
                    simp only [Bool.and_eq_true] at hk
                    obtain ⟨⟨⟨⟨-, a1⟩, a2⟩, a3⟩, a4⟩ := hk
                    have hval := (AGV.Lemmas.Literal.hex4ok_valid h1' h2' h3' h4' a1 a2 a3 a4).1 hok
                    exact ⟨_, by rw [AGV.Lemmas.Literal.sv_u h1' h2' h3' h4' raw' a1 a2 a3 a4 hval, hv]; rfl⟩
                · simp [hok] at h
            · simp [hs, hu] at h
      · by_cases h3 : c = '\n' ∨ c = '\r'
        · simp only [h1, h2, if_false] at h
          rcases h3 with rfl | rfl <;> simp at h
        · simp only [not_or] at h3
          simp only [h1, h2, if_false, h3.1, h3.2, decide_false, Bool.or_self, Bool.false_eq_true] at h
          cases hr : scanStr t with
          | none => simp [hr] at h
          | some x =>
            obtain ⟨raw', rest'⟩ := x
            simp [hr] at h
            obtain ⟨rfl, rfl⟩ := h
            obtain ⟨v, hv⟩ := ih t raw' (by omega) hr
            exact ⟨c :: v, by rw [AGV.Lemmas.Literal.sv_plain c raw' h2, hv]; rfl⟩

-- ------------------------------------------------------------------ the `string` rule

def stringRuleP : Rule :=
  ⟨"string", .compound,
    .choice (.seq (.str tq) (.seq (.ident "block_string_content") (.str tq)))
      (.seq (.neg (.str tq)) (.seq (.str ['"']) (.seq (.ident "string_content") (.str ['"']))))⟩

def strNames : List String :=
  ["block_string_content", "block_string_character", "string_content", "string_character",
    "unicode_scalar_value_hex", "line_terminator"]

theorem strQuiet {g : Grammar} (T : TokRules g) (S : StrRules g) : quietB g strNames = true := by
  simp only [quietB, strNames, List.all_cons, List.all_nil, S.bsContent, S.bsChar, S.content, S.char, S.ush, T.lt]
  decide

/-- `block_string_content` / `string_content` where a pair is emitted: the content up to where the
    character scan stops, as one pair without inner pairs -/
theorem ev_content {g : Grammar} (T : TokRules g) (S : StrRules g) (c : Ctx) (he : emits c = true)
    (n : String) (r : Rule) (chr : String) (step : List Char → Option (List Char)) (Na : Nat)
    (h1 : n ≠ "SOI") (h2 : n ≠ "EOI") (hp : charClass n = none)
    (hr : findRule g n = some r) (hty : r.ty = .atomic) (hex : r.expr = .rep (.ident chr))
    (hchr : okName strNames chr = true)
    (hstep : ∀ c', c'.atom = .atomic → ∀ s, Ev g c' (.ident chr) s Na (step s))
    (hlt : ∀ s r, step s = some r → r.length < s.length) (p : Nat) (s : List Char) :
    EvR g c (.ident n) p s (s.length + Na + 3)
      (.ok (p + (s.length - (iter step s.length s).length)) (iter step s.length s)
        [Pair.mk n p (p + (s.length - (iter step s.length s).length)) []]) := by
  have hca : (bodyCtx c r).atom = .atomic := by simp [bodyCtx, hty]
  have hev := Ev.rep_iter hca step s.length (fun t _ => hstep _ hca t) hlt s (Nat.le_refl _)
  have hb := EvR.ofEv_quiet strNames (strQuiet T S) hca
    (by intro m hm; simp [idents] at hm; subst hm; exact hchr) hev p
  rw [← hex] at hb
  refine (EvR.rule h1 h2 hp hr hb (by omega)).cast ?_
  have hs : (RuleTy.atomic = RuleTy.silent) = False := by decide
  simp only [wrapRule, hty, hs, if_false, he, if_true]

/-- end position, rest and content pair of a string token at `(p, s)` -/
def stringInner (p : Nat) (s : List Char) : Option (Nat × List Char × Pair) :=
  match matchStr tq s with
  | some s1 =>
    (splitBlock s1).map (fun x =>
      (p + x.1.length + 6, x.2, Pair.mk "block_string_content" (p + 3) (p + 3 + x.1.length) []))
  | none =>
    match matchStr ['"'] s with
    | some s1 =>
      (scanStr s1).map (fun x =>
        (p + x.1.length + 2, x.2, Pair.mk "string_content" (p + 1) (p + 1 + x.1.length) []))
    | none => none

def stringBodyRes (p : Nat) (s : List Char) : Res :=
  match stringInner p s with
  | some (p1, rest, q) => .ok p1 rest [q]
  | none => .fail

def stringRes (p : Nat) (s : List Char) : Res :=
  match stringInner p s with
  | some (p1, rest, q) => .ok p1 rest [Pair.mk "string" p p1 [q]]
  | none => .fail

theorem ev_stringBody {g : Grammar} (T : TokRules g) (S : StrRules g) (c : Ctx) (hl : c.look = false)
    (p : Nat) (s : List Char) :
    EvR g { c with atom := .compound } stringRuleP.expr p s (s.length + 21) (stringBodyRes p s) := by
  have hem : emits { c with atom := .compound } = true := by simp [emits, hl]; decide
  have hcn : ({ c with atom := .compound } : Ctx).atom ≠ .non := by simp
  unfold stringBodyRes stringInner
  simp only [stringRuleP]
  cases hm : matchStr tq s with
  | some s1 =>
    dsimp only
    have hs1 := matchStr_append _ _ _ hm
    have hlen : s.length = s1.length + 3 := by rw [hs1]; simp [tq]
    have hopen : EvR g { c with atom := .compound } (.str tq) p s 1 (.ok (p + 3) s1 []) := EvR.str_ok hm
    have hcont := ev_content T S { c with atom := .compound } hem "block_string_content" _ "block_string_character"
      bsStep 6 (by decide) (by decide) (by rfl) S.bsContent rfl rfl (by decide)
      (fun c' hc' t => ev_bsChar S c' hc' t) bsStep_lt (p + 3) s1
    obtain ⟨b1, b2⟩ := blockScan s1.length s1 (Nat.le_refl _)
    cases hsp : splitBlock s1 with
    | some x =>
      obtain ⟨raw, rest⟩ := x
      obtain ⟨e1, e2⟩ := b1 _ _ hsp
      rw [e1] at hcont
      have hl2 : s1.length - (tq ++ rest).length = raw.length := by rw [e2]; simp [tq]
      rw [hl2] at hcont
      have hclose : EvR g { c with atom := .compound } (.str tq) (p + 3 + raw.length) (tq ++ rest) 1
          (.ok (p + 3 + raw.length + 3) rest []) := EvR.str_ok (matchStr_self_append _ _)
      have h2 := EvR.seq_tight hcn hcont hclose (K := s.length + 16) (by omega) (by omega)
      have h3 := EvR.seq_tight hcn hopen h2 (K := s.length + 17) (by omega) (by omega)
      refine (EvR.choice_l h3 (by omega)).cast ?_
      simp only [prepend_ok, List.nil_append, List.append_nil, Option.map_some]
      have : p + 3 + raw.length + 3 = p + raw.length + 6 := by omega
      rw [this]
    | none =>
      have e2 := b2 hsp
      have hclose : EvR g { c with atom := .compound } (.str tq) (p + 3 + (s1.length - (iter bsStep s1.length s1).length))
          (iter bsStep s1.length s1) 1 .fail := EvR.str_fail e2
      have h2 := EvR.seq_tight hcn hcont hclose (K := s.length + 16) (by omega) (by omega)
      have h3 := EvR.seq_tight hcn hopen h2 (K := s.length + 17) (by omega) (by omega)
      simp only [prepend_fail] at h3
      have hneg : EvR g { c with atom := .compound } (.neg (.str tq)) p s 2 .fail :=
        EvR.neg_ok (EvR.str_ok hm) (by omega)
      exact (EvR.choice_r h3 (EvR.seq_fail hneg (Nat.lt_succ_self 2)) (by omega) (by omega)).cast rfl
  | none =>
    dsimp only
    have h1 : EvR g { c with atom := .compound } (.seq (.str tq) (.seq (.ident "block_string_content") (.str tq))) p s 2 .fail :=
      EvR.seq_fail (EvR.str_fail hm) (by omega)
    have hneg : EvR g { c with atom := .compound } (.neg (.str tq)) p s 2 (.ok p s []) :=
      EvR.neg_fail (EvR.str_fail hm) (by omega)
    cases hq : matchStr ['"'] s with
    | none =>
      have h2 : EvR g { c with atom := .compound } (.seq (.str ['"']) (.seq (.ident "string_content") (.str ['"']))) p s 2 .fail :=
        EvR.seq_fail (EvR.str_fail hq) (by omega)
      have h3 := EvR.seq_tight hcn hneg h2 (K := 3) (by omega) (by omega)
      exact (EvR.choice_r h1 h3 (by omega) (by omega)).cast rfl
    | some s1 =>
      dsimp only
      have hs1 := matchStr_append _ _ _ hq
      have hlen : s.length = s1.length + 1 := by rw [hs1]; simp
      have hopen : EvR g { c with atom := .compound } (.str ['"']) p s 1 (.ok (p + 1) s1 []) := EvR.str_ok hq
      have hcont := ev_content T S { c with atom := .compound } hem "string_content" _ "string_character"
        scStep 15 (by decide) (by decide) (by rfl) S.content rfl rfl (by decide)
        (fun c' hc' t => ev_scChar T S c' hc' t) scStep_lt' (p + 1) s1
      obtain ⟨b1, b2⟩ := strScan s1.length s1 (Nat.le_refl _)
      cases hsp : scanStr s1 with
      | some x =>
        obtain ⟨raw, rest⟩ := x
        obtain ⟨e1, e2⟩ := b1 _ _ hsp
        rw [e1] at hcont
        have hl2 : s1.length - ('"' :: rest).length = raw.length := by rw [e2]; simp
        rw [hl2] at hcont
        have hclose : EvR g { c with atom := .compound } (.str ['"']) (p + 1 + raw.length) ('"' :: rest) 1
            (.ok (p + 1 + raw.length + 1) rest []) := EvR.str_ok (by simp [matchStr])
        have h2 := EvR.seq_tight hcn hcont hclose (K := s.length + 18) (by omega) (by omega)
        have h3 := EvR.seq_tight hcn hopen h2 (K := s.length + 19) (by omega) (by omega)
        have h4 := EvR.seq_tight hcn hneg h3 (K := s.length + 20) (by omega) (by omega)
        refine (EvR.choice_r h1 h4 (by omega) (by omega)).cast ?_
        simp only [prepend_ok, List.nil_append, List.append_nil, Option.map_some]
        have : p + 1 + raw.length + 1 = p + raw.length + 2 := by omega
        rw [this]
      | none =>
        have e2 := b2 hsp
        have hclose : EvR g { c with atom := .compound } (.str ['"']) (p + 1 + (s1.length - (iter scStep s1.length s1).length))
            (iter scStep s1.length s1) 1 .fail := EvR.str_fail e2
        have h2 := EvR.seq_tight hcn hcont hclose (K := s.length + 18) (by omega) (by omega)
        have h3 := EvR.seq_tight hcn hopen h2 (K := s.length + 19) (by omega) (by omega)
        have h4 := EvR.seq_tight hcn hneg h3 (K := s.length + 20) (by omega) (by omega)
        simp only [prepend_fail] at h4
        exact (EvR.choice_r h1 h4 (by omega) (by omega)).cast rfl

/-- the repaired `string` rule, exactly -/
theorem ev_stringR {g : Grammar} (T : TokRules g) (S : StrRules g)
    (hstr : findRule g "string" = some stringRuleP) (c : Ctx) (hl : c.look = false) (hna : c.atom ≠ .atomic)
    (p : Nat) (s : List Char) :
    EvR g c (.ident "string") p s (s.length + 22) (stringRes p s) := by
  have hec : emits c = true := by
    cases ha : c.atom <;> simp [emits, hl, ha] <;> first | decide | exact absurd ha hna
  have hb := ev_stringBody T S c hl p s
  have hcc : bodyCtx c stringRuleP = { c with atom := .compound } := rfl
  rw [← hcc] at hb
  refine (EvR.rule (by decide) (by decide) (by rfl) hstr hb (by omega)).cast ?_
  unfold stringRes stringBodyRes
  cases stringInner p s with
  | none => rfl
  | some x =>
    obtain ⟨p1, rest, q⟩ := x
    have hs : (RuleTy.compound = RuleTy.silent) = False := by decide
    simp only [wrapRule, stringRuleP, hs, if_false, hec, if_true]

-- ------------------------------------------------------------------ against `lexToken`

/-- value (as the tree builder computes it from the content pair) and rest of a string token -/
def strTokOf (s : List Char) : Option (List Char × List Char) :=
  match matchStr tq s with
  | some s1 => (splitBlock s1).map (fun x => (blockStringValue {} x.1, x.2))
  | none =>
    match matchStr ['"'] s with
    | some s1 => (scanStr s1).bind (fun x => (stringValue x.1).map (fun v => (v, x.2)))
    | none => none

theorem lexToken_block (r' : List Char) :
    lexToken ('"' :: '"' :: '"' :: r') =
      (lexBlock r').map (fun x => (Tok.str (AGV.Spec.Lex.blockStringValue x.1), x.2)) := by
  unfold lexToken
  have h1 : isPunct '"' = false := by decide
  have h2 : ('"' = '.') = False := by decide
  have h3 : nameStart '"' = false := by decide
  have h4 : (decide ('"' = '-') || isDig '"') = false := by decide
  simp only [h1, h2, h3, h4, Bool.false_eq_true, if_false, if_true]
  cases lexBlock r' with
  | none => rfl
  | some x => rfl

theorem lexToken_plain (r : List Char) (hnb : ∀ r', r ≠ '"' :: '"' :: r') :
    lexToken ('"' :: r) = (lexString r).map (fun x => (Tok.str x.1, x.2)) := by
  unfold lexToken
  have h1 : isPunct '"' = false := by decide
  have h2 : ('"' = '.') = False := by decide
  have h3 : nameStart '"' = false := by decide
  have h4 : (decide ('"' = '-') || isDig '"') = false := by decide
  simp only [h1, h2, h3, h4, Bool.false_eq_true, if_false, if_true]
  cases hs : lexString r with
  | none =>
    simp only [Option.map_none]
  | some x =>
    simp only [Option.map_some]

theorem lexToken_str_inv {s rest v : List Char} (h : lexToken s = some (.str v, rest)) : ∃ r, s = '"' :: r := by
  unfold lexToken at h
  repeat' (split at h)
  all_goals try (simp only [Option.some.injEq, Prod.mk.injEq, reduceCtorEq, false_and] at h)
  · have := lexNumber_kind h; simp [isNumTok] at this
  all_goals (subst_vars; exact ⟨_, rfl⟩)

/-- the next token is a StringValue: its value and what follows -/
def strTok (s : List Char) : Option (List Char × List Char) :=
  match lexToken s with
  | some (.str v, rest) => some (v, rest)
  | _ => none

theorem strTok_lex (s : List Char) : strTokOf s = strTok s := by
  unfold strTok
  cases s with
  | nil => rfl
  | cons c r =>
    by_cases hc : c = '"'
    · subst hc
      unfold strTokOf
      cases hm : matchStr tq ('"' :: r) with
      | some s1 =>
        have := matchStr_append _ _ _ hm
        simp only [tq, List.cons_append, List.nil_append, List.cons.injEq, true_and] at this
        subst this
        rw [lexToken_block]
        simp only []
        obtain ⟨b1, b2⟩ := lexBlock_raw s1
        cases hsp : splitBlock s1 with
        | none => rw [b2 hsp]; rfl
        | some x =>
          obtain ⟨raw, rest⟩ := x
          obtain ⟨v, e1, e2⟩ := b1 _ _ hsp
          rw [e1]
          have hv := AGV.Lemmas.ParseC13.lexBlock_unescape raw v e2
          have e : blockStringValue {} raw = blockStringValue { blockEscapeKept := true } (unescapeTriple raw) := rfl
          simp only [Option.map_some, e, AGV.Lemmas.ParseC13.blockPipeline_eq, hv]
      | none =>
        have hq : matchStr ['"'] ('"' :: r) = some r := by simp [matchStr]
        have hnb : ∀ r', r ≠ '"' :: '"' :: r' := fun r' e => by
          subst e; simp [tq, matchStr] at hm
        rw [lexToken_plain r hnb, AGV.Lemmas.Literal.lexString_eq_lexQuoted, lexQuoted]
        simp only [hq]
        cases scanStr r with
        | none => rfl
        | some x =>
          obtain ⟨raw, rest⟩ := x
          simp only [Option.bind_some]
          cases stringValue raw <;> rfl
    · have h1 : matchStr tq (c :: r) = none := by simp [tq, matchStr, Ne.symm hc]
      have h2 : matchStr ['"'] (c :: r) = none := by simp [matchStr, Ne.symm hc]
      simp only [strTokOf, h1, h2]
      cases hl : lexToken (c :: r) with
      | none => rfl
      | some x =>
        obtain ⟨tok, rest⟩ := x
        cases tok with
        | str v => obtain ⟨r', e⟩ := lexToken_str_inv hl; cases e; exact absurd rfl hc
        | _ => rfl
